import AsynqModel.Proofs.P15OrdQ
/-!
  P15, part 10 (start-order clause): `Q` is preserved by the operations that advance a task: a master lemma for a
  change of one task under inert events (`Q_task`), its instances (an instruction that only moves on, start, resume,
  return of a synchronous call, completion), and the three operations that change the observer's fields (`yield`,
  `syncE`, `new`).
-/
namespace AsynqModel.Core.P15
open AsynqModel.Core AsynqModel.Core.Spec AsynqModel.Core.P2 AsynqModel.Core.P14

/-- the live-mention witnesses of `q9` for the mentioner `v` -/
def Wit (out : Option Outcome) (ts : TaskSt) (t : Nat) : Prop :=
  (out = none ∧ ts.pending = true ∧ t ∈ ts.deps) ∨ (out = none ∧ ts.pending = false ∧ ∃ k h, ts.body = .syncret t k h)

/-- one task `t` changes, the events are inert -/
theorem Q_task {s s' : State} (t : Nat)
    (hk : (wOf s'.trace).kinds = (wOf s.trace).kinds) (ho : (wOf s'.trace).orderObl = (wOf s.trace).orderObl)
    (hm : (wOf s'.trace).mentions = (wOf s.trace).mentions)
    (hkind : ∀ f, (s'.fut f).kind = (s.fut f).kind) (hlen : s'.futs.length = s.futs.length)
    (hne : ∀ u, u ≠ t → s'.task u = s.task u ∧ s'.out u = s.out u)
    (c1 : (s'.task t).started = false → (s'.task t).deps = [])
    (c2 : (s.fut t).kind = .task → s'.out t ≠ none → (s'.task t).started = true)
    (cst : (s.task t).started = true → (s'.task t).started = true)
    (cout : s.out t ≠ none → s'.out t ≠ none)
    (c5 : ∀ d ∈ (s'.task t).deps, d ∈ (s.task t).deps)
    (c6 : ∀ f k h, (s'.task t).body = .syncret f k h → (s.task t).body = .syncret f k h)
    (c7 : (s'.task t).pending = true → (s'.task t).started = true → s'.out t = none →
      ∃ pre, (s'.task t).deps = pre ++ extractFutures (s'.task t).lastY)
    (c8 : ∀ l, (t, l) ∈ (wOf s.trace).orderObl → Cur s t l →
      s'.out t ≠ none ∨ (∀ x ∈ l, (s.task x).started = true) ∨
      ((s'.task t).pending = true ∧ (s'.task t).started = true ∧ s'.out t = none ∧ (s'.task t).lastY = (s.task t).lastY))
    (c9 : ∀ t', (s.fut t').kind = .task → Wit (s.out t) (s.task t) t' →
      (s.task t').started = true ∨ Wit (s'.out t) (s'.task t) t')
    (h : Q s) : Q s' := by
  have hst : ∀ x, (s.task x).started = true → (s'.task x).started = true := fun x hx => by
    by_cases e : x = t
    · subst e; exact cst hx
    · rw [(hne x e).1]; exact hx
  refine ⟨fun u hs => ?_, fun u hku hou => ?_, fun g c hl => ?_, fun u l hmm a ha => ?_, fun v d hd => ?_,
    fun v g k hh hb => ?_, fun u hp hs hou => ?_, fun u l hmm => ?_, fun t' v hmm hkt => ?_, fun t' v hmm => ?_,
    fun u l hmm => ?_, fun t' v hmm => ?_⟩
  rotate_right
  · rw [hm] at hmm; rw [hlen]; exact h.q12 t' v hmm
  · by_cases e : u = t
    · subst e; exact c1 hs
    · rw [(hne u e).1] at hs ⊢; exact h.q1 u hs
  · rw [hkind] at hku
    by_cases e : u = t
    · subst e; exact c2 hku hou
    · rw [(hne u e).2] at hou; rw [(hne u e).1]; exact h.q2 u hku hou
  · rw [hk] at hl; rw [hkind]; exact h.q3 g c hl
  · rw [ho] at hmm; rw [hkind]; exact h.q4 u l hmm a ha
  · rw [hm]
    by_cases e : v = t
    · subst e; exact h.q5 v d (c5 d hd)
    · rw [(hne v e).1] at hd; exact h.q5 v d hd
  · rw [hm]
    by_cases e : v = t
    · subst e; exact h.q6 v g k hh (c6 g k hh hb)
    · rw [(hne v e).1] at hb; exact h.q6 v g k hh hb
  · by_cases e : u = t
    · subst e; exact c7 hp hs hou
    · rw [(hne u e).1] at hp hs ⊢; rw [(hne u e).2] at hou; exact h.q7 u hp hs hou
  · rw [ho] at hmm
    by_cases e : u = t
    · subst e
      rcases h.q8 u l hmm with h1 | h1 | h1
      · exact Or.inl (cout h1)
      · exact Or.inr (Or.inl fun x hx => hst x (h1 x hx))
      · rcases c8 l hmm h1 with h2 | h2 | ⟨a1, a2, a3, a4⟩
        · exact Or.inl h2
        · exact Or.inr (Or.inl fun x hx => hst x (h2 x hx))
        · exact Or.inr (Or.inr ⟨a1, a2, a3, by rw [a4]; exact h1.2.2.2.1, by rw [a4]; exact h1.2.2.2.2⟩)
    · rcases h.q8 u l hmm with h1 | h1 | h1
      · left; rw [(hne u e).2]; exact h1
      · exact Or.inr (Or.inl fun x hx => hst x (h1 x hx))
      · right; right
        unfold Cur at h1 ⊢
        rw [(hne u e).1, (hne u e).2]; exact h1
  · rw [hm] at hmm; rw [hkind] at hkt
    rcases h.q9 t' v hmm hkt with h1 | h1 | h1
    · exact Or.inl (hst t' h1)
    · by_cases e : v = t
      · subst e
        rcases c9 t' hkt (Or.inl h1) with h2 | h2 | h2
        · exact Or.inl (hst t' h2)
        · exact Or.inr (Or.inl h2)
        · exact Or.inr (Or.inr h2)
      · right; left; rw [(hne v e).1, (hne v e).2]; exact h1
    · by_cases e : v = t
      · subst e
        rcases c9 t' hkt (Or.inr h1) with h2 | h2 | h2
        · exact Or.inl (hst t' h2)
        · exact Or.inr (Or.inl h2)
        · exact Or.inr (Or.inr h2)
      · right; right; rw [(hne v e).1, (hne v e).2]; exact h1
  · rw [hm] at hmm; rw [hkind]; exact h.q10 t' v hmm
  · rw [ho] at hmm; rw [hkind]; exact h.q11 u l hmm

/-- the state after `(s.updTask t g).emit e` -/
theorem upd_emit_facts (s : State) (t : Nat) (g : TaskSt → TaskSt) (e : Event) (hlt : t < s.futs.length) :
    (∀ f, (((s.updTask t g).emit e).fut f).kind = (s.fut f).kind) ∧
    ((s.updTask t g).emit e).futs.length = s.futs.length ∧
    (∀ u, u ≠ t → ((s.updTask t g).emit e).task u = s.task u ∧ ((s.updTask t g).emit e).out u = s.out u) ∧
    ((s.updTask t g).emit e).task t = g (s.task t) ∧ ((s.updTask t g).emit e).out t = s.out t := by
  refine ⟨fun f => by rw [emit_fut, kind_updTask], by simp, fun u hu => ⟨by rw [emit_task, task_updTask_ne _ _ _ _ hu],
    by rw [emit_out, out_updTask]⟩, by rw [emit_task, task_updTask_self _ _ _ hlt], by rw [emit_out, out_updTask]⟩

theorem watch_inert (s : State) (s' : State) (e : Event) (he : inertEv e = true) (ht : s'.trace = e :: s.trace) :
    (wOf s'.trace).kinds = (wOf s.trace).kinds ∧ (wOf s'.trace).orderObl = (wOf s.trace).orderObl ∧
    (wOf s'.trace).mentions = (wOf s.trace).mentions := by
  rw [ht, wOf_cons, inert_kinds _ _ he, inert_orderObl _ _ he, inert_mentions _ _ he]
  exact ⟨rfl, rfl, rfl⟩

/-- an instruction that moves the running task on: its body changes from one that is not a pending synchronous call
    to another such one; `pending`, `started`, `lastY`, `deps` stay -/
theorem Q_adv {s : State} (t : Nat) (g : TaskSt → TaskSt) (hlt : t < s.futs.length)
    (h1 : (g (s.task t)).pending = (s.task t).pending) (h2 : (g (s.task t)).started = (s.task t).started)
    (h4 : (g (s.task t)).lastY = (s.task t).lastY) (h5 : (g (s.task t)).deps = (s.task t).deps)
    (hb0 : isSyncret (s.task t).body = false) (hb1 : isSyncret (g (s.task t)).body = false) (h : Q s) :
    Q (s.updTask t g) := by
  have et : (s.updTask t g).task t = g (s.task t) := task_updTask_self _ _ _ hlt
  have eo : ∀ u, (s.updTask t g).out u = s.out u := fun u => out_updTask s t u g
  refine Q_task (s := s) (s' := s.updTask t g) t rfl rfl rfl (fun f => kind_updTask s t f g) (by simp)
    (fun u hu => ⟨task_updTask_ne _ _ _ _ hu, eo u⟩) ?_ ?_ ?_ ?_ ?_ ?_ ?_ ?_ ?_ h
  · rw [et, h2, h5]; exact h.q1 t
  · rw [et, h2, eo]; exact h.q2 t
  · rw [et, h2]; exact id
  · rw [eo]; exact id
  · rw [et, h5]; exact fun d hd => hd
  · intro f k hh hb; rw [et] at hb; exact absurd hb (isSyncret_false hb1 f k hh)
  · rw [et, h1, h2, h4, h5, eo]; exact h.q7 t
  · intro l _ hc
    right; right
    rw [et, h1, h2, h4, eo]; exact ⟨hc.1, hc.2.1, hc.2.2.1, rfl⟩
  · intro t' _ hw
    right
    rcases hw with ⟨a1, a2, a3⟩ | ⟨_, _, k, hh, a3⟩
    · left; rw [et, h1, h5, eo]; exact ⟨a1, a2, a3⟩
    · exact absurd a3 (isSyncret_false hb0 t' k hh)

/-- the first start of task `t` -/
theorem Q_start {s : State} (t : Nat) (g : TaskSt → TaskSt) (e : Event) (he : inertEv e = true)
    (hlt : t < s.futs.length) (hs : (s.task t).started = false) (hp : (s.task t).pending = true)
    (g1 : (g (s.task t)).started = true) (g2 : (g (s.task t)).pending = false) (g3 : (g (s.task t)).deps = [])
    (g4 : (g (s.task t)).body = (s.task t).body) (h : Q s) : Q ((s.updTask t g).emit e) := by
  obtain ⟨f1, f0, f2, f3, f4⟩ := upd_emit_facts s t g e hlt
  obtain ⟨w1, w2, w3⟩ := watch_inert s ((s.updTask t g).emit e) e he rfl
  refine Q_task t w1 w2 w3 f1 f0 f2 ?_ ?_ ?_ ?_ ?_ ?_ ?_ ?_ ?_ h
  · rw [f3, g1]; intro hh; cases hh
  · intro _ _; rw [f3]; exact g1
  · intro _; rw [f3]; exact g1
  · rw [f4]; exact id
  · rw [f3, g3]; intro d hd; cases hd
  · intro f k hh hb; rw [f3, g4] at hb; exact hb
  · rw [f3, g2]; intro hh; cases hh
  · intro l _ hc; have := hc.2.1; rw [hs] at this; cases this
  · intro t' _ hw
    rcases hw with ⟨_, _, a3⟩ | ⟨_, a2, _⟩
    · rw [h.q1 t hs] at a3; cases a3
    · rw [hp] at a2; cases a2

/-- a resume of task `t`: everything it depends on is computed -/
theorem Q_resume {s : State} (t : Nat) (g : TaskSt → TaskSt) (e : Event) (he : inertEv e = true)
    (hlt : t < s.futs.length) (hp : (s.task t).pending = true)
    (hdeps : ∀ d ∈ (s.task t).deps, s.out d ≠ none)
    (g1 : (g (s.task t)).started = true) (g2 : (g (s.task t)).pending = false)
    (g3 : ∀ d ∈ (g (s.task t)).deps, d ∈ (s.task t).deps)
    (g4 : isSyncret (g (s.task t)).body = false) (h : Q s) : Q ((s.updTask t g).emit e) := by
  obtain ⟨f1, f0, f2, f3, f4⟩ := upd_emit_facts s t g e hlt
  obtain ⟨w1, w2, w3⟩ := watch_inert s ((s.updTask t g).emit e) e he rfl
  refine Q_task t w1 w2 w3 f1 f0 f2 ?_ ?_ ?_ ?_ ?_ ?_ ?_ ?_ ?_ h
  · rw [f3, g1]; intro hh; cases hh
  · intro _ _; rw [f3]; exact g1
  · intro _; rw [f3]; exact g1
  · rw [f4]; exact id
  · rw [f3]; exact g3
  · intro f k hh hb; rw [f3] at hb; exact absurd hb (isSyncret_false g4 f k hh)
  · rw [f3, g2]; intro hh; cases hh
  · intro l hml hc
    right; left
    intro x hx
    obtain ⟨c1, c2, c3, ⟨P, c4⟩, _⟩ := hc
    obtain ⟨pre, hpre⟩ := h.q7 t c1 c2 c3
    have hxl : x ∈ (s.task t).lastY.leaves := by
      rw [c4] at hx
      exact mem_orderedLeaves_leaves _ _ (List.mem_eraseDups.1 (List.mem_filter.1 hx).1)
    have hxd : x ∈ (s.task t).deps := by
      rw [hpre]; exact List.mem_append_right _ ((mem_extractFutures _ _).2 hxl)
    exact h.q2 x (h.q4 t l hml x hx) (hdeps x hxd)
  · intro t' hkt hw
    rcases hw with ⟨_, _, a3⟩ | ⟨_, a2, _⟩
    · exact Or.inl (h.q2 t' hkt (hdeps t' a3))
    · rw [hp] at a2; cases a2

/-- a synchronous call returns to task `t`: its target is computed (hence started if it is a task) -/
theorem Q_unsync {s : State} (t f : Nat) (k hh : Body) (g : TaskSt → TaskSt) (e : Event) (he : inertEv e = true)
    (hlt : t < s.futs.length) (hb : (s.task t).body = .syncret f k hh) (hp : (s.task t).pending = false)
    (hf : (s.fut f).kind = .task → (s.task f).started = true)
    (g1 : (g (s.task t)).pending = false) (g2 : (g (s.task t)).started = (s.task t).started)
    (g4 : (g (s.task t)).lastY = (s.task t).lastY) (g5 : (g (s.task t)).deps = (s.task t).deps)
    (g6 : isSyncret (g (s.task t)).body = false) (h : Q s) : Q ((s.updTask t g).emit e) := by
  obtain ⟨f1, f0, f2, f3, f4⟩ := upd_emit_facts s t g e hlt
  obtain ⟨w1, w2, w3⟩ := watch_inert s ((s.updTask t g).emit e) e he rfl
  refine Q_task t w1 w2 w3 f1 f0 f2 ?_ ?_ ?_ ?_ ?_ ?_ ?_ ?_ ?_ h
  · rw [f3, g2, g5]; exact h.q1 t
  · rw [f3, g2, f4]; exact h.q2 t
  · rw [f3, g2]; exact id
  · rw [f4]; exact id
  · rw [f3, g5]; exact fun d hd => hd
  · intro f' k' h' hb'; rw [f3] at hb'; exact absurd hb' (isSyncret_false g6 f' k' h')
  · rw [f3, g1]; intro hx; cases hx
  · intro l _ hc; have := hc.1; rw [hp] at this; cases this
  · intro t' hkt hw
    rcases hw with ⟨_, a2, _⟩ | ⟨_, _, k', h', a3⟩
    · rw [hp] at a2; cases a2
    · rw [hb] at a3
      injection a3 with a3 _ _
      subst a3
      exact Or.inl (hf hkt)

theorem task_upd_complete (s : State) (t : Nat) (g : TaskSt → TaskSt) (x : Outcome) (hlt : t < s.futs.length) :
    (∀ f, (((s.updTask t g).complete t x).fut f).kind = (s.fut f).kind) ∧
    ((s.updTask t g).complete t x).futs.length = s.futs.length ∧
    (∀ u, u ≠ t → ((s.updTask t g).complete t x).task u = s.task u ∧ ((s.updTask t g).complete t x).out u = s.out u) ∧
    (((s.updTask t g).complete t x).task t).started = (g (s.task t)).started ∧
    (((s.updTask t g).complete t x).task t).pending = (g (s.task t)).pending ∧
    (((s.updTask t g).complete t x).task t).body = (g (s.task t)).body ∧
    (((s.updTask t g).complete t x).task t).deps = [] ∧
    ((s.updTask t g).complete t x).out t = some x := by
  have hl : t < (s.updTask t g).futs.length := by simpa using hlt
  have e1 : (s.updTask t g).task t = g (s.task t) := task_updTask_self _ _ _ hlt
  refine ⟨fun f => ?_, by simp [State.complete], fun u hu => ⟨?_, ?_⟩, ?_, ?_, ?_, ?_, ?_⟩
  · rw [fut_complete]
    split
    · next hc => rw [hc.1]; exact kind_updTask s t t g
    · exact kind_updTask s t f g
  · rw [P10.task_complete, if_neg (fun hc => hu hc.1), task_updTask_ne _ _ _ _ hu]
  · rw [out_complete, if_neg (fun hc => hu hc.1), out_updTask]
  · rw [P10.task_complete, if_pos ⟨rfl, hl⟩, e1]; split <;> rfl
  · rw [P10.task_complete, if_pos ⟨rfl, hl⟩, e1]; split <;> rfl
  · rw [P10.task_complete, if_pos ⟨rfl, hl⟩, e1]; split <;> rfl
  · rw [P10.task_complete, if_pos ⟨rfl, hl⟩]
  · rw [out_complete, if_pos ⟨rfl, hl⟩]

/-- the running task `t` finishes -/
theorem Q_finish {s : State} (t : Nat) (g : TaskSt → TaskSt) (x : Outcome) (hlt : t < s.futs.length)
    (hst : (s.task t).started = true) (hp : (s.task t).pending = false) (hb : isSyncret (s.task t).body = false)
    (g1 : (g (s.task t)).started = true) (g3 : (g (s.task t)).body = (s.task t).body) (h : Q s) :
    Q ((s.updTask t g).complete t x) := by
  obtain ⟨f1, f0, f2, a1, _, a3, a4, a5⟩ := task_upd_complete s t g x hlt
  obtain ⟨w1, w2, w3⟩ := watch_inert s ((s.updTask t g).complete t x) (.done t x) rfl rfl
  refine Q_task t w1 w2 w3 f1 f0 f2 ?_ ?_ ?_ ?_ ?_ ?_ ?_ ?_ ?_ h
  · intro _; exact a4
  · intro _ _; rw [a1]; exact g1
  · intro _; rw [a1]; exact g1
  · intro _; rw [a5]; intro hx; cases hx
  · rw [a4]; intro d hd; cases hd
  · intro f k hh hb'; rw [a3, g3] at hb'; exact hb'
  · intro _ _ hx; rw [a5] at hx; cases hx
  · intro l _ _; left; rw [a5]; intro hx; cases hx
  · intro t' _ hw
    rcases hw with ⟨_, a2, _⟩ | ⟨_, _, k', h', a3'⟩
    · rw [hp] at a2; cases a2
    · exact absurd a3' (isSyncret_false hb t' k' h')

/-- the running task `t` yields the structure `ry` -/
theorem Q_yield {s : State} (t i : Nat) (ry : RY) (g : TaskSt → TaskSt) (hlt : t < s.futs.length)
    (hk : (s.fut t).kind = .task) (hst : (s.task t).started = true) (hp : (s.task t).pending = false)
    (ho : s.out t = none) (hb : isSyncret (s.task t).body = false)
    (g1 : (g (s.task t)).pending = true) (g2 : (g (s.task t)).started = true) (g3 : (g (s.task t)).lastY = ry)
    (g4 : ∃ pre, (g (s.task t)).deps = pre ++ extractFutures ry ∧ ∀ d ∈ pre, d ∈ (s.task t).deps)
    (g5 : (g (s.task t)).body = (s.task t).body) (hlv : ∀ f ∈ ry.leaves, f < s.futs.length) (h : Q s) :
    Q ((s.emit (.yield t i ry)).updTask t g) := by
  have hlt' : t < (s.emit (.yield t i ry)).futs.length := by simpa using hlt
  have et : ((s.emit (.yield t i ry)).updTask t g).task t = g (s.task t) := task_updTask_self _ _ _ hlt'
  have en : ∀ u, u ≠ t → ((s.emit (.yield t i ry)).updTask t g).task u = s.task u := fun u hu =>
    task_updTask_ne _ _ _ _ hu
  have eo : ∀ u, ((s.emit (.yield t i ry)).updTask t g).out u = s.out u := fun u => out_updTask _ t u g
  have ek : ∀ f, (((s.emit (.yield t i ry)).updTask t g).fut f).kind = (s.fut f).kind := fun f => kind_updTask _ t f g
  have etr : ((s.emit (.yield t i ry)).updTask t g).trace = .yield t i ry :: s.trace := rfl
  have hst' : ∀ x, (s.task x).started = true → (((s.emit (.yield t i ry)).updTask t g).task x).started = true := by
    intro x hx
    by_cases e : x = t
    · subst e; rw [et]; exact g2
    · rw [en x e]; exact hx
  obtain ⟨pre, hdeps, hpre⟩ := g4
  refine ⟨fun u hs => ?_, fun u hku hou => ?_, fun f c hl => ?_, fun u l hm a ha => ?_, fun v d hd => ?_,
    fun v f k hh hbv => ?_, fun u hpu hsu hou => ?_, fun u l hm => ?_, fun t' v hm hkt => ?_, fun t' v hm => ?_,
    fun u l hm => ?_, fun t' v hm => ?_⟩
  · by_cases e : u = t
    · subst e; rw [et, g2] at hs; cases hs
    · rw [en u e] at hs ⊢; exact h.q1 u hs
  · rw [ek] at hku; rw [eo] at hou
    exact hst' u (h.q2 u hku hou)
  · rw [etr, wOf_cons, yield_kinds] at hl; rw [ek]; exact h.q3 f c hl
  · rw [etr, wOf_cons, yield_orderObl] at hm; rw [ek]
    rcases List.mem_cons.1 hm with hm | hm
    · injection hm with h1 h2
      subst h2
      have : (wOf s.trace).isTask a = true := by
        have := (List.mem_filter.1 ha).2
        simp only [Bool.and_eq_true] at this
        exact this.1.1.1
      unfold Watch.isTask at this
      split at this
      · next c hl => exact h.q3 a c hl
      · cases this
    · exact h.q4 u l hm a ha
  · rw [etr, wOf_cons]
    by_cases e : v = t
    · subst e
      rw [et, hdeps] at hd
      rcases List.mem_append.1 hd with hd | hd
      · exact mentions_mono _ _ _ (h.q5 v d (hpre d hd))
      · exact mention_mem _ _ _ _ ((mem_extractFutures ry d).1 hd)
    · rw [en v e] at hd; exact mentions_mono _ _ _ (h.q5 v d hd)
  · rw [etr, wOf_cons]
    by_cases e : v = t
    · subst e; rw [et, g5] at hbv; exact mentions_mono _ _ _ (h.q6 v f k hh hbv)
    · rw [en v e] at hbv; exact mentions_mono _ _ _ (h.q6 v f k hh hbv)
  · by_cases e : u = t
    · subst e; rw [et, g3, hdeps]; exact ⟨pre, rfl⟩
    · rw [en u e] at hpu hsu ⊢; rw [eo] at hou; exact h.q7 u hpu hsu hou
  · rw [etr, wOf_cons, yield_orderObl] at hm
    rcases List.mem_cons.1 hm with hm | hm
    · injection hm with h1 h2
      subst h1; subst h2
      right; right
      refine ⟨by rw [et]; exact g1, by rw [et]; exact g2, by rw [eo]; exact ho, ?_, ?_⟩
      · rw [et, g3]; exact ⟨_, rfl⟩
      · intro x hx
        rw [et, g3]
        have := (List.mem_filter.1 hx).2
        simp only [Bool.and_eq_true, Bool.not_eq_true', List.contains_eq_mem, decide_eq_false_iff_not] at this
        exact this.2
    · rcases h.q8 u l hm with h1 | h1 | h1
      · left; rw [eo]; exact h1
      · right; left; exact fun x hx => hst' x (h1 x hx)
      · by_cases e : u = t
        · subst e; have := h1.1; rw [hp] at this; cases this
        · right; right; unfold Cur at h1 ⊢; rw [en u e, eo]; exact h1
  · rw [etr, wOf_cons] at hm; rw [ek] at hkt
    rcases mention_new _ _ _ _ hm with hm | ⟨hv, hf⟩
    · rcases h.q9 t' v hm hkt with h1 | h1 | h1
      · exact Or.inl (hst' t' h1)
      · by_cases e : v = t
        · subst e; rw [hp] at h1; cases h1.2.1
        · right; left; rw [en v e, eo]; exact h1
      · by_cases e : v = t
        · subst e
          obtain ⟨_, _, k, hh, h3⟩ := h1
          exact absurd h3 (isSyncret_false hb t' k hh)
        · right; right; rw [en v e, eo]; exact h1
    · simp only at hv hf
      subst hv
      right; left
      refine ⟨by rw [eo]; exact ho, by rw [et]; exact g1, ?_⟩
      rw [et, hdeps]
      exact List.mem_append_right _ ((mem_extractFutures ry t').2 hf)
  · rw [etr, wOf_cons] at hm; rw [ek]
    rcases mention_new _ _ _ _ hm with hm | ⟨hv, _⟩
    · exact h.q10 t' v hm
    · simp only at hv; rw [hv]; exact hk
  · rw [etr, wOf_cons, yield_orderObl] at hm; rw [ek]
    rcases List.mem_cons.1 hm with hm | hm
    · injection hm with h1 _; rw [h1]; exact hk
    · exact h.q11 u l hm
  · rw [etr, wOf_cons] at hm
    have hl' : ((s.emit (.yield t i ry)).updTask t g).futs.length = s.futs.length := by simp
    rw [hl']
    rcases mention_new _ _ _ _ hm with hm | ⟨_, hf⟩
    · exact h.q12 t' v hm
    · exact hlv _ hf

/-- the running task `t` starts the synchronous call `f.value()` -/
theorem Q_syncE {s : State} (t f : Nat) (k hh : Body) (g : TaskSt → TaskSt) (hlt : t < s.futs.length)
    (hk : (s.fut t).kind = .task) (hp : (s.task t).pending = false) (ho : s.out t = none)
    (hb : isSyncret (s.task t).body = false) (hf : f < s.futs.length)
    (g1 : (g (s.task t)).pending = false) (g2 : (g (s.task t)).started = (s.task t).started)
    (g4 : (g (s.task t)).lastY = (s.task t).lastY) (g5 : (g (s.task t)).deps = (s.task t).deps)
    (g6 : (g (s.task t)).body = .syncret f k hh) (h : Q s) : Q ((s.updTask t g).emit (.syncE t f)) := by
  obtain ⟨ek, el, f2, et, eot⟩ := upd_emit_facts s t g (.syncE t f) hlt
  have en : ∀ u, u ≠ t → ((s.updTask t g).emit (.syncE t f)).task u = s.task u := fun u hu => (f2 u hu).1
  have eo : ∀ u, ((s.updTask t g).emit (.syncE t f)).out u = s.out u := fun u => by rw [emit_out, out_updTask]
  have etr : ((s.updTask t g).emit (.syncE t f)).trace = .syncE t f :: s.trace := rfl
  have hst' : ∀ x, (((s.updTask t g).emit (.syncE t f)).task x).started = (s.task x).started := by
    intro x
    by_cases e : x = t
    · subst e; rw [et]; exact g2
    · rw [en x e]
  have hmn : ∀ p, p ∈ (wOf ((s.updTask t g).emit (.syncE t f)).trace).mentions →
      p ∈ (wOf s.trace).mentions ∨ p = (f, t) := by
    intro p hp'
    rw [etr, wOf_cons] at hp'
    rcases mention_new (wOf s.trace) t [f] p hp' with h1 | ⟨h1, h2⟩
    · exact Or.inl h1
    · right
      simp only [List.mem_singleton] at h2
      exact Prod.ext h2 h1
  refine ⟨fun u hs => ?_, fun u hku hou => ?_, fun f' c hl => ?_, fun u l hm a ha => ?_, fun v d hd => ?_,
    fun v f' k' h' hbv => ?_, fun u hpu hsu hou => ?_, fun u l hm => ?_, fun t' v hm hkt => ?_, fun t' v hm => ?_,
    fun u l hm => ?_, fun t' v hm => ?_⟩
  · rw [hst'] at hs
    by_cases e : u = t
    · subst e; rw [et, g5]; exact h.q1 u hs
    · rw [en u e]; exact h.q1 u hs
  · rw [ek] at hku; rw [eo] at hou; rw [hst']; exact h.q2 u hku hou
  · rw [etr, wOf_cons, syncE_kinds] at hl; rw [ek]; exact h.q3 f' c hl
  · rw [etr, wOf_cons, syncE_orderObl] at hm; rw [ek]; exact h.q4 u l hm a ha
  · rw [etr, wOf_cons]
    by_cases e : v = t
    · subst e; rw [et, g5] at hd; exact mentions_mono _ _ _ (h.q5 v d hd)
    · rw [en v e] at hd; exact mentions_mono _ _ _ (h.q5 v d hd)
  · rw [etr, wOf_cons]
    by_cases e : v = t
    · subst e
      rw [et, g6] at hbv
      injection hbv with hbv _ _
      subst hbv
      exact mention_mem _ _ _ _ (by simp)
    · rw [en v e] at hbv; exact mentions_mono _ _ _ (h.q6 v f' k' h' hbv)
  · rw [hst'] at hsu; rw [eo] at hou
    by_cases e : u = t
    · subst e; rw [et, g1] at hpu; cases hpu
    · rw [en u e] at hpu ⊢; exact h.q7 u hpu hsu hou
  · rw [etr, wOf_cons, syncE_orderObl] at hm
    rcases h.q8 u l hm with h1 | h1 | h1
    · left; rw [eo]; exact h1
    · right; left; intro x hx; rw [hst']; exact h1 x hx
    · by_cases e : u = t
      · subst e; have := h1.1; rw [hp] at this; cases this
      · right; right; unfold Cur at h1 ⊢; rw [en u e, eo]; exact h1
  · rw [ek] at hkt
    rcases hmn _ hm with hm | hm
    · rcases h.q9 t' v hm hkt with h1 | h1 | h1
      · left; rw [hst']; exact h1
      · by_cases e : v = t
        · subst e; rw [hp] at h1; cases h1.2.1
        · right; left; rw [en v e, eo]; exact h1
      · by_cases e : v = t
        · subst e
          obtain ⟨_, _, k', h', h3⟩ := h1
          exact absurd h3 (isSyncret_false hb t' k' h')
        · right; right; rw [en v e, eo]; exact h1
    · injection hm with h1 h2
      subst h1; subst h2
      right; right
      exact ⟨by rw [eo]; exact ho, by rw [et]; exact g1, k, hh, by rw [et]; exact g6⟩
  · rw [ek]
    rcases hmn _ hm with hm | hm
    · exact h.q10 t' v hm
    · injection hm with _ h2; rw [h2]; exact hk
  · rw [etr, wOf_cons, syncE_orderObl] at hm; rw [ek]; exact h.q11 u l hm
  · rw [el]
    rcases hmn _ hm with hm | hm
    · exact h.q12 t' v hm
    · injection hm with h1 _; rw [h1]; exact hf

/-- a new future -/
theorem Q_alloc {s : State} (x : Fut) (nk : NewKind) (hx1 : x.ts.started = false) (hx2 : x.ts.deps = [])
    (hx3 : isSyncret x.ts.body = false) (hx4 : ∀ c, nk = .task c → x.kind = .task)
    (hx5 : x.kind = .task → x.out = none) (h : Q s) : Q (s.alloc x nk).1 := by
  have etr : (s.alloc x nk).1.trace = .new s.futs.length nk :: s.trace := rfl
  have wk : (wOf (s.alloc x nk).1.trace).kinds = (s.futs.length, nk) :: (wOf s.trace).kinds := by
    rw [etr, wOf_cons, new_kinds]
  have wo : (wOf (s.alloc x nk).1.trace).orderObl = (wOf s.trace).orderObl := by rw [etr, wOf_cons, new_orderObl]
  have wm : (wOf (s.alloc x nk).1.trace).mentions = (wOf s.trace).mentions := by rw [etr, wOf_cons, new_mentions]
  have hold : ∀ f, f < s.futs.length → (s.alloc x nk).1.fut f = s.fut f := fun f hf => by
    rw [fut_alloc, if_neg (by omega)]
  have holdt : ∀ f, f < s.futs.length → (s.alloc x nk).1.task f = s.task f := fun f hf => by
    unfold State.task; rw [hold f hf]
  have holdo : ∀ f, f < s.futs.length → (s.alloc x nk).1.out f = s.out f := fun f hf => by
    unfold State.out; rw [hold f hf]
  have hnew : (s.alloc x nk).1.fut s.futs.length = x := by rw [fut_alloc, if_pos rfl]
  have hnewt : (s.alloc x nk).1.task s.futs.length = x.ts := by unfold State.task; rw [hnew]
  have hlt_of_task : ∀ f, (s.fut f).kind = .task → f < s.futs.length := fun f hk => lt_of_task' hk
  have hcase : ∀ f, f < s.futs.length ∨ f = s.futs.length ∨ s.futs.length < f := fun f => by omega
  have hbig : ∀ f, s.futs.length < f → (s.alloc x nk).1.fut f = {} := fun f hf => by
    rw [fut_alloc, if_neg (by omega)]; exact fut_default_of_le s f (by omega)
  have hbigt : ∀ f, s.futs.length < f → (s.alloc x nk).1.task f = {} := fun f hf => by
    unfold State.task; rw [hbig f hf]
  refine ⟨fun u hs => ?_, fun u hku hou => ?_, fun f c hl => ?_, fun u l hm a ha => ?_, fun v d hd => ?_,
    fun v f k hh hbv => ?_, fun u hpu hsu hou => ?_, fun u l hm => ?_, fun t' v hm hkt => ?_, fun t' v hm => ?_,
    fun u l hm => ?_, fun t' v hm => ?_⟩
  · rcases hcase u with hu | hu | hu
    · rw [holdt u hu] at hs ⊢; exact h.q1 u hs
    · rw [hu, hnewt]; exact hx2
    · rw [hbigt u hu]
  · rcases hcase u with hu | hu | hu
    · rw [hold u hu] at hku; rw [holdo u hu] at hou; rw [holdt u hu]; exact h.q2 u hku hou
    · rw [hu, hnew] at hku
      have : (s.alloc x nk).1.out u = x.out := by unfold State.out; rw [hu, hnew]
      rw [this, hx5 hku] at hou; exact absurd rfl hou
    · rw [hbig u hu] at hku; cases hku
  · rw [wk, List.lookup_cons] at hl
    by_cases e : f = s.futs.length
    · subst e
      simp only [beq_self_eq_true] at hl
      injection hl with hl
      rw [hnew]; exact hx4 c hl
    · have hb : (f == s.futs.length) = false := by simp [e]
      rw [hb] at hl
      have := h.q3 f c hl
      rw [hold f (hlt_of_task f this)]; exact this
  · rw [wo] at hm
    have := h.q4 u l hm a ha
    rw [hold a (hlt_of_task a this)]; exact this
  · rw [wm]
    rcases hcase v with hu | hu | hu
    · rw [holdt v hu] at hd; exact h.q5 v d hd
    · rw [hu, hnewt, hx2] at hd; cases hd
    · rw [hbigt v hu] at hd; cases hd
  · rw [wm]
    rcases hcase v with hu | hu | hu
    · rw [holdt v hu] at hbv; exact h.q6 v f k hh hbv
    · rw [hu, hnewt] at hbv; exact absurd hbv (isSyncret_false hx3 f k hh)
    · rw [hbigt v hu] at hbv; cases hbv
  · rcases hcase u with hu | hu | hu
    · rw [holdt u hu] at hpu hsu ⊢; rw [holdo u hu] at hou; exact h.q7 u hpu hsu hou
    · rw [hu, hnewt, hx1] at hsu; cases hsu
    · rw [hbigt u hu] at hsu; cases hsu
  · rw [wo] at hm
    have hu := hlt_of_task u (h.q11 u l hm)
    rcases h.q8 u l hm with h1 | h1 | h1
    · left; rw [holdo u hu]; exact h1
    · right; left; intro y hy
      rw [holdt y (hlt_of_task y (h.q4 u l hm y hy))]; exact h1 y hy
    · right; right; unfold Cur at h1 ⊢; rw [holdt u hu, holdo u hu]; exact h1
  · rw [wm] at hm
    have ht' := h.q12 t' v hm
    have hv := hlt_of_task v (h.q10 t' v hm)
    rw [hold t' ht'] at hkt
    rw [holdt t' ht', holdt v hv, holdo v hv]
    exact h.q9 t' v hm hkt
  · rw [wm] at hm
    have := h.q10 t' v hm
    rw [hold v (hlt_of_task v this)]; exact this
  · rw [wo] at hm
    have := h.q11 u l hm
    rw [hold u (hlt_of_task u this)]; exact this
  · rw [wm] at hm
    have := h.q12 t' v hm
    rw [alloc_len]; omega

end AsynqModel.Core.P15
