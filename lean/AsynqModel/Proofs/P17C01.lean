import AsynqModel.Proofs.P17Obs
import AsynqModel.Proofs.P14Main
import AsynqModel.Proofs.P10Inv
/-!
  P17, part 11: bridges for the observer of C01 (`Spec.checkC01` = the delivery observer + the `.read` clause of C07):
  * `ws_eq`: the two transcriptions of the generator's `well_scoped` (`P4.ws`, `P10.wsB`) are the same function, so a
    `P4.ReachW` run is a `P10.WSReach` run;
  * `wOf_eq_obs`, `okTr_iff_acc`: the two formulations of "the observer accepts the trace" (P14, P13) agree;
  * `acc_C01`: the observer of C01 accepts iff the delivery observer and the `.read` clause do.
-/
namespace AsynqModel.Core.P17
open AsynqModel.Core AsynqModel.Core.Spec

theorem refOK_eq (n ni : Nat) (r : Ref) : P4.refOK n ni r = P10.refOk n ni r := by
  cases r <;> rfl

theorem ws_eq : ∀ (b : Body) (n ni : Nat) (Q : Nat → Bool), P4.ws b n ni Q = P10.wsB b n ni Q
  | .ret _, _, _, _ => rfl
  | .res _, _, _, _ => rfl
  | .raise _, _, _, _ => rfl
  | .reraise, _, _, _ => rfl
  | .endwith, _, _, _ => rfl
  | .spawn c pass k, n, ni, Q => by
    have e : P4.refOK n ni = P10.refOk n ni := funext (refOK_eq n ni)
    simp only [P4.ws, P10.wsB, ws_eq c, ws_eq k, e]
  | .item _ _ _ k, n, ni, Q => by simp only [P4.ws, P10.wsB, ws_eq k]
  | .const _ k, n, ni, Q => by simp only [P4.ws, P10.wsB, ws_eq k]
  | .errfut _ k, n, ni, Q => by simp only [P4.ws, P10.wsB, ws_eq k]
  | .lazy _ k, n, ni, Q => by simp only [P4.ws, P10.wsB, ws_eq k]
  | .yld y k h, n, ni, Q => by
    have e : P4.refOK n ni = P10.refOk n ni := funext (refOK_eq n ni)
    simp only [P4.ws, P10.wsB, ws_eq k, ws_eq h, e]
  | .reyld k h, n, ni, Q => by simp only [P4.ws, P10.wsB, ws_eq k, ws_eq h]
  | .sync c pass k h, n, ni, Q => by
    have e : P4.refOK n ni = P10.refOk n ni := funext (refOK_eq n ni)
    simp only [P4.ws, P10.wsB, ws_eq c, ws_eq k, ws_eq h, e]
  | .syncfut r k h, n, ni, Q => by simp only [P4.ws, P10.wsB, ws_eq k, ws_eq h, refOK_eq]
  | .syncret _ _ _, _, _, _ => rfl
  | .withCtx _ b k, n, ni, Q => by
    simp only [P4.ws, P10.wsB]
    rw [ws_eq b]
    congr 1
    funext m
    exact ws_eq k m ni Q
  | .read _ k, n, ni, Q => by simp only [P4.ws, P10.wsB, ws_eq k]
  | .active k, n, ni, Q => by simp only [P4.ws, P10.wsB, ws_eq k]

theorem wsreach_of_reachW {cfg : Cfg} {tops : List (Conv × Body)} {choices : List (Nat × Nat)} {s : State}
    (h : P4.ReachW cfg tops choices s) : P10.WSReach s := by
  induction h with
  | init hw =>
    refine P10.WSReach.init cfg tops choices ?_
    intro p hp
    have := hw p hp
    unfold P4.wsTop at this
    unfold P10.WellScoped
    rw [← ws_eq]; exact this
  | step _ ih => exact P10.WSReach.step ih

theorem wOf_eq_obs : ∀ tr : List Event, P14.wOf tr = P13.obs tr
  | [] => rfl
  | e :: tr => by rw [P14.wOf_cons, P13.obs_cons, wOf_eq_obs tr]

theorem okTr_iff_acc (c : Ctx) : ∀ tr : List Event, P14.okTr true c tr ↔ P13.Acc checkDelivery c tr
  | [] => Iff.rfl
  | e :: tr => by
    show (P14.okTr true c tr ∧ checkDelivery c (P14.wOf tr) e = none) ↔ _
    rw [P13.acc_cons, okTr_iff_acc c tr, wOf_eq_obs]

theorem checkC01_none_iff (c : Ctx) (w : Watch) (e : Event) :
    checkC01 c w e = none ↔ checkDelivery c w e = none ∧ checkRead c w e = none := by
  unfold checkC01
  cases h : checkDelivery c w e with
  | some m => simp
  | none => cases e <;> simp [checkRead]

theorem acc_C01 (c : Ctx) : ∀ tr : List Event,
    P13.Acc checkC01 c tr ↔ P13.Acc checkDelivery c tr ∧ P13.Acc checkRead c tr
  | [] => by simp [P13.Acc]
  | e :: tr => by
    rw [P13.acc_cons, P13.acc_cons, P13.acc_cons, acc_C01 c tr, checkC01_none_iff]
    constructor
    · rintro ⟨⟨a, b⟩, x, y⟩; exact ⟨⟨a, x⟩, b, y⟩
    · rintro ⟨⟨a, x⟩, b, y⟩; exact ⟨⟨a, b⟩, x, y⟩

end AsynqModel.Core.P17
