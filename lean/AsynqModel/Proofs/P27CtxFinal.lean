import AsynqModel.Proofs.P27CtxCold
import AsynqModel.Proofs.P7Final
/-!
  P27, C07 part 5: from the state invariants to statements about the trace - below a `.ret` event every context is
  paused, after a top-level computation every scoped value is back to its default, every `.svals` event reports zeros -
  `Proofs/P7Final.lean` without the hypothesis that no NonAsyncContext exists.
-/
namespace AsynqModel.Core.P27
open AsynqModel.Core P5 P7

/-! ### which steps emit a `.svals` event -/

theorem step_nosv' (s : State) (g : Good' s) (k : K s) (hg : (step s).guardFired = false) :
    (∃ f, s.ctl = [] ∧ step s = s.finishTop f) ∨
    ∃ evs, (step s).trace = evs ++ s.trace ∧ ∀ e ∈ evs, nosv e = true := by
  have hreg := g.i.j.reg
  have ofQ : Q calm s (step s) → ∃ evs, (step s).trace = evs ++ s.trace ∧ ∀ e ∈ evs, nosv e = true := by
    intro q
    obtain ⟨evs, he, hs⟩ := q.trace
    exact ⟨evs, he, fun e hm => calm_nosv (hs e hm)⟩
  cases step_cases s g.pi.items g.co.raising with
  | neutral q hst hsf => exact .inr (ofQ q)
  | top f hctl e => exact .inl ⟨f, hctl, e⟩
  | enterLoop root rest hctl hnc q hst hc => exact .inr (ofQ q)
  | pop root base rest top stk hctl hst hlen hno q hst' hc => exact .inr (ofQ q)
  | suspend root base rest t stk hctl hst hlen hk hnc hsched e =>
    right
    have ht := lt_of_kind_task s t hk
    have hact := g.i.d t hsched
    rw [e]
    by_cases hnaf : P2.NAfree s t
    · obtain ⟨fl, _⟩ := flip_pause' s t (fun ts => { ts with depsSched := false }) (fun _ => rfl) (fun _ => rfl)
        (fun _ => rfl) hnaf ht hact
      exact fl.op.tr
    · obtain ⟨fl, _⟩ := pause_fail_spec s t (fun ts => { ts with depsSched := false }) (fun _ => rfl) (fun _ => rfl)
        (fun _ => rfl) ht hact hnaf hnc (k.k1 t) (g.i.j.nodup t) (fun c hc => by
          obtain ⟨x, hx, hxo, _⟩ := hreg t c hc
          exact ⟨x, hx, hxo, g.i.j.na c x hx⟩)
      exact fl.op.tr
  | visit root base rest t stk hctl hst hlen hk hnc hsched ds hds e =>
    right
    have ht := lt_of_kind_task s t hk
    rw [e]
    by_cases hact : (s.task t).ctxActive = true
    · have hts : (s.updTask t fun ts => { ts with depsSched := true }).task t = { s.task t with depsSched := true } :=
        task_updTask_self _ _ _ ht
      rw [nf_resume_active _ t (by rw [hts]; exact hact)]
      exact ⟨[], rfl, by simp⟩
    · have hact' : (s.task t).ctxActive = false := by simpa using hact
      obtain ⟨fl, _⟩ := flip_resume' s t (fun ts => { ts with depsSched := true }) (fun _ => rfl) (fun _ => rfl)
        (fun _ => rfl) (g.pi.z t (out_none hnc) hact') ht hact'
      exact fl.op.tr
  | enterGen root base rest t stk hctl hst hlen hk hnc e =>
    right
    have ht := lt_of_kind_task s t hk
    rw [e]
    by_cases hact : (s.task t).ctxActive = true
    · rw [nf_resume_active _ t hact]
      exact ⟨[], rfl, by simp⟩
    · have hact' : (s.task t).ctxActive = false := by simpa using hact
      obtain ⟨fl, _⟩ := flip_resume' s t (fun ts => ts) (fun _ => rfl) (fun _ => rfl) (fun _ => rfl)
        (g.pi.z t (out_none hnc) hact') ht hact'
      rw [updTask_id] at fl
      exact fl.op.tr
  | gen t old rest hctl hst hsf gc =>
    right
    have ru := g.running hctl
    cases gc with
    | neutral q => exact ofQ q
    | withCtx c b kk s0 h0 e =>
      have e' : step s = enterSt s s0 t c b kk := e
      by_cases hc : c = .nonasync
      · obtain ⟨go, _⟩ := enter_spec_na s s0 t c b kk hc ru.lt ru.active h0
        rw [e']; exact go.op.tr
      · obtain ⟨go, _⟩ := enter_spec' s s0 t c b kk hc ru.lt ru.active h0
        rw [e']; exact go.op.tr
    | endwith cid kk cs hconts e =>
      have hcid : cid ∈ (s.task t).ctxs := by
        have := k.k1 t
        rw [hconts] at this
        have h2 : cid ∈ (s.task t).ctxs.reverse := by rw [← this]; simp
        exact List.mem_reverse.1 h2
      obtain ⟨go, _⟩ := endwith_spec' s t cid kk cs ru.lt ru.act hconts (k.k1 t) (g.i.j.nodup t)
        (exOK_of_J g.i.j hcid ru.act)
      rw [e]; exact go.op.tr
    | finish o hnc e =>
      obtain ⟨go, _⟩ := finish_spec' s t old o ru.lt ru.act (k.k1 t) (g.i.j.nodup t)
        (fun c hc => exOK_of_J g.i.j hc ru.act)
      rw [e]; exact go.op.tr
  | guard h => rw [h] at hg; cases hg


theorem ret_paused' {s : State} (h : Reach s) (hg : s.guardFired = false) :
    ∀ post o pre, s.trace = post ++ .ret o :: pre → ∀ c, (word pre c).head? ≠ some true := by
  induction h with
  | init cfg tops choices => intro post o pre h; simp [initState] at h
  | @step s h ih =>
    have hg0 := P3.guard_mono s hg
    have ih := ih hg0
    intro post o pre htr c
    rcases step_nosv' s (good'_of_reach h hg0) (K_reach' h hg0) hg with ⟨f, hctl, e⟩ | ⟨evs, he, hs⟩
    · obtain ⟨o', n1, n2, n3, a, hft⟩ := finishTop_trace s f
      rw [e, hft] at htr
      rcases split_cons htr with ⟨_, h2, _⟩ | ⟨p1, _, htr1⟩
      · cases h2
      · rcases split_cons htr1 with ⟨_, h2, _⟩ | ⟨p2, _, htr2⟩
        · cases h2
        · rcases split_cons htr2 with ⟨_, _, h3⟩ | ⟨p3, _, htr3⟩
          · -- the `.ret` of this very step: the trace below is the trace of `s`, all contexts of `s` are paused
            rw [← h3]
            have hh := (I_reach h).j.head c
            have hp := (all_paused' h hg0 hctl).2 c
            have hr : resumedD s c = false := by
              unfold resumedD
              cases hx : s.ctxs[c]? with
              | none => rfl
              | some x => simp [hp x hx]
            rw [hr] at hh
            intro h'
            rw [h'] at hh
            simp at hh
          · exact ih p3 o pre htr3 c
    · rw [he] at htr
      obtain ⟨p', _, htr'⟩ := split_old evs htr (fun hm => by have := hs _ hm; simp [nosv] at this)
      exact ih p' o pre htr' c

/-! ### the scoped values reported at the end of a top-level computation -/

theorem restored' {s : State} (h : ReachNR s) (hg : s.guardFired = false) (hctl : s.ctl = []) :
    (∀ v, s.svGet v = 0) ∧ ∀ p ∈ s.sv, p.2 = 0 := by
  have m := M_reach' h hg
  have hst := (all_paused' h.reach hg hctl).1
  have hr : rstackN s = [] := by simp [rstackN, hotTasks, hst, fo]
  rw [hr] at m
  have h0 : ∀ v, s.svGet v = 0 := fun v => by rw [m.top v]; rfl
  refine ⟨h0, ?_⟩
  intro p hp
  have := h0 p.1
  unfold State.svGet at this
  rw [lookup_of_mem m.svn (show (p.1, p.2) ∈ s.sv from hp)] at this
  simpa using this

theorem svals_zero' {s : State} (h : ReachNR s) (hg : s.guardFired = false) :
    ∀ l, Event.svals l ∈ s.trace → ∀ p ∈ l, p.2 = Val.a 0 := by
  induction h with
  | init cfg tops choices => intro l h; simp [initState] at h
  | @step s h hn ih =>
    have hg0 := P3.guard_mono s hg
    have ih := ih hg0
    intro l hl p hp
    rcases step_nosv' s (good'_of_reach h.reach hg0) (K_reach' h.reach hg0) hg with
      ⟨f, hctl, e⟩ | ⟨evs, he, hs⟩
    · obtain ⟨o', n1, n2, n3, a, hft⟩ := finishTop_trace s f
      rw [e, hft] at hl
      rcases List.mem_cons.1 hl with h1 | h1
      · cases h1
        obtain ⟨q, hq, rfl⟩ := List.mem_map.1 hp
        have hq' : q ∈ s.sv := List.mem_mergeSort.1 hq
        simp [(restored' h hg0 hctl).2 q hq']
      · rcases List.mem_cons.1 h1 with h2 | h2
        · cases h2
        · rcases List.mem_cons.1 h2 with h3 | h3
          · cases h3
          · exact ih l h3 p hp
    · rw [he] at hl
      rcases List.mem_append.1 hl with h1 | h1
      · have := hs _ h1; simp [nosv] at this
      · exact ih l h1 p hp


/-! ### the scoped values, in terms of `P7.rstack` -/

/-- the resumed stack of P27 is `rstack` without the NonAsyncContexts; the two coincide when none is registered -/
theorem rstackN_filter (s : State) : rstackN s = (rstack s).filter fun c => !s.ctxIsNonAsync c := by
  unfold rstackN rstack
  rw [List.filter_flatMap]
  apply P7.flatMap_congr'
  intro o _
  rw [← lv_reverse]; rfl

theorem kindOf_na {s : State} {c : Nat} (h : s.ctxIsNonAsync c = true) : kindOf s c = .nonasync := by
  unfold State.ctxIsNonAsync at h
  unfold kindOf
  cases hx : s.ctxs[c]? with
  | none => rw [hx] at h; cases h
  | some x => rw [hx] at h; simpa using h

/-- `expect` does not look at NonAsyncContexts -/
theorem expect_lv (s : State) (R : List Nat) (v : Nat) : expect s (lv s R) v = expect s R v := by
  induction R with
  | nil => rfl
  | cons c R ih =>
    cases hna : s.ctxIsNonAsync c with
    | true => rw [lv_cons_na R hna, ih]; simp only [expect, kindOf_na hna]
    | false =>
      rw [lv_cons_live R hna]
      simp only [expect, ih]

theorem svChain_lv (s : State) (R : List Nat) (h : svChain s (lv s R)) : svChain s R := by
  induction R with
  | nil => trivial
  | cons c R ih =>
    cases hna : s.ctxIsNonAsync c with
    | true =>
      rw [lv_cons_na R hna] at h
      refine ⟨?_, ih h⟩
      intro var val hk
      rw [kindOf_na hna] at hk; cases hk
    | false =>
      rw [lv_cons_live R hna] at h
      refine ⟨?_, ih h.2⟩
      intro var val hk
      rw [h.1 var val hk, expect_lv]

theorem nodup_flatMap' (f : Nat → List Nat) : ∀ (l : List Nat), l.Nodup → (∀ x ∈ l, (f x).Nodup) →
    (∀ x ∈ l, ∀ y ∈ l, x ≠ y → ∀ c, c ∈ f x → c ∉ f y) → (l.flatMap f).Nodup
  | [], _, _, _ => by simp
  | a :: l, hl, hf, hd => by
    rw [List.nodup_cons] at hl
    rw [List.flatMap_cons, List.nodup_append]
    refine ⟨hf a (by simp), nodup_flatMap' f l hl.2 (fun x hx => hf x (by simp [hx]))
      (fun x hx y hy => hd x (by simp [hx]) y (by simp [hy])), ?_⟩
    intro c hc c' hc' e
    subst e
    obtain ⟨y, hy, hcy⟩ := List.mem_flatMap.1 hc'
    exact hd a (by simp) y (by simp [hy]) (fun e => hl.1 (e ▸ hy)) c hc hcy

/-- the registered contexts of the hot tasks are pairwise distinct (every reachable state) -/
theorem rstack_nodup (s : State) (h : Reach s) : (rstack s).Nodup := by
  have j := (I_reach h).j
  unfold rstack
  refine nodup_flatMap' _ _ (nodup_fo _ _) (fun o _ => nodup_reverse (j.nodup o)) ?_
  intro x _ y _ hxy c hcx hcy
  obtain ⟨a, ha, hao, _⟩ := j.reg x c (List.mem_reverse.1 hcx)
  obtain ⟨b, hb, hbo, _⟩ := j.reg y c (List.mem_reverse.1 hcy)
  rw [ha] at hb; cases hb
  rw [hao] at hbo; cases hbo
  exact hxy rfl

/-- every scoped value is the value of the innermost override among the resumed contexts (default 0), and every resumed
    override context has saved the value the contexts below it give -/
theorem values' (s : State) (h : P10.WSReach s) (hg : s.guardFired = false) :
    (∀ var, s.svGet var = expect s (rstack s) var) ∧ svChain s (rstack s) ∧ (rstack s).Nodup := by
  have m := M_reach' (reachNR_of_ws' h hg) hg
  have e : rstackN s = lv s (rstack s) := rstackN_filter s
  rw [e] at m
  exact ⟨fun var => by rw [m.top var, expect_lv], svChain_lv s _ m.chain, rstack_nodup s h.reach⟩


end AsynqModel.Core.P27
