import AsynqModel.Proofs.P3Shape
/-
  P3 (property C08), part 7: what survives a MAX_TASK_STACK_SIZE guard reset.

  `Weak s` holds in EVERY reachable state (no hypothesis on `guardFired`, `stuck`, contexts):
  * while an exception propagates out of `wait_for` the task stack is empty (the guard has just emptied it),
  * `weakChain`: the active task is the innermost generator frame's task OR `none`, likewise every saved value
    with respect to the next frame; with no generator frame at all the active task is `none`,
  * `outerOK`: the base of the OUTERMOST `_execute` is 0; with no `_execute` frame at all the stack is empty.
  It gives "the scheduler is clean after any outcome of the outermost call", RuntimeError of the guard included.
-/
namespace AsynqModel.Core.P3
open AsynqModel.Core

def weakChain : Option Nat → List (Nat × Option Nat) → Bool
  | a, [] => a == none
  | a, (t, old) :: rest => (a == none || a == some t) && weakChain old rest

def outerOK : List Nat → Nat → Bool
  | [], n => n == 0
  | [b], _ => b == 0
  | _ :: b :: bs, n => outerOK (b :: bs) n

structure Weak (s : State) : Prop where
  raising : s.raising.isSome = true → s.stack = []
  bottom : weakChain s.active (Inv.gensOf s.ctl) = true
  outer : outerOK (Inv.waitBases s.ctl) s.stack.length = true

/-- what holds of every event with or without a guard reset: snapshots are clean; `get_active_task()` inside
    task `t` is `t` or `None` -/
def SchedOK : Event → Prop
  | .sched same n _ _ a => same = true ∧ n = 0 ∧ a = none
  | .active t seen => seen = none ∨ seen = some t
  | _ => True

theorem SchedOK.ofN {e : Event} (h : N e) : SchedOK e := by
  cases e <;> first | trivial | (simp [N, neutral] at h)

theorem SchedOK.ofNew {a} (e : Event) (h : NewEv a e) : SchedOK e := by
  rcases h with h | ⟨f, rfl⟩
  · exact SchedOK.ofN h
  · trivial

theorem SchedOK.ofGen {t a} (ha : a = none ∨ a = some t) (e : Event) (h : GenEv t a e) : SchedOK e := by
  rcases h with h | rfl
  · exact SchedOK.ofNew e h
  · exact ha

/-! ### list facts -/


theorem weakChain_nil {a : Option Nat} : weakChain a [] = true ↔ a = none := by simp [weakChain]
theorem weakChain_cons {a : Option Nat} {t o rest} :
    weakChain a ((t, o) :: rest) = true ↔ (a = none ∨ a = some t) ∧ weakChain o rest = true := by
  simp [weakChain]

theorem weakChain_none {a : Option Nat} {g} (h : weakChain a g = true) : weakChain none g = true := by
  cases g with
  | nil => rfl
  | cons p rest => exact weakChain_cons.2 ⟨Or.inl rfl, (weakChain_cons.1 h).2⟩

theorem outerOK_nil {n : Nat} : outerOK [] n = true ↔ n = 0 := by simp [outerOK]

/-- with at least one `_execute` frame the stack height does not matter -/
theorem outerOK_indep {b : Nat} {bs : List Nat} (n m : Nat) (h : outerOK (b :: bs) n = true) :
    outerOK (b :: bs) m = true := by
  induction bs generalizing b with
  | nil => exact h
  | cons b' bs ih => exact ih (b := b') h

theorem outerOK_push {bs : List Nat} {n : Nat} (m : Nat) (h : outerOK bs n = true) : outerOK (n :: bs) m = true := by
  cases bs with
  | nil => simpa [outerOK] using h
  | cons b bs => exact outerOK_indep _ _ h

theorem outerOK_pop {b n : Nat} {bs : List Nat} (h : outerOK (b :: bs) n = true) (hn : n ≤ b) :
    outerOK bs n = true := by
  cases bs with
  | nil =>
    have : b = 0 := by simpa [outerOK] using h
    simp [outerOK]; omega
  | cons b' bs => exact h

theorem raising_back {P} {s r : State} {c a st} (h : Trans P s r c a st) (hr : r.raising.isSome = true) :
    s.raising.isSome = true := by
  cases hs : s.raising with
  | none => rw [h.raising hs] at hr; cases hr
  | some e => rfl

/-- `Weak` across a transition that keeps the stack -/
theorem Weak.keep {P} {s r : State} {c a} (hw : Weak s) (h : Trans P s r c a s.stack)
    (hb : weakChain a (Inv.gensOf c) = true) (ho : outerOK (Inv.waitBases c) s.stack.length = true) : Weak r :=
  ⟨fun hr => by (rw [h.stack]; exact hw.raising (raising_back h hr)), by (rw [h.active, h.ctl]; exact hb),
   by (rw [h.ctl, h.stack]; exact ho)⟩

/-- `Weak` across a transition out of a state in which no exception propagates -/
theorem Weak.calm {P} {s r : State} {c a st} (h : Trans P s r c a st) (hs : s.raising = none)
    (hb : weakChain a (Inv.gensOf c) = true) (ho : outerOK (Inv.waitBases c) st.length = true) : Weak r :=
  ⟨fun hr => by (rw [h.raising hs] at hr; cases hr), by (rw [h.active, h.ctl]; exact hb),
   by (rw [h.ctl, h.stack]; exact ho)⟩

/-- every step preserves `Weak`, and every scheduler snapshot it emits is clean -/
theorem step_weak (s : State) (hw : Weak s) : Weak (step s) ∧ Ext SchedOK s (step s) := by
  cases step_shape s with
  | idle h => exact ⟨hw.keep h hw.bottom hw.outer, h.trace.mono fun _ => SchedOK.ofN⟩
  | finishTop hctl h hr =>
    refine ⟨hw.keep h hw.bottom hw.outer, h.trace.mono ?_⟩
    have ha : s.active = none := weakChain_nil.1 (by simpa [hctl] using hw.bottom)
    have hst : s.stack.length = 0 := outerOK_nil.1 (by simpa [hctl] using hw.outer)
    rintro e (he | ⟨nb, nl, rfl⟩)
    · exact SchedOK.ofN he
    · simp [SchedOK, ha, hst]
  | topStart f hctl h =>
    refine ⟨hw.keep h ?_ ?_, h.trace.mono SchedOK.ofNew⟩
    · simpa [hctl] using hw.bottom
    · simpa [hctl] using hw.outer
  | raiseEnter root rest hctl hr h =>
    refine ⟨hw.keep h ?_ ?_, h.trace.mono fun _ => SchedOK.ofN⟩
    · simpa [hctl] using hw.bottom
    · simpa [hctl] using hw.outer
  | raiseLoop root base rest hctl hr h =>
    refine ⟨hw.keep h ?_ ?_, h.trace.mono fun _ => SchedOK.ofN⟩
    · simpa [hctl] using hw.bottom
    · have h0 : s.stack.length = 0 := by simp [hw.raising hr]
      have := hw.outer
      rw [hctl] at this
      exact outerOK_pop this (by omega)
  | popEnter root rest hctl hr h =>
    refine ⟨hw.keep h ?_ ?_, h.trace.mono fun _ => SchedOK.ofN⟩
    · simpa [hctl] using hw.bottom
    · simpa [hctl] using hw.outer
  | enterLoop root rest hctl hr h =>
    refine ⟨Weak.calm h hr ?_ ?_, h.trace.mono fun _ => SchedOK.ofN⟩
    · simpa [hctl] using hw.bottom
    · have := hw.outer
      simp [hctl] at this
      simpa using outerOK_push _ this
  | guard root base rest hctl hr hlen hmax e =>
    rw [e]
    refine ⟨⟨fun _ => rfl, ?_, ?_⟩, Ext.of_trace_eq rfl⟩
    · show weakChain none (Inv.gensOf s.ctl.tail) = true
      have := hw.bottom
      rw [hctl] at this ⊢
      exact weakChain_none this
    · show outerOK (Inv.waitBases s.ctl.tail) 0 = true
      have := hw.outer
      rw [hctl] at this ⊢
      exact outerOK_pop (outerOK_indep _ 0 this) (Nat.zero_le _)
  | iter root base rest hctl hr hlen st hst h =>
    refine ⟨Weak.calm h hr hw.bottom ?_, h.trace.mono fun _ => SchedOK.ofN⟩
    have := hw.outer
    rw [hctl] at this ⊢
    exact outerOK_indep _ _ this
  | enterGen root base rest hctl hr t h =>
    refine ⟨hw.keep h ?_ ?_, h.trace.mono fun _ => SchedOK.ofN⟩
    · simpa [weakChain_cons] using hw.bottom
    · simpa using hw.outer
  | popLoop root base rest hctl hr hlen h =>
    refine ⟨hw.keep h ?_ ?_, h.trace.mono fun _ => SchedOK.ofN⟩
    · simpa [hctl] using hw.bottom
    · have := hw.outer
      rw [hctl] at this
      exact outerOK_pop this hlen
  | flush root base rest hctl hr hlen h =>
    refine ⟨hw.keep h ?_ ?_, h.trace.mono fun _ => SchedOK.ofN⟩
    · simpa [hctl] using hw.bottom
    · have := hw.outer
      rw [hctl] at this
      simpa using outerOK_pop this hlen
  | genStay t old rest hctl h =>
    have hb := weakChain_cons.1 (by simpa [hctl] using hw.bottom)
    exact ⟨hw.keep h hw.bottom hw.outer, h.trace.mono (SchedOK.ofGen hb.1)⟩
  | genLeave t old rest hctl h =>
    have hb := weakChain_cons.1 (by simpa [hctl] using hw.bottom)
    refine ⟨hw.keep h hb.2 ?_, h.trace.mono (SchedOK.ofGen hb.1)⟩
    · simpa [hctl] using hw.outer
  | genCall t old rest hctl f h =>
    have hb := weakChain_cons.1 (by simpa [hctl] using hw.bottom)
    refine ⟨hw.keep h ?_ ?_, h.trace.mono (SchedOK.ofGen hb.1)⟩
    · simpa using hw.bottom
    · simpa using hw.outer

theorem weak_init (cfg tops choices) : Weak (initState cfg tops choices) :=
  ⟨fun h => (by cases h), rfl, rfl⟩

/-- in every reachable state - stuck or not, guard fired or not - `Weak` holds and all scheduler snapshots
    taken so far are clean -/
theorem reach_weak (s : State) (h : Reach s) : Weak s ∧ ∀ e ∈ s.trace, SchedOK e := by
  induction h with
  | init cfg tops choices => exact ⟨weak_init _ _ _, by simp [initState]⟩
  | @step s _ ih =>
    obtain ⟨hw, ht⟩ := ih
    obtain ⟨hw', hx⟩ := step_weak s hw
    exact ⟨hw', hx.forall (fun _ h => h) ht⟩

end AsynqModel.Core.P3
