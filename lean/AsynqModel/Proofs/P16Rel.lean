import AsynqModel.Proofs.P16Obs
import AsynqModel.Proofs.P13Inv
import AsynqModel.Proofs.P5Ops
import AsynqModel.Proofs.P5With
/-!
  P16, part 2: the simulation relation `R` between the observer's table of contexts and the machine's contexts, and
  its preservation by the primitive context operations.

  `R cx s ex`:
  * `acc`   : no `.ctx` / `.ctxX` event of the trace violated a clause of `checkC06`;
  * `keys`  : the observer knows exactly the contexts `0 .. s.ctxs.length - 1`, newest first;
  * `rel`   : the observer's entry of `c` has the kind, owner and `resumed` flag of the machine's context `c`, and it is
              open iff `c` is registered with its owner (except for the context `ex`, which is being left);
  * `closed`: a context that was left is not resumed.
-/
namespace AsynqModel.Core.P16
open AsynqModel.Core AsynqModel.Core.Spec AsynqModel.Core.P13 AsynqModel.Core.P5

structure R (cx : Ctx) (s : State) (ex : Option Nat) : Prop where
  acc : P13.Acc chkA cx s.trace
  keys : (W s).ctxs.map (·.1) = (List.range s.ctxs.length).reverse
  rel : ∀ c x, (W s).ctx? c = some x → ∃ y, s.ctxs[c]? = some y ∧ x.kind = y.kind ∧ y.owner = some x.owner ∧
      x.resumed = y.resumed ∧ (ex ≠ some c → (x.isOpen = true ↔ c ∈ (s.task x.owner).ctxs))
  closed : ∀ c x, (W s).ctx? c = some x → x.isOpen = false → x.resumed = false

variable {cx : Ctx}

theorem R.keys_nodup {s : State} {ex} (h : R cx s ex) : ((W s).ctxs.map (·.1)).Nodup := by
  rw [h.keys]
  exact nodup_reverse List.nodup_range

theorem R.entry {s : State} {ex} (h : R cx s ex) {c : Nat} (hc : c < s.ctxs.length) : ∃ x, (W s).ctx? c = some x := by
  apply lookup_isSome_of_key
  rw [h.keys]
  simp [hc]

theorem R.lt {s : State} {ex} (h : R cx s ex) {c : Nat} {x : CtxW} (hx : (W s).ctx? c = some x) : c < s.ctxs.length := by
  have := key_of_lookup _ _ _ hx
  rw [h.keys] at this
  simpa using this

theorem R.init (cfg : Cfg) (tops : List (Conv × Body)) (choices : List (Nat × Nat)) :
    R cx (initState cfg tops choices) none :=
  ⟨trivial, rfl, fun c x h => by simp [W, initState, Watch.ctx?] at h, fun c x h => by simp [W, initState, Watch.ctx?] at h⟩

/-- a change that does not touch the contexts, the registrations, and logs no context event -/
theorem R.frame {s r : State} {ex} (h : R cx s ex) (hc : r.ctxs = s.ctxs) (ht : ∀ u, (r.task u).ctxs = (s.task u).ctxs)
    (evs : List Event) (htr : r.trace = evs ++ s.trace) (hev : ∀ e ∈ evs, ctxInert e = true) : R cx r ex := by
  have hw : (W r).ctxs = (W s).ctxs := by
    show (obs r.trace).ctxs = _
    rw [htr]; exact obs_ctxs_inert evs s.trace hev
  have hl : ∀ c, (W r).ctx? c = (W s).ctx? c := fun c => by unfold Watch.ctx?; rw [hw]
  refine ⟨?_, by rw [hw, hc]; exact h.keys, ?_, ?_⟩
  · rw [htr]
    exact acc_append evs s.trace h.acc fun e he w => chkA_inert cx w e (hev e he)
  · intro c x hx
    rw [hl] at hx
    obtain ⟨y, h1, h2, h3, h4, h5⟩ := h.rel c x hx
    exact ⟨y, by rw [hc]; exact h1, h2, h3, h4, by rw [ht]; exact h5⟩
  · intro c x hx; rw [hl] at hx; exact h.closed c x hx

theorem R.of_eq {s r : State} {ex} (h : R cx s ex) (hf : r.futs = s.futs) (hc : r.ctxs = s.ctxs) (htr : r.trace = s.trace) :
    R cx r ex :=
  h.frame hc (fun u => by simp [State.task, State.fut, hf]) [] (by simp [htr]) (by simp)

theorem R.updTask {s : State} {ex} (h : R cx s ex) (t : Nat) (g : TaskSt → TaskSt) (hg : ∀ x, (g x).ctxs = x.ctxs) :
    R cx (s.updTask t g) ex :=
  h.frame rfl (fun u => task_updTask_field s t u g (·.ctxs) hg) [] rfl (by simp)

theorem R.emit {s : State} {ex} (h : R cx s ex) (e : Event) (he : ctxInert e = true) : R cx (s.emit e) ex :=
  h.frame rfl (fun _ => rfl) [e] rfl (by simpa using he)

theorem R.complete {s : State} {ex} (h : R cx s ex) (f : Nat) (o : Outcome) : R cx (s.complete f o) ex := by
  exact h.frame rfl (ext_complete s f o).tctxs [.done f o] rfl (by simp [ctxInert])

/-- `resume()` / `pause()` of one context -/
theorem R.flag {s r : State} {ex} {c : Nat} {b : Bool} (h : R cx s ex) (f : FlagOp s r c b) {x0 : CtxW}
    (hx0 : (W s).ctx? c = some x0) (hres : x0.resumed = !b) (hopen : b = true → x0.isOpen = true) : R cx r ex := by
  have hw : W r = watchEvent (W s) (.ctx b c) := by
    show obs r.trace = _
    rw [f.trace]; rfl
  have htask : ∀ u, r.task u = s.task u := f.task
  refine ⟨?_, ?_, ?_, ?_⟩
  · rw [f.trace]
    refine ⟨h.acc, ?_⟩
    show chkA cx (W s) (.ctx b c) = none
    cases b with
    | true =>
      simp only [chkA, checkC06, hx0]
      have h1 : x0.resumed = false := by simpa using hres
      have h2 := hopen rfl
      simp [h1, h2]
    | false =>
      simp only [chkA, checkC06, hx0]
      have h1 : x0.resumed = true := by simpa using hres
      simp [h1]
  · rw [hw, ctxs_ctx, updKey_keys, f.len]; exact h.keys
  · intro c' x hx
    rw [hw, lookup_ctx] at hx
    by_cases hc : c' = c
    · subst hc
      simp only [if_true, hx0, Option.map_some, Option.some.injEq] at hx
      subst hx
      obtain ⟨y, h1, h2, h3, h4, h5⟩ := h.rel c' x0 hx0
      obtain ⟨y', e1, e2, e3, e4⟩ := f.eq y h1
      exact ⟨y', e1, by rw [e2]; exact h2, by rw [e3]; exact h3, by simp [e4], by rw [htask]; exact h5⟩
    · simp only [hc, if_false] at hx
      obtain ⟨y, h1, h2, h3, h4, h5⟩ := h.rel c' x hx
      exact ⟨y, by rw [f.ne c' hc]; exact h1, h2, h3, h4, by rw [htask]; exact h5⟩
  · intro c' x hx ho
    rw [hw, lookup_ctx] at hx
    by_cases hc : c' = c
    · subst hc
      simp only [if_true, hx0, Option.map_some, Option.some.injEq] at hx
      subst hx
      cases b with
      | true =>
        have := hopen rfl
        simp only at ho
        rw [this] at ho; cases ho
      | false => rfl
    · simp only [hc, if_false] at hx
      exact h.closed c' x hx ho

/-- `leave_context`: the registration of `c` is dropped -/
theorem R.erase {s : State} (h : R cx s none) (c o : Nat) : R cx (eraseReg s c o) (some c) := by
  have hl : ∀ c', (W (eraseReg s c o)).ctx? c' = (W s).ctx? c' := fun _ => rfl
  refine ⟨h.acc, h.keys, ?_, h.closed⟩
  intro c' x hx
  obtain ⟨y, h1, h2, h3, h4, h5⟩ := h.rel c' x hx
  refine ⟨y, h1, h2, h3, h4, ?_⟩
  intro hne
  have hcc : c' ≠ c := fun e => hne (by rw [e])
  rw [ctxs_eraseReg]
  split
  · next hu => rw [h5 (by simp), hu]; exact (List.mem_erase_of_ne hcc).symm
  · exact h5 (by simp)

/-- the exit event of the context that was unregistered -/
theorem R.emitX {s : State} {c : Nat} (h : R cx s (some c)) {x0 : CtxW} (hx0 : (W s).ctx? c = some x0)
    (hres : x0.resumed = false) (hnot : c ∉ (s.task x0.owner).ctxs) : R cx (s.emit (.ctxX c)) none := by
  have hw : W (s.emit (.ctxX c)) = watchEvent (W s) (.ctxX c) := rfl
  refine ⟨⟨h.acc, ?_⟩, ?_, ?_, ?_⟩
  · show chkA cx (W s) (.ctxX c) = none
    simp [chkA, checkC06, hx0, hres]
  · rw [hw, ctxX_keys]; exact h.keys
  · intro c' x hx
    rw [hw, lookup_ctxX] at hx
    by_cases hc : c' = c
    · subst hc
      simp only [if_true, hx0, Option.map_some, Option.some.injEq] at hx
      subst hx
      obtain ⟨y, h1, h2, h3, h4, _⟩ := h.rel c' x0 hx0
      refine ⟨y, h1, h2, h3, h4, fun _ => ?_⟩
      simp only [emit_task]
      constructor
      · intro hh; cases hh
      · intro hh; exact absurd hh hnot
    · simp only [hc, if_false] at hx
      obtain ⟨y, h1, h2, h3, h4, h5⟩ := h.rel c' x hx
      exact ⟨y, h1, h2, h3, h4, fun _ => h5 (by simp; exact fun e => hc e.symm)⟩
  · intro c' x hx ho
    rw [hw, lookup_ctxX] at hx
    by_cases hc : c' = c
    · subst hc
      simp only [if_true, hx0, Option.map_some, Option.some.injEq] at hx
      subst hx
      exact hres
    · simp only [hc, if_false] at hx
      exact h.closed c' x hx ho

/-- a new context object, created and registered by the running task `t` -/
theorem R.mkCtx {s : State} (h : R cx s none) (t : Nat) (k : CtxKind) (hact : s.active = some t)
    (ht : t < s.futs.length) : R cx (P5.newCtx s s.ctxs.length t k) none := by
  have e : P5.newCtx s s.ctxs.length t k =
      ({ s.emit (.ctxN s.ctxs.length t k) with ctxs := s.ctxs ++ [({ kind := k, owner := some t } : CtxSt)] } : State).updTask t
        fun ts => { ts with ctxs := ts.ctxs ++ [s.ctxs.length] } := by
    unfold P5.newCtx
    simp only [emit_active, emit_ctxs, hact]
  rw [e]
  have hw : W (({ s.emit (.ctxN s.ctxs.length t k) with ctxs := s.ctxs ++ [({ kind := k, owner := some t } : CtxSt)] } : State).updTask t
        fun ts => { ts with ctxs := ts.ctxs ++ [s.ctxs.length] }) = watchEvent (W s) (.ctxN s.ctxs.length t k) := rfl
  have hfresh : ∀ c x, (W s).ctx? c = some x → c ≠ s.ctxs.length := fun c x hx => Nat.ne_of_lt (h.lt hx)
  refine ⟨⟨h.acc, rfl⟩, ?_, ?_, ?_⟩
  · rw [hw, ctxs_ctxN]
    simp only [List.map_cons, updTask_ctxs, List.length_append, List.length_singleton, List.range_succ, List.reverse_append,
      List.reverse_singleton, List.singleton_append, List.cons.injEq, true_and]
    exact h.keys
  · intro c x hx
    rw [hw, lookup_ctxN] at hx
    by_cases hc : c = s.ctxs.length
    · subst hc
      simp only [if_true, Option.some.injEq] at hx
      subst hx
      refine ⟨{ kind := k, owner := some t }, by simp, rfl, rfl, rfl, fun _ => ?_⟩
      simp only [true_iff]
      rw [task_updTask_self _ _ _ (by simpa using ht)]
      simp
    · simp only [hc, if_false] at hx
      obtain ⟨y, h1, h2, h3, h4, h5⟩ := h.rel c x hx
      have hlt := h.lt hx
      refine ⟨y, ?_, h2, h3, h4, fun _ => ?_⟩
      · simp only [updTask_ctxs]
        rw [List.getElem?_append_left hlt]; exact h1
      · rw [h5 (by simp)]
        rw [task_updTask]
        split
        · next hh =>
          rw [hh.1]
          simp only [List.mem_append, List.mem_singleton, hc, or_false]
          rfl
        · rfl
  · intro c x hx ho
    rw [hw, lookup_ctxN] at hx
    by_cases hc : c = s.ctxs.length
    · subst hc
      simp only [if_true, Option.some.injEq] at hx
      subst hx
      cases ho
    · simp only [hc, if_false] at hx
      exact h.closed c x hx ho

end AsynqModel.Core.P16
