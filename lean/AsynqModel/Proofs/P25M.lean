import AsynqModel.Proofs.P25Gen
import AsynqModel.Proofs.P20M
/-
  P25 (termination without the NonAsync / guard hypotheses), part 2: the first and third components of the
  termination measure.
  * `M1'`: remaining program weight, like `P20.M1`, but with a start bonus that needs no invariant
    (`tw' v = 2 * P20.wsum v + [not suspended] + 2 * [not started]`): every instruction of a task body decreases it
    (`M1'_gd`, for EVERY instruction, `with NonAsyncContext()` included), a future that gets computed never increases it.
  * `U`: the number of futures that are not computed.  No scheduler-side step increases it; a lazy future computed by
    `_execute` and a task failed by `NonAsyncContext.pause()/resume()` decrease it.
-/
namespace AsynqModel.Core.P25
open AsynqModel.Core AsynqModel.Core.P6 AsynqModel.Core.P6T AsynqModel.Core.P20

def tw' (v : FV) : Nat :=
  2 * P20.wsum v + (if v.pending = true then 0 else 1) + (if v.started = true then 0 else 2)

def tval' (s : State) (f : Nat) : Nat :=
  if (view s f).kind = .task ∧ (view s f).out = none then tw' (view s f) else 0

def M1' (s : State) : Nat := P20.topsW s.tops + rsum (tval' s) s.futs.length

theorem tval'_task {s : State} {f : Nat} (hk : (view s f).kind = .task) (ho : (view s f).out = none) :
    tval' s f = tw' (view s f) := by
  unfold tval'; rw [if_pos ⟨hk, ho⟩]

theorem tval'_computed {s : State} {f : Nat} (ho : (view s f).out ≠ none) : tval' s f = 0 := by
  unfold tval'; rw [if_neg (fun h => ho h.2)]

theorem tval'_nontask {s : State} {f : Nat} (hk : (view s f).kind ≠ .task) : tval' s f = 0 := by
  unfold tval'; rw [if_neg (fun h => hk h.1)]

theorem tval'_of_view {s r : State} {f : Nat} (e : view r f = view s f) : tval' r f = tval' s f := by
  unfold tval'; rw [e]

theorem tw'_pos (v : FV) : 0 < tw' v := by
  unfold tw'
  have := P20.wsum_pos v
  omega

/-! ### comparing sums -/

theorem M1'_same {s r : State} (hl : r.futs.length = s.futs.length) (ht : r.tops = s.tops)
    (hv : ∀ f, view r f = view s f) : M1' r = M1' s := by
  unfold M1'
  rw [ht, hl]
  congr 1
  exact rsum_congr _ (fun f _ => tval'_of_view (hv f))

theorem M1'_le_of {s r : State} (hl : r.futs.length = s.futs.length) (ht : r.tops = s.tops)
    (h : ∀ f, tval' r f ≤ tval' s f) : M1' r ≤ M1' s := by
  unfold M1'
  rw [ht, hl]
  exact Nat.add_le_add_left (rsum_le _ (fun f _ => h f)) _

theorem M1'_lt_of {s r : State} {t : Nat} (hl : r.futs.length = s.futs.length) (ht : r.tops = s.tops)
    (h : ∀ f, f ≠ t → view r f = view s f) (hlt : tval' r t < tval' s t) (htl : t < s.futs.length) :
    M1' r < M1' s := by
  unfold M1'
  rw [ht, hl]
  apply Nat.add_lt_add_left
  apply P20.rsum_lt_of_le
  · intro f _
    by_cases e : f = t
    · subst e; exact Nat.le_of_lt hlt
    · exact Nat.le_of_eq (tval'_of_view (h f e))
  · exact ⟨t, htl, hlt⟩

theorem M1'_upd1_lt {s r : State} {t : Nat} {v' : FV} (U : Upd1 s r t v') (ht : t < s.futs.length)
    (h : tval' r t < tval' s t) : M1' r < M1' s :=
  M1'_lt_of U.len U.tops U.viewO h ht

theorem M1'_upd2_lt {s r : State} {t : Nat} {v' nv : FV} (U : Upd2 s r t v' nv) (ht : t < s.futs.length)
    (h : tval' r t + tval' r s.futs.length < tval' s t) : M1' r < M1' s := by
  unfold M1'
  rw [U.tops, U.len, rsum_succ]
  have := rsum_point (a := tval' r) (b := tval' s) s.futs.length
    (fun f hf hne => tval'_of_view (U.viewO f hne (Nat.ne_of_lt hf))) ht
  omega

/-- some futures are completed, everything else is kept -/
theorem M1'_compl_le {s r : State} (hl : r.futs.length = s.futs.length) (ht : r.tops = s.tops)
    (hv : ∀ f, view r f = view s f ∨ (view r f).out ≠ none) : M1' r ≤ M1' s := by
  refine M1'_le_of hl ht ?_
  intro f
  rcases hv f with e | e
  · exact Nat.le_of_eq (tval'_of_view e)
  · rw [tval'_computed e]; exact Nat.zero_le _

theorem M1'_flushDesc_le {s r : State} (F : FlushDesc s r) : M1' r ≤ M1' s := by
  refine M1'_compl_le F.len F.tops ?_
  intro f
  rcases F.view f with e | ⟨_, o, e⟩
  · exact Or.inl e
  · exact Or.inr (by rw [e]; simp [doneView])

/-! ### instructions -/

theorem tw'_bstep {v v' : FV} (hpend : v'.pending = false)
    (hstart : v'.started = true ∨ (v.pending = false ∧ v'.started = v.started)) (hw : P20.wsum v' < P20.wsum v) :
    tw' v' < tw' v := by
  unfold tw'
  rw [hpend]
  rcases hstart with h1 | ⟨h1, h2⟩
  · rw [h1]
    simp only [Bool.false_eq_true, if_false, if_true]
    split <;> split <;> omega
  · rw [h2, h1]
    simp only [Bool.false_eq_true, if_false]
    omega

/-- every instruction of a task body decreases `M1'` -/
theorem M1'_gd {s r : State} {t : Nat} (hgk : (view s t).kind = .task) (hgo : (view s t).out = none)
    (d : GD' s r t) : M1' r < M1' s := by
  have ht : t < s.futs.length := lt_of_view_task s t hgk
  have hvs : tval' s t = tw' (view s t) := tval'_task hgk hgo
  cases d with
  | start hp hs hu =>
    refine M1'_upd1_lt hu ht ?_
    have : tval' r t = tw' (startView (view s t)) := by
      have := tval'_task (s := r) (f := t) (by rw [hu.viewT]; exact hgk) (by rw [hu.viewT]; exact hgo)
      rw [this, hu.viewT]
    rw [this, hvs]
    unfold tw' P20.wsum startView
    simp only [hs, hp]
    simp
  | loc v' hu hkind hout hpend hstart hbs hsame hdeps =>
    refine M1'_upd1_lt hu ht ?_
    have : tval' r t = tw' v' := by
      have := tval'_task (s := r) (f := t) (by rw [hu.viewT, hkind]; exact hgk) (by rw [hu.viewT, hout]; exact hgo)
      rw [this, hu.viewT]
    rw [this, hvs]
    exact tw'_bstep hpend hstart (P20.wsum_bstep hbs)
  | locNA b k cid hb hp hl htops hvt hvo =>
    refine M1'_lt_of hl htops hvo ?_ ht
    have : tval' r t = tw' (pushView (cid, k) b (view s t)) := by
      have := tval'_task (s := r) (f := t) (by rw [hvt]; exact hgk) (by rw [hvt]; exact hgo)
      rw [this, hvt]
    rw [this, hvs]
    unfold tw' P20.wsum pushView
    simp only [hb, P20.bsz, List.map_cons, List.sum_cons]
    omega
  | spawn child k pass hb hp hu hbat =>
    refine M1'_upd2_lt hu ht ?_
    have h1 : tval' r t = tw' (ownView (view s t) s.futs.length k) := by
      have := tval'_task (s := r) (f := t) (by rw [hu.viewT]; exact hgk) (by rw [hu.viewT]; exact hgo)
      rw [this, hu.viewT]
    have h2 : tval' r s.futs.length = tw' (taskView child (pass.map (s.task t).resolve)) := by
      have := tval'_task (s := r) (f := s.futs.length) (by rw [hu.viewN]; rfl) (by rw [hu.viewN]; rfl)
      rw [this, hu.viewN]
    rw [h1, h2, hvs]
    unfold tw' P20.wsum ownView taskView
    simp only [hb, P20.bsz]
    simp
    omega
  | item kind payload mode k seq hb hp hu hbat =>
    refine M1'_upd2_lt hu ht ?_
    have h1 : tval' r t = tw' (ownView (view s t) s.futs.length k) := by
      have := tval'_task (s := r) (f := t) (by rw [hu.viewT]; exact hgk) (by rw [hu.viewT]; exact hgo)
      rw [this, hu.viewT]
    have h2 : tval' r s.futs.length = 0 := tval'_nontask (by rw [hu.viewN]; simp [plainView])
    rw [h1, h2, hvs]
    unfold tw' P20.wsum ownView
    simp only [hb, P20.bsz]
    omega
  | other k kd out hb hp hu hbat hkd =>
    refine M1'_upd2_lt hu ht ?_
    have h1 : tval' r t = tw' (ownView (view s t) s.futs.length k) := by
      have := tval'_task (s := r) (f := t) (by rw [hu.viewT]; exact hgk) (by rw [hu.viewT]; exact hgo)
      rw [this, hu.viewT]
    have h2 : tval' r s.futs.length = 0 := by
      apply tval'_nontask
      rw [hu.viewN]
      rcases hkd with ⟨e, _⟩ | ⟨e, _⟩ | ⟨⟨o, e⟩, _⟩ <;> rw [e] <;> simp [plainView]
    rw [h1, h2, hvs]
    have hbk : P20.bsz (view s t).body = 1 + P20.bsz k := by
      rcases hb with ⟨a, e⟩ | ⟨a, e⟩ | ⟨a, e⟩ <;> rw [e] <;> simp [P20.bsz]
    unfold tw' P20.wsum ownView
    simp only [hbk]
    omega
  | yield npy nd leave hp hu _ =>
    refine M1'_upd1_lt hu ht ?_
    have h1 : tval' r t = tw' (yieldView (view s t) nd npy leave) := by
      have := tval'_task (s := r) (f := t) (by rw [hu.viewT]; exact hgk) (by rw [hu.viewT]; exact hgo)
      rw [this, hu.viewT]
    rw [h1, hvs]
    unfold tw' P20.wsum yieldView
    simp only [hp]
    simp
  | finish o hp hu =>
    refine M1'_upd1_lt hu ht ?_
    have h1 : tval' r t = 0 := tval'_computed (by rw [hu.viewT]; simp [finishView])
    rw [h1, hvs]
    exact tw'_pos _
  | sync child k h pass hb hp hu hbat =>
    refine M1'_upd2_lt hu ht ?_
    have h1 : tval' r t = tw' (ownView (view s t) s.futs.length (.syncret s.futs.length k h)) := by
      have := tval'_task (s := r) (f := t) (by rw [hu.viewT]; exact hgk) (by rw [hu.viewT]; exact hgo)
      rw [this, hu.viewT]
    have h2 : tval' r s.futs.length = tw' (taskView child (pass.map (s.task t).resolve)) := by
      have := tval'_task (s := r) (f := s.futs.length) (by rw [hu.viewN]; rfl) (by rw [hu.viewN]; rfl)
      rw [this, hu.viewN]
    rw [h1, h2, hvs]
    unfold tw' P20.wsum ownView taskView
    simp only [hb, P20.bsz]
    simp
    omega
  | syncfut rf k h s1 hb hp hu F hT =>
    have h1 : M1' s1 < M1' s := by
      refine M1'_upd1_lt hu ht ?_
      have h1 : tval' s1 t = tw' (bodyView (.syncret ((s.task t).resolve rf) k h) (view s t)) := by
        have := tval'_task (s := s1) (f := t) (by rw [hu.viewT]; exact hgk) (by rw [hu.viewT]; exact hgo)
        rw [this, hu.viewT]
      rw [h1, hvs]
      unfold tw' P20.wsum bodyView
      simp only [hb, P20.bsz]
      omega
    exact Nat.lt_of_le_of_lt (M1'_flushDesc_le F) h1

/-- the start of a top-level computation decreases `M1'` -/
theorem M1'_top {s r : State} {conv : Conv} {body : Body} {rest : List (Conv × Body)}
    (htops : s.tops = (conv, body) :: rest) (U : UpdN s r (taskView body [])) (htops' : r.tops = rest) :
    M1' r < M1' s := by
  unfold M1'
  rw [htops', htops, U.len, rsum_succ]
  have h1 : rsum (tval' r) s.futs.length = rsum (tval' s) s.futs.length :=
    rsum_congr _ (fun f hf => tval'_of_view (U.viewO f (Nat.ne_of_lt hf)))
  have h2 : tval' r s.futs.length = 2 * P20.bsz body + 2 := by
    have := tval'_task (s := r) (f := s.futs.length) (by rw [U.viewN]; rfl) (by rw [U.viewN]; rfl)
    rw [this, U.viewN]
    simp [tw', P20.wsum, taskView]
  rw [h1, h2]
  simp [P20.topsW]
  omega

/-! ### `U`: the number of uncomputed futures -/

def uval (s : State) (f : Nat) : Nat := if (view s f).out = none then 1 else 0

def U (s : State) : Nat := rsum (uval s) s.futs.length

theorem uval_of_view {s r : State} {f : Nat} (e : view r f = view s f) : uval r f = uval s f := by
  unfold uval; rw [e]

theorem U_same {s r : State} (hl : r.futs.length = s.futs.length) (hv : ∀ f, view r f = view s f) : U r = U s := by
  unfold U
  rw [hl]
  exact rsum_congr _ (fun f _ => uval_of_view (hv f))

theorem U_of_out {s r : State} (hl : r.futs.length = s.futs.length) (hv : ∀ f, (view r f).out = (view s f).out) :
    U r = U s := by
  unfold U
  rw [hl]
  exact rsum_congr _ (fun f _ => by unfold uval; rw [hv f])

theorem U_compl_le {s r : State} (hl : r.futs.length = s.futs.length)
    (hv : ∀ f, view r f = view s f ∨ (view r f).out ≠ none) : U r ≤ U s := by
  unfold U
  rw [hl]
  refine rsum_le _ (fun f _ => ?_)
  rcases hv f with e | e
  · exact Nat.le_of_eq (uval_of_view e)
  · unfold uval; rw [if_neg e]; exact Nat.zero_le _

/-- one uncomputed future gets computed, the others are kept -/
theorem U_compl_lt {s r : State} {t : Nat} (hl : r.futs.length = s.futs.length) (ht : t < s.futs.length)
    (h0 : (view s t).out = none) (h1 : (view r t).out ≠ none) (hvo : ∀ f, f ≠ t → view r f = view s f) : U r < U s := by
  unfold U
  rw [hl]
  apply P20.rsum_lt_of_le
  · intro f _
    by_cases e : f = t
    · subst e; unfold uval; rw [if_neg h1]; exact Nat.zero_le _
    · exact Nat.le_of_eq (uval_of_view (hvo f e))
  · refine ⟨t, ht, ?_⟩
    unfold uval
    rw [if_neg h1, if_pos h0]
    exact Nat.zero_lt_one

end AsynqModel.Core.P25
