import AsynqModel.Proofs.P22GenH
import AsynqModel.Proofs.P17Read
/-!
# P22, part 15: the scoped values the running task sees are those of its sequential environment

While the generator of task `t` runs, the resumed contexts of the machine are the open with-blocks of `t`, of the task
awaiting it, of the task awaiting that one, ... down to the root (`spine_rstack`, from the labelled task stack of
P12/P17, exactly as in `P17.read_ok`).  The simulation invariant says that a called, unfinished task runs in the
CURRENT environment of its creator (`Sim.env`); along the spine this gives: the environment the task was called in,
extended by its open blocks, is the list of overrides of the resumed contexts (`spine_env`), and the scoped value is
the innermost of them (`C07_values`).
-/
namespace AsynqModel.Core.P22
open AsynqModel.Core AsynqModel.Core.P22.SeqSV
open AsynqModel.Core.P7 (kindOf expect rstack hotTasks hot)
open AsynqModel.Core.P12 (Link)
open AsynqModel.Core.P17 (LabA LinkA lspine BotOK)

/-- the resumed contexts while the generator of `t` runs -/
theorem spine_rstack {s : State} (hs : P10.WSReach s) (hg : s.guardFired = false) (hna : P7.NA s)
    {t : Nat} {old : Option Nat} {rest : List Ctl} (hctl : s.ctl = .gen t old :: rest) :
    ∃ p0 Lr, LabA s ((t, p0) :: Lr) ∧ BotOK s ((t, p0) :: Lr) ∧
      rstack s = (t :: lspine ((t, p0) :: Lr)).flatMap fun u => (s.task u).ctxs.reverse := by
  have lb := P12.lib_of_ws hs hg hna
  have good := P7.good_of_reach hs.reach hg hna
  have run := good.running hctl
  have k := P7.K_reach hs.reach hg hna
  have hpos := P7.hotPos_reach hs hg hna
  have hlt : ∀ p a, P12.Link s p a → P10.lt s a p := fun p a hl => hl.lt lb.hinv lb.chain
  obtain ⟨L, hL, hlab, hheads, hbot⟩ := P17.LabIA_reach hs hg hna
  have hd := lb.disc
  rw [hctl] at hd
  have hhead : s.stack.head? = some t := P12.disc_gen_head hd
  cases L with
  | nil => rw [← hL] at hhead; cases hhead
  | cons x0 Lr =>
    obtain ⟨a0, p0⟩ := x0
    have ha0 : a0 = t := by rw [← hL] at hhead; simpa using hhead
    subst ha0
    refine ⟨p0, Lr, hlab, hbot, ?_⟩
    -- the tasks of the spine
    have hact : ∀ u ∈ a0 :: lspine ((a0, p0) :: Lr), (s.task u).ctxActive = true := by
      intro u hu
      rcases List.mem_cons.1 hu with e | hu
      · rw [e]; exact run.act
      · obtain ⟨_, a, hl⟩ := P17.lspine_sub _ hlab u hu
        exact hl.2
    have hsorted : (a0 :: lspine ((a0, p0) :: Lr)).Pairwise (P10.lt s) := by
      rw [List.pairwise_cons]
      refine ⟨?_, P17.lspine_pairwise hlt (fun a b c => P10.lt_trans) _ hlab⟩
      intro q hq
      cases Lr with
      | nil => cases hq
      | cons y Lr' =>
        exact P12.Lab.top_lt hlt (P17.LabA.toLab _ hlab) (P17.lspine_sub _ hlab q hq).1
    have hhot_in : ∀ o, hot s o = true → o ∈ a0 :: lspine ((a0, p0) :: Lr) := by
      intro o ho
      obtain ⟨h1, h2⟩ := P7.hot_ctxs ho
      obtain ⟨h3, h4⟩ := k.live o h2
      rcases hheads o h3 h1 h4 with h5 | h5
      · rw [hhead] at h5
        simp only [Option.some.injEq] at h5
        rw [h5]; exact List.mem_cons_self
      · cases Lr with
        | nil =>
          have : p0 = a0 := hlab
          simp only [List.map_cons, List.map_nil, List.mem_singleton] at h5
          rw [h5, this]; exact List.mem_cons_self
        | cons y Lr' => exact List.mem_cons_of_mem _ (P17.labels_sub Lr' (a0, p0) y hlab o h5)
    have hht : hotTasks s = (a0 :: lspine ((a0, p0) :: Lr)).filter (hot s) := by
      apply P17.sorted_unique (P10.lt s) (fun a => lb.hinv.irrefl a) (fun a b c => P10.lt_trans)
      · exact P17.pairwise_fo (P10.lt s) s.stack (hot s) (fun o _ ho => hpos o ho)
      · exact hsorted.filter _
      · intro x
        unfold hotTasks
        rw [P7.mem_fo, List.mem_filter]
        constructor
        · rintro ⟨_, hx⟩; exact ⟨hhot_in x hx, hx⟩
        · rintro ⟨_, hx⟩; exact ⟨k.stk x hx, hx⟩
    unfold rstack
    rw [hht]
    apply P17.filter_flatMap
    intro x hx hnh
    have := hact x hx
    simp only [hot, this, Bool.true_and, Bool.not_eq_false', List.isEmpty_iff] at hnh
    rw [hnh]; rfl

/-- the root of the outermost `wait_for` is the root of the current top-level computation -/
theorem buried_last {s : State} : ∀ (l : List Ctl), P13.Buried s l → ∀ w r, l.getLast? = some w → P13.rootOf w = some r →
    s.curTop = some r
  | [], _, _, _, h, _ => by cases h
  | [w0], hb, w, r, hl, hr => by
    simp only [List.getLast?_singleton, Option.some.injEq] at hl
    subst hl
    cases w0 with
    | gen t o => cases hr
    | waitEnter r0 => simp only [P13.rootOf, Option.some.injEq] at hr; subst hr; exact hb.1
    | waitLoop r0 b => simp only [P13.rootOf, Option.some.injEq] at hr; subst hr; exact hb.1
  | w0 :: w1 :: l, hb, w, r, hl, hr => by
    have hb' : P13.Buried s (w1 :: l) := by
      cases w0 with
      | gen t o => exact hb
      | waitEnter r0 => exact hb.2
      | waitLoop r0 b => exact hb.2
    rw [List.getLast?_cons_cons] at hl
    exact buried_last (w1 :: l) hb' w r hl hr

theorem expect_ovs (s : State) (var : Nat) : ∀ R : List Nat, expect s R var = get (ovs s R) var
  | [] => rfl
  | c :: R => by
    have ih := expect_ovs s var R
    unfold ovs at ih ⊢
    rw [List.filterMap_cons]
    simp only [expect, ovOf]
    cases hk : kindOf s c with
    | override v val =>
      simp only
      by_cases hv : var = v
      · subst hv; simp [SeqSV.get]
      · simp only [hv, if_false]
        rw [ih]
        simp only [SeqSV.get, List.lookup_cons]
        have : (var == v) = false := by simpa using hv
        rw [this]
    | plain => simp only; exact ih
    | nonasync => simp only; exact ih

theorem ovs_flatMap (s : State) (f : Nat → List Nat) : ∀ l : List Nat,
    ovs s (l.flatMap f) = l.flatMap fun u => ovs s (f u)
  | [] => rfl
  | a :: l => by
    have ih := ovs_flatMap s f l
    unfold ovs at *
    rw [List.flatMap_cons, List.filterMap_append, ih, List.flatMap_cons]

section
variable {cfg : Cfg} {tops : List (Conv × Body)} {s : State} {g : Ghost}

/-- a parent of a stack entry has started, is not finished, and has been called -/
theorem link_called (hS : Sim cfg tops s g) (live : ∀ p, p ∈ P2.gens s.ctl → (s.fut p).out = none) {p a : Nat}
    (hl : Link s p a) : s.computed p = false ∧ ∃ ip, g p = some ip := by
  have hk := hl.1
  have hcomp : s.computed p = false := by
    rcases hl.2 with h | h
    · exact h.1
    · have := live p (P12.edgeIn_gens h.2.2)
      simp [State.computed, State.out, this]
  have hstd : (s.task p).started = true := by
    cases hs : (s.task p).started with
    | true => rfl
    | false =>
      exfalso
      have hf := (hS.fresh p hk hs).1
      rcases hl.2 with ⟨_, _, hd⟩ | ⟨_, hp, _⟩
      · rw [hf.deps] at hd; cases hd
      · rw [hf.pending] at hp; cases hp
  refine ⟨hcomp, ?_⟩
  cases hg : g p with
  | some ip => exact ⟨ip, rfl⟩
  | none => have := hS.unst p hk hg; rw [hstd] at this; cases this

/-- the stack entry is an own future of its parent (no future is handed to a child) -/
theorem link_own (hS : Sim cfg tops s g) (hi : P10.HInv s) (live : ∀ p, p ∈ P2.gens s.ctl → (s.fut p).out = none)
    {p a : Nat} (hl : Link s p a) : ∃ i : Nat, (s.task p).own[i]? = some a := by
  have hk := hl.1
  rcases hl.2 with ⟨_, _, hd⟩ | h
  · rcases hi.deps p a hd with ho | ho
    · exact P10.mem_getElem? ho
    · rw [hS.inh p hk] at ho; cases ho
  · obtain ⟨⟨k, h', hb⟩, _, he⟩ := h
    have hc : s.computed p = false := by
      have := live p (P12.edgeIn_gens he)
      simp [State.computed, State.out, this]
    exact P10.mem_getElem? (hS.sync p a k h' hk hb hc).1

/-- the overrides of the open with-blocks of the spine below the top entry -/
def spineEnv (s : State) (L : List (Nat × Nat)) : SvEnv := (lspine L).flatMap fun u => ovs s (cids (s.task u))

/-- the current environment of the parent of the top entry is the environment of the spine -/
theorem spine_env (hS : Sim cfg tops s g) (hi : P10.HInv s) (live : ∀ p, p ∈ P2.gens s.ctl → (s.fut p).out = none)
    (hroot : ∀ r, s.curTop = some r → ∃ ir, g r = some ir ∧ ir.E = [])
    (hbur : ∀ w r, s.ctl.getLast? = some w → P13.rootOf w = some r → s.curTop = some r) :
    ∀ (L : List (Nat × Nat)), LabA s L → BotOK s L → ∀ a pa y rest, L = (a, pa) :: y :: rest →
      ∃ ipa, g pa = some ipa ∧ envOf s ipa.E (cids (s.task pa)) = spineEnv s L
  | [], _, _, _, _, _, _, e => by cases e
  | [_], _, _, _, _, _, _, e => by cases e
  | (a0, pa0) :: (b, pb) :: rest', hlab, hbot, a, pa, y, rest, e => by
    simp only [List.cons.injEq, Prod.mk.injEq] at e
    obtain ⟨⟨rfl, rfl⟩, rfl, rfl⟩ := e
    obtain ⟨hl, hadj, hlab'⟩ := hlab
    obtain ⟨hca, ipa, hgpa⟩ := link_called hS live hl.1
    have hbot' : BotOK s ((b, pb) :: rest') := by
      intro x hx
      apply hbot x
      rw [List.getLast?_cons_cons]; exact hx
    by_cases hpab : a0.succ = 0 ∨ pa0 = b
    · rcases hpab with h0 | hpab
      · cases h0
      subst hpab
      refine ⟨ipa, hgpa, ?_⟩
      have hsp : spineEnv s ((a0, pa0) :: (pa0, pb) :: rest') =
          ovs s (cids (s.task pa0)) ++ spineEnv s ((pa0, pb) :: rest') := by
        unfold spineEnv
        simp only [lspine, if_true, List.flatMap_cons]
      rw [hsp]
      unfold envOf
      congr 1
      -- the environment `pa0` was called in
      cases rest' with
      | nil =>
        -- `pa0` is the bottom entry: the root of the computation
        have hpb : pb = pa0 := hlab'
        have hb1 := hbot' (pa0, pb) rfl
        unfold P17.bottomRoot at hb1
        cases hgl : s.ctl.getLast? with
        | none => rw [hgl] at hb1; cases hb1
        | some w =>
          rw [hgl] at hb1
          obtain ⟨ir, hgr, hE⟩ := hroot pa0 (hbur w pa0 hgl hb1)
          rw [hgpa] at hgr
          rw [Option.some.inj hgr, hE]
          rfl
      | cons y' rest'' =>
        obtain ⟨ipb, hgpb, hE⟩ := spine_env hS hi live hroot hbur ((pa0, pb) :: y' :: rest'') hlab' hbot' pa0 pb y' rest'' rfl
        obtain ⟨hl', _, _⟩ := hlab'
        obtain ⟨i, ho⟩ := link_own hS hi live hl'.1
        rw [hS.env pb i pa0 ipa ipb hl'.1.1 ho hgpa hgpb hca, hE]
    · have hne : pa0 ≠ b := fun h => hpab (Or.inr h)
      have hpp : pa0 = pb := by
        rcases hadj with h | h
        · exact absurd h hne
        · exact h
      subst hpp
      cases rest' with
      | nil => exact absurd (hlab' : pa0 = b) hne
      | cons y' rest'' =>
        obtain ⟨ipb, hgpb, hE⟩ := spine_env hS hi live hroot hbur ((b, pa0) :: y' :: rest'') hlab' hbot' b pa0 y' rest'' rfl
        refine ⟨ipb, hgpb, ?_⟩
        rw [hE]
        unfold spineEnv
        simp only [lspine, hne, if_false]

/-- the facts of the library about a reachable state that the two theorems below use -/
theorem lib_facts (hs : P10.WSReach s) (hg : s.guardFired = false) (hna : P7.NA s) :
    P10.HInv s ∧ (∀ p, p ∈ P2.gens s.ctl → (s.fut p).out = none) ∧
    (∀ w r, s.ctl.getLast? = some w → P13.rootOf w = some r → s.curTop = some r) := by
  have lb := P12.lib_of_ws hs hg hna
  have good := P7.good_of_reach hs.reach hg hna
  have sr := (P13.inv13_of_reach hs.reach { (default : Spec.Ctx) with cfg := s.cfg } rfl).sr
  exact ⟨lb.hinv, fun p hp => good.pi.live p hp, fun w r hl hr => buried_last s.ctl sr.bur w r hl hr⟩

theorem root_env (hS : Sim cfg tops s g) : ∀ r, s.curTop = some r → ∃ ir, g r = some ir ∧ ir.E = [] := by
  intro r hr
  obtain ⟨ir, hgr, hρ⟩ := hS.cur r hr
  exact ⟨ir, hgr, (hS.root r ir hgr hρ).1⟩

/-- **the running task has been called** (it is the root, or a dependency of a suspended task, or the target of a
    synchronous call - and whatever a task awaits has been called) -/
theorem running_called (hS : Sim cfg tops s g) (hs : P10.WSReach s) (hg : s.guardFired = false) (hna : P7.NA s)
    {t : Nat} {old : Option Nat} {rest : List Ctl} (hctl : s.ctl = .gen t old :: rest) : g t ≠ none := by
  obtain ⟨hi, live, hbur⟩ := lib_facts hs hg hna
  have good := P7.good_of_reach hs.reach hg hna
  have run := good.running hctl
  obtain ⟨p0, Lr, hlab, hbot, _⟩ := spine_rstack hs hg hna hctl
  cases Lr with
  | nil =>
    have hb1 := hbot (t, p0) rfl
    unfold P17.bottomRoot at hb1
    cases hgl : s.ctl.getLast? with
    | none => rw [hgl] at hb1; cases hb1
    | some w =>
      rw [hgl] at hb1
      obtain ⟨ir, hgr, _⟩ := root_env hS t (hbur w t hgl hb1)
      rw [hgr]; intro h; cases h
  | cons y Lr' =>
    obtain ⟨b, pb⟩ := y
    have hl : Link s p0 t := hlab.1.1
    rcases hl.2 with ⟨_, _, hd⟩ | ⟨⟨k, h', hb⟩, _, he⟩
    · exact hS.depsCalled p0 t hl.1 hd run.kind
    · have hc : s.computed p0 = false := by
        have := live p0 (P12.edgeIn_gens he)
        simp [State.computed, State.out, this]
      exact (hS.sync p0 t k h' hl.1 hb hc).2 run.kind

/-- **the scoped values the running task sees are those of its sequential environment**: the environment it was
    called in, extended by the overrides of its open with-blocks -/
theorem running_env (hS : Sim cfg tops s g) (hs : P10.WSReach s) (hg : s.guardFired = false) (hna : P7.NA s)
    {t : Nat} {old : Option Nat} {rest : List Ctl} (hctl : s.ctl = .gen t old :: rest) {ip : Info} (hip : g t = some ip)
    (var : Nat) : s.svGet var = get (envOf s ip.E (cids (s.task t))) var := by
  obtain ⟨hi, live, hbur⟩ := lib_facts hs hg hna
  have good := P7.good_of_reach hs.reach hg hna
  have run := good.running hctl
  have k := P7.K_reach hs.reach hg hna
  obtain ⟨p0, Lr, hlab, hbot, hrs⟩ := spine_rstack hs hg hna hctl
  have hval := (C07_values s hs hg (P7.noNonAsync_of_na hna)).1 var
  have hk1 : ∀ u, (s.task u).ctxs.reverse = cids (s.task u) := fun u => (k.k1 u).symm
  rw [hval, hrs, expect_ovs, ovs_flatMap]
  congr 1
  simp only [hk1, List.flatMap_cons]
  unfold envOf
  congr 1
  -- the environment `t` was called in
  cases Lr with
  | nil =>
    have hb1 := hbot (t, p0) rfl
    unfold P17.bottomRoot at hb1
    cases hgl : s.ctl.getLast? with
    | none => rw [hgl] at hb1; cases hb1
    | some w =>
      rw [hgl] at hb1
      obtain ⟨ir, hgr, hE⟩ := root_env hS t (hbur w t hgl hb1)
      rw [hip] at hgr
      rw [Option.some.inj hgr, hE]
      rfl
  | cons y Lr' =>
    obtain ⟨ip0, hgp0, hE⟩ := spine_env hS hi live (root_env hS) hbur ((t, p0) :: y :: Lr') hlab hbot t p0 y Lr' rfl
    obtain ⟨b, pb⟩ := y
    have hl : Link s p0 t := hlab.1.1
    obtain ⟨i, ho⟩ := link_own hS hi live hl
    rw [hS.env p0 i t ip ip0 hl.1 ho hip hgp0 run.nc, hE]
    rfl

end

end AsynqModel.Core.P22
