import AsynqModel.Proofs.P9Step
/-
  P9 (property C20), part 14: MAX_TASK_STACK_SIZE is only read by the guard of `_execute`.
  `setM M s` replaces `cfg.maxStack`; every helper of the machine commutes with it, and so does `step` unless the
  guard fires.
-/
namespace AsynqModel.Core.P9
open AsynqModel.Core

def setM (M : Nat) (s : State) : State := { s with cfg := { s.cfg with maxStack := M } }

section
variable (M : Nat)

@[simp] theorem M_fut (s : State) (f : Nat) : (setM M s).fut f = s.fut f := id rfl
@[simp] theorem M_task (s : State) (t : Nat) : (setM M s).task t = s.task t := id rfl
@[simp] theorem M_out (s : State) : (setM M s).out = s.out := id rfl
@[simp] theorem M_computed (s : State) : (setM M s).computed = s.computed := id rfl
@[simp] theorem M_batch? (s : State) (k q : Nat) : (setM M s).batch? k q = s.batch? k q := id rfl
@[simp] theorem M_curBatch? (s : State) (k : Nat) : (setM M s).curBatch? k = s.curBatch? k := id rfl
@[simp] theorem M_ctxs (s : State) : (setM M s).ctxs = s.ctxs := id rfl
@[simp] theorem M_sv (s : State) : (setM M s).sv = s.sv := id rfl
@[simp] theorem M_ctl (s : State) : (setM M s).ctl = s.ctl := id rfl
@[simp] theorem M_stack (s : State) : (setM M s).stack = s.stack := id rfl
@[simp] theorem M_active (s : State) : (setM M s).active = s.active := id rfl
@[simp] theorem M_sbatches (s : State) : (setM M s).sbatches = s.sbatches := id rfl
@[simp] theorem M_choices (s : State) : (setM M s).choices = s.choices := id rfl
@[simp] theorem M_raising (s : State) : (setM M s).raising = s.raising := id rfl
@[simp] theorem M_stuck (s : State) : (setM M s).stuck = s.stuck := id rfl
@[simp] theorem M_curTop (s : State) : (setM M s).curTop = s.curTop := id rfl
@[simp] theorem M_tops (s : State) : (setM M s).tops = s.tops := id rfl
@[simp] theorem M_topIdx (s : State) : (setM M s).topIdx = s.topIdx := id rfl
@[simp] theorem M_keepDeps (s : State) : (setM M s).cfg.keepDeps = s.cfg.keepDeps := id rfl
@[simp] theorem M_kind (s : State) (k : Nat) : (setM M s).cfg.kind k = s.cfg.kind k := id rfl
@[simp] theorem M_maxStack (s : State) : (setM M s).cfg.maxStack = M := id rfl
@[simp] theorem M_ctxIsNonAsync (s : State) : (setM M s).ctxIsNonAsync = s.ctxIsNonAsync := id rfl
@[simp] theorem M_flushable (s : State) : (setM M s).flushable = s.flushable := id rfl
@[simp] theorem M_admissible (s : State) : (setM M s).admissible = s.admissible := id rfl
@[simp] theorem M_defaultChoice (s : State) : (setM M s).defaultChoice = s.defaultChoice := id rfl
@[simp] theorem M_batchPrio (s : State) : (setM M s).batchPrio = s.batchPrio := id rfl
@[simp] theorem M_pendingOf (s : State) : (setM M s).pendingOf = s.pendingOf := id rfl
@[simp] theorem M_svGet (s : State) : (setM M s).svGet = s.svGet := id rfl

theorem M_emit (s : State) (e : Event) : setM M (s.emit e) = (setM M s).emit e := rfl
theorem M_fail (s : State) (m : String) : setM M (s.fail m) = (setM M s).fail m := rfl
theorem M_setFut (s : State) (f : Nat) (x : Fut) : setM M (s.setFut f x) = (setM M s).setFut f x := rfl
theorem M_updTask (s : State) (t : Nat) (g : TaskSt → TaskSt) : setM M (s.updTask t g) = (setM M s).updTask t g := rfl
theorem M_updBatch (s : State) (k q : Nat) (g : Batch → Batch) : setM M (s.updBatch k q g) = (setM M s).updBatch k q g := rfl
theorem M_popStack (s : State) : setM M s.popStack = (setM M s).popStack := rfl
theorem M_alloc_fst (s : State) (x : Fut) (nk : NewKind) : setM M (s.alloc x nk).1 = ((setM M s).alloc x nk).1 := rfl
theorem M_alloc_snd (s : State) (x : Fut) (nk : NewKind) : ((setM M s).alloc x nk).2 = (s.alloc x nk).2 := rfl
theorem M_complete (s : State) (f : Nat) (o : Outcome) : setM M (s.complete f o) = (setM M s).complete f o := rfl
theorem M_leaveGen (s : State) (t : Nat) (old : Option Nat) : setM M (s.leaveGen t old) = (setM M s).leaveGen t old := rfl
theorem M_raiseOut (s : State) (e : Err) : setM M (s.raiseOutOfWait e) = (setM M s).raiseOutOfWait e := rfl
theorem M_returnFromWait (s : State) : setM M s.returnFromWait = (setM M s).returnFromWait := rfl

theorem M_svSet (s : State) (var val : Nat) : setM M (s.svSet var val) = (setM M s).svSet var val := by
  unfold State.svSet
  rw [apply_ite (setM M)]; rfl

theorem M_svTouch (s : State) (var : Nat) : setM M (s.svTouch var) = (setM M s).svTouch var := by
  unfold State.svTouch
  rw [apply_ite (setM M)]; rfl

theorem M_ctxSetResumed (s : State) (c : Nat) (r : Bool) : setM M (s.ctxSetResumed c r) = (setM M s).ctxSetResumed c r := by
  unfold State.ctxSetResumed
  simp only [M_ctxs]
  cases s.ctxs[c]? <;> rfl

theorem M_ctxResumeOne (s : State) (c : Nat) : setM M (s.ctxResumeOne c) = (setM M s).ctxResumeOne c := by
  unfold State.ctxResumeOne
  have h : setM M ((s.emit (.ctx true c)).ctxSetResumed c true) = ((setM M s).emit (.ctx true c)).ctxSetResumed c true := by
    rw [M_ctxSetResumed]; rfl
  dsimp only
  rw [← h]
  generalize (s.emit (.ctx true c)).ctxSetResumed c true = s1
  simp only [M_ctxs]
  cases s1.ctxs[c]? with
  | none => rfl
  | some x =>
    simp only
    cases x.kind with
    | override var val =>
      simp only
      rw [← M_svSet]
      rfl
    | plain => rfl
    | nonasync => rfl

theorem M_ctxPauseOne (s : State) (c : Nat) : setM M (s.ctxPauseOne c) = (setM M s).ctxPauseOne c := by
  unfold State.ctxPauseOne
  have h : setM M ((s.emit (.ctx false c)).ctxSetResumed c false) = ((setM M s).emit (.ctx false c)).ctxSetResumed c false := by
    rw [M_ctxSetResumed]; rfl
  dsimp only
  rw [← h]
  generalize (s.emit (.ctx false c)).ctxSetResumed c false = s1
  simp only [M_ctxs]
  cases s1.ctxs[c]? with
  | none => rfl
  | some x =>
    simp only
    cases x.kind with
    | override var val =>
      simp only
      rw [← M_svSet]
    | plain => rfl
    | nonasync => rfl

theorem M_ctxExitAux (s : State) (c : Nat) (owner : Option Nat) :
    setM M (P3.ctxExitAux s c owner) = P3.ctxExitAux (setM M s) c owner := by
  unfold P3.ctxExitAux
  cases owner with
  | none =>
    dsimp only
    rw [M_emit]
    simp only [M_ctxIsNonAsync]
    rw [apply_ite (setM M), M_ctxPauseOne]
  | some o =>
    dsimp only
    rw [← M_updTask]
    generalize (s.updTask o fun ts => { ts with ctxs := ts.ctxs.erase c }) = s1
    rw [M_emit]
    simp only [M_ctxIsNonAsync, M_task]
    rw [apply_ite (setM M), M_ctxPauseOne]

theorem M_ctxExit (s : State) (c : Nat) : setM M (s.ctxExit c) = (setM M s).ctxExit c := by
  rw [P3.ctxExit_eq, P3.ctxExit_eq, M_ctxExitAux]; rfl

theorem M_foldl {α : Type} (g : State → α → State) (hg : ∀ s a, setM M (g s a) = g (setM M s) a) (l : List α) (s : State) :
    setM M (l.foldl g s) = l.foldl g (setM M s) := by
  induction l generalizing s with
  | nil => rfl
  | cons a l ih => simp only [List.foldl_cons]; rw [ih, hg]

theorem M_exitAll (s : State) (t : Nat) : setM M (s.exitAll t) = (setM M s).exitAll t := by
  unfold State.exitAll
  simp only [M_task]
  rw [M_updTask, M_foldl _ _ (fun s p => M_ctxExit M s p.1)]

theorem M_failSuspended (s : State) (t : Nat) (e : Err) : setM M (s.failSuspended t e) = (setM M s).failSuspended t e := by
  unfold State.failSuspended
  simp only [M_computed]
  rw [apply_ite (setM M), M_complete, M_updTask, M_exitAll]

theorem M_resumeContexts (s : State) (t : Nat) : setM M (s.resumeContexts t) = (setM M s).resumeContexts t := by
  unfold State.resumeContexts
  simp only [M_task]
  rw [apply_ite (setM M)]
  congr 1
  have h : setM M ((s.task t).ctxs.foldl (fun s c => if s.ctxIsNonAsync c then s else s.ctxResumeOne c)
        (s.updTask t fun ts => { ts with ctxActive := true })) =
      (s.task t).ctxs.foldl (fun s c => if s.ctxIsNonAsync c then s else s.ctxResumeOne c)
        ((setM M s).updTask t fun ts => { ts with ctxActive := true }) := by
    rw [M_foldl, M_updTask]
    intro s c
    simp only [M_ctxIsNonAsync]
    rw [apply_ite (setM M), M_ctxResumeOne]
  rw [← h]
  generalize ((s.task t).ctxs.foldl (fun s c => if s.ctxIsNonAsync c then s else s.ctxResumeOne c)
        (s.updTask t fun ts => { ts with ctxActive := true })) = s1
  simp only [M_ctxIsNonAsync]
  rw [apply_ite (setM M), M_failSuspended]

theorem M_pauseContexts (s : State) (t : Nat) : setM M (s.pauseContexts t) = (setM M s).pauseContexts t := by
  unfold State.pauseContexts
  simp only [M_task]
  rw [apply_ite (setM M)]
  congr 1
  have h : setM M ((s.task t).ctxs.reverse.foldl (fun s c => if s.ctxIsNonAsync c then s else s.ctxPauseOne c)
        (s.updTask t fun ts => { ts with ctxActive := false })) =
      (s.task t).ctxs.reverse.foldl (fun s c => if s.ctxIsNonAsync c then s else s.ctxPauseOne c)
        ((setM M s).updTask t fun ts => { ts with ctxActive := false }) := by
    rw [M_foldl, M_updTask]
    intro s c
    simp only [M_ctxIsNonAsync]
    rw [apply_ite (setM M), M_ctxPauseOne]
  rw [← h]
  generalize ((s.task t).ctxs.reverse.foldl (fun s c => if s.ctxIsNonAsync c then s else s.ctxPauseOne c)
        (s.updTask t fun ts => { ts with ctxActive := false })) = s1
  simp only [M_ctxIsNonAsync]
  rw [apply_ite (setM M), M_failSuspended]


/-! ### batches and the scheduler -/

theorem M_switchActive (s : State) (k q : Nat) : setM M (s.switchActive k q) = (setM M s).switchActive k q := by
  unfold State.switchActive
  simp only [M_curBatch?]
  cases s.curBatch? k with
  | none => rfl
  | some b =>
    simp only
    rw [apply_ite (setM M)]; rfl

theorem M_flushItems (s : State) (kind : Nat) (l : List Nat) : setM M (s.flushItems kind l) = (setM M s).flushItems kind l := by
  induction l generalizing s with
  | nil => rfl
  | cons i is ih =>
    unfold State.flushItems
    rw [ih]
    congr 1
    simp only [M_computed, M_fut]
    rw [apply_ite (setM M)]
    congr 1
    split <;> rfl

theorem M_finishItems (s : State) (e : Err) (l : List Nat) : setM M (s.finishItems e l) = (setM M s).finishItems e l := by
  induction l generalizing s with
  | nil => rfl
  | cons i is ih =>
    unfold State.finishItems
    rw [ih]
    congr 1
    simp only [M_computed]
    rw [apply_ite (setM M), M_complete]

theorem M_flushBody (s : State) (kind seq : Nat) (b : Batch) (raises kd : Bool) :
    setM M (flushBody s kind seq b raises kd) = flushBody (setM M s) kind seq b raises kd := by
  unfold flushBody
  dsimp only
  rw [M_updBatch, M_emit, M_finishItems, M_flushItems, M_emit, M_switchActive]

theorem M_flushBatch (s : State) (kind seq : Nat) : setM M (s.flushBatch kind seq) = (setM M s).flushBatch kind seq := by
  rw [flushBatch_eq, flushBatch_eq]
  simp only [M_batch?, M_kind, M_keepDeps]
  cases s.batch? kind seq with
  | none => rfl
  | some b => exact M_flushBody M _ _ _ _ _ _

theorem M_flushWith (s : State) (fl : List (Nat × Nat)) (c? : Option (Nat × Nat)) (rest : List (Nat × Nat)) :
    setM M (flushWith s fl c? rest) = flushWith (setM M s) fl c? rest := by
  unfold flushWith
  cases c? with
  | none => rfl
  | some c =>
    simp only [M_admissible, M_batch?]
    rw [apply_ite (setM M)]
    congr 1
    cases s.batch? c.1 c.2 with
    | none => rfl
    | some b =>
      simp only
      rw [M_emit, M_flushBatch]
      rfl

theorem M_pick (s : State) : pick (setM M s) = pick s := rfl

theorem M_schedulerFlush (s : State) (root : Nat) : setM M (s.schedulerFlush root) = (setM M s).schedulerFlush root := by
  rw [P3.schedulerFlush_eq, P3.schedulerFlush_eq, flushRest_eq, flushRest_eq]
  simp only [M_flushable]
  rw [apply_ite (setM M), M_flushWith]
  rfl

theorem M_newTask_fst (s : State) (child : Body) (inh : List Nat) :
    setM M (s.newTask child inh).1 = ((setM M s).newTask child inh).1 := by
  unfold State.newTask
  simp only [M_fut, M_active]
  rw [evalBody_cfg (setM M s).cfg s.cfg rfl]
  rfl

theorem M_newTask_snd (s : State) (child : Body) (inh : List Nat) :
    ((setM M s).newTask child inh).2 = (s.newTask child inh).2 := rfl

theorem M_finishTask (s : State) (t : Nat) (old : Option Nat) (o : Outcome) :
    setM M (s.finishTask t old o) = (setM M s).finishTask t old o := by
  unfold State.finishTask
  simp only [M_computed]
  rw [apply_ite (setM M), M_leaveGen, M_complete, M_updTask, M_exitAll]
  rfl

theorem M_handleCore (s : State) (t : Nat) (blocked dS inF : Bool) (deps : List Nat) :
    setM M (handleCore s t blocked dS inF deps) = handleCore (setM M s) t blocked dS inF deps := by
  unfold handleCore
  cases blocked with
  | true =>
    simp only [if_true]
    cases dS with
    | true =>
      simp only [if_true]
      rw [M_popStack, M_pauseContexts, M_updTask]
    | false =>
      simp only [Bool.false_eq_true, if_false]
      rw [← M_updTask, ← M_resumeContexts]
      generalize ((s.updTask t fun ts => { ts with depsSched := true }).resumeContexts t) = s1
      rfl
  | false =>
    simp only [Bool.false_eq_true, if_false]
    cases inF with
    | true => rfl
    | false =>
      simp only [Bool.false_eq_true, if_false]
      rw [← M_resumeContexts]
      rfl

theorem M_handleTask (s : State) (t : Nat) : setM M (s.handleTask t) = (setM M s).handleTask t := by
  rw [handleTask_eq, handleTask_eq]
  exact M_handleCore M s t _ _ _ _

theorem M_schedItem (s : State) (kind seq : Nat) (fl : Option Bool) :
    setM M (schedItem s kind seq fl) = schedItem (setM M s) kind seq fl := by
  unfold schedItem
  cases fl with
  | none => rfl
  | some f =>
    simp only [M_sbatches]
    rw [apply_ite (setM M)]; rfl

/-- without the guard firing -/
theorem M_iterCore (s : State) (top : Nat) (comp : Bool) (k : FKind) :
    setM M (iterCore s top false comp k) = iterCore (setM M s) top false comp k := by
  unfold iterCore
  simp only [Bool.false_eq_true, if_false]
  cases comp with
  | true => rfl
  | false =>
    simp only [Bool.false_eq_true, if_false]
    cases k with
    | task => exact M_handleTask M s top
    | item kind seq pl md =>
      simp only [M_batch?]
      rw [M_popStack, M_schedItem]
    | «lazy» o => rfl
    | const => rfl
    | errfut => rfl


/-! ### the instructions of a task body -/

theorem M_gStart (s : State) (t : Nat) : setM M (gStart s t) = gStart (setM M s) t := rfl

theorem M_gResume (s : State) (t : Nat) (kd : Bool) (i : Nat) (dc : Bool) (r : Except Err Val) (k h : Body) :
    setM M (gResume s t kd i dc r k h) = gResume (setM M s) t kd i dc r k h := by
  unfold gResume
  cases r <;> rfl

theorem M_gSpawn (s : State) (t : Nat) (child : Body) (inh : List Nat) (k : Body) :
    setM M (gSpawn s t child inh k) = gSpawn (setM M s) t child inh k := by
  unfold gSpawn
  rw [M_updTask, M_newTask_fst, M_newTask_snd]

theorem M_gAlloc (s : State) (t : Nat) (x : Fut) (nk : NewKind) (k : Body) :
    setM M (gAlloc s t x nk k) = gAlloc (setM M s) t x nk k := rfl

theorem M_ensureBatch (s : State) (kind : Nat) : setM M (ensureBatch s kind) = ensureBatch (setM M s) kind := by
  unfold ensureBatch
  simp only [M_curBatch?]
  cases s.curBatch? kind <;> rfl

theorem M_gItem (s : State) (t : Nat) (kind payload : Nat) (mode : ItemMode) (k : Body) :
    setM M (gItem s t kind payload mode k) = gItem (setM M s) t kind payload mode k := by
  unfold gItem
  simp only
  rw [← M_ensureBatch]
  generalize ensureBatch s kind = s1
  simp only [M_curBatch?]
  cases s1.curBatch? kind with
  | none => rfl
  | some b =>
    simp only
    rw [itemOutcome_cfg (setM M s1).cfg s1.cfg rfl]
    rfl

theorem M_gYield (s : State) (t : Nat) (old : Option Nat) (i : Nat) (deps : List Nat) (ry : RY) (g : TaskSt → TaskSt) :
    setM M (gYield s t old i deps ry g) = gYield (setM M s) t old i deps ry g := by
  unfold gYield
  simp only
  rw [apply_ite (setM M)]; rfl

theorem M_gSync (s : State) (t : Nat) (child : Body) (inh : List Nat) (k h : Body) :
    setM M (gSync s t child inh k h) = gSync (setM M s) t child inh k h := by
  unfold gSync
  simp only
  rw [M_newTask_snd, ← M_newTask_fst]
  rfl

theorem M_sfCore (s : State) (f : Nat) (comp : Bool) (k : FKind) (fl : Nat → Nat → Option Bool) :
    setM M (sfCore s f comp k fl) = sfCore (setM M s) f comp k fl := by
  unfold sfCore
  cases comp with
  | true => rfl
  | false =>
    simp only [Bool.false_eq_true, if_false]
    cases k with
    | task => rfl
    | item kind seq pl md =>
      simp only
      cases fl kind seq with
      | none => rfl
      | some b =>
        cases b with
        | true => rfl
        | false =>
          simp only [Bool.false_eq_true, if_false]
          exact M_flushBatch M _ _ _
    | «lazy» o => rfl
    | const => rfl
    | errfut => rfl

theorem M_gSyncfut (s : State) (t f : Nat) (k h : Body) :
    setM M (gSyncfut s t f k h) = gSyncfut (setM M s) t f k h := by
  rw [gSyncfut_eq, gSyncfut_eq]
  exact M_sfCore M _ _ _ _ _

theorem M_gSyncret (s : State) (t f : Nat) (k h : Body) (o : Option Outcome) :
    setM M (gSyncret s t f k h o) = gSyncret (setM M s) t f k h o := by
  unfold gSyncret
  cases o with
  | none => rfl
  | some o => cases o <;> rfl

theorem M_gWith (s : State) (t : Nat) (c : CtxKind) (b k : Body) :
    setM M (gWith s t c b k) = gWith (setM M s) t c b k := by
  unfold gWith
  simp only [M_ctxs]
  rw [M_updTask]
  congr 1
  have h1 : setM M (P3.wc1 s c) = P3.wc1 (setM M s) c := by
    unfold P3.wc1
    cases c <;> first | rfl | exact M_svTouch M _ _
  have h3 : ∀ x : State, setM M (P3.wc3 x s.ctxs.length t c) = P3.wc3 (setM M x) s.ctxs.length t c := fun _ => rfl
  have h4 : ∀ x : State, setM M (P3.wc4 x s.ctxs.length) = P3.wc4 (setM M x) s.ctxs.length := fun x => by
    unfold P3.wc4
    simp only [M_active]
    cases x.active <;> rfl
  have h5 : ∀ x : State, setM M (P3.wc5 x c s.ctxs.length) = P3.wc5 (setM M x) c s.ctxs.length := fun x => by
    unfold P3.wc5
    rw [apply_ite (setM M), M_ctxResumeOne]
  rw [h5, h4, h3, h1]

theorem M_gEndwith (s : State) (t : Nat) (old : Option Nat) (conts : List (Nat × Body)) :
    setM M (gEndwith s t old conts) = gEndwith (setM M s) t old conts := by
  unfold gEndwith
  cases conts with
  | nil => exact M_finishTask M _ _ _ _
  | cons p rest =>
    obtain ⟨cid, k⟩ := p
    simp only
    rw [M_updTask, M_ctxExit]

theorem M_gRead (s : State) (t var : Nat) (k : Body) : setM M (gRead s t var k) = gRead (setM M s) t var k := by
  unfold gRead
  simp only
  rw [← M_svTouch]
  rfl

theorem M_gActive (s : State) (t : Nat) (k : Body) : setM M (gActive s t k) = gActive (setM M s) t k := rfl

theorem M_genStep (s : State) (t : Nat) (old : Option Nat) :
    setM M (s.genStep t old) = (setM M s).genStep t old := by
  cases hp : (s.task t).pending with
  | true =>
    cases hs : (s.task t).started with
    | false => rw [genStep_start s t old hp hs, genStep_start (setM M s) t old hp hs]; rfl
    | true =>
      cases hb : (s.task t).body with
      | yld y k h =>
        rw [genStep_resume_yld s t old y k h hp hs hb, genStep_resume_yld (setM M s) t old y k h hp hs hb]
        exact M_gResume M _ _ _ _ _ _ _ _
      | reyld k h =>
        rw [genStep_resume_reyld s t old k h hp hs hb, genStep_resume_reyld (setM M s) t old k h hp hs hb]
        exact M_gResume M _ _ _ _ _ _ _ _
      | _ =>
        rw [genStep_resume_bad s t old hp hs (by rw [hb]; intros; simp) (by rw [hb]; intros; simp),
          genStep_resume_bad (setM M s) t old hp hs (by rw [M_task, hb]; intros; simp) (by rw [M_task, hb]; intros; simp)]
        rfl
  | false =>
    cases hb : (s.task t).body with
    | ret tag => rw [genStep_ret s t old tag hp hb, genStep_ret (setM M s) t old tag hp hb]; exact M_finishTask M _ _ _ _
    | res tag => rw [genStep_res s t old tag hp hb, genStep_res (setM M s) t old tag hp hb]; exact M_finishTask M _ _ _ _
    | raise e => rw [genStep_raise s t old e hp hb, genStep_raise (setM M s) t old e hp hb]; exact M_finishTask M _ _ _ _
    | reraise => rw [genStep_reraise s t old hp hb, genStep_reraise (setM M s) t old hp hb]; exact M_finishTask M _ _ _ _
    | spawn child pass k =>
      rw [genStep_spawn s t old child pass k hp hb, genStep_spawn (setM M s) t old child pass k hp hb]
      exact M_gSpawn M _ _ _ _ _
    | item kind payload mode k =>
      rw [genStep_item s t old kind payload mode k hp hb, genStep_item (setM M s) t old kind payload mode k hp hb]
      exact M_gItem M _ _ _ _ _ _
    | const v k => rw [genStep_const s t old v k hp hb, genStep_const (setM M s) t old v k hp hb]; rfl
    | errfut e k => rw [genStep_errfut s t old e k hp hb, genStep_errfut (setM M s) t old e k hp hb]; rfl
    | «lazy» o k => rw [genStep_lazy s t old o k hp hb, genStep_lazy (setM M s) t old o k hp hb]; rfl
    | yld y k h =>
      rw [genStep_yld s t old y k h hp hb, genStep_yld (setM M s) t old y k h hp hb]
      exact M_gYield M _ _ _ _ _ _ _
    | reyld k h =>
      rw [genStep_reyld s t old k h hp hb, genStep_reyld (setM M s) t old k h hp hb]
      exact M_gYield M _ _ _ _ _ _ _
    | sync child pass k h =>
      rw [genStep_sync s t old child pass k h hp hb, genStep_sync (setM M s) t old child pass k h hp hb]
      exact M_gSync M _ _ _ _ _ _
    | syncfut r k h =>
      rw [genStep_syncfut s t old r k h hp hb, genStep_syncfut (setM M s) t old r k h hp hb]
      exact M_gSyncfut M _ _ _ _ _
    | syncret f k h =>
      rw [genStep_syncret s t old f k h hp hb, genStep_syncret (setM M s) t old f k h hp hb]
      exact M_gSyncret M _ _ _ _ _ _
    | withCtx c b k =>
      rw [genStep_withCtx s t old c b k hp hb, genStep_withCtx (setM M s) t old c b k hp hb]
      exact M_gWith M _ _ _ _ _
    | endwith =>
      rw [genStep_endwith s t old hp hb, genStep_endwith (setM M s) t old hp hb]
      exact M_gEndwith M _ _ _ _
    | read var k =>
      rw [genStep_read s t old var k hp hb, genStep_read (setM M s) t old var k hp hb]
      exact M_gRead M _ _ _ _
    | active k => rw [genStep_active s t old k hp hb, genStep_active (setM M s) t old k hp hb]; rfl


/-! ### one step -/

theorem M_finishTop (s : State) (f : Nat) : setM M (s.finishTop f) = (setM M s).finishTop f := rfl

theorem M_topStart (s : State) (conv : Conv) (body : Body) (rest : List (Conv × Body)) :
    setM M (topStart s conv body rest) = topStart (setM M s) conv body rest := by
  unfold topStart
  simp only
  have e1 : setM M (({ s with tops := rest, topIdx := s.topIdx + 1 } : State).emit (.top s.topIdx conv)) =
      ({ setM M s with tops := rest, topIdx := (setM M s).topIdx + 1 } : State).emit (.top (setM M s).topIdx conv) := rfl
  rw [← e1]
  generalize (({ s with tops := rest, topIdx := s.topIdx + 1 } : State).emit (.top s.topIdx conv)) = s1
  rw [M_newTask_snd, ← M_newTask_fst]
  rfl

theorem M_weCore (s : State) (root : Nat) (r : Option Err) (comp : Bool) :
    setM M (weCore s root r comp) = weCore (setM M s) root r comp := by
  unfold weCore
  cases r with
  | some e => rfl
  | none =>
    simp only [Option.isSome_none, Bool.false_eq_true, if_false]
    cases comp <;> rfl

theorem executeIter_guardFired (s : State) (top : Nat) (rest : List Nat) (hst : s.stack = top :: rest)
    (hg : s.executeIter.guardFired = false) : decide (s.stack.length > s.cfg.maxStack) = false := by
  cases h : decide (s.stack.length > s.cfg.maxStack) with
  | false => rfl
  | true =>
    rw [executeIter_cons s top rest hst, h] at hg
    unfold iterCore at hg
    simp only [if_true] at hg
    cases hg

theorem M_executeIter (s : State) (hg : s.executeIter.guardFired = false) (hM : s.cfg.maxStack ≤ M) :
    setM M s.executeIter = (setM M s).executeIter := by
  cases hst : s.stack with
  | nil => rw [executeIter_nil s hst, executeIter_nil (setM M s) hst]; rfl
  | cons top rest =>
    have h1 := executeIter_guardFired s top rest hst hg
    have h2 : decide ((setM M s).stack.length > (setM M s).cfg.maxStack) = false := by
      simp only [decide_eq_false_iff_not, M_stack, M_maxStack] at h1 ⊢
      omega
    rw [executeIter_cons s top rest hst, executeIter_cons (setM M s) top rest hst, h1, h2]
    exact M_iterCore M s top _ _

theorem M_wlCore (s : State) (root : Nat) (r : Option Err) (above comp : Bool)
    (hg : (wlCore s root r above comp).guardFired = false) (hM : s.cfg.maxStack ≤ M) :
    setM M (wlCore s root r above comp) = wlCore (setM M s) root r above comp := by
  unfold wlCore at hg ⊢
  cases r with
  | some e => rfl
  | none =>
    simp only [Option.isSome_none, Bool.false_eq_true, if_false] at hg ⊢
    cases above with
    | true =>
      simp only [if_true] at hg ⊢
      exact M_executeIter M s hg hM
    | false =>
      simp only [Bool.false_eq_true, if_false]
      cases comp with
      | true => rfl
      | false => exact M_schedulerFlush M s root

theorem M_genBad (s : State) (t : Nat) : genBad (setM M s) t = genBad s t := rfl

/-- raising MAX_TASK_STACK_SIZE does not change a step in which the guard does not fire -/
theorem M_step (s : State) (hg : (step s).guardFired = false) (hM : s.cfg.maxStack ≤ M) :
    step (setM M s) = setM M (step s) := by
  cases hst : s.stuck with
  | some m => rw [step_stuck s (by simp [hst]), step_stuck (setM M s) (by simp [hst])]
  | none =>
    have hst' : (setM M s).stuck = none := hst
    cases hctl : s.ctl with
    | nil =>
      have hctl' : (setM M s).ctl = [] := hctl
      cases hc : s.curTop with
      | some f => rw [step_nil_top s f hst hctl hc, step_nil_top (setM M s) f hst' hctl' hc]; rfl
      | none =>
        cases ht : s.tops with
        | nil => rw [step_nil_done s hst hctl hc ht, step_nil_done (setM M s) hst' hctl' hc ht]
        | cons p rest =>
          obtain ⟨conv, body⟩ := p
          rw [step_nil_start s conv body rest hst hctl hc ht, step_nil_start (setM M s) conv body rest hst' hctl' hc ht,
            M_topStart]
    | cons c rest =>
      have hctl' : (setM M s).ctl = c :: rest := hctl
      cases c with
      | waitEnter root =>
        rw [step_waitEnter s root rest hst hctl, step_waitEnter (setM M s) root rest hst' hctl', M_weCore]
        rfl
      | waitLoop root base =>
        rw [step_waitLoop s root base rest hst hctl] at hg ⊢
        rw [step_waitLoop (setM M s) root base rest hst' hctl', M_wlCore M s root _ _ _ hg hM]
        rfl
      | gen t old =>
        rw [step_gen s t old rest hst hctl, step_gen (setM M s) t old rest hst' hctl', M_genBad]
        unfold genCore
        rw [apply_ite (setM M), M_genStep]
        rfl

theorem setM_self (s : State) : setM s.cfg.maxStack s = s := rfl

end

end AsynqModel.Core.P9
