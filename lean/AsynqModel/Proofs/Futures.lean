import AsynqModel.Lib.Futures
/-! helper lemmas for C10: the observer `Watch` simulates the future `Fut` -/
namespace AsynqModel.Futures

/-- the observer's state mirrors the future (simulation relation used for `C10_spec_holds`) -/
structure Rel (k : Kind) (w : Watch) (f : Fut) : Prop where
  kind : f.kind = k
  known : w.known = f.out
  subs : w.subs = f.subs
  runs : w.runs = f.runs
  bound : f.runs ≤ w.resets + (if f.out.isSome then 1 else 0)
  sink : k.sinking = true → f.subs = []

theorem matchCbs_self (o : Outc) (late removed : List Nat) (subs : List Sub) :
    matchCbs o late (marks removed subs) (subs.map (notif o)) = true := by
  induction subs generalizing removed with
  | nil => simp [marks, matchCbs]
  | cons s ss ih => simp [marks, matchCbs, notif, ih]

/-- the notifications the model produces for a completion are accepted by the observer's clause -/
theorem notifiedAll_self (subs : List Sub) (o : Outc) :
    notifiedAll subs (subs.map (notif o)) o = true := by
  simp [notifiedAll, matchCbs_self]

@[simp] theorem afterNotify_nil : afterNotify [] = [] := rfl
@[simp] theorem hasSub_nil (j : Nat) : hasSub [] j = false := rfl
@[simp] theorem eraseSub_nil (j : Nat) : eraseSub [] j = [] := rfl

theorem rel_init (k : Kind) : Rel k (watchInit k) (init k) := by
  cases k <;> constructor <;> simp [watchInit, init, Kind.sinking]

local macro "rel_step_tac" : tactic => `(tactic| (
  cases hk : (‹Fut›).kind <;> cases ho : (‹Fut›).out <;> cases ha : (‹Fut›).alive <;>
    simp_all [watchStep, observe, step, compute, complete, readOk, readValue, readError, Kind.sinking,
      notifiedAll_self] <;>
    (split <;> first | omega | (refine ⟨_, rfl, ?_⟩; constructor <;> simp_all [Kind.sinking] <;> omega))))

theorem rel_step_value (k : Kind) (w : Watch) (f : Fut) (h : Rel k w f) :
    ∃ w', watchStep k w (observe f .value).2 = .ok w' ∧
      Rel k { w' with runs := (observe f .value).2.runs } (observe f .value).1 := by
  obtain ⟨hk, hkn, hs, hr, hb, hsink⟩ := h
  subst hk
  rel_step_tac

theorem rel_step_error (k : Kind) (w : Watch) (f : Fut) (h : Rel k w f) :
    ∃ w', watchStep k w (observe f .error).2 = .ok w' ∧
      Rel k { w' with runs := (observe f .error).2.runs } (observe f .error).1 := by
  obtain ⟨hk, hkn, hs, hr, hb, hsink⟩ := h
  subst hk
  rel_step_tac

theorem rel_step_call (k : Kind) (w : Watch) (f : Fut) (h : Rel k w f) :
    ∃ w', watchStep k w (observe f .call).2 = .ok w' ∧
      Rel k { w' with runs := (observe f .call).2.runs } (observe f .call).1 := by
  obtain ⟨hk, hkn, hs, hr, hb, hsink⟩ := h
  subst hk
  rel_step_tac

theorem rel_step_isComputed (k : Kind) (w : Watch) (f : Fut) (h : Rel k w f) :
    ∃ w', watchStep k w (observe f .isComputed).2 = .ok w' ∧
      Rel k { w' with runs := (observe f .isComputed).2.runs } (observe f .isComputed).1 := by
  obtain ⟨hk, hkn, hs, hr, hb, hsink⟩ := h
  subst hk
  rel_step_tac

theorem rel_step_setValue (k : Kind) (w : Watch) (f : Fut) (v : Nat) (h : Rel k w f) :
    ∃ w', watchStep k w (observe f (.setValue v)).2 = .ok w' ∧
      Rel k { w' with runs := (observe f (.setValue v)).2.runs } (observe f (.setValue v)).1 := by
  obtain ⟨hk, hkn, hs, hr, hb, hsink⟩ := h
  subst hk
  rel_step_tac

theorem rel_step_setError (k : Kind) (w : Watch) (f : Fut) (e : Nat) (h : Rel k w f) :
    ∃ w', watchStep k w (observe f (.setError e)).2 = .ok w' ∧
      Rel k { w' with runs := (observe f (.setError e)).2.runs } (observe f (.setError e)).1 := by
  obtain ⟨hk, hkn, hs, hr, hb, hsink⟩ := h
  subst hk
  rel_step_tac

theorem rel_step_reset (k : Kind) (w : Watch) (f : Fut) (h : Rel k w f) :
    ∃ w', watchStep k w (observe f .reset).2 = .ok w' ∧
      Rel k { w' with runs := (observe f .reset).2.runs } (observe f .reset).1 := by
  obtain ⟨hk, hkn, hs, hr, hb, hsink⟩ := h
  subst hk
  rel_step_tac

theorem rel_step_subscribe (k : Kind) (w : Watch) (f : Fut) (i : Nat) (r : Beh) (h : Rel k w f) :
    ∃ w', watchStep k w (observe f (.subscribe i r)).2 = .ok w' ∧
      Rel k { w' with runs := (observe f (.subscribe i r)).2.runs } (observe f (.subscribe i r)).1 := by
  obtain ⟨hk, hkn, hs, hr, hb, hsink⟩ := h
  subst hk
  rel_step_tac

theorem rel_step_unsubscribe (k : Kind) (w : Watch) (f : Fut) (i : Nat) (h : Rel k w f) :
    ∃ w', watchStep k w (observe f (.unsubscribe i)).2 = .ok w' ∧
      Rel k { w' with runs := (observe f (.unsubscribe i)).2.runs } (observe f (.unsubscribe i)).1 := by
  obtain ⟨hk, hkn, hs, hr, hb, hsink⟩ := h
  subst hk
  cases hh : hasSub f.subs i <;> cases hk : f.kind <;> cases ho : f.out <;>
    simp_all [watchStep, observe, step, unsubStep, Kind.sinking] <;>
    (split <;> first | omega | (refine ⟨_, rfl, ?_⟩; constructor <;> simp_all [Kind.sinking] <;> omega))

theorem rel_step (k : Kind) (w : Watch) (f : Fut) (op : Op) (h : Rel k w f) :
    ∃ w', watchStep k w (observe f op).2 = .ok w' ∧
      Rel k { w' with runs := (observe f op).2.runs } (observe f op).1 := by
  cases op with
  | value => exact rel_step_value k w f h
  | error => exact rel_step_error k w f h
  | call => exact rel_step_call k w f h
  | isComputed => exact rel_step_isComputed k w f h
  | setValue v => exact rel_step_setValue k w f v h
  | setError e => exact rel_step_setError k w f e h
  | reset => exact rel_step_reset k w f h
  | subscribe i r => exact rel_step_subscribe k w f i r h
  | unsubscribe i => exact rel_step_unsubscribe k w f i h

theorem watchRun_ok (k : Kind) (ops : List Op) (w : Watch) (f : Fut) (h : Rel k w f) :
    ∃ w', watchRun k w (run f ops) = .ok w' := by
  induction ops generalizing w f with
  | nil => exact ⟨w, rfl⟩
  | cons op ops ih =>
    obtain ⟨w', h1, h2⟩ := rel_step k w f op h
    simp only [run, watchRun, h1]
    exact ih _ _ h2

theorem unsubStep_resets (k : Kind) (w w' : Watch) (i : Nat) (r : Res) (h : unsubStep k w i r = .ok w') :
    w'.resets = w.resets := by
  unfold unsubStep at h
  repeat' split at h
  all_goals (first | contradiction | (injection h with h; subst h; rfl))

theorem watchStep_resets (k : Kind) (w w' : Watch) (ob : Obs) (h : watchStep k w ob = .ok w') :
    w'.resets = w.resets + (if ob.op = .reset then 1 else 0) := by
  unfold watchStep at h
  simp only at h
  repeat' split at h
  all_goals (first | contradiction | (injection h with h; subst h; simp_all) |
    (have := unsubStep_resets _ _ _ _ _ h; simp_all))

theorem runs_bound (k : Kind) (ops : List Op) (w : Watch) (f : Fut) (h : Rel k w f) :
    (finalState f ops).runs ≤ w.resets + ops.count .reset + 1 := by
  induction ops generalizing w f with
  | nil =>
    have := h.bound
    simp only [finalState, List.count_nil]
    split at this <;> omega
  | cons op ops ih =>
    obtain ⟨w', h1, h2⟩ := rel_step k w f op h
    have := ih _ _ h2
    have hres := watchStep_resets k w w' _ h1
    simp only [finalState]
    have hop : (observe f op).2.op = op := rfl
    rw [hop] at hres
    simp only [List.count_cons] at *
    by_cases hop' : op = .reset <;> simp_all <;> omega

end AsynqModel.Futures
