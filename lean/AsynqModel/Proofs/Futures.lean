import AsynqModel.Lib.Futures
/-! helper lemmas for C10: the observer `Watch` simulates the future `Fut`; run counting; stability of a computed future -/
namespace AsynqModel.Futures

/-! ### the subscribers' exception channel -/

/-- no subscriber of the list raises an Exception `e` for which `safe_repr(e)` raises (`Beh.raisingWorse`) -/
def noWorse (subs : List Sub) : Bool := subs.all (fun s => s.2 != .raisingWorse)

/-- the operation subscribes a handler that raises such an exception -/
def Op.worse : Op → Bool
  | .subscribe _ .raisingWorse => true
  | _ => false

/-- no operation of the history subscribes such a handler (hypothesis of `C10_spec_holds` before fix 9f49616; unused now) -/
def noWorseOps (ops : List Op) : Bool := ops.all (fun op => !op.worse)

@[simp] theorem noWorse_nil : noWorse [] = true := rfl

theorem noWorse_eraseSub (subs : List Sub) (j : Nat) (h : noWorse subs = true) : noWorse (eraseSub subs j) = true := by
  induction subs with
  | nil => rfl
  | cons s ss ih =>
    simp only [noWorse, List.all_cons, Bool.and_eq_true] at h ⊢ ih
    simp only [eraseSub]
    split
    · exact h.2
    · simp only [List.all_cons, Bool.and_eq_true]; exact ⟨h.1, ih h.2⟩

theorem noWorse_single (i : Nat) (b : Beh) : noWorse [(i, b)] = (b != .raisingWorse) := by simp [noWorse]

theorem noWorse_append (a b : List Sub) : noWorse (a ++ b) = (noWorse a && noWorse b) := by simp [noWorse]

theorem noWorse_applyBeh (live : List Sub) (s : Sub) (h : noWorse live = true) : noWorse (applyBeh live s) = true := by
  unfold applyBeh
  split
  · exact noWorse_eraseSub _ _ h
  · exact noWorse_eraseSub _ _ h
  · rw [noWorse_append, h]; rfl
  · exact h

theorem noWorse_foldl (l live : List Sub) (h : noWorse live = true) : noWorse (l.foldl applyBeh live) = true := by
  induction l generalizing live with
  | nil => exact h
  | cons s ss ih => exact ih _ (noWorse_applyBeh live s h)

theorem noWorse_afterNotify (subs : List Sub) (h : noWorse subs = true) : noWorse (afterNotify subs) = true :=
  noWorse_foldl subs subs h

/-- whatever the live list, `safe_repr` of the first exception of the round (if any) returns -/
theorem firstRaise_noWorse (subs live : List Sub) (h : noWorse subs = true) : firstRaise live subs ≠ some true := by
  induction subs generalizing live with
  | nil => simp [firstRaise]
  | cons s ss ih =>
    simp only [noWorse, List.all_cons, Bool.and_eq_true, bne_iff_ne, ne_eq] at h
    have hss : noWorse ss = true := by simpa [noWorse] using h.2
    simp only [firstRaise]
    cases hb : behRaises live s with
    | none => exact ih _ hss
    | some b =>
      simp only [ne_eq, Option.some.injEq]
      intro hbt
      subst hbt
      obtain ⟨i, beh⟩ := s
      cases beh <;> simp_all [behRaises] <;> (try (split at hb <;> simp_all))

/-- if no subscriber raises an exception that defeats `safe_repr`, `safe_repr` returns for the exception of the round -/
theorem safeReprRaises_noWorse (subs : List Sub) (h : noWorse subs = true) : safeReprRaises subs = false := by
  have := firstRaise_noWorse subs subs h
  unfold safeReprRaises
  cases hf : firstRaise subs subs with
  | none => rfl
  | some b => cases b <;> simp_all

/-- the observer's state mirrors the future (simulation relation used for `C10_spec_holds`, whose hypothesis is the last field) -/
structure Rel (k : Kind) (w : Watch) (f : Fut) : Prop where
  kind : f.kind = k
  known : w.known = f.out
  subs : w.subs = f.subs
  runs : w.runs = f.runs
  done : k.isTask = true → w.done = !f.alive
  sink : k.sinking = true → f.subs = []
  stats : k.isTask = true → f.statsOk = true     -- hypothesis `hstats` of C10_spec_holds: the perf-stats step can run

/-- a subscriber called with a future that holds `o` makes exactly the notification the property asks for -/
theorem notifyOne_of_out (f : Fut) (o : Outc) (h : f.out = some o) (s : Sub) : notifyOne f s = notif o s := by
  cases s with
  | mk i b => cases b <;> simp [notifyOne, notif, innerRes, expInner, h]

theorem matchCbs_self (o : Outc) (late removed : List Nat) (subs : List Sub) :
    matchCbs o late (marks removed subs) (subs.map (notif o)) = true := by
  induction subs generalizing removed with
  | nil => simp [marks, matchCbs]
  | cons s ss ih => simp [marks, matchCbs, notif, ih]

/-- `complete` stores first and notifies afterwards: every subscriber sees the new outcome -/
theorem complete_cbs (f : Fut) (o : Outc) : (complete f o).2 = f.subs.map (notif o) := by
  simp only [complete]
  apply List.map_congr_left
  intro s _
  exact notifyOne_of_out _ o rfl s

/-- `complete` in closed form -/
theorem complete_eq (f : Fut) (o : Outc) :
    complete f o = ({ f with out := some o, alive := false, subs := afterNotify f.subs }, f.subs.map (notif o)) := by
  have h := complete_cbs f o
  simp only [complete] at h ⊢
  rw [h]

/-- the notifications the model produces for a completion are accepted by the observer's clause -/
theorem notifiedAll_self (subs : List Sub) (o : Outc) :
    notifiedAll subs (subs.map (notif o)) o = true := by
  simp [notifiedAll, matchCbs_self]

@[simp] theorem afterNotify_nil : afterNotify [] = [] := rfl
@[simp] theorem hasSub_nil (j : Nat) : hasSub [] j = false := rfl
@[simp] theorem eraseSub_nil (j : Nat) : eraseSub [] j = [] := rfl

theorem rel_init (k : Kind) (c : Cfg) (hs : k.isTask = true → c.statsOk = true) : Rel k (watchInit k) (init k c) := by
  cases k <;> constructor <;> simp_all [watchInit, init, Kind.sinking, Kind.isTask]

local macro "rel_fields" : tactic => `(tactic| (constructor <;> (try simp_all [Kind.sinking, Kind.isTask, noWorse_afterNotify, noWorse_eraseSub, noWorse_append, noWorse_single])))
local macro "rel_close" : tactic => `(tactic| first | (refine ⟨_, rfl, ?_⟩; rel_fields) | rel_fields)

local macro "rel_step_tac" : tactic => `(tactic| (
  cases hk : (‹Fut›).kind <;> cases ho : (‹Fut›).out <;> cases ha : (‹Fut›).alive <;>
    simp_all [watchStep, setStep, readStep, observe, step, compute, complete_eq, readOk, freshReadOk, computeOk, Kind.natural,
      Kind.isTask, readValue, readError, Kind.sinking, notifiedAll_self, hookExc, hookFails, setRes, computedExc] <;>
    (try rel_close)))

theorem rel_step_value (k : Kind) (w : Watch) (f : Fut) (h : Rel k w f) :
    ∃ w', watchStep k w (observe f .value).2 = .ok w' ∧
      Rel k { w' with runs := (observe f .value).2.runs } (observe f .value).1 := by
  obtain ⟨hk, hkn, hs, hr, hb, hsink, hst⟩ := h
  subst hk
  have hesc : subEscapes f.subs = false := rfl
  rel_step_tac

theorem rel_step_error (k : Kind) (w : Watch) (f : Fut) (h : Rel k w f) :
    ∃ w', watchStep k w (observe f .error).2 = .ok w' ∧
      Rel k { w' with runs := (observe f .error).2.runs } (observe f .error).1 := by
  obtain ⟨hk, hkn, hs, hr, hb, hsink, hst⟩ := h
  subst hk
  have hesc : subEscapes f.subs = false := rfl
  rel_step_tac

theorem rel_step_call (k : Kind) (w : Watch) (f : Fut) (h : Rel k w f) :
    ∃ w', watchStep k w (observe f .call).2 = .ok w' ∧
      Rel k { w' with runs := (observe f .call).2.runs } (observe f .call).1 := by
  obtain ⟨hk, hkn, hs, hr, hb, hsink, hst⟩ := h
  subst hk
  have hesc : subEscapes f.subs = false := rfl
  rel_step_tac

theorem rel_step_isComputed (k : Kind) (w : Watch) (f : Fut) (h : Rel k w f) :
    ∃ w', watchStep k w (observe f .isComputed).2 = .ok w' ∧
      Rel k { w' with runs := (observe f .isComputed).2.runs } (observe f .isComputed).1 := by
  obtain ⟨hk, hkn, hs, hr, hb, hsink, hst⟩ := h
  subst hk
  have hesc : subEscapes f.subs = false := rfl
  rel_step_tac

theorem rel_step_setValue (k : Kind) (w : Watch) (f : Fut) (v : Nat) (h : Rel k w f) :
    ∃ w', watchStep k w (observe f (.setValue v)).2 = .ok w' ∧
      Rel k { w' with runs := (observe f (.setValue v)).2.runs } (observe f (.setValue v)).1 := by
  obtain ⟨hk, hkn, hs, hr, hb, hsink, hst⟩ := h
  subst hk
  have hesc : subEscapes f.subs = false := rfl
  rel_step_tac

theorem rel_step_setError (k : Kind) (w : Watch) (f : Fut) (e : Nat) (h : Rel k w f) :
    ∃ w', watchStep k w (observe f (.setError e)).2 = .ok w' ∧
      Rel k { w' with runs := (observe f (.setError e)).2.runs } (observe f (.setError e)).1 := by
  obtain ⟨hk, hkn, hs, hr, hb, hsink, hst⟩ := h
  subst hk
  have hesc : subEscapes f.subs = false := rfl
  rel_step_tac

theorem rel_step_setErrorNone (k : Kind) (w : Watch) (f : Fut) (h : Rel k w f) :
    ∃ w', watchStep k w (observe f .setErrorNone).2 = .ok w' ∧
      Rel k { w' with runs := (observe f .setErrorNone).2.runs } (observe f .setErrorNone).1 := by
  obtain ⟨hk, hkn, hs, hr, hb, hsink, hst⟩ := h
  subst hk
  have hesc : subEscapes f.subs = false := rfl
  rel_step_tac

theorem rel_step_reset (k : Kind) (w : Watch) (f : Fut) (h : Rel k w f) :
    ∃ w', watchStep k w (observe f .reset).2 = .ok w' ∧
      Rel k { w' with runs := (observe f .reset).2.runs } (observe f .reset).1 := by
  obtain ⟨hk, hkn, hs, hr, hb, hsink, hst⟩ := h
  subst hk
  have hesc : subEscapes f.subs = false := rfl
  rel_step_tac

theorem rel_step_subscribe (k : Kind) (w : Watch) (f : Fut) (i : Nat) (r : Beh) (h : Rel k w f) :
    ∃ w', watchStep k w (observe f (.subscribe i r)).2 = .ok w' ∧
      Rel k { w' with runs := (observe f (.subscribe i r)).2.runs } (observe f (.subscribe i r)).1 := by
  obtain ⟨hk, hkn, hs, hr, hb, hsink, hst⟩ := h
  subst hk
  have hesc : subEscapes f.subs = false := rfl
  rel_step_tac

theorem rel_step_unsubscribe (k : Kind) (w : Watch) (f : Fut) (i : Nat) (h : Rel k w f) :
    ∃ w', watchStep k w (observe f (.unsubscribe i)).2 = .ok w' ∧
      Rel k { w' with runs := (observe f (.unsubscribe i)).2.runs } (observe f (.unsubscribe i)).1 := by
  obtain ⟨hk, hkn, hs, hr, hb, hsink, hst⟩ := h
  subst hk
  have hesc : subEscapes f.subs = false := rfl
  cases hh : hasSub f.subs i <;> cases hk : f.kind <;> cases ho : f.out <;>
    simp_all [watchStep, observe, step, unsubStep, Kind.sinking] <;>
    (try rel_close)

theorem rel_step_option (k : Kind) (w : Watch) (f : Fut) (d : DbgOpt) (on : Bool) (h : Rel k w f) :
    ∃ w', watchStep k w (observe f (.option d on)).2 = .ok w' ∧
      Rel k { w' with runs := (observe f (.option d on)).2.runs } (observe f (.option d on)).1 := by
  obtain ⟨hk, hkn, hs, hr, hb, hsink, hst⟩ := h
  subst hk
  have hesc : subEscapes f.subs = false := rfl
  cases d <;> rel_step_tac

theorem rel_step_raiseIfError (k : Kind) (w : Watch) (f : Fut) (h : Rel k w f) :
    ∃ w', watchStep k w (observe f .raiseIfError).2 = .ok w' ∧
      Rel k { w' with runs := (observe f .raiseIfError).2.runs } (observe f .raiseIfError).1 := by
  obtain ⟨hk, hkn, hs, hr, hb, hsink, hst⟩ := h
  subst hk
  have hesc : subEscapes f.subs = false := rfl
  rel_step_tac

theorem rel_step_inspect (k : Kind) (w : Watch) (f : Fut) (h : Rel k w f) :
    ∃ w', watchStep k w (observe f .inspect).2 = .ok w' ∧
      Rel k { w' with runs := (observe f .inspect).2.runs } (observe f .inspect).1 := by
  obtain ⟨hk, hkn, hs, hr, hb, hsink, hst⟩ := h
  subst hk
  have hesc : subEscapes f.subs = false := rfl
  rel_step_tac

theorem rel_step (k : Kind) (w : Watch) (f : Fut) (op : Op) (h : Rel k w f) :
    ∃ w', watchStep k w (observe f op).2 = .ok w' ∧
      Rel k { w' with runs := (observe f op).2.runs } (observe f op).1 := by
  cases op with
  | value => exact rel_step_value k w f h
  | error => exact rel_step_error k w f h
  | call => exact rel_step_call k w f h
  | isComputed => exact rel_step_isComputed k w f h
  | setValue v => exact rel_step_setValue k w f v h
  | setError e => exact rel_step_setError k w f e h
  | setErrorNone => exact rel_step_setErrorNone k w f h
  | reset => exact rel_step_reset k w f h
  | subscribe i r => exact rel_step_subscribe k w f i r h
  | unsubscribe i => exact rel_step_unsubscribe k w f i h
  | option d on => exact rel_step_option k w f d on h
  | raiseIfError => exact rel_step_raiseIfError k w f h
  | inspect => exact rel_step_inspect k w f h

theorem watchRun_ok (k : Kind) (ops : List Op) (w : Watch) (f : Fut) (h : Rel k w f) :
    ∃ w', watchRun k w (run f ops) = .ok w' := by
  induction ops generalizing w f with
  | nil => exact ⟨w, rfl⟩
  | cons op ops ih =>
    obtain ⟨w', h1, h2⟩ := rel_step k w f op h
    simp only [run, watchRun, h1]
    exact ih _ _ h2

/-! ### how often the computation runs -/

/-- per operation: the provider / task body runs at most once more, never when the future is computed, and only in a
    read (`value()`, call, `error()`) that finds the future uncomputed -/
theorem runs_step (f : Fut) (op : Op) :
    (step f op).1.runs ≤ f.runs + 1 ∧ (f.out.isSome → (step f op).1.runs = f.runs) ∧
    ((step f op).1.runs = f.runs + 1 → f.out = none ∧ (op = .value ∨ op = .call ∨ op = .error)) := by
  cases op <;> cases ho : f.out <;> cases hk : f.kind <;> cases ha : f.alive <;>
    simp_all [step, compute, complete_eq] <;> (repeat' split) <;> simp_all

/-- 1 if the future holds an outcome (its allowance of one run is used up), else 0 -/
def used (f : Fut) : Nat := if f.out.isSome then 1 else 0

/-- a run of the computation is paid for by the future becoming computed; only `reset_unsafe()` of a COMPUTED future
    gives the allowance back -/
theorem runs_potential (f : Fut) (op : Op) :
    (step f op).1.runs + used f ≤
      f.runs + used (step f op).1 + (if op = .reset ∧ f.out.isSome then 1 else 0) := by
  cases op <;> cases ho : f.out <;> cases hk : f.kind <;> cases ha : f.alive <;>
    simp_all [step, compute, complete_eq, used] <;> (repeat' split) <;> simp_all

/-- the resets of a history that found the future computed -/
def effResets (f : Fut) : List Op → Nat
  | [] => 0
  | op :: ops => (if op = .reset ∧ f.out.isSome then 1 else 0) + effResets (observe f op).1 ops

theorem observe_fst (f : Fut) (op : Op) : (observe f op).1 = (step f op).1 := rfl

theorem runs_effResets (ops : List Op) (f : Fut) :
    (finalState f ops).runs + used f ≤ f.runs + used (finalState f ops) + effResets f ops := by
  induction ops generalizing f with
  | nil => simp [finalState, effResets]
  | cons op ops ih =>
    have h1 := runs_potential f op
    have h2 := ih (observe f op).1
    simp only [finalState, effResets, observe_fst] at *
    omega

theorem effResets_le_count (ops : List Op) (f : Fut) : effResets f ops ≤ ops.count .reset := by
  induction ops generalizing f with
  | nil => simp [effResets]
  | cons op ops ih =>
    have := ih (observe f op).1
    simp only [effResets, List.count_cons]
    by_cases hop : op = .reset
    · subst hop; simp only [true_and, beq_self_eq_true, if_true]; split <;> omega
    · simp [hop]; omega

theorem used_le (f : Fut) : used f ≤ 1 := by unfold used; split <;> omega

/-! ### a computed future stays as it is until `reset_unsafe()` -/

/-- what an operation on a future computed with `o` has to answer -/
def stableRes (o : Outc) (subs : List Sub) (sinking : Bool) : Op → Res
  | .value | .call => readValue o
  | .error => readError o
  | .isComputed => .bool true
  | .setValue _ | .setError _ | .setErrorNone => .raised .alreadyComputed
  | .reset => .unit
  | .subscribe _ _ => .unit
  | .unsubscribe j => if sinking || hasSub subs j then .unit else .raised .notSubscribed
  | .option _ _ | .inspect => .unit
  | .raiseIfError => raiseRes o

/-- one operation other than `reset_unsafe()` on a computed future: outcome, run counter and kind unchanged, nobody
    notified, the answer is the report of the outcome (reads) / FutureIsAlreadyComputed (sets) -/
theorem computed_step (f : Fut) (o : Outc) (op : Op) (h : f.out = some o) (hr : op ≠ .reset) :
    (step f op).1.out = some o ∧ (step f op).1.runs = f.runs ∧ (step f op).1.kind = f.kind ∧
    (step f op).2.2 = [] ∧ (step f op).2.1 = stableRes o f.subs f.kind.sinking op := by
  cases op <;> simp_all [step, stableRes] <;> (repeat' split) <;> simp_all

end AsynqModel.Futures
