import AsynqModel.Proofs.P25M
/-
  P25 (termination without the NonAsync / guard hypotheses), part 3: what one iteration of `_execute`
  (`State.executeIter`) does on the level of views - with NonAsyncContexts (`pause()` / `resume()` may fail the task that
  is being visited: `ComplT`) and with the MAX_TASK_STACK_SIZE guard (`ID.guard`).  No hypothesis about `guardFired`,
  `raising` or the contexts.
-/
namespace AsynqModel.Core.P25
open AsynqModel.Core AsynqModel.Core.P6 AsynqModel.Core.P6T

/-- heap size, batch table and remaining computations are kept -/
structure Fr (s r : State) : Prop where
  len : r.futs.length = s.futs.length
  batches : r.batches = s.batches
  tops : r.tops = s.tops

theorem Fr.refl (s : State) : Fr s s := ⟨rfl, rfl, rfl⟩

theorem Fr.trans {a b c : State} (h1 : Fr a b) (h2 : Fr b c) : Fr a c :=
  ⟨h2.len.trans h1.len, h2.batches.trans h1.batches, h2.tops.trans h1.tops⟩

theorem Fr.of_eqv {s r : State} (e : Eqv s r) : Fr s r := ⟨e.len, e.batches, e.tops⟩

theorem Fr.of_upd1 {s r : State} {t : Nat} {v : FV} (U : Upd1 s r t v) : Fr s r := ⟨U.len, U.batches, U.tops⟩

/-- `r` is `s` with the uncomputed future `t` computed (a lazy future run by `_execute`, or a task failed by
    `NonAsyncContext.pause()` / `resume()`); the fields of the state outside the heap are not described -/
structure ComplT (s r : State) (t : Nat) : Prop where
  fr : Fr s r
  ht : t < s.futs.length
  h0 : (view s t).out = none
  h1 : (view r t).out ≠ none
  hvo : ∀ f, f ≠ t → view r f = view s f
  kd : (view r t).kind = (view s t).kind
  pv : (view r t).prevY = (view s t).prevY
  dp : (view r t).deps = []
  oc : (view s t).kind = .task → (view r t).out = some (.err .nonasync)

theorem ComplT.views {s r : State} {t : Nat} (c : ComplT s r t) (f : Nat) :
    view r f = view s f ∨ (view r f).out ≠ none := by
  by_cases e : f = t
  · subst e; exact Or.inr c.h1
  · exact Or.inl (c.hvo f e)

theorem ComplT.of_eqv_left {s s1 r : State} {t : Nat} (e : Eqv s s1) (c : ComplT s1 r t) : ComplT s r t :=
  ⟨(Fr.of_eqv e).trans c.fr, by rw [← e.len]; exact c.ht, by rw [← e.view]; exact c.h0, c.h1,
   fun f hf => (c.hvo f hf).trans (e.view f), by rw [← e.view]; exact c.kd, by rw [← e.view]; exact c.pv, c.dp,
   by rw [← e.view]; exact c.oc⟩

theorem ComplT.of_upd_left {s s1 r : State} {t : Nat} {v : FV} (U : Upd1 s s1 t v) (hv : v.out = (view s t).out)
    (hk : v.kind = (view s t).kind) (hp : v.prevY = (view s t).prevY) (c : ComplT s1 r t) : ComplT s r t :=
  ⟨(Fr.of_upd1 U).trans c.fr, by rw [← U.len]; exact c.ht, by rw [← hv, ← U.viewT]; exact c.h0, c.h1,
   fun f hf => (c.hvo f hf).trans (U.viewO f hf), by rw [← hk, ← U.viewT]; exact c.kd,
   by rw [← hp, ← U.viewT]; exact c.pv, c.dp, by rw [← hk, ← U.viewT]; exact c.oc⟩

theorem ComplT.congr {s r r' : State} {t : Nat} (c : ComplT s r t) (hf : r'.futs = r.futs) (hb : r'.batches = r.batches)
    (ht : r'.tops = r.tops) : ComplT s r' t := by
  have hv : ∀ f, view r' f = view r f := fun f => by unfold view State.fut; rw [hf]
  exact ⟨⟨by rw [hf]; exact c.fr.len, hb.trans c.fr.batches, ht.trans c.fr.tops⟩, c.ht, c.h0, by rw [hv]; exact c.h1,
    fun f h => (hv f).trans (c.hvo f h), by rw [hv]; exact c.kd, by rw [hv]; exact c.pv, by rw [hv]; exact c.dp,
    by rw [hv]; exact c.oc⟩

theorem complT_of_upd1 {s r : State} {t : Nat} {v' : FV} (U : Upd1 s r t v') (ht : t < s.futs.length)
    (hc : (view s t).out = none) (hk : v'.kind = (view s t).kind) (hp : v'.prevY = (view s t).prevY)
    (hd : v'.deps = []) (ho : v'.out = some (.err .nonasync)) : ComplT s r t :=
  ⟨Fr.of_upd1 U, ht, hc, by rw [U.viewT, ho]; simp, U.viewO, by rw [U.viewT, hk], by rw [U.viewT, hp],
   by rw [U.viewT, hd], fun _ => by rw [U.viewT, ho]⟩

/-! ### `failSuspended`, `pauseContexts`, `resumeContexts` -/

theorem failSuspended_desc (s : State) (t : Nat) (ht : t < s.futs.length) :
    Eqv s (s.failSuspended t .nonasync) ∨
      (ComplT s (s.failSuspended t .nonasync) t ∧ (s.failSuspended t .nonasync).stack = s.stack ∧
        (s.failSuspended t .nonasync).ctl = s.ctl) := by
  unfold State.failSuspended
  split
  · exact Or.inl (Eqv.refl s)
  · rename_i hc
    have hc : s.computed t = false := by simpa using hc
    right
    have e1 := eqv_exitFold s (s.task t).conts
    have U1 := Upd1.of_eqv e1 t
    have U2 := U1.updTask ht (fun ts => { ts with conts := [] }) (fun v => { v with conts := [] }) (fun _ => rfl)
    have U3 := U2.updTask ht (fun ts => { ts with pending := false }) (fun v => { v with pending := false })
      (fun _ => rfl)
    have U4 := U3.complete ht (.err .nonasync)
    refine ⟨complT_of_upd1 U4 ht (out_none_of_uncomputed hc) rfl rfl rfl rfl, U4.stack, ?_⟩
    show (List.foldl (fun s p => s.ctxExit p.1) s (s.task t).conts).ctl = s.ctl
    exact e1.ctl

theorem pauseContexts_desc (s : State) (t : Nat) (ht : t < s.futs.length) :
    Eqv s (s.pauseContexts t) ∨
      (ComplT s (s.pauseContexts t) t ∧ (s.pauseContexts t).stack = s.stack ∧ (s.pauseContexts t).ctl = s.ctl) := by
  unfold State.pauseContexts
  dsimp only
  split
  · exact Or.inl (Eqv.refl _)
  · have h : Eqv s ((s.task t).ctxs.reverse.foldl (fun s c => if s.ctxIsNonAsync c then s else s.ctxPauseOne c)
        (s.updTask t fun ts => { ts with ctxActive := false })) :=
      (eqv_updTask s t _ (fun _ => rfl)).trans (eqv_foldl _ (fun s c => by
        split
        · exact Eqv.refl _
        · exact eqv_ctxPauseOne _ _) _ _)
    split
    · rcases failSuspended_desc _ t (by rw [h.len]; exact ht) with e | ⟨c, c1, c2⟩
      · exact Or.inl (h.trans e)
      · exact Or.inr ⟨c.of_eqv_left h, c1.trans h.stack, c2.trans h.ctl⟩
    · exact Or.inl h

theorem resumeContexts_desc (s : State) (t : Nat) (ht : t < s.futs.length) :
    Eqv s (s.resumeContexts t) ∨
      (ComplT s (s.resumeContexts t) t ∧ (s.resumeContexts t).stack = s.stack ∧ (s.resumeContexts t).ctl = s.ctl) := by
  unfold State.resumeContexts
  dsimp only
  split
  · exact Or.inl (Eqv.refl _)
  · have h : Eqv s ((s.task t).ctxs.foldl (fun s c => if s.ctxIsNonAsync c then s else s.ctxResumeOne c)
        (s.updTask t fun ts => { ts with ctxActive := true })) :=
      (eqv_updTask s t _ (fun _ => rfl)).trans (eqv_foldl _ (fun s c => by
        split
        · exact Eqv.refl _
        · exact eqv_ctxResumeOne _ _) _ _)
    split
    · rcases failSuspended_desc _ t (by rw [h.len]; exact ht) with e | ⟨c, c1, c2⟩
      · exact Or.inl (h.trans e)
      · exact Or.inr ⟨c.of_eqv_left h, c1.trans h.stack, c2.trans h.ctl⟩
    · exact Or.inl h

/-! ### one iteration of `_execute` -/

/-- the shapes of `r = s.executeIter` when the stack is `top :: st` -/
inductive ID (s r : State) (top : Nat) (st : List Nat) : Prop
  /-- the MAX_TASK_STACK_SIZE guard resets the scheduler and raises out of the innermost `wait_for` -/
  | guard (hv : ∀ f, view r f = view s f) (fr : Fr s r) (hctl : r.ctl = s.ctl.tail) (hgf : r.guardFired = true)
  /-- a lazy future is computed; or `pause()` / `resume()` of a NonAsyncContext fails the visited task -/
  | compl (t : Nat) (c : ComplT s r t) (hstk : ∀ x ∈ r.stack, x ∈ s.stack ∨ x ∈ (view s t).deps)
      (hctl : r.ctl = s.ctl ∨ ∃ a, r.ctl = .gen t a :: s.ctl)
  /-- a task that is not blocked is continued -/
  | enterGen (hv : ∀ f, view r f = view s f) (fr : Fr s r) (a : Option Nat) (hctl : r.ctl = .gen top a :: s.ctl)
      (hst : r.stack = s.stack)
  /-- the top of the stack is popped: it is computed, or an item (whose batch gets scheduled) -/
  | pop (hcase : s.computed top = true ∨ (s.computed top = false ∧ ∃ k q p m, (view s top).kind = .item k q p m ∧
          ∀ b, s.batch? k q = some b → b.flushed = false → (k, q) ∈ r.sbatches))
      (hv : ∀ f, view r f = view s f) (fr : Fr s r) (hst : r.stack = st) (hctl : r.ctl = s.ctl)
      (hsb : ∀ c ∈ s.sbatches, c ∈ r.sbatches)
  /-- second visit of a blocked task: it is popped, its flag is reset -/
  | second (hk : (view s top).kind = .task) (hc : s.computed top = false)
      (hbl : ∃ d ∈ (view s top).deps, s.computed d = false) (hfl : (view s top).flag = true)
      (hvt : view r top = flagView false (view s top)) (hvo : ∀ f, f ≠ top → view r f = view s f) (fr : Fr s r)
      (hst : r.stack = st) (hctl : r.ctl = s.ctl) (hsb : r.sbatches = s.sbatches)
  /-- first visit of a blocked task: its flag is set, its uncomputed dependencies are pushed -/
  | first (hk : (view s top).kind = .task) (hc : s.computed top = false)
      (hbl : ∃ d ∈ (view s top).deps, s.computed d = false) (hfl : (view s top).flag = false)
      (hvt : view r top = flagView true (view s top)) (hvo : ∀ f, f ≠ top → view r f = view s f) (fr : Fr s r)
      (hst : r.stack = ((view s top).deps.filter fun d => !s.computed d).reverse ++ s.stack) (hctl : r.ctl = s.ctl)
      (hsb : r.sbatches = s.sbatches)

theorem handleTask_id (s : State) (top : Nat) (st : List Nat) (hstk : s.stack = top :: st)
    (hk : (view s top).kind = .task) (hc : s.computed top = false)
    (hst : (s.handleTask top).stuck = none) : ID s (s.handleTask top) top st := by
  have ht : top < s.futs.length := lt_of_view_task s top hk
  have U0 : Upd1 s s top (view s top) := Upd1.of_eqv (Eqv.refl s) top
  revert hst
  unfold State.handleTask
  dsimp only
  split
  · rename_i hbl
    have hbl' : ∃ d ∈ (view s top).deps, s.computed d = false := any_not_computed.1 hbl
    split
    · rename_i hfl
      intro _
      have U1 := U0.updTask ht (fun ts => { ts with depsSched := false }) (flagView false) (fun _ => rfl)
      rcases pauseContexts_desc (s.updTask top fun ts => { ts with depsSched := false }) top
        (by rw [U1.len]; exact ht) with e2 | ⟨c, c1, c2⟩
      · have U2 := U1.eqv e2
        refine .second hk hc hbl' hfl U2.viewT U2.viewO ⟨U2.len, U2.batches, U2.tops⟩ ?_ e2.ctl e2.sbatches
        show ((s.updTask top _).pauseContexts top).stack.tail = st
        rw [U2.stack, hstk]; rfl
      · refine .compl top ((c.of_upd_left U1 rfl rfl rfl).congr rfl rfl rfl) ?_ (Or.inl c2)
        intro x hx
        have hx' : x ∈ ((s.updTask top _).pauseContexts top).stack.tail := hx
        rw [c1] at hx'
        exact Or.inl (List.mem_of_mem_tail hx')
    · rename_i hfl
      intro _
      have hfl' : (view s top).flag = false := by
        show (s.task top).depsSched = false
        simpa using hfl
      have U1 := U0.updTask ht (fun ts => { ts with depsSched := true }) (flagView true) (fun _ => rfl)
      rcases resumeContexts_desc (s.updTask top fun ts => { ts with depsSched := true }) top
        (by rw [U1.len]; exact ht) with e2 | ⟨c, c1, c2⟩
      · have U2 := U1.eqv e2
        refine .first hk hc hbl' hfl' U2.viewT U2.viewO ⟨U2.len, U2.batches, U2.tops⟩ ?_ e2.ctl e2.sbatches
        show _ ++ ((s.updTask top _).resumeContexts top).stack = _
        rw [U2.stack]
        congr 2
        apply List.filter_congr
        intro d _
        by_cases hd : d = top
        · subst hd
          have : view ((s.updTask d _).resumeContexts d) d = flagView true (view s d) := U2.viewT
          rw [computed_eq_view, this]; rfl
        · rw [computed_of_view (U2.viewO d hd)]
      · refine .compl top ((c.of_upd_left U1 rfl rfl rfl).congr rfl rfl rfl) ?_ (Or.inl c2)
        intro x hx
        have hx' : x ∈ (List.filter _ (s.task top).deps).reverse ++ ((s.updTask top _).resumeContexts top).stack := hx
        rw [c1] at hx'
        rcases List.mem_append.1 hx' with h1 | h1
        · exact Or.inr (List.mem_filter.1 (List.mem_reverse.1 h1)).1
        · exact Or.inl h1
  · split
    · intro h; simp at h
    · intro _
      rcases resumeContexts_desc s top ht with e | ⟨c, c1, c2⟩
      · exact .enterGen e.view ⟨e.len, e.batches, e.tops⟩ _ (by show _ :: (s.resumeContexts top).ctl = _; rw [e.ctl])
          e.stack
      · refine .compl top (c.congr rfl rfl rfl) (fun x hx => Or.inl (c1 ▸ hx))
          (Or.inr ⟨(s.resumeContexts top).active, ?_⟩)
        show _ :: (s.resumeContexts top).ctl = _
        rw [c2]

theorem executeIter_id (s : State) (top : Nat) (st : List Nat) (hstk : s.stack = top :: st)
    (hst : s.executeIter.stuck = none) : ID s s.executeIter top st := by
  revert hst
  unfold State.executeIter
  rw [hstk]
  dsimp only
  split
  · intro _
    exact .guard (fun _ => rfl) ⟨rfl, rfl, rfl⟩ rfl rfl
  · split
    · rename_i hc
      intro _
      exact .pop (Or.inl hc) (fun _ => rfl) ⟨rfl, rfl, rfl⟩ (by simp [State.popStack, hstk]) rfl (fun _ h => h)
    · rename_i hc
      have hc : s.computed top = false := by simpa using hc
      split
      · rename_i hk
        intro h
        exact handleTask_id s top st hstk hk hc h
      · rename_i k q p m hk
        intro _
        have hk' : (view s top).kind = .item k q p m := hk
        split
        · rename_i b hb
          split
          · rename_i hfc
            refine .pop (Or.inr ⟨hc, k, q, p, m, hk', ?_⟩) (fun _ => rfl) ⟨rfl, rfl, rfl⟩
              (by simp [State.popStack, hstk]) rfl (fun _ h => h)
            intro b' hb' hfl
            rw [hb] at hb'
            injection hb' with hb'
            subst hb'
            rw [hfl] at hfc
            simpa using hfc
          · refine .pop (Or.inr ⟨hc, k, q, p, m, hk', ?_⟩) (fun _ => rfl) ⟨rfl, rfl, rfl⟩
              (by simp [State.popStack, hstk]) rfl ?_
            · intro _ _ _
              show (k, q) ∈ s.sbatches ++ [(k, q)]
              simp
            · intro c hcm
              show c ∈ s.sbatches ++ [(k, q)]
              exact List.mem_append_left _ hcm
        · rename_i hb
          refine .pop (Or.inr ⟨hc, k, q, p, m, hk', ?_⟩) (fun _ => rfl) ⟨rfl, rfl, rfl⟩
            (by simp [State.popStack, hstk]) rfl (fun _ h => h)
          intro b' hb'
          rw [hb] at hb'
          cases hb'
      · rename_i lo hk
        intro _
        have hk' : (view s top).kind = .lazy lo := hk
        have ht : top < s.futs.length := lt_of_kind_ne_const s top (by rw [hk']; simp)
        have U := (Upd1.of_eqv (Eqv.refl s) top).complete ht (lazyOutcome lo)
        have hvp : view (s.complete top (lazyOutcome lo)).popStack top = view (s.complete top (lazyOutcome lo)) top := rfl
        refine .compl top ⟨⟨U.len, U.batches, U.tops⟩, ht, out_none_of_uncomputed hc, ?_, U.viewO, ?_, ?_, ?_, ?_⟩ ?_
          (Or.inl rfl)
        · rw [hvp, U.viewT]; simp
        · rw [hvp, U.viewT]
        · rw [hvp, U.viewT]
        · rw [hvp, U.viewT]
        · intro hkt; rw [hk'] at hkt; cases hkt
        · intro x hx
          have hx' : x ∈ s.stack.tail := hx
          exact Or.inl (List.mem_of_mem_tail hx')
      · intro h; simp at h

end AsynqModel.Core.P25
