import AsynqModel.Core.Spec
/-!
  P26 (C06, "awaiting ⇒ resumed"), part 0: the stricter observer `checkC06strict`.

  `Spec.checkC06` accepts either state for the contexts of a task that (as far as the observer can see) waits for the
  task that runs: "may be (and for trees must be) resumed".  `strictC06` is the missing clause: for tree-shaped
  programs (`Ctx.treeShaped`: no future is handed to a child, so every task has at most one awaiter)
  * at a `.run u ..` event every open AsyncContext of a task that waits for `u` - directly or through tasks -, of a
    caller of a synchronous call in progress, or of a task that waits for such a caller must be RESUMED;
  * at a scheduler flush inside a synchronous call the same holds for the tasks that wait for a caller.
  `checkC06strict` = `checkC06`, then `strictC06`.
-/
namespace AsynqModel.Core.P26
open AsynqModel.Core AsynqModel.Core.Spec

def strictMsg : String := "awaiting-context-paused-while-awaited-task-runs"
def strictFlushMsg : String := "awaiting-context-paused-during-flush-in-synchronous-call"

/-- the clause `checkC06` leaves open -/
def strictC06 (c : Ctx) (w : Watch) : Event → Option String
  | .run u _ _ _ =>
    if !c.treeShaped then none else
    let callers := w.syncStack.map (·.1)
    w.ctxs.findSome? fun (_, x) =>
      if !x.isOpen || x.kind == .nonasync || x.owner == u then none
      else if (w.awaitsStar w.fuel x.owner u || callers.contains x.owner ||
               callers.any (fun cl => w.awaitsStar w.fuel x.owner cl)) && !x.resumed then some strictMsg
      else none
  | .flushB _ _ _ _ _ =>
    if !c.treeShaped then none else
    let callers := w.syncStack.map (·.1)
    w.ctxs.findSome? fun (_, x) =>
      if !x.isOpen || x.kind == .nonasync then none
      else if callers.any (fun cl => w.awaitsStar w.fuel x.owner cl) && !x.resumed then some strictFlushMsg
      else none
  | _ => none

/-- C06 with the tree clause -/
def checkC06strict (c : Ctx) (w : Watch) (e : Event) : Option String :=
  match checkC06 c w e with
  | some m => some m
  | none => strictC06 c w e

end AsynqModel.Core.P26
