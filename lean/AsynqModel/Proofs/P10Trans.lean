import AsynqModel.Proofs.P10Noise
/-
  P10, part 5: `HP s s'` - what every transition of the machine does to the data the acyclicity argument looks at -
  and the three ways a transition can be built: noise (`NZ`), an update of the running task that creates no future
  (`hp_upd`), the creation of a future by the running task (`hp_alloc`) or of a root (`hp_root`).
-/
namespace AsynqModel.Core.P10
open AsynqModel.Core

/-- the instructions at which a task can be suspended -/
def isYield : Body → Bool
  | .yld _ _ _ => true
  | .reyld _ _ => true
  | _ => false

/-- a started task that is suspended is at a yield -/
def SuspOK (ts : TaskSt) : Prop := ts.pending = true → ts.started = true → isYield ts.body = true

def SuspAll (s : State) : Prop := ∀ t, SuspOK (s.task t)

theorem suspOK_keep {a b : TaskSt} (k : TsKeep a b) (h : SuspOK a) : SuspOK b := fun hp hs => by
  rw [k.body]; exact h (k.pending hp) (by rw [← k.started]; exact hs)

/-- constant and error futures are born computed -/
def ConstDone (s : State) : Prop :=
  ∀ f, f < s.futs.length → ((s.fut f).kind = .const ∨ (s.fut f).kind = .errfut) → s.computed f = true

/-- the part of a transition's description that also holds when a task gets its `depsSched` flag set and pushes
    its dependencies -/
structure HP0 (s s' : State) : Prop where
  hinv : HInv s → HInv s'
  grow : Grow s s'
  named : ∀ x y, Named s x y → Named s' x y
  comp : ∀ f, s.computed f = true → s'.computed f = true
  kind : ∀ f, f < s.futs.length → (s'.fut f).kind = (s.fut f).kind
  len : s.futs.length ≤ s'.futs.length
  guard : s'.guardFired = s.guardFired
  stuck : ∀ m, s'.stuck = some m → s.stuck = some m ∨ Benign m
  tops : ∀ p, p ∈ s'.tops → p ∈ s.tops
  susp : SuspAll s → SuspAll s'
  cdone : ConstDone s → ConstDone s'

structure HP (s s' : State) : Prop extends HP0 s s' where
  sched : ∀ f, (s'.task f).depsSched = true → (s.task f).depsSched = true
  stack : s'.stack = s.stack

theorem HP0.refl (s : State) : HP0 s s :=
  ⟨id, Grow.refl s, fun _ _ h => h, fun _ h => h, fun _ _ => rfl, Nat.le_refl _, rfl, fun _ h => .inl h, fun _ h => h, id, id⟩

theorem HP0.trans {a b c : State} (h1 : HP0 a b) (h2 : HP0 b c) : HP0 a c where
  hinv := fun h => h2.hinv (h1.hinv h)
  grow := h1.grow.trans h2.grow
  named := fun x y h => h2.named x y (h1.named x y h)
  comp := fun f h => h2.comp f (h1.comp f h)
  kind := fun f hf => (h2.kind f (Nat.lt_of_lt_of_le hf h1.len)).trans (h1.kind f hf)
  len := Nat.le_trans h1.len h2.len
  guard := h2.guard.trans h1.guard
  stuck := fun m h => by
    rcases h2.stuck m h with h' | h'
    · exact h1.stuck m h'
    · exact .inr h'
  tops := fun p h => h1.tops p (h2.tops p h)
  susp := fun h => h2.susp (h1.susp h)
  cdone := fun h => h2.cdone (h1.cdone h)

theorem HP.refl (s : State) : HP s s := ⟨HP0.refl s, fun _ h => h, rfl⟩

theorem HP.trans {a b c : State} (h1 : HP a b) (h2 : HP b c) : HP a c :=
  ⟨h1.toHP0.trans h2.toHP0, fun f h => h1.sched f (h2.sched f h), h2.stack.trans h1.stack⟩

theorem NZ.hp {s s' : State} (h : NZ s s') : HP s s' where
  hinv := fun hi => hinv_keep hi h.len h.ts
  grow := grow_of_own fun f => (h.ts f).own
  named := fun x y hn => by unfold Named at hn ⊢; rw [(h.ts x).own, (h.ts x).inh]; exact hn
  comp := h.comp
  kind := fun f _ => h.kind f
  sched := fun f => (h.ts f).sched
  len := Nat.le_of_eq h.len.symm
  stack := h.stack
  guard := h.guard
  stuck := fun m hm => by rw [h.stuck] at hm; exact .inl hm
  tops := fun p hp => by rw [h.tops] at hp; exact hp
  susp := fun hs t => suspOK_keep (h.ts t) (hs t)
  cdone := fun hc f hf hk => by
    rw [h.len] at hf; rw [h.kind f] at hk
    exact h.comp f (hc f hf hk)

theorem task_of_futs {s s' : State} (h : s'.futs = s.futs) (f : Nat) : s'.task f = s.task f := by
  unfold State.task State.fut; rw [h]

theorem fut_of_futs {s s' : State} (h : s'.futs = s.futs) (f : Nat) : s'.fut f = s.fut f := by
  unfold State.fut; rw [h]

theorem computed_of_futs {s s' : State} (h : s'.futs = s.futs) (f : Nat) : s'.computed f = s.computed f := by
  unfold State.computed State.out State.fut; rw [h]

theorem hp0_of_futs' {s s' : State} (hf : s'.futs = s.futs)
    (hg : s'.guardFired = s.guardFired) (hstuck : ∀ m, s'.stuck = some m → s.stuck = some m ∨ Benign m)
    (ht : s'.tops = s.tops) : HP0 s s' where
  hinv := fun hi => hinv_keep hi (by rw [hf]) fun f => by rw [task_of_futs hf]; exact TsKeep.refl _
  grow := grow_of_own fun f => by rw [task_of_futs hf]
  named := fun x y hn => by unfold Named at hn ⊢; rw [task_of_futs hf]; exact hn
  comp := fun f hc => by rw [computed_of_futs hf]; exact hc
  kind := fun f _ => by rw [fut_of_futs hf]
  len := by rw [hf]; exact Nat.le_refl _
  guard := hg
  stuck := hstuck
  tops := fun p hp => by rw [ht] at hp; exact hp
  susp := fun hs t => by rw [task_of_futs hf]; exact hs t
  cdone := fun hc f hl hk => by
    rw [hf] at hl; rw [fut_of_futs hf] at hk; rw [computed_of_futs hf]
    exact hc f hl hk

theorem hp0_of_futs {s s' : State} (hf : s'.futs = s.futs)
    (hg : s'.guardFired = s.guardFired) (hstuck : s'.stuck = s.stuck) (ht : s'.tops = s.tops) : HP0 s s' :=
  hp0_of_futs' hf hg (fun m hm => .inl (by rw [hstuck] at hm; exact hm)) ht

theorem hp_of_futs' {s s' : State} (hf : s'.futs = s.futs) (hst : s'.stack = s.stack)
    (hg : s'.guardFired = s.guardFired) (hstuck : ∀ m, s'.stuck = some m → s.stuck = some m ∨ Benign m)
    (ht : s'.tops = s.tops) : HP s s' :=
  ⟨hp0_of_futs' hf hg hstuck ht, fun f h => by rw [task_of_futs hf] at h; exact h, hst⟩

theorem hp_of_futs {s s' : State} (hf : s'.futs = s.futs) (hst : s'.stack = s.stack)
    (hg : s'.guardFired = s.guardFired) (hstuck : s'.stuck = s.stuck) (ht : s'.tops = s.tops) : HP s s' :=
  hp_of_futs' hf hst hg (fun m hm => .inl (by rw [hstuck] at hm; exact hm)) ht

/-- `HP` only looks at the heap, the task stack, `guardFired` and `stuck` -/
theorem HP.congr {s s1 s' : State} (h : HP s s1) (hf : s'.futs = s1.futs) (hst : s'.stack = s1.stack)
    (hg : s'.guardFired = s1.guardFired) (hstuck : s'.stuck = s1.stuck) (ht : s'.tops = s1.tops) : HP s s' :=
  h.trans (hp_of_futs hf hst hg hstuck ht)

/-- `HP0` only looks at the heap, `guardFired` and `stuck` -/
theorem HP0.congr {s s1 s' : State} (h : HP0 s s1) (hf : s'.futs = s1.futs)
    (hg : s'.guardFired = s1.guardFired) (hstuck : s'.stuck = s1.stuck) (ht : s'.tops = s1.tops) : HP0 s s' :=
  h.trans (hp0_of_futs hf hg hstuck ht)

/-- the step marks the state as stuck with a benign message -/
theorem hp_fail (s : State) (m : String) (hm : m ∈ benignMsgs) : HP s (s.fail m) :=
  hp_of_futs' rfl rfl rfl (fun m' h => by
    simp only [State.fail] at h
    injection h with h; subst h; exact .inr (benign_of_mem hm)) rfl

/-- the running task is updated, no future is created (nothing is said about its `depsSched` flag) -/
theorem hp0_upd {s s' : State} (t : Nat) (g : TaskSt → TaskSt)
    (hf : s'.futs = (s.updTask t g).futs) (hg : s'.guardFired = s.guardFired)
    (hstuck : s'.stuck = s.stuck) (htops : s'.tops = s.tops)
    (hown : (g (s.task t)).own = (s.task t).own) (hinh : (g (s.task t)).inh = (s.task t).inh)
    (hws : HInv s → wsTS (g (s.task t)) = true)
    (hdeps : HInv s → ∀ d, d ∈ (g (s.task t)).deps → Named s t d)
    (hlast : HInv s → ∀ d, d ∈ (g (s.task t)).lastY.leaves → Named s t d)
    (hprev : HInv s → ∀ d, d ∈ (g (s.task t)).prevY.leaves → Named s t d)
    (hsusp : SuspOK (s.task t) → SuspOK (g (s.task t))) : HP0 s s' := by
  have htask : ∀ f, s'.task f = if f = t ∧ t < s.futs.length then g (s.task t) else s.task f := fun f => by
    rw [task_of_futs hf, task_updTask]
  have hne : ∀ f, f ≠ t → s'.task f = s.task f := fun f hne => by rw [htask]; simp [hne]
  have hlen : s'.futs.length = s.futs.length := by rw [hf]; simp
  have hcomp : ∀ f, s'.computed f = s.computed f := fun f => by rw [computed_of_futs hf]; simp
  have hkind : ∀ f, (s'.fut f).kind = (s.fut f).kind := fun f => by rw [fut_of_futs hf]; simp
  by_cases hl : t < s.futs.length
  · have hself : s'.task t = g (s.task t) := by rw [htask]; simp [hl]
    have hown' : ∀ f, (s'.task f).own = (s.task f).own := fun f => by
      by_cases e : f = t
      · subst e; rw [hself]; exact hown
      · rw [hne f e]
    have hinh' : ∀ f, (s'.task f).inh = (s.task f).inh := fun f => by
      by_cases e : f = t
      · subst e; rw [hself]; exact hinh
      · rw [hne f e]
    refine ⟨fun hi => ?_, grow_of_own hown', ?_, fun f h => by rw [hcomp]; exact h, fun f _ => hkind f,
      Nat.le_of_eq hlen.symm, hg, fun m hm => .inl (by rw [hstuck] at hm; exact hm),
      fun p hp => by rw [htops] at hp; exact hp, fun hs f => by
        by_cases e : f = t
        · subst e; rw [hself]; exact hsusp (hs f)
        · rw [hne f e]; exact hs f,
      fun hc f hl hk => by rw [hlen] at hl; rw [hkind] at hk; rw [hcomp]; exact hc f hl hk⟩
    · refine hinv_set hi t hlen hne (hown' t) (hinh' t) ?_ ?_ ?_ ?_
      · rw [hself]; exact hws hi
      · rw [hself]; exact hdeps hi
      · rw [hself]; exact hlast hi
      · rw [hself]; exact hprev hi
    · intro x y hn; unfold Named at hn ⊢; rw [hown', hinh']; exact hn
  · have hall : ∀ f, s'.task f = s.task f := fun f => by rw [htask]; simp [hl]
    refine ⟨fun hi => hinv_keep hi hlen fun f => by rw [hall]; exact TsKeep.refl _,
      grow_of_own fun f => by rw [hall], ?_, fun f h => by rw [hcomp]; exact h, fun f _ => hkind f,
      Nat.le_of_eq hlen.symm, hg, fun m hm => .inl (by rw [hstuck] at hm; exact hm),
      fun p hp => by rw [htops] at hp; exact hp, fun hs f => by rw [hall]; exact hs f,
      fun hc f hl hk => by rw [hlen] at hl; rw [hkind] at hk; rw [hcomp]; exact hc f hl hk⟩
    intro x y hn; unfold Named at hn ⊢; rw [hall]; exact hn

/-- the running task is updated, no future is created -/
theorem hp_upd {s s' : State} (t : Nat) (g : TaskSt → TaskSt)
    (hf : s'.futs = (s.updTask t g).futs) (hst : s'.stack = s.stack) (hg : s'.guardFired = s.guardFired)
    (hstuck : s'.stuck = s.stuck) (htops : s'.tops = s.tops)
    (hown : (g (s.task t)).own = (s.task t).own) (hinh : (g (s.task t)).inh = (s.task t).inh)
    (hws : HInv s → wsTS (g (s.task t)) = true)
    (hdeps : HInv s → ∀ d, d ∈ (g (s.task t)).deps → Named s t d)
    (hlast : HInv s → ∀ d, d ∈ (g (s.task t)).lastY.leaves → Named s t d)
    (hprev : HInv s → ∀ d, d ∈ (g (s.task t)).prevY.leaves → Named s t d)
    (hsched : (g (s.task t)).depsSched = true → (s.task t).depsSched = true)
    (hsusp : SuspOK (s.task t) → SuspOK (g (s.task t))) : HP s s' := by
  refine ⟨hp0_upd t g hf hg hstuck htops hown hinh hws hdeps hlast hprev hsusp, ?_, hst⟩
  intro f hs
  rw [task_of_futs hf, task_updTask] at hs
  split at hs
  · rename_i h; rw [h.1]; exact hsched hs
  · exact hs

theorem task_alloc (s : State) (x : Fut) (nk : NewKind) (f : Nat) :
    (s.alloc x nk).1.task f = if f = s.futs.length then x.ts else s.task f := by
  unfold State.task
  rw [P2.fut_alloc]
  split <;> rfl

theorem computed_alloc (s : State) (x : Fut) (nk : NewKind) (f : Nat) (hf : f ≠ s.futs.length) :
    (s.alloc x nk).1.computed f = s.computed f := by
  unfold State.computed State.out
  rw [P2.fut_alloc]
  simp [hf]

theorem computed_default (s : State) (f : Nat) (h : s.futs.length ≤ f) : s.computed f = false := by
  unfold State.computed State.out
  rw [P2.fut_default_of_le s f h]; rfl

/-- the running task `t` creates the future `x` and records it -/
theorem hp_alloc {s s' : State} (t : Nat) (x : Fut) (nk : NewKind) (g : TaskSt → TaskSt) (ht : t < s.futs.length)
    (hf : s'.futs = ((s.alloc x nk).1.updTask t g).futs) (hst : s'.stack = s.stack)
    (hg : s'.guardFired = s.guardFired) (hstuck : s'.stuck = s.stuck) (htops : s'.tops = s.tops)
    (xown : x.ts.own = []) (xinh : HInv s → ∀ y, y ∈ x.ts.inh → Named s t y) (xws : HInv s → wsTS x.ts = true)
    (xdeps : x.ts.deps = []) (xlast : x.ts.lastY = .none) (xprev : x.ts.prevY = .none)
    (xsched : x.ts.depsSched = false)
    (hown : (g (s.task t)).own = (s.task t).own ++ [s.futs.length]) (hinh : (g (s.task t)).inh = (s.task t).inh)
    (hws : HInv s → wsTS (g (s.task t)) = true)
    (hdeps : (g (s.task t)).deps = (s.task t).deps)
    (hlast : (g (s.task t)).lastY = (s.task t).lastY)
    (hprev : (g (s.task t)).prevY = (s.task t).prevY)
    (hsched : (g (s.task t)).depsSched = true → (s.task t).depsSched = true)
    (xstarted : x.ts.started = false)
    (hsusp : SuspOK (s.task t) → SuspOK (g (s.task t)))
    (xc : (x.kind = .const ∨ x.kind = .errfut) → x.out.isSome = true) : HP s s' := by
  have htn : t ≠ s.futs.length := Nat.ne_of_lt ht
  have hlen : s'.futs.length = s.futs.length + 1 := by rw [hf]; simp
  have htask : ∀ f, s'.task f =
      if f = t then g (s.task t) else if f = s.futs.length then x.ts else s.task f := fun f => by
    rw [task_of_futs hf, task_updTask, task_alloc]
    simp only [P2.alloc_len, htn, if_false]
    by_cases e : f = t
    · simp [e]; omega
    · simp [e]; rw [task_alloc]
  have hself : s'.task t = g (s.task t) := by rw [htask]; simp
  have hnew : s'.task s.futs.length = x.ts := by rw [htask]; simp [Ne.symm htn]
  have hne : ∀ f, f ≠ t → f ≠ s.futs.length → s'.task f = s.task f := fun f h1 h2 => by rw [htask]; simp [h1, h2]
  have hcomp : ∀ f, f ≠ s.futs.length → s'.computed f = s.computed f := fun f hne => by
    rw [computed_of_futs hf, P2.computed_updTask, computed_alloc _ _ _ _ hne]
  have key : HInv s → HInv s' ∧ Grow s s' := fun hi =>
    hinv_alloc hi t ht hlen hne (by rw [hnew]; exact xown) (by rw [hnew]; exact xinh hi) (by rw [hnew]; exact xws hi)
      (by rw [hnew]; exact xdeps) (by rw [hnew]; exact xlast) (by rw [hnew]; exact xprev)
      (by rw [hself]; exact hown) (by rw [hself]; exact hinh) (by rw [hself]; exact hws hi)
      (by rw [hself]; exact hdeps) (by rw [hself]; exact hlast) (by rw [hself]; exact hprev)
  have hkind : ∀ f, f < s.futs.length → (s'.fut f).kind = (s.fut f).kind := fun f hlt => by
    rw [fut_of_futs hf, P2.kind_updTask, P2.fut_alloc]; simp [Nat.ne_of_lt hlt]
  refine ⟨⟨fun hi => (key hi).1, ?_, ?_, ?_, hkind, by omega, hg, fun m hm => .inl (by rw [hstuck] at hm; exact hm),
    fun p hp => by rw [htops] at hp; exact hp, fun hs f => by
      by_cases e : f = t
      · subst e; rw [hself]; exact hsusp (hs f)
      · by_cases e2 : f = s.futs.length
        · subst e2; rw [hnew]; intro _ h2; rw [xstarted] at h2; cases h2
        · rw [hne f e e2]; exact hs f,
    fun hc f hl hk => by
      by_cases e2 : f = s.futs.length
      · subst e2
        have hfx : s'.fut s.futs.length = x := by rw [fut_of_futs hf, P2.fut_updTask]; simp [Ne.symm htn, P2.fut_alloc]
        rw [hfx] at hk
        unfold State.computed State.out; rw [hfx]; exact xc hk
      · have hl' : f < s.futs.length := by omega
        rw [hkind f hl'] at hk; rw [hcomp f e2]; exact hc f hl' hk⟩, ?_, hst⟩
  · intro f
    by_cases e : f = t
    · subst e; rw [hself, hown]; exact List.prefix_append _ _
    · by_cases e2 : f = s.futs.length
      · subst e2; rw [own_default_nil s _ (Nat.le_refl _)]; exact List.nil_prefix
      · rw [hne f e e2]; exact List.prefix_refl _
  · intro f d hn
    by_cases e : f = t
    · subst e
      unfold Named at hn ⊢
      rw [hself, hown, hinh]
      rcases hn with hn | hn
      · exact .inl (List.mem_append_left _ hn)
      · exact .inr hn
    · by_cases e2 : f = s.futs.length
      · subst e2
        unfold Named at hn
        rw [task_default s _ (Nat.le_refl _)] at hn
        rcases hn with hn | hn <;> cases hn
      · unfold Named; rw [hne f e e2]; exact hn
  · intro f hc
    by_cases e2 : f = s.futs.length
    · subst e2; rw [computed_default s _ (Nat.le_refl _)] at hc; cases hc
    · rw [hcomp f e2]; exact hc
  · intro f hs
    by_cases e : f = t
    · subst e; rw [hself] at hs; exact hsched hs
    · by_cases e2 : f = s.futs.length
      · subst e2; rw [hnew, xsched] at hs; cases hs
      · rw [hne f e e2] at hs; exact hs

/-- a root task is created (the next top-level computation) -/
theorem hp_root {s s' : State} (x : Fut) (nk : NewKind)
    (hf : s'.futs = (s.alloc x nk).1.futs) (hst : s'.stack = s.stack)
    (hg : s'.guardFired = s.guardFired) (hstuck : s'.stuck = s.stuck)
    (htops : ∀ p, p ∈ s'.tops → p ∈ s.tops)
    (xown : x.ts.own = []) (xinh : x.ts.inh = []) (xws : wsTS x.ts = true)
    (xdeps : x.ts.deps = []) (xlast : x.ts.lastY = .none) (xprev : x.ts.prevY = .none)
    (xsched : x.ts.depsSched = false) (xstarted : x.ts.started = false)
    (xc : (x.kind = .const ∨ x.kind = .errfut) → x.out.isSome = true) : HP s s' := by
  have hlen : s'.futs.length = s.futs.length + 1 := by rw [hf]; simp
  have htask : ∀ f, s'.task f = if f = s.futs.length then x.ts else s.task f := fun f => by
    rw [task_of_futs hf, task_alloc]
  have hnew : s'.task s.futs.length = x.ts := by rw [htask]; simp
  have hne : ∀ f, f ≠ s.futs.length → s'.task f = s.task f := fun f h2 => by rw [htask]; simp [h2]
  have hcomp : ∀ f, f ≠ s.futs.length → s'.computed f = s.computed f := fun f hne => by
    rw [computed_of_futs hf, computed_alloc _ _ _ _ hne]
  have key : HInv s → HInv s' ∧ Grow s s' := fun hi =>
    hinv_root hi hlen hne (by rw [hnew]; exact xown) (by rw [hnew]; exact xinh) (by rw [hnew]; exact xws)
      (by rw [hnew]; exact xdeps) (by rw [hnew]; exact xlast) (by rw [hnew]; exact xprev)
  have hkind : ∀ f, f < s.futs.length → (s'.fut f).kind = (s.fut f).kind := fun f hlt => by
    rw [fut_of_futs hf, P2.fut_alloc]; simp [Nat.ne_of_lt hlt]
  refine ⟨⟨fun hi => (key hi).1, ?_, ?_, ?_, hkind, by omega, hg, fun m hm => .inl (by rw [hstuck] at hm; exact hm),
    htops, fun hs f => by
      by_cases e2 : f = s.futs.length
      · subst e2; rw [hnew]; intro _ h2; rw [xstarted] at h2; cases h2
      · rw [hne f e2]; exact hs f,
    fun hc f hl hk => by
      by_cases e2 : f = s.futs.length
      · subst e2
        have hfx : s'.fut s.futs.length = x := by rw [fut_of_futs hf, P2.fut_alloc]; simp
        rw [hfx] at hk
        unfold State.computed State.out; rw [hfx]; exact xc hk
      · have hl' : f < s.futs.length := by omega
        rw [hkind f hl'] at hk; rw [hcomp f e2]; exact hc f hl' hk⟩, ?_, hst⟩
  · intro f
    by_cases e2 : f = s.futs.length
    · subst e2; rw [own_default_nil s _ (Nat.le_refl _)]; exact List.nil_prefix
    · rw [hne f e2]; exact List.prefix_refl _
  · intro f d hn
    by_cases e2 : f = s.futs.length
    · subst e2
      unfold Named at hn
      rw [task_default s _ (Nat.le_refl _)] at hn
      rcases hn with hn | hn <;> cases hn
    · unfold Named; rw [hne f e2]; exact hn
  · intro f hc
    by_cases e2 : f = s.futs.length
    · subst e2; rw [computed_default s _ (Nat.le_refl _)] at hc; cases hc
    · rw [hcomp f e2]; exact hc
  · intro f hs
    by_cases e2 : f = s.futs.length
    · subst e2; rw [hnew, xsched] at hs; cases hs
    · rw [hne f e2] at hs; exact hs

/-! ### well-scopedness of the next task state, by instruction -/

theorem wsTS_of_wsB (ts : TaskSt)
    (h : wsB ts.body ts.own.length ts.inh.length (contQ ts.inh.length ts.conts) = true) : wsTS ts = true := by
  unfold wsTS
  split
  · rename_i heq; rw [heq] at h; simp [wsB] at h
  · exact h

theorem wsB_of_wsTS (ts : TaskSt) (h : wsTS ts = true) (hns : ∀ f k h, ts.body ≠ .syncret f k h) :
    wsB ts.body ts.own.length ts.inh.length (contQ ts.inh.length ts.conts) = true := by
  unfold wsTS at h
  split at h
  · rename_i heq; exact absurd heq (hns _ _ _)
  · exact h

end AsynqModel.Core.P10
