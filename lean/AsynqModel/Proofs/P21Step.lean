import AsynqModel.Proofs.P21Gen
import AsynqModel.Proofs.P13Main
import AsynqModel.Proofs.P9Step
/-
  P21, part 4: every step of the machine, classified (`D s (step s)`).
-/
namespace AsynqModel.Core.P21
open AsynqModel.Core

/-- `step` is a scheduler flush that finds something to flush -/
def flushPoint (s : State) : Bool :=
  match s.ctl with
  | .waitLoop root base :: _ =>
    s.stuck.isNone && s.raising.isNone && decide (s.stack.length ≤ base) && !s.computed root && !s.flushable.isEmpty
  | _ => false

/-- the oracle condition: when the step is a scheduler flush that consumes an oracle choice, that choice is a batch
    `_select_batch_to_flush` may return -/
def oracleOK (s : State) : Bool :=
  !flushPoint s || (match s.choices with | c :: _ => s.admissible c | [] => true)

inductive D (s r : State) : Prop
  | idle (e : r = s)
  | bad (m : String) (hm : m ∈ nineMsgs) (e : r = s.fail m)
  | finishTop (hctl : s.ctl = []) (f : Nat) (hcur : s.curTop = some f) (e : r = s.finishTop f)
  | topStart (hctl : s.ctl = []) (hcur : s.curTop = none) (conv : Conv) (body : Body) (rest : List (Conv × Body))
      (ht : s.tops = (conv, body) :: rest) (e : r = P9.topStart s conv body rest)
  /-- a `wait_for` frame is left: normally (its root is computed) or by an exception -/
  | pop (w : Ctl) (root : Nat) (rest : List Ctl) (hctl : s.ctl = w :: rest) (hw : P13.rootOf w = some root)
      (g : G none s r) (c : r.ctl = rest)
      (hcase : (s.raising = none ∧ s.computed root = true ∧ r.raising = none) ∨ r.raising.isSome = true)
  /-- the innermost `wait_for` frame goes from its loop head into `_execute` or back -/
  | swap (w w' : Ctl) (root : Nat) (rest : List Ctl) (hctl : s.ctl = w :: rest) (hw : P13.rootOf w = some root)
      (hw' : P13.rootOf w' = some root) (hr : s.raising = none) (g : G none s r) (c : r.ctl = w' :: rest)
      (rz : r.raising = none)
  | iter (root base : Nat) (rest : List Ctl) (hctl : s.ctl = .waitLoop root base :: rest) (hr : s.raising = none)
      (g : G none s r) (c : r.ctl = s.ctl) (rz : r.raising = none)
  | enterGen (root base : Nat) (rest : List Ctl) (hctl : s.ctl = .waitLoop root base :: rest) (hr : s.raising = none)
      (t : Nat) (a : Option Nat) (g : G none s r) (c : r.ctl = .gen t a :: s.ctl) (rz : r.raising = none)
  | choiceFail (hfp : flushPoint s = true) (c : Nat × Nat) (cs : List (Nat × Nat)) (hch : s.choices = c :: cs)
      (ha : s.admissible c = false)
  | gen (t : Nat) (old : Option Nat) (rest : List Ctl) (hctl : s.ctl = .gen t old :: rest) (o : GOut s t r)
  | genFail (t : Nat) (old : Option Nat) (rest : List Ctl) (hctl : s.ctl = .gen t old :: rest)
      (hr : s.raising.isSome = true)
      (hb : ¬ ((s.task t).pending = false ∧ ∃ f k h, (s.task t).body = .syncret f k h))
      (e : r = s.fail "exception reached a generator that is not in a synchronous call")

/-! ### `_execute` -/

theorem handle_d (s : State) (root base : Nat) (rest : List Ctl) (hctl : s.ctl = .waitLoop root base :: rest)
    (hr : s.raising = none) (t : Nat) : D s (s.handleTask t) := by
  unfold State.handleTask
  dsimp only
  split
  · split
    · have f1 : FZ s ((s.updTask t fun ts => { ts with depsSched := false }).pauseContexts t) :=
        (fz_updTask s t _ P10.keep_sched_false).trans (fz_pauseContexts _ t)
      exact .iter root base rest hctl hr ((f1.g none).congr rfl rfl rfl rfl rfl rfl rfl rfl) f1.nz.ctl
        (f1.nz.raising.trans hr)
    · have g0 := g_updKeep none s t (fun ts => { ts with depsSched := true }) (fun _ => rfl) (fun _ => rfl)
      have g1 : G none s ((s.updTask t fun ts => { ts with depsSched := true }).resumeContexts t) :=
        g0.trans (by intro _ h; cases h)
          ((fz_resumeContexts (s.updTask t fun ts => { ts with depsSched := true }) t).g none)
      have nz := P10.nz_resumeContexts (s.updTask t fun ts => { ts with depsSched := true }) t
      exact .iter root base rest hctl hr (g1.congr rfl rfl rfl rfl rfl rfl rfl rfl) nz.ctl (nz.raising.trans hr)
  · split
    · exact .bad _ (by decide) rfl
    · have f1 := fz_resumeContexts s t
      refine .enterGen root base rest hctl hr t (s.resumeContexts t).active
        ((f1.g none).congr rfl rfl rfl rfl rfl rfl rfl rfl) (by show _ :: (State.ctl _) = _; rw [f1.nz.ctl])
        (f1.nz.raising.trans hr)

theorem exec_d (s : State) (root base : Nat) (rest : List Ctl) (hctl : s.ctl = .waitLoop root base :: rest)
    (hr : s.raising = none) : D s s.executeIter := by
  unfold State.executeIter
  split
  · exact .bad _ (by decide) rfl
  · rename_i top stk hstk
    split
    · refine .pop (.waitLoop root base) root rest hctl rfl (g_same none rfl rfl rfl rfl rfl rfl rfl rfl)
        (by simp [State.raiseOutOfWait, hctl]) (Or.inr rfl)
    · split
      · exact .iter root base rest hctl hr (g_same none rfl rfl rfl rfl rfl rfl rfl rfl) rfl hr
      · split
        · exact handle_d s root base rest hctl hr _
        · refine .iter root base rest hctl hr (g_same none ?_ ?_ ?_ ?_ ?_ ?_ ?_ ?_) ?_ ?_ <;>
            (repeat' split) <;> first | rfl | exact hr
        · rename_i o _
          have f1 := fz_complete s top (lazyOutcome o)
          exact .iter root base rest hctl hr ((f1.g none).congr rfl rfl rfl rfl rfl rfl rfl rfl) rfl hr
        · exact .bad _ (by decide) rfl

/-! ### the scheduler flush -/

theorem tail_eq_drop_one {α : Type} (l : List α) : l.tail = l.drop 1 := by cases l <;> rfl

theorem flushWith_g (s : State) (root : Nat) (c : Nat × Nat) (b : Batch) (hb : s.batch? c.1 c.2 = some b)
    (hs : s.stuck = none) : G none s (P1.flushWith s root c b) ∧
      (P1.flushWith s root c b).ctl = .waitEnter root :: s.ctl.tail ∧
      (P1.flushWith s root c b).raising = s.raising := by
  unfold P1.flushWith
  have g0 : G none s ({ s with sbatches := s.flushable.erase c, ctl := .waitEnter root :: s.ctl.tail, choices := s.choices.tail } : State) := by
    refine ⟨⟨Nat.le_refl _, fun _ _ => rfl, fun _ h => h, fun _ _ _ => ⟨rfl, id⟩, fun f hf => ?_, rfl, rfl,
      ⟨⟨1, tail_eq_drop_one _⟩, rfl, rfl, rfl⟩⟩, fun hi => invB_congr hi rfl rfl⟩
    show isSR (s.task f).body = false
    rw [task_ge s f hf]; rfl
  generalize hs0 : ({ s with sbatches := s.flushable.erase c, ctl := .waitEnter root :: s.ctl.tail, choices := s.choices.tail } : State) = s0 at g0
  have h0 : s0.ctl = .waitEnter root :: s.ctl.tail ∧ s0.raising = s.raising ∧ s0.batches = s.batches := by
    subst hs0; exact ⟨rfl, rfl, rfl⟩
  have hb1 : (s0.emit (.flushB c.1 c.2 b.items (s.batchPrio b) (s.pendingOf (s.flushable.erase c)))).batch? c.1 c.2 = some b := by
    have : (s0.emit (.flushB c.1 c.2 b.items (s.batchPrio b) (s.pendingOf (s.flushable.erase c)))).batches = s.batches := h0.2.2
    unfold State.batch? at hb ⊢
    rw [this]; exact hb
  have hx : ∀ t, (none : Option Nat) = some t → t < s.futs.length := by intro _ h; cases h
  have g1 := g0.trans hx ((fz_emit s0 (.flushB c.1 c.2 b.items (s.batchPrio b) (s.pendingOf (s.flushable.erase c))) rfl).g none)
  have g2 := g1.trans hx (g_flushBatch none _ c.1 c.2 b hb1 (by rw [g1.stuck]; exact hs))
  have nz := P10.nz_flushBatch _ c.1 c.2 b hb1
  refine ⟨g2.trans hx ((fz_emit _ (.flushE c.1 c.2) rfl).g none), ?_, ?_⟩
  · exact nz.ctl.trans h0.1
  · exact nz.raising.trans h0.2.1

theorem flush_d (s : State) (root base : Nat) (rest : List Ctl) (hctl : s.ctl = .waitLoop root base :: rest)
    (hs : s.stuck = none) (hr : s.raising = none) (hlen : s.stack.length ≤ base) (hroot : s.computed root = false) :
    D s (s.schedulerFlush root) := by
  by_cases hfl : s.flushable = []
  · rw [P1.schedulerFlush_empty s root hfl]
    refine .swap (.waitLoop root base) (.waitEnter root) root rest hctl rfl rfl hr
      (g_same none rfl rfl rfl rfl rfl rfl rfl rfl) (by simp [P1.pruned, hctl]) hr
  · have hfp : flushPoint s = true := by
      unfold flushPoint
      rw [hctl]
      simp only [hs, hr, hroot, Option.isNone_none, Bool.true_and, Bool.not_false, Bool.and_true]
      simp [hlen, hfl]
    rcases P1.schedulerFlush_cases s root hfl with ⟨m, hm, hbad⟩ | ⟨c, b, _, _, hb, he⟩
    · cases hch : s.choices with
      | nil =>
        obtain ⟨c, hc, ha⟩ := P1.defaultChoice_some s hfl
        have := hbad c (by rw [P1.pick_nil s hch]; exact hc)
        rw [ha] at this; cases this
      | cons c cs => exact .choiceFail hfp c cs hch (hbad c (P1.pick_cons s c cs hch))
    · rw [he]
      obtain ⟨g, hc, hrz⟩ := flushWith_g s root c b hb hs
      exact .swap (.waitLoop root base) (.waitEnter root) root rest hctl rfl rfl hr g (by rw [hc, hctl]; rfl)
        (hrz.trans hr)

/-! ### the transition function -/

theorem step_d (s : State)
    (hgen : ∀ t old rest, s.ctl = .gen t old :: rest → t < s.futs.length ∧ P10.wsTS (s.task t) = true ∧
      (∀ f k h, (s.task t).body = .syncret f k h → (s.task t).pending = false) ∧
      (∀ y, P10.Named s t y → y < s.futs.length))
    (hib : P6.InvB s) (hcd : P10.ConstDone s) : D s (step s) := by
  cases hs : s.stuck with
  | some m => rw [P9.step_stuck s (by rw [hs]; rfl)]; exact .idle rfl
  | none =>
  cases hctl : s.ctl with
  | nil =>
    cases hcur : s.curTop with
    | some f => rw [P9.step_nil_top s f hs hctl hcur]; exact .finishTop hctl f hcur rfl
    | none =>
      cases ht : s.tops with
      | nil => rw [P9.step_nil_done s hs hctl hcur ht]; exact .idle rfl
      | cons p rest =>
        obtain ⟨conv, body⟩ := p
        rw [P9.step_nil_start s conv body rest hs hctl hcur ht]
        exact .topStart hctl hcur conv body rest ht rfl
  | cons w rest =>
    cases w with
    | waitEnter root =>
      rw [P9.step_waitEnter s root rest hs hctl]
      unfold P9.weCore
      split
      · exact .pop (.waitEnter root) root rest hctl rfl (g_same none rfl rfl rfl rfl rfl rfl rfl rfl)
          (by simp [State.raiseOutOfWait, hctl]) (Or.inr rfl)
      · rename_i hrs
        have hr := P3.isSome_false hrs
        split
        · rename_i hc
          exact .pop (.waitEnter root) root rest hctl rfl (g_same none rfl rfl rfl rfl rfl rfl rfl rfl)
            (by simp [State.returnFromWait, hctl]) (Or.inl ⟨hr, hc, hr⟩)
        · exact .swap (.waitEnter root) (.waitLoop root s.stack.length) root rest hctl rfl rfl hr
            (g_same none rfl rfl rfl rfl rfl rfl rfl rfl) (by simp [hctl]) hr
    | waitLoop root base =>
      rw [P9.step_waitLoop s root base rest hs hctl]
      unfold P9.wlCore
      split
      · exact .pop (.waitLoop root base) root rest hctl rfl (g_same none rfl rfl rfl rfl rfl rfl rfl rfl)
          (by simp [State.raiseOutOfWait, hctl]) (Or.inr rfl)
      · rename_i hrs
        have hr := P3.isSome_false hrs
        split
        · exact exec_d s root base rest hctl hr
        · rename_i hlen
          split
          · rename_i hc
            exact .pop (.waitLoop root base) root rest hctl rfl (g_same none rfl rfl rfl rfl rfl rfl rfl rfl)
              (by simp [State.returnFromWait, hctl]) (Or.inl ⟨hr, hc, hr⟩)
          · rename_i hroot
            exact flush_d s root base rest hctl hs hr (by simpa using hlen) (by simpa using hroot)
    | gen t old =>
      obtain ⟨ht, hws, hsr, hnb⟩ := hgen t old rest hctl
      rw [P9.step_gen s t old rest hs hctl]
      unfold P9.genCore
      split
      · rename_i hbad
        unfold P9.genBad at hbad
        simp only [Bool.and_eq_true, Bool.not_eq_true'] at hbad
        refine .genFail t old rest hctl hbad.1 ?_ rfl
        rintro ⟨hp, f, k, h, hb⟩
        have := hbad.2
        rw [hb] at this
        simp [hp] at this
      · exact .gen t old rest hctl (gen_out s t old ht hws hsr hnb hib hcd hs)

end AsynqModel.Core.P21
