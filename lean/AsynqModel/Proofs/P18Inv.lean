import AsynqModel.Proofs.P13Obs
import AsynqModel.Proofs.P14Inv
/-!
  P18, part 2: the part of the simulation relation between the observer state `P13.obs s.trace` and the machine state
  that the C04 observer needs beyond what P13 (`isDone`, `flushedB`, `topRoot`) and P14 (`lastYield`) provide, and its
  preservation by the primitive operations of the machine.

  `G c s`:
  * `acc` : the observer `checkC04NoRet` (= `Spec.checkC04` without its `.ret` clause) has accepted every event so far;
  * `kl`  : the observer knows exactly as many futures as the machine has (`Watch.fuel = futs.length + 1`);
  * `kd`  : every future of the machine is in the observer's `kinds` table with the machine's kind (task / item of
            the same batch);
  * `rs`  : every started task has an entry in the observer's `runs` table.
-/
namespace AsynqModel.Core.P18
open AsynqModel.Core AsynqModel.Core.Spec AsynqModel.Core.P2
open AsynqModel.Core.P13 (obs Acc)

/-- `Spec.checkC04` without the clause for `.ret` events (the flush count) -/
def checkC04NoRet (c : Ctx) (w : Watch) : Event → Option String
  | .ret _ => none
  | e => checkC04 c w e

/-- the observer's kind of a future agrees with the machine's -/
def KM (nk : NewKind) (fk : FKind) : Prop :=
  (fk = .task → ∃ cr, nk = .task cr) ∧ (∀ k q p m, fk = .item k q p m → ∃ idx, nk = .item k q idx p m)

structure G (c : Ctx) (s : State) : Prop where
  acc : Acc checkC04NoRet c s.trace
  kl : (obs s.trace).kinds.length = s.futs.length
  kd : ∀ f, f < s.futs.length → ∃ nk, (obs s.trace).kinds.lookup f = some nk ∧ KM nk (s.fut f).kind
  rs : ∀ t, (s.task t).started = true → ((obs s.trace).runs.lookup t).isSome = true

variable {c : Ctx}

/-- events that change neither `kinds` nor `runs` and that `checkC04NoRet` has no clause for -/
def quietEv : Event → Bool
  | .new .. => false
  | .run .. => false
  | .flushB .. => false
  | .bad .. => false
  | _ => true

theorem chk_quiet (c : Ctx) (w : Watch) (e : Event) (h : quietEv e = true) : checkC04NoRet c w e = none := by
  cases e <;> first | rfl | cases h

theorem quiet_kinds (w : Watch) (e : Event) (h : quietEv e = true) : (watchEvent w e).kinds = w.kinds := by
  cases e <;> simp_all [quietEv, watchEvent, Watch.mention] <;> split <;> rfl

theorem quiet_runs (w : Watch) (e : Event) (h : quietEv e = true) : (watchEvent w e).runs = w.runs := by
  cases e <;> simp_all [quietEv, watchEvent, Watch.mention] <;> split <;> rfl

theorem new_kinds (w : Watch) (f : Nat) (k : NewKind) : (watchEvent w (.new f k)).kinds = (f, k) :: w.kinds := by
  cases k <;> simp [watchEvent] <;> split <;> rfl

theorem new_runs (w : Watch) (f : Nat) (k : NewKind) : (watchEvent w (.new f k)).runs = w.runs := by
  cases k <;> simp [watchEvent] <;> split <;> rfl

theorem G_init (cfg : Cfg) (tops : List (Conv × Body)) (choices : List (Nat × Nat)) :
    G c (initState cfg tops choices) := by
  refine ⟨trivial, rfl, fun f hf => ?_, fun t h => ?_⟩
  · simp [initState] at hf
  · simp [initState, State.task, State.fut] at h

/-- fields other than `futs` and `trace` do not matter -/
theorem G_of_eq {s s' : State} (hf : s'.futs = s.futs) (ht : s'.trace = s.trace) (h : G c s) : G c s' := by
  have e1 : ∀ f, s'.fut f = s.fut f := fun f => by simp [State.fut, hf]
  have e2 : ∀ f, s'.task f = s.task f := fun f => by simp [State.task, e1]
  refine ⟨ht ▸ h.acc, by rw [ht, hf]; exact h.kl, fun f hlt => ?_, fun t hs => ?_⟩
  · rw [ht, e1]; exact h.kd f (by rw [← hf]; exact hlt)
  · rw [ht]; exact h.rs t (e2 t ▸ hs)

theorem G_fail {s : State} (m : String) (h : G c s) : G c (s.fail m) := G_of_eq (s := s) rfl rfl h

theorem G_emit {s : State} (e : Event) (he : quietEv e = true) (h : G c s) : G c (s.emit e) := by
  refine ⟨⟨h.acc, chk_quiet c _ e he⟩, ?_, fun f hlt => ?_, fun t hs => ?_⟩
  · rw [emit_trace, P13.obs_cons, quiet_kinds _ _ he]; exact h.kl
  · rw [emit_trace, P13.obs_cons, quiet_kinds _ _ he]; exact h.kd f hlt
  · rw [emit_trace, P13.obs_cons, quiet_runs _ _ he]; exact h.rs t hs

/-- the scheduler announces a flush: the only event with a clause -/
theorem G_flushB {s : State} (k q : Nat) (its : List Nat) (p : Nat × Nat) (pd : List PendingB)
    (hchk : checkC04NoRet c (obs s.trace) (.flushB k q its p pd) = none) (h : G c s) :
    G c (s.emit (.flushB k q its p pd)) :=
  ⟨⟨h.acc, hchk⟩, h.kl, fun f hlt => h.kd f hlt, fun t hs => h.rs t hs⟩

/-- a task update that keeps `started` -/
theorem G_updTask {s : State} (t : Nat) (g : TaskSt → TaskSt) (h2 : ∀ ts, (g ts).started = ts.started) (h : G c s) :
    G c (s.updTask t g) := by
  refine ⟨h.acc, by rw [updTask_trace, updTask_len]; exact h.kl, fun f hlt => ?_, fun u hs => ?_⟩
  · rw [updTask_trace, kind_updTask]; exact h.kd f (by simpa using hlt)
  · rw [updTask_trace]
    rw [P14.task_updTask] at hs
    by_cases hc : u = t ∧ t < s.futs.length
    · rw [if_pos hc, h2] at hs
      rw [hc.1]; exact h.rs t hs
    · rw [if_neg hc] at hs; exact h.rs u hs

theorem kind_complete (s : State) (f g : Nat) (o : Outcome) : ((s.complete f o).fut g).kind = (s.fut g).kind := by
  rw [fut_complete]; split
  · next hc => rw [hc.1]
  · rfl

theorem started_complete (s : State) (f g : Nat) (o : Outcome) :
    ((s.complete f o).task g).started = (s.task g).started := by
  unfold State.task; rw [fut_complete]; split
  · next hc => rw [hc.1]; split <;> rfl
  · rfl

theorem len_complete (s : State) (f : Nat) (o : Outcome) : (s.complete f o).futs.length = s.futs.length := by
  simp [State.complete, State.setFut, State.emit]

theorem G_complete {s : State} (f : Nat) (o : Outcome) (h : G c s) : G c (s.complete f o) := by
  refine ⟨⟨h.acc, rfl⟩, ?_, fun g hlt => ?_, fun t hs => ?_⟩
  · rw [complete_trace, len_complete]; exact h.kl
  · rw [complete_trace, kind_complete]; rw [len_complete] at hlt; exact h.kd g hlt
  · rw [complete_trace]; rw [started_complete] at hs; exact h.rs t hs

/-- a new future: the `new` event carries the machine's kind -/
theorem G_alloc {s : State} (x : Fut) (nk : NewKind) (hx : x.ts.started = false) (hk : KM nk x.kind) (h : G c s) :
    G c (s.alloc x nk).1 := by
  refine ⟨⟨h.acc, rfl⟩, ?_, fun f hlt => ?_, fun t hs => ?_⟩
  · rw [alloc_trace, P13.obs_cons, new_kinds, alloc_len, List.length_cons, h.kl]
  · rw [alloc_trace, P13.obs_cons, new_kinds, fut_alloc, List.lookup_cons]
    by_cases hf : f = s.futs.length
    · subst hf; simp only [beq_self_eq_true, if_true]; exact ⟨nk, rfl, hk⟩
    · have hb : (f == s.futs.length) = false := by simp [hf]
      rw [hb, if_neg hf]
      rw [alloc_len] at hlt
      exact h.kd f (by omega)
  · rw [alloc_trace, P13.obs_cons, new_runs]
    rw [P14.task_alloc] at hs
    by_cases hf : t = s.futs.length
    · rw [if_pos hf, hx] at hs; cases hs
    · rw [if_neg hf] at hs; exact h.rs t hs

/-- a task is (re)entered: the observer records the run -/
theorem G_run {s : State} (t i : Nat) (dc : Bool) (r : Recv) (g : TaskSt → TaskSt) (h : G c s) :
    G c ((s.updTask t g).emit (.run t i dc r)) := by
  refine ⟨⟨h.acc, rfl⟩, ?_, fun f hlt => ?_, fun u hs => ?_⟩
  · show (obs s.trace).kinds.length = (s.updTask t g).futs.length
    rw [updTask_len]; exact h.kl
  · show ∃ nk, (obs s.trace).kinds.lookup f = some nk ∧ KM nk ((s.updTask t g).fut f).kind
    rw [kind_updTask]
    exact h.kd f (by simpa using hlt)
  · show ((insertKV (obs s.trace).runs t i).lookup u).isSome = true
    by_cases hu : u = t
    · subst hu; rw [P14.lookup_insertKV_self]; rfl
    · rw [P14.lookup_insertKV_ne _ _ _ _ hu]
      rw [emit_task, P14.task_updTask] at hs
      rw [if_neg (fun hc => hu hc.1)] at hs
      exact h.rs u hs

theorem G_mk (s : State) (cfg batches stack sbatches active ctl ctxs sv tops topIdx curTop raising choices stuck guardFired)
    (h : G c s) :
    G c { cfg := cfg, futs := s.futs, batches := batches, stack := stack, sbatches := sbatches, active := active,
          ctl := ctl, ctxs := ctxs, sv := sv, trace := s.trace, tops := tops, topIdx := topIdx, curTop := curTop,
          raising := raising, choices := choices, stuck := stuck, guardFired := guardFired } :=
  G_of_eq (s := s) rfl rfl h

theorem G_ite {s1 s2 : State} {p : Prop} [Decidable p] (h1 : G c s1) (h2 : G c s2) : G c (if p then s1 else s2) := by
  split <;> assumption

end AsynqModel.Core.P18
