import AsynqModel.Proofs.CtxEnter
/-! `enter c`: the main lemma (helper for Theorems/C06c.lean) -/
namespace AsynqModel.Contexts

theorem closeCtx_openCtx (w : W) (c : Nat) (hnot : ∀ o, (c, o) ∉ w.opened) :
    (closeCtx (openCtx w c) c).opened = w.opened := by
  show (w.opened ++ [(c, w.phase == .running)]).filter (·.1 != c) = w.opened
  rw [List.filter_append]
  have : w.opened.filter (·.1 != c) = w.opened := by
    apply List.filter_eq_self.mpr
    intro p hp
    have : p.1 ≠ c := fun e => hnot p.2 (by rw [← e]; exact hp)
    simpa using this
  simp [this]

theorem enter_sim (cfg : Cfg) (defs : List Kind) (nvars : Nat) (s : St) (w : W) (h : Rel defs nvars s w) (c : Nat)
    (hc : cfg.cleanEnter = true ∨ ∀ e, (stepCore cfg defs s (.enter c)).2.2 ≠ .exc e) :
    Good defs nvars w (stepCore cfg defs s (.enter c)).1 (obsOf (.enter c) (stepCore cfg defs s (.enter c))) := by
  by_cases hlt : c < defs.length
  · have hstep : stepCore cfg defs s (.enter c) = enterOp cfg defs s c := by simp [stepCore, hlt]
    rw [hstep] at hc ⊢
    cases hopen : isOpen w c with
    | true =>
      -- misuse: the block is open - the observer stops making claims
      refine ⟨{ w with stopped := true }, ?_, Or.inl rfl⟩
      unfold watchStep
      simp only [h.live, Bool.false_eq_true, if_false, obsOf, Nat.not_le.mpr hlt, hopen, if_true]
    | false =>
      have hwatch : ∀ ob : Obs, ob.op = .enter c → watchStep defs nvars w ob = watchEnter defs nvars w c ob := by
        intro ob hob
        unfold watchStep
        simp only [h.live, Bool.false_eq_true, if_false, hob, Nat.not_le.mpr hlt, hopen]
      have hnot : ∀ o, (c, o) ∉ w.opened := fun o hm => by
        have := (isOpen_iff w c).mpr ⟨o, hm⟩; rw [hopen] at this; exact absurd this (by simp)
      have hns : c ∉ w.stk := fun hm => by have := h.stkOpen c hm; rw [hopen] at this; exact absurd this (by simp)
      have hc1 := CoreA_open defs nvars s w h c hlt hopen
      have hfin : ∀ (r : St × List Call × Esc) (w' : W), watchEnter defs nvars w c (obsOf (.enter c) r) = common defs nvars w' (obsOf (.enter c) r) →
          Rel defs nvars r.1 w' → Good defs nvars w r.1 (obsOf (.enter c) r) := by
        intro r w' h1 h2
        refine ⟨w', ?_, Or.inr h2⟩
        rw [hwatch _ rfl, h1]
        exact common_ok defs nvars r.1 w' h2 (.enter c) r.2.1 r.2.2
      rw [enterOp_eq] at hc ⊢
      cases hk : kindOf defs c with
      | na =>
        simp only [hk, isAsyncCtx, Bool.not_false, if_true]
        refine hfin _ (openCtx w c) (by simp [watchEnter, hk, obsOf]) ?_
        exact Rel_enter defs nvars s w h c hopen _ _ hc1 rfl (fun d hd => Or.inl hd) rfl rfl rfl rfl rfl rfl h.live
      | ov x v =>
        obtain ⟨hc2, hev, hreg, hact, hph, hst⟩ := resume_event defs nvars (enterS1 s c) (openCtx w c) c hc1 hlt hns
        simp only [evOut, hk] at hev
        have hpf := pushOv_fields defs (openCtx w c) c
        have e : afterResume cfg (s.phase == .running) (resumeCtx defs (enterS1 s c) c) c =
            ((resumeCtx defs (enterS1 s c) c).1, [], Esc.none) := by
          rw [afterResume_none _ _ _ _ hev.2, hev.1]
        simp only [hk, isAsyncCtx, Bool.not_true, Bool.false_eq_true, if_false]
        rw [e]
        refine hfin _ (pushOv defs (openCtx w c) c) (by simp [watchEnter, hk, obsOf]) ?_
        exact Rel_enter defs nvars s w h c hopen _ _ hc2 hpf.1
          (fun d hd => (pushOv_stk_sub defs (openCtx w c) c d hd).symm) hph hact hst hpf.2.1 hpf.2.2.1 hpf.2.2.2.1
          (hpf.2.2.2.2.1.trans h.live)
      | plain rr pr =>
        obtain ⟨hc2, hev, hreg, hact, hph, hst⟩ := resume_event defs nvars (enterS1 s c) (openCtx w c) c hc1 hlt hns
        simp only [evOut, hk] at hev
        obtain ⟨b, hcalls, herr⟩ := hev
        rw [pushOv_none defs _ c (varOf_plain defs c rr pr hk)] at hc2
        simp only [hk, isAsyncCtx, Bool.not_true, Bool.false_eq_true, if_false] at hc ⊢
        cases b with
        | false =>
          have e : afterResume cfg (s.phase == .running) (resumeCtx defs (enterS1 s c) c) c =
              ((resumeCtx defs (enterS1 s c) c).1, [⟨true, c, false⟩], Esc.none) := by
            rw [afterResume_none _ _ _ _ (by simpa using herr), hcalls]
          rw [e]
          refine hfin _ (openCtx w c) (by simp [watchEnter, hk, obsOf]) ?_
          exact Rel_enter defs nvars s w h c hopen _ _ hc2 rfl (fun d hd => Or.inl hd) hph hact hst rfl rfl rfl h.live
        | true =>
          have e : afterResume cfg (s.phase == .running) (resumeCtx defs (enterS1 s c) c) c =
              if cfg.cleanEnter then
                (delAttr { (resumeCtx defs (enterS1 s c) c).1 with
                    reg := if s.phase == .running then (resumeCtx defs (enterS1 s c) c).1.reg.erase c
                           else (resumeCtx defs (enterS1 s c) c).1.reg } c, [⟨true, c, true⟩], Esc.exc (.hookR c))
              else ((resumeCtx defs (enterS1 s c) c).1, [⟨true, c, true⟩], Esc.exc (.hookR c)) := by
            rw [afterResume_some _ _ _ _ (.hookR c) (by simpa [hookExc] using herr), hcalls]
          rw [e] at hc ⊢
          cases hce : cfg.cleanEnter with
          | false =>
            rw [hce] at hc
            rcases hc with hc | hc
            · exact absurd hc (by simp)
            · exact absurd rfl (hc (.hookR c))
          | true =>
            simp only [if_true]
            -- the repaired __enter__: the registration is undone, the block is not entered
            have hnr : c ∉ s.reg := by rw [h.core.reg, mem_ownedIds]; exact hnot true
            have hnr' : s.reg.contains c = false := by simpa using hnr
            have hregf : (if s.phase == .running then (resumeCtx defs (enterS1 s c) c).1.reg.erase c
                else (resumeCtx defs (enterS1 s c) c).1.reg) = s.reg := by
              rw [hreg]
              simp only [enterS1, hnr', Bool.not_false, Bool.and_true]
              cases (s.phase == Phase.running)
              · simp
              · simp only [if_true]; exact append_erase_self s.reg c hnr
            rw [hregf]
            have hB := CoreA_close defs nvars _ _ hc2 c
            have hop := closeCtx_openCtx w c hnot
            have hC : CoreA defs nvars { (resumeCtx defs (enterS1 s c) c).1 with reg := s.reg } w := by
              refine CoreA_of_eq defs nvars _ _ _ w hB ?_ rfl rfl hop.symm rfl rfl
              show s.reg = (resumeCtx defs (enterS1 s c) c).1.reg.filter (· != c)
              have := hB.reg
              rw [ownedIds_congr w (closeCtx (openCtx w c) c) hop, ← h.core.reg] at this
              exact this.symm
            have hD : CoreA defs nvars (delAttr { (resumeCtx defs (enterS1 s c) c).1 with reg := s.reg } c) w :=
              CoreA_afterPause defs nvars ({ (resumeCtx defs (enterS1 s c) c).1 with reg := s.reg }, [], none) w c hC hnot
            refine hfin _ w (by simp [watchEnter, hk, obsOf]) ?_
            exact { core := hD, phase := hph.trans h.phase, active := hact.trans h.active, status := hst.trans h.status,
                    runAct := h.runAct, susAct := h.susAct, statNone := h.statNone, stkOpen := h.stkOpen,
                    stkAct := h.stkAct, live := h.live }
  · have e : stepCore cfg defs s (.enter c) = (s, [], .skip) := by simp [stepCore, hlt]
    rw [e]
    refine ⟨w, ?_, Or.inr h⟩
    unfold watchStep
    simp only [h.live, Bool.false_eq_true, if_false, obsOf, Nat.le_of_not_lt hlt, if_true]
    exact skip_sim defs nvars s w h (.enter c)

end AsynqModel.Contexts
