import AsynqModel.Proofs.P4Gen
/-! P4: instructions that create a future: `spawn`, `item`, `const`, `errfut`, `lazy` -/
namespace AsynqModel.Core.P4
open AsynqModel.Core

/-- the running task appends a future to its own list and continues with `k` -/
theorem FI.pushOwn {s : State} (h : FI s) (t f : Nat) (k : Body) (hlt : t < s.futs.length) (hf : f < s.futs.length)
    (hout : (s.fut t).out = none) (hnp : (s.fut t).ts.pending = false)
    (hev : ∀ κ, ws (s.fut t).ts.body (s.fut t).ts.own.length (s.fut t).ts.inh.length κ = true →
      ws k ((s.fut t).ts.own.length + 1) (s.fut t).ts.inh.length κ = true ∧
      evalBody s.cfg (s.fut t).ts.body (s.fut t).ts.env (Inv.dens s (s.fut t).ts.own) (Inv.dens s (s.fut t).ts.inh)
          (s.fut t).ts.caught (s.fut t).ts.prevYRef =
        evalBody s.cfg k (s.fut t).ts.env (Inv.dens s (s.fut t).ts.own ++ [(s.fut f).den])
          (Inv.dens s (s.fut t).ts.inh) (s.fut t).ts.caught (s.fut t).ts.prevYRef)
    (hns : ∀ g k b, (s.fut t).ts.body ≠ .syncret g k b) :
    FI (s.updTask t fun ts => { ts with own := ts.own ++ [f], body := k }) := by
  have hw := h.wsc t hout
  rw [wsTask_plain _ hns] at hw
  obtain ⟨hwk, he⟩ := hev _ hw
  have hnk := ws_not_syncret hwk
  apply h.updSelf t _ hlt
  · intro i hi
    simp only [List.mem_append, List.mem_singleton] at hi
    rcases hi with hi | rfl
    · exact h.ownLt t i hi
    · exact hf
  · exact h.inhLt t
  · intro g k' b _ hb; exact absurd hb (hnk g k' b)
  · intro _
    rw [wsTask_plain _ (by exact hnk)]
    simpa using hwk
  · intro hk _
    rw [tden_plain _ _ _ _ _ (by exact hnk)]
    have := h.taskOK t hk hout
    rw [taskDen_eq, tden_plain _ _ _ _ _ hns, he] at this
    simpa [Inv.dens] using this
  · intro r hr
    exact refOK_mono (by simp) r (h.prevScoped t r hr)
  · have := h.prevEq t
    simp only
    rw [this]
    apply mapLeaves_congr
    intro r hr
    exact (resolve_append _ [f] r (h.prevScoped t r hr)).symm
  · intro _ hp; simp only [hnp] at hp; cases hp
  · intro y k' b _ hp; simp only [hnp] at hp; cases hp
  · intro hp; simp only [hnp] at hp; cases hp

/-- allocating a non-task future -/
theorem FI.allocPlain {s : State} (h : FI s) (kind : FKind) (out : Option Outcome) (den : Outcome) (nk : NewKind)
    (hagree : ∀ o, out = some o → o = den)
    (hnt : kind ≠ .task)
    (hitem : ∀ k q p m, kind = .item k q p m → den = itemOutcome s.cfg k p m)
    (hlazy : ∀ o, kind = .lazy o → den = lazyOutcome o) :
    FI (s.alloc { kind := kind, out := out, den := den } nk).1 := by
  apply h.alloc
  · exact hagree
  · intro hk; exact absurd hk hnt
  · rfl
  · nofun
  · intro g k b; nofun
  · intro _; rfl
  · rfl
  · rfl
  · rfl
  · exact hitem
  · exact hlazy

/-- allocating a task for `child` handed the futures `inhl` -/
theorem FI.allocTask {s : State} (h : FI s) (child : Body) (inhl : List Nat)
    (hinh : ∀ i ∈ inhl, i < s.futs.length) (hws : ws child 0 inhl.length (fun _ => true) = true) :
    FI (s.newTask child inhl).1 := by
  unfold State.newTask
  apply h.alloc
  · nofun
  · intro _ _
    rw [tden_plain _ _ _ _ _ (ws_not_syncret hws)]
    rfl
  · rfl
  · exact hinh
  · exact ws_not_syncret hws
  · intro _
    rw [wsTask_plain _ (ws_not_syncret hws)]
    exact hws
  · rfl
  · rfl
  · rfl
  · nofun
  · nofun

theorem newTask_eq (s : State) (child : Body) (inhl : List Nat) :
    s.newTask child inhl = s.alloc
      ({ kind := .task, ts := { body := child, inh := inhl, creator := s.active },
         den := (evalBody s.cfg child [] [] (Inv.dens s inhl) none .none).outcome } : Fut) (.task s.active) := rfl

end AsynqModel.Core.P4

namespace AsynqModel.Core.P4
open AsynqModel.Core

theorem FI.setBatches {s : State} (h : FI s) (bs : List Batch)
    (hb : ∀ b ∈ bs, ∀ i ∈ b.items, ∃ q p m, (s.fut i).kind = .item b.kind q p m) :
    FI { s with batches := bs } :=
  ⟨h.agree, h.taskOK, h.ownLt, h.inhLt, h.syncLt, h.wsc, h.prevScoped, h.prevEq, h.lastEq, h.yldEq, h.depsOK,
   h.itemDen, h.lazyDen, hb⟩

/-- generic: after a preparation `s → s1` that leaves the running task alone, the task appends `f` and goes on -/
theorem good_pushOwn {s s1 : State} (G : Good s) {t : Nat} {old : Option Nat} {rest : List Ctl}
    (hctl : s.ctl = .gen t old :: rest) (F1 : FI s1) (tp : TaskPres s s1) (hc : s1.ctl = s.ctl)
    (hr : s1.raising = s.raising) (htops : s1.tops = s.tops) (hfut : s1.fut t = s.fut t) (hcfg : s1.cfg = s.cfg)
    (hd : ∀ l, (∀ i ∈ l, i < s.futs.length) → Inv.dens s1 l = Inv.dens s l)
    (hnp : (s.fut t).ts.pending = false) (f : Nat) (k : Body) (hf : f < s1.futs.length)
    (hev : ∀ κ, ws (s.fut t).ts.body (s.fut t).ts.own.length (s.fut t).ts.inh.length κ = true →
      ws k ((s.fut t).ts.own.length + 1) (s.fut t).ts.inh.length κ = true ∧
      evalBody s.cfg (s.fut t).ts.body (s.fut t).ts.env (Inv.dens s (s.fut t).ts.own) (Inv.dens s (s.fut t).ts.inh)
          (s.fut t).ts.caught (s.fut t).ts.prevYRef =
        evalBody s.cfg k (s.fut t).ts.env (Inv.dens s (s.fut t).ts.own ++ [(s1.fut f).den])
          (Inv.dens s (s.fut t).ts.inh) (s.fut t).ts.caught (s.fut t).ts.prevYRef)
    (hns : ∀ g k b, (s.fut t).ts.body ≠ .syncret g k b) :
    Good (s1.updTask t fun ts => { ts with own := ts.own ++ [f], body := k }) := by
  obtain ⟨hk, ho, hlt⟩ := G.top hctl
  have hk1 := (tp t hk).1
  have ho1 := (tp t hk).2.1 ho
  have hlt1 : t < s1.futs.length := lt_of_kind s1 t (by rw [hk1]; nofun)
  refine ⟨?_, ?_, ?_⟩
  · apply F1.pushOwn t f k hlt1 hf ho1 (by rw [hfut]; exact hnp)
    · rw [hfut, hcfg, hd _ (G.fi.ownLt t), hd _ (G.fi.inhLt t)]; exact hev
    · rw [hfut]; exact hns
  · apply G.ci.selfRun hctl (.inl (by rw [ctl_updTask, hc])) (by rw [raising_updTask, hr]; exact G.ci.raising)
      (tp.trans (taskPres_updTask _ _ _ (fun h => h)))
    rw [fut_updTask_self _ _ _ hlt1, hfut]; exact hnp
  · intro p hp; rw [tops_updTask, htops] at hp; exact G.tops p hp

/-- `const`, `errfut`, `lazy` -/
theorem good_plainStep {s : State} (G : Good s) {t : Nat} {old : Option Nat} {rest : List Ctl}
    (hctl : s.ctl = .gen t old :: rest) (hnp : (s.fut t).ts.pending = false)
    (kind : FKind) (out : Option Outcome) (den : Outcome) (nk : NewKind) (k : Body)
    (hagree : ∀ o, out = some o → o = den) (hnt : kind ≠ .task) (hni : ∀ k q p m, kind ≠ .item k q p m)
    (hlazy : ∀ o, kind = .lazy o → den = lazyOutcome o)
    (hev : ∀ κ env own inh caught pv, ws (s.fut t).ts.body (s.fut t).ts.own.length (s.fut t).ts.inh.length κ = true →
      ws k ((s.fut t).ts.own.length + 1) (s.fut t).ts.inh.length κ = true ∧
      evalBody s.cfg (s.fut t).ts.body env own inh caught pv = evalBody s.cfg k env (own ++ [den]) inh caught pv)
    (hns : ∀ g k b, (s.fut t).ts.body ≠ .syncret g k b) :
    Good ((s.alloc { kind := kind, out := out, den := den } nk).1.updTask t fun ts =>
      { ts with own := ts.own ++ [s.futs.length], body := k }) := by
  obtain ⟨_, _, hlt⟩ := G.top hctl
  apply good_pushOwn G hctl (G.fi.allocPlain kind out den nk hagree hnt (fun k q p m h => absurd h (hni k q p m)) hlazy)
    (taskPres_alloc _ _ _) rfl rfl rfl (fut_alloc_lt _ _ _ _ hlt) rfl (fun l hl => dens_alloc _ _ _ _ hl) hnp
    _ _ (by simp)
  · intro κ hw
    rw [fut_alloc_self]
    exact hev κ _ _ _ _ _ hw
  · exact hns

theorem good_const {s : State} (G : Good s) {t : Nat} {old : Option Nat} {rest : List Ctl}
    (hctl : s.ctl = .gen t old :: rest) (hnp : (s.fut t).ts.pending = false) (v : Nat) (k : Body)
    (hb : (s.fut t).ts.body = .const v k) :
    Good ((s.alloc { kind := .const, out := some (.ok (.a v)), den := .ok (.a v) } (.const v)).1.updTask t fun ts =>
      { ts with own := ts.own ++ [s.futs.length], body := k }) := by
  apply good_plainStep G hctl hnp
  · intro o ho; cases ho; rfl
  · nofun
  · intro _ _ _ _; nofun
  · nofun
  · intro κ env own inh caught pv hw
    rw [hb] at hw ⊢
    exact ⟨by simpa [ws] using hw, by simp [evalBody]⟩
  · rw [hb]; intro _ _ _; nofun

theorem good_errfut {s : State} (G : Good s) {t : Nat} {old : Option Nat} {rest : List Ctl}
    (hctl : s.ctl = .gen t old :: rest) (hnp : (s.fut t).ts.pending = false) (e : Nat) (k : Body)
    (hb : (s.fut t).ts.body = .errfut e k) :
    Good ((s.alloc { kind := .errfut, out := some (.err (.u e)), den := .err (.u e) } (.errfut e)).1.updTask t fun ts =>
      { ts with own := ts.own ++ [s.futs.length], body := k }) := by
  apply good_plainStep G hctl hnp
  · intro o ho; cases ho; rfl
  · nofun
  · intro _ _ _ _; nofun
  · nofun
  · intro κ env own inh caught pv hw
    rw [hb] at hw ⊢
    exact ⟨by simpa [ws] using hw, by simp [evalBody]⟩
  · rw [hb]; intro _ _ _; nofun

theorem good_lazy {s : State} (G : Good s) {t : Nat} {old : Option Nat} {rest : List Ctl}
    (hctl : s.ctl = .gen t old :: rest) (hnp : (s.fut t).ts.pending = false) (o : LazyOut) (k : Body)
    (hb : (s.fut t).ts.body = .lazy o k) :
    Good ((s.alloc { kind := .lazy o, den := lazyOutcome o } .lazy).1.updTask t fun ts =>
      { ts with own := ts.own ++ [s.futs.length], body := k }) := by
  apply good_plainStep G hctl hnp (.lazy o) none
  · nofun
  · nofun
  · intro _ _ _ _; nofun
  · intro o' h; cases h; rfl
  · intro κ env own inh caught pv hw
    rw [hb] at hw ⊢
    exact ⟨by simpa [ws] using hw, by simp [evalBody]⟩
  · rw [hb]; intro _ _ _; nofun

end AsynqModel.Core.P4

namespace AsynqModel.Core.P4
open AsynqModel.Core

theorem newTask_den (s : State) (child : Body) (inhl : List Nat) :
    ((s.newTask child inhl).1.fut s.futs.length).den =
      (evalBody s.cfg child [] [] (Inv.dens s inhl) none .none).outcome := by
  rw [newTask_eq, fut_alloc_self]

theorem good_spawn {s : State} (G : Good s) {t : Nat} {old : Option Nat} {rest : List Ctl}
    (hctl : s.ctl = .gen t old :: rest) (hnp : (s.fut t).ts.pending = false) (child : Body) (pass : List Ref) (k : Body)
    (hb : (s.fut t).ts.body = .spawn child pass k) :
    Good ((s.newTask child (pass.map (s.fut t).ts.resolve)).1.updTask t fun ts =>
      { ts with own := ts.own ++ [s.futs.length], body := k }) := by
  obtain ⟨_, ho, hlt⟩ := G.top hctl
  have hns : ∀ g k b, (s.fut t).ts.body ≠ .syncret g k b := by rw [hb]; intro _ _ _; nofun
  have hw := G.fi.wsc t ho
  rw [wsTask_plain _ hns, hb] at hw
  simp only [ws, Bool.and_eq_true] at hw
  obtain ⟨⟨hpass, hchild⟩, _⟩ := hw
  have hinh : ∀ i ∈ pass.map (s.fut t).ts.resolve, i < s.futs.length := by
    intro i hi
    obtain ⟨r, hr, rfl⟩ := List.mem_map.1 hi
    exact resolve_lt G.fi t r (List.all_eq_true.1 hpass r hr)
  have F1 := G.fi.allocTask child (pass.map (s.fut t).ts.resolve) hinh (by rw [List.length_map]; exact hchild)
  apply good_pushOwn G hctl F1 (by rw [newTask_eq]; exact taskPres_alloc _ _ _) rfl rfl rfl
    (by rw [newTask_eq]; exact fut_alloc_lt _ _ _ _ hlt) rfl
    (fun l hl => by rw [newTask_eq]; exact dens_alloc _ _ _ _ hl) hnp _ _ (by rw [newTask_eq]; simp)
  · intro κ hw'
    rw [hb] at hw' ⊢
    refine ⟨by simp only [ws, Bool.and_eq_true] at hw'; exact hw'.2, ?_⟩
    rw [newTask_den, pass_dens s _ pass hpass]
    simp [evalBody]
  · exact hns

def ensureBatch (s : State) (kind : Nat) : State :=
  match s.curBatch? kind with
  | some _ => s
  | none => { s with batches := s.batches ++ [({ kind := kind, seq := 0 } : Batch)] }

def itemStep (s : State) (t kind payload : Nat) (mode : ItemMode) (k : Body) (b : Batch) : State :=
  (((s.alloc { kind := .item kind b.seq payload mode, den := itemOutcome s.cfg kind payload mode }
      (.item kind b.seq b.items.length payload mode)).1.updBatch kind b.seq
      fun b => { b with items := b.items ++ [s.futs.length] }).updTask t
      fun ts => { ts with own := ts.own ++ [s.futs.length], body := k })

theorem ensureBatch_cases (s : State) (kind : Nat) :
    ensureBatch s kind = s ∨
    ensureBatch s kind = { s with batches := s.batches ++ [({ kind := kind, seq := 0 } : Batch)] } := by
  unfold ensureBatch; split
  · exact .inl rfl
  · exact .inr rfl

theorem good_ensureBatch {s : State} (G : Good s) (kind : Nat) : Good (ensureBatch s kind) := by
  rcases ensureBatch_cases s kind with h | h
  · rw [h]; exact G
  · rw [h]
    refine ⟨G.fi.setBatches _ ?_, ?_, G.tops⟩
    · intro b hb i hi
      rcases List.mem_append.1 hb with hb | hb
      · exact G.fi.batchItems b hb i hi
      · simp only [List.mem_singleton] at hb; subst hb; simp at hi
    · exact ⟨G.ci.distinct, G.ci.bnp, G.ci.ready, G.ci.genTask, G.ci.genOut, G.ci.raising⟩

theorem ensureBatch_ctl (s : State) (kind : Nat) : (ensureBatch s kind).ctl = s.ctl := by
  rcases ensureBatch_cases s kind with h | h <;> rw [h]
theorem ensureBatch_fut (s : State) (kind : Nat) (f : Nat) : (ensureBatch s kind).fut f = s.fut f := by
  rcases ensureBatch_cases s kind with h | h <;> rw [h] <;> rfl

theorem curBatch?_some {s : State} {kind : Nat} {b : Batch} (h : s.curBatch? kind = some b) :
    b ∈ s.batches ∧ b.kind = kind := by
  unfold State.curBatch? at h
  have := List.mem_of_getLast? h
  simp only [List.mem_filter, beq_iff_eq] at this
  exact this

theorem good_itemAux {s sa : State} (G : Good s) {t : Nat} {old : Option Nat} {rest : List Ctl}
    (hctl : s.ctl = .gen t old :: rest) (hnp : (s.fut t).ts.pending = false) (kind payload q : Nat) (mode : ItemMode)
    (k : Body) (hb : (s.fut t).ts.body = .item kind payload mode k)
    (F0 : FI sa) (tp : TaskPres s sa) (hc : sa.ctl = s.ctl) (hr : sa.raising = s.raising) (htops : sa.tops = s.tops)
    (hcfg : sa.cfg = s.cfg) (hfut : ∀ f, f < s.futs.length → sa.fut f = s.fut f)
    (hlen : sa.futs.length = s.futs.length + 1)
    (hkind : (sa.fut s.futs.length).kind = .item kind q payload mode)
    (hden : (sa.fut s.futs.length).den = itemOutcome s.cfg kind payload mode) :
    Good ((sa.updBatch kind q fun b => { b with items := b.items ++ [s.futs.length] }).updTask t
      fun ts => { ts with own := ts.own ++ [s.futs.length], body := k }) := by
  obtain ⟨_, ho, hlt⟩ := G.top hctl
  have F1 : FI (sa.updBatch kind q fun b => { b with items := b.items ++ [s.futs.length] }) := by
    apply F0.setBatches
    intro b' hb' i hi
    simp only [List.mem_map] at hb'
    obtain ⟨b0, hb0, rfl⟩ := hb'
    split at hi
    · rename_i hcnd
      simp only [Bool.and_eq_true, beq_iff_eq] at hcnd
      simp only [List.mem_append, List.mem_singleton] at hi
      rw [if_pos (by simp [hcnd])]
      rcases hi with hi | rfl
      · exact F0.batchItems b0 hb0 i hi
      · exact ⟨q, payload, mode, by rw [hkind]; simp [hcnd.1]⟩
    · rename_i hcnd
      rw [if_neg hcnd]
      exact F0.batchItems b0 hb0 i hi
  have hdens : ∀ l, (∀ i ∈ l, i < s.futs.length) → Inv.dens sa l = Inv.dens s l := by
    intro l hl
    simp only [Inv.dens]
    exact List.map_congr_left fun i hi => by rw [hfut i (hl i hi)]
  apply good_pushOwn G hctl F1 tp hc hr htops (hfut t hlt) hcfg hdens hnp _ _
    (by show s.futs.length < sa.futs.length; omega)
  · intro κ hw
    rw [hb] at hw ⊢
    refine ⟨by simpa [ws] using hw, ?_⟩
    show _ = evalBody s.cfg k _ (_ ++ [(sa.fut s.futs.length).den]) _ _ _
    rw [hden]
    simp [evalBody]
  · rw [hb]; intro _ _ _; nofun

theorem good_item {s : State} (G : Good s) {t : Nat} {old : Option Nat} {rest : List Ctl}
    (hctl : s.ctl = .gen t old :: rest) (hnp : (s.fut t).ts.pending = false) (kind payload : Nat) (mode : ItemMode)
    (k : Body) (hb : (s.fut t).ts.body = .item kind payload mode k) (b : Batch) :
    Good (itemStep s t kind payload mode k b) := by
  unfold itemStep
  apply good_itemAux G hctl hnp kind payload b.seq mode k hb
    (G.fi.allocPlain (.item kind b.seq payload mode) none (itemOutcome s.cfg kind payload mode)
      (.item kind b.seq b.items.length payload mode) nofun nofun (fun k q p m h => by cases h; rfl) nofun)
    (taskPres_alloc _ _ _) rfl rfl rfl rfl (fun f hf => fut_alloc_lt _ _ _ _ hf) (by simp)
  · rw [fut_alloc_self]
  · rw [fut_alloc_self]

end AsynqModel.Core.P4
