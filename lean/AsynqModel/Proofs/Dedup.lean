import AsynqModel.Lib.Dedup
/-! helper lemmas for C12: key normalisation, dict lemmas, the simulation between the table and the observer -/
namespace AsynqModel.Dedup

instance {ε α : Type} [DecidableEq ε] [DecidableEq α] : DecidableEq (Except ε α) := fun a b =>
  match a, b with
  | .ok x, .ok y => if h : x = y then isTrue (by rw [h]) else isFalse (fun e => h (by injection e))
  | .error x, .error y => if h : x = y then isTrue (by rw [h]) else isFalse (fun e => h (by injection e))
  | .ok _, .error _ => isFalse (fun e => by contradiction)
  | .error _, .ok _ => isFalse (fun e => by contradiction)

/-! ## key normalisation -/

theorem fill_length (kw dflt : List (Nat × Nat)) (ns xs : List Nat) (h : fill kw dflt ns = .ok xs) :
    xs.length = ns.length := by
  induction ns generalizing xs with
  | nil => simp [fill] at h; subst h; rfl
  | cons n ns ih =>
    simp only [fill] at h
    split at h
    · contradiction
    · split at h
      · contradiction
      · rename_i ys hy
        injection h with h; subst h
        simp [ih ys hy]

theorem fill_drop_ok (kw dflt : List (Nat × Nat)) (ns xs : List Nat) (k : Nat) (h : fill kw dflt ns = .ok xs) :
    fill kw dflt (ns.drop k) = .ok (xs.drop k) := by
  induction ns generalizing xs k with
  | nil => simp [fill] at h; subst h; simp [fill]
  | cons n ns ih =>
    simp only [fill] at h
    split at h
    · contradiction
    · rename_i x hx
      split at h
      · contradiction
      · rename_i ys hy
        injection h with h; subst h
        cases k with
        | zero => simp [fill, hx, hy]
        | succ k => simpa using ih ys k hy

/-! ### value tokens as key elements -/

theorem asPair_inj (x y : Nat) (a : Nat × Nat) (hx : asPair x = some a) (hy : asPair y = some a) : x = y := by
  simp only [asPair, pairBase] at hx hy
  by_cases h1 : 1000000 ≤ x
  · by_cases h2 : 1000000 ≤ y
    · simp only [h1, h2, ↓reduceIte, Option.some.injEq] at hx hy
      rw [← hy] at hx
      have e1 := congrArg Prod.fst hx
      have e2 := congrArg Prod.snd hx
      simp only at e1 e2
      omega
    · simp [h2] at hy
  · simp [h1] at hx

/-- Python `==` on argument values as key elements: the normal form is injective -/
theorem ofVal_inj (x y : Nat) (h : KeyElem.ofVal x = KeyElem.ofVal y) : x = y := by
  simp only [KeyElem.ofVal] at h
  cases hx : asPair x with
  | none =>
    cases hy : asPair y with
    | none => simp only [hx, hy] at h; injection h
    | some b => simp only [hx, hy] at h; contradiction
  | some a =>
    cases hy : asPair y with
    | none => simp only [hx, hy] at h; contradiction
    | some b =>
      simp only [hx, hy] at h
      injection h with h1 h2
      have : a = b := Prod.ext h1 h2
      subst this
      exact asPair_inj x y a hx hy

theorem map_ofVal_inj (xs ys : List Nat) (h : xs.map KeyElem.ofVal = ys.map KeyElem.ofVal) : xs = ys := by
  induction xs generalizing ys with
  | nil => cases ys <;> simp_all
  | cons x xs ih =>
    cases ys with
    | nil => simp at h
    | cons y ys =>
      simp only [List.map_cons, List.cons.injEq] at h
      rw [ofVal_inj x y h.1, ih ys h.2]

theorem map_kw_inj (es fs : List (Nat × Nat))
    (h : es.map (fun p => KeyElem.kw p.1 p.2) = fs.map (fun p => KeyElem.kw p.1 p.2)) : es = fs := by
  induction es generalizing fs with
  | nil => cases fs <;> simp_all
  | cons e es ih =>
    cases fs with
    | nil => simp at h
    | cons f fs =>
      simp only [List.map_cons, List.cons.injEq, KeyElem.kw.injEq] at h
      obtain ⟨⟨h1, h2⟩, h3⟩ := h
      have : e = f := Prod.ext h1 h2
      rw [this, ih fs h3]

theorem map_ofVal_noPair (xs : List Nat) (h : noPair xs = true) : xs.map KeyElem.ofVal = xs.map KeyElem.v := by
  induction xs with
  | nil => rfl
  | cons x xs ih =>
    simp only [noPair, List.all_cons, Bool.and_eq_true] at h
    have hx : asPair x = none := by
      cases hp : asPair x with
      | none => rfl
      | some a => simp [hp] at h
    simp only [List.map_cons, KeyElem.ofVal, hx]
    rw [ih (by simpa [noPair] using h.2)]

theorem noPair_drop (xs : List Nat) (n : Nat) (h : noPair xs = true) : noPair (xs.drop n) = true := by
  simp only [noPair, List.all_eq_true] at h ⊢
  intro x hx
  exact h x (List.mem_of_mem_drop hx)

/-- a tuple of plain values followed by keyword pairs splits uniquely -/
theorem split_v_kw (xs ys : List Nat) (es fs : List (Nat × Nat))
    (h : xs.map KeyElem.v ++ es.map (fun p => KeyElem.kw p.1 p.2) = ys.map KeyElem.v ++ fs.map (fun p => KeyElem.kw p.1 p.2)) :
    xs = ys ∧ es = fs := by
  induction xs generalizing ys with
  | nil =>
    cases ys with
    | nil =>
      refine ⟨rfl, ?_⟩
      simp only [List.map_nil, List.nil_append] at h
      exact map_kw_inj es fs h
    | cons y ys => cases es <;> simp at h
  | cons x xs ih =>
    cases ys with
    | nil => cases fs <;> simp at h
    | cons y ys =>
      simp only [List.map_cons, List.cons_append, List.cons.injEq, KeyElem.v.injEq] at h
      obtain ⟨h1, h2⟩ := h
      obtain ⟨h3, h4⟩ := ih ys h2
      exact ⟨by rw [h1, h3], h4⟩

/-! ### keywords that name positional-only parameters -/

/-- filtering the keywords by a predicate on the NAME filters the lookup -/
theorem alook_filter (kw : List (Nat × Nat)) (q : Nat → Bool) (nm : Nat) :
    alook (kw.filter fun p => q p.1) nm = if q nm then alook kw nm else none := by
  induction kw with
  | nil => simp [alook]
  | cons p kw ih =>
    obtain ⟨k, v⟩ := p
    simp only [List.filter_cons]
    by_cases hk : k = nm
    · subst hk
      by_cases hq : q k = true
      · simp [hq, alook]
      · have hq' : q k = false := by simpa using hq
        simp only [hq', Bool.false_eq_true, ↓reduceIte] at ih ⊢
        exact ih
    · by_cases hq : q k = true
      · simp only [hq, ↓reduceIte, alook, hk, ih]
      · have hq' : q k = false := by simpa using hq
        simp only [hq', Bool.false_eq_true, ↓reduceIte, alook, hk, ih]

theorem fillOne_mono (kw : List (Nat × Nat)) (q : Nat → Bool) (dflt : List (Nat × Nat)) (n x : Nat)
    (h : fillOne (kw.filter fun p => q p.1) dflt n = .ok x) : ∃ y, fillOne kw dflt n = .ok y := by
  simp only [fillOne, alook_filter] at h ⊢
  cases hd : alook dflt n with
  | some d => exact ⟨_, rfl⟩
  | none =>
    simp only [hd] at h
    by_cases hq : q n = true
    · simp only [hq, ↓reduceIte] at h
      cases hk : alook kw n with
      | some z => exact ⟨z, rfl⟩
      | none => simp [hk] at h
    · have hq' : q n = false := by simpa using hq
      simp [hq'] at h

/-- the named part that binds with the reachable keywords also fills with all keywords (values may differ) -/
theorem fill_mono (kw : List (Nat × Nat)) (q : Nat → Bool) (dflt : List (Nat × Nat)) (ns xs : List Nat)
    (h : fill (kw.filter fun p => q p.1) dflt ns = .ok xs) : ∃ ys, fill kw dflt ns = .ok ys := by
  induction ns generalizing xs with
  | nil => exact ⟨[], rfl⟩
  | cons n ns ih =>
    simp only [fill] at h
    split at h
    · contradiction
    · rename_i x hx
      split at h
      · contradiction
      · rename_i zs hz
        obtain ⟨y, hy⟩ := fillOne_mono kw q dflt n x hx
        obtain ⟨ys, hys⟩ := ih zs hz
        exact ⟨y :: ys, by simp [fill, hy, hys]⟩

theorem insertPair_ne_nil (p : Nat × Nat) (l : List (Nat × Nat)) : insertPair p l ≠ [] := by
  cases l with
  | nil => simp [insertPair]
  | cons q r => simp only [insertPair]; split <;> simp

theorem sortPairs_eq_nil (l : List (Nat × Nat)) (h : sortPairs l = []) : l = [] := by
  cases l with
  | nil => rfl
  | cons p r => exact absurd h (insertPair_ne_nil p _)

/-- on a flat signature a call that binds has no keyword of a positional-only name: the keywords that can reach a
    parameter are all keywords, and the extra keywords are those that name no parameter at all -/
theorem flat_kw (s : Sig) (args : List Nat) (kw : List (Nat × Nat)) (hs : callFlat s args kw = true)
    (hex : (!(sortPairs (kw.filter fun p => !s.argNames.contains p.1 || s.poNames.contains p.1)).isEmpty && !s.varkw) = false) :
    (kw.filter fun p => !s.poNames.contains p.1) = kw ∧
    sortPairs (kw.filter fun p => !s.argNames.contains p.1 || s.poNames.contains p.1) = extras kw s.argNames := by
  simp only [callFlat, Bool.and_eq_true, Bool.or_eq_true, Bool.not_eq_true', Bool.and_eq_false_iff, bne_eq_false_iff_eq,
    List.all_eq_true] at hs
  rcases hs.2 with (h0 | hv) | hall
  · have : s.poNames = [] := by simp [Sig.poNames, h0]
    simp [this, extras]
  rotate_left
  · have hf : ∀ p ∈ kw, s.poNames.contains p.1 = false := by
      intro p hp; simpa using hall p hp
    constructor
    · apply List.filter_eq_self.mpr
      intro p hp
      rw [hf p hp]; rfl
    · simp only [extras]
      congr 1
      apply List.filter_congr
      intro p hp
      rw [hf p hp]; simp
  ·
    simp only [hv, Bool.not_false, Bool.and_true, Bool.not_eq_false', List.isEmpty_iff] at hex
    have hnil := sortPairs_eq_nil _ hex
    have hall : ∀ p ∈ kw, s.argNames.contains p.1 = true ∧ s.poNames.contains p.1 = false := by
      intro p hp
      have := List.filter_eq_nil_iff.mp hnil p hp
      simp only [Bool.or_eq_true, Bool.not_eq_true', not_or, Bool.not_eq_false] at this
      exact ⟨this.1, by simpa using this.2⟩
    constructor
    · apply List.filter_eq_self.mpr
      intro p hp
      rw [(hall p hp).2]; rfl
    · rw [hex, extras]
      have : (kw.filter fun p => !s.argNames.contains p.1) = [] := by
        apply List.filter_eq_nil_iff.mpr
        intro p hp
        rw [(hall p hp).1]; simp
      rw [this]; rfl

/-- the key of a `callFlat` call that binds is exactly a flat print of its binding -/
theorem key_of_bind (s : Sig) (args : List Nat) (kw : List (Nat × Nat)) (b : Binding)
    (hs : callFlat s args kw = true) (hb : s.bind args kw = .ok b) :
    s.key args kw = .ok ((b.params ++ b.rest).map KeyElem.ofVal ++ b.extra.map (fun p => KeyElem.kw p.1 p.2))
    ∧ b.params.length = s.pos.length + s.kwonly.length
    ∧ b.rest = args.drop s.pos.length
    ∧ (s.varargs = false → b.rest = [])
    ∧ (s.varkw = false → b.extra = []) := by
  unfold Sig.bind at hb
  simp only at hb
  split at hb
  · contradiction
  · rename_i h1
    split at hb
    · contradiction
    · split at hb
      · contradiction
      · rename_i filled hf
        split at hb
        · contradiction
        · rename_i hex
          have hex' : (!(sortPairs (kw.filter fun p => !s.argNames.contains p.1 || s.poNames.contains p.1)).isEmpty && !s.varkw) = false := by
            simpa using hex
          obtain ⟨hkwN, hext⟩ := flat_kw s args kw hs hex'
          rw [hkwN] at hf
          have hvk : s.varkw = false → extras kw s.argNames = [] := by
            intro hv
            rw [← hext]
            simpa [hv] using hex'
          injection hb with hb
          subst hb
          simp only [hext]
          simp only [Sig.key, getArgsTuple]
          by_cases hle : args.length ≤ s.pos.length
          · have hd : s.argNames.drop args.length = s.posNames.drop args.length ++ s.kwNames := by
              simp only [Sig.argNames]
              apply List.drop_append_of_le_length
              simpa [Sig.posNames] using hle
            rw [hd, hf]
            have hl := fill_length _ _ _ _ hf
            simp only [List.length_append, List.length_drop, Sig.posNames, Sig.kwNames, List.length_map] at hl
            have ht : args.take s.pos.length = args := List.take_of_length_le hle
            have hdr : args.drop s.pos.length = [] := List.drop_of_length_le hle
            simp only [ht, hdr, List.append_nil, List.map_append, List.length_append]
            exact ⟨trivial, by omega, trivial, fun _ => trivial, hvk⟩
          · have hva : s.varargs = true := by
              simp only [Bool.and_eq_true, decide_eq_true_eq, Bool.not_eq_true', not_and, Bool.not_eq_false] at h1
              exact h1 (by omega)
            have hk : s.kwonly = [] := by
              simp only [callFlat, hva, Bool.true_and, Bool.and_eq_true, Bool.or_eq_true, Bool.not_eq_true',
                Bool.not_eq_false', List.isEmpty_iff, decide_eq_true_eq] at hs
              rcases hs.1 with h | h
              · exact h
              · exact absurd h hle
            have hd1 : s.argNames.drop args.length = [] := by
              apply List.drop_of_length_le
              simp [Sig.argNames, Sig.posNames, Sig.kwNames, hk]; omega
            have hd2 : s.posNames.drop args.length = [] := by
              apply List.drop_of_length_le
              simp [Sig.posNames]; omega
            have hf' : filled = [] := by
              simp only [hd2, Sig.kwNames, hk, List.map_nil, List.append_nil, fill] at hf
              injection hf with hf; exact hf.symm
            subst hf'
            simp only [hd1, fill, List.map_nil, List.append_nil, List.take_append_drop, hk, List.length_nil,
              Nat.add_zero, List.length_take]
            exact ⟨trivial, by omega, trivial, fun h => by simp [hva] at h, hvk⟩

/-- a call that binds never makes the keygetter raise (whatever the signature) -/
theorem key_ok_of_bind (s : Sig) (args : List Nat) (kw : List (Nat × Nat)) (b : Binding)
    (hb : s.bind args kw = .ok b) : ∃ tup, s.key args kw = .ok tup := by
  unfold Sig.bind at hb
  simp only at hb
  split at hb
  · contradiction
  · split at hb
    · contradiction
    · split at hb
      · contradiction
      · rename_i filled hf0
        obtain ⟨filled', hf⟩ := fill_mono kw (fun nm => !s.poNames.contains nm) s.defaults _ filled hf0
        simp only [Sig.key, getArgsTuple, Sig.argNames]
        by_cases hle : args.length ≤ s.pos.length
        · have hd : (s.posNames ++ s.kwNames).drop args.length = s.posNames.drop args.length ++ s.kwNames := by
            apply List.drop_append_of_le_length
            simpa [Sig.posNames] using hle
          rw [hd, hf]
          exact ⟨_, rfl⟩
        · have hd2 : s.posNames.drop args.length = [] := by
            apply List.drop_of_length_le
            simp [Sig.posNames]; omega
          have hd : (s.posNames ++ s.kwNames).drop args.length = s.kwNames.drop (args.length - s.posNames.length) := by
            rw [List.drop_append, hd2, List.nil_append]
          rw [hd2, List.nil_append] at hf
          rw [hd, fill_drop_ok _ _ _ _ _ hf]
          exact ⟨_, rfl⟩

/-- **key normalisation** for calls on which the default key is faithful (`callOk`): two calls that bind have the
    same key iff they bind the same -/
theorem key_eq_iff_bind_eq (s : Sig) (a1 a2 : List Nat) (k1 k2 : List (Nat × Nat))
    (h1 : callOk s a1 k1 = true) (h2 : callOk s a2 k2 = true)
    (b1 b2 : Binding) (t1 t2 : List KeyElem)
    (hb1 : s.bind a1 k1 = .ok b1) (hb2 : s.bind a2 k2 = .ok b2)
    (ht1 : s.key a1 k1 = .ok t1) (ht2 : s.key a2 k2 = .ok t2) :
    t1 = t2 ↔ b1 = b2 := by
  simp only [callOk, Bool.and_eq_true, Bool.or_eq_true, Bool.not_eq_true', Bool.and_eq_false_iff] at h1 h2
  obtain ⟨e1, l1, r1, va1, vk1⟩ := key_of_bind s a1 k1 b1 h1.1 hb1
  obtain ⟨e2, l2, r2, va2, vk2⟩ := key_of_bind s a2 k2 b2 h2.1 hb2
  rw [e1] at ht1; rw [e2] at ht2
  injection ht1 with ht1; injection ht2 with ht2
  subst ht1; subst ht2
  constructor
  · intro h
    simp only [List.map_append, List.append_assoc] at h
    obtain ⟨hp, hre⟩ := List.append_inj h (by simp; omega)
    have hp' := map_ofVal_inj _ _ hp
    have hrest : b1.rest = b2.rest ∧ b1.extra = b2.extra := by
      by_cases hva : s.varargs = false
      · rw [va1 hva, va2 hva] at hre ⊢
        simp only [List.map_nil, List.nil_append] at hre
        exact ⟨rfl, map_kw_inj _ _ hre⟩
      · by_cases hvk : s.varkw = false
        · rw [vk1 hvk, vk2 hvk] at hre ⊢
          simp only [List.map_nil, List.append_nil] at hre
          exact ⟨map_ofVal_inj _ _ hre, rfl⟩
        · have hva' : s.varargs = true := by simpa using hva
          have hvk' : s.varkw = true := by simpa using hvk
          have n1 : noPair a1 = true := by
            cases h1.2 with
            | inl h => cases h with
              | inl h => rw [hva'] at h; contradiction
              | inr h => rw [hvk'] at h; contradiction
            | inr h => exact h
          have n2 : noPair a2 = true := by
            cases h2.2 with
            | inl h => cases h with
              | inl h => rw [hva'] at h; contradiction
              | inr h => rw [hvk'] at h; contradiction
            | inr h => exact h
          rw [map_ofVal_noPair b1.rest (by rw [r1]; exact noPair_drop _ _ n1),
              map_ofVal_noPair b2.rest (by rw [r2]; exact noPair_drop _ _ n2)] at hre
          exact split_v_kw _ _ _ _ hre
    cases b1; cases b2
    simp_all
  · intro h; rw [h]

theorem callFlat_of_flat (s : Sig) (args : List Nat) (kw : List (Nat × Nat)) (h : s.flat = true) :
    callFlat s args kw = true := by
  simp only [Sig.flat, Bool.and_eq_true, Bool.or_eq_true, Bool.not_eq_true', beq_iff_eq, List.isEmpty_iff] at h
  simp only [callFlat, Bool.and_eq_true, Bool.or_eq_true, Bool.not_eq_true', Bool.and_eq_false_iff, bne_eq_false_iff_eq,
    Bool.not_eq_false', List.isEmpty_iff]
  refine ⟨?_, ?_⟩
  · rcases h.1 with h1 | h1
    · exact Or.inl (Or.inl h1)
    · exact Or.inl (Or.inr h1)
  · rcases h.2 with h2 | h2
    · exact Or.inl (Or.inl h2)
    · exact Or.inl (Or.inr h2)

theorem callOk_of_ok (s : Sig) (args : List Nat) (kw : List (Nat × Nat)) (h : s.ok = true) : callOk s args kw = true := by
  simp only [Sig.ok, Bool.and_eq_true, Bool.not_eq_true'] at h
  simp [callOk, callFlat_of_flat s args kw h.1, h.2]

/-! ## dict lemmas -/

theorem mget_merase {κ : Type} [DecidableEq κ] (m : List (κ × Nat)) (x y : κ) :
    mget (merase m x) y = if y = x then none else mget m y := by
  induction m with
  | nil => simp [merase, mget]
  | cons p m ih =>
    obtain ⟨k, v⟩ := p
    simp only [merase, List.filter_cons] at ih ⊢
    by_cases hk : k = x
    · subst hk
      simp only [decide_true, Bool.not_true, Bool.false_eq_true, ↓reduceIte, ih, mget]
      by_cases hy : y = k
      · simp [hy]
      · have : ¬ k = y := fun h => hy h.symm
        simp [hy, this]
    · simp only [hk, decide_false, Bool.not_false, ↓reduceIte, mget, ih]
      by_cases hy : k = y
      · subst hy; simp [hk]
      · simp [hy]

theorem mget_mset {κ : Type} [DecidableEq κ] (m : List (κ × Nat)) (x y : κ) (t : Nat) :
    mget (mset m x t) y = if y = x then some t else mget m y := by
  simp only [mset, mget, mget_merase]
  by_cases h : x = y
  · subst h; simp
  · have : ¬ y = x := fun h' => h h'.symm
    simp [h, this]

/-! ## the observer's sets of possible table states -/

theorem pget_pset (m : List (RKey × List (Option Nat))) (x y : RKey) (P : List (Option Nat)) :
    pget (pset m x P) y = if y = x then P else pget m y := by
  simp only [pset, pget]
  by_cases h : x = y
  · subst h; simp
  · have h' : ¬ y = x := fun e => h e.symm
    simp only [h, h', ↓reduceIte]
    induction m with
    | nil => rfl
    | cons e m ih =>
      obtain ⟨k, Q⟩ := e
      simp only [List.filter_cons]
      by_cases hk : k = x
      · subst hk
        simp only [decide_true, Bool.not_true, Bool.false_eq_true, ↓reduceIte, pget, h, ih]
      · simp only [hk, decide_false, Bool.not_false, ↓reduceIte, pget, ih]

theorem pget_ploosen_mono (m : List (RKey × List (Option Nat))) (fn th : Nat) (rk : RKey) (o : Option Nat)
    (h : o ∈ pget m rk) : o ∈ pget (ploosen m fn th) rk := by
  induction m with
  | nil => exact h
  | cons e m ih =>
    obtain ⟨k, Q⟩ := e
    simp only [ploosen, List.map_cons] at ih ⊢
    by_cases hk : k = rk
    · subst hk
      simp only [pget, ↓reduceIte] at h
      split
      · simp only [pget, ↓reduceIte]
        exact List.mem_cons_of_mem _ h
      · simp only [pget, ↓reduceIte]
        exact h
    · simp only [pget, hk, ↓reduceIte] at h
      split
      · simp only [pget, hk, ↓reduceIte]
        exact ih h
      · simp only [pget, hk, ↓reduceIte]
        exact ih h

theorem pget_ploosen_none (m : List (RKey × List (Option Nat))) (fn th : Nat) (rk : RKey)
    (hf : rk.fn = fn) (ht : rk.th = th) : none ∈ pget (ploosen m fn th) rk := by
  induction m with
  | nil => simp [ploosen, pget]
  | cons e m ih =>
    obtain ⟨k, Q⟩ := e
    simp only [ploosen, List.map_cons] at ih ⊢
    by_cases hk : k = rk
    · subst hk
      simp [hf, ht, pget]
    · split
      · simp only [pget, hk, ↓reduceIte]
        exact ih
      · simp only [pget, hk, ↓reduceIte]
        exact ih

/-! ## the simulation -/

/-- `k` is the table key and `rk` the reference key of one and the same well-formed call on which the default key
    is faithful -/
def KeyRel (fns : List FnDecl) (k : Key) (rk : RKey) : Prop :=
  k.fn = rk.fn ∧ k.th = rk.th ∧
    ∃ d args kw, fns[rk.fn]? = some d ∧ callOk d.sig args kw = true ∧ d.sig.bind args kw = .ok rk.b ∧
      d.sig.key args kw = .ok k.tup

theorem keyrel_inj (fns : List FnDecl) (k k' : Key) (rk rk' : RKey)
    (h : KeyRel fns k rk) (h' : KeyRel fns k' rk') : k = k' ↔ rk = rk' := by
  obtain ⟨f1, t1, d, a, kw, hd, hc, hb, hk⟩ := h
  obtain ⟨f2, t2, d', a', kw', hd', hc', hb', hk'⟩ := h'
  constructor
  · intro e
    subst e
    have hf : rk.fn = rk'.fn := by rw [← f1, f2]
    rw [← hf, hd] at hd'
    injection hd' with hd'
    subst hd'
    have := (key_eq_iff_bind_eq d.sig a a' kw kw' hc hc' rk.b rk'.b k.tup k.tup hb hb' hk hk').mp rfl
    cases rk; cases rk'
    simp_all
  · intro e
    subst e
    rw [hd] at hd'
    injection hd' with hd'
    subst hd'
    have := (key_eq_iff_bind_eq d.sig a a' kw kw' hc hc' rk.b rk.b k.tup k'.tup hb hb' hk hk').mpr rfl
    cases k; cases k'
    simp_all

structure TRel (fns : List FnDecl) (t : Task) (x : WTask) : Prop where
  running : t.running = true → x.running = true
  done : x.done = t.out.isSome
  started : x.started = t.started
  b : x.rk.b = t.b
  key : KeyRel fns t.key x.rk
  out : x.out = t.out

structure Rel (fns : List FnDecl) (s : St) (w : Watch) : Prop where
  len : w.info.length = s.tasks.length
  pt : ∀ (i : Nat) (t : Task) (x : WTask), s.tasks[i]? = some t → w.info[i]? = some x → TRel fns t x
  /-- the state of every table entry is among those the observer holds possible -/
  agree : ∀ (k : Key) (rk : RKey), KeyRel fns k rk → mget s.table k ∈ pget w.poss rk
  wf : ∀ (k : Key) (t : Nat), mget s.table k = some t →
    ∃ task, s.tasks[t]? = some task ∧ task.key = k ∧ task.reg = true ∧ task.out = none

theorem rel_init (fns : List FnDecl) : Rel fns St.init Watch.init := by
  constructor <;> simp [St.init, Watch.init, mget, pget]

/-- both sides know the same tokens -/
theorem rel_info (fns : List FnDecl) (s : St) (w : Watch) (h : Rel fns s w) (t : Nat) (task : Task)
    (ht : s.tasks[t]? = some task) : ∃ x, w.info[t]? = some x ∧ TRel fns task x := by
  have hlt : t < s.tasks.length := by
    obtain ⟨hh, _⟩ := List.getElem?_eq_some_iff.mp ht
    exact hh
  have hlt' : t < w.info.length := by rw [h.len]; exact hlt
  refine ⟨w.info[t], ?_, ?_⟩
  · exact List.getElem?_eq_getElem hlt'
  · exact h.pt t task _ ht (List.getElem?_eq_getElem hlt')

theorem rel_info_none (fns : List FnDecl) (s : St) (w : Watch) (h : Rel fns s w) (t : Nat)
    (ht : s.tasks[t]? = none) : w.info[t]? = none := by
  apply List.getElem?_eq_none
  rw [h.len]
  exact List.getElem?_eq_none_iff.mp ht

/-- updating one task on both sides without touching its key, registration or completion state -/
theorem rel_set (fns : List FnDecl) (s : St) (w : Watch) (h : Rel fns s w) (t : Nat) (task task' : Task) (x x' : WTask)
    (ht : s.tasks[t]? = some task) (hx : w.info[t]? = some x) (hr : TRel fns task' x')
    (hk : task'.key = task.key) (hreg : task'.reg = task.reg) (ho : task'.out = task.out) :
    Rel fns (setTask s t task') (wset w t x') := by
  have hlt : t < s.tasks.length := (List.getElem?_eq_some_iff.mp ht).1
  have hlt' : t < w.info.length := (List.getElem?_eq_some_iff.mp hx).1
  constructor
  · simp [setTask, wset, h.len]
  · intro i a y ha hy
    simp only [setTask, wset, List.getElem?_set] at ha hy
    by_cases hi : t = i
    · simp only [hi, ↓reduceIte] at ha hy
      subst hi
      simp only [hlt, hlt', ↓reduceIte] at ha hy
      injection ha with ha; injection hy with hy
      subst ha; subst hy; exact hr
    · simp only [hi, ↓reduceIte] at ha hy
      exact h.pt i a y ha hy
  · exact h.agree
  · intro k t0 hm
    obtain ⟨a, ha, hka, hra, hoa⟩ := h.wf k t0 hm
    simp only [setTask, List.getElem?_set]
    by_cases hi : t = t0
    · subst hi
      rw [ht] at ha
      injection ha with ha
      subst ha
      refine ⟨task', by simp [hlt], ?_, ?_, ?_⟩
      · rw [hk, hka]
      · rw [hreg, hra]
      · rw [ho, hoa]
    · exact ⟨a, by simp [hi, ha], hka, hra, hoa⟩

/-- updating the observer's record of task `t` alone -/
theorem rel_wset (fns : List FnDecl) (s : St) (w : Watch) (h : Rel fns s w) (t : Nat) (task : Task) (x x' : WTask)
    (ht : s.tasks[t]? = some task) (hx : w.info[t]? = some x) (hr : TRel fns task x') :
    Rel fns s (wset w t x') := by
  have hlt' : t < w.info.length := (List.getElem?_eq_some_iff.mp hx).1
  constructor
  · simp [wset, h.len]
  · intro i a y ha hy
    simp only [wset, List.getElem?_set] at hy
    by_cases hi : t = i
    · simp only [hi, ↓reduceIte] at hy
      subst hi
      simp only [hlt', ↓reduceIte] at hy
      rw [ht] at ha
      injection ha with ha; injection hy with hy
      subst ha; subst hy; exact hr
    · simp only [hi, ↓reduceIte] at hy
      exact h.pt i a y ha hy
  · exact h.agree
  · exact h.wf

end AsynqModel.Dedup
