import AsynqModel.Lib.Dedup
/-! helper lemmas for C12: key normalisation, dict lemmas, the simulation between the table and the observer -/
namespace AsynqModel.Dedup

instance {ε α : Type} [DecidableEq ε] [DecidableEq α] : DecidableEq (Except ε α) := fun a b =>
  match a, b with
  | .ok x, .ok y => if h : x = y then isTrue (by rw [h]) else isFalse (fun e => h (by injection e))
  | .error x, .error y => if h : x = y then isTrue (by rw [h]) else isFalse (fun e => h (by injection e))
  | .ok _, .error _ => isFalse (fun e => by contradiction)
  | .error _, .ok _ => isFalse (fun e => by contradiction)

/-! ## key normalisation -/

theorem fill_length (kw dflt : List (Nat × Nat)) (ns xs : List Nat) (h : fill kw dflt ns = .ok xs) :
    xs.length = ns.length := by
  induction ns generalizing xs with
  | nil => simp [fill] at h; subst h; rfl
  | cons n ns ih =>
    simp only [fill] at h
    split at h
    · contradiction
    · split at h
      · contradiction
      · rename_i ys hy
        injection h with h; subst h
        simp [ih ys hy]

theorem fill_drop_ok (kw dflt : List (Nat × Nat)) (ns xs : List Nat) (k : Nat) (h : fill kw dflt ns = .ok xs) :
    fill kw dflt (ns.drop k) = .ok (xs.drop k) := by
  induction ns generalizing xs k with
  | nil => simp [fill] at h; subst h; simp [fill]
  | cons n ns ih =>
    simp only [fill] at h
    split at h
    · contradiction
    · rename_i x hx
      split at h
      · contradiction
      · rename_i ys hy
        injection h with h; subst h
        cases k with
        | zero => simp [fill, hx, hy]
        | succ k => simpa using ih ys k hy

/-- a tuple of plain values followed by keyword pairs splits uniquely -/
theorem split_v_kw (xs ys : List Nat) (es fs : List (Nat × Nat))
    (h : xs.map KeyElem.v ++ es.map (fun p => KeyElem.kw p.1 p.2) = ys.map KeyElem.v ++ fs.map (fun p => KeyElem.kw p.1 p.2)) :
    xs = ys ∧ es = fs := by
  induction xs generalizing ys with
  | nil =>
    cases ys with
    | nil =>
      refine ⟨rfl, ?_⟩
      simp only [List.map_nil, List.nil_append] at h
      induction es generalizing fs with
      | nil => cases fs <;> simp_all
      | cons e es ih =>
        cases fs with
        | nil => simp at h
        | cons f fs =>
          simp only [List.map_cons, List.cons.injEq, KeyElem.kw.injEq] at h
          obtain ⟨⟨h1, h2⟩, h3⟩ := h
          have : e = f := Prod.ext h1 h2
          rw [this, ih fs h3]
    | cons y ys => cases es <;> simp at h
  | cons x xs ih =>
    cases ys with
    | nil => cases fs <;> simp at h
    | cons y ys =>
      simp only [List.map_cons, List.cons_append, List.cons.injEq, KeyElem.v.injEq] at h
      obtain ⟨h1, h2⟩ := h
      obtain ⟨h3, h4⟩ := ih ys h2
      exact ⟨by rw [h1, h3], h4⟩


/-- on a faithful signature the key of a call that binds is exactly a flat print of its binding -/
theorem key_of_bind (s : Sig) (args : List Nat) (kw : List (Nat × Nat)) (b : Binding)
    (hs : s.ok = true) (hb : s.bind args kw = .ok b) :
    s.key args kw = .ok ((b.params ++ b.rest).map KeyElem.v ++ b.extra.map (fun p => KeyElem.kw p.1 p.2))
    ∧ b.params.length = s.pos.length + s.kwonly.length := by
  unfold Sig.bind at hb
  simp only at hb
  split at hb
  · contradiction
  · rename_i h1
    split at hb
    · contradiction
    · split at hb
      · contradiction
      · rename_i filled hf
        split at hb
        · contradiction
        · injection hb with hb
          subst hb
          simp only [Sig.key, getArgsTuple, Sig.argNames]
          by_cases hle : args.length ≤ s.pos.length
          · have hd : (s.posNames ++ s.kwNames).drop args.length = s.posNames.drop args.length ++ s.kwNames := by
              apply List.drop_append_of_le_length
              simpa [Sig.posNames] using hle
            rw [hd, hf]
            have hl := fill_length _ _ _ _ hf
            simp only [List.length_append, List.length_drop, Sig.posNames, Sig.kwNames, List.length_map] at hl
            have ht : args.take s.pos.length = args := List.take_of_length_le hle
            have hdr : args.drop s.pos.length = [] := List.drop_of_length_le hle
            simp only [ht, hdr, List.append_nil, List.map_append, List.length_append]
            refine ⟨trivial, ?_⟩
            omega
          · have hva : s.varargs = true := by
              simp only [Bool.and_eq_true, decide_eq_true_eq, Bool.not_eq_true', not_and, Bool.not_eq_false] at h1
              exact h1 (by omega)
            have hk : s.kwonly = [] := by
              simp only [Sig.ok, hva, Bool.not_true, Bool.false_or, List.isEmpty_iff] at hs
              exact hs
            have hd1 : (s.posNames ++ s.kwNames).drop args.length = [] := by
              apply List.drop_of_length_le
              simp [Sig.posNames, Sig.kwNames, hk]; omega
            have hd2 : s.posNames.drop args.length = [] := by
              apply List.drop_of_length_le
              simp [Sig.posNames]; omega
            have hf' : filled = [] := by
              simp only [hd2, Sig.kwNames, hk, List.map_nil, List.append_nil, fill] at hf
              injection hf with hf; exact hf.symm
            subst hf'
            simp only [hd1, fill, List.map_nil, List.append_nil, List.take_append_drop, hk, List.length_nil,
              Nat.add_zero, List.length_take]
            refine ⟨trivial, ?_⟩
            omega

/-- a call that binds never makes the keygetter raise -/
theorem key_ok_of_bind (s : Sig) (args : List Nat) (kw : List (Nat × Nat)) (b : Binding)
    (hb : s.bind args kw = .ok b) : ∃ tup, s.key args kw = .ok tup := by
  unfold Sig.bind at hb
  simp only at hb
  split at hb
  · contradiction
  · split at hb
    · contradiction
    · split at hb
      · contradiction
      · rename_i filled hf
        simp only [Sig.key, getArgsTuple, Sig.argNames]
        by_cases hle : args.length ≤ s.pos.length
        · have hd : (s.posNames ++ s.kwNames).drop args.length = s.posNames.drop args.length ++ s.kwNames := by
            apply List.drop_append_of_le_length
            simpa [Sig.posNames] using hle
          rw [hd, hf]
          exact ⟨_, rfl⟩
        · have hd2 : s.posNames.drop args.length = [] := by
            apply List.drop_of_length_le
            simp [Sig.posNames]; omega
          have hd : (s.posNames ++ s.kwNames).drop args.length = s.kwNames.drop (args.length - s.posNames.length) := by
            rw [List.drop_append, hd2, List.nil_append]
          rw [hd2, List.nil_append] at hf
          rw [hd, fill_drop_ok _ _ _ _ _ hf]
          exact ⟨_, rfl⟩

/-- **key normalisation** on faithful signatures: two calls that bind have the same key iff they bind the same -/
theorem key_eq_iff_bind_eq (s : Sig) (hs : s.ok = true) (a1 a2 : List Nat) (k1 k2 : List (Nat × Nat))
    (b1 b2 : Binding) (t1 t2 : List KeyElem)
    (hb1 : s.bind a1 k1 = .ok b1) (hb2 : s.bind a2 k2 = .ok b2)
    (ht1 : s.key a1 k1 = .ok t1) (ht2 : s.key a2 k2 = .ok t2) :
    t1 = t2 ↔ b1 = b2 := by
  obtain ⟨e1, l1⟩ := key_of_bind s a1 k1 b1 hs hb1
  obtain ⟨e2, l2⟩ := key_of_bind s a2 k2 b2 hs hb2
  rw [e1] at ht1; rw [e2] at ht2
  injection ht1 with ht1; injection ht2 with ht2
  subst ht1; subst ht2
  constructor
  · intro h
    obtain ⟨h1, h2⟩ := split_v_kw _ _ _ _ h
    have := List.append_inj h1 (by omega)
    cases b1; cases b2
    simp_all
  · intro h; rw [h]


/-! ## dict lemmas -/

theorem mget_merase {κ : Type} [DecidableEq κ] (m : List (κ × Nat)) (x y : κ) :
    mget (merase m x) y = if y = x then none else mget m y := by
  induction m with
  | nil => simp [merase, mget]
  | cons p m ih =>
    obtain ⟨k, v⟩ := p
    simp only [merase, List.filter_cons] at ih ⊢
    by_cases hk : k = x
    · subst hk
      simp only [decide_true, Bool.not_true, Bool.false_eq_true, ↓reduceIte, ih, mget]
      by_cases hy : y = k
      · simp [hy]
      · have : ¬ k = y := fun h => hy h.symm
        simp [hy, this]
    · simp only [hk, decide_false, Bool.not_false, ↓reduceIte, mget, ih]
      by_cases hy : k = y
      · subst hy; simp [hk]
      · simp [hy]

theorem mget_mset {κ : Type} [DecidableEq κ] (m : List (κ × Nat)) (x y : κ) (t : Nat) :
    mget (mset m x t) y = if y = x then some t else mget m y := by
  simp only [mset, mget, mget_merase]
  by_cases h : x = y
  · subst h; simp
  · have : ¬ y = x := fun h' => h h'.symm
    simp [h, this]

/-! ## the simulation -/

/-- `k` is the table key and `rk` the reference key of one and the same well-formed call -/
def KeyRel (fns : List FnDecl) (k : Key) (rk : RKey) : Prop :=
  k.fn = rk.fn ∧ k.th = rk.th ∧
    ∃ d args kw, fns[rk.fn]? = some d ∧ d.sig.bind args kw = .ok rk.b ∧ d.sig.key args kw = .ok k.tup

theorem sig_ok_of (fns : List FnDecl) (hs : sigsOk fns = true) (i : Nat) (d : FnDecl) (h : fns[i]? = some d) :
    d.sig.ok = true := by
  simp only [sigsOk, List.all_eq_true] at hs
  exact hs d (List.mem_of_getElem? h)

theorem keyrel_inj (fns : List FnDecl) (hs : sigsOk fns = true) (k k' : Key) (rk rk' : RKey)
    (h : KeyRel fns k rk) (h' : KeyRel fns k' rk') : k = k' ↔ rk = rk' := by
  obtain ⟨f1, t1, d, a, kw, hd, hb, hk⟩ := h
  obtain ⟨f2, t2, d', a', kw', hd', hb', hk'⟩ := h'
  constructor
  · intro e
    subst e
    have hf : rk.fn = rk'.fn := by rw [← f1, f2]
    rw [← hf, hd] at hd'
    injection hd' with hd'
    subst hd'
    have := (key_eq_iff_bind_eq d.sig (sig_ok_of fns hs _ _ hd) a a' kw kw' rk.b rk'.b k.tup k.tup hb hb' hk hk').mp rfl
    cases rk; cases rk'
    simp_all
  · intro e
    subst e
    rw [hd] at hd'
    injection hd' with hd'
    subst hd'
    have := (key_eq_iff_bind_eq d.sig (sig_ok_of fns hs _ _ hd) a a' kw kw' rk.b rk.b k.tup k'.tup hb hb' hk hk').mpr rfl
    cases k; cases k'
    simp_all

structure TRel (fns : List FnDecl) (t : Task) (x : WTask) : Prop where
  running : t.running = true → x.running = true
  done : x.done = t.out.isSome
  reg : x.reg = t.reg
  b : x.rk.b = t.b
  key : KeyRel fns t.key x.rk

structure Rel (fns : List FnDecl) (s : St) (w : Watch) : Prop where
  len : w.info.length = s.tasks.length
  pt : ∀ (i : Nat) (t : Task) (x : WTask), s.tasks[i]? = some t → w.info[i]? = some x → TRel fns t x
  agree : ∀ (k : Key) (rk : RKey), KeyRel fns k rk → mget s.table k = mget w.ref rk
  wf : ∀ (k : Key) (t : Nat), mget s.table k = some t →
    ∃ task, s.tasks[t]? = some task ∧ task.key = k ∧ task.reg = true ∧ task.out = none
  live : w.gaveUp = false

theorem rel_init (fns : List FnDecl) : Rel fns St.init Watch.init := by
  constructor <;> simp [St.init, Watch.init, mget]

/-- both sides know the same tokens -/
theorem rel_info (fns : List FnDecl) (s : St) (w : Watch) (h : Rel fns s w) (t : Nat) (task : Task)
    (ht : s.tasks[t]? = some task) : ∃ x, w.info[t]? = some x ∧ TRel fns task x := by
  have hlt : t < s.tasks.length := by
    obtain ⟨hh, _⟩ := List.getElem?_eq_some_iff.mp ht
    exact hh
  have hlt' : t < w.info.length := by rw [h.len]; exact hlt
  refine ⟨w.info[t], ?_, ?_⟩
  · exact List.getElem?_eq_getElem hlt'
  · exact h.pt t task _ ht (List.getElem?_eq_getElem hlt')

theorem rel_info_none (fns : List FnDecl) (s : St) (w : Watch) (h : Rel fns s w) (t : Nat)
    (ht : s.tasks[t]? = none) : w.info[t]? = none := by
  apply List.getElem?_eq_none
  rw [h.len]
  exact List.getElem?_eq_none_iff.mp ht

/-- updating one task on both sides without touching its key, registration or completion state -/
theorem rel_set (fns : List FnDecl) (s : St) (w : Watch) (h : Rel fns s w) (t : Nat) (task task' : Task) (x x' : WTask)
    (ht : s.tasks[t]? = some task) (hx : w.info[t]? = some x) (hr : TRel fns task' x')
    (hk : task'.key = task.key) (hreg : task'.reg = task.reg) (ho : task'.out = task.out) :
    Rel fns (setTask s t task') (wset w t x') := by
  have hlt : t < s.tasks.length := (List.getElem?_eq_some_iff.mp ht).1
  have hlt' : t < w.info.length := (List.getElem?_eq_some_iff.mp hx).1
  constructor
  · simp [setTask, wset, h.len]
  · intro i a y ha hy
    simp only [setTask, wset, List.getElem?_set] at ha hy
    by_cases hi : t = i
    · simp only [hi, ↓reduceIte] at ha hy
      subst hi
      simp only [hlt, hlt', ↓reduceIte] at ha hy
      injection ha with ha; injection hy with hy
      subst ha; subst hy; exact hr
    · simp only [hi, ↓reduceIte] at ha hy
      exact h.pt i a y ha hy
  · exact h.agree
  · intro k t0 hm
    obtain ⟨a, ha, hka, hra, hoa⟩ := h.wf k t0 hm
    simp only [setTask, List.getElem?_set]
    by_cases hi : t = t0
    · subst hi
      rw [ht] at ha
      injection ha with ha
      subst ha
      refine ⟨task', by simp [hlt], ?_, ?_, ?_⟩
      · rw [hk, hka]
      · rw [hreg, hra]
      · rw [ho, hoa]
    · exact ⟨a, by simp [hi, ha], hka, hra, hoa⟩
  · exact h.live


/-- updating the observer's record of task `t` alone -/
theorem rel_wset (fns : List FnDecl) (s : St) (w : Watch) (h : Rel fns s w) (t : Nat) (task : Task) (x x' : WTask)
    (ht : s.tasks[t]? = some task) (hx : w.info[t]? = some x) (hr : TRel fns task x') :
    Rel fns s (wset w t x') := by
  have hlt' : t < w.info.length := (List.getElem?_eq_some_iff.mp hx).1
  constructor
  · simp [wset, h.len]
  · intro i a y ha hy
    simp only [wset, List.getElem?_set] at hy
    by_cases hi : t = i
    · simp only [hi, ↓reduceIte] at hy
      subst hi
      simp only [hlt', ↓reduceIte] at hy
      rw [ht] at ha
      injection ha with ha; injection hy with hy
      subst ha; subst hy; exact hr
    · simp only [hi, ↓reduceIte] at hy
      exact h.pt i a y ha hy
  · exact h.agree
  · exact h.wf
  · exact h.live

end AsynqModel.Dedup
