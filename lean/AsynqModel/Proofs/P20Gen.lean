import AsynqModel.Proofs.P6Step
import AsynqModel.Proofs.P6TFlush
import AsynqModel.Proofs.P2Inv
import AsynqModel.Proofs.P10Trans
/-
  P20 (termination with synchronous re-entry, property C03), part 1: what one instruction of a task body (`genStep`)
  does to the views, for EVERY instruction (including the synchronous calls `sync`, `syncfut`, `syncret`) of a task whose
  remaining program creates no NonAsyncContext and is well-scoped (`P10.wsTS`).  Generalises `P6.genStep_desc` (yield-only programs).
-/
namespace AsynqModel.Core.P20
open AsynqModel.Core AsynqModel.Core.P6 AsynqModel.Core.P6T

/-- the program fragment creates no NonAsyncContext -/
def bNF (b : Body) : Prop := Spec.bodyHasNonAsync b = false

theorem bNF_spawn {c k : Body} {p : List Ref} (h : bNF (.spawn c p k)) : bNF c ∧ bNF k := by
  simpa [bNF, Spec.bodyHasNonAsync] using h
theorem bNF_sync {c k hh : Body} {p : List Ref} (h : bNF (.sync c p k hh)) : bNF c ∧ bNF k ∧ bNF hh := by
  simp [bNF, Spec.bodyHasNonAsync] at h ⊢; exact ⟨h.1.1, h.1.2, h.2⟩
theorem bNF_syncfut {r : Ref} {k hh : Body} (h : bNF (.syncfut r k hh)) : bNF k ∧ bNF hh := by
  simpa [bNF, Spec.bodyHasNonAsync] using h
theorem bNF_item {a b : Nat} {m : ItemMode} {k : Body} (h : bNF (.item a b m k)) : bNF k := by
  simpa [bNF, Spec.bodyHasNonAsync] using h
theorem bNF_const {a : Nat} {k : Body} (h : bNF (.const a k)) : bNF k := by
  simpa [bNF, Spec.bodyHasNonAsync] using h
theorem bNF_errfut {a : Nat} {k : Body} (h : bNF (.errfut a k)) : bNF k := by
  simpa [bNF, Spec.bodyHasNonAsync] using h
theorem bNF_lazy {a : LazyOut} {k : Body} (h : bNF (.lazy a k)) : bNF k := by
  simpa [bNF, Spec.bodyHasNonAsync] using h
theorem bNF_read {a : Nat} {k : Body} (h : bNF (.read a k)) : bNF k := by
  simpa [bNF, Spec.bodyHasNonAsync] using h
theorem bNF_active {k : Body} (h : bNF (.active k)) : bNF k := by
  simpa [bNF, Spec.bodyHasNonAsync] using h
theorem bNF_yld {y : Y} {k h : Body} (hb : bNF (.yld y k h)) : bNF k ∧ bNF h := by
  simpa [bNF, Spec.bodyHasNonAsync] using hb
theorem bNF_reyld {k h : Body} (hb : bNF (.reyld k h)) : bNF k ∧ bNF h := by
  simpa [bNF, Spec.bodyHasNonAsync] using hb
theorem bNF_withCtx {c : CtxKind} {b k : Body} (h : bNF (.withCtx c b k)) : c ≠ .nonasync ∧ bNF b ∧ bNF k := by
  simp [bNF, Spec.bodyHasNonAsync] at h ⊢
  exact ⟨h.1.1, h.1.2, h.2⟩

/-- `Spec.bodyHasNonAsync` does not look below the run-time instruction `syncret` (never written in a program); for
    a task stopped in a synchronous call the two continuations are tracked instead -/
def bNFr : Body → Prop
  | .syncret _ k h => bNF k ∧ bNF h
  | b => bNF b

theorem bNFr_of {b : Body} (h : bNF b) (hns : ∀ f k hh, b ≠ .syncret f k hh) : bNFr b := by
  cases b <;> first | exact h | exact absurd rfl (hns _ _ _)

theorem bNF_of_bNFr {b : Body} (h : bNFr b) (hns : ∀ f k hh, b ≠ .syncret f k hh) : bNF b := by
  cases b <;> first | exact h | exact absurd rfl (hns _ _ _)

/-- a well-scoped program fragment is not the run-time instruction `syncret` -/
theorem not_syncret_of_wsB {b : Body} {n ninh : Nat} {Q : Nat → Bool} (h : P10.wsB b n ninh Q = true) :
    ∀ f k hh, b ≠ .syncret f k hh := by
  intro f k hh e
  subst e
  simp [P10.wsB] at h

theorem bNFr_of_wsB {b : Body} {n ninh : Nat} {Q : Nat → Bool} (h : bNF b) (hw : P10.wsB b n ninh Q = true) :
    bNFr b := bNFr_of h (not_syncret_of_wsB hw)

theorem wsTS_syncret {ts : TaskSt} (h : P10.wsTS ts = true) {f : Nat} {k hh : Body} (hb : ts.body = .syncret f k hh) :
    P10.wsB k ts.own.length ts.inh.length (P10.contQ ts.inh.length ts.conts) = true ∧
    P10.wsB hh ts.own.length ts.inh.length (P10.contQ ts.inh.length ts.conts) = true := by
  unfold P10.wsTS at h
  rw [hb] at h
  simpa using h

/-- the body and the continuations of the open with-blocks create no NonAsyncContext -/
def nfV (v : FV) : Prop := bNFr v.body ∧ ∀ p ∈ v.conts, bNF p.2

theorem nf_body {v : FV} {X : Body} (h : nfV v) (hb : v.body = X) : bNFr X := hb ▸ h.1

/-- how an instruction that stays inside the task changes the remaining program -/
inductive BStep (v v' : FV) : Prop
  | yld (y : Y) (k h : Body) (hb : v.body = .yld y k h) (hb' : v'.body = k ∨ v'.body = h) (hc : v'.conts = v.conts)
  | reyld (k h : Body) (hb : v.body = .reyld k h) (hb' : v'.body = k ∨ v'.body = h) (hc : v'.conts = v.conts)
  | syncret (f : Nat) (k h : Body) (hb : v.body = .syncret f k h) (hb' : v'.body = k ∨ v'.body = h)
      (hc : v'.conts = v.conts)
  | withCtx (c : CtxKind) (b k : Body) (cid : Nat) (hb : v.body = .withCtx c b k) (hb' : v'.body = b)
      (hc : v'.conts = (cid, k) :: v.conts)
  | endwith (cid : Nat) (k : Body) (rest : List (Nat × Body)) (hb : v.body = .endwith)
      (hc0 : v.conts = (cid, k) :: rest) (hb' : v'.body = k) (hc : v'.conts = rest)
  | read (var : Nat) (k : Body) (hb : v.body = .read var k) (hb' : v'.body = k) (hc : v'.conts = v.conts)
  | active (k : Body) (hb : v.body = .active k) (hb' : v'.body = k) (hc : v'.conts = v.conts)

def startView (v : FV) : FV := { v with pending := false, started := true, deps := [] }

/-- what `genStep t` does -/
inductive GD (s r : State) (t : Nat) : Prop
  /-- the first `send(None)` -/
  | start (hp : (view s t).pending = true) (hs : (view s t).started = false)
      (hu : Upd1 s r t (startView (view s t)))
  /-- an instruction that only changes the running task's private state (a resume included) -/
  | loc (v' : FV) (hu : Upd1 s r t v')
      (hkind : v'.kind = (view s t).kind) (hout : v'.out = (view s t).out)
      (hpend : v'.pending = false)
      (hstart : v'.started = true ∨ ((view s t).pending = false ∧ v'.started = (view s t).started))
      (hnf : nfV v') (hbs : BStep (view s t) v')
      (hsame : v'.started = (view s t).started) (hdeps : v'.deps = [] ∨ v'.deps = (view s t).deps)
  /-- `child.asynq(...)` -/
  | spawn (child k : Body) (pass : List Ref) (hb : (view s t).body = .spawn child pass k)
      (hp : (view s t).pending = false)
      (hu : Upd2 s r t (ownView (view s t) s.futs.length k)
              (taskView child (pass.map (s.task t).resolve)))
      (hbat : r.batches = s.batches) (hnc : bNFr child) (hnk : bNFr k)
  /-- a batch item is created -/
  | item (kind payload : Nat) (mode : ItemMode) (k : Body) (seq : Nat)
      (hb : (view s t).body = .item kind payload mode k) (hp : (view s t).pending = false)
      (hu : Upd2 s r t (ownView (view s t) s.futs.length k)
              (plainView (.item kind seq payload mode) none))
      (hbat : ItemBatches s.batches r.batches kind seq s.futs.length) (hnk : bNFr k)
  /-- a constant, error or lazy future is created -/
  | other (k : Body) (kd : FKind) (out : Option Outcome)
      (hb : (∃ a, (view s t).body = .const a k) ∨ (∃ a, (view s t).body = .errfut a k) ∨
        (∃ a, (view s t).body = .lazy a k))
      (hp : (view s t).pending = false)
      (hu : Upd2 s r t (ownView (view s t) s.futs.length k) (plainView kd out))
      (hbat : r.batches = s.batches) (hnk : bNFr k)
      (hkd : (kd = .const ∧ out.isSome = true) ∨ (kd = .errfut ∧ out.isSome = true) ∨ ((∃ o, kd = .lazy o) ∧ out = none))
  /-- `yield`: the task is suspended -/
  | yield (npy : RY) (nd : List Nat) (leave : Bool)
      (hp : (view s t).pending = false)
      (hu : Upd1 s r t (yieldView (view s t) nd npy leave))
  /-- the task finishes -/
  | finish (o : Outcome) (hp : (view s t).pending = false)
      (hu : Upd1 s r t (finishView (view s t) o))
  /-- `child.asynq(...).value()`: the child is created, a nested `wait_for` starts -/
  | sync (child k h : Body) (pass : List Ref) (hb : (view s t).body = .sync child pass k h)
      (hp : (view s t).pending = false)
      (hu : Upd2 s r t (ownView (view s t) s.futs.length (.syncret s.futs.length k h))
              (taskView child (pass.map (s.task t).resolve)))
      (hbat : r.batches = s.batches) (hnc : bNFr child) (hnk : bNF k) (hnh : bNF h)
  /-- `future.value()`: nothing (computed / a task: a nested `wait_for` starts), a direct flush of the item's batch,
      or the computation of a lazy future -/
  | syncfut (rf : Ref) (k h : Body) (s1 : State) (hb : (view s t).body = .syncfut rf k h)
      (hp : (view s t).pending = false)
      (hu : Upd1 s s1 t (bodyView (.syncret ((s.task t).resolve rf) k h) (view s t)))
      (F : FlushDesc s1 r) (hnk : bNF k) (hnh : bNF h)
      (hT : P2.ItemsOk s1 → ∀ f, (view s1 f).kind = .task → view r f = view s1 f)

theorem flushDesc_refl (s : State) : FlushDesc s s := ⟨rfl, rfl, id, rfl, fun _ => Or.inl rfl, Or.inl rfl⟩

theorem flushDesc_withCtl {s r : State} (F : FlushDesc s r) (c : List Ctl) : FlushDesc s { r with ctl := c } :=
  ⟨F.len, F.tops, F.noNA, F.stack, F.view, F.batches⟩

/-- a direct flush (`item.value()`) -/
theorem flushDesc_flushBatch (s : State) (k q : Nat) (hst : (s.flushBatch k q).stuck = none) :
    FlushDesc s (s.flushBatch k q) := by
  obtain ⟨cc, b, hb, hcomp, hfb⟩ := flushBatch_desc s k q hst
  refine ⟨cc.len, cc.tops, ?_, cc.stack, cc.view, Or.inr ⟨k, q, b, hb, hcomp, hfb⟩⟩
  intro hn x hx
  rw [cc.ctxs] at hx
  exact hn x hx

theorem flushDesc_complete (s : State) (f : Nat) (o : Outcome) (hc : s.computed f = false) :
    FlushDesc s (s.complete f o) := by
  have c := compl_complete s f o hc
  refine ⟨c.len, c.tops, ?_, c.stack, c.view, Or.inl rfl⟩
  intro hn x hx
  rw [c.ctxs] at hx
  exact hn x hx

theorem genStep_gd (s : State) (t : Nat) (old : Option Nat) (hk : (view s t).kind = .task)
    (hnf : nfV (view s t)) (hws : P10.wsTS (s.task t) = true) (hst : (s.genStep t old).stuck = none) :
    GD s (s.genStep t old) t := by
  have ht : t < s.futs.length := lt_of_view_task s t hk
  have wsb : ∀ {X : Body}, (s.task t).body = X → (∀ f k hh, X ≠ .syncret f k hh) →
      P10.wsB X (s.task t).own.length (s.task t).inh.length
        (P10.contQ (s.task t).inh.length (s.task t).conts) = true := by
    intro X hX hns
    have := P10.wsB_of_wsTS (s.task t) hws (by intro f k hh e; rw [hX] at e; exact hns f k hh e)
    rw [hX] at this; exact this
  have U0 : Upd1 s s t (view s t) := Upd1.of_eqv (Eqv.refl s) t
  have hbody : (view s t).body = (s.task t).body := rfl
  have hpend : (view s t).pending = (s.task t).pending := rfl
  revert hst
  unfold State.genStep
  dsimp only
  split
  · rename_i hp
    split
    · -- start
      rename_i hs
      intro _
      have hs' : (view s t).started = false := by
        show (s.task t).started = false
        simpa using hs
      exact .start hp hs' ((U0.updTask ht _ startView (fun _ => rfl)).emit _)
    · rename_i hs
      have hs : (view s t).started = true := by
        show (s.task t).started = true
        simpa using hs
      split
      · rename_i y k h v hb _
        intro _
        have hb' : (view s t).body = .yld y k h := hb
        have hn : bNF (.yld y k h) := nf_body hnf hb'
        have hw := wsb hb (by intro _ _ _ e; cases e)
        simp only [P10.wsB, Bool.and_eq_true] at hw
        exact .loc _ ((U0.updTask ht _ (resumeView s.cfg.keepDeps k) (fun _ => rfl)).emit _)
          rfl rfl rfl (Or.inl hs) ⟨bNFr_of_wsB (bNF_yld hn).1 hw.1.2, hnf.2⟩
          (.yld y k h hb' (Or.inl rfl) rfl) rfl (by unfold resumeView; cases s.cfg.keepDeps <;> simp)
      · rename_i y k h e hb _
        intro _
        have hb' : (view s t).body = .yld y k h := hb
        have hn : bNF (.yld y k h) := nf_body hnf hb'
        have hw := wsb hb (by intro _ _ _ e; cases e)
        simp only [P10.wsB, Bool.and_eq_true] at hw
        exact .loc _ ((U0.updTask ht _ (resumeView s.cfg.keepDeps h) (fun _ => rfl)).emit _)
          rfl rfl rfl (Or.inl hs) ⟨bNFr_of_wsB (bNF_yld hn).2 hw.2, hnf.2⟩
          (.yld y k h hb' (Or.inr rfl) rfl) rfl (by unfold resumeView; cases s.cfg.keepDeps <;> simp)
      · rename_i k h v hb _
        intro _
        have hb' : (view s t).body = .reyld k h := hb
        have hn : bNF (.reyld k h) := nf_body hnf hb'
        have hw := wsb hb (by intro _ _ _ e; cases e)
        simp only [P10.wsB, Bool.and_eq_true] at hw
        exact .loc _ ((U0.updTask ht _ (resumeView s.cfg.keepDeps k) (fun _ => rfl)).emit _)
          rfl rfl rfl (Or.inl hs) ⟨bNFr_of_wsB (bNF_reyld hn).1 hw.1, hnf.2⟩
          (.reyld k h hb' (Or.inl rfl) rfl) rfl (by unfold resumeView; cases s.cfg.keepDeps <;> simp)
      · rename_i k h e hb _
        intro _
        have hb' : (view s t).body = .reyld k h := hb
        have hn : bNF (.reyld k h) := nf_body hnf hb'
        have hw := wsb hb (by intro _ _ _ e; cases e)
        simp only [P10.wsB, Bool.and_eq_true] at hw
        exact .loc _ ((U0.updTask ht _ (resumeView s.cfg.keepDeps h) (fun _ => rfl)).emit _)
          rfl rfl rfl (Or.inl hs) ⟨bNFr_of_wsB (bNF_reyld hn).2 hw.2, hnf.2⟩
          (.reyld k h hb' (Or.inr rfl) rfl) rfl (by unfold resumeView; cases s.cfg.keepDeps <;> simp)
      · intro h; simp at h
  · rename_i hp
    have hp : (view s t).pending = false := by
      show (s.task t).pending = false
      simpa using hp
    have fin : ∀ o, (s.finishTask t old o).stuck = none → GD s (s.finishTask t old o) t := fun o h =>
      .finish o hp (finishTask_desc s t old o ht h).1
    split
    · exact fin _
    · exact fin _
    · exact fin _
    · exact fin _
    · -- spawn
      rename_i child pass k hb
      intro _
      have hb' : (view s t).body = .spawn child pass k := hb
      have hsub := bNF_spawn (nf_body hnf hb')
      have hw := wsb hb (by intro _ _ _ e; cases e)
      simp only [P10.wsB, Bool.and_eq_true] at hw
      refine .spawn child k pass hb' hp ?_ rfl (bNFr_of_wsB hsub.1 hw.1.2) (bNFr_of_wsB hsub.2 hw.2)
      unfold State.newTask
      exact (Upd2.alloc (EqvNB.refl s) t ht _ _).updTask ht _ (fun v => ownView v s.futs.length k) (fun _ => rfl)
    · -- item
      rename_i kind payload mode k hb
      have hb' : (view s t).body = .item kind payload mode k := hb
      have hsub0 := bNF_item (nf_body hnf hb')
      have hw := wsb hb (by intro _ _ _ e; cases e)
      simp only [P10.wsB] at hw
      have hsub := bNFr_of_wsB hsub0 hw
      split
      · intro h; simp at h
      · rename_i b hcur
        intro _
        have key : ∀ s1 : State, EqvNB s s1 → s1.futs.length = s.futs.length →
            (s1.batches = s.batches ∨ (curBatchL s.batches kind = none ∧
              s1.batches = s.batches ++ [({ kind := kind, seq := 0 } : Batch)])) →
            s1.curBatch? kind = some b →
            GD s (((s1.alloc (itemFut s1.cfg kind b.seq payload mode)
                (.item kind b.seq b.items.length payload mode)).1.updBatch kind b.seq
                  (addItemB s1.futs.length)).updTask t (ownTs s1.futs.length k)) t := by
          intro s1 e hl hbat hcur'
          refine .item kind payload mode k b.seq hb' hp ?_ ⟨s1.batches, b, ?_, hcur', rfl, ?_⟩ hsub
          · have U := (Upd2.alloc e t ht (itemFut s1.cfg kind b.seq payload mode)
                (.item kind b.seq b.items.length payload mode)).eqvNB
              (r' := ((s1.alloc (itemFut s1.cfg kind b.seq payload mode)
                (.item kind b.seq b.items.length payload mode)).1.updBatch kind b.seq (addItemB s1.futs.length)))
              ⟨rfl, fun _ => rfl, rfl, rfl, id⟩
            have U' := U.updTask ht (ownTs s1.futs.length k) (fun v => ownView v s1.futs.length k) (fun _ => rfl)
            rw [← hl]
            exact U'
          · rcases hbat with h | ⟨h1, h2⟩
            · exact Or.inl h
            · exact Or.inr ⟨h1, h2⟩
          · rw [← hl]; rfl
        cases hcb : s.curBatch? kind with
        | some b0 =>
          simp only [hcb] at hcur ⊢
          exact key s (EqvNB.refl s) rfl (Or.inl rfl) (hcb.trans hcur)
        | none =>
          simp only [hcb] at hcur ⊢
          exact key _ ⟨rfl, fun _ => rfl, rfl, rfl, id⟩ rfl (Or.inr ⟨hcb, rfl⟩) hcur
    · -- const
      rename_i v k hb
      intro _
      have hb' : (view s t).body = .const v k := hb
      refine .other k .const (some (.ok (.a v))) (Or.inl ⟨v, hb'⟩) hp ?_ rfl
        (bNFr_of_wsB (bNF_const (nf_body hnf hb')) (by have hw := wsb hb (by intro _ _ _ e; cases e); simpa only [P10.wsB] using hw))
        (Or.inl ⟨rfl, rfl⟩)
      exact (Upd2.alloc (EqvNB.refl s) t ht _ _).updTask ht _ (fun v => ownView v s.futs.length k) (fun _ => rfl)
    · -- errfut
      rename_i e k hb
      intro _
      have hb' : (view s t).body = .errfut e k := hb
      refine .other k .errfut (some (.err (.u e))) (Or.inr (Or.inl ⟨e, hb'⟩)) hp ?_ rfl
        (bNFr_of_wsB (bNF_errfut (nf_body hnf hb')) (by have hw := wsb hb (by intro _ _ _ e; cases e); simpa only [P10.wsB] using hw))
        (Or.inr (Or.inl ⟨rfl, rfl⟩))
      exact (Upd2.alloc (EqvNB.refl s) t ht _ _).updTask ht _ (fun v => ownView v s.futs.length k) (fun _ => rfl)
    · -- lazy
      rename_i lo k hb
      intro _
      have hb' : (view s t).body = .lazy lo k := hb
      refine .other k (.lazy lo) none (Or.inr (Or.inr ⟨lo, hb'⟩)) hp ?_ rfl
        (bNFr_of_wsB (bNF_lazy (nf_body hnf hb')) (by have hw := wsb hb (by intro _ _ _ e; cases e); simpa only [P10.wsB] using hw))
        (Or.inr (Or.inr ⟨⟨lo, rfl⟩, rfl⟩))
      exact (Upd2.alloc (EqvNB.refl s) t ht _ _).updTask ht _ (fun v => ownView v s.futs.length k) (fun _ => rfl)
    · -- yld
      rename_i y k h hb
      generalize hnd : (if s.cfg.keepDeps = true then (s.task t).deps else []) ++
        extractFutures (YS.mapLeaves (s.task t).resolve y) = nd
      have U := (U0.emit (.yield t (s.task t).resumes (y.mapLeaves (s.task t).resolve))).updTask ht
        (fun ts => { ts with pending := true, lastY := y.mapLeaves (s.task t).resolve,
                             prevY := y.mapLeaves (s.task t).resolve, prevYRef := y, deps := nd })
        (yieldG nd (y.mapLeaves (s.task t).resolve)) (fun _ => rfl)
      split
      · intro _
        exact .yield (y.mapLeaves (s.task t).resolve) nd false hp U
      · intro _
        exact .yield (y.mapLeaves (s.task t).resolve) nd true hp (U.leaveGen ht old)
    · -- reyld
      rename_i k h hb
      generalize hnd : (if s.cfg.keepDeps = true then (s.task t).deps else []) ++
        extractFutures (s.task t).prevY = nd
      have U := (U0.emit (.yield t (s.task t).resumes (s.task t).prevY)).updTask ht
        (fun ts => { ts with pending := true, lastY := (s.task t).prevY, deps := nd })
        (yieldG' nd) (fun _ => rfl)
      split
      · intro _
        exact .yield (view s t).prevY nd false hp U
      · intro _
        exact .yield (view s t).prevY nd true hp (U.leaveGen ht old)
    · -- sync
      rename_i c p k h hb
      intro _
      have hb' : (view s t).body = .sync c p k h := hb
      have hsub := bNF_sync (nf_body hnf hb')
      have hw := wsb hb (by intro _ _ _ e; cases e)
      simp only [P10.wsB, Bool.and_eq_true] at hw
      refine .sync c k h p hb' hp ?_ rfl (bNFr_of_wsB hsub.1 hw.1.1.2) hsub.2.1 hsub.2.2
      unfold State.newTask
      have U := (Upd2.alloc (EqvNB.refl s) t ht
        ({ kind := .task, ts := { body := c, inh := p.map (s.task t).resolve, creator := s.active },
           den := (evalBody s.cfg c [] [] ((p.map (s.task t).resolve).map fun i => (s.fut i).den) none .none).outcome } : Fut)
        (.task s.active)).updTask ht
        (fun ts => { ts with own := ts.own ++ [s.futs.length], body := .syncret s.futs.length k h })
        (fun v => ownView v s.futs.length (.syncret s.futs.length k h)) (fun _ => rfl)
      exact U.eqvNB ⟨rfl, fun _ => rfl, rfl, rfl, id⟩
    · -- syncfut
      rename_i rf k h hb
      have hb' : (view s t).body = .syncfut rf k h := hb
      have hsub := bNF_syncfut (nf_body hnf hb')
      have U := (U0.updTask ht (fun ts => { ts with body := .syncret ((s.task t).resolve rf) k h })
        (bodyView (.syncret ((s.task t).resolve rf) k h)) (fun _ => rfl)).emit
        (.syncE t ((s.task t).resolve rf))
      split
      · intro _
        exact .syncfut rf k h _ hb' hp U (flushDesc_refl _) hsub.1 hsub.2 (fun _ _ _ => rfl)
      · rename_i hcf
        split
        · intro _
          exact .syncfut rf k h _ hb' hp U (flushDesc_withCtl (flushDesc_refl _) _) hsub.1 hsub.2 (fun _ _ _ => rfl)
        · rename_i kind seq _ _ hkf
          split
          · rename_i b hb0
            split
            · intro _
              exact .syncfut rf k h _ hb' hp U (flushDesc_refl _) hsub.1 hsub.2 (fun _ _ _ => rfl)
            · intro hst
              refine .syncfut rf k h _ hb' hp U (flushDesc_flushBatch _ _ _ hst) hsub.1 hsub.2 ?_
              intro hi f hkt
              refine (flushBatch_only _ kind seq b hb0).1 f ?_
              intro hmem
              have := hi b (List.mem_of_find?_eq_some hb0) f hmem
              have hkt' : (State.fut _ f).kind = .task := hkt
              rw [hkt'] at this
              cases this
          · intro _
            exact .syncfut rf k h _ hb' hp U (flushDesc_refl _) hsub.1 hsub.2 (fun _ _ _ => rfl)
        · rename_i o hkf
          intro _
          refine .syncfut rf k h _ hb' hp U (flushDesc_complete _ _ _ (by simpa using hcf)) hsub.1 hsub.2 ?_
          intro _ f hkt
          refine view_complete_ne _ _ _ _ ?_
          intro e
          have hkt' : (State.fut _ f).kind = .task := hkt
          rw [e, hkf] at hkt'
          cases hkt'
        · intro _
          exact .syncfut rf k h _ hb' hp U (flushDesc_refl _) hsub.1 hsub.2 (fun _ _ _ => rfl)
    · -- syncret
      rename_i f k h hb
      have hb' : (view s t).body = .syncret f k h := hb
      have hsub0 : bNF k ∧ bNF h := nf_body hnf hb'
      have hw := wsTS_syncret hws hb
      have hsub : bNFr k ∧ bNFr h := ⟨bNFr_of_wsB hsub0.1 hw.1, bNFr_of_wsB hsub0.2 hw.2⟩
      have e0 : EqvK s { s with raising := none } := ⟨rfl, fun _ => rfl, rfl, rfl, rfl, rfl, rfl, id⟩
      split
      · intro h; simp at h
      · rename_i v _
        intro _
        exact .loc _ (((Upd1.of_eqvK e0 t).updTask ht (fun ts => { ts with env := ts.env ++ [v], body := k })
          (bodyView k) (fun _ => rfl)).emit _) rfl rfl hp (Or.inr ⟨hp, rfl⟩) ⟨hsub.1, hnf.2⟩
          (.syncret f k h hb' (Or.inl rfl) rfl) rfl (Or.inr rfl)
      · rename_i e _
        intro _
        exact .loc _ (((Upd1.of_eqvK e0 t).updTask ht (fun ts => { ts with caught := some e, body := h })
          (bodyView h) (fun _ => rfl)).emit _) rfl rfl hp (Or.inr ⟨hp, rfl⟩) ⟨hsub.2, hnf.2⟩
          (.syncret f k h hb' (Or.inr rfl) rfl) rfl (Or.inr rfl)
    · -- withCtx
      rename_i c b k hb
      intro _
      have hb' : (view s t).body = .withCtx c b k := hb
      have hsub := bNF_withCtx (nf_body hnf hb')
      have hw := wsb hb (by intro _ _ _ e; cases e)
      simp only [P10.wsB] at hw
      have e := eqvK_withCtx s t c hsub.1
      refine .loc _ ((Upd1.of_eqvK e t).updTask ht _ (pushView (s.ctxs.length, k) b)
        (fun _ => rfl)) rfl rfl hp (Or.inr ⟨hp, rfl⟩) ⟨bNFr_of_wsB hsub.2.1 hw, ?_⟩
        (.withCtx c b k s.ctxs.length hb' rfl rfl) rfl (Or.inr rfl)
      intro p hp'
      rcases List.mem_cons.1 hp' with h | h
      · rw [h]; exact hsub.2.2
      · exact hnf.2 p h
    · -- endwith
      rename_i hbw
      have hbw' : (view s t).body = .endwith := hbw
      split
      · exact fin _
      · rename_i cid k rest hc
        intro _
        have hc' : (view s t).conts = (cid, k) :: rest := hc
        have e := eqv_ctxExit s cid
        refine .loc _ ((Upd1.of_eqv e t).updTask ht _ (contView rest k) (fun _ => rfl))
          rfl rfl hp (Or.inr ⟨hp, rfl⟩) ⟨?_, ?_⟩ (.endwith cid k rest hbw' hc' rfl rfl) rfl (Or.inr rfl)
        · have hw := wsb hbw (by intro _ _ _ e; cases e)
          rw [hc] at hw
          simp only [P10.wsB, P10.contQ] at hw
          exact bNFr_of_wsB (hnf.2 (cid, k) (by rw [hc']; exact List.mem_cons_self)) hw
        · intro p hp'
          exact hnf.2 p (by rw [hc']; exact List.mem_cons_of_mem _ hp')
    · -- read
      rename_i var k hb
      intro _
      have hb' : (view s t).body = .read var k := hb
      have e := (eqv_svTouch s var).trans (eqv_emit _ (.read t var (.a ((s.svTouch var).svGet var))))
      exact .loc _ ((Upd1.of_eqv e t).updTask ht _ (bodyView k) (fun _ => rfl))
        rfl rfl hp (Or.inr ⟨hp, rfl⟩) ⟨bNFr_of_wsB (b := k) (bNF_read (nf_body hnf hb')) (by have hw := wsb hb (by intro _ _ _ e; cases e); simp only [P10.wsB] at hw; exact hw), hnf.2⟩
        (.read var k hb' rfl rfl) rfl (Or.inr rfl)
    · -- active
      rename_i k hb
      intro _
      have hb' : (view s t).body = .active k := hb
      exact .loc _ ((U0.emit (.active t s.active)).updTask ht _ (bodyView k) (fun _ => rfl))
        rfl rfl hp (Or.inr ⟨hp, rfl⟩) ⟨bNFr_of_wsB (b := k) (bNF_active (nf_body hnf hb')) (by have hw := wsb hb (by intro _ _ _ e; cases e); simp only [P10.wsB] at hw; exact hw), hnf.2⟩
        (.active k hb' rfl rfl) rfl (Or.inr rfl)

end AsynqModel.Core.P20
