import AsynqModel.Proofs.P19Inv
import AsynqModel.Proofs.P4YS
/-
  P19, part 7: `VInv` is preserved by every step of a tree-shaped yield-only run.
-/
namespace AsynqModel.Core.P19
open AsynqModel.Core AsynqModel.Core.P6

theorem mild_same {s r : State} (e : Same s r) : ∀ f, MildAt s r f := fun f => Or.inl (e.view f)

theorem mild_flag {s r : State} {t : Nat} {b : Bool} (U : Upd1S s r t (flagView b (view s t))) : ∀ f, MildAt s r f := by
  intro f
  by_cases hf : f = t
  · subst hf; exact Or.inr (Or.inl ⟨b, U.viewT⟩)
  · exact Or.inl (U.viewO f hf)

theorem mild_done {s r : State} {t : Nat} {o : Outcome} (U : Upd1S s r t (doneView o (view s t)))
    (hc : s.computed t = false) : ∀ f, MildAt s r f := by
  intro f
  by_cases hf : f = t
  · subst hf; exact Or.inr (Or.inr ⟨out_none_of_uncomputed hc, o, U.viewT⟩)
  · exact Or.inl (U.viewO f hf)

theorem mild_flush {s r : State} (F : FlushDesc s r) : ∀ f, MildAt s r f := by
  intro f
  rcases F.view f with e | ⟨hn, o, e⟩
  · exact Or.inl e
  · exact Or.inr (Or.inr ⟨hn, o, e⟩)

/-- the leaves a task may yield are its own futures -/
theorem leaves_own {k0 : Nat} {s : State} (hS : SInv k0 s) (t : Nat) (y : Y)
    (hsc : ∀ r ∈ y.leaves, refOK (view s t) r) :
    ∀ d ∈ (y.mapLeaves (s.task t).resolve).leaves, d ∈ (view s t).own := by
  intro d hd
  rw [P4.leaves_mapLeaves] at hd
  obtain ⟨r, hr, rfl⟩ := List.mem_map.1 hd
  rcases resolve_mem s t r (hsc r hr) with h | h
  · exact h
  · rw [hS.inh t] at h; cases h

theorem vinv_step {k0 : Nat} {s r : State} (h : VInv s) (hA : InvA s) (hS : SInv k0 s) (hsc : StepScoped s)
    (d : Desc s r) : VInv r := by
  cases d with
  | quiet e _ _ => exact h.mild e.len (mild_same e)
  | top conv body rest htops _ U htops' _ =>
    refine h.rel (by rw [U.len]; omega) (fun f => ?_) (fun d hd => ?_)
    · by_cases hf : f = s.futs.length
      · subst hf
        exact vrel_new (Nat.le_refl _) (by rw [U.viewN]; exact ⟨rfl, rfl, rfl, rfl, rfl⟩)
      · exact (show MildAt s r f from Or.inl (U.viewO f hf)).vrel
    · have hne : d ≠ s.futs.length := Nat.ne_of_lt (computed_lt hd)
      rw [computed_of_view (U.viewO d hne)]; exact hd
  | ret _ _ _ e _ _ => exact h.mild e.len (mild_same e)
  | enterLoop _ _ _ _ e _ _ => exact h.mild e.len (mild_same e)
  | pop _ _ _ _ _ e _ _ => exact h.mild e.len (mild_same e)
  | popLazy _ top st _ lo _ hc U _ _ => exact h.mild U.len (mild_done U hc)
  | second _ top st _ _ _ _ _ U _ _ => exact h.mild U.len (mild_flag U)
  | first _ top st _ _ _ _ _ U _ _ => exact h.mild U.len (mild_flag U)
  | enterGen _ _ _ _ _ _ _ e _ _ _ => exact h.mild e.len (mild_same e)
  | flush _ _ _ _ _ _ F _ => exact h.mild F.len (mild_flush F)
  | gen t old rest hctl0 d =>
    obtain ⟨hkT, hoT, hdepsT⟩ := hA.gen t old rest hctl0
    have ht : t < s.futs.length := lt_of_view_task s t hkT
    have hcm : ∀ x, s.computed x = true → r.computed x = true := fun x hx => d.computed_mono hx
    cases d with
    | loc v' hu _ hkind hout _ hown _ hprev hpend hstart hdeps _ hbs =>
      have hvT : view r t = v' := hu.viewT
      refine h.step_of t s.futs.length rfl (Nat.le_of_eq hu.len.symm)
        (fun f hf => (show MildAt s r f from Or.inl (hu.viewO f hf)).vrel) (Or.inl (by rw [hvT, hown])) ?_ ?_ ?_ ?_ ?_ ?_ ?_ hcm
      · intro x hx
        rw [hvT] at hx ⊢
        rw [hown]
        rcases hdeps with e | e
        · rw [e] at hx; cases hx
        · rw [e] at hx; exact h.depsOwn t x hx
      · intro _ hp; rw [hvT, hpend] at hp; cases hp
      · intro _ _ x hx
        rw [hvT, hprev] at hx
        refine hcm x ?_
        cases hps : (view s t).pending with
        | false =>
          have hst : (view s t).started = true := hA.sOfR t hps
          exact h.dD2 t ⟨hkT, hoT, hst⟩ (Or.inl hps) x hx
        | true =>
          cases hst : (view s t).started with
          | false => rw [(h.fresh t hst).2.2.1] at hx; simp [YS.leaves] at hx
          | true => exact hdepsT x (h.lv t ⟨hkT, hoT, hst⟩ hps x hx)
      · intro _ hp; rw [hvT, hpend] at hp; cases hp
      · intro hs
        rw [hvT] at hs
        rcases hstart with e | ⟨e1, e2⟩
        · rw [e] at hs; cases hs
        · rw [e2, hA.sOfR t e1] at hs; cases hs
      · intro _ hp; rw [hvT, hpend] at hp; cases hp
      · intro x hx
        rw [hvT, hprev] at hx
        rw [hvT, hown]
        exact h.pl t x hx
    | spawn child k pass hb hp hu _ _ _ _ =>
      have hvT : view r t = ownView (view s t) s.futs.length k := hu.viewT
      have hst : (view s t).started = true := hA.sOfR t hp
      refine h.step_of t s.futs.length rfl (by rw [hu.len]; omega) (fun f hf => ?_)
        (Or.inr ⟨by rw [hvT]; rfl, by rw [hu.len]; omega⟩) ?_ ?_ ?_ ?_ ?_ ?_ ?_ hcm
      · by_cases hfn : f = s.futs.length
        · subst hfn
          exact vrel_new (Nat.le_refl _) (by rw [hu.viewN]; exact ⟨rfl, rfl, rfl, rfl, rfl⟩)
        · exact (show MildAt s r f from Or.inl (hu.viewO f hf hfn)).vrel
      · intro x hx; rw [hvT] at hx ⊢
        exact List.mem_append_left _ (h.depsOwn t x hx)
      · intro _ hp'; rw [hvT] at hp'; exact absurd (hp.symm.trans hp') (by simp)
      · intro _ _ x hx
        rw [hvT] at hx
        exact hcm x (h.dD2 t ⟨hkT, hoT, hst⟩ (Or.inl hp) x hx)
      · intro _ hp'; rw [hvT] at hp'; exact absurd (hp.symm.trans hp') (by simp)
      · intro hs; rw [hvT] at hs; exact absurd (hst.symm.trans hs) (by simp)
      · intro _ hp'; rw [hvT] at hp'; exact absurd (hp.symm.trans hp') (by simp)
      · intro x hx; rw [hvT] at hx ⊢
        exact List.mem_append_left _ (h.pl t x hx)
    | item kind payload mode k seq hb hp hu _ _ _ =>
      have hvT : view r t = ownView (view s t) s.futs.length k := hu.viewT
      have hst : (view s t).started = true := hA.sOfR t hp
      refine h.step_of t s.futs.length rfl (by rw [hu.len]; omega) (fun f hf => ?_)
        (Or.inr ⟨by rw [hvT]; rfl, by rw [hu.len]; omega⟩) ?_ ?_ ?_ ?_ ?_ ?_ ?_ hcm
      · by_cases hfn : f = s.futs.length
        · subst hfn
          exact vrel_new (Nat.le_refl _) (by rw [hu.viewN]; exact ⟨rfl, rfl, rfl, rfl, rfl⟩)
        · exact (show MildAt s r f from Or.inl (hu.viewO f hf hfn)).vrel
      · intro x hx; rw [hvT] at hx ⊢
        exact List.mem_append_left _ (h.depsOwn t x hx)
      · intro _ hp'; rw [hvT] at hp'; exact absurd (hp.symm.trans hp') (by simp)
      · intro _ _ x hx
        rw [hvT] at hx
        exact hcm x (h.dD2 t ⟨hkT, hoT, hst⟩ (Or.inl hp) x hx)
      · intro _ hp'; rw [hvT] at hp'; exact absurd (hp.symm.trans hp') (by simp)
      · intro hs; rw [hvT] at hs; exact absurd (hst.symm.trans hs) (by simp)
      · intro _ hp'; rw [hvT] at hp'; exact absurd (hp.symm.trans hp') (by simp)
      · intro x hx; rw [hvT] at hx ⊢
        exact List.mem_append_left _ (h.pl t x hx)
    | other k kd out hb hp hu _ _ _ _ =>
      have hvT : view r t = ownView (view s t) s.futs.length k := hu.viewT
      have hst : (view s t).started = true := hA.sOfR t hp
      refine h.step_of t s.futs.length rfl (by rw [hu.len]; omega) (fun f hf => ?_)
        (Or.inr ⟨by rw [hvT]; rfl, by rw [hu.len]; omega⟩) ?_ ?_ ?_ ?_ ?_ ?_ ?_ hcm
      · by_cases hfn : f = s.futs.length
        · subst hfn
          exact vrel_new (Nat.le_refl _) (by rw [hu.viewN]; exact ⟨rfl, rfl, rfl, rfl, rfl⟩)
        · exact (show MildAt s r f from Or.inl (hu.viewO f hf hfn)).vrel
      · intro x hx; rw [hvT] at hx ⊢
        exact List.mem_append_left _ (h.depsOwn t x hx)
      · intro _ hp'; rw [hvT] at hp'; exact absurd (hp.symm.trans hp') (by simp)
      · intro _ _ x hx
        rw [hvT] at hx
        exact hcm x (h.dD2 t ⟨hkT, hoT, hst⟩ (Or.inl hp) x hx)
      · intro _ hp'; rw [hvT] at hp'; exact absurd (hp.symm.trans hp') (by simp)
      · intro hs; rw [hvT] at hs; exact absurd (hst.symm.trans hs) (by simp)
      · intro _ hp'; rw [hvT] at hp'; exact absurd (hp.symm.trans hp') (by simp)
      · intro x hx; rw [hvT] at hx ⊢
        exact List.mem_append_left _ (h.pl t x hx)
    | yield ry npy nd leave hp hsrc hnd hleave hu _ =>
      have hvT : view r t = yieldView (view s t) nd npy leave := hu.viewT
      have hst : (view s t).started = true := hA.sOfR t hp
      have hlive : Live s t := ⟨hkT, hoT, hst⟩
      -- the leaves of what is yielded are own futures; `npy` has the leaves of `ry`
      have hry : (∀ x ∈ ry.leaves, x ∈ (view s t).own) ∧ npy = ry := by
        rcases hsrc with ⟨y, k, hh, hb, e1, e2⟩ | ⟨k, hh, hb, e1, e2⟩
        · refine ⟨?_, e2⟩
          rw [e1]
          exact leaves_own hS t y ((hsc t old rest hctl0 hp).1 y k hh hb)
        · exact ⟨by rw [e1]; exact h.pl t, by rw [e2, e1]⟩
      have hndmem : ∀ x ∈ nd, (x ∈ (view s t).deps) ∨ x ∈ ry.leaves := by
        intro x hx
        rw [hnd] at hx
        rcases List.mem_append.1 hx with h1 | h1
        · left; split at h1
          · exact h1
          · cases h1
        · right; exact (P4.mem_extractFutures ry x).1 h1
      refine h.step_of t s.futs.length rfl (Nat.le_of_eq hu.len.symm)
        (fun f hf => (show MildAt s r f from Or.inl (hu.viewO f hf)).vrel) (Or.inl (by rw [hvT]; rfl)) ?_ ?_ ?_ ?_ ?_ ?_ ?_ hcm
      · intro x hx
        rw [hvT] at hx ⊢
        rcases hndmem x hx with h1 | h1
        · exact h.depsOwn t x h1
        · exact hry.1 x h1
      · intro _ _ x hx
        rw [hvT] at hx ⊢
        rcases hndmem x hx with h1 | h1
        · exact Or.inr (hcm x (hdepsT x h1))
        · left; show x ∈ npy.leaves; rw [hry.2]; exact h1
      · intro _ hc x hx
        rw [hvT] at hx hc
        rcases hc with hc | ⟨k, hh, hc⟩
        · cases hc
        · have hc' : (view s t).body = .reyld k hh := hc
          rcases hsrc with ⟨y, k', hh', hb, _, _⟩ | ⟨k', hh', hb, e1, e2⟩
          · rw [hb] at hc'; cases hc'
          · have hx' : x ∈ npy.leaves := hx
            rw [e2] at hx'
            exact hcm x (h.dD2 t hlive (Or.inl hp) x hx')
      · intro _ _
        rw [hvT]
        rcases hsrc with ⟨y, k, hh, hb, _, _⟩ | ⟨k, hh, hb, _, _⟩
        · exact Or.inl ⟨y, k, hh, hb⟩
        · exact Or.inr ⟨k, hh, hb⟩
      · intro hs; rw [hvT] at hs; exact absurd (hst.symm.trans hs) (by simp)
      · intro _ _ x hx
        rw [hvT] at hx ⊢
        have hx' : x ∈ npy.leaves := hx
        rw [hry.2] at hx'
        show x ∈ nd
        rw [hnd]
        exact List.mem_append_right _ ((P4.mem_extractFutures ry x).2 hx')
      · intro x hx
        rw [hvT] at hx ⊢
        have hx' : x ∈ npy.leaves := hx
        rw [hry.2] at hx'
        exact hry.1 x hx'
    | finish o hp hu _ =>
      have hvT : view r t = finishView (view s t) o := hu.viewT
      have hst : (view s t).started = true := hA.sOfR t hp
      have hnl : ¬ Live r t := by
        intro hl; rw [Live, hvT] at hl; cases hl.2.1
      refine h.step_of t s.futs.length rfl (Nat.le_of_eq hu.len.symm)
        (fun f hf => (show MildAt s r f from Or.inl (hu.viewO f hf)).vrel) (Or.inl (by rw [hvT]; rfl)) ?_ ?_ ?_ ?_ ?_ ?_ ?_ hcm
      · intro x hx; rw [hvT] at hx; cases hx
      · intro hl; exact absurd hl hnl
      · intro hl; exact absurd hl hnl
      · intro hl; exact absurd hl hnl
      · intro hs; rw [hvT] at hs; exact absurd (hst.symm.trans hs) (by simp)
      · intro hl; exact absurd hl hnl
      · intro x hx; rw [hvT] at hx ⊢; exact h.pl t x hx

end AsynqModel.Core.P19
