import AsynqModel.Proofs.P25Term
import AsynqModel.Proofs.P21Final
/-
  P25 (termination without the NonAsync / guard hypotheses), part 8: every run of well-scoped top-level computations
  whose oracle choices are admissible when consumed (`P21.oracleOK`; nothing to assume for the silent oracle) ends, in
  a state that is not stuck, whatever the MAX_TASK_STACK_SIZE guard and the NonAsyncContexts do.
-/
namespace AsynqModel.Core.P25
open AsynqModel.Core AsynqModel.Core.P6 AsynqModel.Core.P6T AsynqModel.Core.P20 AsynqModel.Core.P21

theorem good'_of {n0 : Nat} {s : State} (ri : RunInv n0 s) : Good' s := ⟨ri.ws, ri.stuck, ri.si.b⟩

/-- the run is over and NOT stuck: nothing on the Python stack, no top-level computation running or left to run, exactly
    `n0` events `ret` in the trace (every one of the `n0` top-level calls has returned a value or raised).
    (`P21.FinishedOK` without its last clause "every started task is computed", which is false when a task is failed
    inside a NonAsyncContext or the guard fires.) -/
def Finished (n0 : Nat) (r : State) : Prop :=
  r.stuck = none ∧ r.ctl = [] ∧ r.curTop = none ∧ r.tops = [] ∧
  (r.trace.filter isRet).length = n0

theorem finished_of {n0 : Nat} {r : State} (ri : RunInv n0 r) (hd : r.isDone = true) : Finished n0 r := by
  have hs := ri.stuck
  simp only [State.isDone, hs, Option.isSome_none, Bool.false_or, Bool.and_eq_true, List.isEmpty_iff,
    Option.isNone_iff_eq_none] at hd
  obtain ⟨⟨hctl, hcur⟩, htops⟩ := hd
  refine ⟨hs, hctl, hcur, htops, ?_⟩
  have hp := ri.pend
  unfold pend at hp
  rw [hcur, htops] at hp
  simp at hp
  exact hp

theorem FinishedOK.finished {n0 : Nat} {r : State} (h : FinishedOK n0 r) : Finished n0 r :=
  ⟨h.1, h.2.1, h.2.2.1, h.2.2.2.1, by have := h.2.2.2.2.1; rw [isRet_eq] at this; exact this⟩

theorem terminates_aux' {n0 : Nat} : ∀ (m : T8) (s : State) (p : Nat → List Nat), RunInv n0 s → P10.PathOK s p →
    (∀ n, oracleOK (runFuel n s) = true) → mu' s p = m →
    ∃ n, (runFuel n s).isDone = true ∧ RunInv n0 (runFuel n s) := by
  intro m
  induction m using lt8_wf.induction with
  | _ m ih =>
    intro s p ri hp hor hm
    cases hd : s.isDone with
    | true => exact ⟨0, hd, ri⟩
    | false =>
      have hok : oracleOK s = true := hor 0
      have ri' := runInv_step ri hok
      obtain ⟨p', hp', hlt⟩ := mu'_step (good'_of ri) hp hd ri'.stuck
      rw [hm] at hlt
      obtain ⟨n, hn, hri⟩ := ih _ hlt (step s) p' ri' hp'
        (fun n => by have := hor (n + 1); rw [runFuel_succ_of_not_done n s hd] at this; exact this) rfl
      exact ⟨n + 1, by rw [runFuel_succ_of_not_done n s hd]; exact hn,
        by rw [runFuel_succ_of_not_done n s hd]; exact hri⟩

/-- TERMINATION for every well-scoped program: NonAsyncContexts, synchronous calls and the MAX_TASK_STACK_SIZE guard
    included -/
theorem terminates' (cfg : Cfg) (tops : List (Conv × Body)) (choices : List (Nat × Nat))
    (hws : ∀ p, p ∈ tops → P10.WellScoped p.2 0 0 = true)
    (hor : ∀ n, oracleOK (runFuel n (initState cfg tops choices)) = true) :
    ∃ n, Finished tops.length (runFuel n (initState cfg tops choices)) := by
  obtain ⟨n, hd, ri⟩ := terminates_aux' (n0 := tops.length) _ _ _ (runInv_init cfg tops choices hws)
    (pathOK_init cfg tops choices) hor rfl
  exact ⟨n, finished_of ri hd⟩

/-- the oracle condition holds all along a run with the silent oracle -/
theorem oracleOK_silent (cfg : Cfg) (tops : List (Conv × Body))
    (hws : ∀ p, p ∈ tops → P10.WellScoped p.2 0 0 = true) (n : Nat) :
    oracleOK (runFuel n (initState cfg tops [])) = true :=
  oracleOK_of_nil (choices_nil_runFuel (runInv_init cfg tops [] hws) rfl n).2

end AsynqModel.Core.P25
