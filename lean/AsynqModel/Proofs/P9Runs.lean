import AsynqModel.Proofs.P9Main
import AsynqModel.Proofs.P9Max
/-
  P9 (property C20), part 15: run-level corollaries.
-/
namespace AsynqModel.Core.P9
open AsynqModel.Core

theorem guard_run_mono (s : State) (n k : Nat) (hk : k ≤ n) (hg : (runFuel n s).guardFired = false) :
    (runFuel k s).guardFired = false := by
  induction n with
  | zero =>
    have : k = 0 := by omega
    subst this; exact hg
  | succ n ih =>
    by_cases h : k = n + 1
    · subst h; exact hg
    · rw [runFuel_step] at hg
      exact ih (by omega) (P3.guard_mono _ hg)

theorem cfg_run (s : State) (n : Nat) : (runFuel n s).cfg = s.cfg := by
  induction n with
  | zero => rfl
  | succ n ih => rw [runFuel_step, cfg_step, ih]

theorem isDone_step (s : State) (h : s.isDone = true) : (step s).isDone = true := by
  rw [step_done s h]; exact h

/-- a finished run does not move any more -/
theorem runFuel_stable (s : State) (n k : Nat) (h : (runFuel n s).isDone = true) : runFuel (n + k) s = runFuel n s := by
  induction k with
  | zero => rfl
  | succ k ih => rw [← Nat.add_assoc, runFuel_step, ih, step_done _ h]

/-- raising MAX_TASK_STACK_SIZE changes nothing in a run in which the guard does not fire -/
theorem maxstack_run (cfg : Cfg) (tops : List (Conv × Body)) (choices : List (Nat × Nat)) (M n : Nat)
    (hM : cfg.maxStack ≤ M) (hg : (runFuel n (initState cfg tops choices)).guardFired = false) :
    runFuel n (initState { cfg with maxStack := M } tops choices) = setM M (runFuel n (initState cfg tops choices)) := by
  induction n with
  | zero => rfl
  | succ n ih =>
    rw [runFuel_step] at hg
    rw [runFuel_step, runFuel_step, ih (P3.guard_mono _ hg), M_step M _ hg (by rw [cfg_run]; exact hM)]

end AsynqModel.Core.P9
