import AsynqModel.Proofs.CtxRel
/-! one operation of the model is accepted by the observer and keeps the relation: suspend / continue / finish
    (helper lemmas for Theorems/C06c.lean) -/
namespace AsynqModel.Contexts

def obsOf (op : Op) (r : St × List Call × Esc) : Obs := ⟨op, r.2.1, r.2.2, r.1.vals, r.1.status⟩

theorem step_eq (cfg : Cfg) (defs : List Kind) (s : St) (op : Op) :
    step cfg defs s op = ((stepCore cfg defs s op).1, obsOf op (stepCore cfg defs s op)) := rfl

/-- the observer accepts the observation and (unless it stopped making claims) is related to the new state -/
def Good (defs : List Kind) (nvars : Nat) (w : W) (s' : St) (ob : Obs) : Prop :=
  ∃ w', watchStep defs nvars w ob = .ok w' ∧ (w'.stopped = true ∨ Rel defs nvars s' w')

theorem skip_sim (defs : List Kind) (nvars : Nat) (s : St) (w : W) (h : Rel defs nvars s w) (op : Op) :
    watchSkip defs nvars w (obsOf op (s, [], .skip)) = .ok w := by
  unfold watchSkip obsOf
  simp only [beq_self_eq_true, List.isEmpty_nil, Bool.and_self, if_true]
  exact common_ok defs nvars s w h op [] .skip

theorem finish_sim (cfg : Cfg) (defs : List Kind) (nvars : Nat) (s : St) (w : W) (h : Rel defs nvars s w) (ok : Bool) :
    Good defs nvars w (stepCore cfg defs s (.finish ok)).1 (obsOf (.finish ok) (stepCore cfg defs s (.finish ok))) := by
  by_cases hp : w.phase = .running
  · have hsp : s.phase = .running := h.phase.trans hp
    have e : stepCore cfg defs s (.finish ok) =
        ({ s with status := if ok then .ok else .err .taskError, phase := .done }, [], .none) := by
      simp [stepCore, hsp]
    rw [e]
    let w' : W := { w with status := if ok then .ok else .err .taskError, phase := .done }
    have hrel : Rel defs nvars { s with status := if ok then .ok else .err .taskError, phase := .done } w' :=
      { core := CoreA_of_eq defs nvars s _ w w' h.core rfl rfl rfl rfl rfl rfl, phase := rfl, active := h.active,
        status := rfl, runAct := fun hx => by simp [w'] at hx, susAct := fun hx => by simp [w'] at hx,
        statNone := fun hx => by simp [w'] at hx, stkOpen := h.stkOpen, stkAct := h.stkAct, live := h.live }
    refine ⟨w', ?_, Or.inr hrel⟩
    unfold watchStep
    simp only [h.live, Bool.false_eq_true, if_false, obsOf, hp, bne_self_eq_false]
    unfold watchFinish
    simp only [bne_self_eq_false, List.isEmpty_nil, Bool.not_true, Bool.or_self, Bool.false_eq_true, if_false]
    exact common_ok defs nvars _ w' hrel (.finish ok) [] .none
  · have hsp : s.phase ≠ .running := fun e => hp (h.phase.symm.trans e)
    have e : stepCore cfg defs s (.finish ok) = (s, [], .skip) := by simp [stepCore, hsp]
    rw [e]
    refine ⟨w, ?_, Or.inr h⟩
    unfold watchStep
    simp only [h.live, Bool.false_eq_true, if_false, obsOf, hp, bne_iff_ne, ne_eq, not_false_eq_true, if_true]
    exact skip_sim defs nvars s w h (.finish ok)

theorem acceptError_none (s : St) (e : Exc) (h : s.status = .none) : acceptError s e = { s with status := .err e, phase := .done } := by
  simp [acceptError, h]

theorem suspend_sim (cfg : Cfg) (defs : List Kind) (nvars : Nat) (s : St) (w : W) (h : Rel defs nvars s w) :
    Good defs nvars w (stepCore cfg defs s .suspend).1 (obsOf .suspend (stepCore cfg defs s .suspend)) := by
  by_cases hp : w.phase = .running
  · have hsp : s.phase = .running := h.phase.trans hp
    have hact : s.active = true := h.active.trans (h.runAct hp)
    have hstat : s.status = .none := h.status.trans (h.statNone (by rw [hp]; simp))
    let s0 : St := { s with phase := .suspended, active := false }
    let w0 : W := { w with act := false }
    have hc0 : CoreA defs nvars s0 w0 := CoreA_of_eq defs nvars s s0 w w0 h.core rfl rfl rfl rfl rfl rfl
    obtain ⟨cs, errs, hwalk, hcalls, herr, hcore, hreg, hact', hph, hst⟩ :=
      pauseLoop_sim defs nvars s.reg.reverse s0 w0 [] none hc0
    have hflds := foldl_popOv_fields defs s.reg.reverse w0
    -- the result of the model
    have e : stepCore cfg defs s .suspend =
        ((match (pauseLoop defs s.reg.reverse s0 [] none).2.2 with
          | some x => acceptError (pauseLoop defs s.reg.reverse s0 [] none).1 x
          | none => (pauseLoop defs s.reg.reverse s0 [] none).1),
         (pauseLoop defs s.reg.reverse s0 [] none).2.1, .none) := by
      simp only [stepCore, hsp, bne_self_eq_false, Bool.false_eq_true, if_false, resumeContexts, hact, if_true,
        pauseContexts, Bool.not_true, List.nil_append]
      cases hx : (pauseLoop defs s.reg.reverse s0 [] none).2.2 <;>
        (rcases hpl : pauseLoop defs s.reg.reverse s0 [] none with ⟨a, b, c⟩; rw [hpl] at hx; simp at hx; subst hx; simp [s0])
    rw [e]
    simp only [List.nil_append] at hcalls
    have herr' : (pauseLoop defs s.reg.reverse s0 [] none).2.2 = lastSome errs := by
      rw [herr]; simp only [keepLast]; cases lastSome errs <;> rfl
    let w1 : W := s.reg.reverse.foldl (popOv defs) w0
    let w' : W := failWith w1 (lastSome errs) .suspended
    have hstk : ∀ d ∈ w1.stk, isOpen w d = true ∧ ownedOpen w d = false := by
      intro d hd
      obtain ⟨h1, h2⟩ := foldl_popOv_stk_sub defs s.reg.reverse w0 d hd
      refine ⟨h.stkOpen d h1, ?_⟩
      cases ho : ownedOpen w d with
      | false => rfl
      | true =>
        have : d ∈ s.reg.reverse := by
          rw [List.mem_reverse, h.core.reg, mem_ownedIds]; exact (ownedOpen_iff w d).mp ho
        obtain ⟨x, hx⟩ := h.core.stkOv d h1
        exact absurd rfl (h2 d this (by simp [hx]))
    have hrel : Rel defs nvars (match (pauseLoop defs s.reg.reverse s0 [] none).2.2 with
          | some x => acceptError (pauseLoop defs s.reg.reverse s0 [] none).1 x
          | none => (pauseLoop defs s.reg.reverse s0 [] none).1) w' := by
      rw [herr']
      have hst1 : (pauseLoop defs s.reg.reverse s0 [] none).1.status = .none := hst.trans hstat
      cases hl : lastSome errs with
      | none =>
        have hw' : w' = { w1 with phase := .suspended } := by simp [w', failWith, hl]
        rw [hw']
        exact { core := CoreA_of_eq defs nvars _ _ w1 _ hcore rfl rfl rfl rfl rfl rfl,
                phase := hph, active := by rw [hact']; exact hflds.2.2.1.symm,
                status := by rw [hst1]; exact (hflds.2.2.2.1.trans (h.statNone (by rw [hp]; simp))).symm,
                runAct := fun hx => by simp at hx, susAct := fun _ => hflds.2.2.1,
                statNone := fun _ => hflds.2.2.2.1.trans (h.statNone (by rw [hp]; simp)),
                stkOpen := fun d hd => (isOpen_congr _ w d hflds.1).trans (hstk d hd).1,
                stkAct := fun _ d hd => (ownedOpen_congr _ w d hflds.1).trans (hstk d hd).2,
                live := hflds.2.2.2.2.trans h.live }
      | some x =>
        have hw' : w' = { w1 with status := .err x, phase := .done } := by simp [w', failWith, hl]
        rw [hw']
        show Rel defs nvars (acceptError (pauseLoop defs s.reg.reverse s0 [] none).1 x) _
        rw [acceptError_none _ _ hst1]
        exact { core := CoreA_of_eq defs nvars _ _ w1 _ hcore rfl rfl rfl rfl rfl rfl,
                phase := rfl, active := by rw [hact']; exact hflds.2.2.1.symm, status := rfl,
                runAct := fun hx => by simp at hx, susAct := fun hx => by simp at hx,
                statNone := fun hx => by simp at hx,
                stkOpen := fun d hd => (isOpen_congr _ w d hflds.1).trans (hstk d hd).1,
                stkAct := fun _ d hd => (ownedOpen_congr _ w d hflds.1).trans (hstk d hd).2,
                live := hflds.2.2.2.2.trans h.live }
    refine ⟨w', ?_, Or.inr hrel⟩
    unfold watchStep
    simp only [h.live, Bool.false_eq_true, if_false, obsOf, hp, bne_self_eq_false]
    unfold watchSuspend
    simp only [bne_self_eq_false, Bool.false_eq_true, if_false, ← h.core.reg, hcalls, hwalk]
    exact common_ok defs nvars _ w' hrel .suspend cs .none
  · have hsp : s.phase ≠ .running := fun e => hp (h.phase.symm.trans e)
    have e : stepCore cfg defs s .suspend = (s, [], .skip) := by simp [stepCore, hsp]
    rw [e]
    refine ⟨w, ?_, Or.inr h⟩
    unfold watchStep
    simp only [h.live, Bool.false_eq_true, if_false, obsOf, hp, bne_iff_ne, ne_eq, not_false_eq_true, if_true]
    exact skip_sim defs nvars s w h .suspend

theorem resumeContexts_inactive (defs : List Kind) (s : St) (h : s.active = false) :
    resumeContexts defs s =
      ((match (resumeLoop defs s.reg { s with active := true } [] none).2.2 with
        | some x => acceptError (resumeLoop defs s.reg { s with active := true } [] none).1 x
        | none => (resumeLoop defs s.reg { s with active := true } [] none).1),
       (resumeLoop defs s.reg { s with active := true } [] none).2.1) := by
  unfold resumeContexts
  simp only [h, Bool.false_eq_true, if_false]
  rcases resumeLoop defs s.reg { s with active := true } [] none with ⟨a, b, c⟩
  cases c <;> rfl

theorem stepCore_continue (cfg : Cfg) (defs : List Kind) (s : St) (h : s.phase = .suspended) :
    stepCore cfg defs s .continue_ =
      ((if (resumeContexts defs s).1.status != .none then (resumeContexts defs s).1
        else { (resumeContexts defs s).1 with phase := .running }), (resumeContexts defs s).2, .none) := by
  unfold stepCore
  simp only [h, bne_self_eq_false, Bool.false_eq_true, if_false]

theorem stepCore_continue' (cfg : Cfg) (defs : List Kind) (s : St) (hp : s.phase = .suspended) (ha : s.active = false)
    (hst : (resumeLoop defs s.reg { s with active := true } [] none).1.status = .none) :
    stepCore cfg defs s .continue_ =
      ((match (resumeLoop defs s.reg { s with active := true } [] none).2.2 with
        | some x => acceptError (resumeLoop defs s.reg { s with active := true } [] none).1 x
        | none => { (resumeLoop defs s.reg { s with active := true } [] none).1 with phase := .running }),
       (resumeLoop defs s.reg { s with active := true } [] none).2.1, .none) := by
  rw [stepCore_continue cfg defs s hp, resumeContexts_inactive defs s ha]
  generalize resumeLoop defs s.reg { s with active := true } [] none = r at hst ⊢
  rcases r with ⟨a, b, c⟩
  cases c with
  | none => simp_all
  | some x => simp_all [acceptError]

theorem continue_sim (cfg : Cfg) (defs : List Kind) (nvars : Nat) (s : St) (w : W) (h : Rel defs nvars s w) :
    Good defs nvars w (stepCore cfg defs s .continue_).1 (obsOf .continue_ (stepCore cfg defs s .continue_)) := by
  by_cases hp : w.phase = .suspended
  · have hsp : s.phase = .suspended := h.phase.trans hp
    have hwact : w.act = false := h.susAct hp
    have hact : s.active = false := h.active.trans hwact
    have hstat : s.status = .none := h.status.trans (h.statNone (by rw [hp]; simp))
    let s0 : St := { s with active := true }
    let w0 : W := { w with act := true }
    have hc0 : CoreA defs nvars s0 w0 := CoreA_of_eq defs nvars s s0 w w0 h.core rfl rfl rfl rfl rfl rfl
    have hnd : s.reg.Nodup := by rw [h.core.reg]; exact ownedIds_nodup w h.core.nodup
    have hpre : ∀ c ∈ s.reg, c < defs.length ∧ c ∉ w0.stk := by
      intro c hc
      rw [h.core.reg, mem_ownedIds] at hc
      refine ⟨h.core.lt c true hc, fun hm => ?_⟩
      have := h.stkAct hwact c hm
      rw [(ownedOpen_iff w c).mpr hc] at this
      exact absurd this (by simp)
    obtain ⟨cs, errs, hwalk, hcalls, herr, hcore, hreg, hact', hph, hst⟩ :=
      resumeLoop_sim defs nvars s.reg s0 w0 [] none hc0 hnd hpre
    have hflds := foldl_pushOv_fields defs s.reg w0
    have hst1 : (resumeLoop defs s.reg s0 [] none).1.status = .none := hst.trans hstat
    have e : stepCore cfg defs s .continue_ =
        ((match (resumeLoop defs s.reg s0 [] none).2.2 with
          | some x => acceptError (resumeLoop defs s.reg s0 [] none).1 x
          | none => { (resumeLoop defs s.reg s0 [] none).1 with phase := .running }),
         (resumeLoop defs s.reg s0 [] none).2.1, .none) := stepCore_continue' cfg defs s hsp hact hst1
    rw [e]
    simp only [List.nil_append] at hcalls
    have herr' : (resumeLoop defs s.reg s0 [] none).2.2 = firstSome errs := herr
    let w1 : W := s.reg.foldl (pushOv defs) w0
    let w' : W := failWith w1 (firstSome errs) .running
    have hstk : ∀ d ∈ w1.stk, isOpen w d = true := by
      intro d hd
      rcases foldl_pushOv_stk_sub defs s.reg w0 d hd with h1 | h1
      · exact h.stkOpen d h1
      · rw [h.core.reg, mem_ownedIds] at h1
        exact (isOpen_iff w d).mpr ⟨true, h1⟩
    have hrel : Rel defs nvars (match (resumeLoop defs s.reg s0 [] none).2.2 with
          | some x => acceptError (resumeLoop defs s.reg s0 [] none).1 x
          | none => { (resumeLoop defs s.reg s0 [] none).1 with phase := .running }) w' := by
      rw [herr']
      cases hl : firstSome errs with
      | none =>
        have hw' : w' = { w1 with phase := .running } := by simp [w', failWith, hl]
        rw [hw']
        exact { core := CoreA_of_eq defs nvars _ _ w1 _ hcore rfl rfl rfl rfl rfl rfl,
                phase := rfl, active := by show (resumeLoop defs s.reg s0 [] none).1.active = w1.act; rw [hact']; exact hflds.2.2.1.symm,
                status := by
                  show (resumeLoop defs s.reg s0 [] none).1.status = w1.status
                  rw [hst1]; exact (hflds.2.2.2.1.trans (h.statNone (by rw [hp]; simp))).symm,
                runAct := fun _ => hflds.2.2.1, susAct := fun hx => by simp at hx,
                statNone := fun _ => hflds.2.2.2.1.trans (h.statNone (by rw [hp]; simp)),
                stkOpen := fun d hd => (isOpen_congr _ w d hflds.1).trans (hstk d hd),
                stkAct := fun hx => by
                  have : w1.act = true := hflds.2.2.1
                  rw [show ({ w1 with phase := Phase.running } : W).act = w1.act from rfl, this] at hx
                  exact absurd hx (by simp),
                live := hflds.2.2.2.2.1.trans h.live }
      | some x =>
        have hw' : w' = { w1 with status := .err x, phase := .done } := by simp [w', failWith, hl]
        rw [hw']
        show Rel defs nvars (acceptError (resumeLoop defs s.reg s0 [] none).1 x) _
        rw [acceptError_none _ _ hst1]
        exact { core := CoreA_of_eq defs nvars _ _ w1 _ hcore rfl rfl rfl rfl rfl rfl,
                phase := rfl, active := by show (resumeLoop defs s.reg s0 [] none).1.active = w1.act; rw [hact']; exact hflds.2.2.1.symm,
                status := rfl,
                runAct := fun hx => by simp at hx, susAct := fun hx => by simp at hx,
                statNone := fun hx => by simp at hx,
                stkOpen := fun d hd => (isOpen_congr _ w d hflds.1).trans (hstk d hd),
                stkAct := fun hx => by
                  have : w1.act = true := hflds.2.2.1
                  rw [show ({ w1 with status := Status.err x, phase := Phase.done } : W).act = w1.act from rfl, this] at hx
                  exact absurd hx (by simp),
                live := hflds.2.2.2.2.1.trans h.live }
    refine ⟨w', ?_, Or.inr hrel⟩
    unfold watchStep
    simp only [h.live, Bool.false_eq_true, if_false, obsOf, hp, bne_self_eq_false]
    unfold watchContinue
    simp only [bne_self_eq_false, Bool.false_eq_true, if_false, ← h.core.reg, hcalls, hwalk]
    exact common_ok defs nvars _ w' hrel .continue_ cs .none
  · have hsp : s.phase ≠ .suspended := fun e => hp (h.phase.symm.trans e)
    have e : stepCore cfg defs s .continue_ = (s, [], .skip) := by simp [stepCore, hsp]
    rw [e]
    refine ⟨w, ?_, Or.inr h⟩
    unfold watchStep
    simp only [h.live, Bool.false_eq_true, if_false, obsOf, hp, bne_iff_ne, ne_eq, not_false_eq_true, if_true]
    exact skip_sim defs nvars s w h .continue_

end AsynqModel.Contexts
