import AsynqModel.Proofs.CtxAlt
/-! alternation: one accepted observation (helper lemmas for Theorems/C06c.lean; about the observer alone) -/
namespace AsynqModel.Contexts

/-- what one accepted observation means for context c -/
def AltStep (w w' : W) (ob : Obs) (c : Nat) : Prop :=
  WF w' ∧ altRun (resumedNow w c) (onCtx c ob.calls) = some (resumedNow w' c)

theorem alt_same (w w' : W) (ob : Obs) (c : Nat) (hwf : WF w) (hc : onCtx c ob.calls = [])
    (h1 : w'.opened = w.opened) (h2 : w'.act = w.act) (h3 : w'.phase = w.phase) : AltStep w w' ob c :=
  ⟨WF_congr w w' hwf h1 h2 h3, by rw [hc, resumedNow_congr w w' c h1 h2]; rfl⟩

theorem onCtx_nil (c : Nat) : onCtx c [] = [] := rfl

theorem onCtx_other (c d : Nat) (calls : List Call) (h : ∀ cl ∈ calls, cl.c = d) (hcd : d ≠ c) : onCtx c calls = [] := by
  unfold onCtx
  have : calls.filter (·.c == c) = [] := by
    apply List.filter_eq_nil_iff.mpr
    intro cl hcl
    simp [h cl hcl, hcd]
  rw [this]; rfl

theorem WF_open (w : W) (d : Nat) (hwf : WF w) (hcl : isOpen w d = false) : WF (openCtx w d) := by
  have hnot : ∀ o, (d, o) ∉ w.opened := fun o hm => by
    have := (isOpen_iff w d).mpr ⟨o, hm⟩; rw [hcl] at this; exact absurd this (by simp)
  refine { nodup := ?_, runAct := hwf.runAct, susAct := hwf.susAct }
  show ((w.opened ++ [(d, w.phase == .running)]).map (·.1)).Nodup
  rw [List.map_append, List.nodup_append]
  refine ⟨hwf.nodup, by simp, ?_⟩
  intro a ha b hb
  simp at hb; subst hb
  obtain ⟨p, hp, rfl⟩ := List.mem_map.mp ha
  intro e
  exact hnot p.2 (by rw [← e]; exact hp)

theorem resumedNow_open_ne (w : W) (c d : Nat) (hcd : d ≠ c) : resumedNow (openCtx w d) c = resumedNow w c := by
  rw [Bool.eq_iff_iff, resumedNow_iff, resumedNow_iff, isOpen_openCtx, ownedOpen_openCtx]
  have : c ≠ d := fun e => hcd e.symm
  have ha : (openCtx w d).act = w.act := rfl
  simp [this, ha]

theorem resumedNow_close_ne (w : W) (c d : Nat) (hcd : d ≠ c) : resumedNow (closeCtx w d) c = resumedNow w c := by
  rw [Bool.eq_iff_iff, resumedNow_iff, resumedNow_iff, isOpen_closeCtx, ownedOpen_closeCtx]
  have : c ≠ d := fun e => hcd e.symm
  have ha : (closeCtx w d).act = w.act := rfl
  simp [this, ha]

theorem resumedNow_close_self (w : W) (c : Nat) : resumedNow (closeCtx w c) c = false := by
  cases h : resumedNow (closeCtx w c) c with
  | false => rfl
  | true => exact absurd ((isOpen_closeCtx w c c).mp ((resumedNow_iff _ c).mp h).1).2 (by simp)

theorem alt_enter (defs : List Kind) (nvars : Nat) (w w' : W) (ob : Obs) (c d : Nat) (hp : isPlain defs c = true)
    (hwf : WF w) (hcl : isOpen w d = false) (h : watchEnter defs nvars w d ob = .ok w')
    (hnr : ∀ cl ∈ ob.calls, cl.c = c → cl.raised = false) : AltStep w w' ob c := by
  have hopen : ∀ w1 : W, w1.opened = (openCtx w d).opened → w1.act = w.act → w1.phase = w.phase → d ≠ c →
      onCtx c ob.calls = [] → AltStep w w1 ob c := by
    intro w1 h1 h2 h3 hcd hc
    refine ⟨WF_congr (openCtx w d) w1 (WF_open w d hwf hcl) h1 h2 h3, ?_⟩
    rw [hc, resumedNow_congr (openCtx w d) w1 c h1 h2, resumedNow_open_ne w c d hcd]; rfl
  unfold watchEnter at h
  cases hk : kindOf defs d with
  | na =>
    have hcd : d ≠ c := fun e => by subst e; simp [isPlain, hk] at hp
    rw [hk] at h; simp only at h
    split at h
    · rename_i hc
      simp only [Bool.and_eq_true, List.isEmpty_iff] at hc
      have e := common_inv defs nvars _ _ _ h; rw [e]
      exact hopen _ rfl rfl rfl hcd (by rw [hc.1]; rfl)
    · simp at h
  | ov x v =>
    have hcd : d ≠ c := fun e => by subst e; simp [isPlain, hk] at hp
    rw [hk] at h; simp only at h
    split at h
    · rename_i hc
      simp only [Bool.and_eq_true, List.isEmpty_iff] at hc
      have e := common_inv defs nvars _ _ _ h; rw [e]
      have hf := pushOv_fields defs (openCtx w d) d
      exact hopen _ hf.1 hf.2.2.1 hf.2.1 hcd (by rw [hc.1]; rfl)
    · simp at h
  | plain rr pr =>
    rw [hk] at h; simp only at h
    split at h
    · rename_i cl hcalls
      split at h
      · simp at h
      · rename_i hcl1
        have hcl2 : cl.isR = true ∧ cl.c = d := by simpa using hcl1
        split at h
        · rename_i hr
          -- resume() raised: the block is not entered
          split at h
          · have e := common_inv defs nvars _ _ _ h; rw [e]
            have hcd : d ≠ c := fun e => by
              have := hnr cl (by rw [hcalls]; simp) (hcl2.2.trans e)
              rw [hr] at this; exact absurd this (by simp)
            exact alt_same w _ ob c hwf (onCtx_other c d _ (by rw [hcalls]; intro x hx; simp at hx; rw [hx]; exact hcl2.2) hcd)
              rfl rfl rfl
          · simp at h
        · split at h
          · have e := common_inv defs nvars _ _ _ h; rw [e]
            by_cases hcd : d = c
            · subst hcd
              refine ⟨WF_open w d hwf hcl, ?_⟩
              have hbefore : resumedNow w d = false := by simp [resumedNow, hcl]
              have hafter : resumedNow (openCtx w d) d = true := by
                rw [resumedNow_iff, isOpen_openCtx, ownedOpen_openCtx]
                refine ⟨Or.inr rfl, ?_⟩
                rintro (h1 | ⟨_, h2⟩)
                · have : isOpen w d = true := (isOpen_iff w d).mpr ⟨true, (ownedOpen_iff w d).mp h1⟩
                  rw [hcl] at this; exact absurd this (by simp)
                · exact hwf.runAct h2
              rw [hbefore, hafter, hcalls]
              simp [onCtx, hcl2.2, hcl2.1, altRun]
            · exact hopen _ rfl rfl rfl hcd
                (onCtx_other c d _ (by rw [hcalls]; intro x hx; simp at hx; rw [hx]; exact hcl2.2) hcd)
          · simp at h
    · simp at h

end AsynqModel.Contexts
