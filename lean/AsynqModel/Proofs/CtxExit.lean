import AsynqModel.Proofs.CtxStep
/-! `exit c` of the model is accepted by the observer and keeps the relation (helper lemmas for Theorems/C06c.lean) -/
namespace AsynqModel.Contexts

def escOf : Option Exc → Esc
  | none => .none
  | some e => .exc e

/-- AsyncContext.__exit__ after the pause() call: `del self._active_task` is reached iff pause() returned -/
def afterPause (r : St × List Call × Option Exc) (c : Nat) : St × List Call × Esc :=
  match r with
  | (s2, calls, none) => (delAttr s2 c, calls, .none)
  | (s2, calls, some e) => (s2, calls, .exc e)

theorem afterPause_fields (r : St × List Call × Option Exc) (c : Nat) :
    (afterPause r c).1.reg = r.1.reg ∧ (afterPause r c).1.active = r.1.active ∧ (afterPause r c).1.phase = r.1.phase ∧
    (afterPause r c).1.status = r.1.status ∧ (afterPause r c).1.vals = r.1.vals ∧ (afterPause r c).2.1 = r.2.1 ∧
    (afterPause r c).2.2 = escOf r.2.2 ∧
    (afterPause r c).1.cs.length = r.1.cs.length ∧
    (∀ d, (getC (afterPause r c).1.cs d).old = (getC r.1.cs d).old) ∧
    (∀ d, d ≠ c → (getC (afterPause r c).1.cs d).attr = (getC r.1.cs d).attr) := by
  rcases r with ⟨s2, calls, e⟩
  have key : ∀ d, (getC (upd s2.cs c fun k => { k with attr := Attr.absent }) d).old = (getC s2.cs d).old := by
    intro d
    by_cases hd : d = c
    · subst hd
      by_cases hl : d < s2.cs.length
      · rw [getC_upd_same _ _ _ hl]
      · have : ∀ (l : List CtxSt) (n : Nat) (f : CtxSt → CtxSt), l.length ≤ n → upd l n f = l := by
          intro l
          induction l with
          | nil => intros; rfl
          | cons x xs ih =>
            intro n f hn
            cases n with
            | zero => simp at hn
            | succ m => simp [upd, ih m f (by simpa using hn)]
        rw [this _ _ _ (by omega)]
    · rw [getC_upd_ne _ _ _ _ hd]
  cases e with
  | none =>
    refine ⟨rfl, rfl, rfl, rfl, rfl, rfl, rfl, by simp [afterPause, delAttr, upd_length], key, ?_⟩
    intro d hd
    show (getC (upd s2.cs c _) d).attr = _
    rw [getC_upd_ne _ _ _ _ hd]
  | some x => exact ⟨rfl, rfl, rfl, rfl, rfl, rfl, rfl, rfl, fun _ => rfl, fun _ _ => rfl⟩

theorem watchExit_na (defs : List Kind) (nvars : Nat) (w : W) (c : Nat) (ob : Obs) (hk : kindOf defs c = .na)
    (hc : ob.calls = []) (he : ob.esc = .none) : watchExit defs nvars w c ob = common defs nvars (closeCtx w c) ob := by
  simp [watchExit, hk, hc, he]

theorem watchExit_paused (defs : List Kind) (nvars : Nat) (w : W) (c : Nat) (ob : Obs)
    (hres : (!ownedOpen w c || w.act) = false) (hc : ob.calls = []) (he : ob.esc = .none) :
    watchExit defs nvars w c ob = common defs nvars (closeCtx w c) ob := by
  unfold watchExit
  cases hk : kindOf defs c <;> simp [hres, hc, he]

theorem watchExit_resumed (defs : List Kind) (nvars : Nat) (w : W) (c : Nat) (ob : Obs) (e : Option Exc)
    (hres : (!ownedOpen w c || w.act) = true) (hk : isAsyncCtx (kindOf defs c) = true)
    (hev : evOut defs false c ob.calls e) (hesc : ob.esc = escOf e) :
    watchExit defs nvars w c ob = common defs nvars (popOv defs (closeCtx w c) c) ob := by
  unfold watchExit
  unfold evOut at hev
  cases hk' : kindOf defs c with
  | na => rw [hk'] at hk; simp [isAsyncCtx] at hk
  | ov x v =>
    rw [hk'] at hev
    obtain ⟨h1, h2⟩ := hev
    subst h2
    simp [hres, h1, hesc, escOf]
  | plain rr pr =>
    rw [hk'] at hev
    obtain ⟨b, h1, h2⟩ := hev
    subst h2
    rw [popOv_none defs _ c (varOf_plain defs c rr pr hk')]
    cases b <;> simp [hres, h1, hesc, hookExc, escOf]

/-- assembling the relation after an exit -/
theorem Rel_exit (defs : List Kind) (nvars : Nat) (s : St) (w : W) (h : Rel defs nvars s w) (c : Nat) (s' : St) (w' : W)
    (hcore : CoreA defs nvars s' w') (hop : w'.opened = (closeCtx w c).opened)
    (hstk : ∀ d ∈ w'.stk, d ∈ w.stk ∧ d ≠ c)
    (hph : s'.phase = s.phase) (hact : s'.active = s.active) (hst : s'.status = s.status)
    (hwp : w'.phase = w.phase) (hwa : w'.act = w.act) (hws : w'.status = w.status) (hlive : w'.stopped = false) :
    Rel defs nvars s' w' :=
  { core := hcore, phase := by rw [hph, hwp]; exact h.phase, active := by rw [hact, hwa]; exact h.active,
    status := by rw [hst, hws]; exact h.status, runAct := by rw [hwp, hwa]; exact h.runAct,
    susAct := by rw [hwp, hwa]; exact h.susAct, statNone := by rw [hwp, hws]; exact h.statNone,
    stkOpen := fun d hd => by
      obtain ⟨h1, h2⟩ := hstk d hd
      obtain ⟨o, ho⟩ := (isOpen_iff w d).mp (h.stkOpen d h1)
      exact (isOpen_iff w' d).mpr ⟨o, by rw [hop]; exact (closeCtx_mem w c d o).mpr ⟨ho, h2⟩⟩,
    stkAct := fun ha d hd => by
      obtain ⟨h1, _⟩ := hstk d hd
      have := h.stkAct (by rw [← hwa]; exact ha) d h1
      cases ho : ownedOpen w' d with
      | false => rfl
      | true =>
        have hm := (ownedOpen_iff w' d).mp ho
        rw [hop] at hm
        have := (ownedOpen_iff w d).mpr ((closeCtx_mem w c d true).mp hm).1
        simp_all,
    live := hlive }

/-- the state-level part: the context is unregistered / left alone, the rest is untouched -/
theorem CoreA_close (defs : List Kind) (nvars : Nat) (s : St) (w : W) (h : CoreA defs nvars s w) (c : Nat) :
    CoreA defs nvars { s with reg := s.reg.filter (· != c) } (closeCtx w c) :=
  { reg := by rw [ownedIds_closeCtx, ← h.reg],
    attr := fun d o hm => h.attr d o ((closeCtx_mem w c d o).mp hm).1,
    lt := fun d o hm => h.lt d o ((closeCtx_mem w c d o).mp hm).1,
    nodup := closeCtx_nodup w c h.nodup, cslen := h.cslen, vlen := h.vlen, stkNodup := h.stkNodup, stkOv := h.stkOv,
    chain := h.chain }

theorem exitOp_noTask_na (cfg : Cfg) (defs : List Kind) (s : St) (c : Nat) (hattr : (getC s.cs c).attr = .noTask)
    (hk : kindOf defs c = .na) : exitOp cfg defs s c = (s, [], .none) := by
  simp [exitOp, hattr, hk, isAsyncCtx]

theorem exitOp_noTask_async (cfg : Cfg) (defs : List Kind) (s : St) (c : Nat) (hattr : (getC s.cs c).attr = .noTask)
    (hk : isAsyncCtx (kindOf defs c) = true) : exitOp cfg defs s c = afterPause (pauseCtx defs s c) c := by
  unfold exitOp afterPause
  simp only [hattr, hk, Bool.not_true, Bool.false_eq_true, if_false]
  rcases pauseCtx defs s c with ⟨a, b, e⟩
  cases e <;> rfl

theorem exitOp_task_na (cfg : Cfg) (defs : List Kind) (s : St) (c : Nat) (hattr : (getC s.cs c).attr = .task)
    (hin : s.reg.contains c = true) (hk : kindOf defs c = .na) :
    exitOp cfg defs s c = ({ s with reg := s.reg.erase c }, [], .none) := by
  have : c ∈ s.reg := by simpa using hin
  simp [exitOp, hattr, hk, isAsyncCtx, this]

theorem exitOp_task_active (cfg : Cfg) (defs : List Kind) (s : St) (c : Nat) (hattr : (getC s.cs c).attr = .task)
    (hin : s.reg.contains c = true) (hk : isAsyncCtx (kindOf defs c) = true) (ha : s.active = true) :
    exitOp cfg defs s c = afterPause (pauseCtx defs { s with reg := s.reg.erase c } c) c := by
  unfold exitOp afterPause
  simp only [hattr, hk, hin, ha, Bool.not_true, Bool.false_eq_true, if_false, if_true]
  rcases pauseCtx defs { s with reg := s.reg.erase c } c with ⟨a, b, e⟩
  cases e <;> rfl

theorem exitOp_task_paused (cfg : Cfg) (defs : List Kind) (s : St) (c : Nat) (hattr : (getC s.cs c).attr = .task)
    (hin : s.reg.contains c = true) (hk : isAsyncCtx (kindOf defs c) = true) (ha : s.active = false) :
    exitOp cfg defs s c = (delAttr { s with reg := s.reg.erase c } c, [], .none) := by
  unfold exitOp
  simp only [hattr, hk, hin, ha, Bool.not_true, Bool.false_eq_true, if_false]

end AsynqModel.Contexts
