import AsynqModel.Proofs.P16BStep
/-!
  P24, part 3: the relation `Nt s r` ("no task is completed between `s` and `r`") and its closure under the helpers
  of the machine that do not complete tasks.

  `Nt s r`: computed futures keep outcome and kind; a future that becomes computed is NOT a task, and its outcome is not
  the AssertionError of a NonAsyncContext.  (Newly allocated tasks are uncomputed, newly allocated constants are not
  tasks, batch items and lazy futures are completed with values, user errors or flush errors.)
-/
namespace AsynqModel.Core.P24
open AsynqModel.Core AsynqModel.Core.P5

structure Nt (s r : State) : Prop where
  keep : ∀ f o, s.out f = some o → r.out f = some o ∧ (r.fut f).kind = (s.fut f).kind
  new : ∀ f o, s.out f = none → r.out f = some o → (r.fut f).kind ≠ .task ∧ o ≠ .err .nonasync

theorem Nt.refl (s : State) : Nt s s :=
  ⟨fun _ _ h => ⟨h, rfl⟩, fun _ _ h1 h2 => by rw [h1] at h2; cases h2⟩

theorem Nt.trans {s x r : State} (h1 : Nt s x) (h2 : Nt x r) : Nt s r := by
  refine ⟨fun f o h => ?_, fun f o hn hs => ?_⟩
  · obtain ⟨a, b⟩ := h1.keep f o h
    obtain ⟨c, d⟩ := h2.keep f o a
    exact ⟨c, d.trans b⟩
  · cases hx : x.out f with
    | none => exact h2.new f o hx hs
    | some o' =>
      obtain ⟨a, b⟩ := h1.new f o' hn hx
      obtain ⟨c, d⟩ := h2.keep f o' hx
      rw [c] at hs
      injection hs with hs
      subst hs
      exact ⟨by rw [d]; exact a, b⟩

/-- every future is unchanged (outcome and kind), or a non-task that gets a harmless outcome, or stays uncomputed -/
theorem Nt.of_cases {s r : State}
    (h : ∀ f, (r.out f = s.out f ∧ (r.fut f).kind = (s.fut f).kind) ∨
      (s.out f = none ∧ (r.fut f).kind ≠ .task ∧ ∀ o, r.out f = some o → o ≠ .err .nonasync) ∨
      (s.out f = none ∧ r.out f = none)) : Nt s r := by
  refine ⟨fun f o hs => ?_, fun f o hn hr => ?_⟩
  · rcases h f with ⟨a, b⟩ | ⟨a, _⟩ | ⟨a, _⟩
    · exact ⟨by rw [a]; exact hs, b⟩
    · rw [a] at hs; cases hs
    · rw [a] at hs; cases hs
  · rcases h f with ⟨a, _⟩ | ⟨_, b, c⟩ | ⟨_, b⟩
    · rw [a, hn] at hr; cases hr
    · exact ⟨b, c o hr⟩
    · rw [b] at hr; cases hr

theorem Nt.of_futs {s r : State} (h : r.futs = s.futs) : Nt s r :=
  Nt.of_cases fun f => .inl ⟨by simp [State.out, State.fut, h], by simp [State.fut, h]⟩

theorem Nt.cg {s x r : State} (h : Nt s x) (e : r.futs = x.futs) : Nt s r := h.trans (Nt.of_futs e)

theorem nt_updTask (s : State) (t : Nat) (g : TaskSt → TaskSt) : Nt s (s.updTask t g) :=
  Nt.of_cases fun f => .inl ⟨P1.out_updTask s t f g, P1.kind_updTask s t f g⟩

theorem Nt.updTask {s x : State} (h : Nt s x) (t : Nat) (g : TaskSt → TaskSt) : Nt s (x.updTask t g) :=
  h.trans (nt_updTask x t g)

theorem Nt.emit {s x : State} (h : Nt s x) (e : Event) : Nt s (x.emit e) := h.cg rfl
theorem Nt.fail {s x : State} (h : Nt s x) (m : String) : Nt s (x.fail m) := h.cg rfl

/-- allocation of an uncomputed future (a task, a batch item, a lazy future) -/
theorem nt_alloc_none (s : State) (x : Fut) (nk : NewKind) (hx : x.out = none) : Nt s (s.alloc x nk).1 := by
  refine Nt.of_cases fun f => ?_
  by_cases hf : f = s.futs.length
  · right; right
    subst hf
    exact ⟨P1.out_none_of_ge s _ (Nat.le_refl _), by simp [State.out, P2.fut_alloc, hx]⟩
  · left
    simp [State.out, P2.fut_alloc, hf]

/-- allocation of a ConstFuture / ErrorFuture -/
theorem nt_alloc_val (s : State) (x : Fut) (nk : NewKind) (hk : x.kind ≠ .task)
    (ho : ∀ o, x.out = some o → o ≠ .err .nonasync) : Nt s (s.alloc x nk).1 := by
  refine Nt.of_cases fun f => ?_
  by_cases hf : f = s.futs.length
  · right; left
    subst hf
    refine ⟨P1.out_none_of_ge s _ (Nat.le_refl _), by simp [P2.fut_alloc, hk], fun o h => ho o ?_⟩
    simpa [State.out, P2.fut_alloc] using h
  · left
    simp [State.out, P2.fut_alloc, hf]

theorem nt_newTask (s : State) (child : Body) (inh : List Nat) : Nt s (s.newTask child inh).1 := by
  unfold State.newTask
  exact nt_alloc_none _ _ _ rfl

/-- completion of an uncomputed future that is not a task, with a harmless outcome -/
theorem nt_complete (s : State) (f : Nat) (o : Outcome) (hc : s.computed f = false) (hk : (s.fut f).kind ≠ .task)
    (ho : o ≠ .err .nonasync) : Nt s (s.complete f o) := by
  have hn : s.out f = none := by
    cases h : s.out f with
    | none => rfl
    | some o' => simp [State.computed, h] at hc
  refine Nt.of_cases fun g => ?_
  by_cases hg : g = f
  · subst hg
    right; left
    refine ⟨hn, by rw [P1.kind_complete]; exact hk, fun o' h => ?_⟩
    by_cases hl : g < s.futs.length
    · rw [P1.out_complete_self s g o hl] at h
      injection h with h
      rw [← h]; exact ho
    · have : (s.complete g o).out g = none := by
        have : (s.complete g o).futs.length = s.futs.length := by simp [State.complete]
        exact P1.out_none_of_ge _ g (by omega)
      rw [this] at h; cases h
  · left
    exact ⟨P1.out_complete_ne s f g o hg, P1.kind_complete s f g o⟩

theorem nt_switchActive (s : State) (k q : Nat) : Nt s (s.switchActive k q) := by
  unfold State.switchActive
  split
  · split
    · exact Nt.of_futs rfl
    · exact Nt.refl s
  · exact Nt.refl s

theorem computed_false_of_not {s : State} {i : Nat} (h : ¬ s.computed i = true) : s.computed i = false := by
  cases hc : s.computed i with
  | false => rfl
  | true => exact absurd hc h

theorem nt_flushItems (kind : Nat) (l : List Nat) : ∀ s : State, Nt s (s.flushItems kind l) := by
  induction l with
  | nil => intro s; exact Nt.refl s
  | cons i is ih =>
    intro s
    unfold State.flushItems
    refine Nt.trans ?_ (ih _)
    split
    · exact Nt.refl s
    · next hc =>
      have hc := computed_false_of_not hc
      split
      · next h => exact nt_complete _ _ _ hc (by rw [h]; intro h'; cases h') (by intro h'; cases h')
      · next h => exact nt_complete _ _ _ hc (by rw [h]; intro h'; cases h') (by intro h'; cases h')
      · exact Nt.refl s

theorem nt_finishItems (e : Err) (he : e ≠ .nonasync) (l : List Nat) : ∀ s : State,
    (∀ i ∈ l, (s.fut i).kind ≠ .task) → Nt s (s.finishItems e l) := by
  induction l with
  | nil => intro s _; exact Nt.refl s
  | cons i is ih =>
    intro s hl
    unfold State.finishItems
    have h1 : Nt s (if s.computed i then s else s.complete i (.err e)) := by
      split
      · exact Nt.refl s
      · next hc =>
        exact nt_complete _ _ _ (computed_false_of_not hc) (hl i (by simp)) (by intro h'; injection h' with h'; exact he h')
    refine h1.trans (ih _ ?_)
    intro j hj
    have hk : ((if s.computed i then s else s.complete i (.err e)).fut j).kind = (s.fut j).kind := by
      split
      · rfl
      · exact P1.kind_complete s i j _
    rw [hk]
    exact hl j (by simp [hj])

theorem kind_flushItems (kind : Nat) (l : List Nat) : ∀ (s : State) (j : Nat),
    ((s.flushItems kind l).fut j).kind = (s.fut j).kind := by
  induction l with
  | nil => intro s j; rfl
  | cons i is ih =>
    intro s j
    unfold State.flushItems
    rw [ih]
    split
    · rfl
    · split
      · exact P1.kind_complete ..
      · exact P1.kind_complete ..
      · rfl

theorem kind_switchActive (s : State) (k q j : Nat) : ((s.switchActive k q).fut j).kind = (s.fut j).kind := by
  unfold State.switchActive
  split
  · split <;> rfl
  · rfl

theorem nt_flushBatch (s : State) (k q : Nat) (hi : P2.ItemsOk s) : Nt s (s.flushBatch k q) := by
  unfold State.flushBatch
  split
  · exact Nt.of_futs rfl
  · next b hb =>
    have hbm : b ∈ s.batches := List.mem_of_find?_eq_some hb
    have h1 : Nt s ((s.switchActive k q).emit (.flushI k q b.items)) := (nt_switchActive s k q).cg rfl
    have h2 := h1.trans (nt_flushItems k b.items _)
    have hnt : ∀ i ∈ b.items,
        ((((s.switchActive k q).emit (.flushI k q b.items)).flushItems k b.items).fut i).kind ≠ .task := by
      intro i hi'
      rw [kind_flushItems]
      show ((s.switchActive k q).fut i).kind ≠ .task
      rw [kind_switchActive]
      exact P7.not_task_of_item (hi b hbm i hi')
    refine Nt.cg (x := State.finishItems _ _ _) ?_ rfl
    refine h2.trans (nt_finishItems _ ?_ _ _ hnt)
    split <;> (intro h'; cases h')

theorem nt_flushBatch_of (s x : State) (k q : Nat) (e : x.futs = s.futs) (hb : x.batches = s.batches)
    (hi : P2.ItemsOk s) : Nt s (x.flushBatch k q) :=
  (Nt.of_futs e).trans (nt_flushBatch x k q (P7.itemsOk_of_eq (fun f => by simp [State.fut, e]) hb hi))

theorem nt_schedulerFlush (s : State) (root : Nat) (hi : P2.ItemsOk s) : Nt s (s.schedulerFlush root) := by
  unfold State.schedulerFlush
  simp only
  repeat' split
  all_goals first | exact Nt.of_futs rfl | skip
  all_goals
    refine Nt.cg (x := State.flushBatch _ _ _) ?_ rfl
    exact nt_flushBatch_of s _ _ _ rfl rfl hi

/-! ### context operations complete nothing -/

theorem nt_ctxExit (s : State) (c : Nat) : Nt s (s.ctxExit c) := by
  unfold State.ctxExit
  simp only
  split
  · next o ho =>
    exact Nt.cg (x := s.updTask o fun ts => { ts with ctxs := ts.ctxs.erase c }) (nt_updTask ..) (P12.futs_pauseIf _ _ _ _)
  · exact Nt.cg (x := s) (Nt.refl s) (P12.futs_pauseIf _ _ _ _)

theorem nt_foldExit (l : List (Nat × Body)) : ∀ s : State, Nt s (l.foldl (fun s p => s.ctxExit p.1) s) := by
  induction l with
  | nil => intro s; exact Nt.refl s
  | cons p l ih => intro s; exact (nt_ctxExit s p.1).trans (ih _)

theorem nt_exitAll (s : State) (t : Nat) : Nt s (s.exitAll t) := by
  unfold State.exitAll
  exact (nt_foldExit _ s).updTask t _

theorem nt_foldFlip (b : Bool) (l : List Nat) (s : State) : Nt s (l.foldl (flipOne b) s) :=
  Nt.of_futs (futs_foldFlip b l s)

theorem nt_svTouch (s : State) (v : Nat) : Nt s (s.svTouch v) := by
  unfold State.svTouch
  split
  · exact Nt.refl s
  · exact Nt.of_futs rfl

theorem nt_leaveGen (s : State) (t : Nat) (old : Option Nat) : Nt s (s.leaveGen t old) := by
  unfold State.leaveGen
  exact Nt.cg (x := s.updTask t fun ts => { ts with depsSched := false }) (nt_updTask ..) rfl

/-! ### `body` and `caught` of every task are kept by the operations that make up `finishTask` -/

def BC (s r : State) : Prop := ∀ u, (r.task u).body = (s.task u).body ∧ (r.task u).caught = (s.task u).caught

theorem BC.refl (s : State) : BC s s := fun _ => ⟨rfl, rfl⟩
theorem BC.trans {s x r : State} (h1 : BC s x) (h2 : BC x r) : BC s r :=
  fun u => ⟨(h2 u).1.trans (h1 u).1, (h2 u).2.trans (h1 u).2⟩
theorem BC.of_futs {s r : State} (h : r.futs = s.futs) : BC s r := fun u => by simp [State.task, State.fut, h]

theorem bc_updTask (s : State) (t : Nat) (g : TaskSt → TaskSt) (h1 : ∀ x, (g x).body = x.body)
    (h2 : ∀ x, (g x).caught = x.caught) : BC s (s.updTask t g) :=
  fun u => ⟨task_updTask_field s t u g (·.body) h1, task_updTask_field s t u g (·.caught) h2⟩

theorem bc_complete (s : State) (f : Nat) (o : Outcome) : BC s (s.complete f o) := by
  intro u
  unfold State.task State.complete
  simp only [P1.fut_emit, P1.fut_setFut]
  split
  · next h => rw [h.1]; cases s.cfg.keepDeps <;> exact ⟨rfl, rfl⟩
  · exact ⟨rfl, rfl⟩

theorem bc_ctxExit (s : State) (c : Nat) : BC s (s.ctxExit c) := by
  unfold State.ctxExit
  simp only
  split
  · next o ho =>
    exact (bc_updTask s o (fun ts => { ts with ctxs := ts.ctxs.erase c }) (fun _ => rfl) (fun _ => rfl)).trans
      (BC.of_futs (P12.futs_pauseIf _ _ _ _))
  · exact BC.of_futs (P12.futs_pauseIf _ _ _ _)

theorem bc_foldExit (l : List (Nat × Body)) : ∀ s : State, BC s (l.foldl (fun s p => s.ctxExit p.1) s) := by
  induction l with
  | nil => intro s; exact BC.refl s
  | cons p l ih => intro s; exact (bc_ctxExit s p.1).trans (ih _)

theorem bc_exitAll (s : State) (t : Nat) : BC s (s.exitAll t) := by
  unfold State.exitAll
  exact (bc_foldExit _ s).trans (bc_updTask _ t (fun ts => { ts with conts := [] }) (fun _ => rfl) (fun _ => rfl))

/-- the three steps that complete a task: leave the blocks, clear `pending`, store the outcome -/
theorem bc_exitComplete (s : State) (t : Nat) (o : Outcome) :
    BC s (((s.exitAll t).updTask t fun ts => { ts with pending := false }).complete t o) :=
  ((bc_exitAll s t).trans (bc_updTask _ t (fun ts => { ts with pending := false }) (fun _ => rfl)
    (fun _ => rfl))).trans (bc_complete _ t o)

end AsynqModel.Core.P24
