import AsynqModel.Proofs.P12Lab
/-!
  P12: the DFS-chain invariant `J` of the general machine (nested `wait_for` frames) and its preservation.

  * `lab`  : the task stack carries a labelling `Lab` (see P12Lab), and every uncomputed task whose contexts are active
             is the top of the stack or a label;
  * `sync` : the generator frame under a `wait_for(u)` frame belongs to a task stopped in the synchronous call
             `u.value()` (`syncEdge`);
  * `pend` : an uncomputed task whose generator is not running is suspended (`pending`).
-/
namespace AsynqModel.Core.P12
open AsynqModel.Core P5 P7

/-- what the libraries P2, P3, P7, P10 say about a reachable state of a well-scoped program -/
structure Lib (s : State) : Prop where
  hinv : P10.HInv s
  chain : s.ctl.Pairwise (P10.nest s)
  disc : P10.disc s.ctl s.stack
  nodup : (P2.gens s.ctl).Nodup
  genKind : ∀ t ∈ P2.gens s.ctl, (s.fut t).kind = .task
  notIn : ∀ root base rest top st, s.ctl = .waitLoop root base :: rest → base < s.stack.length →
    s.stack = top :: st → top ∉ P2.gens s.ctl
  na : NA s
  items : P2.ItemsOk s
  raising : s.raising = none

def Heads (s : State) (L : List (Nat × Nat)) : Prop :=
  ∀ o, (s.fut o).kind = .task → (s.task o).ctxActive = true → s.computed o = false →
    s.stack.head? = some o ∨ o ∈ L.map Prod.snd

def LabI (s : State) : Prop := ∃ L : List (Nat × Nat), L.map Prod.fst = s.stack ∧ Lab s L ∧ Heads s L

def SyncI (s : State) : Prop := ∀ t u, edgeIn s.ctl t u → (s.fut t).kind = .task ∧ syncEdge s t u

def PendI (s : State) : Prop :=
  ∀ t, (s.fut t).kind = .task → s.computed t = false → t ∉ P2.gens s.ctl → (s.task t).pending = true

structure J (s : State) : Prop where
  lab : LabI s
  sync : SyncI s
  pend : PendI s

/-! ### transfer lemmas -/

theorem heads_back {X : Nat → Prop} {s r : State} (hp : Hp X s r) {o : Nat} (hk : (r.fut o).kind = .task)
    (ha : (r.task o).ctxActive = true) (hc : r.computed o = false) (hx : ¬ X o) :
    (s.fut o).kind = .task ∧ (s.task o).ctxActive = true ∧ s.computed o = false := by
  rcases Nat.lt_or_ge o s.futs.length with hl | hl
  · have hks : (s.fut o).kind = .task := by rw [← hp.kind o hl]; exact hk
    obtain ⟨e, c⟩ := hp.task o hx hks
    exact ⟨hks, by rw [← e.act]; exact ha, by rw [← c]; exact hc⟩
  · have := (hp.fresh o hl hk).2
    rw [ha] at this; cases this

theorem lab_keep {X : Nat → Prop} {s r : State} (lb : Lib s) (hp : Hp X s r)
    (hX : ∀ p, X p → s.stack.head? = some p) (st : r.stack = s.stack)
    (he : ∀ p u, s.stack.head? ≠ some p → edgeIn s.ctl p u → edgeIn r.ctl p u) (h : LabI s) : LabI r := by
  obtain ⟨L, hL, hlab, hh⟩ := h
  refine ⟨L, by rw [st]; exact hL, Lab.transfer_top lb.hinv lb.chain hp hlab hL hX he, ?_⟩
  intro o hk ha hc
  rw [st]
  by_cases hx : X o
  · exact .inl (hX o hx)
  · obtain ⟨h1, h2, h3⟩ := heads_back hp hk ha hc hx
    exact hh o h1 h2 h3

theorem lab_pop {X : Nat → Prop} {s r : State} (lb : Lib s) (hp : Hp X s r) {top : Nat} {stk : List Nat}
    (hst : s.stack = top :: stk) (hX : ∀ p, X p → p = top) (st : r.stack = stk)
    (he : ∀ p u, s.stack.head? ≠ some p → edgeIn s.ctl p u → edgeIn r.ctl p u)
    (hexcl : ¬ ((r.fut top).kind = .task ∧ (r.task top).ctxActive = true ∧ r.computed top = false))
    (h : LabI s) : LabI r := by
  obtain ⟨L, hL, hlab, hh⟩ := h
  have hX' : ∀ p, X p → s.stack.head? = some p := fun p hx => by rw [hX p hx, hst]; rfl
  have hlabr : Lab r L := Lab.transfer_top lb.hinv lb.chain hp hlab hL hX' he
  cases L with
  | nil => rw [hst] at hL; cases hL
  | cons x L' =>
    obtain ⟨a, pa⟩ := x
    rw [hst] at hL
    simp only [List.map_cons, List.cons.injEq] at hL
    obtain ⟨rfl, hL'⟩ := hL
    refine ⟨L', by rw [st]; exact hL', hlabr.tail, ?_⟩
    intro o hk ha hc
    by_cases ho : o = a
    · subst ho; exact absurd ⟨hk, ha, hc⟩ hexcl
    · have hx : ¬ X o := fun hx => ho (hX o hx)
      obtain ⟨h1, h2, h3⟩ := heads_back hp hk ha hc hx
      rcases hh o h1 h2 h3 with h4 | h4
      · rw [hst] at h4; simp at h4; exact absurd h4.symm ho
      · simp only [List.map_cons, List.mem_cons] at h4
        rcases h4 with h4 | h4
        · -- `o` is the label of the popped entry
          cases L' with
          | nil =>
            have : pa = a := hlab
            exact absurd (h4.trans this) ho
          | cons y L'' =>
            obtain ⟨b, pb⟩ := y
            rcases hlab.2.1 with e | e
            · left
              rw [st, ← hL']; simp [h4, e]
            · right
              simp [h4, e]
        · exact .inr h4

theorem Lab.push {r : State} {top : Nat} : ∀ (ds : List Nat) (L : List (Nat × Nat)) (p0 : Nat),
    Lab r ((top, p0) :: L) → (∀ d ∈ ds, Link r top d) → Lab r (ds.map (fun d => (d, top)) ++ (top, p0) :: L)
  | [], _, _, h, _ => h
  | [d], L, p0, h, hl => ⟨hl d (by simp), .inl rfl, h⟩
  | d :: d' :: ds, L, p0, h, hl => by
    have ih := Lab.push (d' :: ds) L p0 h (fun x hx => hl x (List.mem_cons_of_mem _ hx))
    exact ⟨hl d (by simp), .inr rfl, ih⟩

theorem map_fst_pair (a : Nat) : ∀ l : List Nat, (l.map fun d => (d, a)).map Prod.fst = l
  | [] => rfl
  | d :: l => by
    have := map_fst_pair a l
    simp only [List.map_cons, List.cons.injEq, true_and]
    exact this

theorem lab_push {s r : State} (lb : Lib s) {top : Nat} {stk : List Nat} (hp : Hp (O top) s r)
    (hst : s.stack = top :: stk) (ds : List Nat) (hne : ds ≠ []) (hl : ∀ d ∈ ds, Link r top d)
    (st : r.stack = ds ++ s.stack)
    (he : ∀ p u, s.stack.head? ≠ some p → edgeIn s.ctl p u → edgeIn r.ctl p u) (h : LabI s) : LabI r := by
  obtain ⟨L, hL, hlab, hh⟩ := h
  have hX' : ∀ p, O top p → s.stack.head? = some p := fun p hx => by rw [hx, hst]; rfl
  have hlabr : Lab r L := Lab.transfer_top lb.hinv lb.chain hp hlab hL hX' he
  cases L with
  | nil => rw [hst] at hL; cases hL
  | cons x L' =>
    obtain ⟨a, pa⟩ := x
    have hL0 := hL
    rw [hst] at hL
    simp only [List.map_cons, List.cons.injEq] at hL
    obtain ⟨rfl, hL'⟩ := hL
    refine ⟨ds.map (fun d => (d, a)) ++ (a, pa) :: L', ?_, Lab.push ds L' pa hlabr hl, ?_⟩
    · rw [st, ← hL0, List.map_append, map_fst_pair]
    · intro o hk ha hc
      right
      by_cases ho : o = a
      · subst ho
        cases ds with
        | nil => exact absurd rfl hne
        | cons d ds => simp
      · obtain ⟨h1, h2, h3⟩ := heads_back hp hk ha hc ho
        rcases hh o h1 h2 h3 with h4 | h4
        · rw [hst] at h4; simp at h4; exact absurd h4.symm ho
        · simp only [List.map_append, List.mem_append]
          exact .inr h4

theorem sync_keep {X : Nat → Prop} {s r : State} (hp : Hp X s r) (hs : SyncI s)
    (hX : ∀ p u, X p → ¬ edgeIn s.ctl p u)
    (he : ∀ p u, edgeIn r.ctl p u → edgeIn s.ctl p u ∨ ((r.fut p).kind = .task ∧ syncEdge r p u)) : SyncI r := by
  intro p u hpu
  rcases he p u hpu with h | h
  · obtain ⟨hk, ⟨k, hh, hb⟩, hpn, _⟩ := hs p u h
    obtain ⟨e, _⟩ := hp.task p (fun hx => hX p u hx h) hk
    exact ⟨by rw [hp.kind p (lt_of_kind_task s p hk)]; exact hk,
      ⟨k, hh, by rw [e.body]; exact hb⟩, by rw [e.pending]; exact hpn, hpu⟩
  · exact h

theorem pend_keep {X : Nat → Prop} {s r : State} (hp : Hp X s r) (hpd : PendI s)
    (hg : ∀ t, t ∈ P2.gens s.ctl → ¬ X t → t ∈ P2.gens r.ctl)
    (hX : ∀ t, X t → (r.fut t).kind = .task → r.computed t = false → t ∉ P2.gens r.ctl →
      (r.task t).pending = true) : PendI r := by
  intro t hk hc hn
  by_cases hx : X t
  · exact hX t hx hk hc hn
  · rcases Nat.lt_or_ge t s.futs.length with hl | hl
    · have hks : (s.fut t).kind = .task := by rw [← hp.kind t hl]; exact hk
      obtain ⟨e, c⟩ := hp.task t hx hks
      rw [e.pending]
      exact hpd t hks (by rw [← c]; exact hc) (fun hm => hn (hg t hm hx))
    · exact (hp.fresh t hl hk).1

/-! ### frame discipline facts -/

theorem disc_gen_head {t : Nat} {old : Option Nat} {rest : List Ctl} {st : List Nat}
    (h : P10.disc (.gen t old :: rest) st) : st.head? = some t := h.1

theorem disc_under_wait {w : Ctl} {rest : List Ctl} {st : List Nat} (h : P10.disc (w :: rest) st)
    (hw : (∃ r, w = .waitEnter r) ∨ ∃ r b, w = .waitLoop r b ∧ st.length ≤ b) :
    P10.onGen rest ∧ P10.disc rest st := by
  rcases hw with ⟨r, rfl⟩ | ⟨r, b, rfl, hb⟩
  · exact h
  · obtain ⟨h1, h2, h3⟩ := h
    have : st.length - b = 0 := by omega
    rw [this] at h3
    exact ⟨h2, by simpa using h3⟩

/-- under the innermost `wait_for` frame (not executing above its base) the caller's generator is the stack top -/
theorem not_head_of_pop {s : State} {w : Ctl} {rest : List Ctl} (hc : s.ctl = w :: rest)
    (hd : P10.disc s.ctl s.stack)
    (hw : (∃ r, w = .waitEnter r) ∨ ∃ r b, w = .waitLoop r b ∧ s.stack.length ≤ b) {p : Nat}
    (hne : s.stack.head? ≠ some p) : ¬ ∃ old post, rest = .gen p old :: post := by
  rintro ⟨old, post, e⟩
  rw [hc] at hd
  have := (disc_under_wait hd hw).2
  rw [e] at this
  exact hne (disc_gen_head this)

theorem edge_pop {s : State} {w : Ctl} {rest : List Ctl} (hc : s.ctl = w :: rest) (hd : P10.disc s.ctl s.stack)
    (hw : (∃ r, w = .waitEnter r) ∨ ∃ r b, w = .waitLoop r b ∧ s.stack.length ≤ b) :
    ∀ p u, s.stack.head? ≠ some p → edgeIn s.ctl p u → edgeIn rest p u := by
  intro p u hne h
  rw [hc] at h
  rcases edgeIn_cons_inv h with h | ⟨_, h⟩
  · exact h
  · exact absurd h (not_head_of_pop hc hd hw hne)

theorem isWait_enter (r : Nat) : isWait (.waitEnter r) r := .inl rfl
theorem isWait_loop (r b : Nat) : isWait (.waitLoop r b) r := .inr ⟨b, rfl⟩

theorem isWait_enter_loop (r b : Nat) : ∀ u, isWait (.waitEnter r) u → isWait (.waitLoop r b) u := by
  rintro u (h | ⟨b', h⟩)
  · cases h; exact isWait_loop _ _
  · cases h

theorem isWait_loop_enter (r b : Nat) : ∀ u, isWait (.waitLoop r b) u → isWait (.waitEnter r) u := by
  rintro u (h | ⟨b', h⟩)
  · cases h
  · cases h; exact isWait_enter _

/-! ### one step -/

theorem J_step (s : State) (lb : Lib s) (j : J s) (hg : (step s).guardFired = false) : J (step s) := by
  have hgk : ∀ t old rest, s.ctl = .gen t old :: rest → t < s.futs.length := fun t old rest hc =>
    lt_of_kind_task s t (lb.genKind t (by rw [hc]; simp [P2.gens]))
  have hid : ∀ p u, s.stack.head? ≠ some p → edgeIn s.ctl p u → edgeIn s.ctl p u := fun _ _ _ h => h
  cases step_sc s lb.na lb.items lb.raising hgk with
  | same hp c st =>
    refine ⟨lab_keep lb hp (fun _ h => h.elim) st (by rw [c]; exact hid) j.lab, ?_, ?_⟩
    · exact sync_keep hp j.sync (fun _ _ h => h.elim) (fun p u h => .inl (by rw [c] at h; exact h))
    · exact pend_keep hp j.pend (fun t h _ => by rw [c]; exact h) (fun _ h => h.elim)
  | top f hc hp c st =>
    refine ⟨lab_keep lb hp (fun _ h => h.elim) st ?_ j.lab, ?_, ?_⟩
    · intro p u _ h; rw [hc] at h; exact absurd h edgeIn_nil
    · refine sync_keep hp j.sync (fun _ _ h => h.elim) (fun p u h => ?_)
      rw [c] at h
      rcases edgeIn_cons_inv h with h | ⟨_, _, _, h⟩
      · exact absurd h edgeIn_nil
      · cases h
    · exact pend_keep hp j.pend (fun t h _ => by rw [hc] at h; simp [P2.gens] at h) (fun _ h => h.elim)
  | popEnter root rest hc hp c st =>
    refine ⟨lab_keep lb hp (fun _ h => h.elim) st ?_ j.lab, ?_, ?_⟩
    · rw [c]; exact edge_pop hc lb.disc (.inl ⟨root, rfl⟩)
    · exact sync_keep hp j.sync (fun _ _ h => h.elim)
        (fun p u h => .inl (by rw [c] at h; rw [hc]; exact edgeIn_cons _ h))
    · exact pend_keep hp j.pend (fun t h _ => by rw [c]; rw [hc, gens_waitEnter] at h; exact h) (fun _ h => h.elim)
  | popLoop root base rest hc hlen hp c st =>
    refine ⟨lab_keep lb hp (fun _ h => h.elim) st ?_ j.lab, ?_, ?_⟩
    · rw [c]; exact edge_pop hc lb.disc (.inr ⟨root, base, rfl, hlen⟩)
    · exact sync_keep hp j.sync (fun _ _ h => h.elim)
        (fun p u h => .inl (by rw [c] at h; rw [hc]; exact edgeIn_cons _ h))
    · exact pend_keep hp j.pend (fun t h _ => by rw [c]; rw [hc, gens_waitLoop] at h; exact h) (fun _ h => h.elim)
  | enterLoop root rest hc hp c st =>
    have he : ∀ p u, edgeIn s.ctl p u → edgeIn (step s).ctl p u := by
      intro p u h
      rw [hc] at h; rw [c]
      exact edgeIn_rehead h (isWait_enter_loop root _)
    refine ⟨?_, ?_, ?_⟩
    · obtain ⟨L, hL, hlab, hh⟩ := j.lab
      have hlabr : Lab (step s) L :=
        Lab.transfer_top lb.hinv lb.chain hp hlab hL (fun _ h => h.elim) (fun p u _ h => he p u h)
      have hd := lb.disc
      rw [hc] at hd
      rcases hd.1 with hnil | ⟨t, old, rest', hrest⟩
      · -- the outermost `wait_for`
        rw [hnil] at hd
        have hstk : s.stack = [] := hd.2
        refine ⟨[(root, root)], by rw [st, hstk]; rfl, rfl, ?_⟩
        intro o hk ha hc'
        obtain ⟨h1, h2, h3⟩ := heads_back hp hk ha hc' (fun h => h)
        rcases hh o h1 h2 h3 with h4 | h4
        · rw [hstk] at h4; cases h4
        · have : L = [] := by
            cases L with
            | nil => rfl
            | cons x L => rw [hstk] at hL; cases hL
          rw [this] at h4; cases h4
      · -- a nested `wait_for`, called from the generator of `t`, the top of the stack
        rw [hrest] at hd
        have hhead : s.stack.head? = some t := disc_gen_head hd.2
        cases L with
        | nil => rw [← hL] at hhead; cases hhead
        | cons x L' =>
          obtain ⟨a, pa⟩ := x
          have hat : a = t := by rw [← hL] at hhead; simpa using hhead
          subst hat
          have hedge : edgeIn s.ctl a root := by rw [hc, hrest]; exact edgeIn_head old rest' (isWait_enter root)
          have hl : Link s a root := ⟨(j.sync a root hedge).1, .inr (j.sync a root hedge).2⟩
          have hlr : Link (step s) a root := hl.transfer hp (fun h => h) (he a root)
          refine ⟨(root, a) :: (a, pa) :: L', by rw [st, ← hL]; rfl, ⟨hlr, .inl rfl, hlabr⟩, ?_⟩
          intro o hk ha hc'
          obtain ⟨h1, h2, h3⟩ := heads_back hp hk ha hc' (fun h => h)
          right
          rcases hh o h1 h2 h3 with h4 | h4
          · rw [hhead] at h4
            simp only [Option.some.injEq] at h4
            simp [h4]
          · simp only [List.map_cons, List.mem_cons] at h4 ⊢
            exact .inr h4
    · refine sync_keep hp j.sync (fun _ _ h => h.elim) (fun p u h => .inl ?_)
      rw [c] at h; rw [hc]
      exact edgeIn_rehead h (isWait_loop_enter root _)
    · exact pend_keep hp j.pend (fun t h _ => by rw [c, gens_waitLoop]; rw [hc, gens_waitEnter] at h; exact h)
        (fun _ h => h.elim)
  | flush root base rest hc hlen hp c st =>
    refine ⟨lab_keep lb hp (fun _ h => h.elim) st ?_ j.lab, ?_, ?_⟩
    · intro p u _ h
      rw [hc] at h; rw [c]
      exact edgeIn_rehead h (isWait_loop_enter root base)
    · refine sync_keep hp j.sync (fun _ _ h => h.elim) (fun p u h => .inl ?_)
      rw [c] at h; rw [hc]
      exact edgeIn_rehead h (isWait_enter_loop root base)
    · exact pend_keep hp j.pend (fun t h _ => by rw [c, gens_waitEnter]; rw [hc, gens_waitLoop] at h; exact h)
        (fun _ h => h.elim)
  | pop root base rest top stk hc hst hlen hno hp c st =>
    refine ⟨lab_pop lb hp hst (fun _ h => h.elim) st (by rw [c]; exact hid) ?_ j.lab, ?_, ?_⟩
    · rintro ⟨h1, h2, h3⟩
      rcases hno with h | h
      · rw [hp.comp top h] at h3; cases h3
      · rcases Nat.lt_or_ge top s.futs.length with hl | hl
        · rw [hp.kind top hl] at h1; exact h h1
        · have := (hp.fresh top hl h1).2
          rw [h2] at this; cases this
    · exact sync_keep hp j.sync (fun _ _ h => h.elim) (fun p u h => .inl (by rw [c] at h; exact h))
    · exact pend_keep hp j.pend (fun t h _ => by rw [c]; exact h) (fun _ h => h.elim)
  | suspend root base rest top stk hc hst hlen hk hp hact hpend c st =>
    have hnin := lb.notIn root base rest top stk hc hlen hst
    refine ⟨lab_pop lb hp hst (fun _ h => h) st (by rw [c]; exact hid) ?_ j.lab, ?_, ?_⟩
    · rintro ⟨_, h2, _⟩
      rw [hact] at h2; cases h2
    · exact sync_keep hp j.sync (fun p u hx h => by rw [hx] at h; exact hnin (edgeIn_gens h))
        (fun p u h => .inl (by rw [c] at h; exact h))
    · refine pend_keep hp j.pend (fun t h _ => by rw [c]; exact h) ?_
      intro t hx _ hcr _
      rw [hx, hpend]
      refine j.pend top hk ?_ hnin
      cases hcs : s.computed top with
      | false => rfl
      | true => rw [hx, hp.comp top hcs] at hcr; cases hcr
  | visit root base rest top stk hc hst hlen hk hnc ds hne hds hp hpend hdeps hcomp c st =>
    have hnin := lb.notIn root base rest top stk hc hlen hst
    have hpt : (s.task top).pending = true := j.pend top hk hnc hnin
    refine ⟨lab_push lb hp hst ds hne ?_ st (by rw [c]; exact hid) j.lab, ?_, ?_⟩
    · intro d hd
      refine ⟨by rw [hp.kind top (lt_of_kind_task s top hk)]; exact hk, .inl ⟨hcomp, by rw [hpend]; exact hpt, ?_⟩⟩
      rw [hdeps]; exact hds d hd
    · exact sync_keep hp j.sync (fun p u hx h => by rw [hx] at h; exact hnin (edgeIn_gens h))
        (fun p u h => .inl (by rw [c] at h; exact h))
    · refine pend_keep hp j.pend (fun t h _ => by rw [c]; exact h) ?_
      intro t hx _ _ _
      rw [hx, hpend]; exact hpt
  | enterGen root base rest top stk old hc hst hlen hk hnc hp c st =>
    have hnin := lb.notIn root base rest top stk hc hlen hst
    refine ⟨lab_keep lb hp (fun p hx => by rw [hx, hst]; rfl) st ?_ j.lab, ?_, ?_⟩
    · intro p u _ h; rw [c]; exact edgeIn_cons _ h
    · refine sync_keep hp j.sync (fun p u hx h => by rw [hx] at h; exact hnin (edgeIn_gens h)) (fun p u h => .inl ?_)
      rw [c] at h
      rcases edgeIn_cons_inv h with h | ⟨hw, _⟩
      · exact h
      · exact absurd hw isWait_not_gen
    · refine pend_keep hp j.pend (fun t h _ => by rw [c, gens_gen]; exact List.mem_cons_of_mem _ h) ?_
      intro t hx _ _ hn
      rw [c, gens_gen, hx] at hn
      exact absurd List.mem_cons_self hn
  | gen t old rest hc g =>
    have hd := lb.disc
    rw [hc] at hd
    have hhead : s.stack.head? = some t := disc_gen_head hd
    have hX : ∀ p, O t p → s.stack.head? = some p := fun p hx => by rw [hx]; exact hhead
    have hnod := lb.nodup
    rw [hc] at hnod
    have hXe : ∀ p u, O t p → ¬ edgeIn s.ctl p u := fun p u hx h => by
      rw [hx, hc] at h; exact not_edgeIn_head hnod h
    have hkt : (s.fut t).kind = .task := lb.genKind t (by rw [hc]; simp [P2.gens])
    cases g with
    | stay hp c st =>
      refine ⟨lab_keep lb hp hX st (by rw [c]; exact hid) j.lab, ?_, ?_⟩
      · exact sync_keep hp j.sync hXe (fun p u h => .inl (by rw [c] at h; exact h))
      · refine pend_keep hp j.pend (fun t h _ => by rw [c]; exact h) ?_
        intro p hx _ _ hn
        rw [c, hc, gens_gen, hx] at hn
        exact absurd List.mem_cons_self hn
    | leave hp c st h =>
      have hc' : (step s).ctl = rest := by rw [c, hc]; rfl
      refine ⟨lab_keep lb hp hX st ?_ j.lab, ?_, ?_⟩
      · intro p u _ h
        rw [hc'] ; rw [hc] at h
        rcases edgeIn_cons_inv h with h | ⟨hw, _⟩
        · exact h
        · exact absurd hw isWait_not_gen
      · exact sync_keep hp j.sync hXe (fun p u h => .inl (by rw [hc'] at h; rw [hc]; exact edgeIn_cons _ h))
      · refine pend_keep hp j.pend ?_ ?_
        · intro p hm hx
          rw [hc'] ; rw [hc, gens_gen] at hm
          rcases List.mem_cons.1 hm with hm | hm
          · exact absurd hm hx
          · exact hm
        · intro p hx _ hcr _
          rw [hx] at hcr ⊢
          rcases h with h | h
          · exact h
          · rw [h] at hcr; cases hcr
    | call f hp c st hb hpnd =>
      refine ⟨lab_keep lb hp hX st (by intro p u _ h; rw [c]; exact edgeIn_cons _ h) j.lab, ?_, ?_⟩
      · refine sync_keep hp j.sync hXe (fun p u h => ?_)
        have h0 := h
        rw [c] at h
        rcases edgeIn_cons_inv h with h | ⟨hw, old', post, e⟩
        · exact .inl h
        · right
          rw [hc] at e
          simp only [List.cons.injEq, Ctl.gen.injEq] at e
          obtain ⟨⟨rfl, _⟩, _⟩ := e
          have hu : u = f := by
            rcases hw with hw | ⟨b, hw⟩
            · cases hw; rfl
            · cases hw
          subst hu
          exact ⟨by rw [hp.kind _ (lt_of_kind_task s _ hkt)]; exact hkt, hb, hpnd, h0⟩
      · refine pend_keep hp j.pend (fun t h _ => by rw [c, gens_waitEnter]; exact h) ?_
        intro p hx _ _ hn
        rw [c, gens_waitEnter, hc, gens_gen, hx] at hn
        exact absurd List.mem_cons_self hn
  | guard h => rw [h] at hg; cases hg

theorem J_init (cfg : Cfg) (tops : List (Conv × Body)) (choices : List (Nat × Nat)) : J (initState cfg tops choices) := by
  refine ⟨⟨[], rfl, trivial, ?_⟩, ?_, ?_⟩
  · intro o hk
    rw [fut_default _ o (Nat.zero_le _)] at hk; cases hk
  · intro t u h; exact absurd h edgeIn_nil
  · intro t hk
    rw [fut_default _ t (Nat.zero_le _)] at hk; cases hk

/-! ### reachable states -/

theorem not_mem_gens_of_any {c : List Ctl} {t : Nat}
    (h : (c.any fun x => match x with | .gen u _ => u == t | _ => false) = false) : t ∉ P2.gens c := by
  induction c with
  | nil => simp [P2.gens]
  | cons x c ih =>
    simp only [List.any_cons, Bool.or_eq_false_iff] at h
    cases x with
    | waitEnter r => exact ih h.2
    | waitLoop r b => exact ih h.2
    | gen u o =>
      rw [gens_gen, List.mem_cons]
      rintro (e | e)
      · have := h.1; simp [e] at this
      · exact ih h.2 e

theorem lib_of_ws {s : State} (h : P10.WSReach s) (hg : s.guardFired = false) (hna : NA s) : Lib s := by
  have pi := P2.pinv_reach h.reach
  refine ⟨(P10.ws_hinv h).1, (P10.ws_binv h).chain, (P10.ws_cinv h hg).disc, pi.distinct, pi.genKind, ?_, hna,
    pi.items, (P3.reach_core s h.reach hg).1.raising⟩
  intro root base rest top st hc hlen hst
  exact not_mem_gens_of_any ((P10.ws_binv h).not_inGens (P10.ws_hinv h).1 hc hlen hst)

theorem J_reach {s : State} (h : P10.WSReach s) (hg : s.guardFired = false) (hna : NA s) : J s := by
  induction h with
  | init cfg tops choices _ => exact J_init cfg tops choices
  | @step s hs ih =>
    have hg0 := P3.guard_mono s hg
    have hna0 := na_back s hs.reach hna
    exact J_step s (lib_of_ws hs hg0 hna0) (ih hg0 hna0) hg

end AsynqModel.Core.P12
