import AsynqModel.Proofs.P21Main
import AsynqModel.Proofs.P21GuardC
/-
  P21, part 11: the definitions the theorems of Theorems/C03e.lean are stated with (`oracleOKUpTo`, `FinishedOK`,
  `yieldWidth`, `topsWidth`, `stackBound`) and the last helper lemmas.
-/
namespace AsynqModel.Core.P21
open AsynqModel.Core

/-- the oracle condition on the first `n` states of a run, as a Boolean function -/
def oracleOKUpTo (n : Nat) (s : State) : Bool := (List.range n).all fun i => oracleOK (runFuel i s)

theorem oracleOKUpTo_iff (n : Nat) (s : State) :
    oracleOKUpTo n s = true ↔ ∀ i, i < n → oracleOK (runFuel i s) = true := by
  simp [oracleOKUpTo]


/-- in a flush point the step is the scheduler flush -/
theorem flushPoint_step (s : State) (hfp : flushPoint s = true) :
    ∃ root, step s = s.schedulerFlush root ∧ s.stuck = none := by
  unfold flushPoint at hfp
  split at hfp
  · rename_i root base rest hctl
    simp only [Bool.and_eq_true, Bool.not_eq_true', decide_eq_true_eq, Option.isNone_iff_eq_none] at hfp
    obtain ⟨⟨⟨⟨hs, hr⟩, hlen⟩, hroot⟩, _⟩ := hfp
    exact ⟨root, P1.step_flush s root base ⟨⟨rest, hctl⟩, hs, hr, hlen, hroot⟩, hs⟩
  · cases hfp

/-- the messages with which a scheduler flush can fail -/
theorem schedulerFlush_fail_msg (s : State) (root : Nat) (hs : s.stuck = none) (m : String)
    (hm : (s.schedulerFlush root).stuck = some m) :
    m = "no admissible batch" ∨ m = "unknown batch" ∨ ∃ a b : Nat, m = s!"choice-not-allowed ({a} {b})" := by
  unfold State.schedulerFlush at hm
  dsimp only at hm
  split at hm
  · rw [show (State.stuck _) = s.stuck from rfl, hs] at hm; cases hm
  · split at hm
    · simp only [State.fail] at hm
      injection hm with hm
      exact .inl hm.symm
    · rename_i c _
      split at hm
      · simp only [State.fail] at hm
        injection hm with hm
        exact .inr (.inr ⟨c.1, c.2, hm.symm⟩)
      · split at hm
        · simp only [State.fail] at hm
          injection hm with hm
          exact .inr (.inl hm.symm)
        · rename_i b hb
          exfalso
          rw [show ∀ (x : State) (e : Event), (x.emit e).stuck = x.stuck from fun _ _ => rfl,
            P1.flushBatch_stuck _ c.1 c.2 b (by exact hb)] at hm
          have h2 : s.stuck = some m := hm
          rw [hs] at h2; cases h2


/-- the run is over and NOT stuck: nothing on the Python stack, no top-level computation running or left to run, exactly
    `n0` events `ret` in the trace (every one of the `n0` top-level calls has returned a value or raised), and every
    task that has started is computed -/
def FinishedOK (n0 : Nat) (r : State) : Prop :=
  r.stuck = none ∧ r.ctl = [] ∧ r.curTop = none ∧ r.tops = [] ∧
  (r.trace.filter fun e => match e with | .ret _ => true | _ => false).length = n0 ∧
  ∀ t, (r.fut t).kind = .task → (r.task t).started = true → r.computed t = true

theorem isRet_eq : (fun e : Event => match e with | .ret _ => true | _ => false) = isRet := by
  funext e; cases e <;> rfl

theorem finishedOK_of {n0 : Nat} {r : State} (ri : RunInv n0 r) (hd : r.isDone = true)
    (hall : r.stuck = none → ∀ t, (r.fut t).kind = .task → (r.task t).started = true → r.computed t = true) :
    FinishedOK n0 r := by
  have hs := ri.stuck
  simp only [State.isDone, hs, Option.isSome_none, Bool.false_or, Bool.and_eq_true, List.isEmpty_iff,
    Option.isNone_iff_eq_none] at hd
  obtain ⟨⟨hctl, hcur⟩, htops⟩ := hd
  refine ⟨hs, hctl, hcur, htops, ?_, hall hs⟩
  have hp := ri.pend
  unfold pend at hp
  rw [hcur, htops] at hp
  simp at hp
  rw [isRet_eq]
  exact hp


/-- the widest `yield` of a body (children included) -/
def yieldWidth : Body → Nat
  | .ret _ => 0
  | .res _ => 0
  | .raise _ => 0
  | .reraise => 0
  | .endwith => 0
  | .spawn c _ k => max (yieldWidth c) (yieldWidth k)
  | .item _ _ _ k => yieldWidth k
  | .const _ k => yieldWidth k
  | .errfut _ k => yieldWidth k
  | .lazy _ k => yieldWidth k
  | .read _ k => yieldWidth k
  | .active k => yieldWidth k
  | .yld y k h => max y.leaves.length (max (yieldWidth k) (yieldWidth h))
  | .reyld k h => max (yieldWidth k) (yieldWidth h)
  | .sync c _ k h => max (yieldWidth c) (max (yieldWidth k) (yieldWidth h))
  | .syncfut _ k h => max (yieldWidth k) (yieldWidth h)
  | .syncret _ k h => max (yieldWidth k) (yieldWidth h)
  | .withCtx _ b k => max (yieldWidth b) (yieldWidth k)

theorem ybB_of_width (L : Nat) : ∀ b : Body, yieldWidth b ≤ L → ybB L b = true
  | .ret _, _ => rfl
  | .res _, _ => rfl
  | .raise _, _ => rfl
  | .reraise, _ => rfl
  | .endwith, _ => rfl
  | .spawn c _ k, h => by
    simp only [yieldWidth, Nat.max_le] at h
    simp only [ybB, Bool.and_eq_true]; exact ⟨ybB_of_width L c h.1, ybB_of_width L k h.2⟩
  | .item _ _ _ k, h => by simp only [ybB]; exact ybB_of_width L k h
  | .const _ k, h => by simp only [ybB]; exact ybB_of_width L k h
  | .errfut _ k, h => by simp only [ybB]; exact ybB_of_width L k h
  | .lazy _ k, h => by simp only [ybB]; exact ybB_of_width L k h
  | .read _ k, h => by simp only [ybB]; exact ybB_of_width L k h
  | .active k, h => by simp only [ybB]; exact ybB_of_width L k h
  | .yld y k hh, h => by
    simp only [yieldWidth, Nat.max_le] at h
    simp only [ybB, Bool.and_eq_true, decide_eq_true_eq]
    exact ⟨⟨h.1, ybB_of_width L k h.2.1⟩, ybB_of_width L hh h.2.2⟩
  | .reyld k hh, h => by
    simp only [yieldWidth, Nat.max_le] at h
    simp only [ybB, Bool.and_eq_true]; exact ⟨ybB_of_width L k h.1, ybB_of_width L hh h.2⟩
  | .sync c _ k hh, h => by
    simp only [yieldWidth, Nat.max_le] at h
    simp only [ybB, Bool.and_eq_true]
    exact ⟨⟨ybB_of_width L c h.1, ybB_of_width L k h.2.1⟩, ybB_of_width L hh h.2.2⟩
  | .syncfut _ k hh, h => by
    simp only [yieldWidth, Nat.max_le] at h
    simp only [ybB, Bool.and_eq_true]; exact ⟨ybB_of_width L k h.1, ybB_of_width L hh h.2⟩
  | .syncret _ k hh, h => by
    simp only [yieldWidth, Nat.max_le] at h
    simp only [ybB, Bool.and_eq_true]; exact ⟨ybB_of_width L k h.1, ybB_of_width L hh h.2⟩
  | .withCtx _ b k, h => by
    simp only [yieldWidth, Nat.max_le] at h
    simp only [ybB, Bool.and_eq_true]; exact ⟨ybB_of_width L b h.1, ybB_of_width L k h.2⟩

/-- the widest `yield` of a list of top-level computations -/
def topsWidth (tops : List (Conv × Body)) : Nat := (tops.map fun p => yieldWidth p.2).foldr max 0

theorem le_topsWidth : ∀ (tops : List (Conv × Body)) (p : Conv × Body), p ∈ tops → yieldWidth p.2 ≤ topsWidth tops
  | [], _, h => by cases h
  | q :: tops, p, h => by
    simp only [topsWidth, List.map_cons, List.foldr_cons]
    rcases List.mem_cons.1 h with rfl | h
    · exact Nat.le_max_left _ _
    · exact Nat.le_trans (le_topsWidth tops p h) (Nat.le_max_right _ _)

/-- a static bound of the height of the scheduler stack -/
def stackBound (tops : List (Conv × Body)) : Nat := P20.topsW tops * max (topsWidth tops) 1


end AsynqModel.Core.P21
