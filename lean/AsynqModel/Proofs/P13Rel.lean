import AsynqModel.Proofs.P13Inv
/-!
  P13, part 3: the frame relation `T c x g s s' ctl'` between a state and a later state of the same step, and its
  closure under the helpers of the machine that do not flush.

  `T c x g s s' ctl'`:
  * futures are only added, kinds never change;
  * the body of every task other than `x` is the same, a task other than `x` that was not suspended is not suspended;
  * the control stack of `s'` is `ctl'`, `curTop` is the same;
  * if the observer relation `LI c` holds in `s` it holds in `s'`, the observer's sync stack has changed by `g`, its
    top root is the same.
  `Q c x s s' = T c x id s s' s.ctl`.
-/
namespace AsynqModel.Core.P13
open AsynqModel.Core AsynqModel.Core.Spec AsynqModel.Core.P1

structure T (c : Ctx) (x : Option Nat) (g : List (Nat × Nat) → List (Nat × Nat)) (s s' : State)
    (ctl' : List Ctl) : Prop where
  len : s.futs.length ≤ s'.futs.length
  kind : ∀ f, f < s.futs.length → (s'.fut f).kind = (s.fut f).kind
  body : ∀ t, x ≠ some t → t < s.futs.length →
    (s'.task t).body = (s.task t).body ∧ ((s.task t).pending = false → (s'.task t).pending = false)
  ctl : s'.ctl = ctl'
  top : s'.curTop = s.curTop
  ob : LI c s → LI c s' ∧ (W s').syncStack = g (W s).syncStack ∧ (W s').topRoot = (W s).topRoot

abbrev Q (c : Ctx) (x : Option Nat) (s s' : State) : Prop := T c x id s s' s.ctl

/-- one primitive operation: what it does to a single state -/
structure Op (c : Ctx) (x : Option Nat) (y z : State) : Prop where
  len : y.futs.length ≤ z.futs.length
  kind : ∀ f, f < y.futs.length → (z.fut f).kind = (y.fut f).kind
  body : ∀ t, x ≠ some t → t < y.futs.length →
    (z.task t).body = (y.task t).body ∧ ((y.task t).pending = false → (z.task t).pending = false)
  ctl : z.ctl = y.ctl
  top : z.curTop = y.curTop
  ob : LI c y → LI c z ∧ sview (W z) = sview (W y)

theorem T.refl (c : Ctx) (x : Option Nat) (s : State) : Q c x s s :=
  ⟨Nat.le_refl _, fun _ _ => rfl, fun _ _ _ => ⟨rfl, id⟩, rfl, rfl, fun h => ⟨h, rfl, rfl⟩⟩

theorem T.op {c x g s y z ctl'} (h : T c x g s y ctl') (o : Op c x y z) : T c x g s z ctl' := by
  refine ⟨Nat.le_trans h.len o.len, ?_, ?_, o.ctl.trans (h.ctl), o.top.trans h.top, ?_⟩
  · intro f hf
    rw [o.kind f (Nat.lt_of_lt_of_le hf h.len), h.kind f hf]
  · intro t hx ht
    obtain ⟨b1, p1⟩ := h.body t hx ht
    obtain ⟨b2, p2⟩ := o.body t hx (Nat.lt_of_lt_of_le ht h.len)
    exact ⟨b2.trans b1, fun hp => p2 (p1 hp)⟩
  · intro hs
    obtain ⟨l1, s1, t1⟩ := h.ob hs
    obtain ⟨l2, sv⟩ := o.ob l1
    simp only [sview, Prod.mk.injEq] at sv
    exact ⟨l2, sv.1.trans s1, sv.2.trans t1⟩

theorem T.thenQ {c x g s y z ctl'} (h : T c x g s y ctl') (q : Q c x y z) : T c x g s z ctl' := by
  refine T.op h ⟨q.len, q.kind, q.body, q.ctl, q.top, ?_⟩
  intro hy
  obtain ⟨l, s1, t1⟩ := q.ob hy
  exact ⟨l, by simp only [sview, Prod.mk.injEq]; exact ⟨s1, t1⟩⟩

theorem T.ctl_eq {c x g s s' ctl' ctl''} (h : T c x g s s' ctl') (e : ctl' = ctl'') : T c x g s s' ctl'' := e ▸ h

theorem T.weaken {c g s s' ctl'} (x : Option Nat) (h : T c none g s s' ctl') : T c x g s s' ctl' :=
  { h with body := fun t _ ht => h.body t (by simp) ht }

/-! ### primitive operations -/

theorem fut_of_futs {s s' : State} (h : s'.futs = s.futs) (f : Nat) : s'.fut f = s.fut f := by
  simp [State.fut, h]

theorem task_of_futs {s s' : State} (h : s'.futs = s.futs) (f : Nat) : s'.task f = s.task f := by
  simp [State.task, fut_of_futs h]

/-- nothing the relation looks at changes -/
theorem op_same {c x} {y z : State} (hf : z.futs = y.futs) (ht : z.trace = y.trace) (hb : z.batches = y.batches)
    (hc : z.cfg = y.cfg) (hctl : z.ctl = y.ctl) (htop : z.curTop = y.curTop) : Op c x y z :=
  ⟨Nat.le_of_eq (by rw [hf]), fun f _ => by rw [fut_of_futs hf], fun t _ _ => by rw [task_of_futs hf]; exact ⟨rfl, id⟩, hctl, htop,
   fun h => ⟨h.congr ht hf hb hc, by simp only [W, ht]⟩⟩

theorem op_emit {c x} (y : State) (e : Event) (he : plain e = true) : Op c x y (y.emit e) :=
  ⟨Nat.le_refl _, fun _ _ => rfl, fun _ _ _ => ⟨rfl, id⟩, rfl, rfl,
   fun h => ⟨h.emit_plain e he, sview_emit_plain y e he⟩⟩

theorem task_updTask (s : State) (u t : Nat) (g : TaskSt → TaskSt) :
    (s.updTask u g).task t = if t = u ∧ u < s.futs.length then g (s.task u) else s.task t := by
  simp only [State.task, fut_updTask]
  split <;> rfl

theorem li_updTask {c m} {s : State} (h : LF c m s) (u : Nat) (g : TaskSt → TaskSt) : LF c m (s.updTask u g) :=
  h.transport h.acc rfl (by simp) (fun f => by simp) (fun f => by simp) rfl rfl

/-- an update of a task that leaves its body alone and does not suspend it -/
theorem op_updTask {c x} (y : State) (u : Nat) (g : TaskSt → TaskSt) (hb : ∀ ts, (g ts).body = ts.body)
    (hp : ∀ ts, ts.pending = false → (g ts).pending = false) : Op c x y (y.updTask u g) := by
  refine ⟨by simp, fun f _ => by simp, ?_, rfl, rfl, fun h => ⟨li_updTask h u g, rfl⟩⟩
  intro t _ _
  rw [task_updTask]
  split
  · next h => rw [h.1]; exact ⟨hb _, hp _⟩
  · exact ⟨rfl, id⟩

/-- any update of the exempt task -/
theorem op_updSelf {c} (y : State) (t : Nat) (g : TaskSt → TaskSt) : Op c (some t) y (y.updTask t g) := by
  refine ⟨by simp, fun f _ => by simp, ?_, rfl, rfl, fun h => ⟨li_updTask h t g, rfl⟩⟩
  intro u hx _
  rw [task_updTask]
  have : ¬ (u = t) := fun e => hx (by rw [e])
  simp [this]

theorem task_alloc_lt (s : State) (x : Fut) (nk : NewKind) (t : Nat) (h : t < s.futs.length) :
    (s.alloc x nk).1.task t = s.task t := by
  simp only [State.task, fut_alloc_lt s x nk t h]

theorem op_alloc {c x} (y : State) (fx : Fut) (nk : NewKind) (hx : fx.out.isSome = bornDone nk)
    (hk : ∀ k q idx p m, nk = .item k q idx p m → fx.kind = .item k q p m) : Op c x y (y.alloc fx nk).1 :=
  ⟨by simp, fun f hf => by rw [fut_alloc_lt y fx nk f hf], fun t _ ht => by rw [task_alloc_lt y fx nk t ht]; exact ⟨rfl, id⟩,
   rfl, rfl, fun h => ⟨h.alloc fx nk hx hk, sview_alloc h.base fx nk⟩⟩

theorem task_complete (s : State) (f : Nat) (o : Outcome) (t : Nat) :
    ((s.complete f o).task t).body = (s.task t).body ∧ ((s.complete f o).task t).pending = (s.task t).pending := by
  simp only [State.task, State.complete, fut_emit, fut_setFut]
  split
  · next h => rw [h.1]; split <;> exact ⟨rfl, rfl⟩
  · exact ⟨rfl, rfl⟩

theorem op_complete {c x} (y : State) (f : Nat) (o : Outcome) (hc : y.computed f = false) (hl : f < y.futs.length)
    (hk : ∀ k q p m, (y.fut f).kind ≠ .item k q p m) : Op c x y (y.complete f o) :=
  ⟨by simp, fun g _ => by simp, fun t _ _ => ⟨(task_complete y f o t).1, fun h => by rw [(task_complete y f o t).2]; exact h⟩,
   rfl, rfl, fun h => ⟨h.complete f o hc hl hk, (lview_complete y f o).2.2.2.2.2⟩⟩

/-! ### post-composition forms (for peeling helpers off the outside of the goal) -/

namespace T
variable {c : Ctx} {x : Option Nat} {g : List (Nat × Nat) → List (Nat × Nat)} {s y : State} {ctl' : List Ctl}

theorem emit (h : T c x g s y ctl') (e : Event) (he : plain e = true) : T c x g s (y.emit e) ctl' :=
  h.op (op_emit y e he)

theorem updTask (h : T c x g s y ctl') (u : Nat) (f : TaskSt → TaskSt) (hb : ∀ ts, (f ts).body = ts.body)
    (hp : ∀ ts, ts.pending = false → (f ts).pending = false) : T c x g s (y.updTask u f) ctl' :=
  h.op (op_updTask y u f hb hp)

theorem updSelf {t : Nat} (h : T c (some t) g s y ctl') (f : TaskSt → TaskSt) : T c (some t) g s (y.updTask t f) ctl' :=
  h.op (op_updSelf y t f)

theorem fail (h : T c x g s y ctl') (m : String) : T c x g s (y.fail m) ctl' :=
  h.op (op_same rfl rfl rfl rfl rfl rfl)

theorem popStack (h : T c x g s y ctl') : T c x g s y.popStack ctl' :=
  h.op (op_same rfl rfl rfl rfl rfl rfl)

theorem svSet (h : T c x g s y ctl') (var val : Nat) : T c x g s (y.svSet var val) ctl' := by
  unfold State.svSet
  split <;> exact h.op (op_same rfl rfl rfl rfl rfl rfl)

theorem svTouch (h : T c x g s y ctl') (var : Nat) : T c x g s (y.svTouch var) ctl' := by
  unfold State.svTouch
  split
  · exact h
  · exact h.op (op_same rfl rfl rfl rfl rfl rfl)

theorem ctxSetResumed (h : T c x g s y ctl') (cx : Nat) (r : Bool) : T c x g s (y.ctxSetResumed cx r) ctl' := by
  unfold State.ctxSetResumed
  split
  · exact h.op (op_same rfl rfl rfl rfl rfl rfl)
  · exact h

/-- a record update of any of the fields the relation does not look at -/
theorem mk' (h : T c x g s y ctl') (stack : List Nat) (sbatches : List (Nat × Nat)) (active : Option Nat)
    (ctxs : List CtxSt) (sv : List (Nat × Nat)) (tops : List (Conv × Body)) (topIdx : Nat)
    (raising : Option Err) (choices : List (Nat × Nat)) (stuck : Option String) (guardFired : Bool) :
    T c x g s { cfg := y.cfg, futs := y.futs, batches := y.batches, stack := stack, sbatches := sbatches,
                active := active, ctl := y.ctl, ctxs := ctxs, sv := sv, trace := y.trace, tops := tops,
                topIdx := topIdx, curTop := y.curTop, raising := raising, choices := choices, stuck := stuck,
                guardFired := guardFired } ctl' :=
  h.op (op_same rfl rfl rfl rfl rfl rfl)

/-- any change of fields the relation does not look at, and of the control stack -/
theorem congr' (h : T c x g s y ctl') {z : State} (hf : z.futs = y.futs) (ht : z.trace = y.trace)
    (hb : z.batches = y.batches) (hc : z.cfg = y.cfg) (htop : z.curTop = y.curTop) : T c x g s z z.ctl := by
  refine ⟨by rw [hf]; exact h.len, fun f hl => by rw [fut_of_futs hf]; exact h.kind f hl,
    fun t hx ht' => by rw [task_of_futs hf]; exact h.body t hx ht', rfl, htop.trans h.top, ?_⟩
  intro hs
  obtain ⟨l, s1, t1⟩ := h.ob hs
  have hw : W z = W y := by simp only [W, ht]
  exact ⟨l.congr ht hf hb hc, by rw [hw]; exact s1, by rw [hw]; exact t1⟩

/-- a record update with a new control stack -/
theorem mkCtl (h : T c x g s y ctl') (stack : List Nat) (sbatches : List (Nat × Nat)) (active : Option Nat)
    (ctl : List Ctl) (ctxs : List CtxSt) (sv : List (Nat × Nat)) (tops : List (Conv × Body)) (topIdx : Nat)
    (raising : Option Err) (choices : List (Nat × Nat)) (stuck : Option String) (guardFired : Bool) :
    T c x g s { cfg := y.cfg, futs := y.futs, batches := y.batches, stack := stack, sbatches := sbatches,
                active := active, ctl := ctl, ctxs := ctxs, sv := sv, trace := y.trace, tops := tops,
                topIdx := topIdx, curTop := y.curTop, raising := raising, choices := choices, stuck := stuck,
                guardFired := guardFired } ctl :=
  h.congr' rfl rfl rfl rfl rfl

theorem alloc (h : T c x g s y ctl') (fx : Fut) (nk : NewKind) (hx : fx.out.isSome = bornDone nk)
    (hk : ∀ k q idx p m, nk = .item k q idx p m → fx.kind = .item k q p m) : T c x g s (y.alloc fx nk).1 ctl' :=
  h.op (op_alloc y fx nk hx hk)

theorem newTask (h : T c x g s y ctl') (child : Body) (inh : List Nat) : T c x g s (y.newTask child inh).1 ctl' := by
  unfold State.newTask
  exact h.alloc _ _ rfl (fun _ _ _ _ _ e => by cases e)

/-- completing a future that the pre-state knows as a non-item -/
theorem complete (h : T c x g s y ctl') (f : Nat) (o : Outcome) (hc : y.computed f = false) (hl : f < s.futs.length)
    (hk : ∀ k q p m, (s.fut f).kind ≠ .item k q p m) : T c x g s (y.complete f o) ctl' :=
  h.op (op_complete y f o hc (Nat.lt_of_lt_of_le hl h.len) (by rw [h.kind f hl]; exact hk))

end T

/-- peel helpers off the outside of the goal `T c x g s (F (G (... y))) ctl'` -/
macro "qq" : tactic => `(tactic| repeat' (first
  | assumption
  | exact T.refl _ _ _
  | refine T.emit ?_ _ (by rfl)
  | refine T.updTask ?_ _ _ (fun _ => rfl) (by first | exact fun _ h => h | exact fun _ _ => rfl)
  | refine T.updSelf ?_ _
  | refine T.fail ?_ _
  | refine T.svSet ?_ _ _
  | refine T.svTouch ?_ _
  | refine T.ctxSetResumed ?_ _ _
  | refine T.popStack ?_
  | refine T.newTask ?_ _ _
  | refine T.mk' ?_ ..))

/-! ### contexts -/

namespace T
variable {c : Ctx} {x : Option Nat} {g : List (Nat × Nat) → List (Nat × Nat)} {s y : State} {ctl' : List Ctl}

theorem ctxResumeOne (h : T c x g s y ctl') (cx : Nat) : T c x g s (y.ctxResumeOne cx) ctl' := by
  unfold State.ctxResumeOne
  simp only []
  split
  · split <;> qq
  · qq

theorem ctxPauseOne (h : T c x g s y ctl') (cx : Nat) : T c x g s (y.ctxPauseOne cx) ctl' := by
  unfold State.ctxPauseOne
  simp only []
  split
  · split <;> qq
  · qq

theorem ctxExit (h : T c x g s y ctl') (cx : Nat) : T c x g s (y.ctxExit cx) ctl' := by
  unfold State.ctxExit
  extract_lets owner s1 active s2
  clear_value owner
  have h1 : T c x g s s1 ctl' := by simp only [s1]; split <;> qq
  have h2 : T c x g s s2 ctl' := by
    simp only [s2]; split
    · exact h1
    · exact h1.ctxPauseOne cx
  qq

theorem foldl_ctxExit (l : List (Nat × Body)) {y : State} (h : T c x g s y ctl') :
    T c x g s (l.foldl (fun s p => s.ctxExit p.1) y) ctl' := by
  induction l generalizing y with
  | nil => exact h
  | cons p l ih => exact ih (h.ctxExit p.1)

theorem exitAll (h : T c x g s y ctl') (t : Nat) : T c x g s (y.exitAll t) ctl' := by
  unfold State.exitAll
  exact (foldl_ctxExit _ h).updTask _ _ (fun _ => rfl) (fun _ hp => hp)

theorem failSuspended (h : T c x g s y ctl') (t : Nat) (e : Err) (hl : t < s.futs.length)
    (hk : (s.fut t).kind = .task) : T c x g s (y.failSuspended t e) ctl' := by
  unfold State.failSuspended
  split
  · exact h
  · next hc =>
    refine T.complete ?_ _ _ (by simpa using hc) hl (by rw [hk]; intro _ _ _ _ e; cases e)
    exact (h.exitAll t).updTask _ _ (fun _ => rfl) (fun _ _ => rfl)

theorem foldl_resume (l : List Nat) {y : State} (h : T c x g s y ctl') :
    T c x g s (l.foldl (fun s c => if s.ctxIsNonAsync c then s else s.ctxResumeOne c) y) ctl' := by
  induction l generalizing y with
  | nil => exact h
  | cons a l ih =>
    refine ih ?_
    show T c x g s (if _ then _ else _) ctl'
    split
    · exact h
    · exact h.ctxResumeOne a

theorem foldl_pause (l : List Nat) {y : State} (h : T c x g s y ctl') :
    T c x g s (l.foldl (fun s c => if s.ctxIsNonAsync c then s else s.ctxPauseOne c) y) ctl' := by
  induction l generalizing y with
  | nil => exact h
  | cons a l ih =>
    refine ih ?_
    show T c x g s (if _ then _ else _) ctl'
    split
    · exact h
    · exact h.ctxPauseOne a

theorem resumeContexts (h : T c x g s y ctl') (t : Nat) (hl : t < s.futs.length) (hk : (s.fut t).kind = .task) :
    T c x g s (y.resumeContexts t) ctl' := by
  unfold State.resumeContexts
  simp only []
  split
  · exact h
  · split
    · refine T.failSuspended ?_ _ _ hl hk
      refine foldl_resume _ ?_
      exact h.updTask _ _ (fun _ => rfl) (fun _ hp => hp)
    · refine foldl_resume _ ?_
      exact h.updTask _ _ (fun _ => rfl) (fun _ hp => hp)

theorem pauseContexts (h : T c x g s y ctl') (t : Nat) (hl : t < s.futs.length) (hk : (s.fut t).kind = .task) :
    T c x g s (y.pauseContexts t) ctl' := by
  unfold State.pauseContexts
  simp only []
  split
  · exact h
  · split
    · refine T.failSuspended ?_ _ _ hl hk
      refine foldl_pause _ ?_
      exact h.updTask _ _ (fun _ => rfl) (fun _ hp => hp)
    · refine foldl_pause _ ?_
      exact h.updTask _ _ (fun _ => rfl) (fun _ hp => hp)

end T

end AsynqModel.Core.P13
