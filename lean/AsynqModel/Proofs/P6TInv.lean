import AsynqModel.Proofs.P6TPhi
import AsynqModel.Proofs.P6TOrder
/-
  P6T (termination, property C03), part 8: the combined invariant `InvT` of well-scoped yield-only runs and its
  preservation; elementary facts about which branch of `step` is taken.
-/
namespace AsynqModel.Core.P6T
open AsynqModel.Core AsynqModel.Core.P6

structure InvT (s : State) (P : Nat → List Nat) : Prop where
  a : InvA s
  b : InvB s
  c : InvC s P
  sS : InvS s
  w : WSInv s
  core : P3.Core s

theorem invT_init (cfg : Cfg) (tops : List (Conv × Body)) (choices : List (Nat × Nat))
    (h : ∀ p ∈ tops, Spec.bodyHasSync p.2 = false ∧ Spec.bodyHasNonAsync p.2 = false ∧ wsBody p.2 = true) :
    InvT (initState cfg tops choices) (fun _ => []) :=
  ⟨invA_init cfg tops choices (fun p hp => ⟨(h p hp).1, (h p hp).2.1⟩), invB_init cfg tops choices,
   invC_init cfg tops choices, invS_init cfg tops choices,
   wsInv_init cfg tops choices (fun p hp => (h p hp).2.2), P3.core_init cfg tops choices⟩

/-! ### which branch of `step` -/

theorem step_nil_some (s : State) (hs : s.stuck = none) (hctl : s.ctl = []) (f : Nat) (hc : s.curTop = some f) :
    step s = s.finishTop f := by
  unfold step; simp [hs, hctl, hc]

theorem step_waitEnter_ret (s : State) (hs : s.stuck = none) (hr : s.raising = none) {root : Nat} {rest : List Ctl}
    (hctl : s.ctl = .waitEnter root :: rest) (hc : s.computed root = true) : step s = s.returnFromWait := by
  unfold step; simp [hs, hctl, hr, hc]

theorem step_waitEnter_loop (s : State) (hs : s.stuck = none) (hr : s.raising = none) {root : Nat} {rest : List Ctl}
    (hctl : s.ctl = .waitEnter root :: rest) (hc : s.computed root = false) :
    step s = { s with ctl := .waitLoop root s.stack.length :: s.ctl.tail, stack := root :: s.stack } := by
  unfold step; simp [hs, hctl, hr, hc]

theorem step_waitLoop_iter (s : State) (hs : s.stuck = none) (hr : s.raising = none) {root base : Nat}
    {rest : List Ctl} (hctl : s.ctl = .waitLoop root base :: rest) (hl : s.stack.length > base) :
    step s = s.executeIter := by
  unfold step; simp [hs, hctl, hr, hl]

theorem step_waitLoop_ret (s : State) (hs : s.stuck = none) (hr : s.raising = none) {root base : Nat}
    {rest : List Ctl} (hctl : s.ctl = .waitLoop root base :: rest) (hl : s.stack.length ≤ base)
    (hc : s.computed root = true) : step s = s.returnFromWait := by
  unfold step
  have : ¬ base < s.stack.length := by omega
  simp [hs, hctl, hr, this, hc]

theorem step_waitLoop_flush (s : State) (hs : s.stuck = none) (hr : s.raising = none) {root base : Nat}
    {rest : List Ctl} (hctl : s.ctl = .waitLoop root base :: rest) (hl : s.stack.length ≤ base)
    (hc : s.computed root = false) : step s = s.schedulerFlush root := by
  unfold step
  have : ¬ base < s.stack.length := by omega
  simp [hs, hctl, hr, this, hc]

theorem step_gen (s : State) (hs : s.stuck = none) (hr : s.raising = none) {t : Nat} {old : Option Nat}
    {rest : List Ctl} (hctl : s.ctl = .gen t old :: rest) : step s = s.genStep t old := by
  unfold step; simp [hs, hctl, hr]

/-- an iteration of `_execute` changes the height of the task stack or of the control stack -/
theorem executeIter_progress (s : State) (hn : NoNA s) (hst : s.executeIter.stuck = none)
    (hg : s.executeIter.guardFired = false) :
    s.executeIter.stack.length ≠ s.stack.length ∨ s.executeIter.ctl.length ≠ s.ctl.length := by
  revert hst hg
  unfold State.executeIter
  split
  · intro h; simp at h
  · rename_i top st hstk
    split
    · intro _ h; simp [State.raiseOutOfWait] at h
    · split
      · intro _ _; left; simp [State.popStack, hstk]
      · rename_i hc
        split
        · -- task
          intro hst _
          revert hst
          unfold State.handleTask
          dsimp only
          split
          · rename_i hbl
            split
            · intro _
              left
              have h := (P3.q_updTask (P := P3.N) s top fun ts => { ts with depsSched := false }).trans
                (P3.q_pauseContexts (s.updTask top fun ts => { ts with depsSched := false }) top)
              show ((s.updTask top _).pauseContexts top).stack.tail.length ≠ _
              rw [h.stack, hstk]; simp
            · rename_i hfl
              intro _
              left
              have hfl' : (s.task top).depsSched = false := by simpa using hfl
              have := handleTask_first_stack' s top hn hbl hfl'
              unfold State.handleTask at this
              simp only [hbl, hfl', if_true, Bool.false_eq_true, if_false] at this
              rw [this]
              obtain ⟨d, hd, hcd⟩ := any_not_computed.1 hbl
              have hmem : d ∈ (s.task top).deps.filter fun d => !s.computed d :=
                List.mem_filter.2 ⟨hd, by simp [hcd]⟩
              have hpos : 0 < ((s.task top).deps.filter fun d => !s.computed d).length :=
                List.length_pos_of_mem hmem
              simp only [List.length_append, List.length_reverse]
              omega
          · split
            · intro h; simp at h
            · intro _
              right
              have h := P3.q_resumeContexts s top
              show (Ctl.gen top _ :: (s.resumeContexts top).ctl).length ≠ _
              rw [h.ctl]; simp
        · intro _ _
          left
          split
          · split <;> simp [State.popStack, hstk]
          · simp [State.popStack, hstk]
        · intro _ _; left; simp [State.popStack, State.complete, State.setFut, State.emit, hstk]
        · intro h; simp at h

/-! ### the invariant is preserved -/

theorem isFlush_ctl (s : State) (hs : s.stuck = none) (hr : s.raising = none) (h : IsFlush s) :
    (step s).ctl ≠ s.ctl ∧ (step s).ctl ≠ s.ctl.tail := by
  obtain ⟨root, base, rest, hctl, hl, hc⟩ := h
  rw [step_waitLoop_flush s hs hr hctl hl hc, (P3.schedulerFlush_trans s root).ctl, hctl]
  refine ⟨(fun e => by injection e with e1 _; cases e1), fun e => ?_⟩
  have := congrArg List.length e
  simp at this

theorem invT_step {s : State} {P : Nat → List Nat} (h : InvT s P) (hs : s.stuck = none)
    (hst : (step s).stuck = none) (hg : (step s).guardFired = false) :
    ∃ P', InvT (step s) P' ∧ ((∀ t old rest, s.ctl ≠ .gen t old :: rest) → P' = P) := by
  obtain ⟨hA, hB, hC, hS, hW, hcore⟩ := h
  have hr := hcore.raising
  have hgen : ∀ t old rest, s.ctl = .gen t old :: rest → (view s t).kind = .task ∧ okV (view s t) :=
    fun t old rest hc => ⟨(hA.gen t old rest hc).1, hA.ok t⟩
  have d := step_desc s hs hr hA.noNA hgen hst hg
  obtain ⟨h1, h2⟩ := core_facts hcore hA.shape
  have hsbi : ∀ top st k q p m b, s.stack = top :: st → (∃ root base rest, s.ctl = .waitLoop root base :: rest) →
      s.computed top = false → (view s top).kind = .item k q p m → s.batch? k q = some b → b.flushed = false →
      (k, q) ∈ (step s).sbatches := by
    intro top st k q p m b hstk ⟨root, base, rest, hw⟩ hc hk hb hf
    refine sb_step_item s root base rest hw hs hr top st hstk ?_ hg hc hk hb hf
    rw [h2 root base rest hw, hstk]; simp
  obtain ⟨P', hC', hS', hP⟩ := invCS_step hA hB hC hS d (hW.stepScoped hA) h1 h2 (isFlush_ctl s hs hr)
    (fun hnf => sb_step_mono s hnf hg) hsbi
  have hcore' : P3.Core (step s) := by
    rcases P3.step_core s with ⟨_, _, e⟩ | ⟨_, h3⟩
    · rw [e, P3.guardReset_guardFired] at hg; cases hg
    · exact (h3 hcore).1
  exact ⟨P', ⟨invA_step hA d, invB_step hB d, hC', hS', wsInv_step hA hW d, hcore'⟩, hP⟩

end AsynqModel.Core.P6T
