import AsynqModel.Proofs.P12Inv
/-!
  P12: from the invariant `J` to the statements about context objects.
-/
namespace AsynqModel.Core.P12
open AsynqModel.Core P5 P7

/-- an uncomputed task whose contexts are active waits for the entry on top of the task stack -/
theorem active_awaits_top {s : State} (j : J s) {o top : Nat} {stk : List Nat} (hst : s.stack = top :: stk)
    (hk : (s.fut o).kind = .task) (ha : (s.task o).ctxActive = true) (hc : s.computed o = false) :
    awaitsStar s o top := by
  obtain ⟨L, hL, hlab, hh⟩ := j.lab
  rcases hh o hk ha hc with h | h
  · rw [hst] at h
    simp only [List.head?_cons, Option.some.injEq] at h
    rw [h]; exact .refl _
  · cases L with
    | nil => cases h
    | cons x L' =>
      obtain ⟨a, pa⟩ := x
      rw [hst] at hL
      simp only [List.map_cons, List.cons.injEq] at hL
      obtain ⟨rfl, _⟩ := hL
      exact Lab.star_top hlab rfl h

/-- ... and the task stack is not empty -/
theorem active_stack_ne {s : State} (j : J s) {o : Nat} (hk : (s.fut o).kind = .task)
    (ha : (s.task o).ctxActive = true) (hc : s.computed o = false) : s.stack ≠ [] := by
  obtain ⟨L, hL, _, hh⟩ := j.lab
  intro hnil
  rcases hh o hk ha hc with h | h
  · rw [hnil] at h; cases h
  · cases L with
    | nil => cases h
    | cons x L' => rw [hnil] at hL; cases hL

/-- the owner of a resumed context: an uncomputed task with active contexts, with which the context is registered -/
theorem resumed_owner {s : State} (h : Reach s) (hg : s.guardFired = false) (hna : NA s) {c : Nat} {x : CtxSt}
    (hx : s.ctxs[c]? = some x) (hr : x.resumed = true) :
    ∃ o, x.owner = some o ∧ c ∈ (s.task o).ctxs ∧ (s.fut o).kind = .task ∧ (s.task o).ctxActive = true ∧
      s.computed o = false := by
  have k := K_reach h hg hna
  obtain ⟨o, ho, hm⟩ := k.reg c x hx hr
  obtain ⟨y, hy, _, hyr⟩ := (I_reach h).j.reg o c hm
  rw [hx] at hy; cases hy
  have hact : (s.task o).ctxActive = true := by
    rcases hyr with hk | hk
    · exact absurd hk (hna c x hx)
    · simpa [hr] using hk.symm
  obtain ⟨h1, h2⟩ := k.live o (fun h0 => by rw [h0] at hm; cases hm)
  exact ⟨o, ho, hm, h1, hact, h2⟩

theorem step_eq_flush (s : State) (hs : s.stuck = none) (root base : Nat) (rest : List Ctl)
    (hctl : s.ctl = .waitLoop root base :: rest) (hr : s.raising = none) (hlen : s.stack.length ≤ base)
    (hnc : s.computed root = false) : step s = s.schedulerFlush root := by
  unfold step
  have : ¬ s.stack.length > base := by omega
  simp [hs, hctl, hr, this, hnc]

theorem step_eq_return (s : State) (hs : s.stuck = none) (root base : Nat) (rest : List Ctl)
    (hctl : s.ctl = .waitLoop root base :: rest) (hr : s.raising = none) (hlen : s.stack.length ≤ base)
    (hc : s.computed root = true) : step s = s.returnFromWait := by
  unfold step
  have : ¬ s.stack.length > base := by omega
  simp [hs, hctl, hr, this, hc]

end AsynqModel.Core.P12
