import AsynqModel.Proofs.P17G1
import AsynqModel.Proofs.P5Ctx
import AsynqModel.Proofs.P7Defs
/-!
  P17, part 4: the relation `G2 s` between the observer's table of context objects and the machine's, and its
  preservation by the primitive operations.

  `cv w`: the observer's contexts as `(id, owner, kind, isOpen)`, newest first.
  * `keys` : the observer knows exactly the context objects of the machine, in creation order;
  * `kind`, `owner` : with the machine's kind and owner (`_active_task` at `__enter__`), an existing task;
  * `mem`  : a context is registered with task `u` iff the observer has it open with owner `u`;
  * `sort` : the registered contexts of a task are in creation order.
-/
namespace AsynqModel.Core.P17
open AsynqModel.Core AsynqModel.Core.Spec
open AsynqModel.Core.P13 (obs W)
open AsynqModel.Core.P7 (kindOf)

def cv (w : Watch) : List (Nat × Nat × CtxKind × Bool) :=
  w.ctxs.map fun p => (p.1, p.2.owner, p.2.kind, p.2.isOpen)

def ownerOf (s : State) (c : Nat) : Option Nat :=
  match s.ctxs[c]? with
  | some x => x.owner
  | none => none

/-- the block of context `c` has been left -/
def closeC (c : Nat) (l : List (Nat × Nat × CtxKind × Bool)) : List (Nat × Nat × CtxKind × Bool) :=
  l.map fun e => if e.1 == c then (e.1, e.2.1, e.2.2.1, false) else e

def plain2 : Event → Bool
  | .ctxN _ _ _ => false
  | .ctxX _ => false
  | _ => true

theorem cv_ctx (w : Watch) (r : Bool) (c : Nat) : cv (watchEvent w (.ctx r c)) = cv w := by
  have : (watchEvent w (.ctx r c)).ctxs =
      w.ctxs.map (fun (p : Nat × CtxW) => if p.1 == c then (p.1, { p.2 with resumed := r }) else p) := by
    cases r <;> rfl
  simp only [cv, this, List.map_map]
  apply List.map_congr_left
  intro p _
  simp only [Function.comp]
  split <;> rfl

theorem cv_plain (w : Watch) (e : Event) (h : plain2 e = true) : cv (watchEvent w e) = cv w := by
  cases e <;> simp [plain2] at h
  case ctx r c => exact cv_ctx w r c
  case new f k => cases k <;> simp [watchEvent, cv] <;> split <;> rfl
  all_goals simp [watchEvent, cv, Watch.mention]

theorem cv_ctxN (w : Watch) (c t : Nat) (k : CtxKind) : cv (watchEvent w (.ctxN c t k)) = (c, t, k, true) :: cv w := rfl

theorem cv_ctxX (w : Watch) (c : Nat) : cv (watchEvent w (.ctxX c)) = closeC c (cv w) := by
  simp only [watchEvent, cv, closeC, List.map_map]
  apply List.map_congr_left
  intro p _
  simp only [Function.comp]
  split <;> rfl

structure G2 (s : State) : Prop where
  keys : (cv (W s)).map (·.1) = (List.range s.ctxs.length).reverse
  kind : ∀ e ∈ cv (W s), kindOf s e.1 = e.2.2.1
  owner : ∀ e ∈ cv (W s), e.2.1 < s.futs.length ∧ ownerOf s e.1 = some e.2.1
  mem : ∀ u c, c ∈ (s.task u).ctxs ↔ ∃ k, (c, u, k, true) ∈ cv (W s)
  sort : ∀ u, (s.task u).ctxs.Pairwise (· < ·)

/-- the context table of `s'` has the same static content as that of `s` -/
structure CS (s s' : State) : Prop where
  len : s'.ctxs.length = s.ctxs.length
  kind : ∀ c, kindOf s' c = kindOf s c
  owner : ∀ c, ownerOf s' c = ownerOf s c

theorem CS.of_eq {s s' : State} (h : s'.ctxs = s.ctxs) : CS s s' :=
  ⟨by rw [h], fun c => by unfold kindOf; rw [h], fun c => by unfold ownerOf; rw [h]⟩

theorem CS.refl (s : State) : CS s s := CS.of_eq rfl

theorem CS.of_flagOp {s s' : State} {c : Nat} {b : Bool} (h : P5.FlagOp s s' c b) : CS s s' := by
  have key : ∀ c' : Nat, (s'.ctxs[c']?).map (fun (x : CtxSt) => (x.kind, x.owner)) = (s.ctxs[c']?).map (fun (x : CtxSt) => (x.kind, x.owner)) := by
    intro c'
    by_cases hc : c' = c
    · subst hc
      cases hx : s.ctxs[c']? with
      | none =>
        have : s.ctxs.length ≤ c' := by
          rcases Nat.lt_or_ge c' s.ctxs.length with h' | h'
          · rw [List.getElem?_eq_getElem h'] at hx; cases hx
          · exact h'
        rw [List.getElem?_eq_none (by rw [h.len]; exact this)]
      | some x =>
        obtain ⟨x', h1, h2, h3, _⟩ := h.eq x hx
        rw [h1]; simp [h2, h3]
    · rw [h.ne c' hc]
  refine ⟨h.len, fun c' => ?_, fun c' => ?_⟩
  · have := key c'
    unfold kindOf
    cases h1 : s'.ctxs[c']? <;> cases h2 : s.ctxs[c']? <;> simp_all
  · have := key c'
    unfold ownerOf
    cases h1 : s'.ctxs[c']? <;> cases h2 : s.ctxs[c']? <;> simp_all

/-- a transition that changes nothing `G2` looks at -/
theorem G2.transport {s s' : State} (h : G2 s) (hv : cv (W s') = cv (W s)) (hc : CS s s')
    (hlen : s.futs.length ≤ s'.futs.length) (ht : ∀ u, (s'.task u).ctxs = (s.task u).ctxs) : G2 s' := by
  refine ⟨by rw [hv, hc.len]; exact h.keys, ?_, ?_, ?_, fun u => by rw [ht]; exact h.sort u⟩
  · intro e he; rw [hv] at he; rw [hc.kind]; exact h.kind e he
  · intro e he; rw [hv] at he; rw [hc.owner]
    exact ⟨Nat.lt_of_lt_of_le (h.owner e he).1 hlen, (h.owner e he).2⟩
  · intro u c; rw [ht, hv]; exact h.mem u c

theorem G2.of_eq {s s' : State} (hf : s'.futs = s.futs) (ht : s'.trace = s.trace) (hx : s'.ctxs = s.ctxs)
    (h : G2 s) : G2 s' :=
  h.transport (by simp only [W, ht]) (CS.of_eq hx) (by rw [hf]; exact Nat.le_refl _)
    (fun u => by rw [task_of_futs hf])

theorem G2.emit_plain {s : State} (e : Event) (he : plain2 e = true) (h : G2 s) : G2 (s.emit e) :=
  h.transport (cv_plain _ e he) (CS.of_eq rfl) (Nat.le_refl _) (fun _ => rfl)

theorem G2.updTask_keep {s : State} (t : Nat) (g : TaskSt → TaskSt) (hg : ∀ ts, (g ts).ctxs = ts.ctxs) (h : G2 s) :
    G2 (s.updTask t g) := by
  refine h.transport rfl (CS.of_eq rfl) (by simp) (fun u => ?_)
  rw [task_updTask]; split
  · next hc => rw [hg, hc.1]
  · rfl

theorem ctxs_complete (s : State) (f u : Nat) (o : Outcome) : ((s.complete f o).task u).ctxs = (s.task u).ctxs := by
  unfold State.task
  rw [P2.fut_complete]
  split
  · next hc => rw [hc.1]; dsimp only; split <;> rfl
  · rfl

theorem G2.complete {s : State} (f : Nat) (o : Outcome) (h : G2 s) : G2 (s.complete f o) :=
  h.transport (cv_plain _ _ rfl) (CS.of_eq rfl) (by simp [State.complete]) (fun u => ctxs_complete s f u o)

theorem G2.flag {s s' : State} {c : Nat} {b : Bool} (op : P5.FlagOp s s' c b) (h : G2 s) : G2 s' := by
  refine h.transport ?_ (CS.of_flagOp op) (by rw [op.futs]; exact Nat.le_refl _) (fun u => by rw [op.task])
  simp only [W, op.trace, P13.obs_cons]
  exact cv_plain _ _ rfl

theorem G2.ctxResumeOne {s : State} (c : Nat) (h : G2 s) : G2 (s.ctxResumeOne c) := h.flag (P5.flagOp_resume s c)
theorem G2.ctxPauseOne {s : State} (c : Nat) (h : G2 s) : G2 (s.ctxPauseOne c) := h.flag (P5.flagOp_pause s c)

/-- an allocation: the new future has no contexts -/
theorem G2.alloc {s : State} (x : Fut) (nk : NewKind) (hx : x.ts.ctxs = []) (h : G2 s) : G2 (s.alloc x nk).1 := by
  have hv : cv (W (s.alloc x nk).1) = cv (W s) := cv_plain _ _ rfl
  refine ⟨by rw [hv]; exact h.keys, ?_, ?_, ?_, ?_⟩
  · intro e he; rw [hv] at he; exact h.kind e he
  · intro e he; rw [hv] at he
    exact ⟨by have := (h.owner e he).1; simp; omega, (h.owner e he).2⟩
  · intro u c
    rw [hv, task_alloc]
    split
    · next hu =>
      rw [hx]
      constructor
      · intro hm; cases hm
      · rintro ⟨k, hk⟩
        have := (h.owner _ hk).1
        simp only at this
        omega
    · exact h.mem u c
  · intro u
    rw [task_alloc]; split
    · rw [hx]; exact List.Pairwise.nil
    · exact h.sort u


theorem CS.trans {a b d : State} (h1 : CS a b) (h2 : CS b d) : CS a d :=
  ⟨h2.len.trans h1.len, fun c => (h2.kind c).trans (h1.kind c), fun c => (h2.owner c).trans (h1.owner c)⟩

/-! ### entering a with-block -/

theorem key_lt {s : State} (h : G2 s) {e : Nat × Nat × CtxKind × Bool} (he : e ∈ cv (W s)) : e.1 < s.ctxs.length := by
  have : e.1 ∈ (cv (W s)).map (·.1) := List.mem_map.2 ⟨e, he, rfl⟩
  rw [h.keys] at this
  simpa using this

/-- `with c:` - the `ctxN` event, the new context object, its registration with the active task `t` -/
def enterSt (s : State) (t : Nat) (cx : CtxKind) : State :=
  ({ (s.emit (.ctxN s.ctxs.length t cx)) with
      ctxs := s.ctxs ++ [({ kind := cx, owner := s.active } : CtxSt)] } : State).updTask t
    fun ts => { ts with ctxs := ts.ctxs ++ [s.ctxs.length] }

theorem G2.enter {s : State} (t : Nat) (cx : CtxKind) (ha : s.active = some t) (ht : t < s.futs.length) (h : G2 s) :
    G2 (enterSt s t cx) := by
  have hvv : cv (W (enterSt s t cx)) = (s.ctxs.length, t, cx, true) :: cv (W s) := cv_ctxN _ _ _ _
  have hctxs : (enterSt s t cx).ctxs = s.ctxs ++ [({ kind := cx, owner := s.active } : CtxSt)] := rfl
  have htask : ∀ u, ((enterSt s t cx).task u).ctxs =
      if u = t then (s.task u).ctxs ++ [s.ctxs.length] else (s.task u).ctxs := by
    intro u
    unfold enterSt
    rw [task_updTask]
    by_cases hu : u = t
    · subst hu
      rw [if_pos ⟨rfl, ht⟩, if_pos rfl]; rfl
    · rw [if_neg (fun hc => hu hc.1), if_neg hu]; rfl
  have hold : ∀ c', c' < s.ctxs.length →
      (s.ctxs ++ [({ kind := cx, owner := s.active } : CtxSt)])[c']? = s.ctxs[c']? := fun c' hc' =>
    List.getElem?_append_left hc'
  have hnew : (s.ctxs ++ [({ kind := cx, owner := s.active } : CtxSt)])[s.ctxs.length]? =
      some ({ kind := cx, owner := s.active } : CtxSt) := by simp
  refine ⟨?_, ?_, ?_, ?_, ?_⟩
  · rw [hvv, hctxs]
    simp only [List.map_cons, List.length_append, List.length_cons, List.length_nil, Nat.zero_add]
    rw [h.keys, List.range_succ, List.reverse_append]
    rfl
  · intro e he
    rw [hvv] at he
    rcases List.mem_cons.1 he with rfl | he
    · simp only [kindOf, hctxs, hnew]
    · have := key_lt h he
      simp only [kindOf, hctxs, hold _ this]
      exact h.kind e he
  · intro e he
    rw [hvv] at he
    rcases List.mem_cons.1 he with rfl | he
    · exact ⟨by show t < (enterSt s t cx).futs.length; unfold enterSt; simpa using ht,
        by simp only [ownerOf, hctxs, hnew]; exact ha⟩
    · have := key_lt h he
      refine ⟨by show e.2.1 < (enterSt s t cx).futs.length; unfold enterSt; simpa using (h.owner e he).1, ?_⟩
      simp only [ownerOf, hctxs, hold _ this]
      exact (h.owner e he).2
  · intro u c
    rw [hvv, htask]
    constructor
    · intro hm
      by_cases hu : u = t
      · rw [if_pos hu] at hm
        rcases List.mem_append.1 hm with hm | hm
        · obtain ⟨k, hk⟩ := (h.mem u c).1 hm
          exact ⟨k, List.mem_cons_of_mem _ hk⟩
        · simp only [List.mem_singleton] at hm
          subst hm; subst hu
          exact ⟨cx, List.mem_cons_self⟩
      · rw [if_neg hu] at hm
        obtain ⟨k, hk⟩ := (h.mem u c).1 hm
        exact ⟨k, List.mem_cons_of_mem _ hk⟩
    · rintro ⟨k, hk⟩
      rcases List.mem_cons.1 hk with e | hk
      · simp only [Prod.mk.injEq] at e
        obtain ⟨rfl, rfl, _⟩ := e
        rw [if_pos rfl]; simp
      · have := (h.mem u c).2 ⟨k, hk⟩
        split
        · exact List.mem_append_left _ this
        · exact this
  · intro u
    rw [htask]
    split
    · rw [List.pairwise_append]
      refine ⟨h.sort u, List.pairwise_singleton _ _, ?_⟩
      intro a ha' b hb
      simp only [List.mem_singleton] at hb
      subst hb
      obtain ⟨k, hk⟩ := (h.mem u a).1 ha'
      exact key_lt h hk
    · exact h.sort u

/-! ### leaving a with-block -/

theorem mem_closeC {c : Nat} {l : List (Nat × Nat × CtxKind × Bool)} {e : Nat × Nat × CtxKind × Bool}
    (h : e ∈ closeC c l) : ∃ e0 ∈ l, e.1 = e0.1 ∧ e.2.1 = e0.2.1 ∧ e.2.2.1 = e0.2.2.1 ∧
      (e0.1 ≠ c → e = e0) ∧ (e0.1 = c → e.2.2.2 = false) := by
  obtain ⟨e0, h0, rfl⟩ := List.mem_map.1 h
  refine ⟨e0, h0, ?_⟩
  by_cases hc : e0.1 = c
  · simp [hc]
  · simp [hc]

theorem closeC_fst (c : Nat) (l : List (Nat × Nat × CtxKind × Bool)) : (closeC c l).map (·.1) = l.map (·.1) := by
  simp only [closeC, List.map_map]
  apply List.map_congr_left
  intro e _
  simp only [Function.comp]
  split <;> rfl

theorem mem_closeC_of_ne {c : Nat} {l : List (Nat × Nat × CtxKind × Bool)} {e : Nat × Nat × CtxKind × Bool}
    (h : e ∈ l) (hne : e.1 ≠ c) : e ∈ closeC c l :=
  List.mem_map.2 ⟨e, h, by simp [hne]⟩

/-- the abstract form of `__exit__`: context `c` is unregistered from its owner and closed for the observer -/
theorem G2.of_exit {s s' : State} (c : Nat) (h : G2 s) (hv : cv (W s') = closeC c (cv (W s))) (hc : CS s s')
    (hlen : s'.futs.length = s.futs.length)
    (ht : ∀ u, (s'.task u).ctxs = if ownerOf s c = some u then (s.task u).ctxs.erase c else (s.task u).ctxs) :
    G2 s' := by
  refine ⟨by rw [hv, closeC_fst, hc.len]; exact h.keys, ?_, ?_, ?_, ?_⟩
  · intro e he
    rw [hv] at he
    obtain ⟨e0, h0, e1, _, e3, _⟩ := mem_closeC he
    rw [hc.kind, e1, e3]; exact h.kind e0 h0
  · intro e he
    rw [hv] at he
    obtain ⟨e0, h0, e1, e2, _, _⟩ := mem_closeC he
    rw [hc.owner, e1, e2, hlen]; exact h.owner e0 h0
  · intro u c'
    rw [hv, ht]
    by_cases hcc : c' = c
    · subst hcc
      constructor
      · intro hm
        exfalso
        split at hm
        · exact absurd hm (List.Nodup.not_mem_erase ((h.sort u).imp (fun hab => Nat.ne_of_lt hab)))
        · next hne =>
          obtain ⟨k, hk⟩ := (h.mem u c').1 hm
          exact hne (h.owner _ hk).2
      · rintro ⟨k, hk⟩
        obtain ⟨e0, h0, e1, _, _, _, e5⟩ := mem_closeC hk
        have := e5 e1.symm
        simp at this
    · constructor
      · intro hm
        have hm' : c' ∈ (s.task u).ctxs := by
          split at hm
          · exact List.mem_of_mem_erase hm
          · exact hm
        obtain ⟨k, hk⟩ := (h.mem u c').1 hm'
        exact ⟨k, mem_closeC_of_ne hk hcc⟩
      · rintro ⟨k, hk⟩
        obtain ⟨e0, h0, e1, _, _, e4, _⟩ := mem_closeC hk
        have h00 : e0.1 ≠ c := fun e => hcc (e1.trans e)
        rw [← e4 h00] at h0
        have := (h.mem u c').2 ⟨k, h0⟩
        split
        · exact (List.mem_erase_of_ne hcc).2 this
        · exact this
  · intro u
    rw [ht]
    split
    · exact (h.sort u).sublist (List.erase_sublist)
    · exact h.sort u

theorem G2.ctxExit {s : State} (c : Nat) (h : G2 s) : G2 (s.ctxExit c) := by
  have key : ∃ s1 : State, (∀ u, (s1.task u).ctxs =
        if ownerOf s c = some u then (s.task u).ctxs.erase c else (s.task u).ctxs) ∧
      s1.trace = s.trace ∧ s1.ctxs = s.ctxs ∧ s1.futs.length = s.futs.length ∧
      ∃ b : Bool, s.ctxExit c = (if b = true then s1 else s1.ctxPauseOne c).emit (.ctxX c) := by
    unfold State.ctxExit ownerOf
    cases hx : s.ctxs[c]? with
    | none => exact ⟨s, fun u => by simp, rfl, rfl, rfl, (s.ctxIsNonAsync c || !true), rfl⟩
    | some x =>
      cases ho : x.owner with
      | none =>
        refine ⟨s, fun u => by simp [ho], rfl, rfl, rfl, (s.ctxIsNonAsync c || !true), ?_⟩
        simp only [ho]
      | some o =>
        refine ⟨s.updTask o fun ts => { ts with ctxs := ts.ctxs.erase c }, ?_, rfl, rfl, by simp,
          ((s.updTask o fun ts => { ts with ctxs := ts.ctxs.erase c }).ctxIsNonAsync c ||
            !((s.updTask o fun ts => { ts with ctxs := ts.ctxs.erase c }).task o).ctxActive), ?_⟩
        · intro u
          simp only [ho]
          rw [task_updTask]
          by_cases hu : u = o
          · subst hu
            simp only [true_and, if_true]
            split
            · rfl
            · next hl =>
              rw [task_default s u (by omega)]; rfl
          · have : ¬ (some o = some u) := fun e => hu (by cases e; rfl)
            rw [if_neg (fun hc => hu hc.1), if_neg this]
        · simp only [ho]
  obtain ⟨s1, ht, htr, hcx, hlen, b, e⟩ := key
  rw [e]
  cases b with
  | true =>
    simp only [if_true]
    refine h.of_exit c ?_ (CS.of_eq hcx) hlen (fun u => by rw [P2.emit_task]; exact ht u)
    simp only [W, P2.emit_trace, htr, P13.obs_cons]
    exact cv_ctxX _ _
  | false =>
    simp only [Bool.false_eq_true, if_false]
    have op := P5.flagOp_pause s1 c
    refine h.of_exit c ?_ (((CS.of_eq hcx).trans (CS.of_flagOp op)).trans (CS.of_eq rfl)) (by rw [P2.emit_futs, op.futs]; exact hlen)
      (fun u => by rw [P2.emit_task, op.task]; exact ht u)
    simp only [W, P2.emit_trace, op.trace, htr, P13.obs_cons]
    rw [cv_ctxX, cv_ctx]

end AsynqModel.Core.P17
