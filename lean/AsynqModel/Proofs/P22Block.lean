import AsynqModel.Proofs.P22Final
/-!
# P22, part 18: the open with-blocks of one task are a stack (`conts_step`, `Hist`), and the per-block form of
# "every overridden value is back to what it was before" (`block_restores`)
-/
namespace AsynqModel.Core.P22
open AsynqModel.Core AsynqModel.Core.P22.SeqSV

/-- how one step changes the open with-blocks of a task: not at all; a block is entered (its context is the newest
    context object); the innermost block is left; the task ends -/
inductive ContsStep (s r : State) (u : Nat) : Prop
  | same (h : (r.task u).conts = (s.task u).conts)
  | push (k : Body) (h : (r.task u).conts = (s.ctxs.length, k) :: (s.task u).conts)
  | pop (c : Nat) (k : Body) (h : (s.task u).conts = (c, k) :: (r.task u).conts)
  | clear (h : (r.task u).conts = [])

theorem conts_of_sm {s r : State} (h : Sm s r) {u : Nat} (hk : (s.fut u).kind = .task) :
    (r.task u).conts = (s.task u).conts := (P4.coreA_fields (h.task u hk).2).2.1

theorem conts_svTouch (s : State) (var u : Nat) : ((s.svTouch var).task u).conts = (s.task u).conts := by
  unfold State.svTouch; split <;> rfl

theorem conts_exitFold (u : Nat) : ∀ (l : List (Nat × Body)) (s : State),
    ((l.foldl (fun s p => s.ctxExit p.1) s).task u).conts = (s.task u).conts
  | [], _ => rfl
  | p :: l, s => by
    rw [List.foldl_cons, conts_exitFold u l, P5.conts_ctxExit]

theorem conts_complete (s : State) (t : Nat) (o : Outcome) (u : Nat) :
    ((s.complete t o).task u).conts = (s.task u).conts := by
  unfold State.task
  rw [P4.fut_complete]
  split
  · next h => obtain ⟨rfl, _⟩ := h; simp only; split <;> rfl
  · rfl

theorem conts_updTask_ne (s : State) (t : Nat) (f : TaskSt → TaskSt) (u : Nat) (h : u ≠ t) :
    ((s.updTask t f).task u).conts = (s.task u).conts := by
  unfold State.task; rw [P4.fut_updTask_ne s t f u h]

/-- every step of a run (stack guard not fired, no NonAsyncContext) -/
theorem conts_step {cfg : Cfg} {tops : List (Conv × Body)} {choices : List (Nat × Nat)} {s : State}
    (h : P4.ReachW cfg tops choices s) (hs : (step s).stuck = none) (hg : (step s).guardFired = false)
    (hn : Inv.noNonAsync (step s) = true) (u : Nat) (hk : (s.fut u).kind = .task) : ContsStep s (step s) u := by
  obtain ⟨m1, m2, m3⟩ := C01_hyps_mono s
  have hs0 := m1 hs
  have hg0 := m2 hg
  have hn0 := m3 hn
  have G := P4.good_reach h hs0 hg0 hn0
  have hws := P17.wsreach_of_reachW h
  have hr := G.ci.raising
  have hitems := (P2.pinv_reach hws.reach).items
  have hstk : s.stuck.isSome = false := by rw [hs0]; rfl
  have hul : u < s.futs.length := lt_of_task s u hk
  cases hctl : s.ctl with
  | nil =>
    have e : step s = match s.curTop with
        | some f => s.finishTop f
        | none =>
          match s.tops with
          | [] => s
          | (conv, body) :: rest0 =>
            { (({ s with tops := rest0, topIdx := s.topIdx + 1 } : State).emit (.top s.topIdx conv)).newTask body [] |>.1 with
              curTop := some s.futs.length, ctl := [.waitEnter s.futs.length] } := by
      unfold step
      simp only [hstk, Bool.false_eq_true, if_false, hctl]
      rfl
    rw [e]
    cases s.curTop with
    | some f => exact .same rfl
    | none =>
      simp only
      cases s.tops with
      | nil => exact .same rfl
      | cons p rest0 =>
        obtain ⟨conv, body⟩ := p
        refine .same ?_
        show ((((({ s with tops := rest0, topIdx := s.topIdx + 1 } : State).emit (.top s.topIdx conv)).newTask body []).1).task u).conts = _
        rw [newTask_nil]
        unfold State.task
        rw [P4.fut_alloc_lt (({ s with tops := rest0, topIdx := s.topIdx + 1 } : State).emit (.top s.topIdx conv)) _ _ u hul]
        rfl
  | cons c rest0 =>
    cases c with
    | waitEnter root =>
      exact .same (conts_of_sm (sm_step_wait s hn0 hitems (.inl ⟨root, rest0, hctl⟩)) hk)
    | waitLoop root base =>
      exact .same (conts_of_sm (sm_step_wait s hn0 hitems (.inr ⟨root, base, rest0, hctl⟩)) hk)
    | gen t old =>
      have e : step s = s.genStep t old := by
        unfold step
        simp only [hstk, Bool.false_eq_true, if_false, hctl, hr, Option.isSome_none, Bool.false_and]
      rw [e]
      have gc := P7.gen_cases s t old hitems
      cases gc with
      | neutral q => exact .same (q.tconts u)
      | withCtx c b k s0 h0 e' =>
        rw [e']
        have hX : ∀ v, ((if c == .nonasync then P5.newCtx s0 s.ctxs.length t c
            else (P5.newCtx s0 s.ctxs.length t c).ctxResumeOne s.ctxs.length).task v).conts = (s.task v).conts := by
          intro v
          have h1 : ((P5.newCtx s0 s.ctxs.length t c).task v).conts = (s.task v).conts := by
            rw [P5.conts_newCtx]
            rcases h0 with rfl | ⟨var, rfl⟩
            · rfl
            · exact conts_svTouch s var v
          split
          · exact h1
          · rw [P5.conts_flag (P5.flagOp_resume _ _)]; exact h1
        by_cases hut : u = t
        · subst hut
          refine .push k ?_
          have hlt : u < (if c == .nonasync then P5.newCtx s0 s.ctxs.length u c
              else (P5.newCtx s0 s.ctxs.length u c).ctxResumeOne s.ctxs.length).futs.length := by
            have : ∀ x : State, (x.ctxResumeOne s.ctxs.length).futs.length = x.futs.length := by
              intro x; rw [(P5.flagOp_resume x _).futs]
            have h2 : (P5.newCtx s0 s.ctxs.length u c).futs.length = s.futs.length := by
              unfold P5.newCtx
              simp only
              rcases h0 with rfl | ⟨var, rfl⟩
              · split <;> simp
              · split <;> simp [svTouch_futs]
            split
            · rw [h2]; exact hul
            · rw [this, h2]; exact hul
          rw [task_updTask_self' _ u _ hlt]
          show _ :: _ = _
          rw [hX u]
        · exact .same (by rw [conts_updTask_ne _ _ _ _ hut]; exact hX u)
      | endwith cid k cs hconts e' =>
        rw [e']
        by_cases hut : u = t
        · subst hut
          refine .pop cid k ?_
          have hlt : u < (s.ctxExit cid).futs.length := by rw [(sm_ctxExit s cid).len]; exact hul
          rw [task_updTask_self' _ u _ hlt]
          exact hconts
        · exact .same (by rw [conts_updTask_ne _ _ _ _ hut]; exact P5.conts_ctxExit s cid u)
      | finish o hnc e' =>
        rw [e']
        obtain ⟨x2, hx2⟩ : ∃ x2 : State, x2 = (s.exitAll t).updTask t fun ts => { ts with pending := false } := ⟨_, rfl⟩
        rw [← hx2]
        have hco : (((x2.complete t o).leaveGen t old).task u).conts = (x2.task u).conts := by
          rw [(P4.coreA_fields (task_leaveGen _ t old u)).2.1, conts_complete]
        by_cases hut : u = t
        · subst hut
          refine .clear ?_
          rw [hco, hx2]
          have hlt2 : u < ((s.task u).conts.foldl (fun s p => s.ctxExit p.1) s).futs.length := by
            rw [(sm_exitFold s _).len]; exact hul
          have hlt : u < (s.exitAll u).futs.length := by
            unfold State.exitAll; simp; exact hlt2
          rw [task_updTask_self' _ u _ hlt]
          unfold State.exitAll
          rw [task_updTask_self' _ u _ hlt2]
        · refine .same ?_
          rw [hco, hx2, conts_updTask_ne _ _ _ _ hut]
          unfold State.exitAll
          rw [conts_updTask_ne _ _ _ _ hut, conts_exitFold]

/-! ### runs -/

/-- `n` steps -/
def stepN : Nat → State → State
  | 0, s => s
  | n + 1, s => step (stepN n s)

theorem reachW_stepN {cfg : Cfg} {tops : List (Conv × Body)} {choices : List (Nat × Nat)} {s : State}
    (h : P4.ReachW cfg tops choices s) : ∀ n, P4.ReachW cfg tops choices (stepN n s)
  | 0 => h
  | n + 1 => P4.ReachW.step (reachW_stepN h n)

/-- the hypotheses of the theorems hold along the whole run if they hold at its end -/
theorem hyps_stepN (s : State) : ∀ n m, m ≤ n →
    (stepN n s).stuck = none ∧ (stepN n s).guardFired = false ∧ Inv.noNonAsync (stepN n s) = true →
    (stepN m s).stuck = none ∧ (stepN m s).guardFired = false ∧ Inv.noNonAsync (stepN m s) = true
  | 0, m, hm, h => by
    have : m = 0 := by omega
    subst this; exact h
  | n + 1, m, hm, h => by
    rcases Nat.lt_or_ge m (n + 1) with h1 | h1
    · obtain ⟨m1, m2, m3⟩ := C01_hyps_mono (stepN n s)
      exact hyps_stepN s n m (by omega) ⟨m1 h.1, m2 h.2.1, m3 h.2.2⟩
    · have : m = n + 1 := by omega
      subst this; exact h

theorem sim_stepN {cfg : Cfg} {tops : List (Conv × Body)} {choices : List (Nat × Nat)} {s : State} {g : Ghost}
    (h : P4.ReachW cfg tops choices s) (hns : ∀ p ∈ tops, ns p.2 = true) (hS : Sim cfg tops s g) :
    ∀ n, (stepN n s).stuck = none ∧ (stepN n s).guardFired = false ∧ Inv.noNonAsync (stepN n s) = true →
      ∃ g', Sim cfg tops (stepN n s) g' ∧ GExt g g'
  | 0, _ => ⟨g, hS, GExt.refl g⟩
  | n + 1, hh => by
    obtain ⟨g1, hS1, he1⟩ := sim_stepN h hns hS n (hyps_stepN s (n + 1) n (by omega) hh)
    obtain ⟨g2, hS2, he2⟩ := sim_step (reachW_stepN h n) hns hh.1 hh.2.1 hh.2.2 hS1
    exact ⟨g2, hS2, he1.trans he2⟩

theorem mono_stepN (s : State) : ∀ n, P4.Mono s (stepN n s)
  | 0 => P4.Mono.refl s
  | n + 1 => (mono_stepN s n).trans (P4.mono_step _)

theorem kindOf_mono {s r : State} (h : P4.Mono s r) {c : Nat} (hc : c < s.ctxs.length) : P7.kindOf r c = P7.kindOf s c := by
  obtain ⟨l, hl⟩ := h.kinds
  have h1 : (P4.kinds r)[c]? = (P4.kinds s)[c]? := by
    rw [hl, List.getElem?_append_left (by simpa [P4.kinds] using hc)]
  simp only [P4.kinds, List.getElem?_map] at h1
  unfold P7.kindOf
  cases hr : r.ctxs[c]? with
  | none =>
    rw [hr] at h1
    cases hs : s.ctxs[c]? with
    | none => rfl
    | some x => rw [hs] at h1; cases h1
  | some y =>
    rw [hr] at h1
    cases hs : s.ctxs[c]? with
    | none => rw [hs] at h1; cases h1
    | some x => rw [hs] at h1; simpa using h1

theorem ctxs_len_mono {s r : State} (h : P4.Mono s r) : s.ctxs.length ≤ r.ctxs.length := by
  obtain ⟨l, hl⟩ := h.kinds
  have := congrArg List.length hl
  simp [P4.kinds] at this
  omega

/-! ### the open with-blocks of a task below an open block stay -/

/-- the block with context `cid` and continuation `k` of task `t` was opened on top of the blocks `base`; while it is
    open, `base` is what is below it -/
def Hist (t cid : Nat) (k : Body) (base : List (Nat × Body)) (s : State) : Prop :=
  cid < s.ctxs.length ∧ (cid ∈ cids (s.task t) → ∃ pre, (s.task t).conts = pre ++ (cid, k) :: base)

theorem hist_step {cfg : Cfg} {tops : List (Conv × Body)} {choices : List (Nat × Nat)} {s : State}
    (h : P4.ReachW cfg tops choices s) (hs : (step s).stuck = none) (hg : (step s).guardFired = false)
    (hn : Inv.noNonAsync (step s) = true) {t cid : Nat} {k : Body} {base : List (Nat × Body)}
    (hk : (s.fut t).kind = .task) (hH : Hist t cid k base s) : Hist t cid k base (step s) := by
  obtain ⟨m1, m2, m3⟩ := C01_hyps_mono s
  have hws := P17.wsreach_of_reachW h
  have good := P7.good_of_reach hws.reach (m2 hg) (P7.na_of_noNonAsync (m3 hn))
  have hnd := good.i.j.cnodup t
  refine ⟨Nat.lt_of_lt_of_le hH.1 (ctxs_len_mono (P4.mono_step s)), ?_⟩
  intro hm
  have cs := conts_step h hs hg hn t hk
  cases cs with
  | same e =>
    have hm' : cid ∈ cids (s.task t) := by unfold cids at hm ⊢; rw [e] at hm; exact hm
    rw [e]; exact hH.2 hm'
  | push k' e =>
    rw [e]
    have hm' : cid ∈ cids (s.task t) := by
      unfold cids at hm ⊢
      rw [e] at hm
      simp only [List.map_cons, List.mem_cons] at hm
      rcases hm with hm | hm
      · have := hH.1; omega
      · exact hm
    obtain ⟨pre, hp⟩ := hH.2 hm'
    exact ⟨(s.ctxs.length, k') :: pre, by rw [hp]; rfl⟩
  | pop c k' e =>
    have hm' : cid ∈ cids (s.task t) := by
      unfold cids at hm ⊢
      rw [e]; simp only [List.map_cons]; exact List.mem_cons_of_mem _ hm
    obtain ⟨pre, hp⟩ := hH.2 hm'
    cases pre with
    | nil =>
      exfalso
      rw [e] at hp
      simp only [List.nil_append, List.cons.injEq] at hp
      -- the popped block is `cid`, so it is not below
      have : c = cid := (Prod.mk.inj hp.1).1
      subst this
      unfold cids at hm
      rw [e] at hnd
      simp only [List.map_cons, List.nodup_cons] at hnd
      exact hnd.1 hm
    | cons p pre' =>
      rw [e] at hp
      simp only [List.cons_append, List.cons.injEq] at hp
      exact ⟨pre', hp.2⟩
  | clear e =>
    unfold cids at hm
    rw [e] at hm; cases hm

theorem hist_stepN {cfg : Cfg} {tops : List (Conv × Body)} {choices : List (Nat × Nat)} {s : State}
    (h : P4.ReachW cfg tops choices s) {t cid : Nat} {k : Body} {base : List (Nat × Body)}
    (hH : Hist t cid k base s) :
    ∀ n, (stepN n s).stuck = none ∧ (stepN n s).guardFired = false ∧ Inv.noNonAsync (stepN n s) = true →
      (∀ m, m < n → ((stepN m s).fut t).kind = .task) → Hist t cid k base (stepN n s)
  | 0, _, _ => hH
  | n + 1, hh, hk => by
    have ih := hist_stepN h hH n (hyps_stepN s (n + 1) n (by omega) hh) (fun m hm => hk m (by omega))
    exact hist_step (reachW_stepN h n) hh.1 hh.2.1 hh.2.2 (hk n (by omega)) ih

theorem step_gen_eq (x : State) (t : Nat) (old : Option Nat) (rest : List Ctl) (hs : x.stuck = none)
    (hctl : x.ctl = .gen t old :: rest) (hr : x.raising = none) : step x = x.genStep t old := by
  have hstk : x.stuck.isSome = false := by rw [hs]; rfl
  unfold step
  simp only [hstk, Bool.false_eq_true, if_false, hctl, hr, Option.isSome_none, Bool.false_and]

/-- **after `endwith` every scoped variable holds the value it had just before the matching `withCtx`**:
    `s1` is about to execute `with c: b` in task `t` (the context object it creates is `s1.ctxs.length`), `s2` - `n`
    steps after the block was entered - is about to execute the `endwith` of that very block (the innermost open block
    of `t` is the context `s1.ctxs.length`).  Whatever happened in between - suspensions, flushes, other tasks entering
    and leaving their own blocks, nested blocks of `t` - after the step every scoped variable has the value it had in
    `s1`. -/
theorem block_restores {cfg : Cfg} {tops : List (Conv × Body)} {choices : List (Nat × Nat)} {s1 : State}
    (h : P4.ReachW cfg tops choices s1) (hns : ∀ p ∈ tops, ns p.2 = true)
    {t : Nat} {old1 : Option Nat} {rest1 : List Ctl} (hctl1 : s1.ctl = .gen t old1 :: rest1)
    (hp1 : (s1.task t).pending = false) {c : CtxKind} {b k : Body} (hb1 : (s1.task t).body = .withCtx c b k)
    (n : Nat)
    (hs : (step (stepN n (step s1))).stuck = none) (hg : (step (stepN n (step s1))).guardFired = false)
    (hn : Inv.noNonAsync (step (stepN n (step s1))) = true)
    {old2 : Option Nat} {rest2 : List Ctl} (hctl2 : (stepN n (step s1)).ctl = .gen t old2 :: rest2)
    (hp2 : ((stepN n (step s1)).task t).pending = false) (hb2 : ((stepN n (step s1)).task t).body = .endwith)
    {k2 : Body} {cs : List (Nat × Body)} (hc2 : ((stepN n (step s1)).task t).conts = (s1.ctxs.length, k2) :: cs) :
    (∀ var, (step (stepN n (step s1))).svGet var = s1.svGet var) ∧ k2 = k ∧ cs = (s1.task t).conts := by
  -- the hypotheses along the run
  have hhe : (stepN (n + 1) (step s1)).stuck = none ∧ (stepN (n + 1) (step s1)).guardFired = false ∧
      Inv.noNonAsync (stepN (n + 1) (step s1)) = true := ⟨hs, hg, hn⟩
  have hh2 := hyps_stepN (step s1) (n + 1) n (by omega) hhe
  have hh1 := hyps_stepN (step s1) (n + 1) 0 (by omega) hhe
  obtain ⟨m1, m2, m3⟩ := C01_hyps_mono s1
  have hs0 := m1 hh1.1
  have hg0 := m2 hh1.2.1
  have hn0 := m3 hh1.2.2
  have hW1 : P4.ReachW cfg tops choices (step s1) := P4.ReachW.step h
  -- the ghosts
  obtain ⟨g1, hS1⟩ := sim_reach h hns hs0 hg0 hn0
  obtain ⟨g1', hS1', he1⟩ := sim_step h hns hh1.1 hh1.2.1 hh1.2.2 hS1
  obtain ⟨g2, hS2, he2⟩ := sim_stepN hW1 hns hS1' n hh2
  obtain ⟨g2', hS2', he3⟩ := sim_step (reachW_stepN hW1 n) hns hs hg hn hS2
  have hws1 := P17.wsreach_of_reachW h
  have hna1 := P7.na_of_noNonAsync hn0
  have hcalled := running_called hS1 hws1 hg0 hna1 hctl1
  obtain ⟨ip, hip⟩ : ∃ ip, g1 t = some ip := by
    cases hgt : g1 t with
    | none => exact absurd hgt hcalled
    | some ip => exact ⟨ip, rfl⟩
  have hip2' : g2' t = some ip := he3 t ip (he2 t ip (he1 t ip hip))
  have hkt : ∀ m, m ≤ n → ((stepN m (step s1)).fut t).kind = .task := by
    intro m hm
    obtain ⟨gm, hSm, hem⟩ := sim_stepN hW1 hns hS1' m (hyps_stepN (step s1) (n + 1) m (by omega) hhe)
    exact hSm.dom t ip (hem t ip (he1 t ip hip))
  -- the value before the block
  have hA := fun var => running_env hS1 hws1 hg0 hna1 hctl1 hip var
  -- the step that enters the block
  have G1 := P4.good_reach h hs0 hg0 hn0
  have hr1 := G1.ci.raising
  have e1 : step s1 = s1.genStep t old1 := step_gen_eq s1 t old1 rest1 hs0 hctl1 hr1
  have hlt1 : t < s1.futs.length := (G1.top hctl1).2.2
  have hkt1 : (s1.fut t).kind = .task := (G1.top hctl1).1
  have hconts1 : ((step s1).task t).conts = (s1.ctxs.length, k) :: (s1.task t).conts := by
    rw [e1, P4.genStep_withCtx s1 t old1 c b k hp1 hb1]
    obtain ⟨hsm, _⟩ := sm_withCtxPrep s1 t c
    rw [task_updTask_self' _ t _ (by rw [hsm.len]; exact hlt1)]
    show (s1.ctxs.length, k) :: ((P4.withCtxPrep s1 t c).task t).conts = _
    rw [conts_of_sm hsm hkt1]
  have hH1 : Hist t s1.ctxs.length k (s1.task t).conts (step s1) := by
    refine ⟨?_, fun _ => ⟨[], by rw [hconts1]; rfl⟩⟩
    rw [e1, P4.genStep_withCtx s1 t old1 c b k hp1 hb1]
    obtain ⟨hsm, hkc⟩ := sm_withCtxPrep s1 t c
    show s1.ctxs.length < (P4.withCtxPrep s1 t c).ctxs.length
    unfold P4.withCtxPrep P4.wc5
    have : ∀ x : State, (x.ctxResumeOne s1.ctxs.length).ctxs.length = x.ctxs.length := by
      intro x
      have := (sm_ctxResumeOne x s1.ctxs.length)
      unfold State.ctxResumeOne
      simp only
      split
      · split
        · simp [svSet_ctxs, State.ctxSetResumed]
          split <;> simp
        · simp [State.ctxSetResumed]; split <;> simp
      · simp [State.ctxSetResumed]; split <;> simp
    have h4 : (P4.wc4 (P4.wc3 ((P4.wc1 s1 c).emit (.ctxN s1.ctxs.length t c)) c) s1.ctxs.length).ctxs.length =
        s1.ctxs.length + 1 := by
      rw [wc4_ctxs]
      simp [P4.wc3, wc1_ctxs]
    split
    · rw [h4]; omega
    · rw [this, h4]; omega
  have hH2 := hist_stepN hW1 hH1 n hh2 (fun m hm => hkt m (by omega))
  -- at the end of the block
  have hm2 : s1.ctxs.length ∈ cids ((stepN n (step s1)).task t) := by
    unfold cids; rw [hc2]; simp
  obtain ⟨pre, hpre⟩ := hH2.2 hm2
  have hws2 := P17.wsreach_of_reachW (reachW_stepN hW1 n)
  have hna2 := P7.na_of_noNonAsync hh2.2.2
  have good2 := P7.good_of_reach hws2.reach hh2.2.1 hna2
  have hnd2 := good2.i.j.cnodup t
  have hpre0 : pre = [] := by
    cases pre with
    | nil => rfl
    | cons p pre' =>
      exfalso
      rw [hc2] at hpre hnd2
      simp only [List.cons_append, List.cons.injEq] at hpre
      rw [hpre.2] at hnd2
      simp only [List.map_cons, List.map_append, List.nodup_cons, List.mem_append, List.mem_cons, true_or, or_true,
        not_true_eq_false, false_and] at hnd2
  subst hpre0
  rw [hc2] at hpre
  simp only [List.nil_append, List.cons.injEq, Prod.mk.injEq, true_and] at hpre
  obtain ⟨hk2, hcs⟩ := hpre
  refine ⟨?_, hk2, hcs⟩
  -- the step that leaves the block
  have G2 := P4.good_reach (reachW_stepN hW1 n) hh2.1 hh2.2.1 hh2.2.2
  have hr2 := G2.ci.raising
  have e2 : step (stepN n (step s1)) = (stepN n (step s1)).genStep t old2 :=
    step_gen_eq _ t old2 rest2 hh2.1 hctl2 hr2
  have e2' : step (stepN n (step s1)) =
      ((stepN n (step s1)).ctxExit s1.ctxs.length).updTask t fun ts => { ts with conts := cs, body := k2 } := by
    rw [e2, P4.genStep_endwith _ t old2 hp2 hb2, hc2]
  have hlt2 : t < (stepN n (step s1)).futs.length := (G2.top hctl2).2.2
  have hctl2' : (step (stepN n (step s1))).ctl = .gen t old2 :: rest2 := by
    rw [e2']
    show ((stepN n (step s1)).ctxExit s1.ctxs.length).ctl = _
    rw [(P4.still_ctxExit _ _).1.ctl]; exact hctl2
  have hconts2' : ((step (stepN n (step s1))).task t).conts = cs := by
    rw [e2', task_updTask_self' _ t _ (by rw [(sm_ctxExit _ _).len]; exact hlt2)]
  have hws2' := P17.wsreach_of_reachW (reachW_stepN hW1 (n + 1))
  have hB := fun var => running_env (s := step (stepN n (step s1))) hS2' hws2' hg (P7.na_of_noNonAsync hn) hctl2' hip2' var
  intro var
  rw [hB var, hA var]
  congr 1
  -- the two environments
  have hcid : cids ((step (stepN n (step s1))).task t) = cids (s1.task t) := by
    unfold cids; rw [hconts2', hcs]
  rw [hcid]
  have hmono : P4.Mono s1 (step (stepN n (step s1))) :=
    ((P4.mono_step s1).trans (mono_stepN (step s1) n)).trans (P4.mono_step _)
  have hB1 := bnd_reach h hs0 hg0 hn0
  exact envOf_congr ip.E (fun c' hc' => ovOf_of_kindOf (kindOf_mono hmono (hB1.conts t c' hc')))

end AsynqModel.Core.P22
