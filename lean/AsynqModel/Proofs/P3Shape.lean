import AsynqModel.Proofs.P3Gen
/-
  P3 (property C08), part 4: `step_shape` - every step of the machine has one of fifteen shapes, each saying
  what happens to the control stack, the active task, the task stack, and which events are emitted.
  No invariant is assumed here; everything holds for every state.
-/
namespace AsynqModel.Core.P3
open AsynqModel.Core

/-- the events of `finishTop`: neutral ones and the scheduler snapshot -/
def TopEv (s : State) (e : Event) : Prop :=
  N e ∨ ∃ nb nl, e = .sched true s.stack.length nb nl s.active

theorem finishTop_trans (s : State) (f : Nat) : Quiet (TopEv s) s (s.finishTop f) := by
  unfold State.finishTop
  dsimp only
  refine Quiet.trans ?_ (q_emit _ _ (Or.inl rfl))
  refine Quiet.trans ?_ (q_emit _ _ (Or.inr ⟨_, _, rfl⟩))
  refine Quiet.trans ?_ (q_emit _ _ (Or.inl rfl))
  exact ⟨rfl, rfl, rfl, rfl, fun _ => rfl, rfl, Ext.refl _ _⟩

theorem finishTop_raising (s : State) (f : Nat) : (s.finishTop f).raising = none := rfl

theorem topStart_trans (s : State) (conv : Conv) (body : Body) (rest : List (Conv × Body)) :
    let s1 := ({ s with tops := rest, topIdx := s.topIdx + 1 } : State).emit (.top s.topIdx conv)
    Trans (NewEv s.active) s
      { (s1.newTask body []).1 with curTop := some (s1.newTask body []).2, ctl := [.waitEnter (s1.newTask body []).2] }
      [.waitEnter (s1.newTask body []).2] s.active s.stack := by
  intro s1
  have h1 : Quiet (NewEv s.active) s s1 :=
    Quiet.trans (s1 := { s with tops := rest, topIdx := s.topIdx + 1 }) (Quiet.of_eq rfl rfl rfl rfl rfl rfl rfl)
      (q_emit _ _ (Or.inl rfl))
  have h2 : Quiet (NewEv s.active) s (s1.newTask body []).1 := h1.trans (q_newTask s1 body [])
  exact ⟨rfl, h2.active, h2.stack, h2.guard, h2.raising, h2.cfg, h2.trace⟩

/-- a propagating exception leaves a `wait_for` frame -/
theorem raiseOut_trans (s : State) (e : Err) (h : s.raising.isSome = true) :
    Trans N s (s.raiseOutOfWait e) s.ctl.tail s.active s.stack :=
  ⟨rfl, rfl, rfl, rfl, fun h0 => by simp [h0] at h, rfl, Ext.refl _ _⟩

/-- the shapes of `r = step s` -/
inductive Shape (s r : State) : Prop
  /-- stuck, finished, or the step marks the state as stuck -/
  | idle (h : Quiet N s r)
  /-- the outermost call returns: result, scheduler snapshot -/
  | finishTop (hctl : s.ctl = []) (h : Quiet (TopEv s) s r) (hr : r.raising = none)
  /-- a top-level computation starts -/
  | topStart (f : Nat) (hctl : s.ctl = []) (h : Trans (NewEv s.active) s r [.waitEnter f] s.active s.stack)
  /-- an exception (only the guard's RuntimeError) leaves `wait_for` before `_execute` -/
  | raiseEnter (root : Nat) (rest : List Ctl) (hctl : s.ctl = .waitEnter root :: rest) (hr : s.raising.isSome = true)
      (h : Trans N s r rest s.active s.stack)
  /-- ... or leaves `_execute` -/
  | raiseLoop (root base : Nat) (rest : List Ctl) (hctl : s.ctl = .waitLoop root base :: rest)
      (hr : s.raising.isSome = true) (h : Trans N s r rest s.active s.stack)
  /-- `wait_for(root)` returns: root is computed -/
  | popEnter (root : Nat) (rest : List Ctl) (hctl : s.ctl = .waitEnter root :: rest) (hr : s.raising = none)
      (h : Trans N s r rest s.active s.stack)
  /-- `_execute(root)` starts: the base is the current stack height, root is pushed -/
  | enterLoop (root : Nat) (rest : List Ctl) (hctl : s.ctl = .waitEnter root :: rest) (hr : s.raising = none)
      (h : Trans N s r (.waitLoop root s.stack.length :: rest) s.active (root :: s.stack))
  /-- the MAX_TASK_STACK_SIZE guard fires -/
  | guard (root base : Nat) (rest : List Ctl) (hctl : s.ctl = .waitLoop root base :: rest) (hr : s.raising = none)
      (hlen : s.stack.length > base) (hmax : s.stack.length > s.cfg.maxStack) (e : r = guardReset s)
  /-- an iteration of `_execute` that stays in the loop: the stack loses at most its top -/
  | iter (root base : Nat) (rest : List Ctl) (hctl : s.ctl = .waitLoop root base :: rest) (hr : s.raising = none)
      (hlen : s.stack.length > base) (st : List Nat) (hst : s.stack.length ≤ st.length + 1)
      (h : Trans N s r s.ctl s.active st)
  /-- `_continue_with_task(t)`: the active task is saved in the new generator frame -/
  | enterGen (root base : Nat) (rest : List Ctl) (hctl : s.ctl = .waitLoop root base :: rest) (hr : s.raising = none)
      (t : Nat) (h : Trans N s r (.gen t s.active :: s.ctl) (some t) s.stack)
  /-- `_execute` returns with the stack back at its base -/
  | popLoop (root base : Nat) (rest : List Ctl) (hctl : s.ctl = .waitLoop root base :: rest) (hr : s.raising = none)
      (hlen : s.stack.length ≤ base) (h : Trans N s r rest s.active s.stack)
  /-- `_execute` returns, root is not computed: the scheduler flushes a batch, `wait_for` loops -/
  | flush (root base : Nat) (rest : List Ctl) (hctl : s.ctl = .waitLoop root base :: rest) (hr : s.raising = none)
      (hlen : s.stack.length ≤ base) (h : Trans N s r (.waitEnter root :: rest) s.active s.stack)
  /-- an instruction of task `t` that stays in its generator -/
  | genStay (t : Nat) (old : Option Nat) (rest : List Ctl) (hctl : s.ctl = .gen t old :: rest)
      (h : Quiet (GenEv t s.active) s r)
  /-- task `t` yields or finishes: the saved active task is restored -/
  | genLeave (t : Nat) (old : Option Nat) (rest : List Ctl) (hctl : s.ctl = .gen t old :: rest)
      (h : Trans (GenEv t s.active) s r rest old s.stack)
  /-- task `t` makes a synchronous call: a nested `wait_for(f)` -/
  | genCall (t : Nat) (old : Option Nat) (rest : List Ctl) (hctl : s.ctl = .gen t old :: rest) (f : Nat)
      (h : Trans (GenEv t s.active) s r (.waitEnter f :: s.ctl) s.active s.stack)

theorem gen_shape (s : State) (t : Nat) (old : Option Nat) (rest : List Ctl) (hctl : s.ctl = .gen t old :: rest) :
    Shape s (s.genStep t old) := by
  rcases genStep_trans s t old with h | h | ⟨f, h⟩
  · exact .genStay t old rest hctl h
  · exact .genLeave t old rest hctl (by simpa [hctl] using h)
  · exact .genCall t old rest hctl f h

theorem isSome_false {α} {o : Option α} (h : ¬ o.isSome = true) : o = none := by
  cases o <;> simp_all

theorem step_shape (s : State) : Shape s (step s) := by
  unfold step
  split
  · exact .idle (Quiet.refl _ _)
  · split
    · -- ctl = []
      rename_i hctl
      split
      · exact .finishTop hctl (finishTop_trans s _) rfl
      · split
        · exact .idle (Quiet.refl _ _)
        · exact .topStart _ hctl (topStart_trans s ‹Conv› ‹Body› ‹List (Conv × Body)›)
    · -- waitEnter
      rename_i root rest hctl
      split
      · rename_i hr
        exact .raiseEnter root rest hctl hr (by simpa [hctl] using raiseOut_trans s _ hr)
      · rename_i hr
        have hr := isSome_false hr
        split
        · exact .popEnter root rest hctl hr ⟨by simp [State.returnFromWait, hctl], rfl, rfl, rfl, id, rfl, Ext.refl _ _⟩
        · exact .enterLoop root rest hctl hr ⟨by simp [hctl], rfl, rfl, rfl, id, rfl, Ext.refl _ _⟩
    · -- waitLoop
      rename_i root base rest hctl
      split
      · rename_i hr
        exact .raiseLoop root base rest hctl hr (by simpa [hctl] using raiseOut_trans s _ hr)
      · rename_i hr
        have hr := isSome_false hr
        split
        · rename_i hlen
          rcases executeIter_trans s with ⟨hmax, e⟩ | ⟨st, h, hle⟩ | ⟨t, h⟩
          · exact .guard root base rest hctl hr hlen hmax e
          · exact .iter root base rest hctl hr hlen st hle h
          · exact .enterGen root base rest hctl hr t h
        · rename_i hlen
          have hlen : s.stack.length ≤ base := by omega
          split
          · exact .popLoop root base rest hctl hr hlen
              ⟨by simp [State.returnFromWait, hctl], rfl, rfl, rfl, id, rfl, Ext.refl _ _⟩
          · exact .flush root base rest hctl hr hlen (by simpa [hctl] using schedulerFlush_trans s root)
    · -- gen
      rename_i t old rest hctl
      split <;> split <;>
        first
        | exact .idle (q_fail _ _)
        | exact gen_shape s t old rest hctl

/-! ### list facts about `Inv.gensOf` and `Inv.waitBases` -/

@[simp] theorem gensOf_nil : Inv.gensOf [] = [] := rfl
@[simp] theorem gensOf_waitEnter (r c) : Inv.gensOf (.waitEnter r :: c) = Inv.gensOf c := rfl
@[simp] theorem gensOf_waitLoop (r b c) : Inv.gensOf (.waitLoop r b :: c) = Inv.gensOf c := rfl
@[simp] theorem gensOf_gen (t o c) : Inv.gensOf (.gen t o :: c) = (t, o) :: Inv.gensOf c := rfl
@[simp] theorem waitBases_nil : Inv.waitBases [] = [] := rfl
@[simp] theorem waitBases_waitEnter (r c) : Inv.waitBases (.waitEnter r :: c) = Inv.waitBases c := rfl
@[simp] theorem waitBases_waitLoop (r b c) : Inv.waitBases (.waitLoop r b :: c) = b :: Inv.waitBases c := rfl
@[simp] theorem waitBases_gen (t o c) : Inv.waitBases (.gen t o :: c) = Inv.waitBases c := rfl

end AsynqModel.Core.P3
