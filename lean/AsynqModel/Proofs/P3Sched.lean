import AsynqModel.Proofs.P3Base
/-
  P3 (property C08), part 2: the shape (`Trans`) of every scheduler-side transition:
  `schedulerFlush`, `handleTask`, `executeIter`, `leaveGen`, `finishTask`, `newTask`.
-/
namespace AsynqModel.Core.P3
open AsynqModel.Core

/-- neutral events and task creations by `a` -/
def NewEv (a : Option Nat) (e : Event) : Prop := N e ∨ ∃ f, e = .new f (.task a)

/-- the events a step of the body of task `t` may emit while the active task is `a` -/
def GenEv (t : Nat) (a : Option Nat) (e : Event) : Prop := NewEv a e ∨ e = .active t a

theorem N.newEv {a e} (h : N e) : NewEv a e := Or.inl h
theorem N.genEv {t a e} (h : N e) : GenEv t a e := Or.inl (Or.inl h)
theorem NewEv.genEv {t a e} (h : NewEv a e) : GenEv t a e := Or.inl h

/-! ### `schedulerFlush` -/

/-- `schedulerFlush` after `sbatches` and `ctl` have been updated -/
def flushRest (s : State) (fl : List (Nat × Nat)) : State :=
  if fl.isEmpty then s
  else
    let (c?, rest) := match s.choices with
      | c :: cs => (some c, cs)
      | [] => (s.defaultChoice, [])
    match c? with
    | none => s.fail "no admissible batch"
    | some c =>
      if !s.admissible c then s.fail s!"choice-not-allowed ({c.1} {c.2})" else
      match s.batch? c.1 c.2 with
      | none => s.fail "unknown batch"
      | some b =>
        let s := { s with choices := rest, sbatches := fl.erase c }
        let s := s.emit (.flushB c.1 c.2 b.items (s.batchPrio b) (s.pendingOf s.sbatches))
        let s := s.flushBatch c.1 c.2
        s.emit (.flushE c.1 c.2)

theorem schedulerFlush_eq (s : State) (root : Nat) :
    s.schedulerFlush root =
      flushRest { s with sbatches := s.flushable, ctl := .waitEnter root :: s.ctl.tail } s.flushable := rfl

theorem q_flushRest (s : State) (fl : List (Nat × Nat)) : Quiet N s (flushRest s fl) := by
  unfold flushRest
  split
  · exact Quiet.refl _ _
  · dsimp only
    split
    · exact q_fail _ _
    · split
      · exact q_fail _ _
      · split
        · exact q_fail _ _
        · refine Quiet.trans ?_ (q_emitN _ _ rfl)
          refine Quiet.trans ?_ (q_flushBatch _ _ _)
          refine Quiet.trans ?_ (q_emitN _ _ rfl)
          exact Quiet.of_eq rfl rfl rfl rfl rfl rfl rfl

theorem schedulerFlush_trans (s : State) (root : Nat) :
    Trans N s (s.schedulerFlush root) (.waitEnter root :: s.ctl.tail) s.active s.stack := by
  rw [schedulerFlush_eq]
  exact Trans.andThen (s1 := { s with sbatches := s.flushable, ctl := .waitEnter root :: s.ctl.tail })
    ⟨rfl, rfl, rfl, rfl, id, rfl, Ext.refl _ _⟩ (q_flushRest _ _)

/-! ### `popStack`, `handleTask`, `executeIter` -/

theorem popStack_trans {P} {s s1 : State} (h : Quiet P s s1) : Trans P s s1.popStack s.ctl s.active s.stack.tail :=
  ⟨h.ctl, h.active, by simp [State.popStack, h.stack], h.guard, h.raising, h.cfg, h.trace⟩

/-- `_handle_async_task`: the stack loses its top or grows, or a generator frame is entered with the old active
    task saved in it -/
theorem handleTask_trans (s : State) (t : Nat) :
    (∃ st, Trans N s (s.handleTask t) s.ctl s.active st ∧ s.stack.length ≤ st.length + 1) ∨
    Trans N s (s.handleTask t) (.gen t s.active :: s.ctl) (some t) s.stack := by
  unfold State.handleTask
  dsimp only
  split
  · left
    split
    · exact ⟨_, popStack_trans ((q_updTask _ _ _).trans (q_pauseContexts _ _)), by simp; omega⟩
    · have h : Quiet N s ((s.updTask t fun ts => { ts with depsSched := true }).resumeContexts t) :=
        (q_updTask _ _ _).trans (q_resumeContexts _ _)
      refine ⟨_, ⟨h.ctl, h.active, rfl, h.guard, h.raising, h.cfg, h.trace⟩, ?_⟩
      simp [h.stack]; omega
  · split
    · left; exact ⟨_, q_fail _ _, by omega⟩
    · right
      have h : Quiet N s (s.resumeContexts t) := q_resumeContexts _ _
      exact ⟨by simp [h.ctl, h.active], rfl, h.stack, h.guard, h.raising, h.cfg, h.trace⟩

/-- the state after the MAX_TASK_STACK_SIZE guard has fired -/
def guardReset (s : State) : State :=
  ({ s with stack := [], sbatches := [], active := none, guardFired := true }).raiseOutOfWait .stackguard

/-- with more than MAX_TASK_STACK_SIZE entries on the stack the iteration of `_execute` is the guard reset -/
theorem executeIter_guard (s : State) (h : s.stack.length > s.cfg.maxStack) : s.executeIter = guardReset s := by
  unfold State.executeIter
  split
  · rename_i h0; simp [h0] at h
  · rw [if_pos h]; rfl

/-- one iteration of `_execute`: the guard fires, or the stack loses at most its top, or a generator is entered -/
theorem executeIter_trans (s : State) :
    (s.stack.length > s.cfg.maxStack ∧ s.executeIter = guardReset s) ∨
    (∃ st, Trans N s s.executeIter s.ctl s.active st ∧ s.stack.length ≤ st.length + 1) ∨
    (∃ t, Trans N s s.executeIter (.gen t s.active :: s.ctl) (some t) s.stack) := by
  unfold State.executeIter
  split
  · right; left; exact ⟨_, q_fail _ _, by omega⟩
  · split
    · left; exact ⟨by assumption, rfl⟩
    · right
      split
      · left; exact ⟨_, popStack_trans (Quiet.refl _ _), by simp; omega⟩
      · split
        · rcases handleTask_trans s _ with h | h
          · exact Or.inl h
          · exact Or.inr ⟨_, h⟩
        · left
          refine ⟨_, popStack_trans ?_, by simp; omega⟩
          split
          · split
            · exact Quiet.refl _ _
            · exact Quiet.of_eq rfl rfl rfl rfl rfl rfl rfl
          · exact Quiet.refl _ _
        · left; exact ⟨_, popStack_trans (q_complete _ _ _), by simp; omega⟩
        · left; exact ⟨_, q_fail _ _, by omega⟩

/-! ### `leaveGen`, `finishTask`, `newTask` -/

theorem leaveGen_trans {P} {s s1 : State} (h : Quiet P s s1) (t : Nat) (old : Option Nat) :
    Trans P s (s1.leaveGen t old) s.ctl.tail old s.stack :=
  ⟨by simp [State.leaveGen, h.ctl], rfl, h.stack, h.guard, h.raising, h.cfg, h.trace⟩

theorem finishTask_trans (s : State) (t : Nat) (old : Option Nat) (o : Outcome) :
    Quiet N s (s.finishTask t old o) ∨ Trans N s (s.finishTask t old o) s.ctl.tail old s.stack := by
  unfold State.finishTask
  split
  · left; exact q_fail _ _
  · right; exact leaveGen_trans (((q_exitAll _ _).trans (q_updTask _ _ _)).trans (q_complete _ _ _)) _ _

theorem q_newTask (s : State) (child : Body) (inh : List Nat) : Quiet (NewEv s.active) s (s.newTask child inh).1 := by
  unfold State.newTask State.alloc
  dsimp only
  exact Quiet.trans (s1 := { s with futs := s.futs ++ [_] }) (Quiet.of_eq rfl rfl rfl rfl rfl rfl rfl)
    (q_emit _ _ (Or.inr ⟨_, rfl⟩))

end AsynqModel.Core.P3
