import AsynqModel.Proofs.P4Instr4
/-! P4: one instruction of a running task preserves the invariant -/
namespace AsynqModel.Core.P4
open AsynqModel.Core

def wc1 (s : State) (c : CtxKind) : State := match c with | .override var _ => s.svTouch var | _ => s
def wc3 (s : State) (c : CtxKind) : State := { s with ctxs := s.ctxs ++ [({ kind := c, owner := s.active } : CtxSt)] }
def wc4 (s : State) (cid : Nat) : State :=
  match s.active with
  | some a => s.updTask a fun ts => { ts with ctxs := ts.ctxs ++ [cid] }
  | none => s
def wc5 (s : State) (c : CtxKind) (cid : Nat) : State := if c == .nonasync then s else s.ctxResumeOne cid
def withCtxPrep (s : State) (t : Nat) (c : CtxKind) : State :=
  wc5 (wc4 (wc3 ((wc1 s c).emit (.ctxN s.ctxs.length t c)) c) s.ctxs.length) c s.ctxs.length

theorem genStep_withCtx (s : State) (t : Nat) (old : Option Nat) (c : CtxKind) (b k : Body)
    (hp : (s.task t).pending = false) (hb : (s.task t).body = .withCtx c b k) :
    s.genStep t old = (withCtxPrep s t c).updTask t fun ts =>
      { ts with conts := (s.ctxs.length, k) :: ts.conts, body := b } := by
  unfold State.genStep withCtxPrep wc5 wc4 wc3 wc1
  simp only [hp, hb]
  rfl

theorem genStep_endwith (s : State) (t : Nat) (old : Option Nat)
    (hp : (s.task t).pending = false) (hb : (s.task t).body = .endwith) :
    s.genStep t old = match (s.task t).conts with
      | [] => s.finishTask t old (.ok .none)
      | (cid, k) :: rest => (s.ctxExit cid).updTask t fun ts => { ts with conts := rest, body := k } := by
  unfold State.genStep
  simp only [hp, hb]
  rfl

/-- a preparation move before the running task `t` updates itself -/
def Prep (s s' : State) (t : Nat) : Prop :=
  (Good s → Good s') ∧ s'.ctl = s.ctl ∧ (s'.fut t).ts.pending = (s.fut t).ts.pending ∧
  (s'.fut t).ts.body = (s.fut t).ts.body ∧ (s'.fut t).ts.conts = (s.fut t).ts.conts

theorem Prep.refl (s : State) (t : Nat) : Prep s s t := ⟨id, rfl, rfl, rfl, rfl⟩
theorem Prep.trans {s s1 s2 : State} {t : Nat} (a : Prep s s1 t) (b : Prep s1 s2 t) : Prep s s2 t :=
  ⟨fun g => b.1 (a.1 g), b.2.1.trans a.2.1, b.2.2.1.trans a.2.2.1, b.2.2.2.1.trans a.2.2.2.1,
   b.2.2.2.2.trans a.2.2.2.2⟩
theorem Prep.ofStill {s s' : State} (q : Still s s') (t : Nat) : Prep s s' t := by
  obtain ⟨h1, h2, _, _, _, _, h7, _⟩ := coreA_fields (q.core t)
  exact ⟨fun g => good_still g q, q.1.ctl, h7, h1, h2⟩

theorem prep_withCtx (s : State) (t : Nat) (c : CtxKind) : Prep s (withCtxPrep s t c) t := by
  unfold withCtxPrep
  have p1 : Prep s (wc1 s c) t := by
    unfold wc1; split
    · exact Prep.ofStill (still_svTouch _ _) t
    · exact Prep.refl _ _
  have p2 : Prep (wc1 s c) ((wc1 s c).emit (.ctxN s.ctxs.length t c)) t :=
    Prep.ofStill (still_emit _ (.ctxN s.ctxs.length t c) trivial) t
  generalize (wc1 s c).emit (.ctxN s.ctxs.length t c) = s2 at p2
  have p3 : Prep s2 (wc3 s2 c) t := ⟨fun g => good_setCtxs g _, rfl, rfl, rfl, rfl⟩
  generalize wc3 s2 c = s3 at p3
  have p4 : Prep s3 (wc4 s3 s.ctxs.length) t := by
    unfold wc4; split
    · exact Prep.ofStill (still_updTask _ _ _ (fun ts => coreA_ctxs ts _)) t
    · exact Prep.refl _ _
  generalize wc4 s3 s.ctxs.length = s4 at p4
  have p5 : Prep s4 (wc5 s4 c s.ctxs.length) t := by
    unfold wc5; split
    · exact Prep.refl _ _
    · exact Prep.ofStill (still_ctxResumeOne _ _) t
  exact p1.trans (p2.trans (p3.trans (p4.trans p5)))

theorem good_genStep_pending {s : State} (G : Good s) {t : Nat} {old : Option Nat} {rest : List Ctl}
    (hctl : s.ctl = .gen t old :: rest) (hp : (s.fut t).ts.pending = true)
    (hst : (s.genStep t old).stuck = none) : Good (s.genStep t old) := by
  unfold State.genStep at hst ⊢
  simp only [State.task, hp, if_true] at hst ⊢
  by_cases hs : (s.fut t).ts.started = true
  case neg =>
    rw [Bool.not_eq_true] at hs
    simp only [hs, Bool.not_false, if_true] at hst ⊢
    exact good_start G hctl _
  case pos =>
    simp only [hs, Bool.not_true, Bool.false_eq_true, if_false] at hst ⊢
    cases hb : (s.fut t).ts.body <;> simp only [hb] at hst ⊢ <;> try (simp at hst; done)
    case yld y k h =>
      cases hr : unwrap s.out (s.fut t).ts.lastY with
      | ok v =>
        simp only []
        have := good_resume G hctl hp hs k h (.inl ⟨y, hb⟩) ((s.fut t).ts.resumes + 1)
          (.run t ((s.fut t).ts.resumes + 1) ((s.fut t).ts.lastY.leaves.all s.computed) (.out (.ok v)))
          (fun ts => if s.cfg.keepDeps then ts.deps else [])
        rw [hr] at this
        exact this
      | error x =>
        simp only []
        have := good_resume G hctl hp hs k h (.inl ⟨y, hb⟩) ((s.fut t).ts.resumes + 1)
          (.run t ((s.fut t).ts.resumes + 1) ((s.fut t).ts.lastY.leaves.all s.computed) (.out (.err x)))
          (fun ts => if s.cfg.keepDeps then ts.deps else [])
        rw [hr] at this
        exact this
    case reyld k h =>
      cases hr : unwrap s.out (s.fut t).ts.lastY with
      | ok v =>
        simp only []
        have := good_resume G hctl hp hs k h (.inr hb) ((s.fut t).ts.resumes + 1)
          (.run t ((s.fut t).ts.resumes + 1) ((s.fut t).ts.lastY.leaves.all s.computed) (.out (.ok v)))
          (fun ts => if s.cfg.keepDeps then ts.deps else [])
        rw [hr] at this
        exact this
      | error x =>
        simp only []
        have := good_resume G hctl hp hs k h (.inr hb) ((s.fut t).ts.resumes + 1)
          (.run t ((s.fut t).ts.resumes + 1) ((s.fut t).ts.lastY.leaves.all s.computed) (.out (.err x)))
          (fun ts => if s.cfg.keepDeps then ts.deps else [])
        rw [hr] at this
        exact this

theorem good_genStep_run {s : State} (G : Good s) {t : Nat} {old : Option Nat} {rest : List Ctl}
    (hctl : s.ctl = .gen t old :: rest) (hp : (s.fut t).ts.pending = false)
    (hst : (s.genStep t old).stuck = none) : Good (s.genStep t old) := by
  obtain ⟨hk, ho, hlt⟩ := G.top hctl
  have hnc : s.computed t = false := by simp [State.computed, State.out, ho]
  have hden := G.fi.taskOK t hk ho
  rw [taskDen_eq] at hden
  cases hb : (s.fut t).ts.body
  case withCtx c b k =>
    rw [genStep_withCtx s t old c b k hp hb]
    obtain ⟨pg, pc, pp, pb, _⟩ := prep_withCtx s t c
    exact good_withCtx (pg G) (pc.trans hctl) (pp.trans hp) c b k _ (pb.trans hb)
  case endwith =>
    rw [genStep_endwith s t old hp hb] at hst ⊢
    cases hcs : (s.fut t).ts.conts with
    | nil =>
      simp only [State.task, hcs] at hst ⊢
      unfold State.finishTask at hst ⊢
      simp only [hnc, Bool.false_eq_true, if_false] at hst ⊢
      apply good_finishTask G hctl
      rw [← hden, tden_plain _ _ _ _ _ (by rw [hb]; intro _ _ _; nofun), hb, hcs]
      simp [evalBody, Inv.evalConts, SRes.outcome]
    | cons p rest' =>
      obtain ⟨cid, k⟩ := p
      simp only [State.task, hcs] at hst ⊢
      obtain ⟨pg, pc, pp, pb, pcs⟩ := Prep.ofStill (still_ctxExit s cid) t
      exact good_endwith (pg G) (pc.trans hctl) (pp.trans hp) cid k rest' (pb.trans hb) (pcs.trans hcs)
  all_goals
    unfold State.genStep at hst ⊢
    simp only [State.task, hp, hb, Bool.false_eq_true, if_false] at hst ⊢
  case ret tag =>
    unfold State.finishTask at hst ⊢
    simp only [hnc, Bool.false_eq_true, if_false] at hst ⊢
    apply good_finishTask G hctl
    rw [← hden, tden_plain _ _ _ _ _ (by rw [hb]; intro _ _ _; nofun), hb]
    simp [evalBody, evalConts_done]
  case res tag =>
    unfold State.finishTask at hst ⊢
    simp only [hnc, Bool.false_eq_true, if_false] at hst ⊢
    apply good_finishTask G hctl
    rw [← hden, tden_plain _ _ _ _ _ (by rw [hb]; intro _ _ _; nofun), hb]
    simp [evalBody, evalConts_done]
  case raise e =>
    unfold State.finishTask at hst ⊢
    simp only [hnc, Bool.false_eq_true, if_false] at hst ⊢
    apply good_finishTask G hctl
    rw [← hden, tden_plain _ _ _ _ _ (by rw [hb]; intro _ _ _; nofun), hb]
    simp [evalBody, evalConts_done]
  case reraise =>
    unfold State.finishTask at hst ⊢
    simp only [hnc, Bool.false_eq_true, if_false] at hst ⊢
    apply good_finishTask G hctl
    rw [← hden, tden_plain _ _ _ _ _ (by rw [hb]; intro _ _ _; nofun), hb]
    simp [evalBody, evalConts_done]
  case spawn child pass k => exact good_spawn G hctl hp child pass k hb
  case item kind payload mode k =>
    have G0 := good_ensureBatch G kind
    have hctl0 : (ensureBatch s kind).ctl = .gen t old :: rest := (ensureBatch_ctl s kind).trans hctl
    have hp0 : ((ensureBatch s kind).fut t).ts.pending = false := by rw [ensureBatch_fut]; exact hp
    have hb0 : ((ensureBatch s kind).fut t).ts.body = .item kind payload mode k := by rw [ensureBatch_fut]; exact hb
    change Good (match (ensureBatch s kind).curBatch? kind with
      | none => (ensureBatch s kind).fail "no batch"
      | some b => itemStep (ensureBatch s kind) t kind payload mode k b)
    change (match (ensureBatch s kind).curBatch? kind with
      | none => (ensureBatch s kind).fail "no batch"
      | some b => itemStep (ensureBatch s kind) t kind payload mode k b).stuck = none at hst
    split
    · rename_i hcb; rw [hcb] at hst; simp at hst
    · exact good_item G0 hctl0 hp0 kind payload mode k hb0 _
  case const v k => exact good_const G hctl hp v k hb
  case errfut e k => exact good_errfut G hctl hp e k hb
  case «lazy» o k => exact good_lazy G hctl hp o k hb
  case yld y k h =>
    apply good_yield G hctl
    · exact ⟨rfl, rfl, rfl, rfl, rfl, rfl, rfl⟩
    · exact ⟨y, k, h, .inl ⟨hb, rfl, rfl, rfl⟩⟩
    · intro d hd; exact List.mem_append_right _ hd
  case reyld k h =>
    apply good_yield G hctl
    · exact ⟨rfl, rfl, rfl, rfl, rfl, rfl, rfl⟩
    · exact ⟨.none, k, h, .inr ⟨hb, rfl, rfl, rfl⟩⟩
    · intro d hd; exact List.mem_append_right _ hd
  case sync child pass k h => exact good_sync G hctl hp child pass k h hb _
  case syncfut r k h =>
    have G1 := good_syncfut G hctl hp r k h hb (.syncE t ((s.fut t).ts.resolve r))
    refine good_syncWait G1 (t := t) (old := old) (rest := rest) hctl ?_ _
    rw [fut_emit, fut_updTask_self _ _ _ hlt]; exact hp
  case syncret f k h =>
    have hr := G.ci.raising
    simp only [hr] at hst ⊢
    cases hof : s.out f with
    | none => rw [hof] at hst; simp at hst
    | some o =>
      have G1 := good_setRaising G
      cases o with
      | ok v => exact good_syncret G1 hctl hp f k h hb (.ok v) hof (.syncX t f (.ok v)) (fun _ => trivial)
      | err x => exact good_syncret G1 hctl hp f k h hb (.err x) hof (.syncX t f (.err x)) (fun _ => trivial)
  case read var k => exact good_read G hctl hp var k hb _ (fun _ => trivial)
  case active k => exact good_active G hctl hp k hb _ (fun _ => trivial)

end AsynqModel.Core.P4

namespace AsynqModel.Core.P4
open AsynqModel.Core

theorem good_genStep {s : State} (G : Good s) {t : Nat} {old : Option Nat} {rest : List Ctl}
    (hctl : s.ctl = .gen t old :: rest) (hst : (s.genStep t old).stuck = none) : Good (s.genStep t old) := by
  cases hp : (s.fut t).ts.pending
  · exact good_genStep_run G hctl hp hst
  · exact good_genStep_pending G hctl hp hst

end AsynqModel.Core.P4
