import AsynqModel.Proofs.P14Step
import AsynqModel.Proofs.P2Inv
import AsynqModel.Proofs.P4TraceStep
/-!
  P14, part 4: the simulation relation holds in every reachable state.

  * `K_reach`  : for every `Reach s` (any program), with the observer that leaves out the `.ret` clause;
  * `K_reachW` : for every state of a well-scoped run in which the stack guard has not fired and no NonAsyncContext
    was created, with the full observer; the `.ret` clause comes from `P4.TI` (`C01_result`).
-/
namespace AsynqModel.Core.P14
open AsynqModel.Core AsynqModel.Core.Spec AsynqModel.Core.P2

/-- what `K_step` needs about a resumed task, from the invariants of reachable states (`P2.PInv`) -/
theorem hrun_of_reach {s : State} (h : Reach s) :
    ∀ t old rest, s.ctl = .gen t old :: rest → (s.task t).pending = true → (s.task t).started = true →
      s.out t = none ∧ ∀ f ∈ (s.task t).lastY.leaves, s.computed f = true := by
  intro t old rest hctl hp hs
  have inv := pinv_reach h
  have htg : t ∈ gens s.ctl := by rw [hctl]; simp [gens]
  exact ⟨inv.live t htg, fun f hf => inv.gnb t htg f (inv.leaves t hp hs f hf)⟩

theorem K_reach (c : Ctx) {s : State} (h : Reach s) : K false c s := by
  induction h with
  | init cfg tops choices => exact K_init cfg tops choices
  | step hr ih => exact K_step ih (hrun_of_reach hr) (fun f _ _ _ => chkD_ret_false ..)

theorem topOf_of_lastTop {tr : List Event} {i : Nat} {cv : Conv} (h : P4.lastTop tr = some (i, cv)) : topOf tr = i := by
  induction tr with
  | nil => cases h
  | cons e tr ih =>
    cases e with
    | top j cv' => simp only [P4.lastTop] at h; injection h with h; injection h with h _
    | _ => exact ih h

theorem step_finishTop {s : State} {f : Nat} (hst : s.stuck = none) (hctl : s.ctl = []) (hcur : s.curTop = some f) :
    step s = s.finishTop f := by
  unfold step
  simp [hst, hctl, hcur]

theorem finishTop_trace (s : State) (f : Nat) : ∃ l a b1 b2 d,
    (s.finishTop f).trace = .svals l :: .sched true a b1 b2 d :: .ret (topOutcome s f) :: s.trace :=
  ⟨_, _, _, _, _, rfl⟩

/-- the `.ret` clause at the end of a top-level computation of a well-scoped run -/
theorem ret_ok {cfg : Cfg} {tops : List (Conv × Body)} {choices : List (Nat × Nat)} {s : State}
    (hW : P4.ReachW cfg tops choices s) {f : Nat} (hst : s.stuck = none) (hctl : s.ctl = []) (hcur : s.curTop = some f)
    (hg : (step s).guardFired = false) (hn : Inv.noNonAsync (step s) = true) :
    chkD true (mkCtx cfg tops) (wOf s.trace) (.ret (topOutcome s f)) = none := by
  have hg0 := P4.step_guard _ hg
  have hn0 := P4.step_noNonAsync _ hn
  have T0 := (P4.good_tr_reach hW hst hg0 hn0).2.ti
  obtain ⟨conv, body, h1, h2, _, _⟩ := T0.cur f hcur
  have hfin := step_finishTop hst hctl hcur
  have hst1 : (step s).stuck = none := by rw [hfin]; exact hst
  have T1 := (P4.good_tr_reach (P4.ReachW.step hW) hst1 hg hn).2.ti
  obtain ⟨l, a, b1, b2, d, htr⟩ := finishTop_trace s f
  have hmem : (s.topIdx - 1, conv, topOutcome s f) ∈ P4.results (step s).trace := by
    rw [hfin, htr]
    simp only [P4.results, h1]
    simp
  obtain ⟨body', hb1, hb2⟩ := T1.results _ hmem
  simp only [] at hb1 hb2
  have hti : (wOf s.trace).topIdx = s.topIdx - 1 := by rw [wOf_topIdx]; exact topOf_of_lastTop h1
  show checkDelivery (mkCtx cfg tops) (wOf s.trace) (.ret (topOutcome s f)) = none
  simp only [checkDelivery, hti, mkCtx, hb1, hb2]
  simp

theorem K_reachW {cfg : Cfg} {tops : List (Conv × Body)} {choices : List (Nat × Nat)} {s : State}
    (hW : P4.ReachW cfg tops choices s) (hg : s.guardFired = false) (hn : Inv.noNonAsync s = true) :
    K true (mkCtx cfg tops) s := by
  induction hW with
  | init hw => exact K_init cfg tops choices
  | step hW ih =>
    have ih' := ih (P4.step_guard _ hg) (P4.step_noNonAsync _ hn)
    exact K_step ih' (hrun_of_reach hW.reach) (fun f hst hctl hcur => ret_ok hW hst hctl hcur hg hn)

end AsynqModel.Core.P14
