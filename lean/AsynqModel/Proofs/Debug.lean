import AsynqModel.Lib.Debug
/-! helper lemmas for C18 -/
namespace AsynqModel.Debug

/-! ### filter_traceback -/

/-- the inner loop answers exactly "the lines start with a complete run of the patterns" -/
theorem matchRun_iff (ps : List Pat) (ls : List Line) :
    matchRun ps ls = true ↔ Complete ps (ls.take ps.length) := by
  induction ps generalizing ls with
  | nil => simp [matchRun]; exact Complete.nil
  | cons p ps ih =>
    cases ls with
    | nil => simp [matchRun]; intro h; cases h
    | cons l ls =>
      simp only [matchRun, Bool.and_eq_true, List.length_cons, List.take_succ_cons, ih]
      constructor
      · rintro ⟨h1, h2⟩
        exact Complete.cons (by simpa using h1) h2
      · intro h
        cases h with
        | cons h1 h2 => exact ⟨by simpa using h1, h2⟩

theorem Complete.length {ps : List Pat} {ls : List Line} (h : Complete ps ls) : ls.length = ps.length := by
  induction h with
  | nil => rfl
  | cons _ _ ih => simp [ih]

theorem matchRun_append {ps : List Pat} {seg : List Line} (h : Complete ps seg) (rest : List Line) :
    matchRun ps (seg ++ rest) = true := by
  rw [matchRun_iff]
  have := h.length
  simp [← this, h]

theorem firstMatch_some {tbl : List Repl} {ls : List Line} {r : Repl} (h : firstMatch tbl ls = some r) :
    r ∈ tbl ∧ matchRun r.pats ls = true := by
  induction tbl with
  | nil => simp [firstMatch] at h
  | cons r' rs ih =>
    simp only [firstMatch] at h
    split at h
    · injection h with h; subst h; simp_all
    · have := ih h; simp_all

theorem firstMatch_none {tbl : List Repl} {ls : List Line} :
    firstMatch tbl ls = none ↔ ∀ r ∈ tbl, matchRun r.pats ls = false := by
  induction tbl with
  | nil => simp [firstMatch]
  | cons r' rs ih =>
    simp only [firstMatch]
    split <;> simp_all

/-- first match wins: every earlier entry of the table does not match -/
theorem firstMatch_first {tbl : List Repl} {ls : List Line} {r : Repl} (h : firstMatch tbl ls = some r) :
    ∃ pre post, tbl = pre ++ r :: post ∧ (∀ r' ∈ pre, matchRun r'.pats ls = false) ∧ matchRun r.pats ls = true := by
  induction tbl with
  | nil => simp [firstMatch] at h
  | cons r' rs ih =>
    simp only [firstMatch] at h
    split at h
    · injection h with h; subst h
      exact ⟨[], rs, rfl, by simp, by assumption⟩
    · obtain ⟨pre, post, h1, h2, h3⟩ := ih h
      refine ⟨r' :: pre, post, by simp [h1], ?_, h3⟩
      intro x hx
      simp only [List.mem_cons] at hx
      rcases hx with rfl | hx
      · rename_i hn
        exact Bool.eq_false_iff.mpr hn
      · exact h2 x hx

/-- skipping `k` lines is dropping them -/
theorem go_skip (tbl : List Repl) (k : Nat) (ls : List Line) : go tbl k ls = go tbl 0 (ls.drop k) := by
  induction ls generalizing k with
  | nil => simp [go]
  | cons l ls ih =>
    cases k with
    | zero => simp
    | succ k => simp [go, ih k]

theorem tablesOK_mem {tbl : List Repl} (h : tablesOK tbl = true) {r : Repl} (hr : r ∈ tbl) : r.pats ≠ [] := by
  simp only [tablesOK, List.all_eq_true] at h
  have := h r hr
  intro h0
  simp [h0] at this

theorem go_renders (tbl : List Repl) (hok : tablesOK tbl = true) :
    ∀ (n : Nat) (ls : List Line), ls.length ≤ n → Renders tbl ls (go tbl 0 ls) := by
  intro n
  induction n with
  | zero =>
    intro ls h
    have : ls = [] := List.eq_nil_of_length_eq_zero (by omega)
    subst this
    exact Renders.nil
  | succ n ih =>
    intro ls h
    cases ls with
    | nil => exact Renders.nil
    | cons l ls =>
      simp only [go]
      cases hm : firstMatch tbl (l :: ls) with
      | none => exact Renders.keep (ih ls (by simpa using h))
      | some r =>
        obtain ⟨hr, hmr⟩ := firstMatch_some hm
        have hne := tablesOK_mem hok hr
        rw [matchRun_iff] at hmr
        simp only
        rw [go_skip]
        have hlen : 1 ≤ r.pats.length := by
          cases hp : r.pats with
          | nil => exact absurd hp hne
          | cons _ _ => simp
        have hsplit : l :: ls = (l :: ls).take r.pats.length ++ ls.drop (r.pats.length - 1) := by
          have : (l :: ls).drop r.pats.length = ls.drop (r.pats.length - 1) := by
            obtain ⟨m, hm'⟩ : ∃ m, r.pats.length = m + 1 := ⟨r.pats.length - 1, by omega⟩
            simp [hm']
          rw [← this, List.take_append_drop]
        have hrec : Renders tbl (ls.drop (r.pats.length - 1)) (go tbl 0 (ls.drop (r.pats.length - 1))) := by
          apply ih
          have : (ls.drop (r.pats.length - 1)).length ≤ ls.length := by simp
          simp at h
          omega
        have := Renders.run hr hne hmr hrec
        rw [← hsplit] at this
        exact this

theorem rendersB_sound (tbl : List Repl) : ∀ (out : List Out) (inp : List Line),
    rendersB tbl inp out = true → Renders tbl inp out := by
  intro out
  induction out with
  | nil =>
    intro inp h
    simp only [rendersB, List.isEmpty_iff] at h
    subst h
    exact Renders.nil
  | cons o out ih =>
    intro inp h
    cases o with
    | copy l =>
      cases inp with
      | nil => simp [rendersB] at h
      | cons x rest =>
        simp only [rendersB, Bool.and_eq_true, beq_iff_eq] at h
        obtain ⟨rfl, h2⟩ := h
        exact Renders.keep (ih _ h2)
    | marker m =>
      simp only [rendersB, List.any_eq_true, Bool.and_eq_true, beq_iff_eq, Bool.not_eq_true',
        List.isEmpty_eq_false_iff] at h
      obtain ⟨r, hr, ⟨⟨⟨hm, hne⟩, hrun⟩, hrest⟩⟩ := h
      rw [matchRun_iff] at hrun
      have := Renders.run hr hne hrun (ih _ hrest)
      rw [List.take_append_drop, hm] at this
      exact this
    | unknown => simp [rendersB] at h

theorem rendersB_complete (tbl : List Repl) {inp : List Line} {out : List Out} (h : Renders tbl inp out) :
    rendersB tbl inp out = true := by
  induction h with
  | nil => simp [rendersB]
  | keep _ ih => simp [rendersB, ih]
  | @run r seg inp out hr hne hc _ ih =>
    simp only [rendersB, List.any_eq_true, Bool.and_eq_true, beq_iff_eq, Bool.not_eq_true',
      List.isEmpty_eq_false_iff]
    refine ⟨r, hr, ⟨⟨⟨rfl, hne⟩, matchRun_append hc inp⟩, ?_⟩⟩
    have := hc.length
    simp [← this, ih]

theorem noCompleteRun_go (tbl : List Repl) (ls : List Line) (h : noCompleteRun tbl ls = true) :
    go tbl 0 ls = ls.map .copy := by
  induction ls with
  | nil => simp [go]
  | cons l ls ih =>
    simp only [noCompleteRun, Bool.and_eq_true, List.all_eq_true, Bool.not_eq_true'] at h
    have hnone : firstMatch tbl (l :: ls) = none := firstMatch_none.mpr h.1
    simp [go, hnone, ih h.2]

/-! ### gluing -/

theorem userFrames_append (a b : List Frame) : userFrames (a ++ b) = userFrames a ++ userFrames b := by
  simp [userFrames]

theorem userFrames_raisedIn (lv h : Nat) : userFrames (raisedIn lv h) = raisedIn lv h := by
  simp only [userFrames, raisedIn, List.filter_cons, isUser]
  simp only [if_true, List.cons.injEq, true_and]
  rw [List.filter_eq_self]
  intro f hf
  simp only [List.mem_map] at hf
  obtain ⟨k, _, rfl⟩ := hf
  rfl

theorem userFrames_visible (fs : List Frame) : userFrames (visible fs) = userFrames fs := by
  induction fs with
  | nil => rfl
  | cons f fs ih =>
    cases f <;> simp_all [userFrames, visible, isUser, List.filter_cons]

/-- what is known about the error stored on a task / held by the awaited future, relative to the reference frames -/
structure Inv (e : Err) (fs : List Frame) : Prop where
  same : e.hasTask = e.hasType
  tb : userFrames e.tb = fs
  bare : e.hasTask = false → userFrames e.cur = [] ∧ fs = []

theorem inv_fresh (tok : Nat) : Inv (fresh tok) [] := by
  constructor <;> simp [fresh, userFrames]

theorem arrive_frames (aw : Await) (lv : Nat) (via : Bool) (e : Err) (fs : List Frame) (h : Inv e fs) :
    userFrames (arrive aw lv via e).1.cur = .task lv :: fs ∧ (arrive aw lv via e).1.tok = e.tok ∧
    (arrive aw lv via e).1.hasTask = e.hasTask ∧ (arrive aw lv via e).1.hasType = e.hasType := by
  obtain ⟨hs, htb, hb⟩ := h
  cases aw <;> cases via <;> cases ht : e.hasTask <;>
    simp_all [arrive, unwind, valueRaises, reraise, userFrames, isUser, List.filter_cons, ← hs]

theorem escape_inv (rule : FrameRule) (slot : Option Frame) (e : Err) (fs : List Frame) (hsame : e.hasTask = e.hasType)
    (hcur : userFrames e.cur = fs) : Inv (escape rule slot e).1 fs ∧ (escape rule slot e).1.tok = e.tok := by
  cases ht : e.hasTask <;>
    (simp only [escape, acceptError, prepareForReraise]
     have : e.hasType = e.hasTask := hsame.symm
     simp_all only [Bool.not_false, Bool.not_true, if_true]
     refine ⟨⟨by simp, ?_, by simp⟩, by simp⟩
     simp_all [userFrames, isUser])

theorem escape_fresh (rule : FrameRule) (slot : Option Frame) (tok lv h : Nat) :
    Inv (escape rule slot (unwind (raisedIn lv h) (fresh tok))).1 (raisedIn lv h) ∧
    (escape rule slot (unwind (raisedIn lv h) (fresh tok))).1.tok = tok := by
  have := escape_inv rule slot (unwind (raisedIn lv h) (fresh tok)) (raisedIn lv h) (by simp [unwind, fresh])
    (by simp [unwind, fresh, userFrames_raisedIn])
  simpa [unwind, fresh] using this

/-- the error stored on each task of the chain agrees with the reference semantics -/
def Agrees (o : Option Err) (r : Option (Nat × List Frame)) : Prop :=
  match o, r with
  | none, none => True
  | some e, some (tok, fs) => e.tok = tok ∧ Inv e fs
  | _, _ => False

theorem finish_agrees (rule : FrameRule) (lv : Nat) (L : Level) (slot : Option Frame) :
    Agrees (finish rule lv L slot).1 (L.own.map fun h => (ownTok lv, raisedIn lv h)) := by
  cases ho : L.own with
  | none => simp [finish, ho, Agrees]
  | some h =>
    have := escape_fresh rule slot (ownTok lv) lv h
    simp only [finish, ho, Option.map_some, Agrees]
    exact ⟨this.2, this.1⟩

theorem step_agrees (rule : FrameRule) (lv : Nat) (anc : List Frame) (L : Level) (last : Bool) (child : Run)
    (cref : Option (Nat × List Frame)) (hc : Agrees child.out cref) :
    Agrees (step rule lv anc L last child).out (refStep lv L cref) := by
  simp only [step, refStep]
  cases hco : child.out with
  | none =>
    rw [hco] at hc
    cases cref with
    | some _ => simp [Agrees] at hc
    | none =>
      simp only
      exact finish_agrees rule lv L none
  | some e =>
    rw [hco] at hc
    cases cref with
    | none => simp [Agrees] at hc
    | some p =>
      obtain ⟨tok, fs⟩ := p
      obtain ⟨htok, hinv⟩ := hc
      have ha := arrive_frames L.await lv (!last) e fs hinv
      simp only
      cases hh : L.handler with
      | pass =>
        have := escape_inv rule (arrive L.await lv (!last) e).2 (arrive L.await lv (!last) e).1
          (.task lv :: fs) (by rw [ha.2.2.1, ha.2.2.2]; exact hinv.same) ha.1
        simp only [Agrees]
        exact ⟨by rw [this.2, ha.2.1, htok], this.1⟩
      | bare =>
        have := escape_inv rule (arrive L.await lv (!last) e).2 (arrive L.await lv (!last) e).1
          (.task lv :: fs) (by rw [ha.2.2.1, ha.2.2.2]; exact hinv.same) ha.1
        simp only [Agrees]
        exact ⟨by rw [this.2, ha.2.1, htok], this.1⟩
      | named =>
        have := escape_inv rule (arrive L.await lv (!last) e).2 (arrive L.await lv (!last) e).1
          (.task lv :: fs) (by rw [ha.2.2.1, ha.2.2.2]; exact hinv.same) ha.1
        simp only [Agrees]
        exact ⟨by rw [this.2, ha.2.1, htok], this.1⟩
      | raiseNew h =>
        have := escape_fresh rule (arrive L.await lv (!last) e).2 (newTok lv) lv h
        simp only [Agrees]
        exact ⟨this.2, this.1⟩
      | swallow =>
        simp only
        exact finish_agrees rule lv L _

theorem userFrames_hookFrames (lv h : Nat) : userFrames (hookFrames lv h) = hookFrames lv h := by
  simp only [userFrames, hookFrames, List.filter_cons, isUser]
  simp only [if_true, List.cons.injEq, true_and]
  rw [List.filter_eq_self]
  intro f hf
  simp only [List.mem_map] at hf
  obtain ⟨k, _, rfl⟩ := hf
  rfl

/-- a hook that raises while the scheduler suspends / continues the task: the stored traceback ends at the hook -/
theorem hookFails_agrees (lv h : Nat) : Agrees (some (hookFails lv h)) (some (hookTok, hookFrames lv h)) := by
  simp only [Agrees, hookFails, acceptError, prepareForReraise, unwind, fresh]
  refine ⟨by simp, ⟨by simp, ?_, by simp⟩⟩
  have := userFrames_hookFrames lv h
  simp_all [userFrames, isUser]

/-- the error stored on each task of the chain agrees with the reference semantics -/
theorem run_agrees (rule : FrameRule) (bottom : Bottom) (levels : List Level) :
    ∀ (lv : Nat) (anc : List Frame), Agrees (run rule bottom lv anc levels).out (ref bottom lv levels) := by
  induction levels with
  | nil =>
    intro lv anc
    cases bottom
    · simp [run, ref, Agrees]
    · simp only [run, ref, Agrees, beq_self_eq_true, if_true]
      exact ⟨rfl, inv_fresh _⟩
    · simp [run, ref, Agrees]
  | cons L rest ih =>
    intro lv anc
    have hc := ih (lv + 1) (anc ++ [.task lv])
    cases rest with
    | nil =>
      cases bottom with
      | hook r h => simpa only [run, ref, hookRun] using hookFails_agrees lv h
      | none => simpa only [run, ref] using step_agrees rule lv anc L _ _ _ hc
      | errFuture => simpa only [run, ref] using step_agrees rule lv anc L _ _ _ hc
    | cons L' rest' => simpa only [run, ref] using step_agrees rule lv anc L _ _ _ hc

/-! ### the asynq stack -/

theorem deepest_mem (f : Frame) (fs : List Frame) : deepest f fs = f ∨ deepest f fs ∈ fs := by
  induction fs generalizing f with
  | nil => simp [deepest]
  | cons g gs ih =>
    simp only [deepest]
    rcases ih g with h | h
    · right; simp [h]
    · right; simp [h]

theorem deepest_append_ne (f : Frame) (a b : List Frame) (hb : b ≠ []) : deepest f (a ++ b) ∈ b := by
  induction a generalizing f with
  | nil =>
    cases b with
    | nil => exact absurd rfl hb
    | cons g gs =>
      simp only [List.nil_append, deepest]
      rcases deepest_mem g gs with h | h <;> simp [h]
  | cons x xs ih => simpa [deepest] using ih x

theorem levelTok_raisedIn (lv h : Nat) : ∀ f ∈ raisedIn lv h, levelTok f = lv := by
  intro f hf
  simp only [raisedIn, List.mem_cons, List.mem_map] at hf
  rcases hf with rfl | ⟨k, _, rfl⟩ <;> rfl

/-- an own exception (raised by the level itself, possibly inside helpers) leaves the level's own line -/
theorem ownDeepest_user (f : Frame) (fs : List Frame) (h : ∀ g ∈ fs, isUser g = true) (hne : fs ≠ []) :
    ownDeepest f fs ∈ fs := by
  induction fs generalizing f with
  | nil => exact absurd rfl hne
  | cons g gs ih =>
    have hg := h g (by simp)
    cases g with
    | lib _ => simp [isUser] at hg
    | caller | task _ | helper _ _ | orphan _ | hook _ | hookHelper _ _ =>
      simp only [ownDeepest]
      cases gs with
      | nil => simp [ownDeepest]
      | cons x xs =>
        exact List.mem_cons_of_mem _ (ih _ (fun g hg => h g (by simp [hg])) (by simp))

theorem isUser_raisedIn (lv h : Nat) : ∀ f ∈ raisedIn lv h, isUser f = true := by
  intro f hf
  simp only [raisedIn, List.mem_cons, List.mem_map] at hf
  rcases hf with rfl | ⟨k, _, rfl⟩ <;> rfl

theorem escape_fresh_line (rule : FrameRule) (slot : Option Frame) (tok lv h : Nat)
    (hs : ∀ f, slot = some f → levelTok f = lv) :
    levelTok (escape rule slot (unwind (raisedIn lv h) (fresh tok))).2 = lv := by
  cases slot with
  | some f => simpa [escape] using hs f rfl
  | none =>
    cases rule with
    | deepest =>
      simp only [escape, unwind, fresh, List.append_nil]
      have := deepest_append_ne (.lib .cog) [] (raisedIn lv h) (by simp [raisedIn])
      exact levelTok_raisedIn lv h _ (by simpa using this)
    | own =>
      simp only [escape, unwind, fresh, List.append_nil]
      exact levelTok_raisedIn lv h _ (ownDeepest_user _ _ (isUser_raisedIn lv h) (by simp [raisedIn]))

theorem finish_line (rule : FrameRule) (lv : Nat) (L : Level) (slot : Option Frame)
    (hs : ∀ f, slot = some f → levelTok f = lv) :
    levelTok (finish rule lv L slot).2 = lv := by
  cases ho : L.own with
  | some h => simpa [finish, ho] using escape_fresh_line rule slot (ownTok lv) lv h hs
  | none =>
    cases slot with
    | none => simp [finish, ho, levelTok]
    | some f => simpa [finish, ho] using hs f rfl

theorem arrive_slot (aw : Await) (lv : Nat) (via : Bool) (e : Err) :
    ∀ f, (arrive aw lv via e).2 = some f → levelTok f = lv := by
  intro f hf
  cases aw <;> simp [arrive] at hf
  subst hf
  rfl

theorem agrees_isSome {o : Option Err} {r : Option (Nat × List Frame)} (h : Agrees o r) : o.isSome = r.isSome := by
  cases o <;> cases r <;> simp_all [Agrees]

/-- the task of a level fails iff the sequential reading says so -/
theorem run_out_isSome (rule : FrameRule) (bottom : Bottom) (levels : List Level) (lv : Nat) (anc : List Frame) :
    (run rule bottom lv anc levels).out.isSome = (ref bottom lv levels).isSome :=
  agrees_isSome (run_agrees rule bottom levels lv anc)

/-- the line a finished level shows: it is put in front of the lines of the levels below, and it belongs to the level
    itself unless the level let the exception of a synchronously called child pass under the `deepest` rule -/
theorem step_lines (rule : FrameRule) (lv : Nat) (anc : List Frame) (L : Level) (last : Bool) (child : Run) :
    ∃ line, (step rule lv anc L last child).lines = line :: child.lines ∧
      ((rule = .own ∨ L.await = .yld ∨ L.handler.passes = false ∨ child.out = none) → levelTok line = lv) := by
  simp only [step]
  split
  · exact ⟨_, rfl, fun _ => finish_line rule lv L none (by simp)⟩
  · rename_i e hco
    have hslot := arrive_slot L.await lv (!last) e
    have hpass : ∀ (slot : Option Frame) (e3 : Err), (slot, e3) = ((arrive L.await lv (!last) e).2, (arrive L.await lv (!last) e).1) →
        L.handler.passes = true →
        (rule = .own ∨ L.await = .yld ∨ L.handler.passes = false ∨ child.out = none) →
        levelTok (escape rule slot e3).2 = lv := by
      intro slot e3 heq hp hL
      simp only [Prod.mk.injEq] at heq
      obtain ⟨rfl, rfl⟩ := heq
      cases ha : L.await with
      | yld => simp [escape, arrive, levelTok]
      | sync =>
        rcases hL with rfl | hL | hL | hL
        · cases hv : (!last) <;>
            simp [escape, arrive, unwind, valueRaises, reraise, ownDeepest, levelTok]
        · simp [ha] at hL
        · simp [hp] at hL
        · simp [hco] at hL
    split
    · rename_i hh
      exact ⟨_, rfl, hpass _ _ rfl (by simp [Handler.passes, hh])⟩
    · rename_i hh
      exact ⟨_, rfl, hpass _ _ rfl (by simp [Handler.passes, hh])⟩
    · rename_i hh
      exact ⟨_, rfl, hpass _ _ rfl (by simp [Handler.passes, hh])⟩
    · exact ⟨_, rfl, fun _ => escape_fresh_line rule _ _ lv _ hslot⟩
    · exact ⟨_, rfl, fun _ => finish_line rule lv L _ hslot⟩

theorem no_orphans (lines : List Frame) (levels : List Level) (h : levels.all (fun M => !M.orphan) = true) :
    ∀ i, orphanEvents lines i levels = [] ∧ refOrphans i levels = [] := by
  induction levels with
  | nil => intro i; simp [orphanEvents, refOrphans]
  | cons L rest ih =>
    intro i
    simp only [List.all_cons, Bool.and_eq_true, Bool.not_eq_true'] at h
    have := ih (by simpa using h.2) (i + 1)
    simp [orphanEvents, refOrphans, h.1, this]

/-- **the stacks the orphans get are the reference ones** when no orphan is created at or below a level that was left
    with a foreign `_frame` (`stackSafe`), or under the repaired frame rule -/
theorem run_orphans (rule : FrameRule) (bottom : Bottom) (levels : List Level) :
    ∀ (lv : Nat) (anc pre : List Frame), pre.length = lv → pre.map levelTok = List.range lv →
      (rule = .own ∨ stackSafe bottom lv levels = true) →
      orphanEvents (pre ++ (run rule bottom lv anc levels).lines) lv levels = refOrphans lv levels := by
  induction levels with
  | nil => intros; simp [orphanEvents, refOrphans]
  | cons L rest ih =>
    intro lv anc pre hlen hpre hsafe
    -- the run of this level: its line in front of the lines of the levels below
    have hlines : ∃ line, (run rule bottom lv anc (L :: rest)).lines =
          line :: (match rest, bottom with
            | [], .hook _ _ => []
            | _, _ => (run rule bottom (lv + 1) (anc ++ [.task lv]) rest).lines) ∧
        ((rule = .own ∨ unsafeHere bottom lv L rest = false) → levelTok line = lv) := by
      have hstep := step_lines rule lv anc L rest.isEmpty (run rule bottom (lv + 1) (anc ++ [.task lv]) rest)
      have hconv : (rule = .own ∨ unsafeHere bottom lv L rest = false) →
          (rule = .own ∨ L.await = .yld ∨ L.handler.passes = false ∨
            (run rule bottom (lv + 1) (anc ++ [.task lv]) rest).out = none) := by
        rintro (h | h)
        · exact Or.inl h
        · right
          have hs := run_out_isSome rule bottom rest (lv + 1) (anc ++ [.task lv])
          simp only [unsafeHere, Bool.and_eq_false_iff, beq_eq_false_iff_ne, ne_eq] at h
          rcases h with (h | h) | h
          · left; cases ha : L.await <;> simp_all
          · right; left; simpa using h
          · right; right
            rw [← hs] at h
            cases ho : (run rule bottom (lv + 1) (anc ++ [.task lv]) rest).out <;> simp_all
      cases rest with
      | nil =>
        cases bottom with
        | hook r h => exact ⟨.task lv, by simp [run, hookRun], fun _ => rfl⟩
        | none =>
          obtain ⟨line, h1, h2⟩ := hstep
          exact ⟨line, by simpa only [run] using h1, fun h => h2 (hconv h)⟩
        | errFuture =>
          obtain ⟨line, h1, h2⟩ := hstep
          exact ⟨line, by simpa only [run] using h1, fun h => h2 (hconv h)⟩
      | cons L' rest' =>
        obtain ⟨line, h1, h2⟩ := hstep
        exact ⟨line, by simpa only [run] using h1, fun h => h2 (hconv h)⟩
    obtain ⟨line, hl, hline⟩ := hlines
    by_cases hu : rule = .own ∨ unsafeHere bottom lv L rest = false
    · -- this level shows its own line: go on below it
      have hsafe' : rule = .own ∨ stackSafe bottom (lv + 1) rest = true := by
        rcases hsafe with h | h
        · exact Or.inl h
        · rcases hu with hu | hu
          · exact Or.inl hu
          · simp only [stackSafe, hu, Bool.false_eq_true, if_false] at h
            exact Or.inr h
      have hl' := hline hu
      have hpre' : (pre ++ [line]).map levelTok = List.range (lv + 1) := by
        simp [hpre, hl', List.range_succ]
      have hrec : orphanEvents (pre ++ line :: (run rule bottom (lv + 1) (anc ++ [.task lv]) rest).lines) (lv + 1) rest =
          refOrphans (lv + 1) rest := by
        have := ih (lv + 1) (anc ++ [.task lv]) (pre ++ [line]) (by simp [hlen]) hpre' hsafe'
        simpa using this
      have htail : orphanEvents (pre ++ (run rule bottom lv anc (L :: rest)).lines) (lv + 1) rest = refOrphans (lv + 1) rest := by
        rw [hl]
        cases rest with
        | nil => simp [orphanEvents, refOrphans]
        | cons L' rest' => simpa using hrec
      have htake : ((pre ++ (run rule bottom lv anc (L :: rest)).lines).take (lv + 1)).map levelTok = List.range (lv + 1) := by
        rw [hl, List.take_append, List.take_of_length_le (by omega)]
        simp [hlen, hpre, hl', List.range_succ]
      simp only [orphanEvents, refOrphans, htail]
      split
      · simp [htake, levelTok]
      · rfl
    · -- a foreign `_frame` from here on: nobody asks
      have hu' : unsafeHere bottom lv L rest = true := by
        cases h : unsafeHere bottom lv L rest
        · exact absurd (Or.inr h) hu
        · rfl
      have hr : rule ≠ .own := fun h => hu (Or.inl h)
      rcases hsafe with h | h
      · exact absurd h hr
      · simp only [stackSafe, hu', if_true] at h
        have := no_orphans (pre ++ (run rule bottom lv anc (L :: rest)).lines) (L :: rest) h lv
        rw [this.1, this.2]

/-- the `format_asynq_stack()` answers recorded by one level -/
theorem step_events (rule : FrameRule) (lv : Nat) (anc : List Frame) (L : Level) (last : Bool) (child : Run)
    (hanc : anc.map levelTok = List.range lv) :
    (step rule lv anc L last child).events =
      .stack .start lv (List.range (lv + 1)) :: child.events ++
        (if child.out.isSome && L.handler != .pass then [.stack .handler lv (List.range (lv + 1))] else []) := by
  have hhere : (anc ++ [Frame.task lv]).map levelTok = List.range (lv + 1) := by
    simp [hanc, List.range_succ, levelTok]
  simp only [step, hhere]
  split
  · rename_i h; simp [h]
  · rename_i e h
    split <;> rename_i hh <;> simp [h, hh]

/-- **the stacks asked for inside the bodies are exactly the reference ones**: which levels ask (every level when it
    starts; in its handler iff the level below failed), in which order, and what they are told -/
theorem run_events (rule : FrameRule) (bottom : Bottom) (levels : List Level) :
    ∀ (lv : Nat) (anc : List Frame), anc.map levelTok = List.range lv →
      (run rule bottom lv anc levels).events = refEvents bottom lv levels := by
  induction levels with
  | nil => intros; simp [run, refEvents]
  | cons L rest ih =>
    intro lv anc hanc
    have hhere : (anc ++ [Frame.task lv]).map levelTok = List.range (lv + 1) := by
      simp [hanc, List.range_succ, levelTok]
    have ihc := ih (lv + 1) (anc ++ [.task lv]) hhere
    have hstep := step_events rule lv anc L rest.isEmpty (run rule bottom (lv + 1) (anc ++ [.task lv]) rest) hanc
    rw [ihc, run_out_isSome] at hstep
    cases rest with
    | nil =>
      cases bottom with
      | hook r h => simp [run, hookRun, refEvents, hhere]
      | none => simpa only [run, refEvents] using hstep
      | errFuture => simpa only [run, refEvents] using hstep
    | cons L' rest' => simpa only [run, refEvents] using hstep

/-! ### later retrievals of the error of a failed chain (round 5) -/

/-- the error STORED ON A TASK (it went through `_accept_error`), relative to the reference frames -/
structure Stored (e : Err) (fs : List Frame) : Prop where
  task : e.hasTask = true
  type : e.hasType = true
  tb : userFrames e.tb = fs

theorem Stored.inv {e : Err} {fs : List Frame} (h : Stored e fs) : Inv e fs :=
  ⟨by rw [h.task, h.type], h.tb, by simp [h.task]⟩

theorem escape_hasTask (rule : FrameRule) (slot : Option Frame) (e : Err) : (escape rule slot e).1.hasTask = true := by
  cases ht : e.hasTask <;> cases hy : e.hasType <;> simp [escape, acceptError, prepareForReraise, ht, hy]

/-- catching the exception changes `__traceback__` only -/
theorem seen_stored {e : Err} {fs : List Frame} (h : Stored e fs) : Stored (seen e) fs ∧ (seen e).tok = e.tok := by
  obtain ⟨h1, h2, h3⟩ := h
  refine ⟨⟨?_, ?_, ?_⟩, ?_⟩ <;> simp [seen, unwind, valueRaises, reraise, h1, h2, h3]

/-- **whatever `__traceback__` holds** (what an earlier consumer saw), a stored error reaches the synchronous caller
    with the caller's frame followed by the glued frames -/
theorem resultEvent_stored {e : Err} {fs : List Frame} (h : Stored e fs) :
    resultEvent (some e) = refResult (some (e.tok, fs)) := by
  obtain ⟨h1, h2, h3⟩ := h
  have hcv : userFrames (callerView e) = .caller :: fs := by
    simp only [userFrames] at h3
    simp [callerView, unwind, valueRaises, reraise, h2, userFrames, List.filter_cons, isUser, h3]
  simp [resultEvent, refResult, userFrames_visible, hcv, h3]

theorem retrieveErr_stored (rule : FrameRule) (i : Nat) (r : Retrieval) {e : Err} {fs : List Frame} (h : Stored e fs) :
    Stored (retrieveErr rule i r e) (match r with | .direct => fs | .viaTask _ => .task (againLv i) :: fs) ∧
      (retrieveErr rule i r e).tok = e.tok := by
  cases r with
  | direct => exact ⟨h, rfl⟩
  | viaTask aw =>
    have ha := arrive_frames aw (againLv i) false e fs h.inv
    have he := escape_inv rule (arrive aw (againLv i) false e).2 (arrive aw (againLv i) false e).1
      (.task (againLv i) :: fs) (by rw [ha.2.2.1, ha.2.2.2, h.task, h.type]) ha.1
    have ht := escape_hasTask rule (arrive aw (againLv i) false e).2 (arrive aw (againLv i) false e).1
    simp only [retrieveErr]
    refine ⟨⟨ht, ?_, he.1.tb⟩, by rw [he.2, ha.2.1]⟩
    rw [← he.1.same, ht]

/-- every later retrieval shows the reference frames, however many consumers came before -/
theorem retrievals_ref (rule : FrameRule) (rs : List Retrieval) :
    ∀ (i : Nat) (e : Err) (fs : List Frame), Stored e fs →
      retrievals rule i e rs = refRetrievals i e.tok fs rs := by
  induction rs with
  | nil => intros; rfl
  | cons r rs ih =>
    intro i e fs h
    have hr := retrieveErr_stored rule i r h
    have hs := seen_stored hr.1
    simp only [retrievals, refRetrievals]
    rw [resultEvent_stored hr.1, ih (i + 1) _ _ hs.1, hs.2, hr.2]
    cases r <;> rfl

theorem step_out_hasTask (rule : FrameRule) (lv : Nat) (anc : List Frame) (L : Level) (last : Bool) (child : Run)
    (e : Err) (h : (step rule lv anc L last child).out = some e) : e.hasTask = true := by
  have hfin : ∀ slot, (finish rule lv L slot).1 = some e → e.hasTask = true := by
    intro slot hf
    cases ho : L.own with
    | none => simp [finish, ho] at hf
    | some k =>
      simp only [finish, ho, Option.some.injEq] at hf
      rw [← hf]; exact escape_hasTask _ _ _
  simp only [step] at h
  cases hco : child.out with
  | none =>
    simp only [hco] at h
    exact hfin _ h
  | some c =>
    simp only [hco] at h
    cases hh : L.handler <;> simp only [hh, Option.some.injEq] at h
    · rw [← h]; exact escape_hasTask _ _ _
    · rw [← h]; exact escape_hasTask _ _ _
    · rw [← h]; exact escape_hasTask _ _ _
    · rw [← h]; exact escape_hasTask _ _ _
    · exact hfin _ h

/-- the error of a chain of at least one task is stored on a task -/
theorem run_out_hasTask (rule : FrameRule) (bottom : Bottom) (L : Level) (rest : List Level) (lv : Nat) (anc : List Frame)
    (e : Err) (h : (run rule bottom lv anc (L :: rest)).out = some e) : e.hasTask = true := by
  cases rest with
  | nil =>
    cases bottom with
    | hook r k =>
      simp only [run, hookRun, Option.some.injEq] at h
      rw [← h]; simp [hookFails, acceptError, prepareForReraise, unwind, fresh]
    | none => simp only [run] at h; exact step_out_hasTask _ _ _ _ _ _ _ h
    | errFuture => simp only [run] at h; exact step_out_hasTask _ _ _ _ _ _ _ h
  | cons L' rest' => simp only [run] at h; exact step_out_hasTask _ _ _ _ _ _ _ h

end AsynqModel.Debug
