import AsynqModel.Proofs.P6TDfs
/-
  P6T (termination, property C03), part 5: the size of programs, and a supplement to `P6.genStep_desc`:
  a generator step that changes neither the body nor the open with-blocks of its task, leaves it running and
  uncompleted, is the START of the task (every other instruction consumes a node of the program).
-/
namespace AsynqModel.Core.P6T
open AsynqModel.Core AsynqModel.Core.P6

/-- size of a program; every node counts at least 1, a `spawn` node 2 -/
def bsize : Body → Nat
  | .ret _ => 1
  | .res _ => 1
  | .raise _ => 1
  | .reraise => 1
  | .endwith => 1
  | .spawn c _ k => 2 + bsize c + bsize k
  | .item _ _ _ k => 1 + bsize k
  | .const _ k => 1 + bsize k
  | .errfut _ k => 1 + bsize k
  | .lazy _ k => 1 + bsize k
  | .yld _ k h => 1 + bsize k + bsize h
  | .reyld k h => 1 + bsize k + bsize h
  | .sync c _ k h => 2 + bsize c + bsize k + bsize h
  | .syncfut _ k h => 1 + bsize k + bsize h
  | .syncret _ k h => 1 + bsize k + bsize h
  | .withCtx _ b k => 1 + bsize b + bsize k
  | .read _ k => 1 + bsize k
  | .active k => 1 + bsize k

theorem bsize_pos (b : Body) : 0 < bsize b := by
  cases b <;> simp [bsize] <;> omega

theorem ne_of_bsize_lt {a b : Body} (h : bsize a < bsize b) : a ≠ b := by
  intro e; rw [e] at h; exact Nat.lt_irrefl _ h

/-- the step keeps body and with-blocks, the task keeps running and is not completed -/
def SameRun (s r : State) (t : Nat) : Prop :=
  (view r t).body = (view s t).body ∧ (view r t).conts = (view s t).conts ∧ (view r t).pending = false ∧
    (view r t).out = none

theorem not_sameRun_of_body {s r : State} {t : Nat} {G : FV → FV} (hv : view r t = G (view s t))
    (hb : bsize (G (view s t)).body < bsize (view s t).body) : ¬ SameRun s r t := by
  intro h
  have := h.1
  rw [hv] at this
  exact ne_of_bsize_lt hb this

theorem genStep_sameRun (s : State) (t : Nat) (old : Option Nat) (hk : (view s t).kind = .task) (hok : okV (view s t))
    (hst : (s.genStep t old).stuck = none) (h : SameRun s (s.genStep t old) t) :
    (view s t).pending = true ∧ (view s t).started = false := by
  have ht : t < s.futs.length := lt_of_view_task s t hk
  have U0 : Upd1 s s t (view s t) := Upd1.of_eqv (Eqv.refl s) t
  revert hst h
  unfold State.genStep
  dsimp only
  split
  · rename_i hp
    have hp' : (view s t).pending = true := hp
    split
    · rename_i hs
      intro _ _
      exact ⟨hp', by show (s.task t).started = false; simpa using hs⟩
    · split
      · rename_i y k h v hb _
        intro _ hh
        have hb' : (view s t).body = .yld y k h := hb
        exact absurd hh (not_sameRun_of_body
          ((U0.updTask ht _ (resumeView s.cfg.keepDeps k) (fun _ => rfl)).emit _).viewT
          (by show bsize k < _; rw [hb']; simp [bsize]; omega))
      · rename_i y k h e hb _
        intro _ hh
        have hb' : (view s t).body = .yld y k h := hb
        exact absurd hh (not_sameRun_of_body
          ((U0.updTask ht _ (resumeView s.cfg.keepDeps h) (fun _ => rfl)).emit _).viewT
          (by show bsize h < _; rw [hb']; simp [bsize]; omega))
      · rename_i k h v hb _
        intro _ hh
        have hb' : (view s t).body = .reyld k h := hb
        exact absurd hh (not_sameRun_of_body
          ((U0.updTask ht _ (resumeView s.cfg.keepDeps k) (fun _ => rfl)).emit _).viewT
          (by show bsize k < _; rw [hb']; simp [bsize]; omega))
      · rename_i k h e hb _
        intro _ hh
        have hb' : (view s t).body = .reyld k h := hb
        exact absurd hh (not_sameRun_of_body
          ((U0.updTask ht _ (resumeView s.cfg.keepDeps h) (fun _ => rfl)).emit _).viewT
          (by show bsize h < _; rw [hb']; simp [bsize]; omega))
      · intro h; simp at h
  · rename_i hp
    have fin : ∀ o, (s.finishTask t old o).stuck = none → SameRun s (s.finishTask t old o) t →
        (view s t).pending = true ∧ (view s t).started = false := by
      intro o h1 h2
      have := h2.2.2.2
      rw [(finishTask_desc s t old o ht h1).1.viewT] at this
      simp [finishView] at this
    have own : ∀ (r : State) (k : Body) {nv : FV}, bsize k < bsize (view s t).body →
        Upd2 s r t (ownView (view s t) s.futs.length k) nv →
        SameRun s r t → (view s t).pending = true ∧ (view s t).started = false := by
      intro r k nv hb U hh
      exact absurd hh (not_sameRun_of_body (G := fun v => ownView v s.futs.length k) U.viewT hb)
    split
    · exact fin _
    · exact fin _
    · exact fin _
    · exact fin _
    · -- spawn
      rename_i child pass k hb
      intro _
      have hb' : (view s t).body = .spawn child pass k := hb
      apply own _ k (by rw [hb']; simp [bsize]; omega)
      unfold State.newTask
      exact (Upd2.alloc (EqvNB.refl s) t ht _ _).updTask ht _ (fun v => ownView v s.futs.length k) (fun _ => rfl)
    · -- item
      rename_i kind payload mode k hb
      have hb' : (view s t).body = .item kind payload mode k := hb
      split
      · intro h; simp at h
      · rename_i b hcur
        intro _
        have key : ∀ s1 : State, EqvNB s s1 → s1.futs.length = s.futs.length →
            SameRun s (((s1.alloc (itemFut s1.cfg kind b.seq payload mode)
                (.item kind b.seq b.items.length payload mode)).1.updBatch kind b.seq
                  (addItemB s1.futs.length)).updTask t (ownTs s1.futs.length k)) t →
            (view s t).pending = true ∧ (view s t).started = false := by
          intro s1 e hl
          apply own _ k (by rw [hb']; simp [bsize])
          have U := (Upd2.alloc e t ht (itemFut s1.cfg kind b.seq payload mode)
                (.item kind b.seq b.items.length payload mode)).eqvNB
              (r' := ((s1.alloc (itemFut s1.cfg kind b.seq payload mode)
                (.item kind b.seq b.items.length payload mode)).1.updBatch kind b.seq (addItemB s1.futs.length)))
              ⟨rfl, fun _ => rfl, rfl, rfl, id⟩
          have U' := U.updTask ht (ownTs s1.futs.length k) (fun v => ownView v s1.futs.length k) (fun _ => rfl)
          rw [← hl]
          exact U'
        cases hcb : s.curBatch? kind with
        | some b0 =>
          simp only [hcb] at hcur ⊢
          exact key s (EqvNB.refl s) rfl
        | none =>
          simp only [hcb] at hcur ⊢
          exact key _ ⟨rfl, fun _ => rfl, rfl, rfl, id⟩ rfl
    · -- const
      rename_i v k hb
      intro _
      have hb' : (view s t).body = .const v k := hb
      apply own _ k (by rw [hb']; simp [bsize])
      exact (Upd2.alloc (EqvNB.refl s) t ht _ _).updTask ht _ (fun v => ownView v s.futs.length k) (fun _ => rfl)
    · rename_i e k hb
      intro _
      have hb' : (view s t).body = .errfut e k := hb
      apply own _ k (by rw [hb']; simp [bsize])
      exact (Upd2.alloc (EqvNB.refl s) t ht _ _).updTask ht _ (fun v => ownView v s.futs.length k) (fun _ => rfl)
    · rename_i lo k hb
      intro _
      have hb' : (view s t).body = .lazy lo k := hb
      apply own _ k (by rw [hb']; simp [bsize])
      exact (Upd2.alloc (EqvNB.refl s) t ht _ _).updTask ht _ (fun v => ownView v s.futs.length k) (fun _ => rfl)
    · -- yld
      rename_i y k h hb
      generalize (if s.cfg.keepDeps = true then (s.task t).deps else []) ++
        extractFutures (YS.mapLeaves (s.task t).resolve y) = nd
      have U := (U0.emit (.yield t (s.task t).resumes (y.mapLeaves (s.task t).resolve))).updTask ht
        (fun ts => { ts with pending := true, lastY := y.mapLeaves (s.task t).resolve,
                             prevY := y.mapLeaves (s.task t).resolve, prevYRef := y, deps := nd })
        (yieldG nd (y.mapLeaves (s.task t).resolve)) (fun _ => rfl)
      split
      · intro _ hh
        have := hh.2.2.1
        rw [U.viewT] at this
        simp [yieldG] at this
      · intro _ hh
        have := hh.2.2.1
        rw [(U.leaveGen ht old).viewT] at this
        simp [yieldG] at this
    · -- reyld
      rename_i k h hb
      generalize (if s.cfg.keepDeps = true then (s.task t).deps else []) ++
        extractFutures (s.task t).prevY = nd
      have U := (U0.emit (.yield t (s.task t).resumes (s.task t).prevY)).updTask ht
        (fun ts => { ts with pending := true, lastY := (s.task t).prevY, deps := nd })
        (yieldG' nd) (fun _ => rfl)
      split
      · intro _ hh
        have := hh.2.2.1
        rw [U.viewT] at this
        simp [yieldG'] at this
      · intro _ hh
        have := hh.2.2.1
        rw [(U.leaveGen ht old).viewT] at this
        simp [yieldG'] at this
    · -- sync
      rename_i c p k h hb
      have hb' : (view s t).body = .sync c p k h := hb
      exact absurd (hb' ▸ hok.1) not_bodyOK_sync
    · rename_i rf k h hb
      have hb' : (view s t).body = .syncfut rf k h := hb
      exact absurd (hb' ▸ hok.1) not_bodyOK_syncfut
    · rename_i f k h hb
      have hb' : (view s t).body = .syncret f k h := hb
      exact absurd (hb' ▸ hok.1) not_bodyOK_syncret
    · -- withCtx
      rename_i c b k hb
      intro _ hh
      have hb' : (view s t).body = .withCtx c b k := hb
      have hsub := bodyOK_withCtx (hb' ▸ hok.1)
      have e := eqvK_withCtx s t c hsub.1
      exact absurd hh (not_sameRun_of_body
        ((Upd1.of_eqvK e t).updTask ht _ (pushView (s.ctxs.length, k) b) (fun _ => rfl)).viewT
        (by show bsize b < _; rw [hb']; simp [bsize]; omega))
    · -- endwith
      rename_i hbw
      have hbw' : (view s t).body = .endwith := hbw
      split
      · exact fin _
      · rename_i cid k rest hc
        intro _ hh
        have hc' : (view s t).conts = (cid, k) :: rest := hc
        have e := eqv_ctxExit s cid
        have hv := ((Upd1.of_eqv e t).updTask ht (fun ts => { ts with conts := rest, body := k }) (contView rest k)
          (fun _ => rfl)).viewT
        have := hh.2.1
        rw [hv] at this
        have h2 : rest = (cid, k) :: rest := by
          have h3 : (contView rest k (view s t)).conts = rest := rfl
          rw [h3, hc'] at this
          exact this
        have := congrArg List.length h2
        simp at this
    · -- read
      rename_i var k hb
      intro _ hh
      have hb' : (view s t).body = .read var k := hb
      have e := (eqv_svTouch s var).trans (eqv_emit _ (.read t var (.a ((s.svTouch var).svGet var))))
      exact absurd hh (not_sameRun_of_body ((Upd1.of_eqv e t).updTask ht _ (bodyView k) (fun _ => rfl)).viewT
        (by show bsize k < _; rw [hb']; simp [bsize]))
    · -- active
      rename_i k hb
      intro _ hh
      have hb' : (view s t).body = .active k := hb
      exact absurd hh (not_sameRun_of_body ((U0.emit (.active t s.active)).updTask ht _ (bodyView k) (fun _ => rfl)).viewT
        (by show bsize k < _; rw [hb']; simp [bsize]))

end AsynqModel.Core.P6T
