import AsynqModel.Proofs.P14Watch
import AsynqModel.Proofs.P2Basic
/-!
  P14, part 2: the simulation relation between the observer's state `wOf s.trace` and the machine state `s`,
  and its preservation by the primitive operations of the machine (`emit`, `updTask`, `complete`, `alloc`, the
  resume and the yield).

  `K b c s`:
  * `ok`  : the observer has accepted every event of the trace so far;
  * `ora` : every outcome the machine holds is in the observer's table (`Watch.outs`), with the same value
            (the table's newest entry for a future wins, and the machine writes an outcome only together with the
            event that announces it: `done` from `complete`, `new .. (const v)` / `new .. (errfut e)` from `alloc`);
  * `ly`  : for every started task that is suspended at a yield and not computed, the observer's `lastYield` holds
            exactly the resume counter and the structure the task yielded last (`_last_value`).
-/
namespace AsynqModel.Core.P14
open AsynqModel.Core AsynqModel.Core.Spec AsynqModel.Core.P2

structure K (b : Bool) (c : Ctx) (s : State) : Prop where
  ok : okTr b c s.trace
  ora : ∀ f o, s.out f = some o → (wOf s.trace).outs.lookup f = some o
  ly : ∀ t, (s.task t).pending = true → (s.task t).started = true → s.out t = none →
    (wOf s.trace).lastYield.lookup t = some ((s.task t).resumes, (s.task t).lastY)

variable {b : Bool} {c : Ctx}

theorem K_init (cfg : Cfg) (tops : List (Conv × Body)) (choices : List (Nat × Nat)) :
    K b c (initState cfg tops choices) := by
  refine ⟨trivial, fun f o h => ?_, fun t _ h _ => ?_⟩
  · simp [initState, State.out, State.fut] at h
  · simp [initState, State.task, State.fut] at h

/-- fields other than `futs` and `trace` do not matter -/
theorem K_of_eq {s s' : State} (hf : s'.futs = s.futs) (ht : s'.trace = s.trace) (h : K b c s) : K b c s' := by
  have e1 : ∀ f, s'.out f = s.out f := fun f => by simp [State.out, State.fut, hf]
  have e2 : ∀ f, s'.task f = s.task f := fun f => by simp [State.task, State.fut, hf]
  refine ⟨ht ▸ h.ok, fun f o ho => ?_, fun t h1 h2 h3 => ?_⟩
  · rw [ht]; exact h.ora f o (e1 f ▸ ho)
  · rw [ht, e2]; rw [e2] at h1 h2; rw [e1] at h3; exact h.ly t h1 h2 h3

theorem K_fail {s : State} (m : String) (h : K b c s) : K b c (s.fail m) := K_of_eq (s := s) rfl rfl h

/-- an event the observer does not look at -/
theorem K_emit {s : State} (e : Event) (he : plainEv e = true) (h : K b c s) : K b c (s.emit e) := by
  refine ⟨⟨h.ok, chkD_plain b c _ e he⟩, fun f o ho => ?_, fun t h1 h2 h3 => ?_⟩
  · rw [emit_trace, wOf_cons, plain_outs _ _ he]; exact h.ora f o ho
  · rw [emit_trace, wOf_cons, plain_lastYield _ _ he]; exact h.ly t h1 h2 h3

theorem task_updTask (s : State) (t f : Nat) (g : TaskSt → TaskSt) :
    (s.updTask t g).task f = if f = t ∧ t < s.futs.length then g (s.task t) else s.task f := by
  unfold State.task; rw [fut_updTask]; split <;> rfl

/-- a task update that keeps `pending`, `started`, `resumes`, `lastY` -/
theorem K_updTask {s : State} (t : Nat) (g : TaskSt → TaskSt)
    (h1 : ∀ ts, (g ts).pending = ts.pending) (h2 : ∀ ts, (g ts).started = ts.started)
    (h3 : ∀ ts, (g ts).resumes = ts.resumes) (h4 : ∀ ts, (g ts).lastY = ts.lastY) (h : K b c s) :
    K b c (s.updTask t g) := by
  refine ⟨h.ok, fun f o ho => ?_, fun u a1 a2 a3 => ?_⟩
  · rw [out_updTask] at ho; exact h.ora f o ho
  · rw [out_updTask] at a3
    rw [task_updTask] at a1 a2 ⊢
    by_cases hc : u = t ∧ t < s.futs.length
    · simp only [if_pos hc] at a1 a2 ⊢
      rw [h1] at a1; rw [h2] at a2; rw [h3, h4]
      rw [← hc.1]; rw [← hc.1] at a1 a2
      exact h.ly u a1 a2 a3
    · simp only [if_neg hc] at a1 a2 ⊢; exact h.ly u a1 a2 a3

/-- a task update that clears `pending` -/
theorem K_updTask_np {s : State} (t : Nat) (g : TaskSt → TaskSt) (h1 : ∀ ts, (g ts).pending = false) (h : K b c s) :
    K b c (s.updTask t g) := by
  refine ⟨h.ok, fun f o ho => ?_, fun u a1 a2 a3 => ?_⟩
  · rw [out_updTask] at ho; exact h.ora f o ho
  · rw [out_updTask] at a3
    rw [task_updTask] at a1 a2 ⊢
    by_cases hc : u = t ∧ t < s.futs.length
    · simp only [if_pos hc] at a1; rw [h1] at a1; cases a1
    · simp only [if_neg hc] at a1 a2 ⊢; exact h.ly u a1 a2 a3

theorem task_complete_ne (s : State) (f g : Nat) (o : Outcome) (h : g ≠ f) : (s.complete f o).task g = s.task g := by
  unfold State.task; rw [fut_complete]; simp [h]

/-- `set_value` / `set_error`: the `done` event enters the observer's table -/
theorem K_complete {s : State} (f : Nat) (o : Outcome) (h : K b c s) : K b c (s.complete f o) := by
  refine ⟨⟨h.ok, chkD_done ..⟩, fun g o' ho => ?_, fun t a1 a2 a3 => ?_⟩
  · rw [complete_trace, wOf_cons, done_outs]
    rw [out_complete] at ho
    split at ho
    · next hc => injection ho with ho; subst ho; rw [hc.1]; simp
    · next hc =>
      by_cases hg : g = f
      · -- `f` beyond the heap: nothing is written, the state holds no outcome for it
        subst hg
        have : s.out g = none := by
          unfold State.out; rw [fut_default_of_le s g (by have := hc; omega)]
        rw [this] at ho; cases ho
      · have hb : (g == f) = false := by simp [hg]
        rw [List.lookup_cons, hb]; exact h.ora g o' ho
  · rw [complete_trace, wOf_cons, done_lastYield]
    rw [out_complete] at a3
    by_cases ht : t = f
    · subst ht
      split at a3
      · cases a3
      · next hc =>
        have hd : s.fut t = {} := fut_default_of_le s t (by have := hc; omega)
        have : (s.complete t o).fut t = {} := by rw [fut_complete, if_neg hc]; exact hd
        unfold State.task at a2; rw [this] at a2; cases a2
    · rw [if_neg (by intro hc; exact ht hc.1)] at a3
      rw [task_complete_ne _ _ _ _ ht] at a1 a2 ⊢
      rw [lookup_filter_ne _ _ _ ht]
      exact h.ly t a1 a2 a3

theorem out_alloc (s : State) (x : Fut) (nk : NewKind) (f : Nat) :
    (s.alloc x nk).1.out f = if f = s.futs.length then x.out else s.out f := by
  unfold State.out; rw [fut_alloc]; split <;> rfl

theorem task_alloc (s : State) (x : Fut) (nk : NewKind) (f : Nat) :
    (s.alloc x nk).1.task f = if f = s.futs.length then x.ts else s.task f := by
  unfold State.task; rw [fut_alloc]; split <;> rfl

/-- a new future: the `new` event announces the outcome it is created with, if any -/
theorem K_alloc {s : State} (x : Fut) (nk : NewKind) (hx : x.ts.started = false)
    (ho : ∀ o, x.out = some o → newOut nk = some o) (h : K b c s) : K b c (s.alloc x nk).1 := by
  refine ⟨⟨h.ok, chkD_new ..⟩, fun g o' hg => ?_, fun t a1 a2 a3 => ?_⟩
  · rw [alloc_trace, wOf_cons, new_outs]
    rw [out_alloc] at hg
    split at hg
    · next hc => rw [ho _ hg, hc]; simp
    · next hc =>
      have := h.ora g o' hg
      split
      · have hb : (g == s.futs.length) = false := by simp [hc]
        rw [List.lookup_cons, hb]; exact this
      · exact this
  · rw [alloc_trace, wOf_cons, new_lastYield]
    rw [out_alloc] at a3
    rw [task_alloc] at a1 a2 ⊢
    by_cases hc : t = s.futs.length
    · simp only [if_pos hc] at a2; rw [hx] at a2; cases a2
    · simp only [if_neg hc] at a1 a2 a3 ⊢; exact h.ly t a1 a2 a3

/-- a task is (re)entered: its `pending` flag is cleared, the observer forgets its last yield -/
theorem K_run {s : State} (t i : Nat) (dc : Bool) (r : Recv) (g : TaskSt → TaskSt) (h1 : ∀ ts, (g ts).pending = false)
    (hchk : chkD b c (wOf s.trace) (.run t i dc r) = none) (h : K b c s) :
    K b c ((s.updTask t g).emit (.run t i dc r)) := by
  refine ⟨⟨h.ok, hchk⟩, fun f o ho => ?_, fun u a1 a2 a3 => ?_⟩
  · rw [emit_trace, wOf_cons, run_outs]
    rw [emit_out, out_updTask] at ho; exact h.ora f o ho
  · rw [emit_trace, wOf_cons, run_lastYield]
    rw [emit_out, out_updTask] at a3
    rw [emit_task, task_updTask] at a1 a2 ⊢
    by_cases hc : u = t ∧ t < s.futs.length
    · simp only [if_pos hc] at a1; rw [h1] at a1; cases a1
    · simp only [if_neg hc] at a1 a2 ⊢
      by_cases hu : u = t
      · -- `t` beyond the heap: the default task is not started
        subst hu
        have hlt : ¬ u < s.futs.length := fun hl => hc ⟨rfl, hl⟩
        unfold State.task at a2
        rw [fut_default_of_le s u (by omega)] at a2; cases a2
      · rw [lookup_filter_ne _ _ _ hu]; exact h.ly u a1 a2 a3

/-- a task yields: the observer records the resume counter and the structure -/
theorem K_yield {s : State} (t : Nat) (ry : RY) (g : TaskSt → TaskSt) (h3 : ∀ ts, (g ts).resumes = ts.resumes)
    (h4 : ∀ ts, (g ts).lastY = ry) (h : K b c s) :
    K b c ((s.emit (.yield t (s.task t).resumes ry)).updTask t g) := by
  refine ⟨⟨h.ok, chkD_yield ..⟩, fun f o ho => ?_, fun u a1 a2 a3 => ?_⟩
  · rw [updTask_trace, emit_trace, wOf_cons, yield_outs]
    rw [out_updTask, emit_out] at ho; exact h.ora f o ho
  · rw [updTask_trace, emit_trace, wOf_cons, yield_lastYield]
    rw [out_updTask, emit_out] at a3
    have e1 : ((s.emit (.yield t (s.task t).resumes ry)).updTask t g).task u =
        if u = t ∧ t < s.futs.length then g (s.task t) else s.task u := task_updTask _ t u g
    rw [e1] at a1 a2 ⊢
    by_cases hc : u = t ∧ t < s.futs.length
    · rw [if_pos hc]
      rw [hc.1, lookup_insertKV_self, h3, h4]
    · rw [if_neg hc] at a1 a2 ⊢
      by_cases hu : u = t
      · subst hu
        have hlt : ¬ u < s.futs.length := fun hl => hc ⟨rfl, hl⟩
        unfold State.task at a2
        rw [fut_default_of_le s u (by omega)] at a2; cases a2
      · rw [lookup_insertKV_ne _ _ _ _ hu]; exact h.ly u a1 a2 a3

/-- what the observer needs to accept the resume of `t` with `unwrap` of its last yielded structure -/
theorem chk_run_ok {s : State} (t : Nat) (h : K b c s) (hp : (s.task t).pending = true) (hs : (s.task t).started = true)
    (ho : s.out t = none) (hl : ∀ f ∈ (s.task t).lastY.leaves, s.computed f = true) :
    chkD b c (wOf s.trace) (.run t ((s.task t).resumes + 1) ((s.task t).lastY.leaves.all s.computed)
      (.out (outcomeOfExcept (unwrap s.out (s.task t).lastY)))) = none := by
  rw [chkD_run]
  have hy := h.ly t hp hs ho
  have hall : (s.task t).lastY.leaves.all s.computed = true := List.all_eq_true.2 hl
  have hu : unwrap (wOf s.trace).out (s.task t).lastY = unwrap s.out (s.task t).lastY := by
    apply unwrap_congr
    intro r hr
    have := hl r hr
    unfold State.computed at this
    cases hor : s.out r with
    | none => rw [hor] at this; cases this
    | some o => exact h.ora r o hor
  simp only [checkDelivery, hy, hall, hu]
  simp

end AsynqModel.Core.P14
