import AsynqModel.Proofs.P4Self
/-! P4: allocating a future preserves the invariant on futures -/
namespace AsynqModel.Core.P4
open AsynqModel.Core

theorem fut_alloc_ne (s : State) (x : Fut) (nk : NewKind) (f : Nat) (h : f ≠ s.futs.length) :
    (s.alloc x nk).1.fut f = s.fut f := by rw [fut_alloc]; simp [h]

theorem fut_alloc_lt (s : State) (x : Fut) (nk : NewKind) (f : Nat) (h : f < s.futs.length) :
    (s.alloc x nk).1.fut f = s.fut f := fut_alloc_ne s x nk f (by omega)

theorem fut_alloc_self (s : State) (x : Fut) (nk : NewKind) : (s.alloc x nk).1.fut s.futs.length = x := by
  rw [fut_alloc]; simp

theorem dens_alloc (s : State) (x : Fut) (nk : NewKind) (l : List Nat) (h : ∀ i ∈ l, i < s.futs.length) :
    Inv.dens (s.alloc x nk).1 l = Inv.dens s l := by
  simp only [Inv.dens]
  exact List.map_congr_left fun i hi => by rw [fut_alloc_lt s x nk i (h i hi)]

theorem tden_congr_df (cfg : Cfg) (ts : TaskSt) (own inh : List Outcome) (df df' : Nat → Outcome)
    (h : ∀ g k b, ts.body = .syncret g k b → df g = df' g) : tden cfg ts own inh df = tden cfg ts own inh df' := by
  unfold tden
  split
  · rename_i g k b hb; rw [h g k b hb]
  · rfl

theorem FI.alloc {s : State} (h : FI s) (x : Fut) (nk : NewKind)
    (hagree : ∀ o, x.out = some o → o = x.den)
    (hden : x.kind = .task → x.out = none →
      tden s.cfg x.ts [] (Inv.dens s x.ts.inh) (fun f => (s.fut f).den) = x.den)
    (hown : x.ts.own = [])
    (hinh : ∀ i ∈ x.ts.inh, i < s.futs.length)
    (hsync : ∀ g k b, x.ts.body ≠ .syncret g k b)
    (hws : x.out = none → wsTask x.ts = true)
    (hprevRef : x.ts.prevYRef = .none) (hprevY : x.ts.prevY = .none)
    (hstarted : x.ts.started = false)
    (hitem : ∀ k q p m, x.kind = .item k q p m → x.den = itemOutcome s.cfg k p m)
    (hlazy : ∀ o, x.kind = .lazy o → x.den = lazyOutcome o) : FI (s.alloc x nk).1 := by
  have hself := fut_alloc_self s x nk
  have hne := fut_alloc_ne s x nk
  constructor
  · intro f o ho
    by_cases hf : f = s.futs.length
    · subst hf; rw [hself] at ho ⊢; exact hagree o ho
    · rw [hne f hf] at ho ⊢; exact h.agree f o ho
  · intro f hk ho
    rw [taskDen_eq]
    by_cases hf : f = s.futs.length
    · subst hf; rw [hself] at hk ho ⊢
      rw [hown, dens_alloc s x nk _ hinh]
      rw [← hden hk ho]
      simp only [Inv.dens, List.map_nil, cfg_alloc]
      exact tden_congr_df _ _ _ _ _ _ (fun g k b hb => absurd hb (hsync g k b))
    · rw [hne f hf] at hk ho ⊢
      rw [dens_alloc s x nk _ (h.ownLt f), dens_alloc s x nk _ (h.inhLt f), ← h.taskOK f hk ho, taskDen_eq, cfg_alloc]
      exact tden_congr_df _ _ _ _ _ _ (fun g k b hb => by rw [fut_alloc_lt s x nk g (h.syncLt f g k b ho hb)])
  · intro f i hi
    rw [futs_len_alloc]
    by_cases hf : f = s.futs.length
    · subst hf; rw [hself, hown] at hi; cases hi
    · rw [hne f hf] at hi; exact Nat.lt_succ_of_lt (h.ownLt f i hi)
  · intro f i hi
    rw [futs_len_alloc]
    by_cases hf : f = s.futs.length
    · subst hf; rw [hself] at hi; exact Nat.lt_succ_of_lt (hinh i hi)
    · rw [hne f hf] at hi; exact Nat.lt_succ_of_lt (h.inhLt f i hi)
  · intro f g k b ho hb
    rw [futs_len_alloc]
    by_cases hf : f = s.futs.length
    · subst hf; rw [hself] at hb; exact absurd hb (hsync g k b)
    · rw [hne f hf] at ho hb; exact Nat.lt_succ_of_lt (h.syncLt f g k b ho hb)
  · intro f ho
    by_cases hf : f = s.futs.length
    · subst hf; rw [hself] at ho ⊢; exact hws ho
    · rw [hne f hf] at ho ⊢; exact h.wsc f ho
  · intro f r hr
    by_cases hf : f = s.futs.length
    · subst hf; rw [hself, hprevRef] at hr; simp [YS.leaves] at hr
    · rw [hne f hf] at hr ⊢; exact h.prevScoped f r hr
  · intro f
    by_cases hf : f = s.futs.length
    · subst hf; rw [hself, hprevRef, hprevY]; rfl
    · rw [hne f hf]; exact h.prevEq f
  · intro f ho hp hs
    by_cases hf : f = s.futs.length
    · subst hf; rw [hself, hstarted] at hs; cases hs
    · rw [hne f hf] at ho hp hs ⊢; exact h.lastEq f ho hp hs
  · intro f y k b ho hp hs hb
    by_cases hf : f = s.futs.length
    · subst hf; rw [hself, hstarted] at hs; cases hs
    · rw [hne f hf] at ho hp hs hb ⊢; exact h.yldEq f y k b ho hp hs hb
  · intro f hp hs d hd
    by_cases hf : f = s.futs.length
    · subst hf; rw [hself, hstarted] at hs; cases hs
    · rw [hne f hf] at hp hs hd ⊢; exact h.depsOK f hp hs d hd
  · intro f k q p m hk
    by_cases hf : f = s.futs.length
    · subst hf; rw [hself] at hk ⊢; exact hitem k q p m hk
    · rw [hne f hf] at hk ⊢; exact h.itemDen f k q p m hk
  · intro f o hk
    by_cases hf : f = s.futs.length
    · subst hf; rw [hself] at hk ⊢; exact hlazy o hk
    · rw [hne f hf] at hk ⊢; exact h.lazyDen f o hk
  · intro b hb i hi
    obtain ⟨q, p, m, hq⟩ := h.batchItems b hb i hi
    have hlt : i < s.futs.length := lt_of_kind s i (by rw [hq]; nofun)
    exact ⟨q, p, m, by rw [fut_alloc_lt s x nk i hlt]; exact hq⟩

end AsynqModel.Core.P4
