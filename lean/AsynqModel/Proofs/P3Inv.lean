import AsynqModel.Proofs.P3Shape
/-
  P3 (property C08), part 5: the inductive invariant `Core` and its preservation by `step`.

  `Core s` (meant for states whose MAX_TASK_STACK_SIZE guard has never fired):
  * no exception is propagating out of a `wait_for` (`raising = none`: only the guard raises there),
  * `Inv.activeChain`: the active task is the innermost generator frame's task, each saved value is the next one,
  * `chain`: a strengthening of `Inv.frames` that is inductive: the bases of the nested `_execute` frames are ordered,
    the stack is at least as long as the innermost base, and below the outermost frame the stack is EMPTY.
-/
namespace AsynqModel.Core.P3
open AsynqModel.Core

/-- `chain bases n`: `n ≥ b₁ ≥ b₂ ≥ ... ≥ b_k = 0`-style nesting; with no base at all the stack is empty -/
def chain : List Nat → Nat → Bool
  | [], n => n == 0
  | b :: bs, n => decide (b ≤ n) && chain bs b

structure Core (s : State) : Prop where
  raising : s.raising = none
  active : Inv.activeChain s.active (Inv.gensOf s.ctl) = true
  frames : chain (Inv.waitBases s.ctl) s.stack.length = true

/-- what the events emitted by the step out of state `s` look like -/
def StepEv (s : State) : Event → Prop
  | .active t seen => seen = some t
  | .sched same n _ _ a => same = true ∧ n = 0 ∧ a = none
  | .new _ (.task c) =>
    match s.ctl with
    | [] => c = none
    | .gen t _ :: _ => c = some t
    | _ => False
  | _ => True

theorem StepEv.ofN {s : State} {e : Event} (h : N e) : StepEv s e := by
  cases e <;> simp (config := { failIfUnchanged := false }) [N, neutral, StepEv] at h ⊢
  case new f k => cases k <;> simp at h ⊢

/-! ### list facts -/

theorem activeChain_nil {a : Option Nat} : Inv.activeChain a [] = true ↔ a = none := by
  simp [Inv.activeChain]

theorem activeChain_cons {a : Option Nat} {t o rest} :
    Inv.activeChain a ((t, o) :: rest) = true ↔ a = some t ∧ Inv.activeChain o rest = true := by
  simp [Inv.activeChain]

theorem chain_nil {n : Nat} : chain [] n = true ↔ n = 0 := by simp [chain]
theorem chain_cons {b n : Nat} {bs} : chain (b :: bs) n = true ↔ b ≤ n ∧ chain bs b = true := by simp [chain]

theorem chain_sorted : ∀ (bs : List Nat) (n : Nat), chain bs n = true → Inv.sortedDesc bs = true
  | [], _, _ => rfl
  | [_], _, _ => rfl
  | a :: b :: rest, n, h => by
    have h1 := (chain_cons.1 h).2
    have h2 := chain_cons.1 h1
    simp [Inv.sortedDesc, h2.1, chain_sorted (b :: rest) a h1]

theorem Core.of_trans {P} {s r : State} {c a st} (hc : Core s) (h : Trans P s r c a st)
    (ha : Inv.activeChain a (Inv.gensOf c) = true) (hf : chain (Inv.waitBases c) st.length = true) : Core r :=
  ⟨h.raising hc.raising, by rw [h.active, h.ctl]; exact ha, by rw [h.ctl, h.stack]; exact hf⟩

/-! ### one step preserves `Core` -/

/-- inside the generator frame of `t` (the active task, by `Core`) the events are `StepEv` events -/
theorem genEv_stepEv {s : State} {t old rest} (hctl : s.ctl = .gen t old :: rest) (hc : Core s) :
    ∀ e, GenEv t s.active e → StepEv s e := by
  have ha : s.active = some t := (activeChain_cons.1 (by simpa [hctl] using hc.active)).1
  rintro e ((he | ⟨f, rfl⟩) | rfl)
  · exact StepEv.ofN he
  · simp [StepEv, hctl, ha]
  · simp [StepEv, ha]

theorem N.stepEv {s : State} (e : Event) (h : N e) : StepEv s e := StepEv.ofN h

/-- One step either fires the guard, or keeps `guardFired` and preserves `Core`, emitting only `StepEv` events. -/
theorem step_core (s : State) :
    ((∃ root base rest, s.ctl = .waitLoop root base :: rest) ∧ s.stack.length > s.cfg.maxStack ∧
      step s = guardReset s) ∨
    ((step s).guardFired = s.guardFired ∧ (Core s → Core (step s) ∧ Ext (StepEv s) s (step s))) := by
  cases step_shape s with
  | idle h => exact Or.inr ⟨h.guard, fun hc => ⟨hc.of_trans h hc.active hc.frames, h.trace.mono N.stepEv⟩⟩
  | finishTop hctl h hr =>
    refine Or.inr ⟨h.guard, fun hc => ⟨hc.of_trans h hc.active hc.frames, h.trace.mono ?_⟩⟩
    have ha : s.active = none := activeChain_nil.1 (by simpa [hctl] using hc.active)
    have hst : s.stack.length = 0 := chain_nil.1 (by simpa [hctl] using hc.frames)
    rintro e (he | ⟨nb, nl, rfl⟩)
    · exact StepEv.ofN he
    · simp [StepEv, ha, hst]
  | topStart f hctl h =>
    refine Or.inr ⟨h.guard, fun hc => ⟨hc.of_trans h ?_ ?_, h.trace.mono ?_⟩⟩
    · simpa [hctl] using hc.active
    · simpa [hctl] using hc.frames
    · have ha : s.active = none := activeChain_nil.1 (by simpa [hctl] using hc.active)
      rintro e (he | ⟨f, rfl⟩)
      · exact StepEv.ofN he
      · simp [StepEv, hctl, ha]
  | raiseEnter root rest hctl hr h => exact Or.inr ⟨h.guard, fun hc => by simp [hc.raising] at hr⟩
  | raiseLoop root base rest hctl hr h => exact Or.inr ⟨h.guard, fun hc => by simp [hc.raising] at hr⟩
  | popEnter root rest hctl hr h =>
    refine Or.inr ⟨h.guard, fun hc => ⟨hc.of_trans h ?_ ?_, h.trace.mono N.stepEv⟩⟩
    · simpa [hctl] using hc.active
    · simpa [hctl] using hc.frames
  | enterLoop root rest hctl hr h =>
    refine Or.inr ⟨h.guard, fun hc => ⟨hc.of_trans h ?_ ?_, h.trace.mono N.stepEv⟩⟩
    · simpa [hctl] using hc.active
    · have := hc.frames
      simp [hctl] at this
      simp [chain_cons, this]
  | guard root base rest hctl hr hlen hmax e => exact Or.inl ⟨⟨_, _, _, hctl⟩, hmax, e⟩
  | iter root base rest hctl hr hlen st hst h =>
    refine Or.inr ⟨h.guard, fun hc => ⟨hc.of_trans h hc.active ?_, h.trace.mono N.stepEv⟩⟩
    have := hc.frames
    simp [hctl, chain_cons] at this ⊢
    exact ⟨by omega, this.2⟩
  | enterGen root base rest hctl hr t h =>
    refine Or.inr ⟨h.guard, fun hc => ⟨hc.of_trans h ?_ ?_, h.trace.mono N.stepEv⟩⟩
    · simpa [activeChain_cons] using hc.active
    · simpa using hc.frames
  | popLoop root base rest hctl hr hlen h =>
    refine Or.inr ⟨h.guard, fun hc => ⟨hc.of_trans h ?_ ?_, h.trace.mono N.stepEv⟩⟩
    · simpa [hctl] using hc.active
    · have := hc.frames
      simp [hctl, chain_cons] at this
      have e : s.stack.length = base := by omega
      rw [e]; exact this.2
  | flush root base rest hctl hr hlen h =>
    refine Or.inr ⟨h.guard, fun hc => ⟨hc.of_trans h ?_ ?_, h.trace.mono N.stepEv⟩⟩
    · simpa [hctl] using hc.active
    · have := hc.frames
      simp [hctl, chain_cons] at this
      have e : s.stack.length = base := by omega
      simpa [e] using this.2
  | genStay t old rest hctl h =>
    refine Or.inr ⟨h.guard, fun hc => ⟨hc.of_trans h hc.active hc.frames, h.trace.mono (genEv_stepEv hctl hc)⟩⟩
  | genLeave t old rest hctl h =>
    refine Or.inr ⟨h.guard, fun hc => ⟨hc.of_trans h ?_ ?_, h.trace.mono (genEv_stepEv hctl hc)⟩⟩
    · exact (activeChain_cons.1 (by simpa [hctl] using hc.active)).2
    · simpa [hctl] using hc.frames
  | genCall t old rest hctl f h =>
    refine Or.inr ⟨h.guard, fun hc => ⟨hc.of_trans h ?_ ?_, h.trace.mono (genEv_stepEv hctl hc)⟩⟩
    · simpa using hc.active
    · simpa using hc.frames

end AsynqModel.Core.P3
