import AsynqModel.Core.Reach
namespace AsynqModel.Core.P4
open AsynqModel.Core

/-! Monotonicity of `step`: configuration fixed, contexts only appended (kinds never change), ghost flags
    never reset, futures never removed, the trace only grows. No hypotheses on the state. -/

def kinds (s : State) : List CtxKind := s.ctxs.map (·.kind)

structure Mono (s s' : State) : Prop where
  cfg : s'.cfg = s.cfg
  kinds : ∃ l, kinds s' = kinds s ++ l
  guard : s.guardFired = true → s'.guardFired = true
  stuck : s.stuck.isSome → s'.stuck.isSome
  len : s.futs.length ≤ s'.futs.length
  trace : ∃ evs, s'.trace = evs ++ s.trace

theorem Mono.refl (s : State) : Mono s s :=
  ⟨rfl, ⟨[], by simp⟩, id, id, Nat.le_refl _, ⟨[], rfl⟩⟩

theorem Mono.trans {a b c : State} (h1 : Mono a b) (h2 : Mono b c) : Mono a c := by
  obtain ⟨l1, hl1⟩ := h1.kinds
  obtain ⟨l2, hl2⟩ := h2.kinds
  obtain ⟨e1, he1⟩ := h1.trace
  obtain ⟨e2, he2⟩ := h2.trace
  exact ⟨h2.cfg.trans h1.cfg, ⟨l1 ++ l2, by rw [hl2, hl1, List.append_assoc]⟩,
    fun h => h2.guard (h1.guard h), fun h => h2.stuck (h1.stuck h), Nat.le_trans h1.len h2.len,
    ⟨e2 ++ e1, by rw [he2, he1, List.append_assoc]⟩⟩

/-- a step that leaves the six observed components alone -/
theorem Mono.of_eq {s s' : State} (h1 : s'.cfg = s.cfg) (h2 : s'.ctxs = s.ctxs)
    (h3 : s'.guardFired = s.guardFired) (h4 : s'.stuck = s.stuck) (h5 : s'.futs.length = s.futs.length)
    (h6 : s'.trace = s.trace) : Mono s s' :=
  ⟨h1, ⟨[], by unfold P4.kinds; rw [h2]; simp⟩, fun h => by rw [h3]; exact h, fun h => by rw [h4]; exact h,
    by rw [h5]; exact Nat.le_refl _, ⟨[], by simp [h6]⟩⟩

theorem Mono.of_eq' {s s' : State} (h : s' = s) : Mono s s' := by subst h; exact Mono.refl _

/-! ### small helpers -/

theorem mono_emit (s : State) (e : Event) : Mono s (s.emit e) :=
  ⟨rfl, ⟨[], by simp [kinds, State.emit]⟩, id, id, Nat.le_refl _, ⟨[e], rfl⟩⟩

theorem mono_fail (s : State) (m : String) : Mono s (s.fail m) :=
  ⟨rfl, ⟨[], by simp [kinds, State.fail]⟩, id, fun _ => rfl, Nat.le_refl _, ⟨[], rfl⟩⟩

theorem mono_setFut (s : State) (f : Nat) (x : Fut) : Mono s (s.setFut f x) :=
  Mono.of_eq rfl rfl rfl rfl (by simp [State.setFut]) rfl

theorem mono_updTask (s : State) (t : Nat) (g : TaskSt → TaskSt) : Mono s (s.updTask t g) :=
  mono_setFut _ _ _

theorem mono_complete (s : State) (f : Nat) (o : Outcome) : Mono s (s.complete f o) :=
  (mono_setFut _ _ _).trans (mono_emit _ _)

theorem mono_alloc (s : State) (x : Fut) (nk : NewKind) : Mono s (s.alloc x nk).1 :=
  ⟨rfl, ⟨[], by simp [kinds, State.alloc, State.emit]⟩, id, id, by simp [State.alloc, State.emit],
    ⟨[_], rfl⟩⟩

theorem mono_updBatch (s : State) (k q : Nat) (g : Batch → Batch) : Mono s (s.updBatch k q g) :=
  Mono.of_eq rfl rfl rfl rfl rfl rfl

theorem mono_svSet (s : State) (a b : Nat) : Mono s (s.svSet a b) := by
  unfold State.svSet; split <;> exact Mono.of_eq rfl rfl rfl rfl rfl rfl

theorem mono_svTouch (s : State) (a : Nat) : Mono s (s.svTouch a) := by
  unfold State.svTouch; split
  · exact Mono.refl _
  · exact Mono.of_eq rfl rfl rfl rfl rfl rfl

theorem svSet_ctxs (s : State) (a b : Nat) : (s.svSet a b).ctxs = s.ctxs := by
  unfold State.svSet; split <;> rfl

theorem mono_popStack (s : State) : Mono s s.popStack := Mono.of_eq rfl rfl rfl rfl rfl rfl
theorem mono_raiseOutOfWait (s : State) (e : Err) : Mono s (s.raiseOutOfWait e) :=
  Mono.of_eq rfl rfl rfl rfl rfl rfl
theorem mono_returnFromWait (s : State) : Mono s s.returnFromWait := Mono.of_eq rfl rfl rfl rfl rfl rfl

/-! ### contexts -/

theorem map_kind_set (l : List CtxSt) (c : Nat) (x y : CtxSt) (h : l[c]? = some x) (hk : y.kind = x.kind) :
    (l.set c y).map (·.kind) = l.map (·.kind) := by
  induction l generalizing c with
  | nil => rfl
  | cons a l ih =>
    cases c with
    | zero =>
      simp at h
      simp [h, hk]
    | succ c =>
      simp at h
      simp [ih c h]

/-- replacing one context by one of the same kind -/
theorem mono_setCtx (s : State) (c : Nat) (x y : CtxSt) (h : s.ctxs[c]? = some x) (hk : y.kind = x.kind) :
    Mono s { s with ctxs := s.ctxs.set c y } :=
  ⟨rfl, ⟨[], by simp [kinds, map_kind_set _ _ _ _ h hk]⟩, id, id, Nat.le_refl _, ⟨[], rfl⟩⟩

theorem mono_ctxSetResumed (s : State) (c : Nat) (r : Bool) : Mono s (s.ctxSetResumed c r) := by
  unfold State.ctxSetResumed
  split
  · next x h => exact mono_setCtx s c x _ h rfl
  · exact Mono.refl _

theorem mono_ctxResumeOne (s : State) (c : Nat) : Mono s (s.ctxResumeOne c) := by
  unfold State.ctxResumeOne
  have h0 : Mono s ((s.emit (.ctx true c)).ctxSetResumed c true) :=
    (mono_emit _ _).trans (mono_ctxSetResumed _ _ _)
  generalize (s.emit (.ctx true c)).ctxSetResumed c true = s1 at h0
  refine h0.trans ?_
  dsimp only
  split
  · next x h =>
    split
    · next var val hk =>
      refine (mono_svSet s1 var val).trans ?_
      have h' : (s1.svSet var val).ctxs[c]? = some x := by rw [svSet_ctxs]; exact h
      have := mono_setCtx (s1.svSet var val) c x { x with old := s1.svGet var } h' rfl
      rw [svSet_ctxs] at this
      exact this
    · exact Mono.refl _
  · exact Mono.refl _

theorem mono_ctxPauseOne (s : State) (c : Nat) : Mono s (s.ctxPauseOne c) := by
  unfold State.ctxPauseOne
  have h0 : Mono s ((s.emit (.ctx false c)).ctxSetResumed c false) :=
    (mono_emit _ _).trans (mono_ctxSetResumed _ _ _)
  generalize (s.emit (.ctx false c)).ctxSetResumed c false = s1 at h0
  refine h0.trans ?_
  dsimp only
  split
  · split
    · exact mono_svSet _ _ _
    · exact Mono.refl _
  · exact Mono.refl _

theorem mono_ctxExit (s : State) (c : Nat) : Mono s (s.ctxExit c) := by
  unfold State.ctxExit
  dsimp only
  refine Mono.trans ?_ (mono_emit _ _)
  have key : ∀ owner : Option Nat, Mono s (
      if ((match owner with
            | some o => s.updTask o fun ts => { ts with ctxs := ts.ctxs.erase c }
            | none => s).ctxIsNonAsync c || !(match owner with
            | some o => ((match owner with
                | some o => s.updTask o fun ts => { ts with ctxs := ts.ctxs.erase c }
                | none => s).task o).ctxActive
            | none => true)) = true then
        (match owner with
            | some o => s.updTask o fun ts => { ts with ctxs := ts.ctxs.erase c }
            | none => s)
      else (match owner with
            | some o => s.updTask o fun ts => { ts with ctxs := ts.ctxs.erase c }
            | none => s).ctxPauseOne c) := by
    intro owner
    cases owner with
    | none =>
      dsimp only
      split
      · exact Mono.refl _
      · exact mono_ctxPauseOne _ _
    | some o =>
      dsimp only
      split
      · exact mono_updTask _ _ _
      · exact (mono_updTask _ _ _).trans (mono_ctxPauseOne _ _)
  exact key _

theorem mono_foldl {α : Type} (f : State → α → State) (hf : ∀ s a, Mono s (f s a)) (l : List α) (s : State) :
    Mono s (l.foldl f s) := by
  induction l generalizing s with
  | nil => exact Mono.refl _
  | cons a l ih => exact (hf s a).trans (ih _)

theorem mono_exitAll (s : State) (t : Nat) : Mono s (s.exitAll t) := by
  unfold State.exitAll
  refine Mono.trans ?_ (mono_updTask _ _ _)
  exact mono_foldl (fun s (p : Nat × Body) => s.ctxExit p.1) (fun s p => mono_ctxExit s p.1) _ _

theorem mono_failSuspended (s : State) (t : Nat) (e : Err) : Mono s (s.failSuspended t e) := by
  unfold State.failSuspended
  split
  · exact Mono.refl _
  · exact ((mono_exitAll _ _).trans (mono_updTask _ _ _)).trans (mono_complete _ _ _)

theorem mono_resumeContexts (s : State) (t : Nat) : Mono s (s.resumeContexts t) := by
  unfold State.resumeContexts
  dsimp only
  split
  · exact Mono.refl _
  · have h1 : Mono s ((s.task t).ctxs.foldl (fun s c => if s.ctxIsNonAsync c then s else s.ctxResumeOne c)
        (s.updTask t fun ts => { ts with ctxActive := true })) :=
      (mono_updTask _ _ _).trans (mono_foldl _ (fun s c => by
        split
        · exact Mono.refl _
        · exact mono_ctxResumeOne _ _) _ _)
    split
    · exact h1.trans (mono_failSuspended _ _ _)
    · exact h1

theorem mono_pauseContexts (s : State) (t : Nat) : Mono s (s.pauseContexts t) := by
  unfold State.pauseContexts
  dsimp only
  split
  · exact Mono.refl _
  · have h1 : Mono s ((s.task t).ctxs.reverse.foldl (fun s c => if s.ctxIsNonAsync c then s else s.ctxPauseOne c)
        (s.updTask t fun ts => { ts with ctxActive := false })) :=
      (mono_updTask _ _ _).trans (mono_foldl _ (fun s c => by
        split
        · exact Mono.refl _
        · exact mono_ctxPauseOne _ _) _ _)
    split
    · exact h1.trans (mono_failSuspended _ _ _)
    · exact h1

/-! ### batches -/

theorem mono_switchActive (s : State) (k q : Nat) : Mono s (s.switchActive k q) := by
  unfold State.switchActive
  split
  · split
    · exact Mono.of_eq rfl rfl rfl rfl rfl rfl
    · exact Mono.refl _
  · exact Mono.refl _

theorem mono_flushItems (s : State) (k : Nat) (l : List Nat) : Mono s (s.flushItems k l) := by
  induction l generalizing s with
  | nil => exact Mono.refl _
  | cons i is ih =>
    unfold State.flushItems
    dsimp only
    refine Mono.trans ?_ (ih _)
    split
    · exact Mono.refl _
    · split
      · exact mono_complete _ _ _
      · exact mono_complete _ _ _
      · exact Mono.refl _

theorem mono_finishItems (s : State) (e : Err) (l : List Nat) : Mono s (s.finishItems e l) := by
  induction l generalizing s with
  | nil => exact Mono.refl _
  | cons i is ih =>
    unfold State.finishItems
    refine Mono.trans ?_ (ih _)
    split
    · exact Mono.refl _
    · exact mono_complete _ _ _

theorem mono_flushBatch (s : State) (k q : Nat) : Mono s (s.flushBatch k q) := by
  unfold State.flushBatch
  split
  · exact mono_fail _ _
  · dsimp only
    exact (((((mono_switchActive _ _ _).trans (mono_emit _ _)).trans (mono_flushItems _ _ _)).trans
      (mono_finishItems _ _ _)).trans (mono_emit _ _)).trans (mono_updBatch _ _ _ _)

/-! ### the scheduler -/

theorem mono_schedulerFlush (s : State) (root : Nat) : Mono s (s.schedulerFlush root) := by
  unfold State.schedulerFlush
  dsimp only
  have h0 : Mono s { s with sbatches := s.flushable, ctl := .waitEnter root :: s.ctl.tail } :=
    Mono.of_eq rfl rfl rfl rfl rfl rfl
  split
  · exact h0
  · refine h0.trans ?_
    split
    · exact mono_fail _ _
    · split
      · exact mono_fail _ _
      · split
        · exact mono_fail _ _
        · refine Mono.trans ?_ (mono_emit _ _)
          refine Mono.trans ?_ (mono_flushBatch _ _ _)
          refine Mono.trans ?_ (mono_emit _ _)
          exact Mono.of_eq rfl rfl rfl rfl rfl rfl

theorem mono_handleTask (s : State) (t : Nat) : Mono s (s.handleTask t) := by
  unfold State.handleTask
  dsimp only
  split
  · split
    · exact ((mono_updTask _ _ _).trans (mono_pauseContexts _ _)).trans (mono_popStack _)
    · refine Mono.trans ?_ (Mono.of_eq (s := (s.updTask t fun ts => { ts with depsSched := true }).resumeContexts t)
        rfl rfl rfl rfl rfl rfl)
      exact (mono_updTask _ _ _).trans (mono_resumeContexts _ _)
  · split
    · exact mono_fail _ _
    · exact (mono_resumeContexts s t).trans (Mono.of_eq rfl rfl rfl rfl rfl rfl)

theorem mono_executeIter (s : State) : Mono s s.executeIter := by
  unfold State.executeIter
  split
  · exact mono_fail _ _
  · split
    · exact ⟨rfl, ⟨[], by simp [kinds, State.raiseOutOfWait]⟩, fun _ => rfl, id, Nat.le_refl _, ⟨[], rfl⟩⟩
    · split
      · exact mono_popStack _
      · split
        · exact mono_handleTask _ _
        · refine Mono.trans ?_ (mono_popStack _)
          split
          · split
            · exact Mono.refl _
            · exact Mono.of_eq rfl rfl rfl rfl rfl rfl
          · exact Mono.refl _
        · exact (mono_complete _ _ _).trans (mono_popStack _)
        · exact mono_fail _ _

/-! ### running a task body -/

theorem mono_leaveGen (s : State) (t : Nat) (old : Option Nat) : Mono s (s.leaveGen t old) :=
  (mono_updTask s t fun ts => { ts with depsSched := false }).trans (Mono.of_eq rfl rfl rfl rfl rfl rfl)

theorem mono_finishTask (s : State) (t : Nat) (old : Option Nat) (o : Outcome) : Mono s (s.finishTask t old o) := by
  unfold State.finishTask
  split
  · exact mono_fail _ _
  · exact (((mono_exitAll _ _).trans (mono_updTask _ _ _)).trans (mono_complete _ _ _)).trans (mono_leaveGen _ _ _)

theorem mono_newTask (s : State) (child : Body) (inh : List Nat) : Mono s (s.newTask child inh).1 :=
  mono_alloc _ _ _

theorem mono_pushCtx (s : State) (x : CtxSt) : Mono s { s with ctxs := s.ctxs ++ [x] } :=
  ⟨rfl, ⟨[x.kind], by simp [kinds]⟩, id, id, Nat.le_refl _, ⟨[], rfl⟩⟩

theorem mono_withCtl (s : State) (c : List Ctl) : Mono s { s with ctl := c } := Mono.of_eq rfl rfl rfl rfl rfl rfl
theorem mono_withBatches (s : State) (c : List Batch) : Mono s { s with batches := c } :=
  Mono.of_eq rfl rfl rfl rfl rfl rfl
theorem mono_withRaising (s : State) (c : Option Err) : Mono s { s with raising := c } :=
  Mono.of_eq rfl rfl rfl rfl rfl rfl

section peel
variable {s s1 : State}
theorem Mono.updTask' {t g} (h : Mono s s1) : Mono s (s1.updTask t g) := h.trans (mono_updTask _ _ _)
theorem Mono.emit' {e} (h : Mono s s1) : Mono s (s1.emit e) := h.trans (mono_emit _ _)
theorem Mono.fail' {m} (h : Mono s s1) : Mono s (s1.fail m) := h.trans (mono_fail _ _)
theorem Mono.leaveGen' {t old} (h : Mono s s1) : Mono s (s1.leaveGen t old) := h.trans (mono_leaveGen _ _ _)
theorem Mono.finishTask' {t old o} (h : Mono s s1) : Mono s (s1.finishTask t old o) :=
  h.trans (mono_finishTask _ _ _ _)
theorem Mono.newTask' {c i} (h : Mono s s1) : Mono s (s1.newTask c i).1 := h.trans (mono_newTask _ _ _)
theorem Mono.alloc' {x nk} (h : Mono s s1) : Mono s (s1.alloc x nk).1 := h.trans (mono_alloc _ _ _)
theorem Mono.updBatch' {k q g} (h : Mono s s1) : Mono s (s1.updBatch k q g) := h.trans (mono_updBatch _ _ _ _)
theorem Mono.complete' {f o} (h : Mono s s1) : Mono s (s1.complete f o) := h.trans (mono_complete _ _ _)
theorem Mono.flushBatch' {k q} (h : Mono s s1) : Mono s (s1.flushBatch k q) := h.trans (mono_flushBatch _ _ _)
theorem Mono.ctxResumeOne' {c} (h : Mono s s1) : Mono s (s1.ctxResumeOne c) := h.trans (mono_ctxResumeOne _ _)
theorem Mono.ctxExit' {c} (h : Mono s s1) : Mono s (s1.ctxExit c) := h.trans (mono_ctxExit _ _)
theorem Mono.svTouch' {v} (h : Mono s s1) : Mono s (s1.svTouch v) := h.trans (mono_svTouch _ _)
theorem Mono.pushCtx' {x} (h : Mono s s1) : Mono s { s1 with ctxs := s1.ctxs ++ [x] } := h.trans (mono_pushCtx _ _)
theorem Mono.withCtl' {c} (h : Mono s s1) : Mono s { s1 with ctl := c } := h.trans (mono_withCtl _ _)
theorem Mono.withRaising' {c} (h : Mono s s1) : Mono s { s1 with raising := c } := h.trans (mono_withRaising _ _)
theorem Mono.withTop' {a c} (h : Mono s s1) : Mono s { s1 with curTop := a, ctl := c } :=
  h.trans (Mono.of_eq rfl rfl rfl rfl rfl rfl)
end peel

/-- peel the last operation off the target state (syntactically: reducible transparency) -/
macro "mono_peel" : tactic => `(tactic| with_reducible first
  | exact Mono.refl _
  | apply Mono.updTask'
  | apply Mono.emit'
  | apply Mono.fail'
  | apply Mono.leaveGen'
  | apply Mono.finishTask'
  | apply Mono.newTask'
  | apply Mono.alloc'
  | apply Mono.updBatch'
  | apply Mono.complete'
  | apply Mono.flushBatch'
  | apply Mono.ctxResumeOne'
  | apply Mono.ctxExit'
  | apply Mono.svTouch')

macro "mono_auto" : tactic => `(tactic| repeat (first | split | mono_peel))

theorem mono_genStep (s : State) (t : Nat) (old : Option Nat) : Mono s (s.genStep t old) := by
  unfold State.genStep
  dsimp only
  split
  · split
    · repeat mono_peel
    · split <;> repeat mono_peel
  · split
    · exact mono_finishTask _ _ _ _
    · exact mono_finishTask _ _ _ _
    · exact mono_finishTask _ _ _ _
    · exact mono_finishTask _ _ _ _
    · -- spawn
      repeat mono_peel
    · -- item
      next kind payload mode k hb =>
      cases hcb : s.curBatch? kind with
      | some b0 =>
        dsimp only
        split
        · exact mono_fail _ _
        · refine Mono.trans ?_ (mono_updTask _ _ _)
          refine Mono.trans ?_ (mono_updBatch _ _ _ _)
          exact mono_alloc _ _ _
      | none =>
        dsimp only
        generalize hs1 : ({ s with batches := s.batches ++ [({ kind := kind, seq := 0 } : Batch)] } : State) = s1
        have h1 : Mono s s1 := hs1 ▸ mono_withBatches _ _
        refine h1.trans ?_
        split
        · exact mono_fail _ _
        · refine Mono.trans ?_ (mono_updTask _ _ _)
          refine Mono.trans ?_ (mono_updBatch _ _ _ _)
          exact mono_alloc _ _ _
    · -- const
      repeat mono_peel
    · -- errfut
      repeat mono_peel
    · -- lazy
      repeat mono_peel
    · -- yld
      mono_auto
    · -- reyld
      mono_auto
    · -- sync
      apply Mono.withCtl'
      repeat mono_peel
    · -- syncfut
      split
      · mono_auto
      · split
        · apply Mono.withCtl'
          mono_auto
        · mono_auto
        · mono_auto
        · mono_auto
    · -- syncret
      split
      · mono_auto
      · mono_auto
        apply Mono.withRaising'; exact Mono.refl _
      · mono_auto
        apply Mono.withRaising'; exact Mono.refl _
    · -- withCtx
      mono_peel
      split
      all_goals try mono_peel
      all_goals split
      all_goals try mono_peel
      all_goals apply Mono.pushCtx'
      all_goals mono_auto
    · -- endwith
      mono_auto
    · -- read
      mono_auto
    · -- active
      mono_auto

/-! ### the transition function -/

theorem mono_finishTop (s : State) (f : Nat) : Mono s (s.finishTop f) := by
  unfold State.finishTop
  dsimp only
  refine Mono.trans ?_ (mono_emit _ _)
  refine Mono.trans ?_ (mono_emit _ _)
  refine Mono.trans ?_ (mono_emit _ _)
  exact Mono.of_eq rfl rfl rfl rfl rfl rfl

theorem mono_step (s : State) : Mono s (step s) := by
  unfold step
  split
  · exact Mono.refl _
  · split
    · split
      · exact mono_finishTop _ _
      · split
        · exact Mono.refl _
        · dsimp only
          apply Mono.withTop'
          apply Mono.newTask'
          apply Mono.emit'
          exact Mono.of_eq rfl rfl rfl rfl rfl rfl
    · split
      · exact mono_raiseOutOfWait _ _
      · split
        · exact mono_returnFromWait _
        · exact Mono.of_eq rfl rfl rfl rfl rfl rfl
    · split
      · exact mono_raiseOutOfWait _ _
      · split
        · exact mono_executeIter _
        · split
          · exact mono_returnFromWait _
          · exact mono_schedulerFlush _ _
    · have key : ∀ (b : Bool) (t : Nat) (old : Option Nat), Mono s (if (s.raising.isSome && !b) = true then
          s.fail "exception reached a generator that is not in a synchronous call" else s.genStep t old) := by
        intro b t old
        split
        · exact mono_fail _ _
        · exact mono_genStep _ _ _
      exact key _ _ _

/-! ### the stated facts -/

theorem step_cfg (s : State) : (step s).cfg = s.cfg := (mono_step s).cfg

theorem step_stuck (s : State) (h : (step s).stuck = none) : s.stuck = none := by
  cases hs : s.stuck with
  | none => rfl
  | some m =>
    have := (mono_step s).stuck (by simp [hs])
    simp [h] at this

theorem step_guard (s : State) (h : (step s).guardFired = false) : s.guardFired = false := by
  cases hs : s.guardFired with
  | false => rfl
  | true =>
    have := (mono_step s).guard hs
    simp [h] at this

theorem step_kinds (s : State) : ∃ l, kinds (step s) = kinds s ++ l := (mono_step s).kinds

theorem noNonAsync_eq (s : State) : Inv.noNonAsync s = (kinds s).all fun k => k != .nonasync := by
  simp [Inv.noNonAsync, kinds, List.all_map, Function.comp_def]

theorem step_noNonAsync (s : State) (h : Inv.noNonAsync (step s) = true) : Inv.noNonAsync s = true := by
  obtain ⟨l, hl⟩ := step_kinds s
  rw [noNonAsync_eq, hl, List.all_append, Bool.and_eq_true] at h
  rw [noNonAsync_eq]
  exact h.1

theorem step_futs_len (s : State) : s.futs.length ≤ (step s).futs.length := (mono_step s).len

theorem step_trace (s : State) : ∃ evs, (step s).trace = evs ++ s.trace := (mono_step s).trace

end AsynqModel.Core.P4
