import AsynqModel.Proofs.P22Lm
import AsynqModel.Proofs.P22SeqL
import AsynqModel.Proofs.P10Heap
/-!
# P22, part 5: the simulation invariant is preserved by the moves `Sm` (`sim_sm`) and by a move `Lm` of task `t`
# that satisfies the local obligations `Upd` (`sim_upd`)
-/
namespace AsynqModel.Core.P22
open AsynqModel.Core AsynqModel.Core.P22.SeqSV

/-- bounds: what tasks name exists -/
structure Bnd (s : State) : Prop where
  own : ∀ u f, f ∈ (s.task u).own → f < s.futs.length
  sync : ∀ u f k h, (s.task u).body = .syncret f k h → s.computed u = false → f < s.futs.length
  conts : ∀ u c, c ∈ cids (s.task u) → c < s.ctxs.length
  deps : ∀ u d, d ∈ (s.task u).deps → d < s.futs.length
  prevY : ∀ u d, d ∈ (s.task u).prevY.leaves → d < s.futs.length

theorem task_eq (s : State) (u : Nat) : s.task u = (s.fut u).ts := rfl

theorem computed_of_out {s r : State} {u : Nat} (h : (r.fut u).out = (s.fut u).out) : r.computed u = s.computed u := by
  simp [State.computed, State.out, h]

theorem kidOf_congr {s r : State} {g g' : Ghost} {f : Nat} (hg : g' f = g f)
    (hk : (r.fut f).kind = (s.fut f).kind)
    (hb : g f = none → (s.fut f).kind = .task →
      (r.task f).body = (s.task f).body ∧ Inv.dens r (r.task f).inh = Inv.dens s (s.task f).inh) :
    kidOf r g' f = kidOf s g f := by
  unfold kidOf
  rw [hg, hk]
  cases hgf : g f with
  | some _ => rfl
  | none =>
    simp only
    cases hkd : (s.fut f).kind <;> simp only []
    obtain ⟨h1, h2⟩ := hb hgf hkd
    rw [h1, h2]

theorem sim_sm {cfg : Cfg} {tops : List (Conv × Body)} {s r : State} {g : Ghost} (hS : Sim cfg tops s g)
    (hB : Bnd s) (h : Sm s r) : Sim cfg tops r g := by
  have hkind : ∀ u, (r.fut u).kind = (s.fut u).kind := fun u => (h.fut u).1
  have hden : ∀ u, (r.fut u).den = (s.fut u).den := fun u => (h.fut u).2
  have hdens : ∀ l, Inv.dens r l = Inv.dens s l := fun l => dens_congr (fun f _ => hden f)
  have hcore : ∀ u, (s.fut u).kind = .task → P4.coreA (r.task u) = P4.coreA (s.task u) := fun u hk => (h.task u hk).2
  have hcomp : ∀ u, (s.fut u).kind = .task → r.computed u = s.computed u := fun u hk => computed_of_out (h.task u hk).1
  have hov : ∀ u c, c ∈ cids (s.task u) → ovOf r c = ovOf s c :=
    fun u c hc => ovOf_of_kindOf (h.kinds c (hB.conts u c hc))
  obtain ⟨evs, htr, hq⟩ := h.trace
  have hmr : ∀ u, mreads u r.trace = mreads u s.trace := by
    intro u
    have hn : mreads u evs = [] := by
      apply mreads_nil_of
      intro e he
      have := hq e he
      cases e <;> simp_all [quietEv, rdEv]
    rw [htr, mreads_append, hn, List.append_nil]
  have hroots : roots r.trace = roots s.trace := by
    have hn : roots evs = [] := by
      apply roots_nil_of
      intro e he
      have := hq e he
      cases e <;> simp_all [quietEv, rootEv]
    rw [htr, roots_append, hn, List.append_nil]
  have hkid : ∀ f, kidOf r g f = kidOf s g f := by
    intro f
    refine kidOf_congr rfl (hkind f) ?_
    intro _ hk
    obtain ⟨h1, _, _, _, h5, _⟩ := P4.coreA_fields (hcore f hk)
    exact ⟨h1, by rw [h5, hdens]⟩
  have hrest : ∀ u E, (s.fut u).kind = .task → rest cfg r g u E = rest cfg s g u E := by
    intro u E hk
    exact rest_congr cfg E (hcomp u hk) (hcore u hk) (fun f _ => hden f) (fun f _ => hden f) (fun f _ _ _ => hden f)
      (fun f _ => hkid f) (hov u)
  -- fields of tasks
  have hfld : ∀ u, (s.fut u).kind = .task →
      (r.task u).body = (s.task u).body ∧ (r.task u).conts = (s.task u).conts ∧ (r.task u).env = (s.task u).env ∧
      (r.task u).own = (s.task u).own ∧ (r.task u).inh = (s.task u).inh ∧ (r.task u).caught = (s.task u).caught ∧
      (r.task u).pending = (s.task u).pending ∧ (r.task u).started = (s.task u).started ∧
      (r.task u).lastY = (s.task u).lastY ∧ (r.task u).prevYRef = (s.task u).prevYRef ∧
      (r.task u).deps = (s.task u).deps ∧ (r.task u).prevY = (s.task u).prevY := by
    intro u hk
    obtain ⟨h1, h2, h3, h4, h5, h6, h7, h8, h9, h10, h11, h12, _⟩ := P4.coreA_fields (hcore u hk)
    exact ⟨h1, h2, h3, h4, h5, h6, h7, h8, h9, h11, h12, h10⟩
  refine
    { dom := ?_, unst := ?_, fresh := ?_, called := ?_, split := ?_, path := ?_, env := ?_, waits := ?_, root := hS.root,
      rootTr := ?_, rootLen := ?_, cur := ?_, ownInj := ?_, inh := ?_, nsB := ?_, tops := ?_, sync := ?_, rdLt := ?_, depsCalled := ?_, prevCalled := ?_ }
  · intro u iu hg; rw [hkind]; exact hS.dom u iu hg
  · intro u hk hg
    rw [hkind] at hk
    rw [(hfld u hk).2.2.2.2.2.2.2.1]; exact hS.unst u hk hg
  · intro u hk hst
    rw [hkind] at hk
    obtain ⟨h1, h2, h3, h4, h5, h6, h7, h8, h9, h10, h11, h12⟩ := hfld u hk
    rw [h8] at hst
    obtain ⟨hf, hc, hm⟩ := hS.fresh u hk hst
    refine ⟨⟨by rw [h7]; exact hf.pending, by rw [h2]; exact hf.conts, by rw [h3]; exact hf.env, by rw [h4]; exact hf.own,
      by rw [h6]; exact hf.caught, by rw [h10]; exact hf.prev, by rw [h11]; exact hf.deps, by rw [h12]; exact hf.prevY, by rw [h1]; exact hf.nosync⟩, ?_, ?_⟩
    · rw [hcomp u hk]; exact hc
    · rw [hmr]; exact hm
  · intro u iu hg hst
    have hk := hS.dom u iu hg
    obtain ⟨h1, h2, h3, h4, h5, h6, h7, h8, h9, h10, h11, h12⟩ := hfld u hk
    rw [h8] at hst
    obtain ⟨ha, hb⟩ := hS.called u iu hg hst
    exact ⟨by rw [h1]; exact ha, by rw [h5, hdens]; exact hb⟩
  · intro u iu hg
    obtain ⟨pre, hp, hr, hcl⟩ := hS.split u iu hg
    refine ⟨pre, by rw [hrest u _ (hS.dom u iu hg)]; exact hp, by rw [hmr]; exact hr, ?_⟩
    rw [(hfld u (hS.dom u iu hg)).2.2.2.1]
    exact hcl
  · intro p i u iu hk ho hg
    rw [hkind] at hk
    rw [(hfld p hk).2.2.2.1] at ho
    exact hS.path p i u iu hk ho hg
  · intro p i u iu ip hk ho hg hgp hc
    rw [hkind] at hk
    rw [(hfld p hk).2.2.2.1] at ho
    rw [hcomp u (hS.dom u iu hg)] at hc
    have hcs : cids (r.task p) = cids (s.task p) := by unfold cids; rw [(hfld p hk).2.1]
    rw [hcs, envOf_congr ip.E (hov p)]
    exact hS.env p i u iu ip hk ho hg hgp hc
  · intro p i u hk ho hg hc
    rw [hkind] at hk
    obtain ⟨h1, h2, h3, h4, h5, h6, h7, h8, h9, h10, h11, h12⟩ := hfld p hk
    rw [h4] at ho
    have hku : (s.fut u).kind = .task := by
      cases hgu : g u with
      | none => exact absurd hgu hg
      | some iu => exact hS.dom u iu hgu
    rw [hcomp u hku] at hc
    rw [hcomp p hk, h7, h8, h9, h1]
    exact hS.waits p i u hk ho hg hc
  · intro k r' hr
    rw [hroots] at hr
    exact hS.rootTr k r' hr
  · rw [hroots, h.topIdx]; exact hS.rootLen
  · intro r' hr
    rcases h.curTop with e | e
    · rw [e] at hr; exact hS.cur r' hr
    · rw [e] at hr; cases hr
  · intro p q i j u hkp hkq hop hoq
    rw [hkind] at hkp hkq
    rw [(hfld p hkp).2.2.2.1] at hop
    rw [(hfld q hkq).2.2.2.1] at hoq
    exact hS.ownInj p q i j u hkp hkq hop hoq
  · intro u hk
    rw [hkind] at hk
    rw [(hfld u hk).2.2.2.2.1]; exact hS.inh u hk
  · intro u hk
    rw [hkind] at hk
    rw [(hfld u hk).1, (hfld u hk).2.1]; exact hS.nsB u hk
  · rw [h.tops, h.topIdx]; exact hS.tops
  · intro p f k hh hk hb hc
    rw [hkind] at hk
    rw [(hfld p hk).1] at hb
    rw [hcomp p hk] at hc
    rw [(hfld p hk).2.2.2.1, hkind]
    exact hS.sync p f k hh hk hb hc
  · intro u var v hm
    rw [htr] at hm
    rcases List.mem_append.1 hm with hm | hm
    · have := hq _ hm; simp [quietEv] at this
    · rw [h.len]; exact hS.rdLt u var v hm
  · intro p d hk hd hkd
    rw [hkind] at hk hkd
    rw [(hfld p hk).2.2.2.2.2.2.2.2.2.2.1] at hd
    exact hS.depsCalled p d hk hd hkd
  · intro p d hk hd hkd
    rw [hkind] at hk hkd
    rw [(hfld p hk).2.2.2.2.2.2.2.2.2.2.2] at hd
    exact hS.prevCalled p d hk hd hkd

/-! ### a move of task `t` -/

/-- the rest of a task that has not started is its whole body -/
theorem rest_fresh (cfg : Cfg) (r : State) (g : Ghost) (u : Nat) (E : SvEnv) (hf : Fresh (r.task u))
    (hst : (r.task u).started = false) (hc : r.computed u = false) :
    rest cfg r g u E = acts cfg (r.task u).body (Inv.dens r (r.task u).inh) E := by
  have hl : locOf r g (r.task u) = {} := by
    unfold locOf
    rw [hf.env, hf.own, hf.caught, hf.prev]
    rfl
  have hE : envOf r E (cids (r.task u)) = E := by
    unfold envOf cids ovs; rw [hf.conts]; rfl
  unfold rest
  rw [hc]
  simp only [Bool.false_eq_true, if_false]
  unfold headRun headD
  simp only [hst, Bool.and_false, Bool.false_eq_true, if_false, hl, hE]
  rw [hf.conts]
  have hrf : ∀ res, runFrames cfg r E (Inv.dens r (r.task u).inh) [] res = [] := by
    intro res; cases res <;> rfl
  split
  · next f k h hb => exact absurd hb (hf.nosync f k h)
  · rw [hrf, List.append_nil]; rfl

/-- the local obligations of a move of task `t` -/
structure Upd (cfg : Cfg) (s r : State) (g g' : Ghost) (t : Nat) (ip : Info) (mid : List Act) : Prop where
  lm : Lm s r t
  gt : g t = some ip
  kt : (s.fut t).kind = .task
  nct : s.computed t = false
  started' : (r.task t).started = true
  gmono : ∀ u iu, g u = some iu → g' u = some iu
  gnew : ∀ u iu, g u = none → g' u = some iu →
    ∃ i, (r.task t).own[i]? = some u ∧ (r.fut u).kind = .task ∧ (r.task u).started = false ∧
      iu.k = ip.k ∧ iu.ρ = ip.ρ ++ [i] ∧ iu.b = (r.task u).body ∧ iu.inh = Inv.dens r (r.task u).inh ∧
      iu.E = envOf r ip.E (cids (r.task t)) ∧ Act.call i iu.b iu.inh iu.E ∈ mid
  ownPre : (s.task t).own <+: (r.task t).own
  ownNew : ∀ (i u : Nat), (r.task t).own[i]? = some u → (s.task t).own.length ≤ i → s.futs.length ≤ u
  ownND : ∀ (i j u : Nat), (r.task t).own[i]? = some u → (r.task t).own[j]? = some u → i = j
  newF : ∀ f, s.futs.length ≤ f → (r.fut f).kind = .task →
    Fresh (r.task f) ∧ (r.task f).started = false ∧ r.computed f = false ∧ (r.task f).inh = [] ∧
      ns (r.task f).body = true
  split : rest cfg s g t ip.E = mid ++ rest cfg r g' t ip.E
  rd : mreads t r.trace = mreads t s.trace ++ (reads mid).map rdVal
  midCalls : ∀ i c ci E', Act.call i c ci E' ∈ mid →
    ∃ v iv, (r.task t).own[i]? = some v ∧ g' v = some iv ∧ iv.b = c ∧ iv.inh = ci ∧ iv.E = E'
  envOK : cids (r.task t) = cids (s.task t) ∨ ∀ u ∈ (s.task t).own, g u ≠ none → s.computed u = true
  waits : ∀ (i u : Nat), (r.task t).own[i]? = some u → g' u ≠ none → r.computed u = false →
    r.computed t = false ∧
    (((r.task t).pending = true ∧ (r.task t).started = true ∧ u ∈ (r.task t).lastY.leaves) ∨
     ((r.task t).pending = false ∧ ∃ k h, (r.task t).body = .syncret u k h))
  inh_t : (r.task t).inh = []
  ns_t : nsBC (r.task t).body (r.task t).conts
  sync_t : ∀ f k h, (r.task t).body = .syncret f k h → r.computed t = false →
    f ∈ (r.task t).own ∧ ((r.fut f).kind = .task → g' f ≠ none)
  deps_t : ∀ d, d ∈ (r.task t).deps → (r.fut d).kind = .task → g' d ≠ none
  prev_t : ∀ d, d ∈ (r.task t).prevY.leaves → (r.fut d).kind = .task → g' d ≠ none

theorem sim_upd {cfg : Cfg} {tops : List (Conv × Body)} {s r : State} {g g' : Ghost} {t : Nat} {ip : Info}
    {mid : List Act} (hS : Sim cfg tops s g) (hB : Bnd s) (U : Upd cfg s r g g' t ip mid) : Sim cfg tops r g' := by
  have L := U.lm
  have ht : t < s.futs.length := lt_of_task s t U.kt
  have hkind : ∀ u, u < s.futs.length → (r.fut u).kind = (s.fut u).kind := fun u hu => (L.fut u hu).1
  have hden : ∀ u, u < s.futs.length → (r.fut u).den = (s.fut u).den := fun u hu => (L.fut u hu).2
  have hkt' : (r.fut t).kind = .task := by rw [hkind t ht]; exact U.kt
  -- a task of `r` is a task of `s` or new
  have hold : ∀ u, (r.fut u).kind = .task → u < s.futs.length → (s.fut u).kind = .task := fun u hk hu => by
    rw [← hkind u hu]; exact hk
  have hcore : ∀ u, u ≠ t → (s.fut u).kind = .task → P4.coreA (r.task u) = P4.coreA (s.task u) :=
    fun u hne hk => (L.task u hne hk).2
  have hcomp : ∀ u, u ≠ t → (s.fut u).kind = .task → r.computed u = s.computed u :=
    fun u hne hk => computed_of_out (L.task u hne hk).1
  have hfld : ∀ u, u ≠ t → (s.fut u).kind = .task →
      (r.task u).body = (s.task u).body ∧ (r.task u).conts = (s.task u).conts ∧ (r.task u).env = (s.task u).env ∧
      (r.task u).own = (s.task u).own ∧ (r.task u).inh = (s.task u).inh ∧ (r.task u).caught = (s.task u).caught ∧
      (r.task u).pending = (s.task u).pending ∧ (r.task u).started = (s.task u).started ∧
      (r.task u).lastY = (s.task u).lastY ∧ (r.task u).prevYRef = (s.task u).prevYRef ∧
      (r.task u).deps = (s.task u).deps ∧ (r.task u).prevY = (s.task u).prevY := by
    intro u hne hk
    obtain ⟨h1, h2, h3, h4, h5, h6, h7, h8, h9, h10, h11, h12, _⟩ := P4.coreA_fields (hcore u hne hk)
    exact ⟨h1, h2, h3, h4, h5, h6, h7, h8, h9, h11, h12, h10⟩
  have hov : ∀ u c, c ∈ cids (s.task u) → ovOf r c = ovOf s c :=
    fun u c hc => ovOf_of_kindOf (L.kinds c (hB.conts u c hc))
  have hdens : ∀ l : List Nat, (∀ f ∈ l, f < s.futs.length) → Inv.dens r l = Inv.dens s l :=
    fun l hl => dens_congr (fun f hf => hden f (hl f hf))
  -- computed is monotone backwards on tasks other than `t`; `t` was not computed
  have hback : ∀ u, (s.fut u).kind = .task → r.computed u = false → s.computed u = false := by
    intro u hk hc
    by_cases hut : u = t
    · rw [hut]; exact U.nct
    · rw [← hcomp u hut hk]; exact hc
  -- old own entries of `t`
  have hownOld : ∀ (i u : Nat), (r.task t).own[i]? = some u → u < s.futs.length → (s.task t).own[i]? = some u := by
    intro i u ho hu
    rcases Nat.lt_or_ge i (s.task t).own.length with hi | hi
    · obtain ⟨l, hl⟩ := U.ownPre
      rw [← hl, List.getElem?_append_left hi] at ho
      exact ho
    · have := U.ownNew i u ho hi; omega
  have hownOld' : ∀ (i u : Nat), (s.task t).own[i]? = some u → (r.task t).own[i]? = some u :=
    fun i u ho => P10.prefix_getElem? U.ownPre ho
  -- a future called by this move is an own future of `t`, and not an own future of another old task
  have hnewcall : ∀ (p i u : Nat), p ≠ t → (s.fut p).kind = .task → (s.task p).own[i]? = some u → g u = none → g' u = none := by
    intro p i u hne hk ho hgu
    cases hg' : g' u with
    | none => rfl
    | some iu =>
      exfalso
      obtain ⟨i', ho', _⟩ := U.gnew u iu hgu hg'
      have hu : u < s.futs.length := hB.own p u (List.mem_of_getElem? ho)
      have := hS.ownInj p t i i' u hk U.kt ho (hownOld i' u ho' hu)
      exact hne this.1
  have hg'eq : ∀ (p i u : Nat), p ≠ t → (s.fut p).kind = .task → (s.task p).own[i]? = some u → g' u = g u := by
    intro p i u hne hk ho
    cases hgu : g u with
    | none => exact hnewcall p i u hne hk ho hgu
    | some iu => exact U.gmono u iu hgu
  have hmr : ∀ u, u ≠ t → mreads u r.trace = mreads u s.trace := fun u hne => L.mreads hne
  have hgne : ∀ u, g u ≠ none → g' u ≠ none := by
    intro u hu
    cases hgu : g u with
    | none => exact absurd hgu hu
    | some iu => rw [U.gmono u iu hgu]; intro h; cases h
  -- `rest` of the other called tasks
  have hrest : ∀ u E, u ≠ t → (s.fut u).kind = .task → rest cfg r g' u E = rest cfg s g u E := by
    intro u E hne hk
    cases hcu : s.computed u with
    | true =>
      have hcr : r.computed u = true := by rw [hcomp u hne hk]; exact hcu
      unfold rest; rw [hcu, hcr]; rfl
    | false =>
      refine rest_congr cfg E (hcomp u hne hk) (hcore u hne hk) (fun f hf => hden f (hB.own u f hf)) ?_ ?_ ?_ (hov u)
      · rw [hS.inh u hk]; intro f hf; cases hf
      · intro f k h hb; exact hden f (hB.sync u f k h hb hcu)
      · intro f hf
        obtain ⟨i, hi⟩ := P10.mem_getElem? hf
        have hfl := hB.own u f hf
        refine kidOf_congr (hg'eq u i f hne hk hi) (hkind f hfl) ?_
        intro hgf hkf
        have hft : f ≠ t := by intro e; rw [e, U.gt] at hgf; cases hgf
        obtain ⟨h1, _, _, _, h5, _⟩ := hfld f hft hkf
        refine ⟨h1, ?_⟩
        rw [h5, hS.inh f hkf]; rfl
  refine
    { dom := ?_, unst := ?_, fresh := ?_, called := ?_, split := ?_, path := ?_, env := ?_, waits := ?_, root := ?_,
      rootTr := ?_, rootLen := ?_, cur := ?_, ownInj := ?_, inh := ?_, nsB := ?_, tops := ?_, sync := ?_, rdLt := ?_, depsCalled := ?_, prevCalled := ?_ }
  · -- dom
    intro u iu hg
    cases hgu : g u with
    | some iu0 =>
      have hk := hS.dom u iu0 hgu
      rw [hkind u (lt_of_task s u hk)]; exact hk
    | none =>
      obtain ⟨_, _, hk, _⟩ := U.gnew u iu hgu hg
      exact hk
  · -- unst
    intro u hk hg
    rcases Nat.lt_or_ge u s.futs.length with hu | hu
    · have hks := hold u hk hu
      have hgu : g u = none := by
        cases hgu : g u with
        | none => rfl
        | some iu => rw [U.gmono u iu hgu] at hg; cases hg
      have hut : u ≠ t := by intro e; rw [e, U.gt] at hgu; cases hgu
      rw [(hfld u hut hks).2.2.2.2.2.2.2.1]
      exact hS.unst u hks hgu
    · exact (U.newF u hu hk).2.1
  · -- fresh
    intro u hk hst
    rcases Nat.lt_or_ge u s.futs.length with hu | hu
    · have hks := hold u hk hu
      have hut : u ≠ t := by intro e; rw [e, U.started'] at hst; cases hst
      obtain ⟨h1, h2, h3, h4, h5, h6, h7, h8, h9, h10, h11, h12⟩ := hfld u hut hks
      rw [h8] at hst
      obtain ⟨hf, hc, hm⟩ := hS.fresh u hks hst
      refine ⟨⟨by rw [h7]; exact hf.pending, by rw [h2]; exact hf.conts, by rw [h3]; exact hf.env,
        by rw [h4]; exact hf.own, by rw [h6]; exact hf.caught, by rw [h10]; exact hf.prev, by rw [h11]; exact hf.deps,
        by rw [h12]; exact hf.prevY, by rw [h1]; exact hf.nosync⟩, ?_, ?_⟩
      · rw [hcomp u hut hks]; exact hc
      · rw [hmr u hut]; exact hm
    · obtain ⟨hf, _, hc, _, _⟩ := U.newF u hu hk
      refine ⟨hf, hc, ?_⟩
      apply mreads_nil_of
      intro e he
      cases e with
      | read u' var v =>
        have := L.readLt ht hS.rdLt u' var v he
        simp only [rdEv]
        rw [if_neg]
        intro e'
        -- the reader exists in `s` or is `t`
        obtain ⟨evs, htr, hq⟩ := L.trace
        rw [htr] at he
        rcases List.mem_append.1 he with he | he
        · have := hq _ he
          simp only [lmEv, beq_iff_eq] at this
          omega
        · have := hS.rdLt u' var v he; omega
      | _ => rfl
  · -- called
    intro u iu hg hst
    cases hgu : g u with
    | some iu0 =>
      have hk := hS.dom u iu0 hgu
      have hut : u ≠ t := by intro e; rw [e, U.started'] at hst; cases hst
      obtain ⟨h1, h2, h3, h4, h5, h6, h7, h8, h9, h10, h11, h12⟩ := hfld u hut hk
      rw [h8] at hst
      have he : iu = iu0 := by rw [U.gmono u iu0 hgu] at hg; exact (Option.some.inj hg).symm
      subst he
      obtain ⟨ha, hb⟩ := hS.called u iu hgu hst
      refine ⟨by rw [h1]; exact ha, ?_⟩
      rw [h5, hb, hS.inh u hk]; rfl
    | none =>
      obtain ⟨_, _, _, _, _, _, hb, hi, _⟩ := U.gnew u iu hgu hg
      exact ⟨hb, hi⟩
  · -- split
    intro u iu hg
    by_cases hut : u = t
    · subst hut
      have he : iu = ip := by rw [U.gmono u ip U.gt] at hg; exact (Option.some.inj hg).symm
      subst he
      obtain ⟨pre, hp, hr, hcl⟩ := hS.split u iu U.gt
      refine ⟨pre ++ mid, ?_, ?_, ?_⟩
      · rw [hp, U.split, List.append_assoc]
      · rw [reads_append, List.map_append, hr, U.rd]
      · intro i c ci E' hm
        rcases List.mem_append.1 hm with hm | hm
        · obtain ⟨v, iv, h1, h2, h3⟩ := hcl i c ci E' hm
          exact ⟨v, iv, hownOld' i v h1, U.gmono v iv h2, h3⟩
        · exact U.midCalls i c ci E' hm
    · cases hgu : g u with
      | some iu0 =>
        have he : iu = iu0 := by rw [U.gmono u iu0 hgu] at hg; exact (Option.some.inj hg).symm
        subst he
        obtain ⟨pre, hp, hr, hcl⟩ := hS.split u iu hgu
        refine ⟨pre, by rw [hrest u _ hut (hS.dom u iu hgu)]; exact hp, by rw [hmr u hut]; exact hr, ?_⟩
        intro i c ci E' hm
        obtain ⟨v, iv, h1, h2, h3⟩ := hcl i c ci E' hm
        refine ⟨v, iv, ?_, U.gmono v iv h2, h3⟩
        rw [(hfld u hut (hS.dom u iu hgu)).2.2.2.1]; exact h1
      | none =>
        obtain ⟨i, ho, hk, hst, _, _, hb, hi, _, _⟩ := U.gnew u iu hgu hg
        -- the task has not started: it is fresh, has read nothing, and its rest is its whole body
        have hfr : Fresh (r.task u) ∧ r.computed u = false ∧ mreads u r.trace = [] := by
          rcases Nat.lt_or_ge u s.futs.length with hu | hu
          · have hks := hold u hk hu
            obtain ⟨h1, h2, h3, h4, h5, h6, h7, h8, h9, h10, h11, h12⟩ := hfld u hut hks
            rw [h8] at hst
            obtain ⟨hf, hc, hm⟩ := hS.fresh u hks hst
            exact ⟨⟨by rw [h7]; exact hf.pending, by rw [h2]; exact hf.conts, by rw [h3]; exact hf.env,
              by rw [h4]; exact hf.own, by rw [h6]; exact hf.caught, by rw [h10]; exact hf.prev,
              by rw [h11]; exact hf.deps, by rw [h12]; exact hf.prevY, by rw [h1]; exact hf.nosync⟩, by rw [hcomp u hut hks]; exact hc,
              by rw [hmr u hut]; exact hm⟩
          · obtain ⟨hf, _, hc, _, _⟩ := U.newF u hu hk
            refine ⟨hf, hc, ?_⟩
            apply mreads_nil_of
            intro e he
            cases e with
            | read u' var v =>
              simp only [rdEv]
              rw [if_neg]
              intro e'
              obtain ⟨evs, htr, hq⟩ := L.trace
              rw [htr] at he
              rcases List.mem_append.1 he with he | he
              · have := hq _ he
                simp only [lmEv, beq_iff_eq] at this
                omega
              · have := hS.rdLt u' var v he; omega
            | _ => rfl
        refine ⟨[], ?_, ?_, fun _ _ _ _ h => by cases h⟩
        · rw [rest_fresh cfg r g' u iu.E hfr.1 hst hfr.2.1, hb, hi]; rfl
        · rw [hfr.2.2]; rfl
  · -- path
    intro p i u iu hk ho hg
    by_cases hpt : p = t
    · subst hpt
      cases hgu : g u with
      | some iu0 =>
        have he : iu = iu0 := by rw [U.gmono u iu0 hgu] at hg; exact (Option.some.inj hg).symm
        subst he
        have hu : u < s.futs.length := lt_of_task s u (hS.dom u iu hgu)
        obtain ⟨ip', hgp, h1, h2, h3⟩ := hS.path p i u iu U.kt (hownOld i u ho hu) hgu
        exact ⟨ip', U.gmono p ip' hgp, h1, h2, h3⟩
      | none =>
        obtain ⟨i', ho', _, _, hk', hρ, _, _, _, hcall⟩ := U.gnew u iu hgu hg
        have hii : i = i' := U.ownND i i' u ho ho'
        subst hii
        refine ⟨ip, U.gmono p ip U.gt, hk', hρ, ?_⟩
        obtain ⟨pre, hp, _, _⟩ := hS.split p ip U.gt
        rw [hp, U.split]
        exact List.mem_append_right _ (List.mem_append_left _ hcall)
    · rcases Nat.lt_or_ge p s.futs.length with hp | hp
      · have hks := hold p hk hp
        rw [(hfld p hpt hks).2.2.2.1] at ho
        have hgu : g u = some iu := by rw [← hg'eq p i u hpt hks ho]; exact hg
        obtain ⟨ip', hgp, h1, h2, h3⟩ := hS.path p i u iu hks ho hgu
        exact ⟨ip', U.gmono p ip' hgp, h1, h2, h3⟩
      · rw [(U.newF p hp hk).1.own] at ho; cases ho
  · -- env
    intro p i u iu ip' hk ho hg hgp hc
    by_cases hpt : p = t
    · subst hpt
      have he : ip' = ip := by rw [U.gmono p ip U.gt] at hgp; exact (Option.some.inj hgp).symm
      subst he
      cases hgu : g u with
      | some iu0 =>
        have he : iu = iu0 := by rw [U.gmono u iu0 hgu] at hg; exact (Option.some.inj hg).symm
        subst he
        have hku := hS.dom u iu hgu
        have hu : u < s.futs.length := lt_of_task s u hku
        have hcs := hback u hku hc
        have ho' := hownOld i u ho hu
        have := hS.env p i u iu ip' U.kt ho' hgu U.gt hcs
        rcases U.envOK with hcid | hall
        · rw [hcid, envOf_congr ip'.E (hov p)]; exact this
        · have := hall u (List.mem_of_getElem? ho') (by rw [hgu]; intro h; cases h)
          rw [this] at hcs; cases hcs
      | none =>
        obtain ⟨_, _, _, _, _, _, _, _, hE, _⟩ := U.gnew u iu hgu hg
        exact hE
    · rcases Nat.lt_or_ge p s.futs.length with hp | hp
      · have hks := hold p hk hp
        rw [(hfld p hpt hks).2.2.2.1] at ho
        have hgu : g u = some iu := by rw [← hg'eq p i u hpt hks ho]; exact hg
        have hgp' : g p = some ip' := by
          cases hgp0 : g p with
          | some x => rw [U.gmono p x hgp0] at hgp; rw [hgp]
          | none =>
            obtain ⟨ip0, hgp1, _⟩ := hS.path p i u iu hks ho hgu
            rw [hgp1] at hgp0; cases hgp0
        have hcs := hback u (hS.dom u iu hgu) hc
        have hcid : cids (r.task p) = cids (s.task p) := by unfold cids; rw [(hfld p hpt hks).2.1]
        rw [hcid, envOf_congr ip'.E (hov p)]
        exact hS.env p i u iu ip' hks ho hgu hgp' hcs
      · rw [(U.newF p hp hk).1.own] at ho; cases ho
  · -- waits
    intro p i u hk ho hg hc
    by_cases hpt : p = t
    · subst hpt; exact U.waits i u ho hg hc
    · rcases Nat.lt_or_ge p s.futs.length with hp | hp
      · have hks := hold p hk hp
        obtain ⟨h1, h2, h3, h4, h5, h6, h7, h8, h9, h10, h11, h12⟩ := hfld p hpt hks
        rw [h4] at ho
        have hgu : g u ≠ none := by rw [← hg'eq p i u hpt hks ho]; exact hg
        have hku : (s.fut u).kind = .task := by
          cases hgu' : g u with
          | none => exact absurd hgu' hgu
          | some iu => exact hS.dom u iu hgu'
        have := hS.waits p i u hks ho hgu (hback u hku hc)
        rw [hcomp p hpt hks, h7, h8, h9, h1]
        exact this
      · rw [(U.newF p hp hk).1.own] at ho; cases ho
  · -- root
    intro u iu hg hρ
    cases hgu : g u with
    | some iu0 =>
      have he : iu = iu0 := by rw [U.gmono u iu0 hgu] at hg; exact (Option.some.inj hg).symm
      subst he
      exact hS.root u iu hgu hρ
    | none =>
      obtain ⟨i, _, _, _, _, hρ', _⟩ := U.gnew u iu hgu hg
      rw [hρ'] at hρ
      simp at hρ
  · -- rootTr
    intro k r' hr
    rw [L.roots] at hr
    obtain ⟨iu, hg, h1, h2⟩ := hS.rootTr k r' hr
    exact ⟨iu, U.gmono r' iu hg, h1, h2⟩
  · rw [L.roots, L.topIdx]; exact hS.rootLen
  · intro r' hr
    rcases L.curTop with e | e
    · rw [e] at hr
      obtain ⟨iu, hg, h1⟩ := hS.cur r' hr
      exact ⟨iu, U.gmono r' iu hg, h1⟩
    · rw [e] at hr; cases hr
  · -- ownInj
    intro p q i j u hkp hkq hop hoq
    -- own lists of `r`: `t`'s grows, old tasks keep theirs, new tasks have none
    have key : ∀ (p i u : Nat), p ≠ t → (r.fut p).kind = .task → (r.task p).own[i]? = some u →
        (s.fut p).kind = .task ∧ (s.task p).own[i]? = some u := by
      intro p i u hpt hk ho
      rcases Nat.lt_or_ge p s.futs.length with hp | hp
      · have hks := hold p hk hp
        rw [(hfld p hpt hks).2.2.2.1] at ho
        exact ⟨hks, ho⟩
      · rw [(U.newF p hp hk).1.own] at ho; cases ho
    by_cases hpt : p = t
    · by_cases hqt : q = t
      · subst hpt; subst hqt
        exact ⟨rfl, U.ownND i j u hop hoq⟩
      · subst hpt
        obtain ⟨hkq', hoq'⟩ := key q j u hqt hkq hoq
        have hu := hB.own q u (List.mem_of_getElem? hoq')
        exact hS.ownInj p q i j u U.kt hkq' (hownOld i u hop hu) hoq'
    · obtain ⟨hkp', hop'⟩ := key p i u hpt hkp hop
      by_cases hqt : q = t
      · subst hqt
        have hu := hB.own p u (List.mem_of_getElem? hop')
        exact hS.ownInj p q i j u hkp' U.kt hop' (hownOld j u hoq hu)
      · obtain ⟨hkq', hoq'⟩ := key q j u hqt hkq hoq
        exact hS.ownInj p q i j u hkp' hkq' hop' hoq'
  · -- inh
    intro u hk
    by_cases hut : u = t
    · subst hut; exact U.inh_t
    · rcases Nat.lt_or_ge u s.futs.length with hu | hu
      · have hks := hold u hk hu
        rw [(hfld u hut hks).2.2.2.2.1]; exact hS.inh u hks
      · exact (U.newF u hu hk).2.2.2.1
  · -- nsB
    intro u hk
    by_cases hut : u = t
    · subst hut; exact U.ns_t
    · rcases Nat.lt_or_ge u s.futs.length with hu | hu
      · have hks := hold u hk hu
        rw [(hfld u hut hks).1, (hfld u hut hks).2.1]; exact hS.nsB u hks
      · obtain ⟨hf, _, _, _, hn⟩ := U.newF u hu hk
        refine nsBC_plain hn hf.nosync ?_
        rw [hf.conts]; intro c hc; cases hc
  · rw [L.tops, L.topIdx]; exact hS.tops
  · -- sync
    intro p f k hh hk hb hc
    by_cases hpt : p = t
    · subst hpt; exact U.sync_t f k hh hb hc
    · rcases Nat.lt_or_ge p s.futs.length with hp | hp
      · have hks := hold p hk hp
        rw [(hfld p hpt hks).1] at hb
        rw [hcomp p hpt hks] at hc
        rw [(hfld p hpt hks).2.2.2.1]
        obtain ⟨h1, h2⟩ := hS.sync p f k hh hks hb hc
        refine ⟨h1, fun hkf => ?_⟩
        have hfl := hB.own p f h1
        exact hgne f (h2 (hold f hkf hfl))
      · exact absurd hb ((U.newF p hp hk).1.nosync f k hh)
  · exact L.readLt ht hS.rdLt
  · -- depsCalled
    intro p d hk hd hkd
    by_cases hpt : p = t
    · subst hpt; exact U.deps_t d hd hkd
    · rcases Nat.lt_or_ge p s.futs.length with hp | hp
      · have hks := hold p hk hp
        rw [(hfld p hpt hks).2.2.2.2.2.2.2.2.2.2.1] at hd
        exact hgne d (hS.depsCalled p d hks hd (hold d hkd (hB.deps p d hd)))
      · rw [(U.newF p hp hk).1.deps] at hd; cases hd
  · -- prevCalled
    intro p d hk hd hkd
    by_cases hpt : p = t
    · subst hpt; exact U.prev_t d hd hkd
    · rcases Nat.lt_or_ge p s.futs.length with hp | hp
      · have hks := hold p hk hp
        rw [(hfld p hpt hks).2.2.2.2.2.2.2.2.2.2.2] at hd
        exact hgne d (hS.prevCalled p d hks hd (hold d hkd (hB.prevY p d hd)))
      · rw [(U.newF p hp hk).1.prevY] at hd; cases hd

end AsynqModel.Core.P22
