import AsynqModel.Proofs.P18Inv
import AsynqModel.Proofs.P2Helpers
/-!
  P18, part 3: the relation `G` is preserved by every helper of the machine and by `step` (the case analysis follows
  `Proofs/P14Step.lean`).

  The only side condition is about the one event the C04 observer checks: the `flushB` event of `schedulerFlush`
  must pass `checkC04NoRet` in the observer state of the state the flush starts from.
-/
namespace AsynqModel.Core.P18
open AsynqModel.Core AsynqModel.Core.Spec AsynqModel.Core.P2
open AsynqModel.Core.P13 (obs Acc)

variable {c : Ctx}

theorem KM_task (cr : Option Nat) : KM (.task cr) .task :=
  ⟨fun _ => ⟨cr, rfl⟩, fun _ _ _ _ h => (by cases h)⟩

theorem KM_item (k q idx p : Nat) (m : ItemMode) : KM (.item k q idx p m) (.item k q p m) :=
  ⟨fun h => (by cases h), fun _ _ _ _ h => (by cases h; exact ⟨idx, rfl⟩)⟩

theorem KM_other (nk : NewKind) (fk : FKind) (h1 : fk ≠ .task) (h2 : ∀ k q p m, fk ≠ .item k q p m) : KM nk fk :=
  ⟨fun h => absurd h h1, fun k q p m h => absurd h (h2 k q p m)⟩

/-! ### contexts -/

theorem G_svTouch {s : State} (var : Nat) (h : G c s) : G c (s.svTouch var) :=
  G_of_eq (sameC_svTouch s var).futs (sameC_svTouch s var).trace h

theorem G_ctxResumeOne {s : State} (cid : Nat) (h : G c s) : G c (s.ctxResumeOne cid) :=
  G_of_eq (sameC_ctxResumeOne s cid).futs (sameC_ctxResumeOne s cid).trace (G_emit _ rfl h)

theorem G_ctxPauseOne {s : State} (cid : Nat) (h : G c s) : G c (s.ctxPauseOne cid) :=
  G_of_eq (sameC_ctxPauseOne s cid).futs (sameC_ctxPauseOne s cid).trace (G_emit _ rfl h)

theorem G_ctxExit {s : State} (cid : Nat) (h : G c s) : G c (s.ctxExit cid) := by
  rcases ctxExit_cases s cid with e | ⟨o, e⟩
  · rw [e]
    exact G_emit _ rfl (G_ite h (G_ctxPauseOne _ h))
  · rw [e]
    have h1 : G c (s.updTask o fun ts => { ts with ctxs := ts.ctxs.erase cid }) :=
      G_updTask _ _ (fun _ => rfl) h
    exact G_emit _ rfl (G_ite h1 (G_ctxPauseOne _ h1))

theorem G_foldl {α : Type} (g : State → α → State) (hg : ∀ s a, G c s → G c (g s a)) (l : List α) {s : State}
    (h : G c s) : G c (l.foldl g s) := by
  induction l generalizing s with
  | nil => exact h
  | cons a l ih => exact ih (hg s a h)

theorem G_exitAll {s : State} (t : Nat) (h : G c s) : G c (s.exitAll t) := by
  unfold State.exitAll
  refine G_updTask _ _ (fun _ => rfl) ?_
  exact G_foldl (fun (s : State) (p : Nat × Body) => s.ctxExit p.1) (fun s p hs => G_ctxExit p.1 hs) _ h

theorem G_failSuspended {s : State} (t : Nat) (e : Err) (h : G c s) : G c (s.failSuspended t e) := by
  unfold State.failSuspended
  split
  · exact h
  · exact G_complete _ _ (G_updTask _ _ (fun _ => rfl) (G_exitAll t h))

theorem G_resumeContexts {s : State} (t : Nat) (h : G c s) : G c (s.resumeContexts t) := by
  unfold State.resumeContexts
  simp only []
  split
  · exact h
  · have h1 : G c ((s.task t).ctxs.foldl (fun s c => if s.ctxIsNonAsync c then s else s.ctxResumeOne c)
        (s.updTask t fun ts => { ts with ctxActive := true })) :=
      G_foldl _ (fun s a hs => G_ite hs (G_ctxResumeOne a hs)) _
        (G_updTask _ _ (fun _ => rfl) h)
    split
    · exact G_failSuspended _ _ h1
    · exact h1

theorem G_pauseContexts {s : State} (t : Nat) (h : G c s) : G c (s.pauseContexts t) := by
  unfold State.pauseContexts
  simp only []
  split
  · exact h
  · have h1 : G c ((s.task t).ctxs.reverse.foldl (fun s c => if s.ctxIsNonAsync c then s else s.ctxPauseOne c)
        (s.updTask t fun ts => { ts with ctxActive := false })) :=
      G_foldl _ (fun s a hs => G_ite hs (G_ctxPauseOne a hs)) _
        (G_updTask _ _ (fun _ => rfl) h)
    split
    · exact G_failSuspended _ _ h1
    · exact h1

/-! ### batches -/

theorem G_switchActive {s : State} (kind seq : Nat) (h : G c s) : G c (s.switchActive kind seq) := by
  unfold State.switchActive
  split
  · split
    · exact G_of_eq (s := s) rfl rfl h
    · exact h
  · exact h

theorem G_updBatch {s : State} (kind seq : Nat) (g : Batch → Batch) (h : G c s) : G c (s.updBatch kind seq g) :=
  G_of_eq (s := s) rfl rfl h

theorem G_flushItems (kind : Nat) (l : List Nat) {s : State} (h : G c s) : G c (s.flushItems kind l) := by
  induction l generalizing s with
  | nil => exact h
  | cons i l ih =>
    unfold State.flushItems
    simp only []
    apply ih
    split
    · exact h
    · split
      · exact G_complete _ _ h
      · exact G_complete _ _ h
      · exact h

theorem G_finishItems (e : Err) (l : List Nat) {s : State} (h : G c s) : G c (s.finishItems e l) := by
  induction l generalizing s with
  | nil => exact h
  | cons i l ih =>
    unfold State.finishItems
    apply ih
    split
    · exact h
    · exact G_complete _ _ h

theorem G_flushBatch {s : State} (kind seq : Nat) (h : G c s) : G c (s.flushBatch kind seq) := by
  unfold State.flushBatch
  split
  · exact G_fail _ h
  · simp only []
    refine G_updBatch _ _ _ ?_
    refine G_emit _ rfl ?_
    refine G_finishItems _ _ ?_
    refine G_flushItems _ _ ?_
    refine G_emit _ rfl ?_
    exact G_switchActive _ _ h

theorem G_schedulerFlush {s : State} (root : Nat) (h : G c s)
    (hchk : ∀ k q its p pd, checkC04NoRet c (obs s.trace) (.flushB k q its p pd) = none) :
    G c (s.schedulerFlush root) := by
  unfold State.schedulerFlush
  simp only []
  have h0 : G c { s with sbatches := s.flushable, ctl := .waitEnter root :: s.ctl.tail } := G_of_eq (s := s) rfl rfl h
  split
  · exact h0
  · split
    · exact G_fail _ h0
    · split
      · exact G_fail _ h0
      · split
        · exact G_fail _ h0
        · refine G_emit _ rfl ?_
          refine G_flushBatch _ _ ?_
          refine G_flushB _ _ _ _ _ (hchk _ _ _ _ _) ?_
          exact G_of_eq (s := s) rfl rfl h

/-! ### the scheduler loop -/

theorem G_popStack {s : State} (h : G c s) : G c s.popStack := G_of_eq (s := s) rfl rfl h

theorem G_handleTask {s : State} (t : Nat) (h : G c s) : G c (s.handleTask t) := by
  unfold State.handleTask
  simp only []
  split
  · split
    · refine G_popStack ?_
      refine G_pauseContexts _ ?_
      exact G_updTask _ _ (fun _ => rfl) h
    · apply G_mk
      refine G_resumeContexts _ ?_
      exact G_updTask _ _ (fun _ => rfl) h
  · split
    · exact G_fail _ h
    · apply G_mk
      exact G_resumeContexts _ h

theorem G_executeIter {s : State} (h : G c s) : G c s.executeIter := by
  unfold State.executeIter
  split
  · exact G_fail _ h
  · split
    · exact G_of_eq (s := s) rfl rfl h
    · split
      · exact G_popStack h
      · split
        · exact G_handleTask _ h
        · refine G_popStack ?_
          split
          · split
            · exact h
            · exact G_of_eq (s := s) rfl rfl h
          · exact h
        · exact G_popStack (G_complete _ _ h)
        · exact G_fail _ h

/-! ### one instruction of a task body -/

theorem G_leaveGen {s : State} (t : Nat) (old : Option Nat) (h : G c s) : G c (s.leaveGen t old) := by
  unfold State.leaveGen
  apply G_mk
  exact G_updTask _ _ (fun _ => rfl) h

theorem G_finishTask {s : State} (t : Nat) (old : Option Nat) (o : Outcome) (h : G c s) :
    G c (s.finishTask t old o) := by
  unfold State.finishTask
  split
  · exact G_fail _ h
  · exact G_leaveGen _ _ (G_complete _ _ (G_updTask _ _ (fun _ => rfl) (G_exitAll t h)))

theorem G_newTask {s : State} (child : Body) (inh : List Nat) (h : G c s) : G c (s.newTask child inh).1 := by
  unfold State.newTask
  exact G_alloc _ _ rfl (KM_task _) h

theorem G_regCtx {s1 : State} (cid : Nat) (h : G c s1) :
    G c (match s1.active with
      | some a => s1.updTask a fun ts => { ts with ctxs := ts.ctxs ++ [cid] }
      | none => s1) := by
  split
  · exact G_updTask _ _ (fun _ => rfl) h
  · exact h

theorem G_svTouchMatch {s : State} (cx : CtxKind) (h : G c s) :
    G c (match cx with | .override var _ => s.svTouch var | _ => s) := by
  split
  · exact G_svTouch _ h
  · exact h

/-- `with c:` - the context object is created, registered with the active task and (unless it is a NonAsyncContext)
    resumed -/
theorem G_withCtxTail {s0 : State} (cid t : Nat) (cx : CtxKind) (h : G c s0) :
    G c (
      let s := s0.emit (.ctxN cid t cx)
      let s := { s with ctxs := s.ctxs ++ [({ kind := cx, owner := s.active } : CtxSt)] }
      let s := match s.active with
        | some a => s.updTask a fun ts => { ts with ctxs := ts.ctxs ++ [cid] }
        | none => s
      if cx == .nonasync then s else s.ctxResumeOne cid) := by
  have h1 : G c (s0.emit (.ctxN cid t cx)) := G_emit _ rfl h
  have h2 : G c { (s0.emit (.ctxN cid t cx)) with
      ctxs := (s0.emit (.ctxN cid t cx)).ctxs ++ [({ kind := cx, owner := (s0.emit (.ctxN cid t cx)).active } : CtxSt)] } :=
    G_of_eq (s := s0.emit (.ctxN cid t cx)) rfl rfl h1
  have h3 := G_regCtx cid h2
  exact G_ite h3 (G_ctxResumeOne _ h3)

theorem G_genStep {s : State} (t : Nat) (old : Option Nat) (h : G c s) : G c (s.genStep t old) := by
  unfold State.genStep
  simp only []
  split
  · rename_i hp
    split
    · exact G_run _ _ _ _ _ h
    · split
      · exact G_run _ _ _ _ _ h
      · exact G_run _ _ _ _ _ h
      · exact G_run _ _ _ _ _ h
      · exact G_run _ _ _ _ _ h
      · exact G_fail _ h
  · split
    · exact G_finishTask _ _ _ h
    · exact G_finishTask _ _ _ h
    · exact G_finishTask _ _ _ h
    · exact G_finishTask _ _ _ h
    · -- spawn
      exact G_updTask _ _ (fun _ => rfl) (G_newTask _ _ h)
    · -- item
      rename_i kind payload mode k heq
      have h0 : G c (match s.curBatch? kind with
          | some _ => s
          | none => { s with batches := s.batches ++ [({ kind := kind, seq := 0 } : Batch)] }) := by
        split
        · exact h
        · exact G_of_eq (s := s) rfl rfl h
      split
      · exact G_fail _ h0
      · refine G_updTask _ _ (fun _ => rfl) ?_
        refine G_updBatch _ _ _ ?_
        exact G_alloc _ _ rfl (KM_item _ _ _ _ _) h0
    · -- const
      refine G_updTask _ _ (fun _ => rfl) ?_
      exact G_alloc _ _ rfl (KM_other _ _ (by intro h; cases h) (by intro _ _ _ _ h; cases h)) h
    · -- errfut
      refine G_updTask _ _ (fun _ => rfl) ?_
      exact G_alloc _ _ rfl (KM_other _ _ (by intro h; cases h) (by intro _ _ _ _ h; cases h)) h
    · -- lazy
      refine G_updTask _ _ (fun _ => rfl) ?_
      exact G_alloc _ _ rfl (KM_other _ _ (by intro h; cases h) (by intro _ _ _ _ h; cases h)) h
    · -- yld
      refine G_ite ?_ (G_leaveGen _ _ ?_)
      · exact G_updTask _ _ (fun _ => rfl) (G_emit _ rfl h)
      · exact G_updTask _ _ (fun _ => rfl) (G_emit _ rfl h)
    · -- reyld
      refine G_ite ?_ (G_leaveGen _ _ ?_)
      · exact G_updTask _ _ (fun _ => rfl) (G_emit _ rfl h)
      · exact G_updTask _ _ (fun _ => rfl) (G_emit _ rfl h)
    · -- sync
      apply G_mk
      refine G_emit _ rfl ?_
      exact G_updTask _ _ (fun _ => rfl) (G_newTask _ _ h)
    · -- syncfut
      rename_i r k hh heq
      have h1 : G c ((s.updTask t fun ts => { ts with body := .syncret ((s.task t).resolve r) k hh }).emit
          (.syncE t ((s.task t).resolve r))) :=
        G_emit _ rfl (G_updTask _ _ (fun _ => rfl) h)
      split
      · exact h1
      · split
        · apply G_mk; exact h1
        · split
          · split
            · exact h1
            · exact G_flushBatch _ _ h1
          · exact h1
        · exact G_complete _ _ h1
        · exact h1
    · -- syncret
      split
      · exact G_fail _ h
      · refine G_emit _ rfl ?_
        refine G_updTask _ _ (fun _ => rfl) ?_
        exact G_of_eq (s := s) rfl rfl h
      · refine G_emit _ rfl ?_
        refine G_updTask _ _ (fun _ => rfl) ?_
        exact G_of_eq (s := s) rfl rfl h
    · -- withCtx
      rename_i cx bd k heq
      refine G_updTask _ _ (fun _ => rfl) ?_
      exact G_withCtxTail _ _ _ (G_svTouchMatch cx h)
    · -- endwith
      split
      · exact G_finishTask _ _ _ h
      · exact G_updTask _ _ (fun _ => rfl) (G_ctxExit _ h)
    · -- read
      refine G_updTask _ _ (fun _ => rfl) ?_
      exact G_emit _ rfl (G_svTouch _ h)
    · -- active
      exact G_updTask _ _ (fun _ => rfl) (G_emit _ rfl h)

/-! ### the transition function -/

theorem G_finishTop {s : State} (f : Nat) (h : G c s) : G c (s.finishTop f) := by
  unfold State.finishTop
  simp only []
  refine G_emit _ rfl ?_
  refine G_emit _ rfl ?_
  refine G_emit _ rfl ?_
  exact G_of_eq (s := s) rfl rfl h

theorem G_step {s : State} (h : G c s)
    (hfl : ∀ root base rest, s.stuck = none → s.ctl = .waitLoop root base :: rest → s.raising = none →
      s.stack.length ≤ base → s.computed root = false →
      ∀ k q its p pd, checkC04NoRet c (obs s.trace) (.flushB k q its p pd) = none) : G c (step s) := by
  unfold step
  split
  · exact h
  · rename_i hst
    split
    · rename_i hctl
      split
      · rename_i f hcur
        exact G_finishTop f h
      · split
        · exact h
        · simp only []
          apply G_mk
          refine G_newTask _ _ ?_
          refine G_emit _ rfl ?_
          exact G_of_eq (s := s) rfl rfl h
    · split
      · exact G_of_eq (s := s) rfl rfl h
      · split
        · exact G_of_eq (s := s) rfl rfl h
        · exact G_of_eq (s := s) rfl rfl h
    · rename_i root base rest hctl
      split
      · exact G_of_eq (s := s) rfl rfl h
      · rename_i hr
        split
        · exact G_executeIter h
        · rename_i hlen
          split
          · exact G_of_eq (s := s) rfl rfl h
          · rename_i hroot
            refine G_schedulerFlush _ h (hfl root base rest ?_ hctl ?_ (by omega) (by simpa using hroot))
            · cases hs : s.stuck with
              | none => rfl
              | some m => rw [hs] at hst; exact absurd rfl hst
            · cases hr' : s.raising with
              | none => rfl
              | some e => rw [hr'] at hr; exact absurd rfl hr
    · rename_i t old rest hctl
      exact G_ite (G_fail _ h) (G_genStep t old h)

end AsynqModel.Core.P18
