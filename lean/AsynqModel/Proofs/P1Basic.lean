import AsynqModel.Core.Reach
/-!
  Basic lemmas about the machine (group P1): projections of the small helpers, the frame relation `Quiet`
  ("emits only non-flush events, never changes a computed outcome, leaves the batch table alone") and its closure
  under every helper of `Machine.lean` that does not touch batches.
-/
namespace AsynqModel.Core.P1
open AsynqModel.Core

/-! ### classification of events -/

/-- not one of the three flush events -/
def NF : Event → Bool
  | .flushB .. => false
  | .flushE .. => false
  | .flushI .. => false
  | _ => true

/-- a scheduler-flush bracket event -/
def isBE : Event → Bool
  | .flushB .. => true
  | .flushE .. => true
  | _ => false

/-- the flush body of batch `(k, q)` -/
def isI (k q : Nat) : Event → Bool
  | .flushI k' q' _ => k' == k && q' == q
  | _ => false

/-- any flush body -/
def isAnyI : Event → Bool
  | .flushI .. => true
  | _ => false

def cntI (k q : Nat) (l : List Event) : Nat := (l.filter (isI k q)).length

theorem NF_isBE {e : Event} (h : NF e = true) : isBE e = false := by cases e <;> simp_all [NF, isBE]
theorem NF_isI {e : Event} (h : NF e = true) (k q : Nat) : isI k q e = false := by cases e <;> simp_all [NF, isI]
theorem NF_isAnyI {e : Event} (h : NF e = true) : isAnyI e = false := by cases e <;> simp_all [NF, isAnyI]

theorem cntI_append (k q : Nat) (l l' : List Event) : cntI k q (l ++ l') = cntI k q l + cntI k q l' := by
  simp [cntI]

theorem cntI_NF (k q : Nat) (l : List Event) (h : ∀ e ∈ l, NF e = true) : cntI k q l = 0 := by
  simp only [cntI, List.length_eq_zero_iff, List.filter_eq_nil_iff]
  intro e he
  simp [NF_isI (h e he)]

theorem filter_isAnyI_NF (l : List Event) (h : ∀ e ∈ l, NF e = true) : l.filter isAnyI = [] := by
  simp only [List.filter_eq_nil_iff]
  intro e he
  simp [NF_isAnyI (h e he)]

/-! ### futures: `setFut`, `updTask`, `emit`, `alloc`, `complete` -/

theorem fut_setFut (s : State) (f g : Nat) (x : Fut) :
    (s.setFut f x).fut g = if g = f ∧ f < s.futs.length then x else s.fut g := by
  simp only [State.setFut, State.fut, List.getD_eq_getElem?_getD, List.getElem?_set]
  by_cases h : f = g
  · subst h
    by_cases h2 : f < s.futs.length <;> simp [h2]
  · have : ¬ g = f := fun h' => h h'.symm
    simp [h, this]

@[simp] theorem len_setFut (s : State) (f : Nat) (x : Fut) : (s.setFut f x).futs.length = s.futs.length := by
  simp [State.setFut]

theorem fut_default (s : State) (f : Nat) (h : s.futs.length ≤ f) : s.fut f = {} := by
  simp [State.fut, List.getD_eq_getElem?_getD, List.getElem?_eq_none h]

theorem out_none_of_ge (s : State) (f : Nat) (h : s.futs.length ≤ f) : s.out f = none := by
  simp [State.out, fut_default s f h]

theorem lt_of_out (s : State) (f : Nat) (o : Outcome) (h : s.out f = some o) : f < s.futs.length := by
  by_cases h' : f < s.futs.length
  · exact h'
  · rw [out_none_of_ge s f (by omega)] at h
    cases h

theorem fut_updTask (s : State) (t g : Nat) (h : TaskSt → TaskSt) :
    (s.updTask t h).fut g =
      if g = t ∧ t < s.futs.length then { s.fut t with ts := h (s.fut t).ts } else s.fut g := by
  simp only [State.updTask, fut_setFut]

@[simp] theorem out_updTask (s : State) (t f : Nat) (h : TaskSt → TaskSt) : (s.updTask t h).out f = s.out f := by
  simp only [State.out, fut_updTask]
  split
  · next hc => rw [hc.1]
  · rfl

@[simp] theorem kind_updTask (s : State) (t f : Nat) (h : TaskSt → TaskSt) :
    ((s.updTask t h).fut f).kind = (s.fut f).kind := by
  simp only [fut_updTask]
  split
  · next hc => rw [hc.1]
  · rfl

@[simp] theorem computed_updTask (s : State) (t f : Nat) (h : TaskSt → TaskSt) :
    (s.updTask t h).computed f = s.computed f := by
  simp [State.computed]

@[simp] theorem len_updTask (s : State) (t : Nat) (h : TaskSt → TaskSt) :
    (s.updTask t h).futs.length = s.futs.length := by
  simp [State.updTask]

@[simp] theorem trace_updTask (s : State) (t : Nat) (h : TaskSt → TaskSt) : (s.updTask t h).trace = s.trace := rfl
@[simp] theorem batches_updTask (s : State) (t : Nat) (h : TaskSt → TaskSt) : (s.updTask t h).batches = s.batches := rfl
@[simp] theorem cfg_updTask (s : State) (t : Nat) (h : TaskSt → TaskSt) : (s.updTask t h).cfg = s.cfg := rfl
@[simp] theorem stuck_updTask (s : State) (t : Nat) (h : TaskSt → TaskSt) : (s.updTask t h).stuck = s.stuck := rfl
@[simp] theorem ctxs_updTask (s : State) (t : Nat) (h : TaskSt → TaskSt) : (s.updTask t h).ctxs = s.ctxs := rfl
@[simp] theorem sbatches_updTask (s : State) (t : Nat) (h : TaskSt → TaskSt) : (s.updTask t h).sbatches = s.sbatches := rfl

@[simp] theorem trace_emit (s : State) (e : Event) : (s.emit e).trace = e :: s.trace := rfl
@[simp] theorem futs_emit (s : State) (e : Event) : (s.emit e).futs = s.futs := rfl
@[simp] theorem fut_emit (s : State) (e : Event) (f : Nat) : (s.emit e).fut f = s.fut f := rfl
@[simp] theorem out_emit (s : State) (e : Event) (f : Nat) : (s.emit e).out f = s.out f := rfl
@[simp] theorem computed_emit (s : State) (e : Event) (f : Nat) : (s.emit e).computed f = s.computed f := rfl
@[simp] theorem batches_emit (s : State) (e : Event) : (s.emit e).batches = s.batches := rfl
@[simp] theorem cfg_emit (s : State) (e : Event) : (s.emit e).cfg = s.cfg := rfl
@[simp] theorem stuck_emit (s : State) (e : Event) : (s.emit e).stuck = s.stuck := rfl
@[simp] theorem ctxs_emit (s : State) (e : Event) : (s.emit e).ctxs = s.ctxs := rfl
@[simp] theorem sbatches_emit (s : State) (e : Event) : (s.emit e).sbatches = s.sbatches := rfl
@[simp] theorem batch?_emit (s : State) (e : Event) (k q : Nat) : (s.emit e).batch? k q = s.batch? k q := rfl

@[simp] theorem trace_fail (s : State) (m : String) : (s.fail m).trace = s.trace := rfl
@[simp] theorem futs_fail (s : State) (m : String) : (s.fail m).futs = s.futs := rfl
@[simp] theorem out_fail (s : State) (m : String) (f : Nat) : (s.fail m).out f = s.out f := rfl
@[simp] theorem batches_fail (s : State) (m : String) : (s.fail m).batches = s.batches := rfl
@[simp] theorem cfg_fail (s : State) (m : String) : (s.fail m).cfg = s.cfg := rfl
@[simp] theorem stuck_fail (s : State) (m : String) : (s.fail m).stuck = some m := rfl

/-- `complete` rewrites only the future it completes -/
theorem fut_complete_ne (s : State) (f g : Nat) (o : Outcome) (h : g ≠ f) : (s.complete f o).fut g = s.fut g := by
  simp only [State.complete, fut_emit, fut_setFut]
  simp [h]

theorem out_complete_self (s : State) (f : Nat) (o : Outcome) (h : f < s.futs.length) :
    (s.complete f o).out f = some o := by
  simp only [State.out, State.complete, fut_emit, fut_setFut]
  simp [h]

theorem out_complete_ne (s : State) (f g : Nat) (o : Outcome) (h : g ≠ f) : (s.complete f o).out g = s.out g := by
  simp only [State.out, fut_complete_ne s f g o h]

@[simp] theorem kind_complete (s : State) (f g : Nat) (o : Outcome) : ((s.complete f o).fut g).kind = (s.fut g).kind := by
  simp only [State.complete, fut_emit, fut_setFut]
  split
  · next hc => rw [hc.1]
  · rfl

@[simp] theorem len_complete (s : State) (f : Nat) (o : Outcome) : (s.complete f o).futs.length = s.futs.length := by
  simp [State.complete]

@[simp] theorem trace_complete (s : State) (f : Nat) (o : Outcome) : (s.complete f o).trace = .done f o :: s.trace := rfl
@[simp] theorem batches_complete (s : State) (f : Nat) (o : Outcome) : (s.complete f o).batches = s.batches := rfl
@[simp] theorem cfg_complete (s : State) (f : Nat) (o : Outcome) : (s.complete f o).cfg = s.cfg := rfl
@[simp] theorem stuck_complete (s : State) (f : Nat) (o : Outcome) : (s.complete f o).stuck = s.stuck := rfl
@[simp] theorem batch?_complete (s : State) (f : Nat) (o : Outcome) (k q : Nat) :
    (s.complete f o).batch? k q = s.batch? k q := rfl

/-- completing an uncomputed future never changes a computed one -/
theorem out_complete_stable (s : State) (f : Nat) (o : Outcome) (hc : s.computed f = false) (g : Nat) (o' : Outcome)
    (h : s.out g = some o') : (s.complete f o).out g = some o' := by
  by_cases hg : g = f
  · subst hg
    simp [State.computed, h] at hc
  · rw [out_complete_ne s f g o hg, h]

theorem fut_alloc_lt (s : State) (x : Fut) (nk : NewKind) (f : Nat) (h : f < s.futs.length) :
    (s.alloc x nk).1.fut f = s.fut f := by
  simp [State.alloc, State.fut, State.emit, List.getD_eq_getElem?_getD, List.getElem?_append_left h]

theorem out_alloc_stable (s : State) (x : Fut) (nk : NewKind) (f : Nat) (o : Outcome) (h : s.out f = some o) :
    (s.alloc x nk).1.out f = some o := by
  have hl := lt_of_out s f o h
  simp only [State.out, fut_alloc_lt s x nk f hl]
  exact h

@[simp] theorem len_alloc (s : State) (x : Fut) (nk : NewKind) : (s.alloc x nk).1.futs.length = s.futs.length + 1 := by
  simp [State.alloc, State.emit]

@[simp] theorem snd_alloc (s : State) (x : Fut) (nk : NewKind) : (s.alloc x nk).2 = s.futs.length := rfl
@[simp] theorem trace_alloc (s : State) (x : Fut) (nk : NewKind) :
    (s.alloc x nk).1.trace = .new s.futs.length nk :: s.trace := rfl
@[simp] theorem batches_alloc (s : State) (x : Fut) (nk : NewKind) : (s.alloc x nk).1.batches = s.batches := rfl
@[simp] theorem cfg_alloc (s : State) (x : Fut) (nk : NewKind) : (s.alloc x nk).1.cfg = s.cfg := rfl
@[simp] theorem stuck_alloc (s : State) (x : Fut) (nk : NewKind) : (s.alloc x nk).1.stuck = s.stuck := rfl

end AsynqModel.Core.P1
