import AsynqModel.Proofs.P4Flush
/-!
  P4: the two moves that are not completion moves: a running task updates its own task state (`FI.updSelf`),
  and a new future is allocated (`FI.alloc`).
-/
namespace AsynqModel.Core.P4
open AsynqModel.Core

theorem fut_updTask_ne (s : State) (t : Nat) (g : TaskSt → TaskSt) (f : Nat) (h : f ≠ t) :
    (s.updTask t g).fut f = s.fut f := by
  rw [fut_updTask]; simp [h]

theorem fut_updTask_self (s : State) (t : Nat) (g : TaskSt → TaskSt) (h : t < s.futs.length) :
    (s.updTask t g).fut t = { s.fut t with ts := g (s.fut t).ts } := by
  rw [fut_updTask]; simp [h]

theorem den_updTask (s : State) (t : Nat) (g : TaskSt → TaskSt) (f : Nat) :
    ((s.updTask t g).fut f).den = (s.fut f).den := by
  rw [fut_updTask]; split
  · rename_i h; rw [h.1]
  · rfl

theorem kind_updTask (s : State) (t : Nat) (g : TaskSt → TaskSt) (f : Nat) :
    ((s.updTask t g).fut f).kind = (s.fut f).kind := by
  rw [fut_updTask]; split
  · rename_i h; rw [h.1]
  · rfl

theorem out_updTask (s : State) (t : Nat) (g : TaskSt → TaskSt) (f : Nat) :
    ((s.updTask t g).fut f).out = (s.fut f).out := by
  rw [fut_updTask]; split
  · rename_i h; rw [h.1]
  · rfl

theorem dens_updTask (s : State) (t : Nat) (g : TaskSt → TaskSt) (l : List Nat) :
    Inv.dens (s.updTask t g) l = Inv.dens s l := by
  simp only [Inv.dens]
  exact List.map_congr_left fun i _ => den_updTask s t g i

theorem taskDen_upd_ne (s : State) (t : Nat) (g : TaskSt → TaskSt) (f : Nat) (h : f ≠ t) :
    Inv.taskDen (s.updTask t g) f = Inv.taskDen s f := by
  rw [taskDen_eq, taskDen_eq, fut_updTask_ne s t g f h, dens_updTask, dens_updTask]
  have : (fun f => ((s.updTask t g).fut f).den) = fun f => (s.fut f).den := by
    funext i; exact den_updTask s t g i
  rw [this]; rfl

theorem taskDen_upd_self (s : State) (t : Nat) (g : TaskSt → TaskSt) (h : t < s.futs.length) :
    Inv.taskDen (s.updTask t g) t =
      tden s.cfg (g (s.fut t).ts) (Inv.dens s (g (s.fut t).ts).own) (Inv.dens s (g (s.fut t).ts).inh)
        (fun f => (s.fut f).den) := by
  rw [taskDen_eq, fut_updTask_self s t g h, dens_updTask, dens_updTask]
  have : (fun f => ((s.updTask t g).fut f).den) = fun f => (s.fut f).den := by
    funext i; exact den_updTask s t g i
  rw [this]; rfl

/-- a task updates its own task state -/
theorem FI.updSelf {s : State} (h : FI s) (t : Nat) (g : TaskSt → TaskSt) (hlt : t < s.futs.length)
    (hown : ∀ i ∈ (g (s.fut t).ts).own, i < s.futs.length)
    (hinh : ∀ i ∈ (g (s.fut t).ts).inh, i < s.futs.length)
    (hsync : ∀ f k b, (s.fut t).out = none → (g (s.fut t).ts).body = .syncret f k b → f < s.futs.length)
    (hws : (s.fut t).out = none → wsTask (g (s.fut t).ts) = true)
    (hden : (s.fut t).kind = .task → (s.fut t).out = none →
      tden s.cfg (g (s.fut t).ts) (Inv.dens s (g (s.fut t).ts).own) (Inv.dens s (g (s.fut t).ts).inh)
        (fun f => (s.fut f).den) = (s.fut t).den)
    (hprevS : ∀ r ∈ (g (s.fut t).ts).prevYRef.leaves,
      refOK (g (s.fut t).ts).own.length (g (s.fut t).ts).inh.length r = true)
    (hprevEq : (g (s.fut t).ts).prevY = (g (s.fut t).ts).prevYRef.mapLeaves (g (s.fut t).ts).resolve)
    (hlast : (s.fut t).out = none → (g (s.fut t).ts).pending = true → (g (s.fut t).ts).started = true →
      (g (s.fut t).ts).lastY = (g (s.fut t).ts).prevY)
    (hyld : ∀ y k b, (s.fut t).out = none → (g (s.fut t).ts).pending = true → (g (s.fut t).ts).started = true →
      (g (s.fut t).ts).body = .yld y k b → (g (s.fut t).ts).prevYRef = y)
    (hdeps : (g (s.fut t).ts).pending = true → (g (s.fut t).ts).started = true →
      ∀ d ∈ (g (s.fut t).ts).lastY.leaves, d ∈ (g (s.fut t).ts).deps) :
    FI (s.updTask t g) := by
  have hself := fut_updTask_self s t g hlt
  constructor
  · intro f o ho; rw [den_updTask]; rw [out_updTask] at ho; exact h.agree f o ho
  · intro f hk ho
    rw [kind_updTask] at hk; rw [out_updTask] at ho; rw [den_updTask]
    by_cases hf : f = t
    · subst hf; rw [taskDen_upd_self s f g hlt]; exact hden hk ho
    · rw [taskDen_upd_ne s t g f hf]; exact h.taskOK f hk ho
  · intro f i hi
    rw [futs_len_updTask]
    by_cases hf : f = t
    · subst hf; rw [hself] at hi; exact hown i hi
    · rw [fut_updTask_ne s t g f hf] at hi; exact h.ownLt f i hi
  · intro f i hi
    rw [futs_len_updTask]
    by_cases hf : f = t
    · subst hf; rw [hself] at hi; exact hinh i hi
    · rw [fut_updTask_ne s t g f hf] at hi; exact h.inhLt f i hi
  · intro f g' k b ho hb
    rw [futs_len_updTask]
    rw [out_updTask] at ho
    by_cases hf : f = t
    · subst hf; rw [hself] at hb; exact hsync g' k b ho hb
    · rw [fut_updTask_ne s t g f hf] at hb; exact h.syncLt f g' k b ho hb
  · intro f ho
    rw [out_updTask] at ho
    by_cases hf : f = t
    · subst hf; rw [hself]; exact hws ho
    · rw [fut_updTask_ne s t g f hf]; exact h.wsc f ho
  · intro f r hr
    by_cases hf : f = t
    · subst hf; rw [hself] at hr ⊢; exact hprevS r hr
    · rw [fut_updTask_ne s t g f hf] at hr ⊢; exact h.prevScoped f r hr
  · intro f
    by_cases hf : f = t
    · subst hf; rw [hself]; exact hprevEq
    · rw [fut_updTask_ne s t g f hf]; exact h.prevEq f
  · intro f ho hp hs
    rw [out_updTask] at ho
    by_cases hf : f = t
    · subst hf; rw [hself] at hp hs ⊢; exact hlast ho hp hs
    · rw [fut_updTask_ne s t g f hf] at hp hs ⊢; exact h.lastEq f ho hp hs
  · intro f y k b ho hp hs hb
    rw [out_updTask] at ho
    by_cases hf : f = t
    · subst hf; rw [hself] at hp hs hb ⊢; exact hyld y k b ho hp hs hb
    · rw [fut_updTask_ne s t g f hf] at hp hs hb ⊢; exact h.yldEq f y k b ho hp hs hb
  · intro f hp hs d hd
    by_cases hf : f = t
    · subst hf; rw [hself] at hp hs hd ⊢; exact hdeps hp hs d hd
    · rw [fut_updTask_ne s t g f hf] at hp hs hd ⊢; exact h.depsOK f hp hs d hd
  · intro f k q p m hk
    rw [kind_updTask] at hk; rw [den_updTask]; exact h.itemDen f k q p m hk
  · intro f o hk
    rw [kind_updTask] at hk; rw [den_updTask]; exact h.lazyDen f o hk
  · intro b hb i hi
    obtain ⟨q, p, m, hq⟩ := h.batchItems b hb i hi
    exact ⟨q, p, m, by rw [kind_updTask]; exact hq⟩

/-! ### references in scope -/

theorem resolve_append (ts : TaskSt) (l : List Nat) (r : Ref) (h : refOK ts.own.length ts.inh.length r = true) :
    ({ ts with own := ts.own ++ l } : TaskSt).resolve r = ts.resolve r := by
  cases r with
  | own i =>
    simp only [refOK, decide_eq_true_eq] at h
    simp [TaskSt.resolve, List.getD_eq_getElem?_getD, List.getElem?_append_left h]
  | inh j => rfl

theorem refOK_mono {no no' ni : Nat} (h : no ≤ no') (r : Ref) (hr : refOK no ni r = true) : refOK no' ni r = true := by
  cases r <;> simp only [refOK, decide_eq_true_eq] at hr ⊢
  · omega
  · exact hr

/-- the denotation of an in-scope reference -/
theorem resolveO_dens (s : State) (ts : TaskSt) (r : Ref) (h : refOK ts.own.length ts.inh.length r = true) :
    resolveO (Inv.dens s ts.own) (Inv.dens s ts.inh) r = some (s.fut (ts.resolve r)).den := by
  cases r with
  | own i =>
    simp only [refOK, decide_eq_true_eq] at h
    simp [resolveO, Inv.dens, TaskSt.resolve, List.getD_eq_getElem?_getD, List.getElem?_eq_getElem h]
  | inh j =>
    simp only [refOK, decide_eq_true_eq] at h
    simp [resolveO, Inv.dens, TaskSt.resolve, List.getD_eq_getElem?_getD, List.getElem?_eq_getElem h]

theorem resolve_lt {s : State} (h : FI s) (t : Nat) (r : Ref)
    (hr : refOK (s.fut t).ts.own.length (s.fut t).ts.inh.length r = true) :
    (s.fut t).ts.resolve r < s.futs.length := by
  cases r with
  | own i =>
    simp only [refOK, decide_eq_true_eq] at hr
    apply h.ownLt t
    simp [TaskSt.resolve, List.getD_eq_getElem?_getD, List.getElem?_eq_getElem hr]
  | inh j =>
    simp only [refOK, decide_eq_true_eq] at hr
    apply h.inhLt t
    simp [TaskSt.resolve, List.getD_eq_getElem?_getD, List.getElem?_eq_getElem hr]

/-- what a child task is handed: the denotations of the passed references -/
theorem pass_dens (s : State) (ts : TaskSt) (pass : List Ref)
    (h : pass.all (refOK ts.own.length ts.inh.length) = true) :
    Inv.dens s (pass.map ts.resolve) =
      pass.map fun r => (resolveO (Inv.dens s ts.own) (Inv.dens s ts.inh) r).getD (.err .other) := by
  simp only [Inv.dens, List.map_map]
  apply List.map_congr_left
  intro r hr
  have := resolveO_dens s ts r (List.all_eq_true.1 h r hr)
  simp only [Inv.dens] at this
  simp [this]

end AsynqModel.Core.P4
