import AsynqModel.Proofs.P15Ret
import AsynqModel.Proofs.P4Mono
/-!
  P15, part 6: the invariant `Aw` is preserved by every step of a well-scoped, NonAsyncContext-free run in which the
  stack guard does not fire (case analysis over `P12.Sc`), and its consequence for the `.ret` clause.
-/
namespace AsynqModel.Core.P15
open AsynqModel.Core P2

theorem task_default' (s : State) (f : Nat) (h : s.futs.length ≤ f) : s.task f = {} := by
  unfold State.task; rw [fut_default_of_le s f h]

theorem tr_lt {s : State} (h : P10.WSReach s) {t : Nat} (htr : Tr s t) : t < s.futs.length := by
  rcases htr with h1 | h1 | h1
  · rcases Nat.lt_or_ge t s.futs.length with hl | hl
    · exact hl
    · rw [task_default' s t hl] at h1; cases h1
  · exact (P10.ws_winv h).dinv.stack t h1
  · exact P5.lt_of_kind_task s t ((pinv_reach h.reach).genKind t h1)

theorem tr_back {s : State} (h : Reach s) {t : Nat} (hs : t ∈ (step s).stack → t ∈ s.stack)
    (hg : t ∈ gens (step s).ctl → t ∈ gens s.ctl ∨ t ∈ s.stack) (htr : Tr (step s) t) : Tr s t := by
  rcases htr with h1 | h1 | h1
  · rcases started_back h h1 with h2 | ⟨old, rest, h2⟩
    · exact Or.inl h2
    · exact Or.inr (Or.inr (by rw [h2]; simp [gens]))
  · exact Or.inr (Or.inl (hs h1))
  · rcases hg h1 with h2 | h2
    · exact Or.inr (Or.inr h2)
    · exact Or.inr (Or.inl h2)

theorem computed_mono_false {X : Nat → Prop} {s r : State} (hp : P12.Hp X s r) {x : Nat} (h : r.computed x = false) :
    s.computed x = false := by
  cases hc : s.computed x with
  | false => rfl
  | true => rw [hp.comp x hc] at h; cases h

theorem aw_step {s : State} (h : P10.WSReach s) (hna : P7.NA s) (hg : (step s).guardFired = false) (aw : Aw s) :
    Aw (step s) := by
  by_cases hs : s.stuck = none
  case neg => rw [P3.step_of_stuck s hs]; exact aw
  have hg0 := P3.guard_mono s hg
  have hr := h.reach
  have pin := pinv_reach hr
  have lb := P12.lib_of_ws h hg0 hna
  have j := P12.J_reach h hg0 hna
  have sc := P12.step_sc s hna pin.items lb.raising
    (fun t old rest hc => P5.lt_of_kind_task s t (pin.genKind t (by rw [hc]; simp [gens])))
  intro t hk hc htr
  cases sc with
  | same hp c st =>
    have htr' : Tr s t := tr_back hr (by rw [st]; exact id) (by rw [c]; exact Or.inl) htr
    exact sup_transfer hp (ep_of_hpE hp) aw hk hc (tr_lt h htr') htr'
      (fun c0 hc0 ρ hw => Or.inl ⟨c0, by rw [c]; exact hc0, hw⟩)
  | top f hc0 hp c st =>
    have htr' : Tr s t := tr_back hr (by rw [st]; exact id) (by rw [c]; intro hx; simp [gens] at hx) htr
    exact sup_transfer hp (ep_of_hpE hp) aw hk hc (tr_lt h htr') htr'
      (fun c0 hc0' => by rw [hc0] at hc0'; cases hc0')
  | popEnter root rest hc0 hp c st =>
    have htr' : Tr s t := tr_back hr (by rw [st]; exact id) (by rw [c, hc0]; exact Or.inl) htr
    refine sup_transfer hp (ep_of_hpE hp) aw hk hc (tr_lt h htr') htr' ?_
    intro c0 hc0' ρ hw
    rw [hc0] at hc0'
    rcases List.mem_cons.1 hc0' with rfl | hm
    · right; rw [isWait_enter_eq hw]; exact popEnter_computed hs lb.raising hc0 c
    · left; exact ⟨c0, by rw [c]; exact hm, hw⟩
  | popLoop root base rest hc0 hlen hp c st =>
    have htr' : Tr s t := tr_back hr (by rw [st]; exact id) (by rw [c, hc0]; exact Or.inl) htr
    refine sup_transfer hp (ep_of_hpE hp) aw hk hc (tr_lt h htr') htr' ?_
    intro c0 hc0' ρ hw
    rw [hc0] at hc0'
    rcases List.mem_cons.1 hc0' with rfl | hm
    · right; rw [isWait_loop_eq hw]; exact popLoop_computed hs lb.raising hc0 hlen c
    · left; exact ⟨c0, by rw [c]; exact hm, hw⟩
  | enterLoop root rest hc0 hp c st =>
    have hctl : ∀ c0 ∈ s.ctl, ∀ ρ, P12.isWait c0 ρ →
        (∃ c' ∈ (step s).ctl, P12.isWait c' ρ) ∨ s.computed ρ = true := by
      intro c0 hc0' ρ hw
      rw [hc0] at hc0'
      left
      rcases List.mem_cons.1 hc0' with rfl | hm
      · exact ⟨.waitLoop root s.stack.length, by rw [c]; exact List.mem_cons_self,
          by rw [isWait_enter_eq hw]; exact P12.isWait_loop _ _⟩
      · exact ⟨c0, by rw [c]; exact List.mem_cons_of_mem _ hm, hw⟩
    by_cases ht : t = root
    · subst ht
      exact ⟨.waitLoop t s.stack.length, by rw [c]; exact List.mem_cons_self, t, P12.isWait_loop _ _, .refl⟩
    · have htr' : Tr s t := tr_back hr
        (by rw [st]; intro hx; rcases List.mem_cons.1 hx with hx | hx
            · exact absurd hx ht
            · exact hx)
        (by rw [c, hc0]; exact Or.inl) htr
      exact sup_transfer hp (ep_of_hpE hp) aw hk hc (tr_lt h htr') htr' hctl
  | flush root base rest hc0 hlen hp c st =>
    have htr' : Tr s t := tr_back hr (by rw [st]; exact id) (by rw [c, hc0]; exact Or.inl) htr
    refine sup_transfer hp (ep_of_hpE hp) aw hk hc (tr_lt h htr') htr' ?_
    intro c0 hc0' ρ hw
    rw [hc0] at hc0'
    left
    rcases List.mem_cons.1 hc0' with rfl | hm
    · exact ⟨.waitEnter root, by rw [c]; exact List.mem_cons_self,
        by rw [isWait_loop_eq hw]; exact P12.isWait_enter _⟩
    · exact ⟨c0, by rw [c]; exact List.mem_cons_of_mem _ hm, hw⟩
  | pop root base rest top stk hc0 hst hlen hno hp c st =>
    have htr' : Tr s t := tr_back hr (by rw [st, hst]; exact List.mem_cons_of_mem _) (by rw [c]; exact Or.inl) htr
    exact sup_transfer hp (ep_of_hpE hp) aw hk hc (tr_lt h htr') htr'
      (fun c0 hc0' ρ hw => Or.inl ⟨c0, by rw [c]; exact hc0', hw⟩)
  | suspend root base rest top stk hc0 hst hlen hk0 hp hact hpend c st =>
    have fl := futLe_of_wait hr (by intro t' old' rest' hh; rw [hc0] at hh; cases hh) top
    have ep : EP s (step s) := by
      refine ep_of_hp hp ?_
      intro u hu x hl hx
      have hu' : u = top := hu
      subst hu'
      have hps : (s.task u).pending = true := hl.2.2.1
      have hpr : ((step s).task u).pending = true := by rw [hpend]; exact hps
      have hcr : (step s).computed u = false := by
        cases hcc : (step s).computed u with
        | false => rfl
        | true =>
          have hos : (s.fut u).out = none := computed_false (by rw [hl.2.1]; simp)
          have hor : ((step s).fut u).out ≠ none := by
            intro hh
            have : (step s).computed u = false := by unfold State.computed State.out; rw [hh]; rfl
            rw [this] at hcc; cases hcc
          rcases fl.fin hos hor with h1 | h1
          · rw [← task_eq_ts, hpr] at h1; cases h1
          · exact absurd hk0 h1
      refine ⟨by rw [hp.kind u (P5.lt_of_kind_task s u hk0)]; exact hk0, hcr, hpr, ?_⟩
      rcases fl.ly with ⟨_, hd⟩ | ⟨_, _, h1⟩
      · rw [task_eq_ts, hd]; exact hl.2.2.2
      · rcases h1 with h1 | h1
        · rw [← task_eq_ts, hpr] at h1; cases h1
        · exact absurd hk0 h1
    have htr' : Tr s t := tr_back hr (by rw [st, hst]; exact List.mem_cons_of_mem _) (by rw [c]; exact Or.inl) htr
    exact sup_transfer hp ep aw hk hc (tr_lt h htr') htr'
      (fun c0 hc0' ρ hw => Or.inl ⟨c0, by rw [c]; exact hc0', hw⟩)
  | visit root base rest top stk hc0 hst hlen hk0 hnc ds hne hds hp hpend hdeps hcomp c st =>
    have hlt_top := P5.lt_of_kind_task s top hk0
    have hk_top_r : ((step s).fut top).kind = .task := by rw [hp.kind top hlt_top]; exact hk0
    have ep : EP s (step s) := by
      refine ep_of_hp hp ?_
      intro u hu x hl hx
      have hu' : u = top := hu
      subst hu'
      exact ⟨hk_top_r, hcomp, by rw [hpend]; exact hl.2.2.1, by rw [hdeps]; exact hl.2.2.2⟩
    have hctl : ∀ c0 ∈ s.ctl, ∀ ρ, P12.isWait c0 ρ →
        (∃ c' ∈ (step s).ctl, P12.isWait c' ρ) ∨ s.computed ρ = true :=
      fun c0 hc0' ρ hw => Or.inl ⟨c0, by rw [c]; exact hc0', hw⟩
    by_cases hnew : t ∈ ds
    · have htop_tr : Tr s top := Or.inr (Or.inl (by rw [hst]; exact List.mem_cons_self))
      obtain ⟨c1, hc1, ρ, hw, ch⟩ := sup_transfer hp ep aw hk_top_r hcomp hlt_top htop_tr hctl
      have hpend_s : (s.task top).pending = true :=
        j.pend top hk0 hnc (lb.notIn root base rest top stk hc0 hlen hst)
      exact ⟨c1, hc1, ρ, hw, ch.tail ⟨hk_top_r, hcomp, by rw [hpend]; exact hpend_s, by rw [hdeps]; exact hds t hnew⟩⟩
    · have htr' : Tr s t := tr_back hr
        (by rw [st]; intro hx; rcases List.mem_append.1 hx with hx | hx
            · exact absurd hx hnew
            · exact hx)
        (by rw [c]; exact Or.inl) htr
      exact sup_transfer hp ep aw hk hc (tr_lt h htr') htr' hctl
  | enterGen root base rest top stk old hc0 hst hlen hk0 hnc hp c st =>
    have ep : EP s (step s) := by
      refine ep_of_hp hp ?_
      intro u hu x hl hx
      have hu' : u = top := hu
      subst hu'
      have := hp.comp x (enterGen_deps hr hc0 c x hl.2.2.2)
      rw [this] at hx; cases hx
    have htr' : Tr s t := tr_back hr (by rw [st]; exact id)
      (by rw [c]; intro hx
          rcases List.mem_cons.1 (show t ∈ top :: gens s.ctl from hx) with hx | hx
          · right; rw [hx, hst]; exact List.mem_cons_self
          · left; exact hx) htr
    exact sup_transfer hp ep aw hk hc (tr_lt h htr') htr'
      (fun c0 hc0' ρ hw => Or.inl ⟨c0, by rw [c]; exact List.mem_cons_of_mem _ hc0', hw⟩)
  | gen t0 old rest hc0 g =>
    have epX : ∀ {r : State}, P12.Hp (P12.O t0) s r → EP s r := by
      intro r hp
      refine ep_of_hp hp ?_
      intro u hu x hl hx
      have hu' : u = t0 := hu
      subst hu'
      have := hp.comp x (pin.gnb u (by rw [hc0]; simp [gens]) x hl.2.2.2)
      rw [this] at hx; cases hx
    cases g with
    | stay hp c st =>
      have htr' : Tr s t := tr_back hr (by rw [st]; exact id) (by rw [c]; exact Or.inl) htr
      exact sup_transfer hp (epX hp) aw hk hc (tr_lt h htr') htr'
        (fun c0 hc0' ρ hw => Or.inl ⟨c0, by rw [c]; exact hc0', hw⟩)
    | leave hp c st hx =>
      have htr' : Tr s t := tr_back hr (by rw [st]; exact id)
        (by rw [c, hc0]; intro hm; left; exact List.mem_cons_of_mem _ hm) htr
      refine sup_transfer hp (epX hp) aw hk hc (tr_lt h htr') htr' ?_
      intro c0 hc0' ρ hw
      rw [hc0] at hc0'
      rcases List.mem_cons.1 hc0' with rfl | hm
      · exact absurd hw not_isWait_gen
      · left; exact ⟨c0, by rw [c, hc0]; exact hm, hw⟩
    | call f hp c st hb hpnd =>
      have htr' : Tr s t := tr_back hr (by rw [st]; exact id) (by rw [c]; exact Or.inl) htr
      exact sup_transfer hp (epX hp) aw hk hc (tr_lt h htr') htr'
        (fun c0 hc0' ρ hw => Or.inl ⟨c0, by rw [c]; exact List.mem_cons_of_mem _ hc0', hw⟩)
  | guard hgf => rw [hg] at hgf; cases hgf

theorem aw_init (cfg : Cfg) (tops : List (Conv × Body)) (choices : List (Nat × Nat)) :
    Aw (initState cfg tops choices) := by
  intro t hk
  simp [initState, State.fut] at hk

/-- `Aw` holds in every reachable state of a well-scoped program while the guard has not fired and no
    NonAsyncContext exists -/
theorem aw_reach {s : State} (h : P10.WSReach s) (hg : s.guardFired = false) (hn : Inv.noNonAsync s = true) : Aw s := by
  induction h with
  | init cfg tops choices _ => exact aw_init cfg tops choices
  | @step s hs ih =>
    have hg0 := P3.guard_mono s hg
    have hn0 := P4.step_noNonAsync s hn
    exact aw_step hs (P7.na_of_noNonAsync hn0) hg (ih hg0 hn0)

/-- **every started task is computed when the Python stack is empty** -/
theorem started_computed_at_top {s : State} (h : P10.WSReach s) (hg : s.guardFired = false)
    (hn : Inv.noNonAsync s = true) (hctl : s.ctl = []) (t : Nat) (hst : (s.task t).started = true) :
    s.out t ≠ none := by
  intro ho
  have hk := (pinv_reach h.reach).startedTask t hst
  have hc : s.computed t = false := by unfold State.computed; rw [ho]; rfl
  obtain ⟨c, hc', _⟩ := aw_reach h hg hn t hk hc (Or.inl hst)
  rw [hctl] at hc'; cases hc'

end AsynqModel.Core.P15
