import AsynqModel.Proofs.P22GenB
/-!
# P22, part 9: the instructions that CALL: `yld` (first await of the tasks among the leaves) and `syncfut`
-/
namespace AsynqModel.Core.P22
open AsynqModel.Core AsynqModel.Core.P22.SeqSV

/-- the ghost after task `t` (info `ip`, current environment `Ec`) has awaited its own futures with indices `is` -/
def callG (s : State) (g : Ghost) (ip : Info) (own : List Nat) (Ec : SvEnv) (is : List Nat) : Ghost := fun u =>
  match g u with
  | some x => some x
  | none =>
    is.findSome? fun i =>
      if own[i]? = some u ∧ (s.fut u).kind = .task then
        some ⟨ip.k, ip.ρ ++ [i], (s.task u).body, Inv.dens s (s.task u).inh, Ec⟩
      else none

theorem callG_mono (s : State) (g : Ghost) (ip : Info) (own : List Nat) (Ec : SvEnv) (is : List Nat) (u : Nat) (iu : Info)
    (h : g u = some iu) : callG s g ip own Ec is u = some iu := by
  unfold callG; rw [h]

theorem callG_new {s : State} {g : Ghost} {ip : Info} {own : List Nat} {Ec : SvEnv} {is : List Nat} {u : Nat} {iu : Info}
    (hg : g u = none) (h : callG s g ip own Ec is u = some iu) :
    ∃ i, i ∈ is ∧ own[i]? = some u ∧ (s.fut u).kind = .task ∧
      iu = ⟨ip.k, ip.ρ ++ [i], (s.task u).body, Inv.dens s (s.task u).inh, Ec⟩ := by
  unfold callG at h
  rw [hg] at h
  simp only at h
  obtain ⟨i, hi, hx⟩ := List.exists_of_findSome?_eq_some h
  split at hx
  · next hc => exact ⟨i, hi, hc.1, hc.2, (Option.some.inj hx).symm⟩
  · cases hx

theorem callG_called {s : State} {g : Ghost} {ip : Info} {own : List Nat} {Ec : SvEnv} {is : List Nat} {u i : Nat}
    (hi : i ∈ is) (ho : own[i]? = some u) (hk : (s.fut u).kind = .task) : callG s g ip own Ec is u ≠ none := by
  unfold callG
  cases hg : g u with
  | some x => simp
  | none =>
    simp only
    intro h
    rw [List.findSome?_eq_none_iff] at h
    have := h i hi
    simp [ho, hk] at this

theorem callG_none {s : State} {g : Ghost} {ip : Info} {own : List Nat} {Ec : SvEnv} {is : List Nat} {u : Nat}
    (hg : g u = none) (h : ∀ i ∈ is, own[i]? = some u → (s.fut u).kind ≠ .task) : callG s g ip own Ec is u = none := by
  unfold callG
  rw [hg]
  simp only
  rw [List.findSome?_eq_none_iff]
  intro i hi
  split
  · next hc => exact absurd hc.2 (h i hi hc.1)
  · rfl

/-- awaiting the own futures `is`: what is left to run afterwards is what the updated ghost says -/
theorem await_callG (s : State) (g : Ghost) (ip : Info) (own : List Nat) (Ec : SvEnv) (is : List Nat)
    (hnd : ∀ (i j u : Nat), own[i]? = some u → own[j]? = some u → i = j) :
    (await Ec (own.map (kidOf s g)) is).2 = own.map (kidOf s (callG s g ip own Ec is)) := by
  apply List.ext_getElem?
  intro j
  rw [await_get, List.getElem?_map, List.getElem?_map]
  cases hj : own[j]? with
  | none => simp
  | some u =>
    simp only [Option.map_some]
    have key : kidOf s (callG s g ip own Ec is) u = if j ∈ is then none else kidOf s g u := by
      cases hg : g u with
      | some x =>
        have h1 : kidOf s g u = none := by unfold kidOf; rw [hg]
        have h2 : kidOf s (callG s g ip own Ec is) u = none := by
          unfold kidOf; rw [callG_mono s g ip own Ec is u x hg]
        rw [h1, h2]; simp
      | none =>
        by_cases hji : j ∈ is
        · rw [if_pos hji]
          by_cases hk : (s.fut u).kind = .task
          · have := callG_called (g := g) (ip := ip) (Ec := Ec) hji hj hk
            unfold kidOf
            cases hc : callG s g ip own Ec is u with
            | none => exact absurd hc this
            | some x => simp
          · have hn : callG s g ip own Ec is u = none := callG_none hg (fun _ _ _ => hk)
            unfold kidOf
            rw [hn]
            cases hkd : (s.fut u).kind <;> simp_all
        · rw [if_neg hji]
          have hn : callG s g ip own Ec is u = none := by
            apply callG_none hg
            intro i hi ho
            exact absurd (hnd i j u ho hj ▸ hi) hji
          unfold kidOf
          rw [hn, hg]
    rw [key]
    split <;> rfl

variable {cfg : Cfg} {tops : List (Conv × Body)} {s : State} {g : Ghost} {t : Nat} {old : Option Nat} {rest' : List Ctl}

/-- the common part of the calling instructions: `t` awaits its own futures `is` -/
theorem sim_call {r : State} (C : GC cfg tops s g t old rest') (hst : (s.genStep t old).stuck = none)
    (ip : Info) (hip : g t = some ip) (is : List Nat)
    (L : Lm s r t) (hlen : r.futs.length = s.futs.length)
    (hown : (r.task t).own = (s.task t).own) (hinh : (r.task t).inh = (s.task t).inh)
    (hconts : (r.task t).conts = (s.task t).conts)
    (hstd : (r.task t).started = true) (hcr : r.computed t = false)
    (hrd : mreads t r.trace = mreads t s.trace)
    (hbody : nsBC (r.task t).body (r.task t).conts)
    (hwn : ∀ (i u : Nat), i ∈ is → (s.task t).own[i]? = some u → (s.fut u).kind = .task →
      (((r.task t).pending = true ∧ (r.task t).started = true ∧ u ∈ (r.task t).lastY.leaves) ∨
       ((r.task t).pending = false ∧ ∃ k h, (r.task t).body = .syncret u k h)))
    (hsync : ∀ f k h, (r.task t).body = .syncret f k h →
      (s.task t).body = .syncret f k h ∨ ∃ i, i ∈ is ∧ (s.task t).own[i]? = some f)
    (hdeps : ∀ d, d ∈ (r.task t).deps → d ∈ (s.task t).deps ∨ d ∈ (s.task t).prevY.leaves ∨
      ∃ i, i ∈ is ∧ (s.task t).own[i]? = some d)
    (hprev : ∀ d, d ∈ (r.task t).prevY.leaves → d ∈ (s.task t).prevY.leaves ∨ ∃ i, i ∈ is ∧ (s.task t).own[i]? = some d)
    (hhead : headD cfg (envOf s ip.E (cids (s.task t))) (fun f => (s.fut f).den)
        ((s.task t).pending && (s.task t).started) (s.task t).body [] (locOf s g (s.task t)) =
      ((await (envOf s ip.E (cids (s.task t))) ((s.task t).own.map (kidOf s g)) is).1 ++
        (headD cfg (envOf s ip.E (cids (s.task t))) (fun f => (s.fut f).den)
          ((r.task t).pending && (r.task t).started) (r.task t).body []
          ⟨(r.task t).env, Inv.dens s (s.task t).own,
            (await (envOf s ip.E (cids (s.task t))) ((s.task t).own.map (kidOf s g)) is).2, (r.task t).caught,
            (r.task t).prevYRef⟩).1,
       (headD cfg (envOf s ip.E (cids (s.task t))) (fun f => (s.fut f).den)
          ((r.task t).pending && (r.task t).started) (r.task t).body []
          ⟨(r.task t).env, Inv.dens s (s.task t).own,
            (await (envOf s ip.E (cids (s.task t))) ((s.task t).own.map (kidOf s g)) is).2, (r.task t).caught,
            (r.task t).prevYRef⟩).2)) :
    Sim cfg tops r (callG s g ip (s.task t).own (envOf s ip.E (cids (s.task t))) is) := by
  have hnd : ∀ (i j u : Nat), (s.task t).own[i]? = some u → (s.task t).own[j]? = some u → i = j :=
    fun i j u hi hj => (C.sim.ownInj t t i j u C.kt C.kt hi hj).2
  have haw := await_callG s g ip (s.task t).own (envOf s ip.E (cids (s.task t))) is hnd
  have hgt : callG s g ip (s.task t).own (envOf s ip.E (cids (s.task t))) is t ≠ none := by
    rw [callG_mono _ _ _ _ _ _ t ip hip]; intro h; cases h
  have hkd : ∀ d, (r.fut d).kind = .task → d < s.futs.length → (s.fut d).kind = .task := by
    intro d hk hd; rw [← (L.fut d hd).1]; exact hk
  have hcid : cids (r.task t) = cids (s.task t) := by unfold cids; rw [hconts]
  have hEr : envOf r ip.E (cids (r.task t)) = envOf s ip.E (cids (s.task t)) := by
    rw [hcid]; exact envOf_lm L ip.E (C.bnd.conts t)
  -- a future called now, or before
  have hcalled : ∀ (i d : Nat), i ∈ is → (s.task t).own[i]? = some d → (r.fut d).kind = .task →
      callG s g ip (s.task t).own (envOf s ip.E (cids (s.task t))) is d ≠ none := by
    intro i d hi ho hk
    exact callG_called hi ho (hkd d hk (C.bnd.own t d (List.mem_of_getElem? ho)))
  have hmono : ∀ d, g d ≠ none → callG s g ip (s.task t).own (envOf s ip.E (cids (s.task t))) is d ≠ none := by
    intro d hd
    cases hgd : g d with
    | none => exact absurd hgd hd
    | some x => rw [callG_mono _ _ _ _ _ _ d x hgd]; intro h; cases h
  refine sim_upd C.sim C.bnd (mkUpd_same
    (mid := (await (envOf s ip.E (cids (s.task t))) ((s.task t).own.map (kidOf s g)) is).1)
    C hst hip L hlen hown hstd (callG_mono s g ip _ _ is) ?_ ?_ ?_ ?_ ?_ ?_ hbody ?_ ?_ ?_)
  · -- the tasks called now
    intro u iu hg hc
    obtain ⟨i, hi, ho, hk, he⟩ := callG_new hg hc
    have hu : u < s.futs.length := C.bnd.own t u (List.mem_of_getElem? ho)
    have hut : u ≠ t := by intro e; rw [e, hip] at hg; cases hg
    obtain ⟨h1, _, _, _, h5, _, _, h8, _⟩ := P4.coreA_fields (L.task u hut hk).2
    have hi0 : (s.task u).inh = [] := C.sim.inh u hk
    refine ⟨i, by rw [hown]; exact ho, by rw [(L.fut u hu).1]; exact hk, ?_, by rw [he], by rw [he], ?_, ?_, ?_, ?_⟩
    · show (r.fut u).ts.started = false
      rw [h8]; exact C.sim.unst u hk hg
    · rw [he]; exact h1.symm
    · rw [he]
      show Inv.dens s (s.task u).inh = Inv.dens r (r.fut u).ts.inh
      rw [h5]
      show Inv.dens s (s.task u).inh = Inv.dens r (s.task u).inh
      rw [hi0]; rfl
    · rw [he]; exact hEr.symm
    · rw [he]
      apply await_mem _ _ _ i _ _ hi
      rw [List.getElem?_map, ho]
      simp only [Option.map_some]
      unfold kidOf
      rw [hg, hk]
  · -- split
    refine split_same C.sim C.bnd L hlen hgt C.kt hown hinh hconts C.nct hcr ip.E _ ?_
    rw [hhead, haw]
  · rw [hrd, await_reads]; simp
  · -- every call of the await is recorded by the ghost
    intro i c ci E' hm
    obtain ⟨j, b', inh', he, hj, hkk⟩ := await_call _ _ _ _ hm
    injection he with e1 e2 e3 e4
    subst e1 e2 e3 e4
    rw [List.getElem?_map] at hkk
    cases ho : (s.task t).own[i]? with
    | none => rw [ho] at hkk; cases hkk
    | some u =>
      rw [ho] at hkk
      simp only [Option.map_some, Option.some.injEq] at hkk
      have hgu : g u = none := by
        cases hgu : g u with
        | none => rfl
        | some x => unfold kidOf at hkk; rw [hgu] at hkk; cases hkk
      have hku : (s.fut u).kind = .task := by
        unfold kidOf at hkk
        rw [hgu] at hkk
        simp only at hkk
        cases hkd : (s.fut u).kind <;> rw [hkd] at hkk <;> first | rfl | cases hkk
      have hbc : c = (s.task u).body ∧ ci = Inv.dens s (s.task u).inh := by
        unfold kidOf at hkk
        rw [hgu, hku] at hkk
        simp only [Option.some.injEq, Prod.mk.injEq] at hkk
        exact ⟨hkk.1.symm, hkk.2.symm⟩
      have hne := callG_called (g := g) (ip := ip) (Ec := envOf s ip.E (cids (s.task t))) hj ho hku
      cases hc : callG s g ip (s.task t).own (envOf s ip.E (cids (s.task t))) is u with
      | none => exact absurd hc hne
      | some iv =>
        obtain ⟨i', _, _, _, he'⟩ := callG_new hgu hc
        refine ⟨u, iv, by rw [hown]; exact ho, hc, ?_, ?_, ?_⟩
        · rw [he', hbc.1]
        · rw [he', hbc.2]
        · rw [he']
  · intro i u ho hg hg'
    refine ⟨hcr, ?_⟩
    cases hc : callG s g ip (s.task t).own (envOf s ip.E (cids (s.task t))) is u with
    | none => exact absurd hc hg'
    | some iu =>
      obtain ⟨i', hi', ho', hk, _⟩ := callG_new hg hc
      exact hwn i' u hi' ho' hk
  · rw [hinh]; exact C.sim.inh t C.kt
  · intro f k h hb _
    rcases hsync f k h hb with hb' | ⟨i, hi, ho⟩
    · obtain ⟨h1, h2⟩ := C.sim.sync t f k h C.kt hb' C.nct
      exact ⟨by rw [hown]; exact h1, fun hk => hmono f (h2 (hkd f hk (C.bnd.own t f h1)))⟩
    · exact ⟨by rw [hown]; exact List.mem_of_getElem? ho, fun hk => hcalled i f hi ho hk⟩
  · intro d hd hk
    rcases hdeps d hd with hd' | hd' | ⟨i, hi, ho⟩
    · exact hmono d (C.sim.depsCalled t d C.kt hd' (hkd d hk (C.bnd.deps t d hd')))
    · exact hmono d (C.sim.prevCalled t d C.kt hd' (hkd d hk (C.bnd.prevY t d hd')))
    · exact hcalled i d hi ho hk
  · intro d hd hk
    rcases hprev d hd with hd' | ⟨i, hi, ho⟩
    · exact hmono d (C.sim.prevCalled t d C.kt hd' (hkd d hk (C.bnd.prevY t d hd')))
    · exact hcalled i d hi ho hk

/-! ### `yld` -/

theorem mem_ownIdx {y : Y} {i : Nat} : i ∈ ownIdx y ↔ Ref.own i ∈ y.leaves := by
  unfold ownIdx
  rw [List.mem_filterMap]
  constructor
  · rintro ⟨r, hr, he⟩
    cases r with
    | own j => simp only [Option.some.injEq] at he; subst he; exact hr
    | inh j => cases he
  · intro h; exact ⟨.own i, h, rfl⟩

theorem own_leaf {ts : TaskSt} {y : Y} {i u : Nat} (hi : i ∈ ownIdx y) (ho : ts.own[i]? = some u) :
    u ∈ (y.mapLeaves ts.resolve).leaves := by
  rw [P4.leaves_mapLeaves]
  refine List.mem_map.2 ⟨.own i, mem_ownIdx.1 hi, ?_⟩
  simp [TaskSt.resolve, List.getD_eq_getElem?_getD, ho]

theorem leaf_own {ts : TaskSt} {y : Y} {d : Nat} (hinh : ts.inh = [])
    (hsc : y.leaves.all (P4.refOK ts.own.length ts.inh.length) = true) (hd : d ∈ (y.mapLeaves ts.resolve).leaves) :
    ∃ i, i ∈ ownIdx y ∧ ts.own[i]? = some d := by
  rw [P4.leaves_mapLeaves] at hd
  obtain ⟨r, hr, he⟩ := List.mem_map.1 hd
  have hok := List.all_eq_true.1 hsc r hr
  cases r with
  | own i =>
    simp only [P4.refOK, decide_eq_true_eq] at hok
    refine ⟨i, mem_ownIdx.2 hr, ?_⟩
    rw [← he]
    simp [TaskSt.resolve, List.getD_eq_getElem?_getD, List.getElem?_eq_getElem hok]
  | inh j =>
    simp only [P4.refOK, hinh, List.length_nil, decide_eq_true_eq] at hok
    omega

/-- `yield y`: the tasks among the leaves that have not run yet are called -/
theorem sim_yld (C : GC cfg tops s g t old rest') (hst : (s.genStep t old).stuck = none)
    (hp : (s.task t).pending = false) (y : Y) (k h : Body) (hb : (s.task t).body = .yld y k h) :
    ∃ g', Sim cfg tops (s.genStep t old) g' ∧ GExt g g' := by
  obtain ⟨ip, hip⟩ := C.info
  have hstd := C.started_of_running hp
  have hi0 : (s.task t).inh = [] := C.sim.inh t C.kt
  have hws := C.ws (by rw [hb]; intro _ _ _; nofun)
  rw [hb] at hws
  simp only [P4.ws, Bool.and_eq_true] at hws
  have hsc := hws.1.1
  obtain ⟨r1, hr1, hg1⟩ : ∃ r1, (r1 = ((s.emit (.yield t (s.task t).resumes (y.mapLeaves (s.task t).resolve))).updTask t
      fun ts => { ts with pending := true, lastY := y.mapLeaves (s.task t).resolve,
                          prevY := y.mapLeaves (s.task t).resolve, prevYRef := y,
                          deps := (if s.cfg.keepDeps then (s.task t).deps else []) ++
                            extractFutures (y.mapLeaves (s.task t).resolve) })) ∧
      (s.genStep t old = r1 ∨ s.genStep t old = r1.leaveGen t old) := by
    refine ⟨_, rfl, ?_⟩
    have e : s.genStep t old =
        if ((if s.cfg.keepDeps then (s.task t).deps else []) ++
            extractFutures (y.mapLeaves (s.task t).resolve)).isEmpty then
          ((s.emit (.yield t (s.task t).resumes (y.mapLeaves (s.task t).resolve))).updTask t
            fun ts => { ts with pending := true, lastY := y.mapLeaves (s.task t).resolve,
                                prevY := y.mapLeaves (s.task t).resolve, prevYRef := y,
                                deps := (if s.cfg.keepDeps then (s.task t).deps else []) ++
                                  extractFutures (y.mapLeaves (s.task t).resolve) })
        else
          ((s.emit (.yield t (s.task t).resumes (y.mapLeaves (s.task t).resolve))).updTask t
            fun ts => { ts with pending := true, lastY := y.mapLeaves (s.task t).resolve,
                                prevY := y.mapLeaves (s.task t).resolve, prevYRef := y,
                                deps := (if s.cfg.keepDeps then (s.task t).deps else []) ++
                                  extractFutures (y.mapLeaves (s.task t).resolve) }).leaveGen t old := by
      unfold State.genStep
      simp only [hp, hb, Bool.false_eq_true, if_false]
    rw [e]
    exact ite_or _ _ (fun x : State => x.leaveGen t old)
  have ht1 : r1.task t =
      ({ s.task t with
          pending := true, lastY := y.mapLeaves (s.task t).resolve,
          prevY := y.mapLeaves (s.task t).resolve, prevYRef := y,
          deps := (if s.cfg.keepDeps then (s.task t).deps else []) ++
            extractFutures (y.mapLeaves (s.task t).resolve) } : TaskSt) := by
    rw [hr1]; exact task_updTask_self' (s.emit _) t _ C.lt
  have L1 : Lm s r1 t := by rw [hr1]; exact (lm_emit s t _ rfl).trans (lm_updTask _ t _)
  have hlen1 : r1.futs.length = s.futs.length := by rw [hr1]; simp
  have htr1 : r1.trace = .yield t (s.task t).resumes (y.mapLeaves (s.task t).resolve) :: s.trace := by rw [hr1]; rfl
  have hc1 : r1.computed t = false := by rw [hr1, P2.computed_updTask, computed_emit]; exact C.nct
  have key : ∀ r, Lm s r t → r.futs.length = s.futs.length → P4.coreA (r.task t) = P4.coreA (r1.task t) →
      r.trace = r1.trace → r.computed t = false →
      Sim cfg tops r (callG s g ip (s.task t).own (envOf s ip.E (cids (s.task t))) (ownIdx y)) := by
    intro r L hlen hcore htr hcr
    obtain ⟨h1, h2, h3, h4, h5, h6, h7, h8, h9, h10, h11, h12, _⟩ := P4.coreA_fields hcore
    have hnb := C.sim.nsB t C.kt
    refine sim_call C hst ip hip (ownIdx y) L hlen ?_ ?_ ?_ ?_ hcr ?_ ?_ ?_ ?_ ?_ ?_ ?_
    · rw [h4, ht1]
    · rw [h5, ht1]
    · rw [h2, ht1]
    · rw [h8, ht1]; exact hstd
    · rw [htr, htr1]; exact mreads_cons_none rfl
    · rw [h1, h2, ht1]; exact hnb
    · intro i u hi ho _
      left
      refine ⟨by rw [h7, ht1], by rw [h8, ht1]; exact hstd, ?_⟩
      rw [h9, ht1]
      exact own_leaf hi ho
    · intro f k' h' hb'; rw [h1, ht1] at hb'; exact Or.inl hb'
    · intro d hd
      rw [h12, ht1] at hd
      simp only [List.mem_append] at hd
      rcases hd with hd | hd
      · left
        split at hd
        · exact hd
        · cases hd
      · right; right
        exact leaf_own hi0 hsc ((P4.mem_extractFutures _ d).1 hd)
    · intro d hd
      rw [h10, ht1] at hd
      exact Or.inr (leaf_own hi0 hsc hd)
    · rw [h7, h8, h1, h3, h6, h11, ht1]
      simp only [hp, hb, hstd, Bool.and_true]
      unfold headD
      simp only [Bool.false_eq_true, if_false, if_true, runBody]
      unfold locOf
      simp only []
      cases unwrap (resolveO (Inv.dens s (s.task t).own) []) y <;> rfl
  rcases hg1 with e | e
  · rw [e]; exact ⟨_, key r1 L1 hlen1 rfl rfl hc1, callG_mono s g ip _ _ _⟩
  · rw [e]
    refine ⟨_, key _ (L1.trans (lm_leaveGen r1 t old)) ?_ (task_leaveGen r1 t old t) rfl ?_, callG_mono s g ip _ _ _⟩
    · unfold State.leaveGen; simp [hlen1]
    · rw [computed_of_out (P4.core_leaveGen r1 t old t).2.1]; exact hc1

/-! ### `syncfut` -/

theorem sm_mreads {x r : State} (h : Sm x r) (u : Nat) : mreads u r.trace = mreads u x.trace := by
  obtain ⟨evs, htr, hq⟩ := h.trace
  have hn : mreads u evs = [] := by
    apply mreads_nil_of
    intro e he
    have := hq e he
    cases e <;> simp_all [quietEv, rdEv]
  rw [htr, mreads_append, hn, List.append_nil]

/-- `r.value()` on one of the futures the task can name: if it is a task that has not run yet, it is called -/
theorem sim_syncfut (C : GC cfg tops s g t old rest') (hst : (s.genStep t old).stuck = none)
    (hp : (s.task t).pending = false) (rf : Ref) (k h : Body) (hb : (s.task t).body = .syncfut rf k h) :
    ∃ g', Sim cfg tops (s.genStep t old) g' ∧ GExt g g' := by
  obtain ⟨ip, hip⟩ := C.info
  have hstd := C.started_of_running hp
  have hi0 : (s.task t).inh = [] := C.sim.inh t C.kt
  have hws := C.ws (by rw [hb]; intro _ _ _; nofun)
  rw [hb] at hws
  simp only [P4.ws, Bool.and_eq_true] at hws
  have hsc : P4.refOK (s.task t).own.length (s.task t).inh.length rf = true := hws.1.1
  have hnb := C.sim.nsB t C.kt
  have hkh : ns k = true ∧ ns h = true := by
    have := nsBC_body hnb (by rw [hb]; intro _ _ _; nofun)
    rw [hb] at this; simpa [ns] using this
  -- the reference is an own future
  obtain ⟨i, hrf, hio⟩ : ∃ i, rf = .own i ∧ (s.task t).own[i]? = some ((s.task t).resolve rf) := by
    cases rf with
    | own i =>
      simp only [P4.refOK, decide_eq_true_eq] at hsc
      exact ⟨i, rfl, by simp [TaskSt.resolve, List.getD_eq_getElem?_getD, List.getElem?_eq_getElem hsc]⟩
    | inh j =>
      simp only [P4.refOK, hi0, List.length_nil, decide_eq_true_eq] at hsc
      omega
  have hden : (resolveO (Inv.dens s (s.task t).own) [] rf).getD (.err .other) = (s.fut ((s.task t).resolve rf)).den := by
    have := P4.resolveO_dens s (s.task t) rf hsc
    rw [hi0] at this
    rw [show Inv.dens s [] = [] from rfl] at this
    rw [this]; rfl
  -- the state after the update of the task
  let s1 := (s.updTask t fun ts => { ts with body := .syncret ((s.task t).resolve rf) k h }).emit
    (.syncE t ((s.task t).resolve rf))
  have ht1 : s1.task t = { s.task t with body := .syncret ((s.task t).resolve rf) k h } :=
    (task_emit _ _ _).trans (task_updTask_self' s t _ C.lt)
  have L1 : Lm s s1 t := (lm_updTask s t _).trans (lm_emit _ t _ rfl)
  have hi1 : P2.ItemsOk s1 := P7.itemsOk_of_eq (s := s) (fun f => L1.fut' (by simp [s1]) f) rfl C.items
  have hsm : Sm s1 (s.genStep t old) := by
    have e : s.genStep t old =
        if s1.computed ((s.task t).resolve rf) then s1 else
        match (s1.fut ((s.task t).resolve rf)).kind with
        | .task => { s1 with ctl := .waitEnter ((s.task t).resolve rf) :: s1.ctl }
        | .item kind seq _ _ =>
          (match s1.batch? kind seq with
           | some b => if b.flushed then s1 else s1.flushBatch kind seq
           | none => s1)
        | .lazy o => s1.complete ((s.task t).resolve rf) (lazyOutcome o)
        | _ => s1 := by
      unfold State.genStep
      simp only [hp, hb, Bool.false_eq_true, if_false]
      rfl
    rw [e]
    split
    · exact Sm.refl _
    · split
      · exact Sm.of_eq rfl rfl rfl rfl rfl rfl rfl
      · split
        · split
          · exact Sm.refl _
          · exact sm_flushBatch _ _ _ hi1
        · exact Sm.refl _
      · next o hk => exact sm_complete _ _ _ (by rw [hk]; intro h'; cases h')
      · exact Sm.refl _
  have hkt1 : (s1.fut t).kind = .task := by rw [(L1.fut t C.lt).1]; exact C.kt
  have hcore : P4.coreA ((s.genStep t old).task t) = P4.coreA (s1.task t) := (hsm.task t hkt1).2
  obtain ⟨h1, h2, h3, h4, h5, h6, h7, h8, h9, h10, h11, h12, _⟩ := P4.coreA_fields hcore
  have hcr : (s.genStep t old).computed t = false := by
    rw [computed_of_out (hsm.task t hkt1).1, computed_emit, P2.computed_updTask]; exact C.nct
  refine ⟨_, sim_call C hst ip hip (refIdx rf) (L1.trans (Lm.of_sm hsm t)) ?_ ?_ ?_ ?_ ?_ hcr ?_ ?_ ?_ ?_ ?_ ?_ ?_,
    callG_mono s g ip _ _ _⟩
  · rw [hsm.len]; simp [s1]
  · rw [h4, ht1]
  · rw [h5, ht1]
  · rw [h2, ht1]
  · rw [h8, ht1]; exact hstd
  · rw [sm_mreads hsm]; exact mreads_cons_none (tr := s.trace) rfl
  · rw [h1, h2, ht1]; exact ⟨hkh, hnb.2⟩
  · intro i' u hi' ho _
    right
    refine ⟨by rw [h7, ht1]; exact hp, k, h, ?_⟩
    rw [h1, ht1]
    rw [hrf] at hi'
    simp only [refIdx, List.mem_singleton] at hi'
    subst hi'
    rw [hio] at ho
    rw [Option.some.inj ho]
  · intro f k' h' hb'
    rw [h1, ht1] at hb'
    right
    injection hb' with e1 _ _
    refine ⟨i, by rw [hrf]; simp [refIdx], ?_⟩
    rw [← e1]; exact hio
  · intro d hd; rw [h12, ht1] at hd; exact Or.inl hd
  · intro d hd; rw [h10, ht1] at hd; exact Or.inl hd
  · rw [h7, h8, h1, h3, h6, h11, ht1]
    simp only [hp, hb, Bool.false_and]
    unfold headD
    simp only [Bool.false_eq_true, if_false, runBody]
    unfold locOf
    simp only [hden]
    cases (s.fut ((s.task t).resolve rf)).den <;> rfl

end AsynqModel.Core.P22
