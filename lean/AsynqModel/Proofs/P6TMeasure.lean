import AsynqModel.Proofs.P6TGen2
/-
  P6T (termination, property C03), part 6: the first components of the termination measure.
  `M1` = remaining program weight (tops not started + every uncompleted task: twice the size of its body and open
  with-blocks, + 2 if it has not started, + 1 if it is running); every instruction of a task body and every start of a
  top-level computation decreases it, no scheduler step increases it.
  `M2` = number of unflushed non-empty batches; a scheduler flush decreases it.
-/
namespace AsynqModel.Core.P6T
open AsynqModel.Core AsynqModel.Core.P6

/-! ### sums over `List.range` -/

def rsum (a : Nat → Nat) (n : Nat) : Nat := ((List.range n).map a).sum

theorem rsum_succ (a : Nat → Nat) (n : Nat) : rsum a (n + 1) = rsum a n + a n := by
  simp [rsum, List.range_succ]

theorem rsum_le {a b : Nat → Nat} : ∀ n, (∀ f, f < n → a f ≤ b f) → rsum a n ≤ rsum b n
  | 0, _ => by simp [rsum]
  | n + 1, h => by
    rw [rsum_succ, rsum_succ]
    have := rsum_le n (fun f hf => h f (Nat.lt_succ_of_lt hf))
    have := h n (Nat.lt_succ_self n)
    omega

theorem rsum_congr {a b : Nat → Nat} (n : Nat) (h : ∀ f, f < n → a f = b f) : rsum a n = rsum b n :=
  Nat.le_antisymm (rsum_le n fun f hf => Nat.le_of_eq (h f hf)) (rsum_le n fun f hf => Nat.le_of_eq (h f hf).symm)

/-- two functions that agree except at `t` -/
theorem rsum_point {a b : Nat → Nat} {t : Nat} : ∀ n, (∀ f, f < n → f ≠ t → a f = b f) → t < n →
    rsum a n + b t = rsum b n + a t
  | 0, _, h => by omega
  | n + 1, h, ht => by
    rw [rsum_succ, rsum_succ]
    by_cases e : t = n
    · subst e
      have := rsum_congr t (fun f hf => h f (Nat.lt_succ_of_lt hf) (Nat.ne_of_lt hf))
      omega
    · have h1 := rsum_point n (fun f hf hne => h f (Nat.lt_succ_of_lt hf) hne) (by omega)
      have h2 := h n (Nat.lt_succ_self n) (fun e' => e e'.symm)
      omega

theorem le_rsum {a : Nat → Nat} {t n : Nat} (ht : t < n) : a t ≤ rsum a n := by
  induction n with
  | zero => omega
  | succ n ih =>
    rw [rsum_succ]
    by_cases e : t = n
    · subst e; omega
    · have := ih (by omega); omega

/-! ### `M1` -/

def wsum (v : FV) : Nat := bsize v.body + (v.conts.map fun p => bsize p.2).sum

def tw (v : FV) : Nat := 2 * wsum v + (if v.started = false then 2 else if v.pending = true then 0 else 1)

def tval (s : State) (f : Nat) : Nat :=
  if (view s f).kind = .task ∧ (view s f).out = none then tw (view s f) else 0

def topsW (l : List (Conv × Body)) : Nat := (l.map fun p => 2 * bsize p.2 + 3).sum

def M1 (s : State) : Nat := topsW s.tops + rsum (tval s) s.futs.length

theorem tval_task {s : State} {f : Nat} (hk : (view s f).kind = .task) (ho : (view s f).out = none) :
    tval s f = tw (view s f) := by
  unfold tval; rw [if_pos ⟨hk, ho⟩]

theorem tval_computed {s : State} {f : Nat} (ho : (view s f).out ≠ none) : tval s f = 0 := by
  unfold tval; rw [if_neg (fun h => ho h.2)]

theorem tval_nontask {s : State} {f : Nat} (hk : (view s f).kind ≠ .task) : tval s f = 0 := by
  unfold tval; rw [if_neg (fun h => hk h.1)]

theorem tval_of_view {s r : State} {f : Nat} (e : view r f = view s f) : tval r f = tval s f := by
  unfold tval; rw [e]

theorem M1_same {s r : State} (e : Same s r) : M1 r = M1 s := by
  unfold M1
  rw [e.tops, e.len]
  congr 1
  exact rsum_congr _ (fun f _ => tval_of_view (e.view f))

theorem M1_upd1_le {s r : State} {t : Nat} {v' : FV} (U : Upd1S s r t v') (h : tval r t ≤ tval s t) :
    M1 r ≤ M1 s := by
  unfold M1
  rw [U.tops, U.len]
  apply Nat.add_le_add_left
  apply rsum_le
  intro f _
  by_cases e : f = t
  · subst e; exact h
  · exact Nat.le_of_eq (tval_of_view (U.viewO f e))

theorem M1_upd1_lt {s r : State} {t : Nat} {v' : FV} (U : Upd1S s r t v') (ht : t < s.futs.length)
    (h : tval r t < tval s t) : M1 r < M1 s := by
  unfold M1
  rw [U.tops, U.len]
  have := rsum_point (a := tval r) (b := tval s) s.futs.length
    (fun f _ hne => tval_of_view (U.viewO f hne)) ht
  omega

theorem M1_upd2_lt {s r : State} {t : Nat} {v' nv : FV} (U : Upd2 s r t v' nv) (ht : t < s.futs.length)
    (h : tval r t + tval r s.futs.length < tval s t) : M1 r < M1 s := by
  unfold M1
  rw [U.tops, U.len, rsum_succ]
  have := rsum_point (a := tval r) (b := tval s) s.futs.length
    (fun f hf hne => tval_of_view (U.viewO f hne (Nat.ne_of_lt hf))) ht
  omega

theorem wsum_cons (v : FV) : 0 < wsum v := by
  unfold wsum
  have := bsize_pos v.body
  omega

/-- every instruction of a task body decreases `M1` -/
theorem M1_gen {s r : State} (hA : InvA s) {t : Nat} {old : Option Nat} {rest : List Ctl}
    (hctl0 : s.ctl = .gen t old :: rest) (d : GenDesc s r t)
    (hsame : SameRun s r t → (view s t).pending = true ∧ (view s t).started = false) : M1 r < M1 s := by
  obtain ⟨hgk, hgo, _⟩ := hA.gen t old rest hctl0
  have ht : t < s.futs.length := lt_of_view_task s t hgk
  have hvs : tval s t = tw (view s t) := tval_task hgk hgo
  cases d with
  | loc v' hu hctl hkind hout hflag hown hinh hprev hpend hstart hdeps hok hbs =>
    have hs' : v'.started = true := by
      rcases hstart with h1 | ⟨h1, h2⟩
      · exact h1
      · rw [h2]; exact hA.sOfR t h1
    refine M1_upd1_lt hu.toS ht ?_
    have hvr : tval r t = tw v' := by
      have := tval_task (s := r) (f := t) (by rw [hu.viewT, hkind]; exact hgk) (by rw [hu.viewT, hout]; exact hgo)
      rw [this, hu.viewT]
    rw [hvr, hvs]
    have htw' : tw v' = 2 * wsum v' + 1 := by
      unfold tw; rw [hs', hpend]; simp
    rw [htw']
    have key : wsum v' < wsum (view s t) → 2 * wsum v' + 1 < tw (view s t) := by
      intro h; unfold tw; split <;> (try split) <;> omega
    cases hbs with
    | same hb hc =>
      have hsr : SameRun s r t := by
        rw [SameRun, hu.viewT]; exact ⟨hb, hc, hpend, hout.trans hgo⟩
      obtain ⟨h1, h2⟩ := hsame hsr
      have : wsum v' = wsum (view s t) := by unfold wsum; rw [hb, hc]
      unfold tw
      rw [h2, this]; simp
    | yld y k h hb hb' hc =>
      apply key
      unfold wsum
      rw [hc, hb]
      rcases hb' with e | e <;> rw [e] <;> simp [bsize] <;> omega
    | reyld k h hb hb' hc =>
      apply key
      unfold wsum
      rw [hc, hb]
      rcases hb' with e | e <;> rw [e] <;> simp [bsize] <;> omega
    | withCtx c b k cid hb hb' hc =>
      apply key
      unfold wsum
      rw [hc, hb, hb']
      simp [bsize]; omega
    | endwith cid k rest' hb hc0 hb' hc =>
      apply key
      unfold wsum
      rw [hc, hb, hb', hc0]
      simp [bsize]
    | read var k hb hb' hc =>
      apply key
      unfold wsum
      rw [hc, hb, hb']
      simp [bsize]
    | active k hb hb' hc =>
      apply key
      unfold wsum
      rw [hc, hb, hb']
      simp [bsize]
  | spawn child k pass hb hp hu hctl hbat hokc hokk =>
    have hst := hA.sOfR t hp
    refine M1_upd2_lt hu ht ?_
    have h1 : tval r t = tw (ownView (view s t) s.futs.length k) := by
      have := tval_task (s := r) (f := t) (by rw [hu.viewT]; exact hgk) (by rw [hu.viewT]; exact hgo)
      rw [this, hu.viewT]
    have h2 : tval r s.futs.length = tw (taskView child (pass.map (s.task t).resolve)) := by
      have := tval_task (s := r) (f := s.futs.length) (by rw [hu.viewN]; rfl) (by rw [hu.viewN]; rfl)
      rw [this, hu.viewN]
    rw [h1, h2, hvs]
    unfold tw wsum ownView taskView
    simp only [hst, hp, hb, bsize]
    simp
    omega
  | item kind payload mode k seq hb hp hu hctl hbat hokk =>
    have hst := hA.sOfR t hp
    refine M1_upd2_lt hu ht ?_
    have h1 : tval r t = tw (ownView (view s t) s.futs.length k) := by
      have := tval_task (s := r) (f := t) (by rw [hu.viewT]; exact hgk) (by rw [hu.viewT]; exact hgo)
      rw [this, hu.viewT]
    have h2 : tval r s.futs.length = 0 := tval_nontask (by rw [hu.viewN]; simp [plainView])
    rw [h1, h2, hvs]
    unfold tw wsum ownView
    simp only [hst, hp, hb, bsize]
    simp
  | other k kd out hb hp hu hctl hbat hokk hkd =>
    have hst := hA.sOfR t hp
    refine M1_upd2_lt hu ht ?_
    have h1 : tval r t = tw (ownView (view s t) s.futs.length k) := by
      have := tval_task (s := r) (f := t) (by rw [hu.viewT]; exact hgk) (by rw [hu.viewT]; exact hgo)
      rw [this, hu.viewT]
    have h2 : tval r s.futs.length = 0 := by
      apply tval_nontask
      rw [hu.viewN]
      rcases hkd with ⟨e, _⟩ | ⟨e, _⟩ | ⟨⟨o, e⟩, _⟩ <;> rw [e] <;> simp [plainView]
    rw [h1, h2, hvs]
    have hbk : bsize (view s t).body = 1 + bsize k := by
      rcases hb with ⟨a, e⟩ | ⟨a, e⟩ | ⟨a, e⟩ <;> rw [e] <;> simp [bsize]
    unfold tw wsum ownView
    simp only [hst, hp, hbk]
    simp
  | yield ry npy nd leave hp hsrc hdeps hleave hu hctl =>
    have hst := hA.sOfR t hp
    refine M1_upd1_lt hu.toS ht ?_
    have h1 : tval r t = tw (yieldView (view s t) nd npy leave) := by
      have := tval_task (s := r) (f := t) (by rw [hu.viewT]; exact hgk) (by rw [hu.viewT]; exact hgo)
      rw [this, hu.viewT]
    rw [h1, hvs]
    unfold tw wsum yieldView
    simp only [hst, hp]
    simp
  | finish o hp hu hctl =>
    have hst := hA.sOfR t hp
    refine M1_upd1_lt hu.toS ht ?_
    have h1 : tval r t = 0 := tval_computed (by rw [hu.viewT]; simp [finishView])
    rw [h1, hvs]
    unfold tw
    simp only [hst, hp]
    simp

/-- no step increases `M1` (generator steps are covered by `M1_gen`) -/
theorem M1_le {s r : State} (hA : InvA s) (d : Desc s r)
    (hsame : ∀ t old rest, s.ctl = .gen t old :: rest → SameRun s r t →
      (view s t).pending = true ∧ (view s t).started = false) : M1 r ≤ M1 s := by
  cases d with
  | quiet e _ _ => exact Nat.le_of_eq (M1_same e)
  | top conv body rest htops hctl0 U htops' hctl =>
    unfold M1
    rw [htops', htops, U.len, rsum_succ]
    have h1 : rsum (tval r) s.futs.length = rsum (tval s) s.futs.length :=
      rsum_congr _ (fun f hf => tval_of_view (U.viewO f (Nat.ne_of_lt hf)))
    have h2 : tval r s.futs.length = 2 * bsize body + 2 := by
      have := tval_task (s := r) (f := s.futs.length) (by rw [U.viewN]; rfl) (by rw [U.viewN]; rfl)
      rw [this, U.viewN]
      simp [tw, wsum, taskView]
    rw [h1, h2]
    simp [topsW]
    omega
  | ret _ _ _ e _ _ => exact Nat.le_of_eq (M1_same e)
  | enterLoop _ _ _ _ e _ _ => exact Nat.le_of_eq (M1_same e)
  | pop _ _ _ _ _ e _ _ => exact Nat.le_of_eq (M1_same e)
  | popLazy _ top st _ lo hk _ U _ _ =>
    refine M1_upd1_le U ?_
    rw [tval_nontask (s := s) (by rw [hk]; simp)]
    rw [tval_nontask (s := r) (by rw [U.viewT]; show (view s top).kind ≠ _; rw [hk]; simp)]
    exact Nat.le_refl _
  | second _ top st _ _ _ _ _ U _ _ =>
    refine M1_upd1_le U (Nat.le_of_eq ?_)
    unfold tval; rw [U.viewT]; rfl
  | first _ top st _ _ _ _ _ U _ _ =>
    refine M1_upd1_le U (Nat.le_of_eq ?_)
    unfold tval; rw [U.viewT]; rfl
  | enterGen _ _ _ _ _ _ _ e _ _ _ => exact Nat.le_of_eq (M1_same e)
  | gen t old rest hctl0 d => exact Nat.le_of_lt (M1_gen hA hctl0 d (hsame t old rest hctl0))
  | flush _ _ _ _ _ _ F _ =>
    unfold M1
    rw [F.tops, F.len]
    apply Nat.add_le_add_left
    apply rsum_le
    intro f _
    rcases F.view f with e | ⟨_, o, e⟩
    · exact Nat.le_of_eq (tval_of_view e)
    · rw [tval_computed (s := r) (by rw [e]; simp [doneView])]
      exact Nat.zero_le _

/-- the start of a top-level computation decreases `M1` -/
theorem M1_top {s r : State} {conv : Conv} {body : Body} {rest : List (Conv × Body)}
    (htops : s.tops = (conv, body) :: rest) (U : UpdN s r (taskView body [])) (htops' : r.tops = rest) :
    M1 r < M1 s := by
  unfold M1
  rw [htops', htops, U.len, rsum_succ]
  have h1 : rsum (tval r) s.futs.length = rsum (tval s) s.futs.length :=
    rsum_congr _ (fun f hf => tval_of_view (U.viewO f (Nat.ne_of_lt hf)))
  have h2 : tval r s.futs.length = 2 * bsize body + 2 := by
    have := tval_task (s := r) (f := s.futs.length) (by rw [U.viewN]; rfl) (by rw [U.viewN]; rfl)
    rw [this, U.viewN]
    simp [tw, wsum, taskView]
  rw [h1, h2]
  simp [topsW]
  omega

/-! ### `M2` -/

def liveB (b : Batch) : Bool := !b.flushed && !b.items.isEmpty

def M2 (s : State) : Nat := s.batches.countP liveB

theorem countP_map_le {α : Type} (p : α → Bool) (g : α → α) (h : ∀ a, p (g a) = true → p a = true) :
    ∀ l : List α, (l.map g).countP p ≤ l.countP p
  | [] => Nat.le_refl _
  | a :: l => by
    rw [List.map_cons, List.countP_cons, List.countP_cons]
    have := countP_map_le p g h l
    by_cases hp : p (g a) = true
    · rw [if_pos hp, if_pos (h a hp)]; omega
    · rw [if_neg hp]; split <;> omega

theorem countP_map_lt {α : Type} (p : α → Bool) (g : α → α) (h : ∀ a, p (g a) = true → p a = true) :
    ∀ l : List α, (∃ a ∈ l, p a = true ∧ p (g a) = false) → (l.map g).countP p < l.countP p
  | [], ⟨a, ha, _⟩ => by cases ha
  | a :: l, ⟨x, hx, hpx, hgx⟩ => by
    rw [List.map_cons, List.countP_cons, List.countP_cons]
    rcases List.mem_cons.1 hx with e | e
    · subst e
      have := countP_map_le p g h l
      rw [if_pos hpx, if_neg (by rw [hgx]; simp)]; omega
    · have := countP_map_lt p g h l ⟨x, e, hpx, hgx⟩
      by_cases hp : p (g a) = true
      · rw [if_pos hp, if_pos (h a hp)]; omega
      · rw [if_neg hp]; split <;> omega

/-- flushing a non-empty unflushed batch decreases `M2` -/
theorem M2_flush {old new : List Batch} {k q : Nat} (h : FlushBatches old new k q) {b : Batch}
    (hb : old.find? (keyP k q) = some b) (hl : liveB b = true) : new.countP liveB < old.countP liveB := by
  obtain ⟨l1, g, hl1, hg, hnew⟩ := h
  have hcount : l1.countP liveB = old.countP liveB := by
    rcases hl1 with ⟨_, rfl⟩ | ⟨_, rfl⟩
    · simp [liveB]
    · rfl
  have hmem : b ∈ l1 := by
    have := List.mem_of_find?_eq_some hb
    rcases hl1 with ⟨_, rfl⟩ | ⟨_, rfl⟩
    · exact List.mem_append_left _ this
    · exact this
  have hkey := List.find?_some hb
  rw [hnew, ← hcount]
  apply countP_map_lt
  · intro a ha
    by_cases hka : (a.kind == k && a.seq == q) = true
    · rw [if_pos hka] at ha
      simp [liveB, (hg a).2.2] at ha
    · rw [if_neg hka] at ha; exact ha
  · refine ⟨b, hmem, hl, ?_⟩
    have hkb : (b.kind == k && b.seq == q) = true := hkey
    rw [if_pos hkb]
    simp [liveB, (hg b).2.2]

end AsynqModel.Core.P6T
