import AsynqModel.Proofs.Batching3
import AsynqModel.Proofs.Batching10
/-! helper lemmas for C11, part 4: from a good snapshot through `_compute` / `cancel` back to a good snapshot -/
namespace AsynqModel.Batching
set_option linter.unusedSimpArgs false

theorem ext_pushBatch (s : St) : Ext s s.pushBatch := by
  refine ⟨⟨rfl, rfl⟩, by simp, by simp, ?_, ?_⟩ <;> intros <;> simp

theorem switch_of_ne {s : St} {b : Nat} (h : s.active ≠ b) : switch s b = s := by simp [switch, h]

theorem switch_setBatchOut (s : St) (b : Nat) (o : Outc) (hb : b < s.batches.length) :
    switch (s.setBatchOut b o) b = (switch s b).setBatchOut b o := by
  by_cases h : s.active = b
  · simp only [switch, setBatchOut_active, h, if_true]
    simp only [St.pushBatch, St.setBatchOut, List.length_modify]
    rw [modify_append_left _ _ _ _ hb]
  · simp [switch, h]

/-- the invariant is established by `_try_switch_active_batch` on a pending batch of a good snapshot -/
theorem mid_start {s : St} {b0 : Nat} (hg : Good s) (hb : b0 < s.batches.length) (hp : s.bout b0 = none) :
    Mid s b0 (switch s b0).active (switch s b0) := by
  obtain ⟨ga, gp, gi, gb⟩ := hg
  unfold switch
  by_cases hc : s.active = b0
  · simp only [hc, if_true]
    refine ⟨ext_pushBatch s, rfl, by simp; omega, by simp, ?_, hb, ?_, ?_, ?_, by simpa using (gb b0 hb).2.1, hp,
      by simp, by simp [switch, hc], by simp [switch, hc], fun b _ h => by simpa using h⟩
    · simp only [pushBatch_active, pushBatch_bout]; simp [St.bout]
    · intro i hi
      simp only [pushBatch_items] at hi
      have ⟨x, y, z⟩ := gi i hi
      simp only [pushBatch_ibatch, pushBatch_len, pushBatch_bout, pushBatch_bitems, pushBatch_iout]
      refine ⟨by omega, fun h => ?_, fun _ h2 => z h2⟩
      rcases h with h | h
      · exact y h
      · exact y (by rw [h]; exact hp)
    · intro b hb' i hi
      simp only [pushBatch_len] at hb'
      simp only [pushBatch_bitems] at hi
      simp only [pushBatch_items, pushBatch_ibatch]
      by_cases hlt : b < s.batches.length
      · exact (gb b hlt).1 i hi
      · simp [St.bitems, List.getElem?_eq_none_iff.mpr (Nat.le_of_not_lt hlt)] at hi
    · intro b hb' _
      simp only [pushBatch_len] at hb'
      simp only [pushBatch_runs, pushBatch_bout]
      by_cases hlt : b < s.batches.length
      · exact (gb b hlt).2
      · simp [St.runs, List.getElem?_eq_none_iff.mpr (Nat.le_of_not_lt hlt)]
  · simp only [hc, if_false]
    refine ⟨Ext.refl s, rfl, hc, ga, gp, hb, ?_, ?_, ?_, (gb b0 hb).2.1, hp, rfl, by simp [switch, hc], by simp [switch, hc],
      fun b _ h => h⟩
    · intro i hi
      have ⟨x, y, z⟩ := gi i hi
      refine ⟨x, fun h => ?_, fun _ h2 => z h2⟩
      rcases h with h | h
      · exact y h
      · exact y (by rw [h]; exact hp)
    · intro b hb' i hi; exact (gb b hb').1 i hi
    · intro b hb' _; exact (gb b hb').2

/-- `self._value = None / self._error = error` of the batch being finished -/
theorem mid_setBatchOut {s0 b0 a s} (h : Mid s0 b0 a s) (o : Outc) (hp : s.bout b0 = none) :
    Mid s0 b0 a (s.setBatchOut b0 o) ∧ Ext s (s.setBatchOut b0 o) := by
  have hb0 := h.b0lt
  have hane := h.ane
  have he : Ext s (s.setBatchOut b0 o) := by
    refine ⟨⟨rfl, rfl⟩, by simp, by simp, ?_, ?_⟩
    · intro b _
      simp only [setBatchOut_runs, setBatchOut_bout, Nat.le_refl, and_true]
      intro hs
      have : ¬ b = b0 := by intro e; subst e; simp [hp] at hs
      simp [this]
    · intro i _; simp
  refine ⟨⟨h.ext.trans he, h.act, h.ane, by simpa using h.alt, ?_, h.blt, ?_, ?_, ?_, by simpa using h.runs0, h.pre0,
    by simpa using h.bi0, by simpa using h.nb, h.aeq,
    fun b hne h0 => by simpa [setBatchOut_bout, hne] using h.oth b hne h0⟩, he⟩
  · simp [setBatchOut_bout, hane, h.apend]
  · intro i hi
    simp only [setBatchOut_items] at hi
    have ⟨x, y, z⟩ := h.itm i hi
    simp only [setBatchOut_ibatch, setBatchOut_len, setBatchOut_bout, setBatchOut_bitems, setBatchOut_iout]
    refine ⟨x, fun hh => ?_, fun h1 h2 => ?_⟩
    · by_cases e : s.ibatch i = b0
      · exact y (Or.inr e)
      · simp [e] at hh; exact y (Or.inl hh)
    · simp [h1] at h2; exact z h1 h2
  · intro b hb' i hi
    simpa using h.mem b (by simpa using hb') i (by simpa using hi)
  · intro b hb' hne
    simpa [setBatchOut_bout, hne] using h.runs b (by simpa using hb') hne

/-- `self.flush_count += 1` of the harness-written `_flush` -/
theorem mid_incRuns {s0 b0 a s} (h : Mid s0 b0 a s) (hr : s.runs b0 = 0) :
    Mid s0 b0 a (s.incRuns b0) ∧ (s.incRuns b0).runs b0 = 1 := by
  have hb0 := h.b0lt
  have he : Ext s (s.incRuns b0) := by
    refine ⟨⟨rfl, rfl⟩, by simp, by simp, ?_, ?_⟩
    · intro b _
      simp only [incRuns_bout, incRuns_runs, implies_true, true_and]
      split <;> omega
    · intro i _; simp
  refine ⟨⟨h.ext.trans he, h.act, h.ane, by simpa using h.alt, by simpa using h.apend, h.blt, ?_, ?_, ?_, ?_, h.pre0,
    by simpa using h.bi0, by simpa using h.nb, h.aeq, by simpa using h.oth⟩, ?_⟩
  · intro i hi; simpa using h.itm i (by simpa using hi)
  · intro b hb' i hi
    simpa using h.mem b (by simpa using hb') i (by simpa using hi)
  · intro b hb' hne
    simpa [incRuns_runs, hne] using h.runs b (by simpa using hb') hne
  · simp [incRuns_runs, hb0, hr]
  · simp [incRuns_runs, hb0, hr]

theorem pendingOf_nil (s : St) (b : Nat)
    (h : ∀ i, i < s.items.length → s.ibatch i = b → (s.iout i).isSome) : s.pendingOf b = [] := by
  unfold St.pendingOf
  rw [List.filter_eq_nil_iff]
  intro i hi
  have hi' : i < s.items.length := List.mem_range.mp hi
  have e : s.items[i]? = some s.items[i] := List.getElem?_eq_getElem hi'
  have := h i hi'
  simp only [St.ibatch, St.iout, e, Option.bind_some] at this
  simp only [e]
  intro hc
  simp at hc
  have := this hc.1
  simp [hc.2] at this

/-- the result of finishing batch `b0`: final state, log.  `e0` = what was logged before `BatchBase._computed`
    started its work (the flush body's part); the rest is the completions of the leftover items - each with the
    outcome `leftoverOutc o` when the library does it - and, last of all, the announcement -/
structure FinA (s0 : St) (b0 a : Nat) (o : Outc) (e0 : List Ev) (r : St × List Ev) : Prop where
  mid : Mid s0 b0 a r.1
  out : r.1.bout b0 = some o
  all : ∀ i, i < r.1.items.length → r.1.ibatch i = b0 → (r.1.iout i).isSome
  evs : ∀ ev ∈ r.2, EvOK s0 b0 a r.1 ev
  shape : ∃ L, r.2 = e0 ++ (L ++ [.announce b0 [] a]) ∧ (∀ ev ∈ L, ev.isPlain = true) ∧ LibIs (leftoverOutc o) L
  law : Law s0 r.1 r.2

/-- ... with the final value `n` of the run counter of `b0` -/
def Fin (s0 : St) (b0 : Nat) (o : Outc) (n : Nat) (e0 : List Ev) (r : St × List Ev) : Prop :=
  (∃ a, FinA s0 b0 a o e0 r) ∧ r.1.runs b0 = n

/-- `BatchBase._computed` after the outcome is stored and the active batch switched -/
theorem tail_spec {s0 b0 a s2} (o : Outc) (e0 : List Ev) (hM : Mid s0 b0 a s2) (hbo : s2.bout b0 = some o)
    (hv : ∀ v, o = .val v → s2.kind = .user ∨ ∀ i ∈ s2.bitems b0, (s2.iout i).isSome)
    (he0 : ∀ ev ∈ e0, EvOK s0 b0 a s2 ev) (hl0 : Law s0 s2 e0) (io : Outc)
    (hio : io = leftoverOutc o) :
    Fin s0 b0 o (s2.runs b0) e0 ((leftovers io (s2.bitems b0) s2).1,
      e0 ++ ((leftovers io (s2.bitems b0) s2).2 ++
        [.announce b0 ((leftovers io (s2.bitems b0) s2).1.pendingOf b0) (leftovers io (s2.bitems b0) s2).1.active])) := by
  have key : Steps s0 b0 a s2 (leftovers io (s2.bitems b0) s2) ∧
      ∀ i ∈ s2.bitems b0, ((leftovers io (s2.bitems b0) s2).1.iout i).isSome := by
    subst hio
    cases o with
    | err e =>
      exact leftovers_spec _ _ s2 hM (fun _ h => h) (Or.inl ⟨e, rfl, hbo⟩)
    | val v =>
      rcases hv v rfl with hk | hall
      · exact leftovers_spec _ _ s2 hM (fun _ h => h) (Or.inr ⟨rfl, hk, v, hbo⟩)
      · rw [leftovers_allset _ _ _ hall]
        exact ⟨Steps.nil hM, hall⟩
  obtain ⟨st, hall⟩ := key
  have hout : (leftovers io (s2.bitems b0) s2).1.bout b0 = some o := by rw [st.next.bo]; exact hbo
  have hallb : ∀ i, i < (leftovers io (s2.bitems b0) s2).1.items.length →
      (leftovers io (s2.bitems b0) s2).1.ibatch i = b0 → ((leftovers io (s2.bitems b0) s2).1.iout i).isSome := by
    intro i hi hb
    have := (st.next.mid.itm i hi).2.1 (Or.inr hb)
    rw [hb, st.next.bi] at this
    exact hall i this
  refine ⟨⟨a, st.next.mid, hout, hallb, ?_, ?_, ?_⟩, st.next.ru⟩
  · intro ev hev
    simp only [List.mem_append, List.mem_singleton] at hev
    rcases hev with hev | hev | hev
    · exact evok_mono st.next.ext hM.b0lt ev (he0 ev hev)
    · exact st.evs ev hev
    · subst hev
      exact ⟨rfl, pendingOf_nil _ _ hallb, st.next.mid.act, by simp [hout]⟩
  · refine ⟨(leftovers io (s2.bitems b0) s2).2, ?_, st.plain, ?_⟩
    · rw [pendingOf_nil _ _ hallb, st.next.mid.act]
    · rw [← hio]; exact leftovers_libIs io _ s2
  · rw [← List.append_assoc]
    exact Law.snoc_other _ rfl (hl0.append st.law hM.ext st.next.ext)

/-- `set_value(None)` / `set_error(e)` on the batch being finished, inside `_compute` (the slot is switched already) -/
theorem completeBatch_mid {s0 b0 a s} (o : Outc) (e0 : List Ev) (hM : Mid s0 b0 a s) (hp : s.bout b0 = none)
    (hv : ∀ v, o = .val v → s.kind = .user ∨ ∀ i ∈ s.bitems b0, (s.iout i).isSome)
    (he0 : ∀ ev ∈ e0, EvOK s0 b0 a s ev) (hl0 : Law s0 s e0) :
    Fin s0 b0 o (s.runs b0) e0 ((completeBatch s b0 o).1, e0 ++ (completeBatch s b0 o).2) := by
  have ⟨hM2, hE2⟩ := mid_setBatchOut hM o hp
  have hsw : switch (s.setBatchOut b0 o) b0 = s.setBatchOut b0 o :=
    switch_of_ne (by rw [setBatchOut_active, hM.act]; exact hM.ane)
  unfold completeBatch
  simp only [hsw]
  have hl1 : Law s0 (s.setBatchOut b0 o) e0 := by
    have := hl0.append (Law.silent (s := s) (t := s.setBatchOut b0 o) (fun _ => rfl) rfl) hM.ext hE2
    simpa using this
  have := tail_spec o e0 hM2 (by simp [setBatchOut_bout, hM.b0lt]) (by simpa using hv)
    (fun ev hev => evok_mono hE2 hM.b0lt ev (he0 ev hev)) hl1 _ rfl
  simpa using this

theorem switch_iout (s : St) (b i : Nat) : (switch s b).iout i = s.iout i := by
  unfold switch; split <;> rfl
theorem switch_items (s : St) (b : Nat) : (switch s b).items = s.items := by
  unfold switch; split <;> rfl

/-- `cancel(error)` of a pending batch of a good snapshot -/
theorem cancel_fin {s : St} {b0 : Nat} (x : Err) (hg : Good s) (hb : b0 < s.batches.length) (hp : s.bout b0 = none) :
    Fin s b0 (.err x) 0 [] (completeBatch s b0 (.err x)) := by
  have hM := mid_start hg hb hp
  have hp' : (switch s b0).bout b0 = none := by
    unfold switch; split
    · simpa using hp
    · exact hp
  have ⟨hM2, _⟩ := mid_setBatchOut hM (.err x) hp'
  have hr0 : ((switch s b0).setBatchOut b0 (.err x)).runs b0 = 0 := by
    have : s.runs b0 = 0 := (hg.2.2.2 b0 hb).2.2 hp
    simp only [setBatchOut_runs]
    unfold switch; split
    · simpa using this
    · exact this
  unfold completeBatch
  simp only [switch_setBatchOut s b0 (.err x) hb]
  have hbo : ((switch s b0).setBatchOut b0 (.err x)).bout b0 = some (.err x) := by
    simp [setBatchOut_bout, hM.b0lt]
  have hl : Law s ((switch s b0).setBatchOut b0 (.err x)) [] :=
    Law.silent (fun i => by simp [switch_iout]) (by simp [switch_items])
  have f := tail_spec (.err x) [] hM2 hbo (fun v hv => by cases hv) (by simp) hl _ rfl
  simp only [List.nil_append, hr0] at f
  exact f

/-- what the flush body's part of the log looks like, and what it means for the batch's outcome `o`:
    user subclass - the body starts first, logs only completions and creations, ends raising `r` (or returning)
    while the batch is still pending, and `o` is what `_compute` makes of `r`;
    DebugBatch - only completions and creations, and `o` is None or FutureIsAlreadyComputed -/
def BodyPart (k : Kind) (a b0 : Nat) (o : Outc) (e0 : List Ev) : Prop :=
  match k with
  | .user => ∃ e1 r, e0 = .body b0 a :: (e1 ++ [.bodyEnd b0 r none]) ∧ (∀ ev ∈ e1, ev.isPlain = true) ∧ o = bodyOutc r
  | .debug => (∀ ev ∈ e0, ev.isPlain = true) ∧ (o = .val 0 ∨ o = .err .already)

theorem debug_cause_aux {s : St} {b0 : Nat} (hM : Mid s b0 (switch s b0).active (switch s b0))
    (hkd : (switch s b0).kind = .debug)
    (ho : bodyOutc (debugFlush ((switch s b0).bitems b0) (switch s b0)).2.2 = .err .already) :
    alreadyCause s b0 (debugFlush ((switch s b0).bitems b0) (switch s b0)).2.1 = true := by
  have hr : (debugFlush ((switch s b0).bitems b0) (switch s b0)).2.2 = some .already := by
    cases hx : (debugFlush ((switch s b0).bitems b0) (switch s b0)).2.2 with
    | none => rw [hx] at ho; simp [bodyOutc] at ho
    | some z => rw [hx] at ho; simp only [bodyOutc, Outc.err.injEq] at ho; rw [ho]
  have hc := debugFlush_cause ((switch s b0).bitems b0) (switch s b0) hM hkd (fun _ h => h) hr
  unfold alreadyCause
  rcases hc with ⟨i, hi, hs⟩ | hany | hd
  · have : (s.bitems b0).any (fun i => (s.iout i).isSome) = true := by
      rw [List.any_eq_true]; exact ⟨i, by rw [← hM.bi0]; exact hi, by rw [switch_iout] at hs; exact hs⟩
    simp [this]
  · simp [hany]
  · rw [hM.bi0] at hd; simp [hd]

/-- two more facts about the body's part of the log: a scripted body logs no completion by the library before it
    ends; a DebugBatch body that raises FutureIsAlreadyComputed has a cause -/
def BodyExtra (s : St) (b0 : Nat) (o : Outc) (e0 : List Ev) : Prop :=
  (s.kind = .user → ∀ rest, libBeforeEnd (e0 ++ rest) = false) ∧
  (s.kind = .debug → o = .err .already → alreadyCause s b0 e0 = true)

/-- `_compute` of a pending batch of a good snapshot -/
theorem compute_fin (scripts : List Script) {s : St} {b0 : Nat} (hg : Good s) (hb : b0 < s.batches.length)
    (hp : s.bout b0 = none) :
    ∃ o e0, Fin s b0 o (if s.kind = .user then 1 else 0) e0 (compute scripts s b0) ∧
      BodyPart s.kind (switch s b0).active b0 o e0 ∧ BodyExtra s b0 o e0 := by
  have hM := mid_start hg hb hp
  have hp' : (switch s b0).bout b0 = none := by
    unfold switch; split
    · simpa using hp
    · exact hp
  have hr0 : (switch s b0).runs b0 = 0 := by
    have : s.runs b0 = 0 := (hg.2.2.2 b0 hb).2.2 hp
    unfold switch; split
    · simpa using this
    · exact this
  have hkind : (switch s b0).kind = s.kind := by unfold switch; split <;> rfl
  have hlsw : Law s (switch s b0) [] := Law.silent (fun i => switch_iout s b0 i) (by rw [switch_items])
  unfold compute
  cases hk : s.kind with
  | user =>
    simp only
    have ⟨hM1, hr1⟩ := mid_incRuns hM hr0
    have st := runScript_spec (scripts.getD b0 []) _ hM1
    have hp3 : (runScript b0 (scripts.getD b0 []) ((switch s b0).incRuns b0)).1.bout b0 = none := by
      rw [st.next.bo]; simpa using hp'
    have hk3 : (runScript b0 (scripts.getD b0 []) ((switch s b0).incRuns b0)).1.kind = .user := by
      rw [← st.next.ext.1.1]; simpa [hkind] using hk
    simp only [hp3, Option.isSome_none, Bool.false_eq_true, if_false]
    have hl1 : Law s ((switch s b0).incRuns b0) [] :=
      Law.silent (fun i => by simp [switch_iout]) (by simp [switch_items])
    have hl3 : Law s (runScript b0 (scripts.getD b0 []) ((switch s b0).incRuns b0)).1
        (Ev.body b0 (switch s b0).active ::
          ((runScript b0 (scripts.getD b0 []) ((switch s b0).incRuns b0)).2.1 ++
            [Ev.bodyEnd b0 (runScript b0 (scripts.getD b0 []) ((switch s b0).incRuns b0)).2.2 none])) := by
      have := hl1.append st.law hM1.ext st.next.ext
      simp only [List.nil_append] at this
      exact Law.cons_other _ rfl (Law.snoc_other _ rfl this)
    have f := completeBatch_mid (bodyOutc (runScript b0 (scripts.getD b0 []) ((switch s b0).incRuns b0)).2.2)
      (Ev.body b0 (switch s b0).active ::
          ((runScript b0 (scripts.getD b0 []) ((switch s b0).incRuns b0)).2.1 ++
            [Ev.bodyEnd b0 (runScript b0 (scripts.getD b0 []) ((switch s b0).incRuns b0)).2.2 none]))
      st.next.mid hp3 (fun _ _ => Or.inl hk3)
      (by
        intro ev hev
        simp only [List.mem_cons, List.mem_append, List.not_mem_nil, or_false] at hev
        rcases hev with hev | hev | hev
        · subst hev; exact ⟨rfl, rfl⟩
        · exact st.evs ev hev
        · subst hev; trivial)
      hl3
    rw [st.next.ru, hr1] at f
    refine ⟨_, _, by simpa using f, ⟨_, _, rfl, st.plain, rfl⟩, ?_⟩
    unfold BodyExtra
    refine ⟨?_, fun hd => by rw [hk] at hd; cases hd⟩
    intro _ rest
    have := libBeforeEnd_of_noLib _ (runScript_noLib b0 (scripts.getD b0 []) ((switch s b0).incRuns b0)) st.plain b0
      (runScript b0 (scripts.getD b0 []) ((switch s b0).incRuns b0)).2.2 none rest
    simpa [libBeforeEnd, Ev.isBodyEnd, Ev.isLib] using this
  | debug =>
    simp only
    have hkd : (switch s b0).kind = .debug := by rw [hkind]; exact hk
    have ⟨st, hall⟩ := debugFlush_spec ((switch s b0).bitems b0) _ hM hkd (fun _ h => h)
    have hp3 : (debugFlush ((switch s b0).bitems b0) (switch s b0)).1.bout b0 = none := by
      rw [st.next.bo]; exact hp'
    simp only [hp3, Option.isSome_none, Bool.false_eq_true, if_false]
    have f := completeBatch_mid (bodyOutc (debugFlush ((switch s b0).bitems b0) (switch s b0)).2.2)
      (debugFlush ((switch s b0).bitems b0) (switch s b0)).2.1 st.next.mid hp3
      (by
        intro v hv
        right
        cases hr : (debugFlush ((switch s b0).bitems b0) (switch s b0)).2.2 with
        | some e => rw [hr] at hv; cases hv
        | none =>
          intro i hi
          rw [st.next.bi] at hi
          exact hall hr i hi)
      st.evs (by simpa using hlsw.append st.law hM.ext st.next.ext)
    rw [st.next.ru, hr0] at f
    refine ⟨_, _, by simpa using f, ⟨st.plain, ?_⟩, ?_⟩
    rotate_left
    · unfold BodyExtra
      refine ⟨fun hu => (by rw [hk] at hu; cases hu), fun _ ho => ?_⟩
      exact debug_cause_aux hM hkd ho
    · rcases debugFlush_res ((switch s b0).bitems b0) (switch s b0) with h | h <;> simp [h, bodyOutc]

end AsynqModel.Batching
