import AsynqModel.Lib.Asyncio
/-! helper lemmas for C15 -/
namespace AsynqModel.Asyncio
open AsynqModel.Core (Val)

@[simp] theorem emit_mode (s : St) (e : Ev) : (s.emit e).mode = s.mode := rfl
@[simp] theorem emit_log (s : St) (e : Ev) : (s.emit e).log = e :: s.log := rfl
@[simp] theorem exitMode_mode (tok : Bool) (s : St) : (exitMode tok s).mode = tok := rfl
@[simp] theorem exitMode_log (tok : Bool) (s : St) : (exitMode tok s).log = s.log := rfl
@[simp] theorem enterMode_fst (s : St) : (enterMode s).1 = s.mode := rfl
@[simp] theorem enterMode_mode (s : St) : (enterMode s).2.mode = true := rfl
@[simp] theorem enterMode_log (s : St) : (enterMode s).2.log = s.log := rfl
@[simp] theorem refusal_isBase (c : Call) : (refusal c).isBase = false := rfl
@[simp] theorem syncStart_mode (c : Call) (s : St) : (syncStart c s).mode = s.mode := by
  unfold syncStart; cases c.sfn <;> rfl
theorem syncStart_log (c : Call) (s : St) :
    (syncStart c s).log = (if c.sfn then [Ev.start c.label s.mode, Ev.sfn c.label] else [Ev.start c.label s.mode]) ++ s.log := by
  unfold syncStart; cases c.sfn <;> rfl

/-! ### the flag is restored by every evaluator (asynq side: never touched) -/

mutual
theorem bodyR_mode : ∀ (p : Prog) (gen : Bool) (t : Nat) (env : List Val) (caught : Option Err) (i : Nat) (s : St),
    (bodyR gen t env caught i p s).2.mode = s.mode
  | .ret _, _, _, _, _, _, _ => by simp [bodyR]
  | .res _, _, _, _, _, _, _ => by simp [bodyR]
  | .raise _, _, _, _, _, _, _ => by simp [bodyR]
  | .raiseB _, _, _, _, _, _, _ => by simp [bodyR]
  | .reraise, _, _, _, _, _, _ => by simp [bodyR]
  | .yld hb y k h, gen, t, env, caught, i, s => by
    unfold bodyR
    cases gen
    · simp
    · have hy := ysR_mode y s
      rcases hys : ysR y s with ⟨r, s1⟩
      rw [hys] at hy
      cases r with
      | ok v => simp; rw [bodyR_mode k]; simpa using hy
      | err e =>
        simp only [Bool.not_true, Bool.false_eq_true, if_false]
        split
        · simpa using hy
        · rw [bodyR_mode h]; simpa using hy
      | esc v => simpa using hy
  | .sync c child k h, gen, t, env, caught, i, s => by
    unfold bodyR
    cases hm : s.mode
    · have hc := bodyR_mode child c.kind.isGen c.label [] none 0 (syncStart c s)
      rcases hcs : bodyR c.kind.isGen c.label [] none 0 child (syncStart c s) with ⟨r, s1⟩
      rw [hcs] at hc
      cases r with
      | ok v => simp; rw [bodyR_mode k]; simpa [hm] using hc
      | err e =>
        simp only [Bool.false_eq_true, if_false]
        split
        · simpa [hm] using hc
        · rw [bodyR_mode h]; simpa [hm] using hc
      | esc v => simpa [hm] using hc
    · simp
      rw [bodyR_mode h]; simp [hm]
theorem ysR_mode : ∀ (y : Ys) (s : St), (ysR y s).2.mode = s.mode
  | .none, s => by simp [ysR]
  | .junk, s => by simp [ysR]
  | .const _, s => by simp [ysR]
  | .pconst _, s => by simp [ysR]
  | .task c p, s => by
    unfold ysR
    cases hm : s.mode
    · simp; rw [bodyR_mode p]; simp [hm]
    · simp [hm]
  | .tup l, s => by simp [ysR]; exact yslR_mode l s
  | .lst l, s => by simp [ysR]; exact yslR_mode l s
  | .dict _ l, s => by simp [ysR]; exact yslR_mode l s
  | .sub _, s => by simp [ysR]
  | .pval y, s => by simp only [ysR]; exact ysR_mode y s
  | .ofut b _, s => by cases b <;> simp [ysR]
  | .gco y, s => by simp only [ysR]; exact ysR_mode y s
theorem yslR_mode : ∀ (l : YsL) (s : St), (yslR l s).2.mode = s.mode
  | .nil, s => by simp [yslR]
  | .cons y l, s => by
    simp [yslR]
    rw [yslR_mode l, ysR_mode y]
end

theorem callA_mode (c : Call) (run : Bool → St → Out × St) (s : St) : (callA c run s).2.mode = s.mode := by
  unfold callA
  cases c.afn <;> cases c.kind <;> simp

mutual
theorem bodyA_mode : ∀ (p : Prog) (gen : Bool) (t : Nat) (env : List Val) (caught : Option Err) (i : Nat) (s : St),
    (bodyA gen t env caught i p s).2.mode = s.mode
  | .ret _, _, _, _, _, _, _ => by simp [bodyA]
  | .res _, _, _, _, _, _, _ => by simp [bodyA]
  | .raise _, _, _, _, _, _, _ => by simp [bodyA]
  | .raiseB _, _, _, _, _, _, _ => by simp [bodyA]
  | .reraise, _, _, _, _, _, _ => by simp [bodyA]
  | .yld hb y k h, gen, t, env, caught, i, s => by
    unfold bodyA
    cases gen
    · simp
    · have hy := resolveA_mode y s
      rcases hys : resolveA y s with ⟨r, s1⟩
      rw [hys] at hy
      cases r with
      | ok v => simp; rw [bodyA_mode k]; simpa using hy
      | err e =>
        simp only [Bool.not_true, Bool.false_eq_true, if_false]
        split
        · simpa using hy
        · rw [bodyA_mode h]; simpa using hy
      | esc v => simpa using hy
  | .sync c child k h, gen, t, env, caught, i, s => by
    unfold bodyA
    cases hm : s.mode
    · have hc := bodyR_mode child c.kind.isGen c.label [] none 0 (syncStart c s)
      rcases hcs : bodyR c.kind.isGen c.label [] none 0 child (syncStart c s) with ⟨r, s1⟩
      rw [hcs] at hc
      cases r with
      | ok v => simp; rw [bodyA_mode k]; simpa [hm] using hc
      | err e =>
        simp only [Bool.false_eq_true, if_false]
        split
        · simpa [hm] using hc
        · rw [bodyA_mode h]; simpa [hm] using hc
      | esc v => simpa [hm] using hc
    · simp
      rw [bodyA_mode h]; simp [hm]
theorem resolveA_mode : ∀ (y : Ys) (s : St), (resolveA y s).2.mode = s.mode
  | .none, s => by simp [resolveA]
  | .junk, s => by simp [resolveA]
  | .const _, s => by simp [resolveA]
  | .pconst _, s => by
    unfold resolveA
    cases hm : s.mode <;> simp [hm]
  | .task c p, s => by
    unfold resolveA
    cases hm : s.mode
    · simp [hm]
    · simp [callA_mode, hm]
  | .tup l, s => by simp [resolveA]; exact gatherA_mode l s
  | .lst l, s => by simp [resolveA]; exact gatherA_mode l s
  | .dict _ l, s => by simp [resolveA]; exact gatherA_mode l s
  | .sub y, s => by simp only [resolveA]; exact resolveA_mode y s
  | .pval y, s => by
    unfold resolveA
    cases hm : s.mode
    · simp only [Bool.false_eq_true, if_false]; rw [resolveA_mode y s, hm]
    · simp [hm]
  | .ofut b _, s => by cases b <;> simp [resolveA]
  | .gco y, s => by simp only [resolveA]; exact resolveA_mode y s
theorem gatherA_mode : ∀ (l : YsL) (s : St), (gatherA l s).2.mode = s.mode
  | .nil, s => by simp [gatherA]
  | .cons y l, s => by
    simp [gatherA]
    rw [gatherA_mode l]
end

/-! ### a program that raises no BaseException-only error never produces one -/

def Out.noB : Out → Bool
  | .err e => !e.isBase
  | _ => true

def OutL.noB : OutL → Bool
  | .err e => !e.isBase
  | _ => true

theorem combine_noB {a : Out} {b : OutL} (ha : a.noB = true) (hb : b.noB = true) : (combine a b).noB = true := by
  cases a <;> cases b <;> simp_all [combine, Out.noB, OutL.noB]

theorem wrap_noB {r : OutL} (f : List Val → Val) (h : r.noB = true) : (r.wrap f).noB = true := by
  cases r <;> simp_all [OutL.wrap, Out.noB, OutL.noB]

mutual
theorem bodyR_noB : ∀ (p : Prog) (gen : Bool) (t : Nat) (env : List Val) (caught : Option Err) (i : Nat) (s : St),
    p.noRaiseB = true → (caught.getD (.u 0)).isBase = false → (bodyR gen t env caught i p s).1.noB = true
  | .ret _, _, _, _, _, _, _, _, _ => by simp [bodyR, Out.noB]
  | .res _, _, _, _, _, _, _, _, _ => by simp [bodyR, Out.noB]
  | .raise _, _, _, _, _, _, _, _, _ => by simp [bodyR, Out.noB, Err.isBase]
  | .raiseB _, _, _, _, _, _, _, hb, _ => by simp [Prog.noRaiseB] at hb
  | .reraise, _, _, _, _, _, _, _, hc => by simp [bodyR, Out.noB, hc]
  | .yld hb y k h, gen, t, env, caught, i, s, hn, hc => by
    simp only [Prog.noRaiseB, Bool.and_eq_true] at hn
    unfold bodyR
    cases gen
    · simp [Out.noB, Err.isBase]
    · have hy := ysR_noB y s hn.1.1
      rcases hR : ysR y s with ⟨r, s1⟩
      rw [hR] at hy
      cases r with
      | ok v => simp; exact bodyR_noB k _ _ _ _ _ _ hn.1.2 hc
      | err e =>
        have he : e.isBase = false := by simpa [Out.noB] using hy
        simp only [Bool.not_true, Bool.false_eq_true, if_false, he, Bool.false_and]
        exact bodyR_noB h _ _ _ _ _ _ hn.2 (by simpa using he)
      | esc v => simp [Out.noB]
  | .sync c child k h, gen, t, env, caught, i, s, hn, hc => by
    simp only [Prog.noRaiseB, Bool.and_eq_true] at hn
    unfold bodyR
    cases hm : s.mode
    · have hy := bodyR_noB child c.kind.isGen c.label [] none 0 (syncStart c s) hn.1.1 rfl
      rcases hR : bodyR c.kind.isGen c.label [] none 0 child (syncStart c s) with ⟨r, s1⟩
      rw [hR] at hy
      cases r with
      | ok v => simp; exact bodyR_noB k _ _ _ _ _ _ hn.1.2 hc
      | err e =>
        have he : e.isBase = false := by simpa [Out.noB] using hy
        simp only [Bool.false_eq_true, if_false, he]
        exact bodyR_noB h _ _ _ _ _ _ hn.2 (by simpa using he)
      | esc v => simp [Out.noB]
    · simp
      exact bodyR_noB h _ _ _ _ _ _ hn.2 (by simp)
theorem ysR_noB : ∀ (y : Ys) (s : St), y.noRaiseB = true → (ysR y s).1.noB = true
  | .none, _, _ => by simp [ysR, Out.noB]
  | .junk, _, _ => by simp [ysR, Out.noB, Err.isBase]
  | .const _, _, _ => by simp [ysR, Out.noB]
  | .pconst _, _, _ => by simp [ysR, Out.noB]
  | .task c p, s, hn => by
    simp only [Ys.noRaiseB] at hn
    unfold ysR
    cases hm : s.mode
    · simp; exact bodyR_noB p _ _ _ _ _ _ hn rfl
    · simp [Out.noB, Err.isBase]
  | .tup l, s, hn => by simp only [Ys.noRaiseB] at hn; simp only [ysR]; exact wrap_noB _ (yslR_noB l s hn)
  | .lst l, s, hn => by simp only [Ys.noRaiseB] at hn; simp only [ysR]; exact wrap_noB _ (yslR_noB l s hn)
  | .dict _ l, s, hn => by simp only [Ys.noRaiseB] at hn; simp only [ysR]; exact wrap_noB _ (yslR_noB l s hn)
  | .sub _, _, _ => by simp [ysR, Out.noB, Err.isBase]
  | .pval y, s, hn => by simp only [Ys.noRaiseB] at hn; simp only [ysR]; exact ysR_noB y s hn
  | .ofut b _, _, _ => by cases b <;> simp [ysR, Out.noB, Err.isBase]
  | .gco y, s, hn => by simp only [Ys.noRaiseB] at hn; simp only [ysR]; exact ysR_noB y s hn
theorem yslR_noB : ∀ (l : YsL) (s : St), l.noRaiseB = true → (yslR l s).1.noB = true
  | .nil, _, _ => by simp [yslR, OutL.noB]
  | .cons y l, s, hn => by
    simp only [YsL.noRaiseB, Bool.and_eq_true] at hn
    simp only [yslR]
    exact combine_noB (ysR_noB y s hn.1) (yslR_noB l _ hn.2)
end

theorem callA_fst' (c : Call) (run : Bool → St → Out × St) (s : St) :
    ∃ st : St, (callA c run s).1 = (run c.kind.isGen st).1 := by
  unfold callA
  exact ⟨_, rfl⟩

mutual
theorem bodyA_noB : ∀ (p : Prog) (gen : Bool) (t : Nat) (env : List Val) (caught : Option Err) (i : Nat) (s : St),
    p.noRaiseB = true → (caught.getD (.u 0)).isBase = false → (bodyA gen t env caught i p s).1.noB = true
  | .ret _, _, _, _, _, _, _, _, _ => by simp [bodyA, Out.noB]
  | .res _, _, _, _, _, _, _, _, _ => by simp [bodyA, Out.noB]
  | .raise _, _, _, _, _, _, _, _, _ => by simp [bodyA, Out.noB, Err.isBase]
  | .raiseB _, _, _, _, _, _, _, hb, _ => by simp [Prog.noRaiseB] at hb
  | .reraise, _, _, _, _, _, _, _, hc => by simp [bodyA, Out.noB, hc]
  | .yld hb y k h, gen, t, env, caught, i, s, hn, hc => by
    simp only [Prog.noRaiseB, Bool.and_eq_true] at hn
    unfold bodyA
    cases gen
    · simp [Out.noB, Err.isBase]
    · have hy := resolveA_noB y s hn.1.1
      rcases hR : resolveA y s with ⟨r, s1⟩
      rw [hR] at hy
      cases r with
      | ok v => simp; exact bodyA_noB k _ _ _ _ _ _ hn.1.2 hc
      | err e =>
        have he : e.isBase = false := by simpa [Out.noB] using hy
        simp only [Bool.not_true, Bool.false_eq_true, if_false, he]
        exact bodyA_noB h _ _ _ _ _ _ hn.2 (by simpa using he)
      | esc v => simp [Out.noB]
  | .sync c child k h, gen, t, env, caught, i, s, hn, hc => by
    simp only [Prog.noRaiseB, Bool.and_eq_true] at hn
    unfold bodyA
    cases hm : s.mode
    · have hy := bodyR_noB child c.kind.isGen c.label [] none 0 (syncStart c s) hn.1.1 rfl
      rcases hR : bodyR c.kind.isGen c.label [] none 0 child (syncStart c s) with ⟨r, s1⟩
      rw [hR] at hy
      cases r with
      | ok v => simp; exact bodyA_noB k _ _ _ _ _ _ hn.1.2 hc
      | err e =>
        have he : e.isBase = false := by simpa [Out.noB] using hy
        simp only [Bool.false_eq_true, if_false, he]
        exact bodyA_noB h _ _ _ _ _ _ hn.2 (by simpa using he)
      | esc v => simp [Out.noB]
    · simp
      exact bodyA_noB h _ _ _ _ _ _ hn.2 (by simp)
theorem resolveA_noB : ∀ (y : Ys) (s : St), y.noRaiseB = true → (resolveA y s).1.noB = true
  | .none, _, _ => by simp [resolveA, Out.noB]
  | .junk, _, _ => by simp [resolveA, Out.noB, Err.isBase]
  | .const _, _, _ => by simp [resolveA, Out.noB]
  | .pconst _, s, _ => by
    unfold resolveA
    cases hm : s.mode <;> simp [Out.noB]
  | .task c p, s, hn => by
    simp only [Ys.noRaiseB] at hn
    unfold resolveA
    cases hm : s.mode
    · simp [Out.noB, Err.isBase]
    · simp only [if_true]
      obtain ⟨st, heq⟩ := callA_fst' c (fun g s' => bodyA g c.label [] none 0 p s') s
      rw [heq]
      exact bodyA_noB p _ _ _ _ _ _ hn rfl
  | .tup l, s, hn => by simp only [Ys.noRaiseB] at hn; simp only [resolveA]; exact wrap_noB _ (gatherA_noB l s hn)
  | .lst l, s, hn => by simp only [Ys.noRaiseB] at hn; simp only [resolveA]; exact wrap_noB _ (gatherA_noB l s hn)
  | .dict _ l, s, hn => by simp only [Ys.noRaiseB] at hn; simp only [resolveA]; exact wrap_noB _ (gatherA_noB l s hn)
  | .sub y, s, hn => by simp only [Ys.noRaiseB] at hn; simp only [resolveA]; exact resolveA_noB y s hn
  | .pval y, s, hn => by
    simp only [Ys.noRaiseB] at hn
    unfold resolveA
    cases hm : s.mode
    · simp only [Bool.false_eq_true, if_false]; exact resolveA_noB y s hn
    · simp [Out.noB, Err.isBase]
  | .ofut b _, _, _ => by cases b <;> simp [resolveA, Out.noB, Err.isBase]
  | .gco y, s, hn => by simp only [Ys.noRaiseB] at hn; simp only [resolveA]; exact resolveA_noB y s hn
theorem gatherA_noB : ∀ (l : YsL) (s : St), l.noRaiseB = true → (gatherA l s).1.noB = true
  | .nil, _, _ => by simp [gatherA, OutL.noB]
  | .cons y l, s, hn => by
    simp only [YsL.noRaiseB, Bool.and_eq_true] at hn
    simp only [gatherA]
    exact combine_noB (resolveA_noB y s hn.1) (gatherA_noB l _ hn.2)
end

/-! ### asyncio evaluation = reference evaluation (plain yields, no synchronous calls) -/

theorem callA_fst (c : Call) (run : Bool → St → Out × St) (s : St) :
    ∃ st : St, st.mode = true ∧ (callA c run s).1 = (run c.kind.isGen st).1 := by
  unfold callA
  refine ⟨_, ?_, rfl⟩
  simp

/-- the side condition of the equivalence: no handler of `p` catches BaseException, or `p` raises no BaseException-only
    error (and none has been caught so far) -/
def Safe (p : Prog) (caught : Option Err) : Prop :=
  p.excOnly = true ∨ (p.noRaiseB = true ∧ (caught.getD (.u 0)).isBase = false)

theorem Safe.ofBool {p : Prog} (h : p.safe = true) : Safe p none := by
  simp only [Prog.safe, Bool.or_eq_true] at h
  rcases h with h | h
  · exact .inl h
  · exact .inr ⟨h, rfl⟩

def SafeY (y : Ys) : Prop := y.excOnly = true ∨ y.noRaiseB = true
def SafeL (l : YsL) : Prop := l.excOnly = true ∨ l.noRaiseB = true

theorem Safe.yld {hb : Bool} {y : Ys} {k h : Prog} {caught : Option Err} (hx : Safe (.yld hb y k h) caught) :
    SafeY y ∧ Safe k caught ∧
      ∀ e, (y.noRaiseB = true → e.isBase = false) →
        ((e.isBase && !hb) = e.isBase) ∧ Safe h (some e) := by
  rcases hx with hx | ⟨hx, hc⟩
  · simp only [Prog.excOnly, Bool.and_eq_true, Bool.not_eq_true'] at hx
    obtain ⟨⟨⟨hhb, hxy⟩, hxk⟩, hxh⟩ := hx
    subst hhb
    exact ⟨.inl hxy, .inl hxk, fun e _ => ⟨by simp, .inl hxh⟩⟩
  · simp only [Prog.noRaiseB, Bool.and_eq_true] at hx
    refine ⟨.inr hx.1.1, .inr ⟨hx.1.2, hc⟩, fun e he => ?_⟩
    have := he hx.1.1
    exact ⟨by simp [this], .inr ⟨hx.2, by simpa using this⟩⟩

theorem SafeY.task {c : Call} {p : Prog} (hx : SafeY (.task c p)) : Safe p none := by
  rcases hx with hx | hx
  · exact .inl (by simpa [Ys.excOnly] using hx)
  · exact .inr ⟨by simpa [Ys.noRaiseB] using hx, rfl⟩

theorem SafeL.cons {y : Ys} {l : YsL} (hx : SafeL (.cons y l)) : SafeY y ∧ SafeL l := by
  rcases hx with hx | hx
  · simp only [YsL.excOnly, Bool.and_eq_true] at hx; exact ⟨.inl hx.1, .inl hx.2⟩
  · simp only [YsL.noRaiseB, Bool.and_eq_true] at hx; exact ⟨.inr hx.1, .inr hx.2⟩

mutual
theorem bodyA_eq_bodyR : ∀ (p : Prog) (gen : Bool) (t : Nat) (env : List Val) (caught : Option Err) (i : Nat) (s s' : St),
    s.mode = true → s'.mode = false → p.plainY = true → p.noSync = true → Safe p caught →
    (bodyA gen t env caught i p s).1 = (bodyR gen t env caught i p s').1
  | .ret _, _, _, _, _, _, _, _, _, _, _, _, _ => by simp [bodyA, bodyR]
  | .res _, _, _, _, _, _, _, _, _, _, _, _, _ => by simp [bodyA, bodyR]
  | .raise _, _, _, _, _, _, _, _, _, _, _, _, _ => by simp [bodyA, bodyR]
  | .raiseB _, _, _, _, _, _, _, _, _, _, _, _, _ => by simp [bodyA, bodyR]
  | .reraise, _, _, _, _, _, _, _, _, _, _, _, _ => by simp [bodyA, bodyR]
  | .sync _ _ _ _, _, _, _, _, _, _, _, _, _, _, hs, _ => by simp [Prog.noSync] at hs
  | .yld hb y k h, gen, t, env, caught, i, s, s', hm, hm', hr, hs, hx => by
    simp only [Prog.plainY, Prog.noSync, Bool.and_eq_true] at hr hs
    obtain ⟨hxy, hxk, hxh⟩ := hx.yld
    unfold bodyA bodyR
    cases gen
    · simp
    · have hy := resolveA_eq_ysR y s s' hm hm' hr.1.1 hs.1.1 hxy
      have h1 := resolveA_mode y s
      have h2 := ysR_mode y s'
      have hnb := fun hn => resolveA_noB y s hn
      rcases hA : resolveA y s with ⟨r, s1⟩
      rcases hR : ysR y s' with ⟨r', s1'⟩
      rw [hA] at hy h1 hnb
      rw [hR] at hy h2
      simp only at hy h1 h2 hnb
      subst hy
      cases r with
      | ok v =>
        simp
        exact bodyA_eq_bodyR k _ _ _ _ _ _ _ (by simp [h1, hm]) (by simp [h2, hm']) hr.1.2 hs.1.2 hxk
      | err e =>
        obtain ⟨hag, hsafe⟩ := hxh e (fun hn => by simpa [Out.noB] using hnb hn)
        simp only [Bool.not_true, Bool.false_eq_true, if_false, hag]
        split
        · rfl
        · exact bodyA_eq_bodyR h _ _ _ _ _ _ _ (by simp [h1, hm]) (by simp [h2, hm']) hr.2 hs.2 hsafe
      | esc v => simp
theorem resolveA_eq_ysR : ∀ (y : Ys) (s s' : St),
    s.mode = true → s'.mode = false → y.plainY = true → y.noSync = true → SafeY y →
    (resolveA y s).1 = (ysR y s').1
  | .none, _, _, _, _, _, _, _ => by simp [resolveA, ysR]
  | .junk, _, _, _, _, _, _, _ => by simp [resolveA, ysR]
  | .const _, _, _, _, _, _, _, _ => by simp [resolveA, ysR]
  | .pconst _, s, _, hm, _, _, _, _ => by simp [resolveA, ysR, hm]
  | .task c p, s, s', hm, hm', hr, hs, hx => by
    simp only [Ys.plainY, Ys.noSync] at hr hs
    unfold resolveA ysR
    simp only [hm, hm', if_true]
    obtain ⟨st, hst, heq⟩ := callA_fst c (fun g s' => bodyA g c.label [] none 0 p s') s
    rw [heq]
    simp
    exact bodyA_eq_bodyR p _ _ _ _ _ _ _ hst (by simp [hm']) hr hs hx.task
  | .tup l, s, s', hm, hm', hr, hs, hx => by
    simp only [Ys.plainY, Ys.noSync] at hr hs
    simp [resolveA, ysR, gatherA_eq_yslR l s s' hm hm' hr hs (by simpa [SafeY, SafeL, Ys.excOnly, Ys.noRaiseB] using hx)]
  | .lst l, s, s', hm, hm', hr, hs, hx => by
    simp only [Ys.plainY, Ys.noSync] at hr hs
    simp [resolveA, ysR, gatherA_eq_yslR l s s' hm hm' hr hs (by simpa [SafeY, SafeL, Ys.excOnly, Ys.noRaiseB] using hx)]
  | .dict _ l, s, s', hm, hm', hr, hs, hx => by
    simp only [Ys.plainY, Ys.noSync] at hr hs
    simp [resolveA, ysR, gatherA_eq_yslR l s s' hm hm' hr hs (by simpa [SafeY, SafeL, Ys.excOnly, Ys.noRaiseB] using hx)]
  | .sub _, _, _, _, _, hr, _, _ => by simp [Ys.plainY] at hr
  | .pval _, _, _, _, _, hr, _, _ => by simp [Ys.plainY] at hr
  | .ofut b _, _, _, _, _, _, _, _ => by cases b <;> simp [resolveA, ysR]
  | .gco y, s, s', hm, hm', hr, hs, hx => by
    simp only [Ys.plainY, Ys.noSync] at hr hs
    simp only [resolveA, ysR]
    exact resolveA_eq_ysR y s s' hm hm' hr hs (by simpa [SafeY, Ys.excOnly, Ys.noRaiseB] using hx)
theorem gatherA_eq_yslR : ∀ (l : YsL) (s s' : St),
    s.mode = true → s'.mode = false → l.plainY = true → l.noSync = true → SafeL l →
    (gatherA l s).1 = (yslR l s').1
  | .nil, _, _, _, _, _, _, _ => by simp [gatherA, yslR]
  | .cons y l, s, s', hm, hm', hr, hs, hx => by
    simp only [YsL.plainY, YsL.noSync, Bool.and_eq_true] at hr hs
    simp only [gatherA, yslR]
    rw [resolveA_eq_ysR y s s' hm hm' hr.1 hs.1 hx.cons.1]
    rw [gatherA_eq_yslR l _ (ysR y s').2 (by simp [hm]) (by rw [ysR_mode]; exact hm') hr.2 hs.2 hx.cons.2]
end

/-! ### what an evaluation adds to the log -/

/-- every event a correct asynq-side run may log -/
def evOkR (e : Ev) : Bool := dcOk e && modeSeen false e && syncAllowedOk e && noBad e
/-- every event a correct asyncio-side run may log -/
def evOkA (e : Ev) : Bool := dcOk e && modeSeen true e && syncRefusedOk e && noBad e

/-- `s2` extends the log of `s` by events that all satisfy `ok`, among them the end of every task in `labs` -/
def Ext (ok : Ev → Bool) (labs : List Nat) (s s2 : St) : Prop :=
  ∃ l, s2.log = l ++ s.log ∧ l.all ok = true ∧ ∀ t ∈ labs, l.any (isFin t) = true

theorem Ext.refl (ok : Ev → Bool) (s : St) : Ext ok [] s s := ⟨[], by simp⟩

theorem Ext.emit {ok : Ev → Bool} {e : Ev} (s : St) (h : ok e = true) : Ext ok [] s (s.emit e) :=
  ⟨[e], by simp [h]⟩

theorem Ext.emitFin {ok : Ev → Bool} (s : St) (t : Nat) (o : Out) (h : ok (.fin t o) = true) :
    Ext ok [t] s (s.emit (.fin t o)) :=
  ⟨[.fin t o], by simp [h, isFin]⟩

theorem Ext.trans {ok : Ev → Bool} {a b : List Nat} {s s1 s2 : St}
    (h1 : Ext ok a s s1) (h2 : Ext ok b s1 s2) : Ext ok (a ++ b) s s2 := by
  obtain ⟨l1, e1, o1, f1⟩ := h1
  obtain ⟨l2, e2, o2, f2⟩ := h2
  refine ⟨l2 ++ l1, by simp [e2, e1], by simp [o1, o2], ?_⟩
  intro t ht
  rcases List.mem_append.mp ht with h | h
  · simp [f1 t h]
  · simp [f2 t h]

theorem Ext.weaken {ok : Ev → Bool} {a b : List Nat} {s s2 : St}
    (h : Ext ok a s s2) (hsub : ∀ t ∈ b, t ∈ a) : Ext ok b s s2 := by
  obtain ⟨l, e, o, f⟩ := h
  exact ⟨l, e, o, fun t ht => f t (hsub t ht)⟩

/-- only the logs matter -/
theorem Ext.logs {ok : Ev → Bool} {a : List Nat} {s s2 s' s2' : St}
    (h : Ext ok a s s2) (h1 : s'.log = s.log) (h2 : s2'.log = s2.log) : Ext ok a s' s2' := by
  obtain ⟨l, e, o, f⟩ := h
  exact ⟨l, by rw [h1, h2, e], o, f⟩

theorem Ext.dc {ok : Ev → Bool} {labs : List Nat} {s s1 : St} (h : Ext ok labs s s1) : s1.dc labs = true := by
  obtain ⟨l, e, _, f⟩ := h
  simp only [St.dc, St.finished, List.all_eq_true]
  intro t ht
  rw [e, List.any_append, f t ht]
  rfl

theorem Ext.all {ok : Ev → Bool} {a : List Nat} {s s2 : St} (h : Ext ok a s s2) (h0 : s.log.all ok = true) :
    s2.log.all ok = true := by
  obtain ⟨l, e, o, _⟩ := h
  rw [e, List.all_append, o, h0]; rfl

/-- a plain synchronous call that is not refused (flag off) starts its callee: `sfn` (if declared with sync_fn) and `start` -/
theorem syncStart_ext (c : Call) (s : St) (hm : s.mode = false) : Ext evOkR [] s (syncStart c s) := by
  refine ⟨if c.sfn then [Ev.start c.label s.mode, Ev.sfn c.label] else [Ev.start c.label s.mode], syncStart_log c s, ?_, by simp⟩
  cases c.sfn <;> simp [hm, evOkR, dcOk, modeSeen, syncAllowedOk, noBad]

/-- number of synchronous calls attempted so far -/
def St.nSync (s : St) : Nat := s.log.countP isSyncX

theorem Ext.nSync_le {ok : Ev → Bool} {a : List Nat} {s s2 : St} (h : Ext ok a s s2) : s.nSync ≤ s2.nSync := by
  obtain ⟨l, e, _, _⟩ := h
  simp only [St.nSync, e, List.countP_append]
  omega

def Out.fine : Out → Bool
  | .ok _ => true
  | .err e => e != .syncRefused
  | .esc _ => false

def OutL.fine : OutL → Bool
  | .ok _ => true
  | .err e => e != .syncRefused
  | .esc _ => false

theorem combine_fine {a : Out} {b : OutL} (ha : a.fine = true) (hb : b.fine = true) : (combine a b).fine = true := by
  cases a <;> cases b <;> simp_all [combine, Out.fine, OutL.fine]

theorem wrap_fine {r : OutL} (f : List Val → Val) (h : r.fine = true) : (r.wrap f).fine = true := by
  cases r <;> simp_all [OutL.wrap, Out.fine, OutL.fine]

def Out.noEsc : Out → Bool
  | .esc _ => false
  | _ => true

def OutL.noEsc : OutL → Bool
  | .esc _ => false
  | _ => true

theorem combine_noEsc {a : Out} {b : OutL} (ha : a.noEsc = true) (hb : b.noEsc = true) : (combine a b).noEsc = true := by
  cases a <;> cases b <;> simp_all [combine, Out.noEsc, OutL.noEsc]

theorem wrap_noEsc {r : OutL} (f : List Val → Val) (h : r.noEsc = true) : (r.wrap f).noEsc = true := by
  cases r <;> simp_all [OutL.wrap, Out.noEsc, OutL.noEsc]

/-! ### the asynq side: every run is "good" (all programs) -/

theorem getD_fine (caught : Option Err) (hc : caught ≠ some .syncRefused) : (Out.err (caught.getD (.u 0))).fine = true := by
  cases caught with
  | none => rfl
  | some e => cases e <;> simp_all [Out.fine]

mutual
theorem bodyR_good : ∀ (p : Prog) (gen : Bool) (t : Nat) (env : List Val) (caught : Option Err) (i : Nat) (s : St),
    s.mode = false → caught ≠ some .syncRefused →
    (bodyR gen t env caught i p s).1.fine = true ∧ Ext evOkR [t] s (bodyR gen t env caught i p s).2
  | .ret _, _, t, _, _, _, s, _, _ => by
    simp only [bodyR]; exact ⟨rfl, Ext.emitFin s t _ rfl⟩
  | .res _, _, t, _, _, _, s, _, _ => by
    simp only [bodyR]; exact ⟨rfl, Ext.emitFin s t _ rfl⟩
  | .raise _, _, t, _, _, _, s, _, _ => by
    simp only [bodyR]; exact ⟨rfl, Ext.emitFin s t _ rfl⟩
  | .raiseB _, _, t, _, _, _, s, _, _ => by
    simp only [bodyR]; exact ⟨rfl, Ext.emitFin s t _ rfl⟩
  | .reraise, _, t, _, caught, _, s, _, hc => by
    simp only [bodyR]; exact ⟨getD_fine caught hc, Ext.emitFin s t _ rfl⟩
  | .yld hb y k h, gen, t, env, caught, i, s, hm, hc => by
    unfold bodyR
    cases gen
    · simp only [Bool.not_false, if_true]; exact ⟨rfl, Ext.emitFin s t _ rfl⟩
    · obtain ⟨hf, hx⟩ := ysR_good y s hm
      have h2 := ysR_mode y s
      rcases hR : ysR y s with ⟨r, s1⟩
      rw [hR] at hf hx h2
      simp only at hf hx h2
      have hm1 : s1.mode = false := by rw [h2, hm]
      have hd : s1.dc (Ys.labelsR y) = true := hx.dc
      cases r with
      | ok v =>
        simp only [Bool.not_true, Bool.false_eq_true, if_false]
        have hev : evOkR (.run t (i + 1) (s1.dc (Ys.labelsR y)) s1.mode (.ok v)) = true := by
          simp [evOkR, dcOk, modeSeen, syncAllowedOk, noBad, hd, hm1]
        obtain ⟨hf', hx'⟩ := bodyR_good k true t (env ++ [v]) caught (i + 1) (s1.emit (.run t (i + 1) (s1.dc (Ys.labelsR y)) s1.mode (.ok v)))
          (by simp [hm1]) hc
        exact ⟨hf', ((hx.trans (Ext.emit s1 hev)).trans hx').weaken (by simp)⟩
      | err e =>
        simp only [Bool.not_true, Bool.false_eq_true, if_false]
        split
        · exact ⟨hf, (hx.trans (Ext.emitFin s1 t _ rfl)).weaken (by simp)⟩
        · have hev : evOkR (.run t (i + 1) (s1.dc (Ys.labelsR y)) s1.mode (.err e)) = true := by
            simp [evOkR, dcOk, modeSeen, syncAllowedOk, noBad, hd, hm1]
          have he : some e ≠ some Err.syncRefused := by
            intro hh; injection hh with hh; subst hh; simp [Out.fine] at hf
          obtain ⟨hf', hx'⟩ := bodyR_good h true t env (some e) (i + 1) (s1.emit (.run t (i + 1) (s1.dc (Ys.labelsR y)) s1.mode (.err e)))
            (by simp [hm1]) he
          exact ⟨hf', ((hx.trans (Ext.emit s1 hev)).trans hx').weaken (by simp)⟩
      | esc v => simp [Out.fine] at hf
  | .sync c child k h, gen, t, env, caught, i, s, hm, hc => by
    unfold bodyR
    simp only [hm, Bool.false_eq_true, if_false]
    have hst : evOkR (.start c.label false) = true := rfl
    obtain ⟨hf, hx⟩ := bodyR_good child c.kind.isGen c.label [] none 0 (syncStart c s) (by simp [hm]) (by simp)
    have h2 := bodyR_mode child c.kind.isGen c.label [] none 0 (syncStart c s)
    rcases hR : bodyR c.kind.isGen c.label [] none 0 child (syncStart c s) with ⟨r, s1⟩
    rw [hR] at hf hx h2
    simp only at hf hx h2
    have hm1 : s1.mode = false := by rw [h2]; simp [hm]
    have hev : evOkR (.syncX t r) = true := by
      cases r with
      | ok v => rfl
      | err e => cases e <;> simp_all [evOkR, dcOk, modeSeen, syncAllowedOk, noBad, Out.fine]
      | esc v => simp [Out.fine] at hf
    have hx1 : Ext evOkR [] s (s1.emit (.syncX t r)) :=
      (((syncStart_ext c s hm).trans hx).trans (Ext.emit s1 hev)).weaken (by simp)
    cases r with
    | ok v =>
      obtain ⟨hf', hx'⟩ := bodyR_good k gen t (env ++ [v]) caught i (s1.emit (.syncX t (.ok v))) (by simp [hm1]) hc
      exact ⟨hf', (hx1.trans hx').weaken (by simp)⟩
    | err e =>
      simp only
      split
      · exact ⟨hf, (hx1.trans (Ext.emitFin _ t _ rfl)).weaken (by simp)⟩
      · have he : some e ≠ some Err.syncRefused := by
          intro hh; injection hh with hh; subst hh; simp [Out.fine] at hf
        obtain ⟨hf', hx'⟩ := bodyR_good h gen t env (some e) i (s1.emit (.syncX t (.err e))) (by simp [hm1]) he
        exact ⟨hf', (hx1.trans hx').weaken (by simp)⟩
    | esc v => simp [Out.fine] at hf
theorem ysR_good : ∀ (y : Ys) (s : St), s.mode = false →
    (ysR y s).1.fine = true ∧ Ext evOkR (Ys.labelsR y) s (ysR y s).2
  | .none, s, _ => by simp only [ysR, Ys.labelsR]; exact ⟨rfl, Ext.refl _ s⟩
  | .junk, s, _ => by simp only [ysR, Ys.labelsR]; exact ⟨rfl, Ext.refl _ s⟩
  | .const _, s, _ => by simp only [ysR, Ys.labelsR]; exact ⟨rfl, Ext.refl _ s⟩
  | .pconst _, s, _ => by simp only [ysR, Ys.labelsR]; exact ⟨rfl, Ext.refl _ s⟩
  | .task c p, s, hm => by
    unfold ysR
    simp only [hm, Bool.false_eq_true, if_false, Ys.labelsR]
    have hst : evOkR (.start c.label false) = true := rfl
    obtain ⟨hf, hx⟩ := bodyR_good p c.kind.isGen c.label [] none 0 (s.emit (.start c.label false)) (by simp [hm]) (by simp)
    exact ⟨hf, ((Ext.emit s hst).trans hx).weaken (by simp)⟩
  | .tup l, s, hm => by
    obtain ⟨hf, hx⟩ := yslR_good l s hm
    simp only [ysR, Ys.labelsR]; exact ⟨wrap_fine _ hf, hx⟩
  | .lst l, s, hm => by
    obtain ⟨hf, hx⟩ := yslR_good l s hm
    simp only [ysR, Ys.labelsR]; exact ⟨wrap_fine _ hf, hx⟩
  | .dict _ l, s, hm => by
    obtain ⟨hf, hx⟩ := yslR_good l s hm
    simp only [ysR, Ys.labelsR]; exact ⟨wrap_fine _ hf, hx⟩
  | .sub _, s, _ => by simp only [ysR, Ys.labelsR]; exact ⟨rfl, Ext.refl _ s⟩
  | .pval y, s, hm => by simp only [ysR, Ys.labelsR]; exact ysR_good y s hm
  | .ofut b _, s, _ => by cases b <;> (simp only [ysR, Ys.labelsR]; exact ⟨rfl, Ext.refl _ s⟩)
  | .gco y, s, hm => by simp only [ysR, Ys.labelsR]; exact ysR_good y s hm
theorem yslR_good : ∀ (l : YsL) (s : St), s.mode = false →
    (yslR l s).1.fine = true ∧ Ext evOkR (YsL.labelsR l) s (yslR l s).2
  | .nil, s, _ => by simp only [yslR, YsL.labelsR]; exact ⟨rfl, Ext.refl _ s⟩
  | .cons y l, s, hm => by
    obtain ⟨hf, hx⟩ := ysR_good y s hm
    obtain ⟨hf', hx'⟩ := yslR_good l (ysR y s).2 (by rw [ysR_mode, hm])
    simp only [yslR, YsL.labelsR]
    exact ⟨combine_fine hf hf', hx.trans hx'⟩
end

/-! ### the asyncio side -/

/-- the state in which the body of a call starts under `decorator.asyncio(...)` -/
def callPre (c : Call) (s : St) : St :=
  let s0 := if c.afn then s.emit (.afn c.label) else s
  let s1 := if c.kind == .proxy && !c.afn then exitMode (enterMode s0).1 (enterMode s0).2 else s0
  ((enterMode s1).2).emit (.start c.label true)

theorem callA_eq (c : Call) (run : Bool → St → Out × St) (s : St) :
    callA c run s = ((run c.kind.isGen (callPre c s)).1, exitMode s.mode (run c.kind.isGen (callPre c s)).2) := by
  unfold callA callPre
  cases c.afn <;> cases (c.kind == Kind.proxy) <;> simp [enterMode, exitMode, St.emit]

@[simp] theorem callPre_mode (c : Call) (s : St) : (callPre c s).mode = true := by
  unfold callPre; simp

theorem callPre_ext (c : Call) (s : St) : Ext evOkA [] s (callPre c s) := by
  have hlog : (callPre c s).log =
      (if c.afn then [Ev.start c.label true, Ev.afn c.label] else [Ev.start c.label true]) ++ s.log := by
    unfold callPre
    cases c.afn <;> cases (c.kind == Kind.proxy) <;> simp [enterMode, exitMode, St.emit]
  refine ⟨_, hlog, ?_, by simp⟩
  cases c.afn <;> rfl

mutual
theorem bodyA_good : ∀ (p : Prog) (gen : Bool) (t : Nat) (env : List Val) (caught : Option Err) (i : Nat) (s : St),
    s.mode = true →
    (bodyA gen t env caught i p s).1.noEsc = true ∧ Ext evOkA [t] s (bodyA gen t env caught i p s).2
  | .ret _, _, t, _, _, _, s, _ => by
    simp only [bodyA]; exact ⟨rfl, Ext.emitFin s t _ rfl⟩
  | .res _, _, t, _, _, _, s, _ => by
    simp only [bodyA]; exact ⟨rfl, Ext.emitFin s t _ rfl⟩
  | .raise _, _, t, _, _, _, s, _ => by
    simp only [bodyA]; exact ⟨rfl, Ext.emitFin s t _ rfl⟩
  | .raiseB _, _, t, _, _, _, s, _ => by
    simp only [bodyA]; exact ⟨rfl, Ext.emitFin s t _ rfl⟩
  | .reraise, _, t, _, _, _, s, _ => by
    simp only [bodyA]; exact ⟨rfl, Ext.emitFin s t _ rfl⟩
  | .yld hb y k h, gen, t, env, caught, i, s, hm => by
    unfold bodyA
    cases gen
    · simp only [Bool.not_false, if_true]; exact ⟨rfl, Ext.emitFin s t _ rfl⟩
    · obtain ⟨hf, hx⟩ := resolveA_good y s hm
      have h2 := resolveA_mode y s
      rcases hR : resolveA y s with ⟨r, s1⟩
      rw [hR] at hf hx h2
      simp only at hf hx h2
      have hm1 : s1.mode = true := by rw [h2, hm]
      have hd : s1.dc (Ys.labelsA y) = true := hx.dc
      cases r with
      | ok v =>
        simp only [Bool.not_true, Bool.false_eq_true, if_false]
        have hev : evOkA (.run t (i + 1) (s1.dc (Ys.labelsA y)) s1.mode (.ok v)) = true := by
          simp [evOkA, dcOk, modeSeen, syncRefusedOk, noBad, hd, hm1]
        obtain ⟨hf', hx'⟩ := bodyA_good k true t (env ++ [v]) caught (i + 1) (s1.emit (.run t (i + 1) (s1.dc (Ys.labelsA y)) s1.mode (.ok v)))
          (by simp [hm1])
        exact ⟨hf', ((hx.trans (Ext.emit s1 hev)).trans hx').weaken (by simp)⟩
      | err e =>
        simp only [Bool.not_true, Bool.false_eq_true, if_false]
        split
        · exact ⟨rfl, (hx.trans (Ext.emitFin s1 t _ rfl)).weaken (by simp)⟩
        · have hev : evOkA (.run t (i + 1) (s1.dc (Ys.labelsA y)) s1.mode (.err e)) = true := by
            simp [evOkA, dcOk, modeSeen, syncRefusedOk, noBad, hd, hm1]
          obtain ⟨hf', hx'⟩ := bodyA_good h true t env (some e) (i + 1) (s1.emit (.run t (i + 1) (s1.dc (Ys.labelsA y)) s1.mode (.err e)))
            (by simp [hm1])
          exact ⟨hf', ((hx.trans (Ext.emit s1 hev)).trans hx').weaken (by simp)⟩
      | esc v => simp [Out.noEsc] at hf
  | .sync c child k h, gen, t, env, caught, i, s, hm => by
    unfold bodyA
    simp only [hm, if_true, refusal_isBase, Bool.false_eq_true, if_false]
    have hev : evOkA (.syncX t (.err (refusal c))) = true := rfl
    obtain ⟨hf', hx'⟩ := bodyA_good h gen t env (some (refusal c)) i (s.emit (.syncX t (.err (refusal c)))) (by simp [hm])
    exact ⟨hf', ((Ext.emit s hev).trans hx').weaken (by simp)⟩
theorem resolveA_good : ∀ (y : Ys) (s : St), s.mode = true →
    (resolveA y s).1.noEsc = true ∧ Ext evOkA (Ys.labelsA y) s (resolveA y s).2
  | .none, s, _ => by simp only [resolveA, Ys.labelsA]; exact ⟨rfl, Ext.refl _ s⟩
  | .junk, s, _ => by simp only [resolveA, Ys.labelsA]; exact ⟨rfl, Ext.refl _ s⟩
  | .const _, s, _ => by simp only [resolveA, Ys.labelsA]; exact ⟨rfl, Ext.refl _ s⟩
  | .pconst _, s, hm => by
    simp only [resolveA, Ys.labelsA, hm, if_true]
    exact ⟨rfl, (Ext.refl evOkA s).logs rfl rfl⟩
  | .task c p, s, hm => by
    unfold resolveA
    simp only [hm, if_true, Ys.labelsA]
    rw [callA_eq]
    obtain ⟨hf, hx⟩ := bodyA_good p c.kind.isGen c.label [] none 0 (callPre c s) (by simp)
    exact ⟨hf, (((callPre_ext c s).trans hx).logs rfl rfl).weaken (by simp)⟩
  | .tup l, s, hm => by
    obtain ⟨hf, hx⟩ := gatherA_good l s hm
    simp only [resolveA, Ys.labelsA]; exact ⟨wrap_noEsc _ hf, hx⟩
  | .lst l, s, hm => by
    obtain ⟨hf, hx⟩ := gatherA_good l s hm
    simp only [resolveA, Ys.labelsA]; exact ⟨wrap_noEsc _ hf, hx⟩
  | .dict _ l, s, hm => by
    obtain ⟨hf, hx⟩ := gatherA_good l s hm
    simp only [resolveA, Ys.labelsA]; exact ⟨wrap_noEsc _ hf, hx⟩
  | .sub y, s, hm => by
    simp only [resolveA, Ys.labelsA]; exact resolveA_good y s hm
  | .pval _, s, hm => by
    simp only [resolveA, Ys.labelsA, hm, if_true]; exact ⟨rfl, Ext.refl _ s⟩
  | .ofut b _, s, _ => by cases b <;> (simp only [resolveA, Ys.labelsA]; exact ⟨rfl, Ext.refl _ s⟩)
  | .gco y, s, hm => by
    simp only [resolveA, Ys.labelsA]; exact resolveA_good y s hm
theorem gatherA_good : ∀ (l : YsL) (s : St), s.mode = true →
    (gatherA l s).1.noEsc = true ∧ Ext evOkA (YsL.labelsA l) s (gatherA l s).2
  | .nil, s, _ => by simp only [gatherA, YsL.labelsA]; exact ⟨rfl, Ext.refl _ s⟩
  | .cons y l, s, hm => by
    obtain ⟨hf, hx⟩ := resolveA_good y s hm
    obtain ⟨hf', hx'⟩ := gatherA_good l { (resolveA y s).2 with mode := s.mode } hm
    simp only [gatherA, YsL.labelsA]
    exact ⟨combine_noEsc hf hf', (hx.logs rfl rfl).trans (hx'.logs rfl rfl)⟩
end

end AsynqModel.Asyncio
