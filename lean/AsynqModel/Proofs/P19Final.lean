import AsynqModel.Proofs.P19Step
import AsynqModel.Theorems.C04
/-
  P19, part 18: `MInv` holds in every reachable state of a tree-shaped, single-kind, well-scoped yield-only program
  without NonAsyncContext (not stuck, MAX_TASK_STACK_SIZE guard not fired).
-/
namespace AsynqModel.Core.P19
open AsynqModel.Core AsynqModel.Core.P6

theorem minv_step {k0 : Nat} {cfg : Cfg} {tops0 : List (Conv × Body)} {s r : State} (M : MInv k0 cfg tops0 s)
    (T : P4.TI cfg tops0 s) (B : P4.BI s) (hA : InvA s) (hB : InvB s) (hFI : P4.FI s) (hFI' : P4.FI r)
    (hsc : StepScoped s) (hstkLt : ∀ x ∈ s.stack, x < s.futs.length)
    (hset : ∀ root base rest, s.ctl = .waitLoop root base :: rest → s.stack.length ≤ base →
      s.computed root = false → Settled s root)
    (X : StepX s r) (hgs : ∀ t old rest, s.ctl = .gen t old :: rest → r = s.genStep t old)
    (d : Desc s r) : MInv k0 cfg tops0 r := by
  have hS' : SInv k0 r := sinv_step M.sinv d
  have hV' : VInv r := vinv_step M.vinv hA M.sinv hsc d
  have noLazy : ∀ {f : Nat}, view r f = view s f → (view s f).out = none → (view r f).out ≠ none →
      ∃ lo, (view s f).kind = .lazy lo := fun e h1 h2 => by rw [e] at h2; exact absurd h1 h2
  cases d with
  | quiet e hst hctl =>
    refine minv_mild M T B X e.len (mild_same e) (fun f => noLazy (e.view f)) ?_ ?_ hS' hV' ?_
    · intro x hx hn; rw [hst] at hx; exact absurd hx hn
    · intro root base rest h; rw [hctl, h]; simp
    · intro t old rest h; rw [hctl] at h; rw [hst]; exact M.genTop t old rest h
  | top conv body rest htops hctl0 U htops' hctl => exact minv_top M T X conv body rest htops hctl0 U htops' hctl hS' hV'
  | ret root hw hroot e hst hctl =>
    refine minv_mild M T B X e.len (mild_same e) (fun f => noLazy (e.view f)) ?_ ?_ hS' hV' ?_
    · intro x hx hn; rw [hst] at hx; exact absurd hx hn
    · intro root' base rest h h2
      rw [hctl, h] at h2
      have := congrArg List.length h2
      simp at this
    · intro t old rest h
      rw [hctl] at h
      rcases hA.shape with h0 | ⟨r0, h0⟩ | ⟨r0, b0, h0⟩ | ⟨t0, old0, r0, b0, h0⟩
      · rw [h0] at h; cases h
      · rw [h0] at h; cases h
      · rw [h0] at h; cases h
      · exact absurd h0 (hw t0 old0 _)
  | enterLoop root rest hctl0 hroot e hst hctl =>
    have hcur : s.curTop = some root := curTop_of_ctl B hA.shape (c := .waitEnter root) (by rw [hctl0]; simp) rfl
    refine minv_mild M T B X e.len (mild_same e) (fun f => noLazy (e.view f)) ?_ ?_ hS' hV' ?_
    · intro x hx hn
      rw [hst] at hx
      rcases List.mem_cons.1 hx with h | h
      · rw [h]; exact Or.inl (M.rootOwn root hcur)
      · exact absurd h hn
    · intro root' base rest' h; rw [hctl0] at h; cases h
    · intro t old rest' h; rw [hctl] at h; cases h
  | pop hw top st hstk hcase e hst hctl =>
    obtain ⟨root, base, rest, hw⟩ := hw
    refine minv_mild M T B X e.len (mild_same e) (fun f => noLazy (e.view f)) ?_ ?_ hS' hV' ?_
    · intro x hx hn; rw [hst] at hx; exact absurd (by rw [hstk]; exact List.mem_cons_of_mem _ hx) hn
    · intro root' base' rest' h; rw [hctl, h]; simp
    · intro t old rest' h; rw [hctl, hw] at h; cases h
  | popLazy hw top st hstk lo hk hc U hst hctl =>
    obtain ⟨root, base, rest, hw⟩ := hw
    refine minv_mild M T B X U.len (mild_done U hc) ?_ ?_ ?_ hS' hV' ?_
    · intro f h1 h2
      by_cases hf : f = top
      · subst hf; exact ⟨lo, hk⟩
      · exact noLazy (U.viewO f hf) h1 h2
    · intro x hx hn; rw [hst] at hx; exact absurd (by rw [hstk]; exact List.mem_cons_of_mem _ hx) hn
    · intro root' base' rest' h; rw [hctl, h]; simp
    · intro t old rest' h; rw [hctl, hw] at h; cases h
  | second hw top st hstk hk hc hbl hfl U hst hctl =>
    obtain ⟨root, base, rest, hw⟩ := hw
    refine minv_mild M T B X U.len (mild_flag U) ?_ ?_ ?_ hS' hV' ?_
    · intro f h1 h2
      by_cases hf : f = top
      · subst hf; rw [U.viewT] at h2; exact absurd h1 h2
      · exact noLazy (U.viewO f hf) h1 h2
    · intro x hx hn; rw [hst] at hx; exact absurd (by rw [hstk]; exact List.mem_cons_of_mem _ hx) hn
    · intro root' base' rest' h; rw [hctl, h]; simp
    · intro t old rest' h; rw [hctl, hw] at h; cases h
  | first hw top st hstk hk hc hbl hfl U hst hctl =>
    obtain ⟨root, base, rest, hw⟩ := hw
    have hpend : (view s top).pending = true :=
      hA.pOfI top hk (out_none_of_uncomputed hc) (fun old rest' h => by rw [hw] at h; cases h)
    refine minv_mild M T B X U.len (mild_flag U) ?_ ?_ ?_ hS' hV' ?_
    · intro f h1 h2
      by_cases hf : f = top
      · subst hf; rw [U.viewT] at h2; exact absurd h1 h2
      · exact noLazy (U.viewO f hf) h1 h2
    · intro x hx hn
      rw [hst] at hx
      rcases List.mem_append.1 hx with h | h
      · rw [List.mem_reverse] at h
        exact Or.inr ⟨top, hpend, (List.mem_filter.1 h).1⟩
      · exact absurd h hn
    · intro root' base' rest' h; rw [hctl, h]; simp
    · intro t old rest' h; rw [hctl, hw] at h; cases h
  | enterGen hw top st hstk hk hc hnb e hst a hctl =>
    obtain ⟨root, base, rest, hw⟩ := hw
    refine minv_mild M T B X e.len (mild_same e) (fun f => noLazy (e.view f)) ?_ ?_ hS' hV' ?_
    · intro x hx hn; rw [hst] at hx; exact absurd hx hn
    · intro root' base' rest' h; rw [hctl]; simp
    · intro t old rest' h
      rw [hctl] at h
      cases h
      exact ⟨st, by rw [hst]; exact hstk⟩
  | gen t old rest hctl0 d =>
    exact minv_gen M T B hA hFI hFI' hsc hstkLt X t old rest hctl0 (hgs t old rest hctl0) d hS' hV'
  | flush root base rest hctl0 hlen hroot F hctl =>
    exact minv_flush M T B hA hB hFI X root base rest hctl0 hlen hroot (hset root base rest hctl0 hlen hroot) F hctl
      hS' hV'

/-! ### the run -/

/-- the hypotheses on the program: every top-level computation is yield-only, creates no NonAsyncContext, is
    well-scoped, hands no future to a child, and creates batch items of kind `k0` only -/
def ProgOK (k0 : Nat) (tops : List (Conv × Body)) : Prop :=
  ∀ p ∈ tops, Spec.bodyHasSync p.2 = false ∧ Spec.bodyHasNonAsync p.2 = false ∧ wsBody p.2 = true ∧ SB k0 p.2

/-- reachable from `initState cfg tops choices` -/
inductive ReachFrom (cfg : Cfg) (tops : List (Conv × Body)) (choices : List (Nat × Nat)) : State → Prop
  | init : ReachFrom cfg tops choices (initState cfg tops choices)
  | step {s : State} : ReachFrom cfg tops choices s → ReachFrom cfg tops choices (step s)

theorem reachFrom_runFuel (cfg : Cfg) (tops : List (Conv × Body)) (choices : List (Nat × Nat)) (n : Nat) :
    ReachFrom cfg tops choices (runFuel n (initState cfg tops choices)) := by
  suffices h : ∀ s, ReachFrom cfg tops choices s → ReachFrom cfg tops choices (runFuel n s) from h _ .init
  induction n with
  | zero => intro s h; exact h
  | succ n ih =>
    intro s h
    unfold runFuel
    split
    · exact h
    · exact ih _ (.step h)

/-- the static scope check of P6 implies the one of P4 (which also covers the synchronous instructions) -/
theorem ws4_of_ws6 : ∀ (b : Body) (ninh n : Nat) (κ κ' : Nat → Bool), (∀ m, κ m = true → κ' m = true) →
    P6.ws ninh n b κ = true → P4.ws b n ninh κ' = true := by
  intro b
  induction b with
  | ret tag => intros; rfl
  | res tag => intros; rfl
  | raise e => intros; rfl
  | reraise => intros; rfl
  | spawn child pass k ihc ihk =>
    intro ninh n κ κ' hk h
    simp only [P6.ws, Bool.and_eq_true] at h
    simp only [P4.ws, Bool.and_eq_true]
    refine ⟨⟨?_, ihc _ _ _ _ (fun _ h => h) h.1.2⟩, ihk _ _ _ _ hk h.2⟩
    rw [List.all_eq_true] at h ⊢
    intro r hr
    have := h.1.1 r hr
    cases r <;> simpa [P6.refOKn, P4.refOK] using this
  | item kind payload mode k ihk => intro ninh n κ κ' hk h; exact ihk _ _ _ _ hk h
  | const v k ihk => intro ninh n κ κ' hk h; exact ihk _ _ _ _ hk h
  | errfut e k ihk => intro ninh n κ κ' hk h; exact ihk _ _ _ _ hk h
  | lazy o k ihk => intro ninh n κ κ' hk h; exact ihk _ _ _ _ hk h
  | yld y k hb ihk ihh =>
    intro ninh n κ κ' hk h
    simp only [P6.ws, Bool.and_eq_true] at h
    simp only [P4.ws, Bool.and_eq_true]
    refine ⟨⟨?_, ihk _ _ _ _ hk h.1.2⟩, ihh _ _ _ _ hk h.2⟩
    rw [List.all_eq_true] at h ⊢
    intro r hr
    have := h.1.1 r hr
    cases r <;> simpa [P6.refOKn, P4.refOK] using this
  | reyld k hb ihk ihh =>
    intro ninh n κ κ' hk h
    simp only [P6.ws, Bool.and_eq_true] at h
    simp only [P4.ws, Bool.and_eq_true]
    exact ⟨ihk _ _ _ _ hk h.1, ihh _ _ _ _ hk h.2⟩
  | sync child pass k hb _ _ _ => intro ninh n κ κ' _ h; simp [P6.ws] at h
  | syncfut rf k hb _ _ => intro ninh n κ κ' _ h; simp [P6.ws] at h
  | syncret f k hb _ _ => intro ninh n κ κ' _ h; simp [P6.ws] at h
  | withCtx cx b k ihb ihk =>
    intro ninh n κ κ' hk h
    simp only [P6.ws] at h
    simp only [P4.ws]
    exact ihb _ _ _ _ (fun m hm => ihk _ _ _ _ hk hm) h
  | endwith => intro ninh n κ κ' hk h; exact hk n h
  | read var k ihk => intro ninh n κ κ' hk h; exact ihk _ _ _ _ hk h
  | active k ihk => intro ninh n κ κ' hk h; exact ihk _ _ _ _ hk h

theorem ReachFrom.ws {k0 : Nat} {cfg : Cfg} {tops : List (Conv × Body)} {choices : List (Nat × Nat)} {s : State}
    (hP : ProgOK k0 tops) (h : ReachFrom cfg tops choices s) : ReachWS s ∧ P4.ReachW cfg tops choices s := by
  induction h with
  | init =>
    exact ⟨.init cfg tops choices (fun p hp => ⟨(hP p hp).1, (hP p hp).2.1, (hP p hp).2.2.1⟩),
      .init (fun p hp => ws4_of_ws6 p.2 0 0 _ _ (fun _ h => h) (hP p hp).2.2.1)⟩
  | step _ ih => exact ⟨.step ih.1, .step ih.2⟩

theorem noNonAsync_of_noNA {s : State} (h : NoNA s) : Inv.noNonAsync s = true := by
  unfold Inv.noNonAsync
  rw [List.all_eq_true]
  intro c hc
  have := h c hc
  cases hk : c.kind <;> simp_all

theorem minv_reach {k0 : Nat} {cfg : Cfg} {tops : List (Conv × Body)} {choices : List (Nat × Nat)}
    (hP : ProgOK k0 tops) {s : State} (h : ReachFrom cfg tops choices s) (hs : s.stuck = none)
    (hg : s.guardFired = false) : MInv k0 cfg tops s := by
  induction h with
  | init =>
    refine ⟨sinv_init k0 cfg tops choices (fun p hp => (hP p hp).2.2.2), vinv_init cfg tops choices, ?_, ?_, ?_, ?_⟩
    · intro t old rest h; cases h
    · intro root h; cases h
    · intro root h; cases h
    · intro l1 l2 o h
      have : ([] : List Event) = l1 ++ .ret o :: l2 := h
      cases l1 <;> cases this
  | @step s hr ih =>
    have hs0 := stuck_mono s hs
    have hg0 := P3.guard_mono s hg
    have M := ih hs0 hg0
    obtain ⟨hWS, hW4⟩ := hr.ws hP
    obtain ⟨hYO, hW⟩ := reachYO_of_ws s hWS hs0 hg0
    obtain ⟨hA, hB, P, hC⟩ := inv6 s hYO hs0 hg0
    have hsc := hW.stepScoped hA
    have hYO' : ReachYO (step s) := .step hYO hsc
    have hA' := (inv6 (step s) hYO' hs hg).a
    obtain ⟨d, _⟩ := desc_of_reach s hYO hs hg
    obtain ⟨G, Tr⟩ := P4.good_tr_reach hW4 hs0 hg0 (noNonAsync_of_noNA hA.noNA)
    obtain ⟨G', _⟩ := P4.good_tr_reach (P4.ReachW.step hW4) hs hg (noNonAsync_of_noNA hA'.noNA)
    have hraise := (P3.reach_core s hYO.reach hg0).1.raising
    have X := stepx s hs0 hraise hs
    exact minv_step M Tr.ti Tr.bi hA hB G.fi G'.fi hsc hC.paths.stackLt
      (fun root base rest hctl hlen hroot => C04_settled_at_flush s hYO hs0 hg0 root base rest hctl hlen hroot)
      X (fun t old rest hctl => step_gen s t old rest hs0 hraise hctl) d

end AsynqModel.Core.P19
