import AsynqModel.Proofs.CtxLoop
/-! the simulation relation between the model's state and the observer's picture (helper lemmas for Theorems/C06c.lean) -/
namespace AsynqModel.Contexts

structure Rel (defs : List Kind) (nvars : Nat) (s : St) (w : W) : Prop where
  core : CoreA defs nvars s w
  phase : s.phase = w.phase
  active : s.active = w.act
  status : s.status = w.status
  runAct : w.phase = .running → w.act = true
  susAct : w.phase = .suspended → w.act = false
  statNone : w.phase ≠ .done → w.status = .none
  stkOpen : ∀ c ∈ w.stk, isOpen w c = true
  stkAct : w.act = false → ∀ c ∈ w.stk, ownedOpen w c = false
  live : w.stopped = false

theorem CoreA_of_eq (defs : List Kind) (nvars : Nat) (s s' : St) (w w' : W) (h : CoreA defs nvars s w)
    (h1 : s'.reg = s.reg) (h2 : s'.cs = s.cs) (h3 : s'.vals = s.vals) (h4 : w'.opened = w.opened) (h5 : w'.stk = w.stk)
    (h6 : w'.valsOff = w.valsOff) : CoreA defs nvars s' w' := by
  refine { reg := by rw [h1, ownedIds_congr _ _ h4]; exact h.reg, attr := by rw [h2, h4]; exact h.attr,
           lt := by rw [h4]; exact h.lt, nodup := by rw [h4]; exact h.nodup, cslen := by rw [h2]; exact h.cslen,
           vlen := by rw [h3]; exact h.vlen, stkNodup := by rw [h5]; exact h.stkNodup, stkOv := by rw [h5]; exact h.stkOv,
           chain := by rw [h2, h3, h5, h6]; exact h.chain }

/-- the per-context records change in fields / at contexts the relation does not look at -/
theorem CoreA_cs (defs : List Kind) (nvars : Nat) (s : St) (w : W) (h : CoreA defs nvars s w) (cs' : List CtxSt)
    (hl : cs'.length = s.cs.length) (hold : ∀ d, (getC cs' d).old = (getC s.cs d).old)
    (hattr : ∀ d o, (d, o) ∈ w.opened → (getC cs' d).attr = (getC s.cs d).attr) :
    CoreA defs nvars { s with cs := cs' } w :=
  { reg := h.reg, attr := fun d o hm => by rw [hattr d o hm]; exact h.attr d o hm, lt := h.lt, nodup := h.nodup,
    cslen := by simp [hl, h.cslen], vlen := h.vlen, stkNodup := h.stkNodup, stkOv := h.stkOv,
    chain := fun hv x hx => Chain_congr defs s.cs _ x _ _ (fun d _ => hold d) (h.chain hv x hx) }

theorem expectedVals_length (defs : List Kind) (stk : List Nat) (n : Nat) : (expectedVals defs stk n).length = n := by
  simp [expectedVals]

theorem vals_eq (defs : List Kind) (nvars : Nat) (s : St) (w : W) (h : CoreA defs nvars s w) (hv : w.valsOff = false) :
    s.vals = expectedVals defs w.stk nvars := by
  apply List.ext_getElem
  · rw [h.vlen, expectedVals_length]
  · intro i h1 h2
    have hi : i < nvars := by rw [← h.vlen]; exact h1
    have hc : getV s.vals i = expectedVal defs w.stk i := by
      have := h.chain hv i hi
      unfold expectedVal
      cases hst : stackOf defs w.stk i with
      | nil => rw [hst] at this; exact this
      | cons c r => rw [hst] at this; exact this.1
    have hg : getV s.vals i = s.vals[i] := by
      simp [getV, List.getD_eq_getElem?_getD, h1]
    rw [← hg, hc]
    simp [expectedVals]

theorem common_ok (defs : List Kind) (nvars : Nat) (s : St) (w : W) (h : Rel defs nvars s w) (op : Op) (calls : List Call)
    (esc : Esc) : common defs nvars w ⟨op, calls, esc, s.vals, s.status⟩ = .ok w := by
  unfold common
  simp only [h.status, bne_self_eq_false, Bool.false_eq_true, if_false]
  cases hv : w.valsOff with
  | true => simp
  | false => simp [vals_eq defs nvars s w h.core hv]

/-! open / close in the observer -/

theorem mem_ownedIds (w : W) (c : Nat) : c ∈ ownedIds w ↔ (c, true) ∈ w.opened := by
  simp [ownedIds, List.mem_map, List.mem_filter]

theorem ownedOpen_iff (w : W) (c : Nat) : ownedOpen w c = true ↔ (c, true) ∈ w.opened := by
  simp [ownedOpen, List.any_eq_true]

theorem isOpen_iff (w : W) (c : Nat) : isOpen w c = true ↔ ∃ o, (c, o) ∈ w.opened := by
  simp [isOpen, List.any_eq_true]

theorem opened_unique (w : W) (hn : (w.opened.map (·.1)).Nodup) (c : Nat) (o o' : Bool) (h1 : (c, o) ∈ w.opened)
    (h2 : (c, o') ∈ w.opened) : o = o' := by
  generalize w.opened = l at hn h1 h2
  induction l with
  | nil => simp at h1
  | cons p r ih =>
    simp only [List.map_cons, List.nodup_cons, List.mem_map, not_exists, not_and] at hn
    rcases List.mem_cons.mp h1 with e1 | m1 <;> rcases List.mem_cons.mp h2 with e2 | m2
    · rw [← e1] at e2; exact ((Prod.mk.inj e2).2).symm
    · exact absurd (by rw [← e1]) (hn.1 (c, o') m2)
    · exact absurd (by rw [← e2]) (hn.1 (c, o) m1)
    · exact ih hn.2 m1 m2

theorem ownedIds_nodup (w : W) (hn : (w.opened.map (·.1)).Nodup) : (ownedIds w).Nodup := by
  unfold ownedIds
  exact hn.sublist (List.Sublist.map _ List.filter_sublist)

theorem closeCtx_mem (w : W) (c d : Nat) (o : Bool) : (d, o) ∈ (closeCtx w c).opened ↔ (d, o) ∈ w.opened ∧ d ≠ c := by
  simp [closeCtx, List.mem_filter]

theorem ownedIds_closeCtx (w : W) (c : Nat) : ownedIds (closeCtx w c) = (ownedIds w).filter (· != c) := by
  unfold ownedIds closeCtx
  generalize w.opened = l
  induction l with
  | nil => rfl
  | cons p r ih =>
    obtain ⟨a, b⟩ := p
    by_cases ha : a = c <;> cases b <;> simp_all [List.filter_cons]

theorem closeCtx_nodup (w : W) (c : Nat) (hn : (w.opened.map (·.1)).Nodup) : ((closeCtx w c).opened.map (·.1)).Nodup :=
  hn.sublist (List.Sublist.map _ List.filter_sublist)

theorem openCtx_mem (w : W) (c d : Nat) (o : Bool) :
    (d, o) ∈ (openCtx w c).opened ↔ (d, o) ∈ w.opened ∨ (d = c ∧ o = (w.phase == .running)) := by
  simp [openCtx]

theorem ownedIds_openCtx (w : W) (c : Nat) :
    ownedIds (openCtx w c) = ownedIds w ++ (if (w.phase == .running) = true then [c] else []) := by
  unfold ownedIds openCtx
  cases h : (w.phase == .running) <;> simp [List.filter_append, h]

theorem isOpen_congr (w' w : W) (c : Nat) (h : w'.opened = w.opened) : isOpen w' c = isOpen w c := by
  simp [isOpen, h]

theorem ownedOpen_congr (w' w : W) (c : Nat) (h : w'.opened = w.opened) : ownedOpen w' c = ownedOpen w c := by
  simp [ownedOpen, h]

end AsynqModel.Contexts
