import AsynqModel.Proofs.P5Frame
/-!
  P5: the context invariant `J` is preserved by the context operations of the machine.
-/
namespace AsynqModel.Core.P5
open AsynqModel.Core

theorem word_ctxX (c c' : Nat) (tr : List Event) : word (.ctxX c :: tr) c' = word tr c' := by simp [word_cons]
theorem word_ctxN (c t c' : Nat) (k : CtxKind) (tr : List Event) : word (.ctxN c t k :: tr) c' = word tr c' := by
  simp [word_cons]


theorem nodup_reverse {l : List Nat} (h : l.Nodup) : l.reverse.Nodup := by
  unfold List.Nodup at *
  rw [List.pairwise_reverse]
  exact h.imp (fun h => Ne.symm h)

/-! ### the exit event -/

theorem J_emitX {s : State} {d p : List Nat} (c : Nat) (j : J s d p) (hr : resumedD s c = false) :
    J (s.emit (.ctxX c)) d p := by
  obtain ⟨a1, a2, a3, a4, a5, a6, a7, a8, a9, a10, a11, a12⟩ := j
  refine ⟨a1, a2, a3, a4, a5, a6, a7, ?_, ?_, ?_, ?_, ?_⟩
  · intro c'; rw [emit_trace, word_ctxX]; exact a8 c'
  · intro c'; rw [emit_trace, word_ctxX]; exact a9 c'
  · intro c' hc'
    obtain ⟨t, k, hm⟩ := a10 c' hc'
    exact ⟨t, k, List.mem_cons_of_mem _ hm⟩
  · intro c'; exact ⟨fun b hb => (by cases hb), a11 c'⟩
  · intro c'
    refine ⟨?_, a12 c'⟩
    intro he
    cases he
    have := a9 c
    rw [hr] at this
    intro h'
    rw [h'] at this
    simp at this

/-! ### unregistering -/

theorem ctxs_eraseReg (s : State) (c o u : Nat) :
    ((eraseReg s c o).task u).ctxs = if u = o then (s.task o).ctxs.erase c else (s.task u).ctxs := by
  unfold eraseReg
  rw [task_updTask]
  by_cases h1 : u = o
  · subst h1
    by_cases h2 : u < s.futs.length
    · simp [h2]
    · simp [h2, task_default s u (Nat.le_of_not_lt h2)]
  · simp [h1]

theorem conts_eraseReg (s : State) (c o u : Nat) : ((eraseReg s c o).task u).conts = (s.task u).conts :=
  task_updTask_field s o u _ (·.conts) (fun _ => rfl)

theorem act_eraseReg (s : State) (c o u : Nat) : ((eraseReg s c o).task u).ctxActive = (s.task u).ctxActive :=
  task_updTask_field s o u _ (·.ctxActive) (fun _ => rfl)

theorem J_eraseReg {s : State} {d p : List Nat} (c o : Nat) (j : J s d p) : J (eraseReg s c o) (c :: d) p := by
  have hc : ∀ u c', c' ∈ ((eraseReg s c o).task u).ctxs → c' ∈ (s.task u).ctxs := by
    intro u c' h
    rw [ctxs_eraseReg] at h
    split at h
    · next h1 => rw [h1]; exact List.mem_of_mem_erase h
    · exact h
  refine ⟨?_, ?_, ?_, ?_, ?_, ?_, j.na, j.good, j.head, j.newOK, j.after, j.exit⟩
  · intro t c' hc'
    rw [act_eraseReg]
    exact j.reg t c' (hc t c' hc')
  · intro t
    rw [ctxs_eraseReg]
    split
    · exact (j.nodup o).erase c
    · exact j.nodup t
  · intro t; rw [conts_eraseReg]; exact j.cnodup t
  · intro t u c'; rw [conts_eraseReg, conts_eraseReg]; exact j.cdisj t u c'
  · intro t c'; rw [conts_eraseReg]; exact j.cbound t c'
  · intro t c' hc' hd x hx hk
    rw [conts_eraseReg] at hc'
    have hne : c' ≠ c := fun h => hd (by simp [h])
    have hd' : c' ∉ d := fun h => hd (by simp [h])
    have := j.opn t c' hc' hd' x hx hk
    cases hxo : x.owner with
    | none => simpa [hxo] using this
    | some o' =>
      simp only [hxo] at this ⊢
      rw [ctxs_eraseReg]
      split
      · next h1 => rw [← h1]; exact (List.mem_erase_of_ne hne).2 this
      · exact this

/-! ### `__exit__` of one context -/

theorem conts_flag {s s' : State} {c : Nat} {b : Bool} (h : FlagOp s s' c b) (u : Nat) :
    (s'.task u).conts = (s.task u).conts := by rw [h.task]

theorem conts_ctxExit (s : State) (c u : Nat) : ((s.ctxExit c).task u).conts = (s.task u).conts := by
  cases h : s.ctxs[c]? with
  | none => rw [ctxExit_missing s c h, emit_task, (flagOp_pause _ _).task]
  | some x =>
    cases ho : x.owner with
    | none =>
      rw [ctxExit_none s c x h ho, emit_task]
      split
      · rfl
      · rw [(flagOp_pause _ _).task]
    | some o =>
      rw [ctxExit_some s c o x h ho, emit_task]
      split
      · exact conts_eraseReg ..
      · rw [(flagOp_pause _ _).task]; exact conts_eraseReg ..

theorem J_ctxExit {s : State} {d : List Nat} (t c : Nat) (j : J s d [])
    (hc : c ∈ (s.task t).conts.map (·.1)) (hd : c ∉ d) : J (s.ctxExit c) (c :: d) [] := by
  obtain ⟨x, hx⟩ : ∃ x, s.ctxs[c]? = some x := by
    have := j.cbound t c hc
    exact ⟨s.ctxs[c], List.getElem?_eq_getElem this⟩
  have hopn := j.opn t c hc hd x hx
  cases ho : x.owner with
  | none =>
    rw [ctxExit_none s c x hx ho]
    simp only [ho] at hopn
    by_cases hk : x.kind = .nonasync
    · simp only [hk, beq_self_eq_true, if_true]
      refine J_emitX c (J_done_mono (fun c' h => List.mem_cons_of_mem _ h) j) ?_
      simp [resumedD, hx, j.na c x hx hk]
    · have hk' : (x.kind == CtxKind.nonasync) = false := by simpa using hk
      simp only [hk', Bool.false_eq_true, if_false]
      have hf := flagOp_pause s c
      have j1 : J (s.ctxPauseOne c) (c :: d) [] := by
        have := J_flag (d := c :: d) hf (J_done_mono (fun c' h => List.mem_cons_of_mem _ h) j) x hx hk (by simpa using hopn hk)
          (fun t' ht' => by
            obtain ⟨y, hy, hyo, _⟩ := j.reg t' c ht'
            rw [hx] at hy; cases hy; rw [ho] at hyo; cases hyo)
          (.inl (by simp))
        simpa using this
      refine J_emitX c j1 ?_
      obtain ⟨x', hx', _, _, hr'⟩ := hf.eq x hx
      simp [resumedD, hx', hr']
  | some o =>
    rw [ctxExit_some s c o x hx ho]
    simp only [ho] at hopn
    have j0 : J (eraseReg s c o) (c :: d) [] := J_eraseReg c o j
    have hx0 : (eraseReg s c o).ctxs[c]? = some x := hx
    by_cases hk : x.kind = .nonasync
    · simp only [hk, beq_self_eq_true, Bool.true_or, if_true]
      refine J_emitX c j0 ?_
      simp [resumedD, hx0, j.na c x hx hk]
    · have hk' : (x.kind == CtxKind.nonasync) = false := by simpa using hk
      have hreg := hopn hk
      obtain ⟨y, hy, hyo, hyr⟩ := j.reg o c hreg
      rw [hx] at hy; cases hy
      have hres : x.resumed = (s.task o).ctxActive := by
        rcases hyr with h | h
        · exact absurd h hk
        · simpa using h
      cases hact : (s.task o).ctxActive with
      | false =>
        simp only [hk', Bool.not_false, Bool.or_true, if_true]
        refine J_emitX c j0 ?_
        simp [resumedD, hx0, hres, hact]
      | true =>
        simp only [hk', Bool.not_true, Bool.or_false, Bool.false_eq_true, if_false]
        have hf := flagOp_pause (eraseReg s c o) c
        have j1 : J ((eraseReg s c o).ctxPauseOne c) (c :: d) [] := by
          have := J_flag (d := c :: d) hf j0 x hx0 hk (by simp [hres, hact])
            (fun t' ht' => by
              exfalso
              rw [ctxs_eraseReg] at ht'
              split at ht'
              · exact ((j.nodup o).mem_erase_iff.1 ht').1 rfl
              · next hne =>
                obtain ⟨y, hy, hyo, _⟩ := j.reg t' c ht'
                rw [hx] at hy; cases hy; rw [ho] at hyo; cases hyo; exact hne rfl)
            (.inl (by simp))
          simpa using this
        refine J_emitX c j1 ?_
        obtain ⟨x', hx', _, _, hr'⟩ := hf.eq x hx0
        simp [resumedD, hx', hr']

/-! ### leaving all open with-blocks -/

theorem conts_foldExit (l : List (Nat × Body)) (s : State) (u : Nat) :
    ((l.foldl (fun s p => s.ctxExit p.1) s).task u).conts = (s.task u).conts := by
  induction l generalizing s with
  | nil => rfl
  | cons p l ih => rw [List.foldl_cons, ih, conts_ctxExit]

theorem J_foldExit (t : Nat) (l : List (Nat × Body)) : ∀ (s : State) (d : List Nat), J s d [] →
    (∀ p ∈ l, p.1 ∈ (s.task t).conts.map (·.1)) → (l.map (·.1)).Nodup → (∀ p ∈ l, p.1 ∉ d) →
    J (l.foldl (fun s p => s.ctxExit p.1) s) ((l.map (·.1)).reverse ++ d) [] := by
  induction l with
  | nil => intro s d j _ _ _; simpa using j
  | cons p l ih =>
    intro s d j h1 h2 h3
    rw [List.foldl_cons]
    have j1 := J_ctxExit t p.1 j (h1 p (by simp)) (h3 p (by simp))
    rw [List.map_cons, List.nodup_cons] at h2
    have := ih (s.ctxExit p.1) (p.1 :: d) j1
      (fun q hq => by rw [conts_ctxExit]; exact h1 q (by simp [hq])) h2.2
      (fun q hq hm => by
        rcases List.mem_cons.1 hm with h | h
        · exact h2.1 (h ▸ List.mem_map_of_mem hq)
        · exact h3 q (by simp [hq]) h)
    simpa using this

/-- removing entries from the list of open with-blocks of `t`, among them all the exited ones -/
theorem J_setConts {s : State} {d : List Nat} (t : Nat) (g : TaskSt → TaskSt) (j : J s d [])
    (hg1 : ∀ x, (g x).ctxs = x.ctxs) (hg2 : ∀ x, (g x).ctxActive = x.ctxActive)
    (hsub : ((g (s.task t)).conts.map (·.1)).Sublist ((s.task t).conts.map (·.1)))
    (hd : ∀ c ∈ d, c ∈ (s.task t).conts.map (·.1) ∧ c ∉ (g (s.task t)).conts.map (·.1)) :
    J (s.updTask t g) [] [] := by
  have hsub' : ∀ u, (((s.updTask t g).task u).conts.map (·.1)).Sublist ((s.task u).conts.map (·.1)) := by
    intro u; rw [task_updTask]
    split
    · next h => rw [h.1]; exact hsub
    · exact List.Sublist.refl _
  have hnd : ∀ c ∈ d, ∀ u, c ∉ ((s.updTask t g).task u).conts.map (·.1) := by
    intro c hc u hm
    rw [task_updTask] at hm
    split at hm
    · exact (hd c hc).2 hm
    · next hne =>
      have := j.cdisj t u c (hd c hc).1 hm
      subst this
      have hlt : ¬ t < s.futs.length := fun h => hne ⟨rfl, h⟩
      rw [task_default s t (Nat.le_of_not_lt hlt)] at hm
      simp at hm
  have hctxs : ∀ u, ((s.updTask t g).task u).ctxs = (s.task u).ctxs := fun u => task_updTask_field s t u g (·.ctxs) hg1
  have hact : ∀ u, ((s.updTask t g).task u).ctxActive = (s.task u).ctxActive :=
    fun u => task_updTask_field s t u g (·.ctxActive) hg2
  refine ⟨?_, ?_, ?_, ?_, ?_, ?_, j.na, j.good, j.head, j.newOK, j.after, j.exit⟩
  · intro u c hc; rw [hctxs] at hc; rw [hact]; exact j.reg u c hc
  · intro u; rw [hctxs]; exact j.nodup u
  · intro u; exact (hsub' u).nodup (j.cnodup u)
  · intro u v c h1 h2; exact j.cdisj u v c ((hsub' u).subset h1) ((hsub' v).subset h2)
  · intro u c h1; exact j.cbound u c ((hsub' u).subset h1)
  · intro u c h1 _ x hx hk
    have := j.opn u c ((hsub' u).subset h1) (fun hm => hnd c hm u h1) x hx hk
    cases hxo : x.owner with
    | none => simpa [hxo] using this
    | some o => simp only [hxo] at this ⊢; rw [hctxs]; exact this

theorem J_exitAll {s : State} (t : Nat) (j : J s [] []) : J (s.exitAll t) [] [] := by
  unfold State.exitAll
  have j1 := J_foldExit t (s.task t).conts s [] j (fun p hp => List.mem_map_of_mem hp) (j.cnodup t) (fun _ _ => by simp)
  refine J_setConts t _ j1 (fun _ => rfl) (fun _ => rfl) (by simp) ?_
  intro c hc
  rw [conts_foldExit]
  simpa using hc

theorem J_failSuspended {s : State} (t : Nat) (e : Err) (j : J s [] []) : J (s.failSuspended t e) [] [] := by
  unfold State.failSuspended
  split
  · exact j
  · refine J_ext (ext_complete ..) ?_
    refine J_ext (ext_updTask _ _ _ (fun _ => rfl) (fun _ => rfl) (fun _ => rfl) (fun _ => .inl rfl) (fun _ h => h)) ?_
    exact J_exitAll t j

/-! ### resuming / pausing the contexts of a task -/

theorem J_setActive {s : State} (t : Nat) (b : Bool) (j : J s [] []) (hb : (s.task t).ctxActive = !b)
    (ht : t < s.futs.length) : J (s.updTask t fun ts => { ts with ctxActive := b }) [] (s.task t).ctxs := by
  have hctxs : ∀ u, ((s.updTask t fun ts => { ts with ctxActive := b }).task u).ctxs = (s.task u).ctxs :=
    fun u => task_updTask_field s t u _ (·.ctxs) (fun _ => rfl)
  have hconts : ∀ u, ((s.updTask t fun ts => { ts with ctxActive := b }).task u).conts = (s.task u).conts :=
    fun u => task_updTask_field s t u _ (·.conts) (fun _ => rfl)
  refine ⟨?_, ?_, ?_, ?_, ?_, ?_, j.na, j.good, j.head, j.newOK, j.after, j.exit⟩
  · intro u c hc
    rw [hctxs] at hc
    obtain ⟨x, hx, hxo, hxr⟩ := j.reg u c hc
    refine ⟨x, hx, hxo, ?_⟩
    rcases hxr with h | h
    · exact .inl h
    · refine .inr ?_
      by_cases hu : u = t
      · subst hu
        rw [task_updTask_self _ _ _ ht]
        simp [hc, h, hb]
      · rw [task_updTask_ne _ _ _ _ hu, h]
        have : c ∉ (s.task t).ctxs := by
          intro hm
          obtain ⟨y, hy, hyo, _⟩ := j.reg t c hm
          rw [hx] at hy; cases hy; rw [hxo] at hyo; cases hyo; exact hu rfl
        simp [this]
  · intro u; rw [hctxs]; exact j.nodup u
  · intro u; rw [hconts]; exact j.cnodup u
  · intro u v c; rw [hconts, hconts]; exact j.cdisj u v c
  · intro u c; rw [hconts]; exact j.cbound u c
  · intro u c h1 h2 x hx hk
    rw [hconts] at h1
    have := j.opn u c h1 h2 x hx hk
    cases hxo : x.owner with
    | none => simpa [hxo] using this
    | some o => simp only [hxo] at this ⊢; rw [hctxs]; exact this

theorem task_flipOne (b : Bool) (s : State) (c u : Nat) : (flipOne b s c).task u = s.task u := by
  unfold flipOne
  split
  · rfl
  · split
    · exact (flagOp_resume ..).task u
    · exact (flagOp_pause ..).task u

theorem task_foldFlip (b : Bool) (l : List Nat) (s : State) (u : Nat) : (l.foldl (flipOne b) s).task u = s.task u := by
  induction l generalizing s with
  | nil => rfl
  | cons c l ih => rw [List.foldl_cons, ih, task_flipOne]

theorem J_flipOne {s : State} {d rest : List Nat} (b : Bool) (t c : Nat) (j : J s d (c :: rest)) (hc : c ∉ rest)
    (hreg : c ∈ (s.task t).ctxs) (hact : (s.task t).ctxActive = b) : J (flipOne b s c) d rest := by
  obtain ⟨x, hx, hxo, hxr⟩ := j.reg t c hreg
  unfold flipOne State.ctxIsNonAsync
  simp only [hx]
  by_cases hk : x.kind = .nonasync
  · simp only [hk, beq_self_eq_true, if_true]
    refine { j with reg := ?_ }
    intro u c' hc'
    obtain ⟨y, hy, hyo, hyr⟩ := j.reg u c' hc'
    refine ⟨y, hy, hyo, ?_⟩
    by_cases hcc : c' = c
    · subst hcc; rw [hx] at hy; cases hy; exact .inl hk
    · rcases hyr with h | h
      · exact .inl h
      · exact .inr (by rw [h]; simp [hcc])
  · have hk' : (x.kind == CtxKind.nonasync) = false := by simpa using hk
    simp only [hk', Bool.false_eq_true, if_false]
    have hres : x.resumed = !b := by
      rcases hxr with h | h
      · exact absurd h hk
      · rw [h, hact]; simp
    have hfil : (c :: rest).filter (· != c) = rest := by
      rw [List.filter_cons]
      simp only [bne_self_eq_false, Bool.false_eq_true, if_false]
      rw [List.filter_eq_self]
      intro a ha
      simp only [bne_iff_ne, ne_eq]
      intro h; exact hc (h ▸ ha)
    cases b with
    | true =>
      simp only [if_true]
      have := J_flag (flagOp_resume s c) j x hx hk hres (fun _ _ => by simp) (.inr (.inr (.inl rfl)))
      rwa [hfil] at this
    | false =>
      simp only [Bool.false_eq_true, if_false]
      have := J_flag (flagOp_pause s c) j x hx hk hres (fun _ _ => by simp) (.inr (.inl (by rw [hxo]; simp)))
      rwa [hfil] at this

theorem J_foldFlip (b : Bool) (t : Nat) (l : List Nat) : ∀ (s : State) (d : List Nat), J s d l → l.Nodup →
    (∀ c ∈ l, c ∈ (s.task t).ctxs) → (s.task t).ctxActive = b → J (l.foldl (flipOne b) s) d [] := by
  induction l with
  | nil => intro s d j _ _ _; exact j
  | cons c l ih =>
    intro s d j hn hm ha
    rw [List.nodup_cons] at hn
    rw [List.foldl_cons]
    refine ih _ d (J_flipOne b t c j hn.1 (hm c (by simp)) ha) hn.2 ?_ ?_
    · intro c' hc'; rw [task_flipOne]; exact hm c' (by simp [hc'])
    · rw [task_flipOne]; exact ha

theorem J_resumeContexts {s : State} (t : Nat) (j : J s [] []) (ht : t < s.futs.length) :
    J (s.resumeContexts t) [] [] := by
  rw [resumeContexts_eq]
  split
  · exact j
  · next hact =>
    simp only
    have j0 := J_setActive t true j (by simpa using hact) ht
    have hts : (s.updTask t fun ts => { ts with ctxActive := true }).task t = { s.task t with ctxActive := true } :=
      task_updTask_self _ _ _ ht
    have j1 := J_foldFlip true t (s.task t).ctxs _ [] j0 (j.nodup t) (fun c hc => by rw [hts]; exact hc)
      (by rw [hts])
    split
    · exact J_failSuspended t _ j1
    · exact j1

theorem J_pauseContexts {s : State} (t : Nat) (j : J s [] []) (ht : t < s.futs.length) :
    J (s.pauseContexts t) [] [] := by
  rw [pauseContexts_eq]
  split
  · exact j
  · next hact =>
    simp only
    have j0 := J_setActive t false j (by simpa using hact) ht
    have hts : (s.updTask t fun ts => { ts with ctxActive := false }).task t = { s.task t with ctxActive := false } :=
      task_updTask_self _ _ _ ht
    have j0' : J (s.updTask t fun ts => { ts with ctxActive := false }) [] (s.task t).ctxs.reverse := by
      refine { j0 with reg := ?_ }
      intro u c hc
      obtain ⟨x, hx, hxo, hxr⟩ := j0.reg u c hc
      exact ⟨x, hx, hxo, by simpa using hxr⟩
    have j1 := J_foldFlip false t (s.task t).ctxs.reverse _ [] j0' (nodup_reverse (j.nodup t))
      (fun c hc => by rw [hts]; exact List.mem_reverse.1 hc) (by rw [hts])
    split
    · exact J_failSuspended t _ j1
    · exact j1

end AsynqModel.Core.P5
