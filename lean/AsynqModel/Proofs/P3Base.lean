import AsynqModel.Core.Reach
/-
  P3 (property C08), part 1: the vocabulary of the proof.

  * `Ext P s s'`   : the trace of `s'` is the trace of `s` with some events satisfying `P` prepended
  * `Trans P s s' ctl' a' st'` : `s'` has control stack `ctl'`, active task `a'`, task stack `st'`, the same
    `guardFired`, no new propagating exception, and `Ext P s s'`
  * `Quiet P s s'` : a `Trans` that leaves `ctl`, `active`, `stack` alone (the heap-side helpers)
  * `neutral e`    : `e` is none of the events C08 talks about (`active`, `sched`, `new _ (.task _)`)
  and the `Quiet` lemma of every heap-side helper of the machine.
-/
namespace AsynqModel.Core.P3
open AsynqModel.Core

/-- events C08 does not speak about -/
def neutral : Event → Bool
  | .active _ _ => false
  | .sched _ _ _ _ _ => false
  | .new _ (.task _) => false
  | _ => true

def N (e : Event) : Prop := neutral e = true

/-- `s'.trace` = new events (all satisfying `P`) ++ `s.trace` -/
def Ext (P : Event → Prop) (s s' : State) : Prop :=
  ∃ pre, s'.trace = pre ++ s.trace ∧ ∀ e ∈ pre, P e

theorem Ext.refl (P) (s : State) : Ext P s s := ⟨[], rfl, by simp⟩

theorem Ext.of_trace_eq {P} {s s' : State} (h : s'.trace = s.trace) : Ext P s s' := ⟨[], by simp [h], by simp⟩

theorem Ext.trans {P} {s s' s'' : State} (h1 : Ext P s s') (h2 : Ext P s' s'') : Ext P s s'' := by
  obtain ⟨p1, e1, q1⟩ := h1
  obtain ⟨p2, e2, q2⟩ := h2
  refine ⟨p2 ++ p1, by simp [e2, e1], ?_⟩
  intro e he
  rcases List.mem_append.1 he with h | h
  · exact q2 e h
  · exact q1 e h

theorem Ext.mono {P Q : Event → Prop} {s s' : State} (hpq : ∀ e, P e → Q e) (h : Ext P s s') : Ext Q s s' := by
  obtain ⟨p, e, q⟩ := h
  exact ⟨p, e, fun x hx => hpq x (q x hx)⟩

theorem Ext.emit {P} (s : State) (e : Event) (h : P e) : Ext P s (s.emit e) :=
  ⟨[e], rfl, by simpa using h⟩

/-- an invariant of the whole trace survives an extension by events that satisfy it -/
theorem Ext.forall {P Q : Event → Prop} {s s' : State} (h : Ext P s s') (hpq : ∀ e, P e → Q e)
    (hs : ∀ e ∈ s.trace, Q e) : ∀ e ∈ s'.trace, Q e := by
  obtain ⟨p, e, q⟩ := h
  intro x hx
  rw [e] at hx
  rcases List.mem_append.1 hx with h | h
  · exact hpq x (q x h)
  · exact hs x h

/-- the shape of a transition as far as C08 is concerned -/
structure Trans (P : Event → Prop) (s s' : State) (ctl' : List Ctl) (a' : Option Nat) (st' : List Nat) : Prop where
  ctl : s'.ctl = ctl'
  active : s'.active = a'
  stack : s'.stack = st'
  guard : s'.guardFired = s.guardFired
  raising : s.raising = none → s'.raising = none
  cfg : s'.cfg = s.cfg
  trace : Ext P s s'

abbrev Quiet (P : Event → Prop) (s s' : State) : Prop := Trans P s s' s.ctl s.active s.stack

theorem Quiet.refl (P) (s : State) : Quiet P s s :=
  ⟨rfl, rfl, rfl, rfl, id, rfl, Ext.refl P s⟩

theorem Trans.mono {P Q : Event → Prop} {s s' c a st} (hpq : ∀ e, P e → Q e) (h : Trans P s s' c a st) :
    Trans Q s s' c a st :=
  ⟨h.ctl, h.active, h.stack, h.guard, h.raising, h.cfg, h.trace.mono hpq⟩

/-- a quiet prefix followed by any transition -/
theorem Trans.after {P} {s s1 s' c a st} (h1 : Quiet P s s1) (h2 : Trans P s1 s' c a st) : Trans P s s' c a st :=
  ⟨h2.ctl, h2.active, h2.stack, h2.guard.trans h1.guard, fun h => h2.raising (h1.raising h), h2.cfg.trans h1.cfg,
   h1.trace.trans h2.trace⟩

/-- any transition followed by a quiet suffix -/
theorem Trans.andThen {P} {s s1 s' c a st} (h1 : Trans P s s1 c a st) (h2 : Quiet P s1 s') : Trans P s s' c a st :=
  ⟨h2.ctl.trans h1.ctl, h2.active.trans h1.active, h2.stack.trans h1.stack, h2.guard.trans h1.guard,
   fun h => h2.raising (h1.raising h), h2.cfg.trans h1.cfg, h1.trace.trans h2.trace⟩

theorem Quiet.trans {P} {s s1 s2 : State} (h1 : Quiet P s s1) (h2 : Quiet P s1 s2) : Quiet P s s2 := by
  have := Trans.after h1 h2
  rw [h1.ctl, h1.active, h1.stack] at this
  exact this

/-- a state that differs from `s` only in fields C08 does not look at -/
theorem Quiet.of_eq {P} {s s' : State} (h1 : s'.ctl = s.ctl) (h2 : s'.active = s.active) (h3 : s'.stack = s.stack)
    (h4 : s'.guardFired = s.guardFired) (h5 : s'.raising = s.raising) (h6 : s'.cfg = s.cfg)
    (h7 : s'.trace = s.trace) : Quiet P s s' :=
  ⟨h1, h2, h3, h4, fun h => by rw [h5, h], h6, Ext.of_trace_eq h7⟩

/-- changing `ctl`, `active`, `stack` after a quiet prefix -/
theorem Quiet.withCAS {P} {s s1 : State} (h : Quiet P s s1) (c : List Ctl) (a : Option Nat) (st : List Nat) :
    Trans P s { s1 with ctl := c, active := a, stack := st } c a st :=
  ⟨rfl, rfl, rfl, h.guard, h.raising, h.cfg, h.trace⟩

/-! ### the heap-side helpers are quiet -/

theorem q_emit {P} (s : State) (e : Event) (h : P e) : Quiet P s (s.emit e) :=
  ⟨rfl, rfl, rfl, rfl, id, rfl, Ext.emit s e h⟩

theorem q_emitN (s : State) (e : Event) (h : neutral e = true) : Quiet N s (s.emit e) := q_emit s e h

theorem q_setFut {P} (s : State) (f : Nat) (x : Fut) : Quiet P s (s.setFut f x) :=
  Quiet.of_eq rfl rfl rfl rfl rfl rfl rfl

theorem q_updTask {P} (s : State) (t : Nat) (g : TaskSt → TaskSt) : Quiet P s (s.updTask t g) :=
  Quiet.of_eq rfl rfl rfl rfl rfl rfl rfl

theorem q_fail {P} (s : State) (m : String) : Quiet P s (s.fail m) :=
  Quiet.of_eq rfl rfl rfl rfl rfl rfl rfl

theorem q_updBatch {P} (s : State) (k q : Nat) (g : Batch → Batch) : Quiet P s (s.updBatch k q g) :=
  Quiet.of_eq rfl rfl rfl rfl rfl rfl rfl

theorem q_svSet {P} (s : State) (var val : Nat) : Quiet P s (s.svSet var val) := by
  unfold State.svSet
  split <;> exact Quiet.of_eq rfl rfl rfl rfl rfl rfl rfl

theorem q_svTouch {P} (s : State) (var : Nat) : Quiet P s (s.svTouch var) := by
  unfold State.svTouch
  split
  · exact Quiet.refl _ _
  · exact Quiet.of_eq rfl rfl rfl rfl rfl rfl rfl

theorem q_complete (s : State) (f : Nat) (o : Outcome) : Quiet N s (s.complete f o) := by
  unfold State.complete
  exact (q_setFut s _ _).trans (q_emitN _ _ rfl)

theorem q_alloc (s : State) (x : Fut) (nk : NewKind) (h : neutral (.new s.futs.length nk) = true) :
    Quiet N s (s.alloc x nk).1 := by
  unfold State.alloc
  exact Quiet.trans (s1 := { s with futs := s.futs ++ [x] }) (Quiet.of_eq rfl rfl rfl rfl rfl rfl rfl) (q_emitN _ _ h)

theorem q_ctxSetResumed {P} (s : State) (c : Nat) (r : Bool) : Quiet P s (s.ctxSetResumed c r) := by
  unfold State.ctxSetResumed
  split
  · exact Quiet.of_eq rfl rfl rfl rfl rfl rfl rfl
  · exact Quiet.refl _ _

theorem q_ctxResumeOne (s : State) (c : Nat) : Quiet N s (s.ctxResumeOne c) := by
  unfold State.ctxResumeOne
  have h0 : Quiet N s ((s.emit (.ctx true c)).ctxSetResumed c true) := (q_emitN s _ rfl).trans (q_ctxSetResumed _ _ _)
  refine h0.trans ?_
  generalize (s.emit (.ctx true c)).ctxSetResumed c true = s1
  dsimp only
  split
  · split
    · exact Quiet.trans (q_svSet s1 _ _) (Quiet.of_eq rfl rfl rfl rfl rfl rfl rfl)
    · exact Quiet.refl _ _
  · exact Quiet.refl _ _

theorem q_ctxPauseOne (s : State) (c : Nat) : Quiet N s (s.ctxPauseOne c) := by
  unfold State.ctxPauseOne
  have h0 : Quiet N s ((s.emit (.ctx false c)).ctxSetResumed c false) := (q_emitN s _ rfl).trans (q_ctxSetResumed _ _ _)
  refine h0.trans ?_
  generalize (s.emit (.ctx false c)).ctxSetResumed c false = s1
  dsimp only
  split
  · split
    · exact q_svSet s1 _ _
    · exact Quiet.refl _ _
  · exact Quiet.refl _ _

theorem q_ownerUpd {P} (s : State) (c : Nat) (owner : Option Nat) : Quiet P s (match owner with
    | some o => s.updTask o fun ts => { ts with ctxs := ts.ctxs.erase c }
    | none => s) := by
  cases owner
  · exact Quiet.refl _ _
  · exact q_updTask _ _ _

/-- `ctxExit` with the owner lookup abstracted -/
def ctxExitAux (s : State) (c : Nat) (owner : Option Nat) : State :=
  let s := match owner with
    | some o => s.updTask o fun ts => { ts with ctxs := ts.ctxs.erase c }
    | none => s
  let active := match owner with
    | some o => (s.task o).ctxActive
    | none => true
  let s := if s.ctxIsNonAsync c || !active then s else s.ctxPauseOne c
  s.emit (.ctxX c)

theorem ctxExit_eq (s : State) (c : Nat) :
    s.ctxExit c = ctxExitAux s c (match s.ctxs[c]? with | some x => x.owner | none => none) := rfl

theorem q_ctxExit (s : State) (c : Nat) : Quiet N s (s.ctxExit c) := by
  rw [ctxExit_eq]
  generalize (match s.ctxs[c]? with | some x => x.owner | none => none) = owner
  unfold ctxExitAux
  refine Quiet.trans ?_ (q_emitN _ _ rfl)
  cases owner <;> dsimp only
  · split
    · exact Quiet.refl _ _
    · exact q_ctxPauseOne _ _
  · split
    · exact q_updTask _ _ _
    · exact (q_updTask _ _ _).trans (q_ctxPauseOne _ _)

/-- a left fold of quiet functions is quiet -/
theorem q_foldl {P} {α : Type} (g : State → α → State) (hg : ∀ s a, Quiet P s (g s a)) (l : List α) (s : State) :
    Quiet P s (l.foldl g s) := by
  induction l generalizing s with
  | nil => exact Quiet.refl _ _
  | cons a l ih => exact (hg s a).trans (ih _)

theorem q_exitAll (s : State) (t : Nat) : Quiet N s (s.exitAll t) := by
  unfold State.exitAll
  exact (q_foldl (fun s (p : Nat × Body) => s.ctxExit p.1) (fun s p => q_ctxExit s p.1) _ s).trans (q_updTask _ _ _)

theorem q_failSuspended (s : State) (t : Nat) (e : Err) : Quiet N s (s.failSuspended t e) := by
  unfold State.failSuspended
  split
  · exact Quiet.refl _ _
  · exact ((q_exitAll s t).trans (q_updTask _ _ _)).trans (q_complete _ _ _)

theorem q_resumeContexts (s : State) (t : Nat) : Quiet N s (s.resumeContexts t) := by
  unfold State.resumeContexts
  dsimp only
  split
  · exact Quiet.refl _ _
  · have h : Quiet N s ((s.task t).ctxs.foldl (fun s c => if s.ctxIsNonAsync c then s else s.ctxResumeOne c)
        (s.updTask t fun ts => { ts with ctxActive := true })) :=
      (q_updTask s t _).trans (q_foldl _ (fun s c => by
        split
        · exact Quiet.refl _ _
        · exact q_ctxResumeOne _ _) _ _)
    split
    · exact h.trans (q_failSuspended _ _ _)
    · exact h

theorem q_pauseContexts (s : State) (t : Nat) : Quiet N s (s.pauseContexts t) := by
  unfold State.pauseContexts
  dsimp only
  split
  · exact Quiet.refl _ _
  · have h : Quiet N s ((s.task t).ctxs.reverse.foldl (fun s c => if s.ctxIsNonAsync c then s else s.ctxPauseOne c)
        (s.updTask t fun ts => { ts with ctxActive := false })) :=
      (q_updTask s t _).trans (q_foldl _ (fun s c => by
        split
        · exact Quiet.refl _ _
        · exact q_ctxPauseOne _ _) _ _)
    split
    · exact h.trans (q_failSuspended _ _ _)
    · exact h

theorem q_switchActive {P} (s : State) (k q : Nat) : Quiet P s (s.switchActive k q) := by
  unfold State.switchActive
  split
  · split
    · exact Quiet.of_eq rfl rfl rfl rfl rfl rfl rfl
    · exact Quiet.refl _ _
  · exact Quiet.refl _ _

theorem q_flushItems (s : State) (kind : Nat) (l : List Nat) : Quiet N s (s.flushItems kind l) := by
  induction l generalizing s with
  | nil => exact Quiet.refl _ _
  | cons i is ih =>
    unfold State.flushItems
    refine Quiet.trans ?_ (ih _)
    split
    · exact Quiet.refl _ _
    · split
      · exact q_complete _ _ _
      · exact q_complete _ _ _
      · exact Quiet.refl _ _

theorem q_finishItems (s : State) (e : Err) (l : List Nat) : Quiet N s (s.finishItems e l) := by
  induction l generalizing s with
  | nil => exact Quiet.refl _ _
  | cons i is ih =>
    unfold State.finishItems
    refine Quiet.trans ?_ (ih _)
    split
    · exact Quiet.refl _ _
    · exact q_complete _ _ _

theorem q_flushBatch (s : State) (k q : Nat) : Quiet N s (s.flushBatch k q) := by
  unfold State.flushBatch
  split
  · exact q_fail _ _
  · dsimp only
    exact ((((q_switchActive s k q).trans (q_emitN _ _ rfl)).trans (q_flushItems _ _ _)).trans
      (q_finishItems _ _ _)).trans ((q_emitN _ _ rfl).trans (q_updBatch _ _ _ _))

end AsynqModel.Core.P3
