import AsynqModel.Proofs.P10Gen
import AsynqModel.Proofs.P3Shape
import AsynqModel.Proofs.P1Prio
/-
  P10, part 7: `step_sh` - every step of the machine has one of fifteen shapes, each saying what happens to the
  control stack and the task stack, with the heap-side description `HP` / `HP0` attached.
-/
namespace AsynqModel.Core.P10
open AsynqModel.Core

/-- the guard of `handleTask`: the task's generator is already executing -/
def inGens (ctl : List Ctl) (t : Nat) : Bool :=
  ctl.any fun c => match c with | .gen u _ => u == t | _ => false

/-- every top-level computation still to run is well-scoped -/
def TopsWS (s : State) : Prop := ∀ p, p ∈ s.tops → WellScoped p.2 0 0 = true

/-- `depsSched` flags are only reset -/
def SchedAnti (s r : State) : Prop := ∀ f, (r.task f).depsSched = true → (s.task f).depsSched = true

inductive Sh (s r : State) : Prop
  /-- nothing happens to the control stack and the task stack -/
  | same (h : HP s r) (c : r.ctl = s.ctl)
  /-- a top-level computation starts -/
  | top (f : Nat) (hc : s.ctl = []) (h : TopsWS s → HP s r) (c : r.ctl = [.waitEnter f]) (hf : f < r.futs.length)
  /-- an exception leaves a `wait_for` -/
  | popRaise (hr : s.raising.isSome = true) (h : HP s r) (c : r.ctl = s.ctl.tail)
  /-- `wait_for(root)` returns before `_execute` -/
  | popEnter (root : Nat) (rest : List Ctl) (hc : s.ctl = .waitEnter root :: rest) (h : HP s r) (c : r.ctl = rest)
  /-- `_execute(root)` starts -/
  | enterLoop (root : Nat) (rest : List Ctl) (hc : s.ctl = .waitEnter root :: rest) (hr : s.raising = none)
      (h : HP0 s r) (sched : SchedAnti s r) (c : r.ctl = .waitLoop root s.stack.length :: rest)
      (st : r.stack = root :: s.stack)
  /-- the MAX_TASK_STACK_SIZE guard fires -/
  | guard (root base : Nat) (rest : List Ctl) (hc : s.ctl = .waitLoop root base :: rest) (e : r = P3.guardReset s)
  /-- the top of the stack is popped: computed, or not a task, or a task at its second visit -/
  | popStack (root base : Nat) (rest : List Ctl) (top : Nat) (st : List Nat)
      (hc : s.ctl = .waitLoop root base :: rest) (hr : s.raising = none) (hlen : base < s.stack.length)
      (hst : s.stack = top :: st)
      (h : HP0 s r) (sched : SchedAnti s r) (c : r.ctl = s.ctl) (st' : r.stack = st)
      (hpop : r.computed top = true ∨ (r.task top).depsSched = false ∨ (s.fut top).kind ≠ .task)
  /-- first visit of a blocked task: flagged, uncomputed dependencies pushed -/
  | pushDeps (root base : Nat) (rest : List Ctl) (top : Nat) (st ds : List Nat)
      (hc : s.ctl = .waitLoop root base :: rest) (hr : s.raising = none) (hlen : base < s.stack.length)
      (hst : s.stack = top :: st)
      (h : HP0 s r) (hk : (s.fut top).kind = .task) (hflag : (s.task top).depsSched = false)
      (sched : ∀ f, f ≠ top → (r.task f).depsSched = true → (s.task f).depsSched = true)
      (hds : ∀ d, d ∈ ds → d ∈ (s.task top).deps) (c : r.ctl = s.ctl) (st' : r.stack = ds ++ s.stack)
  /-- `_continue_with_task(top)` -/
  | enterGen (root base : Nat) (rest : List Ctl) (top : Nat) (st : List Nat) (old : Option Nat)
      (hc : s.ctl = .waitLoop root base :: rest) (hr : s.raising = none) (hlen : base < s.stack.length)
      (hst : s.stack = top :: st) (h : HP s r) (c : r.ctl = .gen top old :: s.ctl)
  /-- the generator of the task on top of the stack is already executing: the model gives up -/
  | reentrant (root base : Nat) (rest : List Ctl) (top : Nat) (st : List Nat)
      (hc : s.ctl = .waitLoop root base :: rest) (hr : s.raising = none) (hlen : base < s.stack.length)
      (hst : s.stack = top :: st) (hin : inGens s.ctl top = true) (e : r = s.fail "re-entrant task")
  /-- `_execute` returns, root computed -/
  | popLoop (root base : Nat) (rest : List Ctl) (hc : s.ctl = .waitLoop root base :: rest) (hr : s.raising = none)
      (hlen : s.stack.length ≤ base) (h : HP s r) (c : r.ctl = rest)
  /-- `_execute` returns, root not computed: scheduler flush, `wait_for` loops -/
  | flush (root base : Nat) (rest : List Ctl) (hc : s.ctl = .waitLoop root base :: rest) (hr : s.raising = none)
      (hlen : s.stack.length ≤ base) (h : HP s r) (c : r.ctl = .waitEnter root :: rest)
  /-- the running task yields or finishes -/
  | genLeave (t : Nat) (old : Option Nat) (rest : List Ctl) (hc : s.ctl = .gen t old :: rest) (h : HP s r)
      (c : r.ctl = rest)
  /-- the running task makes a synchronous call -/
  | genCall (t : Nat) (old : Option Nat) (rest : List Ctl) (f : Nat) (hc : s.ctl = .gen t old :: rest) (h : HP s r)
      (c : r.ctl = .waitEnter f :: s.ctl) (n : HInv s → Named r t f)

/-! ### `_handle_async_task` -/

theorem handleTask_sh (s : State) (root base : Nat) (rest : List Ctl) (t : Nat) (st : List Nat)
    (hc : s.ctl = .waitLoop root base :: rest) (hr : s.raising = none) (hlen : base < s.stack.length)
    (hst : s.stack = t :: st) (hk : (s.fut t).kind = .task) : Sh s (s.handleTask t) := by
  have ht : t < s.futs.length := P2.lt_of_kind s t (by rw [hk]; intro h; cases h)
  unfold State.handleTask
  dsimp only
  split
  · split
    · -- second visit
      have nz : NZ s ((s.updTask t fun ts => { ts with depsSched := false }).pauseContexts t) :=
        (nz_updTask _ _ _ keep_sched_false).trans (nz_pauseContexts _ _)
      refine .popStack root base rest t st hc hr hlen hst (nz.hp.toHP0.congr rfl rfl rfl rfl) ?_ nz.ctl ?_ ?_
      · intro f hf; exact nz.hp.sched f hf
      · show (State.stack _).tail = st
        rw [nz.stack, hst]; rfl
      · right; left
        cases hh : ((State.popStack _).task t).depsSched with
        | false => rfl
        | true =>
          have h1 := ((nz_pauseContexts (s.updTask t fun ts => { ts with depsSched := false }) t).ts t).sched hh
          rw [task_updTask_self _ _ _ ht] at h1
          cases h1
    · -- first visit
      rename_i hflag
      have hflag : (s.task t).depsSched = false := by
        cases h : (s.task t).depsSched with
        | false => rfl
        | true => exact absurd h hflag
      have h1 : HP0 s (s.updTask t fun ts => { ts with depsSched := true }) := by
        refine hp0_upd t _ rfl rfl rfl rfl rfl rfl ?_ ?_ ?_ ?_ id
        · intro hi; rw [← hi.ws t]; exact wsTS_congr rfl rfl rfl rfl
        · intro hi d hd; exact hi.deps t d hd
        · intro hi d hd; exact hi.lastY t d hd
        · intro hi d hd; exact hi.prevY t d hd
      have nz := nz_resumeContexts (s.updTask t fun ts => { ts with depsSched := true }) t
      refine .pushDeps root base rest t st
        (((s.task t).deps.filter fun d =>
          !((s.updTask t fun ts => { ts with depsSched := true }).resumeContexts t).computed d).reverse) hc hr hlen hst
        ((h1.trans nz.hp.toHP0).congr rfl rfl rfl rfl) hk hflag ?_ ?_ nz.ctl ?_
      · intro f hne hf
        have := nz.hp.sched f hf
        rw [task_updTask_ne _ _ _ _ hne] at this
        exact this
      · intro d hd
        rw [List.mem_reverse] at hd
        exact (List.mem_filter.1 hd).1
      · show _ ++ State.stack _ = _
        rw [nz.stack]; rfl
  · split
    · rename_i hin
      exact .reentrant root base rest t st hc hr hlen hst hin rfl
    · have nz := nz_resumeContexts s t
      exact .enterGen root base rest t st (s.resumeContexts t).active hc hr hlen hst
        (nz.hp.congr rfl rfl rfl rfl rfl) (by simp [nz.ctl])

/-! ### one iteration of `_execute` -/

theorem executeIter_sh (s : State) (root base : Nat) (rest : List Ctl)
    (hc : s.ctl = .waitLoop root base :: rest) (hr : s.raising = none) (hlen : base < s.stack.length)
    (hcd : ConstDone s) (hsb : ∀ e, e ∈ s.stack → e < s.futs.length) :
    Sh s s.executeIter := by
  unfold State.executeIter
  split
  · rename_i hnil; rw [hnil] at hlen; cases hlen
  · rename_i top st hst
    split
    · exact .guard root base rest hc rfl
    · split
      · rename_i hcomp
        exact .popStack root base rest top st hc hr hlen hst (hp0_of_futs rfl rfl rfl rfl) (fun _ h => h) rfl
          (by simp [State.popStack, hst]) (.inl hcomp)
      · split
        · rename_i hk; exact handleTask_sh s root base rest top st hc hr hlen hst hk
        · rename_i kind seq _ _ hk
          refine .popStack root base rest top st hc hr hlen hst (hp0_of_futs ?_ ?_ ?_ ?_) ?_ ?_ ?_
            (.inr (.inr (by rw [hk]; intro h; cases h)))
          all_goals (repeat' split) <;> first | rfl | exact fun _ h => h | simp [State.popStack, hst]
        · rename_i o hk
          have nz := nz_complete s top (lazyOutcome o)
          exact .popStack root base rest top st hc hr hlen hst (nz.hp.toHP0.congr rfl rfl rfl rfl) nz.hp.sched rfl
            (by show (State.stack _).tail = st; rw [nz.stack, hst]; rfl) (.inr (.inr (by rw [hk]; intro h; cases h)))
        · -- a constant or error future is computed from the start
          rename_i hnc _ h1 h2 h3
          exfalso
          have htl : top < s.futs.length := hsb top (by rw [hst]; exact List.mem_cons_self)
          cases hk : (s.fut top).kind with
          | task => exact h1 hk
          | item a b c d => exact h2 _ _ _ _ hk
          | lazy o => exact h3 _ hk
          | const => exact hnc (hcd top htl (.inl hk))
          | errfut => exact hnc (hcd top htl (.inr hk))

/-! ### the scheduler flush -/

theorem filter_idem {α : Type} (p : α → Bool) (l : List α) : (l.filter p).filter p = l.filter p := by
  rw [List.filter_filter]
  congr 1
  funext a
  exact Bool.and_self _

theorem flushable_idem (s : State) (c : List Ctl) :
    ({ s with sbatches := s.flushable, ctl := c } : State).flushable = s.flushable := by
  unfold State.flushable
  exact filter_idem _ _

theorem schedulerFlush_hp (s : State) (root : Nat) :
    HP s (s.schedulerFlush root) ∧ (s.schedulerFlush root).ctl = .waitEnter root :: s.ctl.tail := by
  unfold State.schedulerFlush
  dsimp only
  have h0 : HP s { s with sbatches := s.flushable, ctl := .waitEnter root :: s.ctl.tail } :=
    hp_of_futs rfl rfl rfl rfl rfl
  split
  · exact ⟨h0, rfl⟩
  · rename_i hne
    split
    · -- a non-empty set of flushable batches has an admissible element
      rename_i heq
      exfalso
      have key : ∀ S : State, S.sbatches = s.flushable → S.batches = s.batches → S.cfg = s.cfg →
          S.defaultChoice ≠ none := by
        intro S h1 h2 h3
        have hfl : S.flushable ≠ [] := by
          have : S.flushable = s.flushable := by
            unfold State.flushable State.batch?
            rw [h1, h2]
            exact filter_idem _ _
          rw [this]
          intro h; apply hne; rw [h]; rfl
        obtain ⟨c, hc, _⟩ := P1.defaultChoice_some S hfl
        rw [hc]; intro h; cases h
      cases hch : s.choices with
      | cons c cs => rw [hch] at heq; cases heq
      | nil =>
        rw [hch] at heq
        exact key _ (by rfl) (by rfl) (by rfl) heq
    · rename_i c _
      split
      · refine ⟨h0.trans (hp_of_futs' rfl rfl rfl ?_ rfl), rfl⟩
        intro m hm
        simp only [State.fail] at hm
        injection hm with hm
        exact .inr (.inr ⟨c.1, c.2, hm.symm⟩)
      · rename_i hadm
        split
        · -- an admissible choice names an existing batch
          rename_i hb
          exfalso
          apply hadm
          unfold State.admissible
          rw [hb]
          simp
        · rename_i b hb
          have nzf : ∀ S : State, S.batches = s.batches → NZ S (S.flushBatch c.1 c.2) := fun S hS =>
            nz_flushBatch S _ _ b (by unfold State.batch? at hb ⊢; rw [hS]; exact hb)
          refine ⟨HP.trans ?_ (nz_emit _ _).hp, ?_⟩
          · refine HP.trans ?_ (nzf _ (by rfl)).hp
            refine HP.trans ?_ (nz_emit _ _).hp
            exact hp_of_futs rfl rfl rfl rfl rfl
          · show (State.flushBatch _ _ _).ctl = _
            exact (nzf _ (by rfl)).ctl

/-! ### the transition function -/

theorem step_sh (s : State) (hr : Reach s) (hsus : SuspAll s) (hcd : ConstDone s)
    (hsb : ∀ e, e ∈ s.stack → e < s.futs.length) : Sh s (step s) := by
  have pin := P2.pinv_reach hr
  unfold step
  split
  · exact .same (HP.refl _) rfl
  · split
    · rename_i hctl
      split
      · exact .same (hp_of_futs rfl rfl rfl rfl rfl) rfl
      · split
        · exact .same (HP.refl _) rfl
        · rename_i conv body rest' htops
          refine .top _ hctl ?_ rfl (by simp [State.newTask])
          intro hws
          have hb : WellScoped body 0 0 = true := hws (conv, body) (by rw [htops]; exact List.mem_cons_self)
          refine hp_root _ (.task none) rfl rfl rfl rfl ?_ rfl rfl ?_ rfl rfl rfl rfl rfl
            (fun h => by rcases h with h | h <;> cases h)
          · intro p hp
            show p ∈ s.tops
            rw [htops]; exact List.mem_cons_of_mem _ hp
          · exact wsTS_of_wsB _ hb
    · rename_i root rest hctl
      split
      · rename_i hrs
        exact .popRaise hrs (hp_of_futs rfl rfl rfl rfl rfl) rfl
      · rename_i hrs
        have hrs := P3.isSome_false hrs
        split
        · exact .popEnter root rest hctl (hp_of_futs rfl rfl rfl rfl rfl) (by simp [State.returnFromWait, hctl])
        · exact .enterLoop root rest hctl hrs (hp0_of_futs rfl rfl rfl rfl) (fun _ h => h) (by simp [hctl]) rfl
    · rename_i root base rest hctl
      split
      · rename_i hrs
        exact .popRaise hrs (hp_of_futs rfl rfl rfl rfl rfl) rfl
      · rename_i hrs
        have hrs := P3.isSome_false hrs
        split
        · rename_i hlen
          exact executeIter_sh s root base rest hctl hrs hlen hcd hsb
        · rename_i hlen
          have hlen : s.stack.length ≤ base := by omega
          split
          · exact .popLoop root base rest hctl hrs hlen (hp_of_futs rfl rfl rfl rfl rfl)
              (by simp [State.returnFromWait, hctl])
          · have h := schedulerFlush_hp s root
            exact .flush root base rest hctl hrs hlen h.1 (by rw [h.2, hctl]; rfl)
    · rename_i t old rest hctl
      have ht : t < s.futs.length :=
        P2.lt_of_kind s t (by rw [pin.genKind t (by rw [hctl]; simp [P2.gens])]; intro h; cases h)
      have hgen : Sh s (s.genStep t old) := by
        have hlive : s.computed t = false := by
          unfold State.computed; rw [pin.live t (by rw [hctl]; simp [P2.gens])]; rfl
        rcases genStep_out s t old ht hlive (hsus t) with ⟨h, c⟩ | ⟨h, c⟩ | ⟨f, h, c, n⟩
        · exact .same h c
        · exact .genLeave t old rest hctl h (by rw [c, hctl]; rfl)
        · exact .genCall t old rest f hctl h c n
      split <;> split <;>
        first
        | exact .same (hp_fail _ "exception reached a generator that is not in a synchronous call" (by decide)) rfl
        | exact hgen

end AsynqModel.Core.P10
