import AsynqModel.Proofs.P25Run
import AsynqModel.Proofs.P20Live
/-
  P25, part 9: what remains of "every task that has started is computed when the run is over" when a NonAsyncContext
  may fail a suspended task (the MAX_TASK_STACK_SIZE guard not firing).

  `InvL'` generalises `P20.InvL`: a started, uncomputed task is the root of a `wait_for` in progress, or is awaited by
  an uncomputed task, or is ORPHANED (`Orph`): some task whose outcome is the AssertionError of
  `NonAsyncContext.pause()/resume()` named it in the structure it yielded last - it was awaiting the task when the
  scheduler failed it.  Three bookkeeping facts make the invariant inductive: every dependency of a task is computed
  or named in the structure the task yielded last (`dy`), and a task that is not suspended, or has dependencies, has
  started (`sr`, `sd`).
  This file: the invariant, and its preservation by the scheduler-side steps.
-/
namespace AsynqModel.Core.P25
open AsynqModel.Core AsynqModel.Core.P6 AsynqModel.Core.P6T AsynqModel.Core.P20

/-- `x` was awaited by a task that `NonAsyncContext.pause()/resume()` failed while it was suspended -/
def Orph (s : State) (x : Nat) : Prop :=
  ∃ u, (view s u).out = some (.err .nonasync) ∧ x ∈ extractFutures (view s u).prevY

/-- `x` is (or was) wanted: a `wait_for` root, awaited by an uncomputed task, or orphaned -/
def Sup (s : State) (x : Nat) : Prop := RootIn s x ∨ (∃ u, Aw s u x) ∨ Orph s x

/-- per-future bookkeeping -/
def PVu (s : State) (u : Nat) : Prop :=
  (∀ d ∈ (view s u).deps, s.computed d = true ∨ d ∈ extractFutures (view s u).prevY) ∧
  ((view s u).out = none → (view s u).pending = false → (view s u).started = true) ∧
  ((view s u).out = none → (view s u).deps ≠ [] → (view s u).started = true)

structure InvL' (s : State) : Prop where
  aw : ∀ t, StartedU s t → Sup s t
  sup : ∀ x ∈ s.stack, (view s x).out = none → Sup s x
  pv : ∀ u, PVu s u

theorem pvu_dview (s : State) (u : Nat) (h : view s u = dview) : PVu s u := by
  unfold PVu
  rw [h]
  exact ⟨fun d hd => (by cases hd), fun _ hp => (by cases hp), fun _ hd => absurd rfl hd⟩

theorem invL'_init (cfg : Cfg) (tops : List (Conv × Body)) (choices : List (Nat × Nat)) :
    InvL' (initState cfg tops choices) := by
  refine ⟨?_, ?_, ?_⟩
  · intro t ht
    have := ht.1
    rw [view_ge _ t (Nat.zero_le _)] at this; cases this
  · intro x hx; cases hx
  · intro u; exact pvu_dview _ u (view_ge _ u (Nat.zero_le _))

/-- the fields `PVu` reads are kept -/
theorem pvu_keep {s r : State} {u : Nat} (hc : ∀ f, s.computed f = true → r.computed f = true) (hp : PVu s u)
    (e1 : (view r u).deps = (view s u).deps) (e2 : (view r u).prevY = (view s u).prevY)
    (e3 : (view r u).out = (view s u).out) (e4 : (view r u).pending = (view s u).pending)
    (e5 : (view r u).started = (view s u).started) : PVu r u := by
  unfold PVu
  rw [e1, e2, e3, e4, e5]
  refine ⟨fun d hd => ?_, hp.2.1, hp.2.2⟩
  rcases hp.1 d hd with h | h
  · exact Or.inl (hc d h)
  · exact Or.inr h

theorem pvu_of_view {s r : State} {u : Nat} (hc : ∀ f, s.computed f = true → r.computed f = true) (hp : PVu s u)
    (e : view r u = view s u) : PVu r u :=
  pvu_keep hc hp (by rw [e]) (by rw [e]) (by rw [e]) (by rw [e]) (by rw [e])

/-- a computed future without dependencies -/
theorem pvu_done {r : State} {u : Nat} (h1 : (view r u).out ≠ none) (h2 : (view r u).deps = []) : PVu r u := by
  unfold PVu
  rw [h2]
  exact ⟨fun d hd => (by cases hd), fun h => absurd h h1, fun h => absurd h h1⟩

/-- what a step must do to preserve `InvL'` -/
structure LStep' (s r : State) : Prop where
  comp : ∀ f, s.computed f = true → r.computed f = true
  aw : ∀ u x, Aw s u x → (view r x).out = none → Aw r u x ∨ Orph r x
  root : ∀ x, RootIn s x → (view r x).out = none → RootIn r x
  orph : ∀ x, Orph s x → Orph r x
  started : ∀ t, StartedU r t → StartedU s t ∨ (t ∈ s.stack ∧ (view s t).out = none)
  stack : ∀ x ∈ r.stack, (view r x).out = none → x ∈ s.stack ∨ Sup r x
  pv : ∀ u, PVu r u

theorem invL'_of {s r : State} (h : InvL' s) (l : LStep' s r) : InvL' r := by
  have out_back : ∀ x, (view r x).out = none → (view s x).out = none := by
    intro x hx
    cases hh : (view s x).out with
    | none => rfl
    | some o =>
      have : s.computed x = true := by rw [computed_eq_view, hh]; rfl
      have := l.comp x this
      rw [uncomputed_of_out_none hx] at this; cases this
  have transfer : ∀ x, Sup s x → (view r x).out = none → Sup r x := by
    intro x h1 hx
    rcases h1 with h1 | ⟨u, h1⟩ | h1
    · exact Or.inl (l.root x h1 hx)
    · rcases l.aw u x h1 hx with h2 | h2
      · exact Or.inr (Or.inl ⟨u, h2⟩)
      · exact Or.inr (Or.inr h2)
    · exact Or.inr (Or.inr (l.orph x h1))
  refine ⟨?_, ?_, l.pv⟩
  · intro t ht
    rcases l.started t ht with h1 | ⟨h1, h2⟩
    · exact transfer t (h.aw t h1) ht.2.2
    · exact transfer t (h.sup t h1 h2) ht.2.2
  · intro x hx hox
    rcases l.stack x hx hox with h1 | h1
    · exact transfer x (h.sup x h1 (out_back x hox)) hox
    · exact h1

/-! ### roots along the moves of the control stack -/

theorem root_same {s r : State} (h : r.ctl = s.ctl) : ∀ x, RootIn s x → RootIn r x := by
  intro x ⟨c, hc, hx⟩; exact ⟨c, by rw [h]; exact hc, hx⟩

theorem root_push {s r : State} {c0 : Ctl} (h : r.ctl = c0 :: s.ctl) : ∀ x, RootIn s x → RootIn r x := by
  intro x ⟨c, hc, hx⟩; exact ⟨c, by rw [h]; exact List.mem_cons_of_mem _ hc, hx⟩

/-- the head frame is popped: a generator frame, or a `wait_for` frame whose root is computed afterwards -/
theorem root_tail {s r : State} {c0 : Ctl} {rest : List Ctl} (hctl : s.ctl = c0 :: rest) (h : r.ctl = rest)
    (h0 : ∀ root, ctlRoot c0 = some root → r.computed root = true) :
    ∀ x, RootIn s x → (view r x).out = none → RootIn r x := by
  intro x ⟨c, hc, hx⟩ hox
  rw [hctl] at hc
  rcases List.mem_cons.1 hc with e | e
  · subst e
    have := h0 x hx
    rw [uncomputed_of_out_none hox] at this; cases this
  · exact ⟨c, by rw [h]; exact e, hx⟩

theorem root_swap {s r : State} {c0 c1 : Ctl} {rest : List Ctl} (hctl : s.ctl = c0 :: rest) (h : r.ctl = c1 :: rest)
    (h0 : ctlRoot c1 = ctlRoot c0) : ∀ x, RootIn s x → RootIn r x := by
  intro x ⟨c, hc, hx⟩
  rw [hctl] at hc
  rcases List.mem_cons.1 hc with e | e
  · subst e
    exact ⟨c1, by rw [h]; exact List.mem_cons_self, by rw [h0]; exact hx⟩
  · exact ⟨c, by rw [h]; exact List.mem_cons_of_mem _ e, hx⟩

/-! ### steps that keep every view -/

theorem aw_of_view {s r : State} {u x : Nat} (e : view r u = view s u) (h : Aw s u x) : Aw r u x := by
  unfold Aw at h ⊢; rw [e]; exact h

theorem orph_of_views {s r : State} (hv : ∀ u, (view s u).out = some (.err .nonasync) → view r u = view s u) :
    ∀ x, Orph s x → Orph r x := by
  intro x ⟨u, h1, h2⟩
  have e := hv u h1
  exact ⟨u, by rw [e]; exact h1, by rw [e]; exact h2⟩

theorem lstep_views {s r : State} (h : InvL' s) (hv : ∀ f, view r f = view s f)
    (hroot : ∀ x, RootIn s x → (view r x).out = none → RootIn r x)
    (hstack : ∀ x ∈ r.stack, (view r x).out = none → x ∈ s.stack ∨ Sup r x) : LStep' s r := by
  have hc : ∀ f, s.computed f = true → r.computed f = true := fun f hf => by rw [computed_of_view (hv f)]; exact hf
  refine ⟨hc, fun u x hux _ => Or.inl (aw_of_view (hv u) hux), hroot, orph_of_views (fun u _ => hv u), ?_, hstack,
    fun u => pvu_of_view hc (h.pv u) (hv u)⟩
  intro t ht
  left
  unfold StartedU at ht ⊢
  rw [hv t] at ht
  exact ht

/-- the flag of one uncomputed task changes -/
theorem lstep_flag {s r : State} {top : Nat} {b : Bool} (h : InvL' s) (hvt : view r top = flagView b (view s top))
    (hvo : ∀ f, f ≠ top → view r f = view s f)
    (hroot : ∀ x, RootIn s x → (view r x).out = none → RootIn r x)
    (hstack : ∀ x ∈ r.stack, (view r x).out = none → x ∈ s.stack ∨ Sup r x) : LStep' s r := by
  have hcv : ∀ f, r.computed f = s.computed f := by
    intro f
    by_cases e : f = top
    · subst e; rw [computed_eq_view, computed_eq_view, hvt]; rfl
    · exact computed_of_view (hvo f e)
  have hc : ∀ f, s.computed f = true → r.computed f = true := fun f hf => by rw [hcv]; exact hf
  refine ⟨hc, ?_, hroot, ?_, ?_, hstack, ?_⟩
  · intro u x hux _
    left
    by_cases e : u = top
    · subst e; unfold Aw at hux ⊢; rw [hvt]; exact hux
    · exact aw_of_view (hvo u e) hux
  · intro x ⟨u, h1, h2⟩
    by_cases e : u = top
    · subst e; exact ⟨u, by rw [hvt]; exact h1, by rw [hvt]; exact h2⟩
    · exact ⟨u, by rw [hvo u e]; exact h1, by rw [hvo u e]; exact h2⟩
  · intro t ht
    left
    by_cases e : t = top
    · subst e; unfold StartedU at ht ⊢; rw [hvt] at ht; exact ht
    · unfold StartedU at ht ⊢; rw [hvo t e] at ht; exact ht
  · intro u
    by_cases e : u = top
    · subst e; exact pvu_keep hc (h.pv u) (by rw [hvt]; rfl) (by rw [hvt]; rfl) (by rw [hvt]; rfl) (by rw [hvt]; rfl) (by rw [hvt]; rfl)
    · exact pvu_of_view hc (h.pv u) (hvo u e)

/-! ### one iteration of `_execute` -/

theorem lstep_iter {s r : State} {top : Nat} {st : List Nat} (h : InvL' s) (hstk : s.stack = top :: st)
    (hT : ∀ t, (view s t).started = true → (view s t).kind = .task)
    (d : ID s r top st) (hg : r.guardFired = false) : LStep' s r := by
  have tail_mem : ∀ x, x ∈ st → x ∈ s.stack := fun x hx => by rw [hstk]; exact List.mem_cons_of_mem _ hx
  cases d with
  | guard hv fr hctl hgf => rw [hgf] at hg; cases hg
  | compl t c hstk' hctl =>
    have hc : ∀ f, s.computed f = true → r.computed f = true := by
      intro f hf
      by_cases e : f = t
      · subst e; rw [uncomputed_of_out_none c.h0] at hf; cases hf
      · rw [computed_of_view (c.hvo f e)]; exact hf
    -- whatever `t` awaited is orphaned
    have horph : ∀ x, x ∈ (view s t).deps → (view r x).out = none → Orph r x := by
      intro x hx hox
      have hk : (view s t).kind = .task :=
        hT t ((h.pv t).2.2 c.h0 (by intro e; rw [e] at hx; cases hx))
      rcases (h.pv t).1 x hx with h1 | h1
      · have := hc x h1
        rw [uncomputed_of_out_none hox] at this; cases this
      · exact ⟨t, c.oc hk, by rw [c.pv]; exact h1⟩
    refine ⟨hc, ?_, ?_, ?_, ?_, ?_, ?_⟩
    · intro u x hux hox
      by_cases e : u = t
      · subst e
        exact Or.inr (horph x hux.2.2 hox)
      · exact Or.inl (aw_of_view (c.hvo u e) hux)
    · rcases hctl with h1 | ⟨a, h1⟩
      · exact fun x hx _ => root_same h1 x hx
      · exact fun x hx _ => root_push h1 x hx
    · refine orph_of_views (fun u hu => c.hvo u ?_)
      intro e; subst e; rw [c.h0] at hu; cases hu
    · intro t' ht'
      left
      by_cases e : t' = t
      · subst e; exact absurd ht'.2.2 c.h1
      · unfold StartedU at ht' ⊢
        rw [c.hvo t' e] at ht'
        exact ht'
    · intro x hx hox
      rcases hstk' x hx with h1 | h1
      · exact Or.inl h1
      · exact Or.inr (Or.inr (Or.inr (horph x h1 hox)))
    · intro u
      by_cases e : u = t
      · subst e; exact pvu_done c.h1 c.dp
      · exact pvu_of_view hc (h.pv u) (c.hvo u e)
  | enterGen hv fr a hctl hst =>
    refine lstep_views h hv (fun x hx _ => root_push hctl x hx) ?_
    intro x hx _
    rw [hst] at hx
    exact Or.inl hx
  | pop hcase hv fr hst hctl hsb =>
    refine lstep_views h hv (fun x hx _ => root_same hctl x hx) ?_
    intro x hx _
    rw [hst] at hx
    exact Or.inl (tail_mem x hx)
  | second hk hc hbl hfl hvt hvo fr hst hctl hsb =>
    refine lstep_flag h hvt hvo (fun x hx _ => root_same hctl x hx) ?_
    intro x hx _
    rw [hst] at hx
    exact Or.inl (tail_mem x hx)
  | first hk hc hbl hfl hvt hvo fr hst hctl hsb =>
    refine lstep_flag h hvt hvo (fun x hx _ => root_same hctl x hx) ?_
    intro x hx _
    rw [hst] at hx
    rcases List.mem_append.1 hx with e1 | e1
    · have hxd : x ∈ (view s top).deps := (List.mem_filter.1 (List.mem_reverse.1 e1)).1
      refine Or.inr (Or.inr (Or.inl ⟨top, ?_⟩))
      unfold Aw
      rw [hvt]
      exact ⟨hk, out_none_of_uncomputed hc, hxd⟩
    · exact Or.inl e1

end AsynqModel.Core.P25
