import AsynqModel.Proofs.P14Main
/-!
  P14, part 5: the converse half of the simulation relation - the observer's table holds *only* outcomes the machine
  holds (`KC`).  Together with `K.ora`: in every reachable state `(wOf s.trace).out f = s.out f` for every future.

  Unlike `K`, this half needs facts about reachable states at every completion (the completed future exists):
  batch items are futures of kind `item` (`P2.ItemsOk`), running generators belong to futures of kind `task`.
-/
namespace AsynqModel.Core.P14
open AsynqModel.Core AsynqModel.Core.Spec AsynqModel.Core.P2

/-- every entry of the observer's table is an outcome of the machine -/
def KC (s : State) : Prop := ∀ f o, (wOf s.trace).outs.lookup f = some o → s.out f = some o

/-- events that do not touch the observer's table -/
def outsNeutral : Event → Bool
  | .done _ _ => false
  | .new _ _ => false
  | _ => true

theorem neutral_outs (w : Watch) (e : Event) (h : outsNeutral e = true) : (watchEvent w e).outs = w.outs := by
  cases e <;> simp_all [outsNeutral, watchEvent, Watch.mention] <;> split <;> rfl

theorem KC_init (cfg : Cfg) (tops : List (Conv × Body)) (choices : List (Nat × Nat)) : KC (initState cfg tops choices) := by
  intro f o h; simp [initState] at h

theorem KC_of {s s' : State} (ho : ∀ f, s'.out f = s.out f) (hw : (wOf s'.trace).outs = (wOf s.trace).outs)
    (h : KC s) : KC s' := fun f o hl => by rw [ho]; exact h f o (hw ▸ hl)

theorem KC_of_eq {s s' : State} (hf : s'.futs = s.futs) (ht : s'.trace = s.trace) (h : KC s) : KC s' :=
  KC_of (fun f => by simp [State.out, State.fut, hf]) (by rw [ht]) h

theorem KC_mk (s : State) (cfg batches stack sbatches active ctl ctxs sv tops topIdx curTop raising choices stuck guardFired)
    (h : KC s) :
    KC { cfg := cfg, futs := s.futs, batches := batches, stack := stack, sbatches := sbatches, active := active,
         ctl := ctl, ctxs := ctxs, sv := sv, trace := s.trace, tops := tops, topIdx := topIdx, curTop := curTop,
         raising := raising, choices := choices, stuck := stuck, guardFired := guardFired } :=
  KC_of_eq (s := s) rfl rfl h

theorem KC_fail {s : State} (m : String) (h : KC s) : KC (s.fail m) := KC_of_eq (s := s) rfl rfl h

theorem KC_ite {s1 s2 : State} {p : Prop} [Decidable p] (h1 : KC s1) (h2 : KC s2) : KC (if p then s1 else s2) := by
  split <;> assumption

theorem KC_emit {s : State} (e : Event) (he : outsNeutral e = true) (h : KC s) : KC (s.emit e) :=
  KC_of (s := s) (fun _ => rfl) (by rw [emit_trace, wOf_cons, neutral_outs _ _ he]) h

theorem KC_updTask {s : State} (t : Nat) (g : TaskSt → TaskSt) (h : KC s) : KC (s.updTask t g) :=
  KC_of (s := s) (fun f => out_updTask s t f g) rfl h

theorem KC_complete {s : State} (f : Nat) (o : Outcome) (hlt : f < s.futs.length) (h : KC s) : KC (s.complete f o) := by
  intro g o' hl
  rw [complete_trace, wOf_cons, done_outs, List.lookup_cons] at hl
  rw [out_complete]
  by_cases hg : g = f
  · subst hg
    simp only [beq_self_eq_true] at hl
    simp [hlt]; injection hl
  · have hb : (g == f) = false := by simp [hg]
    rw [hb] at hl
    rw [if_neg (fun hc => hg hc.1)]
    exact h g o' hl

theorem KC_alloc {s : State} (x : Fut) (nk : NewKind) (ho : x.out = newOut nk) (h : KC s) : KC (s.alloc x nk).1 := by
  intro g o' hl
  rw [alloc_trace, wOf_cons, new_outs] at hl
  rw [out_alloc]
  have hd : s.out s.futs.length = none := by
    unfold State.out; rw [fut_default_of_le s _ (Nat.le_refl _)]
  by_cases hg : g = s.futs.length
  · subst hg
    rw [if_pos rfl, ho]
    cases hk : newOut nk with
    | none => rw [hk] at hl; have := h _ _ hl; rw [hd] at this; cases this
    | some o => rw [hk] at hl; simpa using hl
  · rw [if_neg hg]
    cases hk : newOut nk with
    | none => rw [hk] at hl; exact h g o' hl
    | some o =>
      rw [hk] at hl
      have hb : (g == s.futs.length) = false := by simp [hg]
      simp only [List.lookup_cons, hb] at hl
      exact h g o' hl

/-! ### helpers -/

theorem KC_svTouch {s : State} (var : Nat) (h : KC s) : KC (s.svTouch var) :=
  KC_of_eq (sameC_svTouch s var).futs (sameC_svTouch s var).trace h

theorem KC_ctxResumeOne {s : State} (cid : Nat) (h : KC s) : KC (s.ctxResumeOne cid) :=
  KC_of_eq (sameC_ctxResumeOne s cid).futs (sameC_ctxResumeOne s cid).trace (KC_emit _ rfl h)

theorem KC_ctxPauseOne {s : State} (cid : Nat) (h : KC s) : KC (s.ctxPauseOne cid) :=
  KC_of_eq (sameC_ctxPauseOne s cid).futs (sameC_ctxPauseOne s cid).trace (KC_emit _ rfl h)

theorem KC_ctxExit {s : State} (cid : Nat) (h : KC s) : KC (s.ctxExit cid) := by
  rcases ctxExit_cases s cid with e | ⟨o, e⟩
  · rw [e]; exact KC_emit _ rfl (KC_ite h (KC_ctxPauseOne _ h))
  · rw [e]
    have h1 : KC (s.updTask o fun ts => { ts with ctxs := ts.ctxs.erase cid }) := KC_updTask _ _ h
    exact KC_emit _ rfl (KC_ite h1 (KC_ctxPauseOne _ h1))

theorem KC_foldl {α : Type} (g : State → α → State) (hg : ∀ s a, KC s → KC (g s a)) (l : List α) {s : State}
    (h : KC s) : KC (l.foldl g s) := by
  induction l generalizing s with
  | nil => exact h
  | cons a l ih => exact ih (hg s a h)

theorem KC_exitAll {s : State} (t : Nat) (h : KC s) : KC (s.exitAll t) := by
  unfold State.exitAll
  exact KC_updTask _ _ (KC_foldl (fun (s : State) (p : Nat × Body) => s.ctxExit p.1) (fun s p hs => KC_ctxExit p.1 hs) _ h)

/-- the state in which `_computed` stores the outcome of task `t` still has `t` on the heap -/
theorem lt_exit {s : State} {t : Nat} (hk : (s.fut t).kind = .task) :
    t < ((s.exitAll t).updTask t fun ts => { ts with pending := false }).futs.length :=
  lt_of_task' (((quiet_exitAll s t).trans (quiet_updTask _ _ _ taskOk_pendingFalse)).kind_task hk)

theorem KC_failSuspended {s : State} (t : Nat) (e : Err) (hk : (s.fut t).kind = .task) (h : KC s) :
    KC (s.failSuspended t e) := by
  unfold State.failSuspended
  split
  · exact h
  · exact KC_complete _ _ (lt_exit hk) (KC_updTask _ _ (KC_exitAll t h))

theorem KC_resumeContexts {s : State} (t : Nat) (hk : (s.fut t).kind = .task) (h : KC s) : KC (s.resumeContexts t) := by
  unfold State.resumeContexts
  simp only []
  split
  · exact h
  · have h1 : KC ((s.task t).ctxs.foldl (fun s c => if s.ctxIsNonAsync c then s else s.ctxResumeOne c)
        (s.updTask t fun ts => { ts with ctxActive := true })) :=
      KC_foldl _ (fun s a hs => KC_ite hs (KC_ctxResumeOne a hs)) _ (KC_updTask _ _ h)
    split
    · refine KC_failSuspended _ _ ?_ h1
      rw [foldl_ctx_facts s t true State.ctxResumeOne _ fut_ctxResumeOne, kind_updTask]; exact hk
    · exact h1

theorem KC_pauseContexts {s : State} (t : Nat) (hk : (s.fut t).kind = .task) (h : KC s) : KC (s.pauseContexts t) := by
  unfold State.pauseContexts
  simp only []
  split
  · exact h
  · have h1 : KC ((s.task t).ctxs.reverse.foldl (fun s c => if s.ctxIsNonAsync c then s else s.ctxPauseOne c)
        (s.updTask t fun ts => { ts with ctxActive := false })) :=
      KC_foldl _ (fun s a hs => KC_ite hs (KC_ctxPauseOne a hs)) _ (KC_updTask _ _ h)
    split
    · refine KC_failSuspended _ _ ?_ h1
      rw [foldl_ctx_facts s t false State.ctxPauseOne _ fut_ctxPauseOne, kind_updTask]; exact hk
    · exact h1

theorem KC_switchActive {s : State} (kind seq : Nat) (h : KC s) : KC (s.switchActive kind seq) := by
  unfold State.switchActive
  split
  · split
    · exact KC_of_eq (s := s) rfl rfl h
    · exact h
  · exact h

theorem KC_updBatch {s : State} (kind seq : Nat) (g : Batch → Batch) (h : KC s) : KC (s.updBatch kind seq g) :=
  KC_of_eq (s := s) rfl rfl h

theorem KC_flushItems (kind : Nat) (l : List Nat) {s : State} (h : KC s) : KC (s.flushItems kind l) := by
  induction l generalizing s with
  | nil => exact h
  | cons i l ih =>
    unfold State.flushItems
    simp only []
    apply ih
    split
    · exact h
    · split
      · rename_i hk; exact KC_complete _ _ (lt_of_kind s i (by rw [hk]; intro h; cases h)) h
      · rename_i hk; exact KC_complete _ _ (lt_of_kind s i (by rw [hk]; intro h; cases h)) h
      · exact h

theorem KC_finishItems (e : Err) (l : List Nat) {s : State} (hl : ∀ i ∈ l, isItemKind (s.fut i).kind = true)
    (h : KC s) : KC (s.finishItems e l) := by
  induction l generalizing s with
  | nil => exact h
  | cons i l ih =>
    unfold State.finishItems
    have hi := kind_of_isItem (hl i (by simp))
    have q : Quiet s (if s.computed i then s else s.complete i (.err e)) := by
      split
      · exact Quiet.refl _
      · rename_i hc
        exact quiet_complete _ _ _ hi.1 (computed_false hc) (Or.inr hi.2) (Or.inl hi.2)
    refine ih (fun j hj => q.kind_item (hl j (by simp [hj]))) ?_
    split
    · exact h
    · exact KC_complete _ _ (lt_of_kind s i hi.1) h

theorem KC_flushBatch {s : State} (kind seq : Nat) (hi : ItemsOk s) (h : KC s) : KC (s.flushBatch kind seq) := by
  unfold State.flushBatch
  split
  · exact KC_fail _ h
  · rename_i bt hb
    have hb' : bt ∈ s.batches := List.mem_of_find?_eq_some hb
    simp only []
    have q1 : Quiet s (((s.switchActive kind seq).emit (.flushI kind seq bt.items)).flushItems kind bt.items) :=
      ((quiet_switchActive s kind seq).trans (quiet_emit _ _ rfl)).trans (quiet_flushItems _ _ _)
    refine KC_updBatch _ _ _ (KC_emit _ rfl (KC_finishItems _ _ ?_ ?_))
    · intro i hib; exact q1.kind_item (hi bt hb' i hib)
    · exact KC_flushItems _ _ (KC_emit _ rfl (KC_switchActive _ _ h))

theorem KC_schedulerFlush {s : State} (root : Nat) (hi : ItemsOk s) (h : KC s) : KC (s.schedulerFlush root) := by
  unfold State.schedulerFlush
  simp only []
  have h0 : KC { s with sbatches := s.flushable, ctl := .waitEnter root :: s.ctl.tail } := KC_of_eq (s := s) rfl rfl h
  split
  · exact h0
  · split
    · exact KC_fail _ h0
    · split
      · exact KC_fail _ h0
      · split
        · exact KC_fail _ h0
        · refine KC_emit _ rfl (KC_flushBatch _ _ ?_ (KC_emit _ rfl (KC_of_eq (s := s) rfl rfl h)))
          exact fun bt hb i hib => hi bt hb i hib

theorem KC_popStack {s : State} (h : KC s) : KC s.popStack := KC_of_eq (s := s) rfl rfl h

theorem KC_handleTask {s : State} (t : Nat) (hk : (s.fut t).kind = .task) (h : KC s) : KC (s.handleTask t) := by
  unfold State.handleTask
  simp only []
  split
  · split
    · exact KC_popStack (KC_pauseContexts _ (by rw [kind_updTask]; exact hk) (KC_updTask _ _ h))
    · apply KC_mk
      exact KC_resumeContexts _ (by rw [kind_updTask]; exact hk) (KC_updTask _ _ h)
  · split
    · exact KC_fail _ h
    · apply KC_mk
      exact KC_resumeContexts _ hk h

theorem KC_executeIter {s : State} (h : KC s) : KC s.executeIter := by
  unfold State.executeIter
  split
  · exact KC_fail _ h
  · split
    · exact KC_of_eq (s := s) rfl rfl h
    · split
      · exact KC_popStack h
      · split
        · rename_i hk; exact KC_handleTask _ hk h
        · refine KC_popStack ?_
          split
          · split
            · exact h
            · exact KC_of_eq (s := s) rfl rfl h
          · exact h
        · rename_i o hk
          exact KC_popStack (KC_complete _ _ (lt_of_kind s _ (by rw [hk]; intro h; cases h)) h)
        · exact KC_fail _ h

theorem KC_leaveGen {s : State} (t : Nat) (old : Option Nat) (h : KC s) : KC (s.leaveGen t old) := by
  unfold State.leaveGen
  apply KC_mk
  exact KC_updTask _ _ h

theorem KC_finishTask {s : State} (t : Nat) (old : Option Nat) (o : Outcome) (hk : (s.fut t).kind = .task) (h : KC s) :
    KC (s.finishTask t old o) := by
  unfold State.finishTask
  split
  · exact KC_fail _ h
  · exact KC_leaveGen _ _ (KC_complete _ _ (lt_exit hk) (KC_updTask _ _ (KC_exitAll t h)))

theorem KC_newTask {s : State} (child : Body) (inh : List Nat) (h : KC s) : KC (s.newTask child inh).1 := by
  unfold State.newTask
  exact KC_alloc _ _ rfl h

theorem KC_regCtx {s1 : State} (cid : Nat) (h : KC s1) :
    KC (match s1.active with
      | some a => s1.updTask a fun ts => { ts with ctxs := ts.ctxs ++ [cid] }
      | none => s1) := by
  split
  · exact KC_updTask _ _ h
  · exact h

theorem KC_svTouchMatch {s : State} (cx : CtxKind) (h : KC s) :
    KC (match cx with | .override var _ => s.svTouch var | _ => s) := by
  split
  · exact KC_svTouch _ h
  · exact h

theorem KC_withCtxTail {s0 : State} (cid t : Nat) (cx : CtxKind) (h : KC s0) :
    KC (
      let s := s0.emit (.ctxN cid t cx)
      let s := { s with ctxs := s.ctxs ++ [({ kind := cx, owner := s.active } : CtxSt)] }
      let s := match s.active with
        | some a => s.updTask a fun ts => { ts with ctxs := ts.ctxs ++ [cid] }
        | none => s
      if cx == .nonasync then s else s.ctxResumeOne cid) := by
  have h1 : KC (s0.emit (.ctxN cid t cx)) := KC_emit _ rfl h
  have h2 : KC { (s0.emit (.ctxN cid t cx)) with
      ctxs := (s0.emit (.ctxN cid t cx)).ctxs ++ [({ kind := cx, owner := (s0.emit (.ctxN cid t cx)).active } : CtxSt)] } :=
    KC_of_eq (s := s0.emit (.ctxN cid t cx)) rfl rfl h1
  have h3 := KC_regCtx cid h2
  exact KC_ite h3 (KC_ctxResumeOne _ h3)

theorem KC_genStep {s : State} (t : Nat) (old : Option Nat) (hk : (s.fut t).kind = .task) (hi : ItemsOk s) (h : KC s) :
    KC (s.genStep t old) := by
  unfold State.genStep
  simp only []
  split
  · split
    · exact KC_emit _ rfl (KC_updTask _ _ h)
    · split
      · exact KC_emit _ rfl (KC_updTask _ _ h)
      · exact KC_emit _ rfl (KC_updTask _ _ h)
      · exact KC_emit _ rfl (KC_updTask _ _ h)
      · exact KC_emit _ rfl (KC_updTask _ _ h)
      · exact KC_fail _ h
  · split
    · exact KC_finishTask _ _ _ hk h
    · exact KC_finishTask _ _ _ hk h
    · exact KC_finishTask _ _ _ hk h
    · exact KC_finishTask _ _ _ hk h
    · exact KC_updTask _ _ (KC_newTask _ _ h)
    · -- item
      rename_i kind payload mode k heq
      have h0 : KC (match s.curBatch? kind with
          | some _ => s
          | none => { s with batches := s.batches ++ [({ kind := kind, seq := 0 } : Batch)] }) := by
        split
        · exact h
        · exact KC_of_eq (s := s) rfl rfl h
      split
      · exact KC_fail _ h0
      · exact KC_updTask _ _ (KC_updBatch _ _ _ (KC_alloc _ _ rfl h0))
    · exact KC_updTask _ _ (KC_alloc _ _ rfl h)
    · exact KC_updTask _ _ (KC_alloc _ _ rfl h)
    · exact KC_updTask _ _ (KC_alloc _ _ rfl h)
    · -- yld
      refine KC_ite ?_ (KC_leaveGen _ _ ?_)
      · exact KC_updTask _ _ (KC_emit _ rfl h)
      · exact KC_updTask _ _ (KC_emit _ rfl h)
    · -- reyld
      refine KC_ite ?_ (KC_leaveGen _ _ ?_)
      · exact KC_updTask _ _ (KC_emit _ rfl h)
      · exact KC_updTask _ _ (KC_emit _ rfl h)
    · -- sync
      apply KC_mk
      exact KC_emit _ rfl (KC_updTask _ _ (KC_newTask _ _ h))
    · -- syncfut
      rename_i r k hh heq
      have h1 : KC ((s.updTask t fun ts => { ts with body := .syncret ((s.task t).resolve r) k hh }).emit
          (.syncE t ((s.task t).resolve r))) := KC_emit _ rfl (KC_updTask _ _ h)
      have hi1 : ItemsOk ((s.updTask t fun ts => { ts with body := .syncret ((s.task t).resolve r) k hh }).emit
          (.syncE t ((s.task t).resolve r))) := by
        intro bt hb i hib
        rw [emit_fut, kind_updTask]; exact hi bt hb i hib
      split
      · exact h1
      · split
        · apply KC_mk; exact h1
        · split
          · split
            · exact h1
            · exact KC_flushBatch _ _ hi1 h1
          · exact h1
        · rename_i o hko
          exact KC_complete _ _ (lt_of_kind _ _ (by rw [hko]; intro h; cases h)) h1
        · exact h1
    · -- syncret
      split
      · exact KC_fail _ h
      · exact KC_emit _ rfl (KC_updTask _ _ (KC_of_eq (s := s) rfl rfl h))
      · exact KC_emit _ rfl (KC_updTask _ _ (KC_of_eq (s := s) rfl rfl h))
    · -- withCtx
      rename_i cx bd k heq
      exact KC_updTask _ _ (KC_withCtxTail _ _ _ (KC_svTouchMatch cx h))
    · -- endwith
      split
      · exact KC_finishTask _ _ _ hk h
      · exact KC_updTask _ _ (KC_ctxExit _ h)
    · exact KC_updTask _ _ (KC_emit _ rfl (KC_svTouch _ h))
    · exact KC_updTask _ _ (KC_emit _ rfl h)

theorem KC_finishTop {s : State} (f : Nat) (h : KC s) : KC (s.finishTop f) := by
  unfold State.finishTop
  simp only []
  exact KC_emit _ rfl (KC_emit _ rfl (KC_emit _ rfl (KC_of_eq (s := s) rfl rfl h)))

theorem KC_step {s : State} (hi : ItemsOk s) (hg : ∀ t ∈ gens s.ctl, (s.fut t).kind = .task) (h : KC s) :
    KC (step s) := by
  unfold step
  split
  · exact h
  · split
    · split
      · exact KC_finishTop _ h
      · split
        · exact h
        · simp only []
          apply KC_mk
          exact KC_newTask _ _ (KC_emit _ rfl (KC_of_eq (s := s) rfl rfl h))
    · split
      · exact KC_of_eq (s := s) rfl rfl h
      · split
        · exact KC_of_eq (s := s) rfl rfl h
        · exact KC_of_eq (s := s) rfl rfl h
    · split
      · exact KC_of_eq (s := s) rfl rfl h
      · split
        · exact KC_executeIter h
        · split
          · exact KC_of_eq (s := s) rfl rfl h
          · exact KC_schedulerFlush _ hi h
    · rename_i t old rest hctl
      exact KC_ite (KC_fail _ h) (KC_genStep t old (hg t (by rw [hctl]; simp [gens])) hi h)

theorem KC_reach {s : State} (h : Reach s) : KC s := by
  induction h with
  | init cfg tops choices => exact KC_init cfg tops choices
  | step hr ih =>
    have inv := pinv_reach hr
    exact KC_step inv.items inv.genKind ih

/-- in every reachable state the observer's table is exactly the machine's table of outcomes -/
theorem watch_out_eq {s : State} (h : Reach s) (f : Nat) : (wOf s.trace).out f = s.out f := by
  have k := K_reach default h
  have kc := KC_reach h
  unfold Watch.out
  cases ho : s.out f with
  | some o => exact k.ora f o ho
  | none =>
    cases hl : (wOf s.trace).outs.lookup f with
    | none => rfl
    | some o => have := kc f o hl; rw [ho] at this; cases this

end AsynqModel.Core.P14
