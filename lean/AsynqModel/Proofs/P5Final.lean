import AsynqModel.Proofs.P5Reach
import AsynqModel.Proofs.P5Sv
/-!
  P5: from the invariant to the statements of C06 / C07.
-/
namespace AsynqModel.Core.P5
open AsynqModel.Core

/-! ### alternating words -/

def altFrom : Bool → List Bool → Bool
  | _, [] => true
  | p, b :: r => (b != p) && altFrom b r

/-- a resume (`true`) / pause (`false`) word, OLDEST first: it starts with a resume and no two consecutive events
    are equal -/
def alternating : List Bool → Bool
  | [] => true
  | b :: r => b && altFrom b r

theorem altFrom_append (p b : Bool) (l : List Bool) :
    altFrom p (l ++ [b]) = (altFrom p l && (b != l.getLast?.getD p)) := by
  induction l generalizing p with
  | nil => simp [altFrom]
  | cons a l ih =>
    rw [List.cons_append, altFrom, ih, altFrom, Bool.and_assoc]
    congr 2
    cases l with
    | nil => rfl
    | cons a' l' =>
      rw [List.getLast?_cons_cons]
      cases h : (a' :: l').getLast? with
      | none => simp at h
      | some x => rfl

theorem alternating_append (b : Bool) (l : List Bool) :
    alternating (l ++ [b]) = (alternating l && (match l.getLast? with | none => b | some x => b != x)) := by
  cases l with
  | nil => simp [alternating, altFrom]
  | cons a l =>
    rw [List.cons_append, alternating, altFrom_append, alternating, Bool.and_assoc]
    congr 2
    cases l with
    | nil => rfl
    | cons a' l' => simp [List.getLast?_cons_cons]; cases h : (a' :: l').getLast? <;> simp_all

theorem goodRev_eq (w : List Bool) : goodRev w = alternating w.reverse := by
  induction w with
  | nil => rfl
  | cons b w ih =>
    rw [List.reverse_cons, alternating_append, ← ih, List.getLast?_reverse]
    cases w with
    | nil => simp [goodRev]
    | cons b' r => simp [goodRev, Bool.and_comm]

theorem altFrom_iff (p : Bool) (l : List Bool) :
    altFrom p l = true ↔ (∀ a, l.head? = some a → a ≠ p) ∧ ∀ i a b, l[i]? = some a → l[i+1]? = some b → a ≠ b := by
  induction l generalizing p with
  | nil => simp [altFrom]
  | cons x l ih =>
    simp only [altFrom, Bool.and_eq_true, bne_iff_ne, ne_eq, ih, List.head?_cons, Option.some.injEq]
    constructor
    · rintro ⟨h1, h2, h3⟩
      refine ⟨fun a ha => ha ▸ h1, ?_⟩
      intro i a b ha hb
      cases i with
      | zero =>
        simp at ha hb
        subst ha
        have := h2 b (by cases l <;> simp_all)
        exact fun h => this h.symm
      | succ i => exact h3 i a b (by simpa using ha) (by simpa using hb)
    · rintro ⟨h1, h2⟩
      refine ⟨h1 x rfl, ?_, fun i a b ha hb => h2 (i+1) a b (by simpa using ha) (by simpa using hb)⟩
      intro a ha
      have := h2 0 x a (by simp) (by cases l <;> simp_all)
      exact fun h => this h.symm

/-- `alternating` says what it should: the first entry (if any) is a resume and adjacent entries differ -/
theorem alternating_iff (l : List Bool) :
    alternating l = true ↔ (∀ a, l.head? = some a → a = true) ∧ ∀ i a b, l[i]? = some a → l[i+1]? = some b → a ≠ b := by
  cases l with
  | nil => simp [alternating]
  | cons x l =>
    simp only [alternating, Bool.and_eq_true, altFrom_iff, List.head?_cons, Option.some.injEq]
    constructor
    · rintro ⟨h1, h2, h3⟩
      refine ⟨fun a ha => ha ▸ h1, ?_⟩
      intro i a b ha hb
      cases i with
      | zero =>
        simp at ha hb
        subst ha
        have := h2 b (by cases l <;> simp_all)
        exact fun h => this h.symm
      | succ i => exact h3 i a b (by simpa using ha) (by simpa using hb)
    · rintro ⟨h1, h2⟩
      refine ⟨h1 x rfl, ?_, fun i a b ha hb => h2 (i+1) a b (by simpa using ha) (by simpa using hb)⟩
      intro a ha
      have := h2 0 x a (by simp) (by cases l <;> simp_all)
      exact fun h => this h.symm
/-! ### splitting the trace -/

theorem afterNew_split (c : Nat) (post pre : List Event) (e : Event) (h : afterNew c (post ++ e :: pre)) :
    ∀ b, e = .ctx b c → ∃ t k, Event.ctxN c t k ∈ pre := by
  induction post with
  | nil => exact h.1
  | cons p post ih => exact ih h.2

theorem exitOK_split (c : Nat) (post pre : List Event) (h : exitOK c (post ++ .ctxX c :: pre)) :
    (word pre c).head? ≠ some true := by
  induction post with
  | nil => exact h.1 rfl
  | cons p post ih => exact ih h.2

/-! ### the executable invariants of Inv.lean -/

theorem ctxFlags_of_J {s : State} (j : J s [] []) : Inv.ctxFlags s = true := by
  unfold Inv.ctxFlags
  rw [List.all_eq_true]
  intro t _
  simp only
  rw [List.all_eq_true]
  intro c hc
  obtain ⟨x, hx, _, hxr⟩ := j.reg t c hc
  rw [hx]
  rcases hxr with h | h
  · simp [h]
  · simp [h]

theorem runningCtxActive_of_G {s : State} (g : G s) : Inv.runningCtxActive s = true := by
  unfold Inv.runningCtxActive
  rw [List.all_eq_true]
  intro p hp
  obtain ⟨t, old⟩ := p
  simp [(g.gens t old hp).2.1]

end AsynqModel.Core.P5
