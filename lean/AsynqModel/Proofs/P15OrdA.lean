import AsynqModel.Proofs.P15OrdQR
import AsynqModel.Proofs.P15Ret2
import AsynqModel.Proofs.P6TOrder
import AsynqModel.Proofs.P6TInv
/-!
  P15, part 13 (start-order clause): the stack invariant `OrdInv` and the auxiliary facts its preservation needs:
  what `_handle_async_task` does to the task stack, positions in the labelled stack of P12, the first edge of an
  await chain, and the observer's `orderObl` under events that are not yields.
-/
namespace AsynqModel.Core.P15
open AsynqModel.Core AsynqModel.Core.Spec AsynqModel.Core.P2 AsynqModel.Core.P14

/-- **the stack invariant**: if the unstarted task `t`, awaited from one place only, sits on the task stack at position
    `p` and belongs to the start-order obligation `(u, l)`, then every task written before it in `l` has started or
    sits above it on the stack -/
def OrdInv (s : State) : Prop :=
  ∀ u l, (u, l) ∈ (wOf s.trace).orderObl → ∀ p t, s.stack[p]? = some t → t ∈ l → (s.task t).started = false →
    ¬ elsewhere (wOf s.trace) t →
    ∀ a ∈ l.takeWhile (· != t), (s.task a).started = true ∨ a ∈ s.stack.take p

theorem ordInv_init (cfg : Cfg) (tops : List (Conv × Body)) (choices : List (Nat × Nat)) :
    OrdInv (initState cfg tops choices) := by
  intro u l h
  have hw : wOf (initState cfg tops choices).trace = {} := rfl
  rw [hw] at h; cases h

/-- moving one obligation from a position of the old stack to a position of the new one -/
theorem ord_pos {s r : State} (oi : OrdInv s) (hst : ∀ a, (s.task a).started = true → (r.task a).started = true)
    (hel : ∀ t, elsewhere (wOf s.trace) t → elsewhere (wOf r.trace) t)
    {u : Nat} {l : List Nat} (hm : (u, l) ∈ (wOf s.trace).orderObl) {p' t : Nat} (ht : t ∈ l)
    (hts : (r.task t).started = false) (hs : ¬ elsewhere (wOf r.trace) t) {p : Nat} (hp : s.stack[p]? = some t)
    (hsub : ∀ a ∈ s.stack.take p, a ∈ l → a ∈ r.stack.take p' ∨ (r.task a).started = true) :
    ∀ a ∈ l.takeWhile (· != t), (r.task a).started = true ∨ a ∈ r.stack.take p' := by
  intro a ha
  have hts' : (s.task t).started = false := by
    cases h : (s.task t).started with
    | false => rfl
    | true => rw [hst t h] at hts; cases hts
  rcases oi u l hm p t hp ht hts' (fun he => hs (hel t he)) a ha with h1 | h1
  · exact Or.inl (hst a h1)
  · rcases hsub a h1 ((List.takeWhile_sublist _).subset ha) with h2 | h2
    · exact Or.inr h2
    · exact Or.inl h2

/-! ### `orderObl` changes only at yields -/

theorem orderObl_of_not_yield (w : Watch) (e : Event) (h : isRunYield e = false) :
    (watchEvent w e).orderObl = w.orderObl := by
  cases e with
  | run t i dc r => cases h
  | yield t i y => cases h
  | new f k => exact new_orderObl w f k
  | syncE t f => rfl
  | ctx r c => cases r <;> rfl
  | _ => rfl

theorem orderObl_noyield (pre tr : List Event) (h : ∀ e ∈ pre, isRunYield e = false) :
    (wOf (pre ++ tr)).orderObl = (wOf tr).orderObl := by
  induction pre with
  | nil => rfl
  | cons e pre ih =>
    rw [List.cons_append, wOf_cons, orderObl_of_not_yield _ _ (h e List.mem_cons_self)]
    exact ih (fun e' he' => h e' (List.mem_cons_of_mem _ he'))

theorem eraseDups_head2_ne : ∀ (l : List Nat) {a b : Nat} {rest : List Nat}, l.eraseDups = a :: b :: rest → a ≠ b
  | [], _, _, _, h => by simp at h
  | x :: xs, a, b, rest, h => by
    rw [List.eraseDups_cons] at h
    injection h with h1 h2
    subst h1
    have hb : b ∈ (xs.filter fun y => !y == x).eraseDups := by rw [h2]; exact List.mem_cons_self
    have := (List.mem_filter.1 (List.mem_eraseDups.1 hb)).2
    intro e
    subst e
    simp at this

theorem two_of_elsewhere {w : Watch} {t : Nat} (h : elsewhere w t) :
    ∃ a b, a ≠ b ∧ (t, a) ∈ w.mentions ∧ (t, b) ∈ w.mentions := by
  unfold elsewhere at h
  match hl : ((w.mentions.filter fun p => p.1 == t).map (·.2)).eraseDups with
  | [] => rw [hl] at h; simp at h
  | [x] => rw [hl] at h; simp at h
  | a :: b :: rest =>
    have hne : a ≠ b := eraseDups_head2_ne _ hl
    have ha : a ∈ (w.mentions.filter fun p => p.1 == t).map (·.2) := by
      apply List.mem_eraseDups.1; rw [hl]; exact List.mem_cons_self
    have hb : b ∈ (w.mentions.filter fun p => p.1 == t).map (·.2) := by
      apply List.mem_eraseDups.1; rw [hl]; exact List.mem_cons_of_mem _ List.mem_cons_self
    rw [List.mem_map] at ha hb
    obtain ⟨⟨t1, a'⟩, ha1, ha2⟩ := ha
    obtain ⟨⟨t2, b'⟩, hb1, hb2⟩ := hb
    simp only at ha2 hb2
    subst ha2; subst hb2
    have e1 : t1 = t := by simpa using (List.mem_filter.1 ha1).2
    have e2 : t2 = t := by simpa using (List.mem_filter.1 hb1).2
    subst e1; subst e2
    exact ⟨a', b', hne, (List.mem_filter.1 ha1).1, (List.mem_filter.1 hb1).1⟩

theorem elsewhere_mono_tr (pre tr : List Event) (t : Nat) (h : elsewhere (wOf tr) t) : elsewhere (wOf (pre ++ tr)) t := by
  obtain ⟨a, b, hne, ha, hb⟩ := two_of_elsewhere h
  exact elsewhere_of_two (mentions_mono_tr pre tr _ ha) (mentions_mono_tr pre tr _ hb) hne

/-! ### `_handle_async_task` and the task stack -/

theorem noNA_of_NA {s : State} (h : P7.NA s) : P6.NoNA s := by
  intro x hx
  obtain ⟨i, hi, rfl⟩ := List.getElem_of_mem hx
  exact h i _ (List.getElem?_eq_getElem hi)

/-- not blocked: the stack is left alone -/
theorem handle_stack_nb (s : State) (t : Nat) (hb : ((s.task t).deps.any fun d => !s.computed d) = false) :
    (s.handleTask t).stack = s.stack := by
  unfold State.handleTask
  simp only [hb, Bool.false_eq_true, if_false]
  split
  · rfl
  · show (s.resumeContexts t).stack = s.stack
    exact (P5.same_resumeContexts s t).stack

/-- second visit: popped -/
theorem handle_stack_sched (s : State) (t : Nat) (hb : ((s.task t).deps.any fun d => !s.computed d) = true)
    (hf : (s.task t).depsSched = true) : (s.handleTask t).stack = s.stack.tail := by
  unfold State.handleTask
  simp only [hb, hf, if_true]
  show ((State.pauseContexts _ t).stack).tail = _
  rw [(P5.same_pauseContexts _ t).stack]
  rfl

/-- the step of `_execute` that handles the uncomputed task on top of the stack -/
theorem step_exec_task {s : State} (hs : s.stuck = none) (hr : s.raising = none) {root base : Nat} {rest : List Ctl}
    (hc : s.ctl = .waitLoop root base :: rest) (hlen : base < s.stack.length) {top : Nat} {stk : List Nat}
    (hst : s.stack = top :: stk) (hg : (step s).guardFired = false) (hg0 : s.guardFired = false)
    (hk : (s.fut top).kind = .task) (hnc : s.computed top = false) : step s = s.handleTask top := by
  have e := P6T.step_waitLoop_iter s hs hr hc hlen
  rw [e] at hg ⊢
  unfold State.executeIter at hg ⊢
  rw [hst] at hg ⊢
  dsimp only at hg ⊢
  by_cases hmax : (top :: stk).length > s.cfg.maxStack
  · rw [if_pos hmax] at hg
    simp [State.raiseOutOfWait] at hg
  · rw [if_neg hmax, if_neg (by simp [hnc]), hk]

/-! ### positions in the labelled stack -/

theorem lab_pos {s : State} : ∀ (L : List (Nat × Nat)), P12.Lab s L → ∀ p a pa b pb,
    L[p]? = some (a, pa) → L[p + 1]? = some (b, pb) → P12.Link s pa a ∧ (pa = b ∨ pa = pb)
  | [], _, p, _, _, _, _, h, _ => by simp at h
  | [_], _, 0, _, _, _, _, _, h => by simp at h
  | [_], _, p + 1, _, _, _, _, h, _ => by simp at h
  | (a0, pa0) :: (b0, pb0) :: rest, h, 0, a, pa, b, pb, h1, h2 => by
    simp only [List.getElem?_cons_zero, Option.some.injEq, Prod.mk.injEq] at h1
    simp only [List.getElem?_cons_succ, List.getElem?_cons_zero, Option.some.injEq, Prod.mk.injEq] at h2
    obtain ⟨rfl, rfl⟩ := h1
    obtain ⟨rfl, rfl⟩ := h2
    exact ⟨h.1, h.2.1⟩
  | (a0, pa0) :: (b0, pb0) :: rest, h, p + 1, a, pa, b, pb, h1, h2 => by
    simp only [List.getElem?_cons_succ] at h1 h2
    exact lab_pos ((b0, pb0) :: rest) h.2.2 p a pa b pb h1 (by simpa using h2)

theorem lab_last {s : State} : ∀ (L : List (Nat × Nat)), P12.Lab s L → ∀ p a pa,
    L[p]? = some (a, pa) → L.length = p + 1 → pa = a
  | [], _, p, _, _, h, _ => by simp at h
  | [(r0, p0)], h, 0, a, pa, h1, _ => by
    simp only [List.getElem?_cons_zero, Option.some.injEq, Prod.mk.injEq] at h1
    obtain ⟨rfl, rfl⟩ := h1
    exact h
  | [_], _, p + 1, _, _, h, _ => by simp at h
  | _ :: (b0, pb0) :: rest, _, 0, _, _, _, h2 => by simp at h2
  | x :: (b0, pb0) :: rest, h, p + 1, a, pa, h1, h2 => by
    simp only [List.getElem?_cons_succ] at h1
    exact lab_last ((b0, pb0) :: rest) (P12.Lab.tail h) p a pa h1 (by simpa using h2)

/-- the first edge of an await chain -/
theorem Chain.first {s : State} {ρ t : Nat} (h : Chain s ρ t) : t = ρ ∨ ∃ x, Live s ρ x := by
  induction h with
  | refl => exact Or.inl rfl
  | tail _ hl ih =>
    rcases ih with e | h1
    · rw [e] at hl; exact Or.inr ⟨_, hl⟩
    · exact Or.inr h1

end AsynqModel.Core.P15
