import AsynqModel.Core.Spec
/-!
  P18 (the C04 observer accepts the machine's traces), part 1: the fuel of `Spec.Watch.settled` always suffices.

  `Watch.settled (n + 1)` is one application of a monotone operator `stepF w` to `Watch.settled n`; a future that is
  settled without being done has an entry in `w.kinds`.  So the increasing chain `settled 1 ⊆ settled 2 ⊆ ...` gains a
  new key of `w.kinds` at every strict step and is stationary from some index `m ≤ w.kinds.length + 1` on:
  `settled_fuel : w.settled n f = true → w.settled (w.kinds.length + 1) f = true` - for EVERY watch, cyclic await
  graphs included (no acyclicity argument is needed).  Nothing here mentions the machine.
-/
namespace AsynqModel.Core.P18
open AsynqModel.Core AsynqModel.Core.Spec

/-- one unfolding of `Watch.settled`, with the recursive call abstracted -/
def stepF (w : Watch) (S : Nat → Bool) (f : Nat) : Bool :=
  if w.isDone f then true else
  match w.kinds.lookup f with
  | some (.item k q _ _ _) => !w.flushedB.contains (k, q)
  | some (.task _) =>
    match w.lastYield.lookup f with
    | some (_, y) => w.started f && (y.leaves.any fun x => !w.isDone x) && y.leaves.all fun x => S x
    | none => false
  | _ => false

theorem settled_zero (w : Watch) (f : Nat) : w.settled 0 f = false := rfl

theorem settled_succ (w : Watch) (n f : Nat) : w.settled (n + 1) f = stepF w (w.settled n) f := by
  rw [Watch.settled]; rfl

theorem stepF_mono (w : Watch) (S S' : Nat → Bool) (h : ∀ x, S x = true → S' x = true) (f : Nat)
    (hf : stepF w S f = true) : stepF w S' f = true := by
  unfold stepF at hf ⊢
  split
  · rfl
  · rw [if_neg ‹_›] at hf
    split
    · next e => rw [e] at hf; exact hf
    · next e =>
      rw [e] at hf
      simp only [] at hf ⊢
      split
      · next e2 =>
        rw [e2] at hf
        simp only [Bool.and_eq_true, List.all_eq_true] at hf ⊢
        exact ⟨hf.1, fun x hx => h x (hf.2 x hx)⟩
      · next e2 => rw [e2] at hf; exact hf
    · next h1 h2 =>
      split at hf
      · next e => exact absurd e (h1 _ _ _ _ _)
      · next e => exact absurd e (h2 _)
      · exact hf

theorem stepF_congr (w : Watch) (S S' : Nat → Bool) (h : ∀ x, S x = S' x) (f : Nat) : stepF w S f = stepF w S' f := by
  have : S = S' := funext h
  rw [this]

theorem mem_keys_of_lookup {β : Type} : ∀ (l : List (Nat × β)) (f : Nat) (v : β), l.lookup f = some v →
    f ∈ l.map (·.1)
  | [], _, _, h => by cases h
  | (a, b) :: l, f, v, h => by
    rw [List.lookup_cons] at h
    by_cases e : f = a
    · subst e; simp
    · have hb : (f == a) = false := by simp [e]
      rw [hb] at h
      exact List.mem_cons_of_mem _ (mem_keys_of_lookup l f v h)

/-- a future that passes one round without being done is known to the watch -/
theorem stepF_support (w : Watch) (S : Nat → Bool) (f : Nat) (hf : stepF w S f = true) (hd : w.isDone f = false) :
    f ∈ w.kinds.map (·.1) := by
  unfold stepF at hf
  rw [hd] at hf
  simp only [Bool.false_eq_true, if_false] at hf
  cases e : w.kinds.lookup f with
  | none => rw [e] at hf; cases hf
  | some v => exact mem_keys_of_lookup _ _ _ e

theorem stepF_done (w : Watch) (S : Nat → Bool) (f : Nat) (hd : w.isDone f = true) : stepF w S f = true := by
  unfold stepF; rw [hd]; rfl

theorem settled_mono (w : Watch) : ∀ (n f : Nat), w.settled n f = true → w.settled (n + 1) f = true
  | 0, f, h => by rw [settled_zero] at h; cases h
  | n + 1, f, h => by
    rw [settled_succ] at h ⊢
    exact stepF_mono w _ _ (fun x hx => settled_mono w n x hx) f h

theorem settled_mono_le (w : Watch) (n m f : Nat) (hnm : n ≤ m) (h : w.settled n f = true) : w.settled m f = true := by
  induction m with
  | zero =>
    have : n = 0 := by omega
    subst this; exact h
  | succ m ih =>
    by_cases e : n = m + 1
    · subst e; exact h
    · exact settled_mono w m f (ih (by omega))

/-! ### counting -/

theorem countP_le_of_imp {α : Type} (P Q : α → Bool) :
    ∀ l : List α, (∀ z, z ∈ l → P z = true → Q z = true) → l.countP P ≤ l.countP Q
  | [], _ => Nat.le_refl _
  | a :: l, h => by
    have ih := countP_le_of_imp P Q l (fun z hz => h z (List.mem_cons_of_mem _ hz))
    rw [List.countP_cons, List.countP_cons]
    cases hp : P a with
    | false => simp; omega
    | true => simp [h a List.mem_cons_self hp]; exact ih

theorem countP_lt_of_imp {α : Type} (P Q : α → Bool) :
    ∀ l : List α, (∀ z, z ∈ l → P z = true → Q z = true) → (∃ y, y ∈ l ∧ Q y = true ∧ P y = false) →
      l.countP P < l.countP Q
  | [], _, ⟨_, hy, _⟩ => by cases hy
  | a :: l, h, ⟨y, hy, hq, hp⟩ => by
    have hle := countP_le_of_imp P Q l (fun z hz => h z (List.mem_cons_of_mem _ hz))
    rw [List.countP_cons, List.countP_cons]
    rcases List.mem_cons.1 hy with rfl | hy
    · simp [hq, hp]; omega
    · have ih := countP_lt_of_imp P Q l (fun z hz => h z (List.mem_cons_of_mem _ hz)) ⟨y, hy, hq, hp⟩
      cases hpa : P a with
      | false => simp; omega
      | true => simp [h a List.mem_cons_self hpa]; exact ih

/-- the number of known futures that are settled with fuel `n` without being done -/
def cnt (w : Watch) (n : Nat) : Nat := (w.kinds.map (·.1)).countP fun f => w.settled n f && !w.isDone f

theorem cnt_le (w : Watch) (n : Nat) : cnt w n ≤ w.kinds.length := by
  unfold cnt
  have := List.countP_le_length (p := fun f => w.settled n f && !w.isDone f) (l := w.kinds.map (·.1))
  simpa using this

/-- a strict step of the chain adds a key -/
theorem cnt_grow (w : Watch) (n x : Nat) (h1 : w.settled (n + 2) x = true) (h0 : w.settled (n + 1) x = false) :
    cnt w (n + 1) < cnt w (n + 2) := by
  have hd : w.isDone x = false := by
    cases e : w.isDone x with
    | false => rfl
    | true => rw [settled_succ, stepF_done w _ x e] at h0; cases h0
  have hx : x ∈ w.kinds.map (·.1) := by
    rw [settled_succ] at h1
    exact stepF_support w _ x h1 hd
  unfold cnt
  refine countP_lt_of_imp _ _ _ ?_ ⟨x, hx, by simp [h1, hd], by simp [h0]⟩
  intro z _ hz
  simp only [Bool.and_eq_true] at hz ⊢
  exact ⟨settled_mono w _ z hz.1, hz.2⟩

/-- the chain is stationary from some index `m ≤ n` on, or it has made `n` strict steps -/
theorem stable_or_count (w : Watch) : ∀ n : Nat,
    (∃ m, m ≤ n ∧ ∀ x, w.settled (m + 2) x = w.settled (m + 1) x) ∨ n ≤ cnt w (n + 1)
  | 0 => Or.inr (Nat.zero_le _)
  | n + 1 => by
    rcases stable_or_count w n with ⟨m, hm, hst⟩ | hc
    · exact Or.inl ⟨m, by omega, hst⟩
    · by_cases hall : ∀ x, w.settled (n + 2) x = w.settled (n + 1) x
      · exact Or.inl ⟨n, by omega, hall⟩
      · have hex : ∃ x, ¬ w.settled (n + 2) x = w.settled (n + 1) x := Classical.not_forall.1 hall
        obtain ⟨x, hx⟩ := hex
        have h0 : w.settled (n + 1) x = false := by
          cases e : w.settled (n + 1) x with
          | false => rfl
          | true => exact absurd (by rw [settled_mono w _ x e, e]) hx
        have h1 : w.settled (n + 2) x = true := by
          cases e : w.settled (n + 2) x with
          | true => rfl
          | false => exact absurd (by rw [e, h0]) hx
        have := cnt_grow w n x h1 h0
        exact Or.inr (show n + 1 ≤ cnt w (n + 2) by omega)

theorem stable_forever (w : Watch) (m : Nat) (hst : ∀ x, w.settled (m + 2) x = w.settled (m + 1) x) :
    ∀ k x, w.settled (m + 1 + k) x = w.settled (m + 1) x
  | 0, _ => rfl
  | k + 1, x => by
    have e : m + 1 + (k + 1) = (m + 1 + k) + 1 := by omega
    rw [e, settled_succ, stepF_congr w _ _ (stable_forever w m hst k) x, ← settled_succ]
    exact hst x

/-- the chain is stationary from `kinds.length + 1` on at the latest -/
theorem stable_at (w : Watch) : ∃ m, m ≤ w.kinds.length ∧ ∀ x, w.settled (m + 2) x = w.settled (m + 1) x := by
  rcases stable_or_count w w.kinds.length with h | hc
  · exact h
  · refine ⟨w.kinds.length, Nat.le_refl _, ?_⟩
    refine Classical.byContradiction fun hall => ?_
    obtain ⟨x, hx⟩ := Classical.not_forall.1 hall
    have h0 : w.settled (w.kinds.length + 1) x = false := by
      cases e0 : w.settled (w.kinds.length + 1) x with
      | false => rfl
      | true => exact absurd (by rw [settled_mono w _ x e0, e0]) hx
    have h1 : w.settled (w.kinds.length + 2) x = true := by
      cases e1 : w.settled (w.kinds.length + 2) x with
      | true => rfl
      | false => exact absurd (by rw [e1, h0]) hx
    have hg := cnt_grow w w.kinds.length x h1 h0
    have hle := cnt_le w (w.kinds.length + 2)
    omega

/-- **the fuel `w.kinds.length + 1` of the observer is always enough** -/
theorem settled_fuel (w : Watch) (n f : Nat) (h : w.settled n f = true) : w.settled (w.kinds.length + 1) f = true := by
  obtain ⟨m, hm, hst⟩ := stable_at w
  by_cases hn : n ≤ m + 1
  · exact settled_mono_le w _ _ f (by omega) h
  · have e : n = m + 1 + (n - (m + 1)) := by omega
    rw [e, stable_forever w m hst] at h
    exact settled_mono_le w _ _ f (by omega) h

end AsynqModel.Core.P18
