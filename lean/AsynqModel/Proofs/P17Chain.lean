import AsynqModel.Proofs.P17Lab
import AsynqModel.Proofs.P17List
import AsynqModel.Core.Spec
/-!
  P17, part 8: the observer's awaiting chain (`Spec.Watch.chain`) of the task on top of the task stack is the spine of
  the labelled stack: the top entry, its parent, the parent of the parent, ... down to the bottom entry.

  `lspine L`: the labels of `L` from the top downwards, without repetitions (sibling entries share their label).
-/
namespace AsynqModel.Core.P17
open AsynqModel.Core AsynqModel.Core.Spec P12

def lspine : List (Nat × Nat) → List Nat
  | [] => []
  | [_] => []
  | (_, pa) :: (b, pb) :: rest => if pa = b then b :: lspine ((b, pb) :: rest) else lspine ((b, pb) :: rest)

theorem chain_succ (w : Watch) (fuel t : Nat) :
    w.chain (fuel + 1) t = match w.awaiters t with
      | [] => some [t]
      | [p] => (w.chain fuel p).map (t :: ·)
      | _ => none := rfl

/-- if `p` is among the awaiters of `a` and the chain from `a` is defined, `p` is the only awaiter and the chain
    continues with `p` -/
theorem chain_step {w : Watch} {fuel a p : Nat} {ch : List Nat} (hp : p ∈ w.awaiters a)
    (h : w.chain fuel a = some ch) : ∃ fuel' ch', ch = a :: ch' ∧ w.chain fuel' p = some ch' := by
  cases fuel with
  | zero => cases h
  | succ fuel =>
    rw [chain_succ] at h
    cases hA : w.awaiters a with
    | nil => rw [hA] at hp; cases hp
    | cons q l =>
      cases l with
      | nil =>
        rw [hA] at hp h
        simp only [List.mem_singleton] at hp
        subst hp
        simp only [Option.map_eq_some_iff] at h
        obtain ⟨ch', h1, h2⟩ := h
        exact ⟨fuel, ch', h2.symm, h1⟩
      | cons r l => rw [hA] at h; cases h

theorem chain_end {w : Watch} {fuel a : Nat} {ch : List Nat} (h0 : w.awaiters a = [])
    (h : w.chain fuel a = some ch) : ch = [a] := by
  cases fuel with
  | zero => cases h
  | succ fuel =>
    rw [chain_succ, h0] at h
    simp only [Option.some.injEq] at h
    exact h.symm

section
variable {s : State} {w : Watch}

/-- the chain from the label of the top entry is the spine -/
theorem chain_labels (hA : ∀ p a, LinkA s p a → s.computed a = false → p ∈ w.awaiters a)
    (hU : ∀ p a, Link s p a → s.computed p = false) :
    ∀ (rest : List (Nat × Nat)) (a pa : Nat) (y : Nat × Nat), LabA s ((a, pa) :: y :: rest) →
      (∀ x, ((a, pa) :: y :: rest).getLast? = some x → w.awaiters x.1 = []) →
      ∀ fuel ch, w.chain fuel pa = some ch → ch = lspine ((a, pa) :: y :: rest)
  | [], a, pa, (b, pb), hl, hb, fuel, ch, hch => by
    obtain ⟨_, hadj, hbot⟩ := hl
    have hpb : pb = b := hbot
    have hpa : pa = b := by
      rcases hadj with e | e
      · exact e
      · rw [e, hpb]
    have h0 : w.awaiters b = [] := hb (b, pb) rfl
    subst hpa
    rw [chain_end h0 hch]
    simp [lspine]
  | z :: rest', a, pa, (b, pb), hl, hb, fuel, ch, hch => by
    obtain ⟨hlink, hadj, htail⟩ := hl
    have hb' : ∀ x, ((b, pb) :: z :: rest').getLast? = some x → w.awaiters x.1 = [] := by
      intro x hx; exact hb x (by rw [List.getLast?_cons_cons]; exact hx)
    by_cases hpa : pa = b
    · subst hpa
      have hlb : LinkA s pb pa := by obtain ⟨c, pc⟩ := z; exact htail.1
      have hc : s.computed pa = false := hU pa a hlink.1
      obtain ⟨fuel', ch', e1, e2⟩ := chain_step (hA pb pa hlb hc) hch
      have ih := chain_labels hA hU rest' pa pb z htail hb' fuel' ch' e2
      rw [e1, ih]
      simp [lspine]
    · have hpp : pa = pb := by
        rcases hadj with e | e
        · exact absurd e hpa
        · exact e
      subst hpp
      have ih := chain_labels hA hU rest' b pa z htail hb' fuel ch hch
      rw [ih]
      simp [lspine, hpa]

/-- the chain from the top entry -/
theorem chain_top (hA : ∀ p a, LinkA s p a → s.computed a = false → p ∈ w.awaiters a)
    (hU : ∀ p a, Link s p a → s.computed p = false) (t p0 : Nat) (rest : List (Nat × Nat))
    (hl : LabA s ((t, p0) :: rest)) (hb : ∀ x, ((t, p0) :: rest).getLast? = some x → w.awaiters x.1 = [])
    (hc : s.computed t = false) (fuel : Nat) (ch : List Nat) (hch : w.chain fuel t = some ch) :
    ch = t :: lspine ((t, p0) :: rest) := by
  cases rest with
  | nil =>
    have h0 : w.awaiters t = [] := hb (t, p0) rfl
    rw [chain_end h0 hch]
    rfl
  | cons y rest =>
    have hlk : LinkA s p0 t := by obtain ⟨b, pb⟩ := y; exact hl.1
    obtain ⟨fuel', ch', e1, e2⟩ := chain_step (hA p0 t hlk hc) hch
    rw [e1, chain_labels hA hU rest t p0 y hl hb fuel' ch' e2]

/-! ### the spine and the labels -/

/-- every entry of the spine is a label, the parent of some entry, with active contexts -/
theorem lspine_sub : ∀ (L : List (Nat × Nat)), LabA s L → ∀ q ∈ lspine L, q ∈ L.map Prod.snd ∧ ∃ a, LinkA s q a
  | [], _, q, hq => by cases hq
  | [_], _, q, hq => by cases hq
  | (a, pa) :: (b, pb) :: rest, hl, q, hq => by
    have ih := lspine_sub ((b, pb) :: rest) hl.2.2
    simp only [lspine] at hq
    split at hq
    · next hpa =>
      rcases List.mem_cons.1 hq with e | hq
      · subst e; subst hpa
        exact ⟨by simp, a, hl.1⟩
      · obtain ⟨h1, h2⟩ := ih q hq
        exact ⟨List.mem_cons_of_mem _ h1, h2⟩
    · obtain ⟨h1, h2⟩ := ih q hq
      exact ⟨List.mem_cons_of_mem _ h1, h2⟩

/-- with at least two entries every label is on the spine -/
theorem labels_sub : ∀ (rest : List (Nat × Nat)) (x y : Nat × Nat), LabA s (x :: y :: rest) →
    ∀ q ∈ (x :: y :: rest).map Prod.snd, q ∈ lspine (x :: y :: rest)
  | [], (a, pa), (b, pb), hl, q, hq => by
    have hpb : pb = b := hl.2.2
    have hpa : pa = b := by
      rcases hl.2.1 with e | e
      · exact e
      · rw [e, hpb]
    simp only [List.map_cons, List.map_nil, List.mem_cons, List.not_mem_nil, or_false] at hq
    have : q = b := by rcases hq with e | e <;> rw [e] <;> assumption
    subst this
    simp [lspine, hpa]
  | z :: rest', (a, pa), (b, pb), hl, q, hq => by
    have ih := labels_sub rest' (b, pb) z hl.2.2
    simp only [List.map_cons, List.mem_cons] at hq
    have hq' : q = pa ∨ q ∈ ((b, pb) :: z :: rest').map Prod.snd := by
      rcases hq with e | e
      · exact .inl e
      · exact .inr (by simpa using e)
    by_cases hpa : pa = b
    · have e : lspine ((a, pa) :: (b, pb) :: z :: rest') = b :: lspine ((b, pb) :: z :: rest') := by
        simp [lspine, hpa]
      rw [e]
      rcases hq' with e' | e'
      · rw [e', hpa]; exact List.mem_cons_self
      · exact List.mem_cons_of_mem _ (ih q e')
    · have e : lspine ((a, pa) :: (b, pb) :: z :: rest') = lspine ((b, pb) :: z :: rest') := by
        simp [lspine, hpa]
      rw [e]
      rcases hq' with e' | e'
      · have : pa = pb := by
          rcases hl.2.1 with e'' | e''
          · exact absurd e'' hpa
          · exact e''
        rw [e', this]
        exact ih pb (by simp)
      · exact ih q e'

/-- the spine is sorted by the creation order -/
theorem lspine_pairwise (hlt : ∀ p a, Link s p a → P10.lt s a p)
    (htr : ∀ a b c, P10.lt s a b → P10.lt s b c → P10.lt s a c) :
    ∀ (L : List (Nat × Nat)), LabA s L → (lspine L).Pairwise (P10.lt s)
  | [], _ => List.Pairwise.nil
  | [_], _ => List.Pairwise.nil
  | (a, pa) :: (b, pb) :: rest, hl => by
    have ih := lspine_pairwise hlt htr ((b, pb) :: rest) hl.2.2
    simp only [lspine]
    split
    · rw [List.pairwise_cons]
      refine ⟨?_, ih⟩
      intro q hq
      cases rest with
      | nil => cases hq
      | cons z rest' =>
        obtain ⟨h1, _⟩ := lspine_sub _ hl.2.2 q hq
        exact Lab.top_lt hlt (LabA.toLab _ hl.2.2) h1
    · exact ih

end

end AsynqModel.Core.P17
