import AsynqModel.Proofs.P1Quiet
/-!
  Batches: `batch?`, `updBatch`, `switchActive`, the flush body `flushItems`, `finishItems` and `flushBatch`.
-/
namespace AsynqModel.Core.P1
open AsynqModel.Core

/-! ### the batch table -/

theorem batch?_of_batches {s s' : State} (h : s'.batches = s.batches) (k q : Nat) : s'.batch? k q = s.batch? k q := by
  simp [State.batch?, h]

theorem find?_map_upd (l : List Batch) (k q k' q' : Nat) (g : Batch → Batch)
    (hg : ∀ b, (g b).kind = b.kind ∧ (g b).seq = b.seq) :
    (l.map (fun b => if b.kind == k && b.seq == q then g b else b)).find? (fun b => b.kind == k' && b.seq == q') =
      if k' = k ∧ q' = q then (l.find? (fun b => b.kind == k && b.seq == q)).map g
      else l.find? (fun b => b.kind == k' && b.seq == q') := by
  induction l with
  | nil => simp
  | cons b l ih =>
    simp only [List.map_cons, List.find?_cons]
    have hgb := hg b
    grind

/-- `updBatch` with an update that keeps the key rewrites exactly the entry `batch?` finds -/
theorem batch?_updBatch (s : State) (k q : Nat) (g : Batch → Batch)
    (hg : ∀ b, (g b).kind = b.kind ∧ (g b).seq = b.seq) (k' q' : Nat) :
    (s.updBatch k q g).batch? k' q' = if k' = k ∧ q' = q then (s.batch? k q).map g else s.batch? k' q' := by
  simp only [State.batch?, State.updBatch]
  exact find?_map_upd s.batches k q k' q' g hg

@[simp] theorem trace_updBatch (s : State) (k q : Nat) (g : Batch → Batch) : (s.updBatch k q g).trace = s.trace := rfl
@[simp] theorem futs_updBatch (s : State) (k q : Nat) (g : Batch → Batch) : (s.updBatch k q g).futs = s.futs := rfl
@[simp] theorem fut_updBatch (s : State) (k q : Nat) (g : Batch → Batch) (f : Nat) : (s.updBatch k q g).fut f = s.fut f := rfl
@[simp] theorem out_updBatch (s : State) (k q : Nat) (g : Batch → Batch) (f : Nat) : (s.updBatch k q g).out f = s.out f := rfl
@[simp] theorem cfg_updBatch (s : State) (k q : Nat) (g : Batch → Batch) : (s.updBatch k q g).cfg = s.cfg := rfl
@[simp] theorem stuck_updBatch (s : State) (k q : Nat) (g : Batch → Batch) : (s.updBatch k q g).stuck = s.stuck := rfl

theorem batch?_append_some (s : State) (b0 b : Batch) (k q : Nat) (h : s.batch? k q = some b) :
    ({ s with batches := s.batches ++ [b0] } : State).batch? k q = some b := by
  simp only [State.batch?] at h ⊢
  simp [List.find?_append, h]

@[simp] theorem trace_switchActive (s : State) (k q : Nat) : (s.switchActive k q).trace = s.trace := by
  unfold State.switchActive; split
  · split <;> rfl
  · rfl
@[simp] theorem futs_switchActive (s : State) (k q : Nat) : (s.switchActive k q).futs = s.futs := by
  unfold State.switchActive; split
  · split <;> rfl
  · rfl
@[simp] theorem cfg_switchActive (s : State) (k q : Nat) : (s.switchActive k q).cfg = s.cfg := by
  unfold State.switchActive; split
  · split <;> rfl
  · rfl
@[simp] theorem stuck_switchActive (s : State) (k q : Nat) : (s.switchActive k q).stuck = s.stuck := by
  unfold State.switchActive; split
  · split <;> rfl
  · rfl
@[simp] theorem fut_switchActive (s : State) (k q f : Nat) : (s.switchActive k q).fut f = s.fut f := by
  simp [State.fut]
@[simp] theorem out_switchActive (s : State) (k q f : Nat) : (s.switchActive k q).out f = s.out f := by
  simp [State.out]

/-- `_try_switch_active_batch` only ever appends a fresh batch: existing entries stay where they are -/
theorem batch?_switchActive_some (s : State) (k q k' q' : Nat) (b : Batch) (h : s.batch? k' q' = some b) :
    (s.switchActive k q).batch? k' q' = some b := by
  unfold State.switchActive
  split
  · split
    · exact batch?_append_some s _ b k' q' h
    · exact h
  · exact h

/-- the batches of `switchActive`: the old ones, possibly followed by one fresh, empty, unflushed batch -/
theorem batches_switchActive (s : State) (k q : Nat) :
    (s.switchActive k q).batches = s.batches ∨
    (s.switchActive k q).batches = s.batches ++ [({ kind := k, seq := q + 1 } : Batch)] := by
  unfold State.switchActive
  split
  · split
    · exact Or.inr rfl
    · exact Or.inl rfl
  · exact Or.inl rfl

/-! ### the flush body -/

/-- one iteration of `flushItems` -/
def flushOne (s : State) (kind i : Nat) : State :=
  if s.computed i then s else
    match (s.fut i).kind with
    | .item _ _ payload .ok => s.complete i (.ok (itemVal kind payload))
    | .item _ _ _ (.err e) => s.complete i (.err (.u e))
    | _ => s

/-- one iteration of `finishItems` -/
def finishOne (s : State) (e : Err) (i : Nat) : State :=
  if s.computed i then s else s.complete i (.err e)

theorem flushItems_cons (s : State) (k i : Nat) (is : List Nat) :
    s.flushItems k (i :: is) = (flushOne s k i).flushItems k is := rfl

theorem finishItems_cons (s : State) (e : Err) (i : Nat) (is : List Nat) :
    s.finishItems e (i :: is) = (finishOne s e i).finishItems e is := rfl

theorem Quiet.flushOne {s x : State} (h : Quiet s x) (k i : Nat) : Quiet s (flushOne x k i) := by
  unfold P1.flushOne
  split
  · exact h
  · next hc =>
    have hc' : x.computed i = false := by simpa using hc
    split
    · exact h.complete _ _ hc'
    · exact h.complete _ _ hc'
    · exact h

theorem Quiet.finishOne {s x : State} (h : Quiet s x) (e : Err) (i : Nat) : Quiet s (finishOne x e i) := by
  unfold P1.finishOne
  split
  · exact h
  · next hc => exact h.complete _ _ (by simpa using hc)

theorem Quiet.flushItems {s : State} (k : Nat) (l : List Nat) {x : State} (h : Quiet s x) :
    Quiet s (x.flushItems k l) := by
  induction l generalizing x with
  | nil => exact h
  | cons i is ih => rw [flushItems_cons]; exact ih (h.flushOne k i)

theorem Quiet.finishItems {s : State} (e : Err) (l : List Nat) {x : State} (h : Quiet s x) :
    Quiet s (x.finishItems e l) := by
  induction l generalizing x with
  | nil => exact h
  | cons i is ih => rw [finishItems_cons]; exact ih (h.finishOne e i)

/-- events of the flush body: only `done` events -/
def isDone : Event → Bool
  | .done .. => true
  | _ => false

theorem flushOne_trace (s : State) (k i : Nat) :
    ∃ es, (flushOne s k i).trace = es ++ s.trace ∧ ∀ e ∈ es, isDone e = true := by
  unfold flushOne
  split
  · exact ⟨[], rfl, by simp⟩
  · split
    · exact ⟨[_], rfl, by simp [isDone]⟩
    · exact ⟨[_], rfl, by simp [isDone]⟩
    · exact ⟨[], rfl, by simp⟩

theorem finishOne_trace (s : State) (e : Err) (i : Nat) :
    ∃ es, (finishOne s e i).trace = es ++ s.trace ∧ ∀ e ∈ es, isDone e = true := by
  unfold finishOne
  split
  · exact ⟨[], rfl, by simp⟩
  · exact ⟨[_], rfl, by simp [isDone]⟩

theorem flushItems_trace (k : Nat) (l : List Nat) (s : State) :
    ∃ es, (s.flushItems k l).trace = es ++ s.trace ∧ ∀ e ∈ es, isDone e = true := by
  induction l generalizing s with
  | nil => exact ⟨[], rfl, by simp⟩
  | cons i is ih =>
    rw [flushItems_cons]
    obtain ⟨es1, h1, hd1⟩ := flushOne_trace s k i
    obtain ⟨es2, h2, hd2⟩ := ih (flushOne s k i)
    refine ⟨es2 ++ es1, by rw [h2, h1, List.append_assoc], ?_⟩
    intro e he
    rcases List.mem_append.1 he with h | h
    · exact hd2 e h
    · exact hd1 e h

theorem finishItems_trace (e : Err) (l : List Nat) (s : State) :
    ∃ es, (s.finishItems e l).trace = es ++ s.trace ∧ ∀ e ∈ es, isDone e = true := by
  induction l generalizing s with
  | nil => exact ⟨[], rfl, by simp⟩
  | cons i is ih =>
    rw [finishItems_cons]
    obtain ⟨es1, h1, hd1⟩ := finishOne_trace s e i
    obtain ⟨es2, h2, hd2⟩ := ih (finishOne s e i)
    refine ⟨es2 ++ es1, by rw [h2, h1, List.append_assoc], ?_⟩
    intro e he
    rcases List.mem_append.1 he with h | h
    · exact hd2 e h
    · exact hd1 e h

theorem isDone_NF {e : Event} (h : isDone e = true) : NF e = true := by cases e <;> simp_all [isDone, NF]

/-! #### what one iteration does to the futures -/

theorem flushOne_fut_ne (s : State) (k i g : Nat) (h : g ≠ i) : (flushOne s k i).fut g = s.fut g := by
  unfold flushOne
  split
  · rfl
  · split <;> first | exact fut_complete_ne s i g _ h | rfl

theorem finishOne_fut_ne (s : State) (e : Err) (i g : Nat) (h : g ≠ i) : (finishOne s e i).fut g = s.fut g := by
  unfold finishOne
  split
  · rfl
  · exact fut_complete_ne s i g _ h

@[simp] theorem flushOne_kind (s : State) (k i g : Nat) : ((flushOne s k i).fut g).kind = (s.fut g).kind := by
  unfold flushOne
  split
  · rfl
  · split <;> simp

@[simp] theorem flushOne_len (s : State) (k i : Nat) : (flushOne s k i).futs.length = s.futs.length := by
  unfold flushOne
  split
  · rfl
  · split <;> simp

@[simp] theorem finishOne_len (s : State) (e : Err) (i : Nat) : (finishOne s e i).futs.length = s.futs.length := by
  unfold finishOne
  split
  · rfl
  · simp

@[simp] theorem flushOne_stuck (s : State) (k i : Nat) : (flushOne s k i).stuck = s.stuck := by
  unfold flushOne
  split
  · rfl
  · split <;> simp

@[simp] theorem finishOne_stuck (s : State) (e : Err) (i : Nat) : (finishOne s e i).stuck = s.stuck := by
  unfold finishOne
  split
  · rfl
  · simp

/-- an uncomputed item whose mode is not `unset` is answered by the flush body with its `itemOutcome` -/
theorem flushOne_self (cfg : Cfg) (s : State) (k i k' q' p : Nat) (mode : ItemMode) (hn : s.out i = none)
    (hl : i < s.futs.length) (hk : (s.fut i).kind = .item k' q' p mode) (hm : mode ≠ .unset) :
    (flushOne s k i).out i = some (itemOutcome cfg k p mode) := by
  unfold flushOne
  have hc : s.computed i = false := by simp [State.computed, hn]
  simp only [hc, Bool.false_eq_true, if_false, hk]
  cases mode with
  | ok => simp [out_complete_self s i _ hl, itemOutcome]
  | err e => simp [out_complete_self s i _ hl, itemOutcome]
  | unset => exact absurd rfl hm

/-- an `unset` item is skipped by the flush body -/
theorem flushOne_self_unset (s : State) (k i k' q' p : Nat) (hk : (s.fut i).kind = .item k' q' p .unset) :
    flushOne s k i = s := by
  unfold flushOne
  split
  · rfl
  · simp [hk]

theorem finishOne_self (s : State) (e : Err) (i : Nat) (hn : s.out i = none) (hl : i < s.futs.length) :
    (finishOne s e i).out i = some (.err e) := by
  unfold finishOne
  have hc : s.computed i = false := by simp [State.computed, hn]
  simp only [hc, Bool.false_eq_true, if_false]
  exact out_complete_self s i _ hl

/-! #### the whole loops -/

theorem flushItems_fut_notin (k : Nat) (l : List Nat) (s : State) (f : Nat) (h : f ∉ l) :
    (s.flushItems k l).fut f = s.fut f := by
  induction l generalizing s with
  | nil => rfl
  | cons i is ih =>
    rw [flushItems_cons, ih _ (fun h' => h (List.mem_cons_of_mem _ h')),
      flushOne_fut_ne s k i f (fun h' => h (h' ▸ List.mem_cons_self))]

theorem finishItems_fut_notin (e : Err) (l : List Nat) (s : State) (f : Nat) (h : f ∉ l) :
    (s.finishItems e l).fut f = s.fut f := by
  induction l generalizing s with
  | nil => rfl
  | cons i is ih =>
    rw [finishItems_cons, ih _ (fun h' => h (List.mem_cons_of_mem _ h')),
      finishOne_fut_ne s e i f (fun h' => h (h' ▸ List.mem_cons_self))]

@[simp] theorem flushItems_len (k : Nat) (l : List Nat) (s : State) : (s.flushItems k l).futs.length = s.futs.length := by
  induction l generalizing s with
  | nil => rfl
  | cons i is ih => rw [flushItems_cons, ih, flushOne_len]

@[simp] theorem finishItems_len (e : Err) (l : List Nat) (s : State) : (s.finishItems e l).futs.length = s.futs.length := by
  induction l generalizing s with
  | nil => rfl
  | cons i is ih => rw [finishItems_cons, ih, finishOne_len]

@[simp] theorem flushItems_kind (k : Nat) (l : List Nat) (s : State) (g : Nat) :
    ((s.flushItems k l).fut g).kind = (s.fut g).kind := by
  induction l generalizing s with
  | nil => rfl
  | cons i is ih => rw [flushItems_cons, ih, flushOne_kind]

@[simp] theorem flushItems_stuck (k : Nat) (l : List Nat) (s : State) : (s.flushItems k l).stuck = s.stuck := by
  induction l generalizing s with
  | nil => rfl
  | cons i is ih => rw [flushItems_cons, ih, flushOne_stuck]

@[simp] theorem finishItems_stuck (e : Err) (l : List Nat) (s : State) : (s.finishItems e l).stuck = s.stuck := by
  induction l generalizing s with
  | nil => rfl
  | cons i is ih => rw [finishItems_cons, ih, finishOne_stuck]

@[simp] theorem flushItems_cfg (k : Nat) (l : List Nat) (s : State) : (s.flushItems k l).cfg = s.cfg :=
  (Quiet.flushItems k l (Quiet.refl s)).cfg
@[simp] theorem finishItems_cfg (e : Err) (l : List Nat) (s : State) : (s.finishItems e l).cfg = s.cfg :=
  (Quiet.finishItems e l (Quiet.refl s)).cfg
@[simp] theorem flushItems_batches (k : Nat) (l : List Nat) (s : State) : (s.flushItems k l).batches = s.batches :=
  (Quiet.flushItems k l (Quiet.refl s)).batches
@[simp] theorem finishItems_batches (e : Err) (l : List Nat) (s : State) : (s.finishItems e l).batches = s.batches :=
  (Quiet.finishItems e l (Quiet.refl s)).batches

theorem flushItems_out_stable (k : Nat) (l : List Nat) (s : State) (f : Nat) (o : Outcome) (h : s.out f = some o) :
    (s.flushItems k l).out f = some o :=
  (Quiet.flushItems k l (Quiet.refl s)).out f o h

theorem finishItems_out_stable (e : Err) (l : List Nat) (s : State) (f : Nat) (o : Outcome) (h : s.out f = some o) :
    (s.finishItems e l).out f = some o :=
  (Quiet.finishItems e l (Quiet.refl s)).out f o h

/-- the flush body answers every uncomputed item of mode `ok` / `err` with its `itemOutcome` -/
theorem flushItems_out_item (cfg : Cfg) (k : Nat) (l : List Nat) (s : State) (i k' q' p : Nat) (mode : ItemMode)
    (hi : i ∈ l) (hn : s.out i = none) (hl : i < s.futs.length) (hk : (s.fut i).kind = .item k' q' p mode)
    (hm : mode ≠ .unset) : (s.flushItems k l).out i = some (itemOutcome cfg k p mode) := by
  induction l generalizing s with
  | nil => cases hi
  | cons j js ih =>
    rw [flushItems_cons]
    by_cases hji : i = j
    · subst hji
      exact flushItems_out_stable k js _ i _ (flushOne_self cfg s k i k' q' p mode hn hl hk hm)
    · have hi' : i ∈ js := by
        rcases List.mem_cons.1 hi with h | h
        · exact absurd h hji
        · exact h
      refine ih (flushOne s k j) hi' ?_ (by simpa using hl) (by simpa using hk)
      simp only [State.out, flushOne_fut_ne s k j i hji]
      exact hn

/-- the flush body leaves an uncomputed `unset` item uncomputed -/
theorem flushItems_out_unset (k : Nat) (l : List Nat) (s : State) (i k' q' p : Nat)
    (hn : s.out i = none) (hk : (s.fut i).kind = .item k' q' p .unset) : (s.flushItems k l).out i = none := by
  induction l generalizing s with
  | nil => exact hn
  | cons j js ih =>
    rw [flushItems_cons]
    by_cases hji : i = j
    · subst hji
      rw [flushOne_self_unset s k i k' q' p hk]
      exact ih s hn hk
    · refine ih (flushOne s k j) ?_ (by simpa using hk)
      simp only [State.out, flushOne_fut_ne s k j i hji]
      exact hn

/-- `BatchBase._computed` answers every item that is still uncomputed with the error `e` -/
theorem finishItems_out_item (e : Err) (l : List Nat) (s : State) (i : Nat) (hi : i ∈ l) (hn : s.out i = none)
    (hl : i < s.futs.length) : (s.finishItems e l).out i = some (.err e) := by
  induction l generalizing s with
  | nil => cases hi
  | cons j js ih =>
    rw [finishItems_cons]
    by_cases hji : i = j
    · subst hji
      exact finishItems_out_stable e js _ i _ (finishOne_self s e i hn hl)
    · have hi' : i ∈ js := by
        rcases List.mem_cons.1 hi with h | h
        · exact absurd h hji
        · exact h
      refine ih (finishOne s e j) hi' ?_ (by simpa using hl)
      simp only [State.out, finishOne_fut_ne s e j i hji]
      exact hn

/-- after `finishItems` every item is computed -/
theorem finishItems_computed (e : Err) (l : List Nat) (s : State) (i : Nat) (hi : i ∈ l) (hl : i < s.futs.length) :
    (s.finishItems e l).computed i = true := by
  cases hn : s.out i with
  | none => simp [State.computed, finishItems_out_item e l s i hi hn hl]
  | some o => simp [State.computed, finishItems_out_stable e l s i o hn]

end AsynqModel.Core.P1
