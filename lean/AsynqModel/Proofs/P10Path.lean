/-
  P10 (acyclicity of the await graph), part 1: post-order comparison of tree addresses.

  A future is addressed by its path in the creation forest: the list of sibling indices from the root down.
  `plt p q` : address `p` comes strictly before address `q` in POST-ORDER with children in creation order
              (a proper descendant comes before its ancestor; otherwise the older branch comes first).
  `left p q`: `p` lies in the subtree of an older sibling of an ancestor-or-self of `q` (the part of `plt` that
              survives when `q` gets new descendants).
  Pure list facts, no machine.
-/
namespace AsynqModel.Core.P10

/-- post-order "strictly before" on tree addresses -/
def plt : List Nat → List Nat → Bool
  | [], _ => false
  | _ :: _, [] => true
  | i :: p, j :: q => decide (i < j) || (i == j && plt p q)

/-- strictly to the left: the two addresses branch, and `p` takes the older branch -/
def left : List Nat → List Nat → Bool
  | i :: p, j :: q => decide (i < j) || (i == j && left p q)
  | _, _ => false

theorem plt_irrefl : ∀ p : List Nat, plt p p = false
  | [] => rfl
  | i :: p => by simp [plt, plt_irrefl p]

theorem plt_trans : ∀ p q r : List Nat, plt p q = true → plt q r = true → plt p r = true
  | [], _, _, h, _ => by simp [plt] at h
  | _ :: _, [], _, _, h => by simp [plt] at h
  | _ :: _, _ :: _, [], _, _ => rfl
  | i :: p, j :: q, k :: r, h1, h2 => by
    simp only [plt, Bool.or_eq_true, decide_eq_true_eq, Bool.and_eq_true, beq_iff_eq] at h1 h2 ⊢
    rcases h1 with h1 | ⟨e1, h1⟩
    · rcases h2 with h2 | ⟨e2, _⟩
      · left; omega
      · left; omega
    · rcases h2 with h2 | ⟨e2, h2⟩
      · left; omega
      · right; exact ⟨e1.trans e2, plt_trans p q r h1 h2⟩

theorem left_plt : ∀ p q : List Nat, left p q = true → plt p q = true
  | [], _, h => by simp [left] at h
  | _ :: _, [], h => by simp [left] at h
  | i :: p, j :: q, h => by
    simp only [left, plt, Bool.or_eq_true, decide_eq_true_eq, Bool.and_eq_true, beq_iff_eq] at h ⊢
    rcases h with h | ⟨e, h⟩
    · left; exact h
    · right; exact ⟨e, left_plt p q h⟩

/-- a proper descendant comes before its ancestor -/
theorem plt_append : ∀ (q e : List Nat), e ≠ [] → plt (q ++ e) q = true
  | [], [], h => absurd rfl h
  | [], _ :: _, _ => rfl
  | j :: q, e, h => by simp [plt, plt_append q e h]

theorem plt_child (q : List Nat) (i : Nat) : plt (q ++ [i]) q = true := plt_append q [i] (by simp)

/-- an older sibling is to the left of a younger one -/
theorem left_sibling : ∀ (r : List Nat) (i j : Nat), i < j → left (r ++ [i]) (r ++ [j]) = true
  | [], i, j, h => by simp [left, h]
  | k :: r, i, j, h => by simp [left, left_sibling r i j h]

/-- being to the left survives new descendants of the right-hand address -/
theorem left_append_right : ∀ (p q e : List Nat), left p q = true → left p (q ++ e) = true
  | [], _, _, h => by simp [left] at h
  | _ :: _, [], _, h => by simp [left] at h
  | i :: p, j :: q, e, h => by
    simp only [left, List.cons_append, Bool.or_eq_true, decide_eq_true_eq, Bool.and_eq_true, beq_iff_eq] at h ⊢
    rcases h with h | ⟨e1, h⟩
    · left; exact h
    · right; exact ⟨e1, left_append_right p q e h⟩

/-- ... and passes to the descendants of the left-hand address -/
theorem left_append_left : ∀ (p q e : List Nat), left p q = true → left (p ++ e) q = true
  | [], _, _, h => by simp [left] at h
  | _ :: _, [], _, h => by simp [left] at h
  | i :: p, j :: q, e, h => by
    simp only [left, List.cons_append, Bool.or_eq_true, decide_eq_true_eq, Bool.and_eq_true, beq_iff_eq] at h ⊢
    rcases h with h | ⟨e1, h⟩
    · left; exact h
    · right; exact ⟨e1, left_append_left p q e h⟩

theorem left_irrefl (p : List Nat) : left p p = false := by
  cases h : left p p with
  | false => rfl
  | true => have := left_plt p p h; rw [plt_irrefl] at this; cases this

/-- left-of then before: still left-of unless the third address is an ancestor; in any case before -/
theorem left_trans : ∀ p q r : List Nat, left p q = true → left q r = true → left p r = true
  | [], _, _, h, _ => by simp [left] at h
  | _ :: _, [], _, h, _ => by simp [left] at h
  | _ :: _, _ :: _, [], _, h => by simp [left] at h
  | i :: p, j :: q, k :: r, h1, h2 => by
    simp only [left, Bool.or_eq_true, decide_eq_true_eq, Bool.and_eq_true, beq_iff_eq] at h1 h2 ⊢
    rcases h1 with h1 | ⟨e1, h1⟩
    · rcases h2 with h2 | ⟨e2, _⟩
      · left; omega
      · left; omega
    · rcases h2 with h2 | ⟨e2, h2⟩
      · left; omega
      · right; exact ⟨e1.trans e2, left_trans p q r h1 h2⟩

/-- totality on distinct addresses (post-order is a linear order) -/
theorem plt_total : ∀ p q : List Nat, p ≠ q → plt p q = true ∨ plt q p = true
  | [], [], h => absurd rfl h
  | [], _ :: _, _ => Or.inr rfl
  | _ :: _, [], _ => Or.inl rfl
  | i :: p, j :: q, h => by
    simp only [plt, Bool.or_eq_true, decide_eq_true_eq, Bool.and_eq_true, beq_iff_eq]
    rcases Nat.lt_trichotomy i j with h1 | h1 | h1
    · exact Or.inl (Or.inl h1)
    · subst h1
      have hpq : p ≠ q := fun e => h (by rw [e])
      rcases plt_total p q hpq with h2 | h2
      · exact Or.inl (Or.inr ⟨rfl, h2⟩)
      · exact Or.inr (Or.inr ⟨rfl, h2⟩)
    · exact Or.inr (Or.inl h1)

example : plt [0, 1] [0] = true := rfl          -- a child before its parent
example : plt [0, 0, 5] [0, 1] = true := rfl    -- the subtree of an older sibling before the younger sibling
example : plt [0] [0, 1] = false := rfl
example : left [0, 0, 5] [0, 1, 7] = true := rfl
example : left [0, 1] [0] = false := rfl        -- a descendant is before, but not to the left

end AsynqModel.Core.P10

