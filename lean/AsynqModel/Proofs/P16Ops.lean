import AsynqModel.Proofs.P16Rel
/-!
  P16, part 3: the relation `R` is preserved by the compound context operations of the machine
  (`ctxExit`, `exitAll`, `failSuspended`, `resumeContexts`, `pauseContexts`).  The side conditions of the primitive
  lemmas (the flag of a context before it is flipped, registration) come from the context invariant `P5.J`, which is
  threaded through the folds with the lemmas of `P5Ops`.
-/
namespace AsynqModel.Core.P16
open AsynqModel.Core AsynqModel.Core.Spec AsynqModel.Core.P13 AsynqModel.Core.P5

variable {cx : Ctx}

/-- `__exit__` of the context `c` of an open with-block of task `t` -/
theorem R_ctxExit {s : State} {d : List Nat} (t c : Nat) (j : J s d []) (hc : c ∈ (s.task t).conts.map (·.1))
    (hd : c ∉ d) (h : R cx s none) : R cx (s.ctxExit c) none := by
  have hlt := j.cbound t c hc
  obtain ⟨x0, hx0⟩ := h.entry hlt
  obtain ⟨y, h1, h2, h3, h4, h5⟩ := h.rel c x0 hx0
  have h5 := h5 (by simp)
  rw [ctxExit_some s c x0.owner y h1 h3]
  have r1 := h.erase c x0.owner
  have hx1 : (W (eraseReg s c x0.owner)).ctx? c = some x0 := hx0
  have hnot : c ∉ ((eraseReg s c x0.owner).task x0.owner).ctxs := by
    rw [ctxs_eraseReg]
    simp only [if_true]
    intro hm
    exact ((j.nodup x0.owner).mem_erase_iff.1 hm).1 rfl
  -- what `J` says about the flag of `c`
  have hflag : y.kind ≠ .nonasync → y.resumed = (s.task x0.owner).ctxActive := by
    intro hk
    have := j.opn t c hc hd y h1 hk
    rw [h3] at this
    obtain ⟨y', e1, _, e3⟩ := j.reg x0.owner c this
    rw [h1] at e1; cases e1
    rcases e3 with e3 | e3
    · exact absurd e3 hk
    · simpa using e3
  split
  · next hb =>
    have hres : x0.resumed = false := by
      rw [h4]
      by_cases hk : y.kind = .nonasync
      · exact j.na c y h1 hk
      · rw [hflag hk]
        have : (y.kind == CtxKind.nonasync) = false := by simpa using hk
        simpa [this] using hb
    exact r1.emitX hx1 hres hnot
  · next hb =>
    have hk : y.kind ≠ .nonasync := by
      intro hk; simp [hk] at hb
    have hact : (s.task x0.owner).ctxActive = true := by
      have : (y.kind == CtxKind.nonasync) = false := by simpa using hk
      simpa [this] using hb
    have f := flagOp_pause (eraseReg s c x0.owner) c
    have r2 : R cx ((eraseReg s c x0.owner).ctxPauseOne c) (some c) :=
      r1.flag f hx1 (by rw [h4, hflag hk, hact]; rfl) (fun hh => by cases hh)
    have hx2 : (W ((eraseReg s c x0.owner).ctxPauseOne c)).ctx? c = some { x0 with resumed := false } := by
      show (obs ((eraseReg s c x0.owner).ctxPauseOne c).trace).ctx? c = _
      rw [f.trace]
      show (watchEvent (W (eraseReg s c x0.owner)) (.ctx false c)).ctx? c = _
      rw [lookup_ctx, if_pos rfl, hx1]; rfl
    refine r2.emitX hx2 rfl ?_
    rw [f.task]; exact hnot

theorem R_foldExit (t : Nat) (l : List (Nat × Body)) : ∀ (s : State) (d : List Nat), J s d [] → R cx s none →
    (∀ p ∈ l, p.1 ∈ (s.task t).conts.map (·.1)) → (l.map (·.1)).Nodup → (∀ p ∈ l, p.1 ∉ d) →
    R cx (l.foldl (fun s p => s.ctxExit p.1) s) none := by
  induction l with
  | nil => intro s d _ h _ _ _; exact h
  | cons p l ih =>
    intro s d j h hm hn hd
    rw [List.foldl_cons]
    simp only [List.map_cons, List.nodup_cons] at hn
    have hc := hm p (by simp)
    have hdp := hd p (by simp)
    refine ih (s.ctxExit p.1) (p.1 :: d) (J_ctxExit t p.1 j hc hdp) (R_ctxExit t p.1 j hc hdp h) ?_ hn.2 ?_
    · intro q hq; rw [conts_ctxExit]; exact hm q (by simp [hq])
    · intro q hq
      simp only [List.mem_cons, not_or]
      refine ⟨?_, hd q (by simp [hq])⟩
      intro e
      exact hn.1 (e ▸ List.mem_map_of_mem hq)

theorem R_exitAll {s : State} (t : Nat) (j : J s [] []) (h : R cx s none) : R cx (s.exitAll t) none := by
  unfold State.exitAll
  refine R.updTask ?_ t _ (fun _ => rfl)
  exact R_foldExit t (s.task t).conts s [] j h (fun p hp => List.mem_map_of_mem hp) (j.cnodup t) (fun _ _ => by simp)

theorem R_failSuspended {s : State} (t : Nat) (e : Err) (j : J s [] []) (h : R cx s none) :
    R cx (s.failSuspended t e) none := by
  unfold State.failSuspended
  split
  · exact h
  · exact R.complete (R.updTask (R_exitAll t j h) t (fun ts => { ts with pending := false }) (fun _ => rfl)) t _

/-- one step of the loops of `_resume_contexts` / `_pause_contexts` -/
theorem R_flipOne {s : State} {d rest : List Nat} (b : Bool) (t c : Nat) (j : J s d (c :: rest))
    (hreg : c ∈ (s.task t).ctxs) (hact : (s.task t).ctxActive = b) (h : R cx s none) : R cx (flipOne b s c) none := by
  obtain ⟨x, hx, hxo, hxr⟩ := j.reg t c hreg
  unfold flipOne State.ctxIsNonAsync
  simp only [hx]
  by_cases hk : x.kind = .nonasync
  · simp only [hk, beq_self_eq_true, if_true]; exact h
  · have hk' : (x.kind == CtxKind.nonasync) = false := by simpa using hk
    simp only [hk', Bool.false_eq_true, if_false]
    have hres : x.resumed = !b := by
      rcases hxr with hh | hh
      · exact absurd hh hk
      · rw [hh, hact]; simp
    obtain ⟨x0, hx0⟩ := h.entry (lt_of_getElem?_some hx)
    obtain ⟨y, h1, h2, h3, h4, h5⟩ := h.rel c x0 hx0
    rw [hx] at h1; cases h1
    have hown : x0.owner = t := by rw [hxo] at h3; exact (Option.some.inj h3).symm
    have hopen : x0.isOpen = true := (h5 (by simp)).2 (by rw [hown]; exact hreg)
    cases b with
    | true => exact h.flag (flagOp_resume s c) hx0 (by rw [h4, hres]) (fun _ => hopen)
    | false => exact h.flag (flagOp_pause s c) hx0 (by rw [h4, hres]) (fun hh => by cases hh)

theorem R_foldFlip (b : Bool) (t : Nat) (l : List Nat) : ∀ (s : State) (d : List Nat), J s d l → l.Nodup →
    (∀ c ∈ l, c ∈ (s.task t).ctxs) → (s.task t).ctxActive = b → R cx s none → R cx (l.foldl (flipOne b) s) none := by
  induction l with
  | nil => intro s d _ _ _ _ h; exact h
  | cons c l ih =>
    intro s d j hn hm ha h
    rw [List.nodup_cons] at hn
    rw [List.foldl_cons]
    refine ih _ d (J_flipOne b t c j hn.1 (hm c (by simp)) ha) hn.2 ?_ ?_ (R_flipOne b t c j (hm c (by simp)) ha h)
    · intro c' hc'; rw [task_flipOne]; exact hm c' (by simp [hc'])
    · rw [task_flipOne]; exact ha

theorem R_resumeContexts {s : State} (t : Nat) (j : J s [] []) (ht : t < s.futs.length) (h : R cx s none) :
    R cx (s.resumeContexts t) none := by
  rw [resumeContexts_eq]
  split
  · exact h
  · next hact =>
    simp only
    have j0 := J_setActive t true j (by simpa using hact) ht
    have hts : (s.updTask t fun ts => { ts with ctxActive := true }).task t = { s.task t with ctxActive := true } :=
      task_updTask_self _ _ _ ht
    have r0 : R cx (s.updTask t fun ts => { ts with ctxActive := true }) none := R.updTask h t _ (fun _ => rfl)
    have j1 := J_foldFlip true t (s.task t).ctxs _ [] j0 (j.nodup t) (fun c hc => by rw [hts]; exact hc)
      (by rw [hts])
    have r1 := R_foldFlip (cx := cx) true t (s.task t).ctxs _ [] j0 (j.nodup t) (fun c hc => by rw [hts]; exact hc)
      (by rw [hts]) r0
    split
    · exact R_failSuspended t _ j1 r1
    · exact r1

theorem R_pauseContexts {s : State} (t : Nat) (j : J s [] []) (ht : t < s.futs.length) (h : R cx s none) :
    R cx (s.pauseContexts t) none := by
  rw [pauseContexts_eq]
  split
  · exact h
  · next hact =>
    simp only
    have j0 := J_setActive t false j (by simpa using hact) ht
    have hts : (s.updTask t fun ts => { ts with ctxActive := false }).task t = { s.task t with ctxActive := false } :=
      task_updTask_self _ _ _ ht
    have j0' : J (s.updTask t fun ts => { ts with ctxActive := false }) [] (s.task t).ctxs.reverse := by
      refine { j0 with reg := ?_ }
      intro u c hc
      obtain ⟨x, hx, hxo, hxr⟩ := j0.reg u c hc
      exact ⟨x, hx, hxo, by simpa using hxr⟩
    have r0 : R cx (s.updTask t fun ts => { ts with ctxActive := false }) none := R.updTask h t _ (fun _ => rfl)
    have j1 := J_foldFlip false t (s.task t).ctxs.reverse _ [] j0' (nodup_reverse (j.nodup t))
      (fun c hc => by rw [hts]; exact List.mem_reverse.1 hc) (by rw [hts])
    have r1 := R_foldFlip (cx := cx) false t (s.task t).ctxs.reverse _ [] j0' (nodup_reverse (j.nodup t))
      (fun c hc => by rw [hts]; exact List.mem_reverse.1 hc) (by rw [hts]) r0
    split
    · exact R_failSuspended t _ j1 r1
    · exact r1

end AsynqModel.Core.P16
