import AsynqModel.Proofs.P13Step
/-!
  P13, part 7: the scheduler side of `step` (`executeIter`, `handleTask`, `schedulerFlush`, the start and the end of
  a top-level computation) and the step theorem `inv13_step`, `inv13_reach`.
-/
namespace AsynqModel.Core.P13
open AsynqModel.Core AsynqModel.Core.Spec AsynqModel.Core.P1

/-! ### `_execute` -/

theorem handle_out (c : Ctx) (s : State) (t : Nat) (hl : t < s.futs.length) (hk : (s.fut t).kind = .task) :
    Q c none s (s.handleTask t) ∨ ∃ a, T c none id s (s.handleTask t) (.gen t a :: s.ctl) := by
  unfold State.handleTask
  simp only []
  split
  · split
    · refine Or.inl ?_
      refine T.popStack ?_
      refine T.pauseContexts ?_ t hl hk
      qq
    · refine Or.inl ?_
      refine T.mk' ?_ ..
      refine T.resumeContexts ?_ t hl hk
      qq
  · split
    · exact Or.inl (by qq)
    · refine Or.inr ⟨(s.resumeContexts t).active, ?_⟩
      have q : Q c none s (s.resumeContexts t) := (T.refl c none s).resumeContexts t hl hk
      have := q.mkCtl (s.resumeContexts t).stack (s.resumeContexts t).sbatches (some t)
        (.gen t (s.resumeContexts t).active :: (s.resumeContexts t).ctl) (s.resumeContexts t).ctxs
        (s.resumeContexts t).sv (s.resumeContexts t).tops (s.resumeContexts t).topIdx (s.resumeContexts t).raising
        (s.resumeContexts t).choices (s.resumeContexts t).stuck (s.resumeContexts t).guardFired
      exact this.ctl_eq (by rw [q.ctl])

theorem exec_out (c : Ctx) (s : State) :
    Q c none s s.executeIter ∨ T c none id s s.executeIter s.ctl.tail ∨
      ∃ t a, T c none id s s.executeIter (.gen t a :: s.ctl) := by
  unfold State.executeIter
  split
  · exact Or.inl (by qq)
  · next top stk hst =>
    split
    · refine Or.inr (Or.inl ?_)
      unfold State.raiseOutOfWait
      exact (T.refl c none s).mkCtl ..
    · split
      · exact Or.inl (by qq)
      · next hc =>
        split
        · next hk =>
          rcases handle_out c s top (lt_of_kind_ne (by rw [hk]; intro e; cases e)) hk with h | ⟨a, h⟩
          · exact Or.inl h
          · exact Or.inr (Or.inr ⟨top, a, h⟩)
        · refine Or.inl ?_
          refine T.popStack ?_
          split
          · split
            · exact T.refl _ _ _
            · exact (T.refl c none s).mk' ..
          · exact T.refl _ _ _
        · next o hk =>
          refine Or.inl ?_
          refine T.popStack ?_
          exact (T.refl c none s).complete top _ (by simpa using hc) (lt_of_kind_ne (by rw [hk]; intro e; cases e))
            (by rw [hk]; intro _ _ _ _ e; cases e)
        · exact Or.inl (by qq)

/-! ### the scheduler flush -/

/-- the flushed batch has maximal priority among the pending ones the `flushB` event lists -/
theorem prio_ok (s : State) (c0 : Nat × Nat) (b : Batch) (ha : s.admissible c0 = true)
    (hb : s.batch? c0.1 c0.2 = some b) :
    (s.pendingOf (s.flushable.erase c0)).any
      (fun p => !p.flushed && decide (p.n > 0) && prioLt (s.batchPrio b) p.prio) = false := by
  obtain ⟨_, b1, hb1, hmax⟩ := admissible_spec s c0 ha
  rw [hb] at hb1
  cases hb1
  rw [List.any_eq_false]
  intro p hp
  simp only [State.pendingOf, List.mem_mergeSort, List.mem_filterMap] at hp
  obtain ⟨⟨k, q⟩, hkq, hpe⟩ := hp
  cases hbq : s.batch? k q with
  | none => simp [hbq] at hpe
  | some b' =>
    simp only [hbq, Option.map_some, Option.some.injEq] at hpe
    subst hpe
    have := hmax k q b' (List.mem_of_mem_erase hkq) hbq
    simp [this]

/-- the bracket of a scheduler flush around the flush of batch `(k, q)` -/
theorem lf_flushCore {c : Ctx} {s0 : State} (h0 : LI c s0) (root k q : Nat) (b : Batch) (prio : Nat × Nat)
    (pending : List PendingB)
    (htgt : (∃ t rest, (W s0).syncStack = (t, root) :: rest) ∨ ((W s0).syncStack = [] ∧ (W s0).topRoot = some root))
    (hroot : s0.computed root = false) (hb : s0.batch? k q = some b) (hne : b.items ≠ []) (hnf : b.flushed = false)
    (hprio : pending.any (fun p => !p.flushed && decide (p.n > 0) && prioLt prio p.prio) = false) :
    LI c (((s0.emit (.flushB k q b.items prio pending)).flushBatch k q).emit (.flushE k q)) ∧
    sview (W (((s0.emit (.flushB k q b.items prio pending)).flushBatch k q).emit (.flushE k q))) = sview (W s0) := by
  have hnfb : (W s0).flushedB.contains (k, q) = false := by
    cases hc : (W s0).flushedB.contains (k, q) with
    | false => rfl
    | true =>
      obtain ⟨b', hb1, hb2⟩ := h0.fb k q (by simpa using hc)
      rw [hb] at hb1
      cases hb1
      rw [hnf] at hb2
      cases hb2
  have hemp : b.items.isEmpty = false := by cases hi : b.items <;> simp_all
  have hdone : (W s0).isDone root = false := by rw [h0.base.outs]; exact hroot
  -- `flushB`
  have h1 : LF c (some (k, q, b.items, false, false)) (s0.emit (.flushB k q b.items prio pending)) := by
    refine ⟨⟨h0.acc, ?_⟩, h0.base.transport' rfl rfl rfl rfl (fun _ => rfl) (fun _ => rfl) rfl rfl, h0.fb, h0.cb, rfl⟩
    show checkC05 c (W s0) _ = none
    rcases htgt with ⟨t, rest, hss⟩ | ⟨hss, htr⟩
    · simp only [checkC05, h0.inf, Option.isSome_none, Bool.false_eq_true, if_false, hnfb, hemp, hss, hdone, hprio,
        Bool.and_false]
    · simp only [checkC05, h0.inf, Option.isSome_none, Bool.false_eq_true, if_false, hnfb, hemp, hss, htr, hdone, hprio,
        Bool.and_false]
  -- the flush body
  obtain ⟨h2, sv2⟩ := lf_flushBatch h1 (k := k) (q := q) (b := b) hb hnf (Or.inr rfl)
  -- `flushE`
  refine ⟨⟨⟨h2.acc, ?_⟩, h2.base.transport' rfl rfl rfl rfl (fun _ => rfl) (fun _ => rfl) rfl rfl, h2.fb, h2.cb, rfl⟩, ?_⟩
  · show checkC05 c (W ((s0.emit (.flushB k q b.items prio pending)).flushBatch k q)) (.flushE k q) = none
    simp only [checkC05, h2.inf, flushedMode]
    simp
  · exact sv2

theorem lf_flushWith {c : Ctx} {s : State} (h : LI c s) (root : Nat) (c0 : Nat × Nat) (b : Batch)
    (htgt : (∃ t rest, (W s).syncStack = (t, root) :: rest) ∨ ((W s).syncStack = [] ∧ (W s).topRoot = some root))
    (hroot : s.computed root = false) (ha : s.admissible c0 = true) (hb : s.batch? c0.1 c0.2 = some b) :
    LI c (flushWith s root c0 b) ∧ sview (W (flushWith s root c0 b)) = sview (W s) := by
  obtain ⟨hc0, _⟩ := admissible_spec s c0 ha
  obtain ⟨_, b2, hb2, hne, hnf⟩ := (mem_flushable s c0.1 c0.2).1 hc0
  rw [hb] at hb2
  cases hb2
  unfold flushWith
  exact lf_flushCore (s0 := { s with sbatches := s.flushable.erase c0, ctl := .waitEnter root :: s.ctl.tail, choices := s.choices.tail })
    (h.congr rfl rfl rfl rfl) root c0.1 c0.2 b _ _ htgt hroot hb hne hnf (prio_ok s c0 b ha hb)

/-- the scheduler flush as a transition -/
theorem t_flushWith {c : Ctx} {s : State} (root : Nat) (c0 : Nat × Nat) (b : Batch)
    (htgt : (∃ t rest, (W s).syncStack = (t, root) :: rest) ∨ ((W s).syncStack = [] ∧ (W s).topRoot = some root))
    (hroot : s.computed root = false) (ha : s.admissible c0 = true) (hb : s.batch? c0.1 c0.2 = some b) :
    T c none id s (flushWith s root c0 b) (.waitEnter root :: s.ctl.tail) := by
  refine ⟨?_, ?_, ?_, ?_, ?_, ?_⟩
  · unfold flushWith; simp
  · intro f _
    unfold flushWith
    show ((State.flushBatch _ _ _).fut f).kind = _
    rw [flushBatch_kind]
    rfl
  · intro t _ _
    have := BP.flushBatch (({ s with sbatches := s.flushable.erase c0, ctl := .waitEnter root :: s.ctl.tail, choices := s.choices.tail } : State).emit
      (.flushB c0.1 c0.2 b.items (s.batchPrio b) (s.pendingOf (s.flushable.erase c0)))) c0.1 c0.2 t
    exact ⟨this.1, fun hp => by rw [← hp]; exact this.2⟩
  · unfold flushWith
    exact (ctl_flushBatch _ _ _).1
  · unfold flushWith
    exact (ctl_flushBatch _ _ _).2
  · intro hl
    obtain ⟨l, sv⟩ := lf_flushWith hl root c0 b htgt hroot ha hb
    simp only [sview, Prod.mk.injEq] at sv
    exact ⟨l, sv.1, sv.2⟩

/-! ### the end and the start of a top-level computation -/

theorem syncStack_emit_plain (s : State) (e : Event) (he : plain e = true) :
    (W (s.emit e)).syncStack = (W s).syncStack := by
  have := sview_emit_plain s e he
  simp only [sview, Prod.mk.injEq] at this
  exact this.1

theorem syncStack_emit_ret (s : State) (o : Outcome) : (W (s.emit (.ret o))).syncStack = (W s).syncStack := rfl

theorem inv_finishTop {c : Ctx} {s : State} (h : Inv13 c s) (hctl : s.ctl = []) (f : Nat) :
    Inv13 c (s.finishTop f) := by
  unfold State.finishTop
  simp only []
  have hss := h.sr.ss_nogen (fun t old rest e => by rw [hctl] at e; cases e)
  rw [hctl] at hss
  refine ⟨?_, ⟨[], ?_, Or.inl rfl⟩, ?_, ?_⟩
  · refine LF.emit_plain ?_ _ (by rfl)
    refine LF.emit_plain ?_ _ (by rfl)
    refine LF.emit_ret ?_ _
    exact h.li.congr rfl rfl rfl rfl
  · rw [syncStack_emit_plain, syncStack_emit_plain, syncStack_emit_ret]
    · show (W s).syncStack = [] ++ calls s.ctl
      rw [hss, hctl]
      rfl
    · rfl
    · rfl
  · show Buried _ s.ctl
    rw [hctl]
    trivial
  · intro r hr
    cases hr

theorem lview_root (w : Watch) (i : Nat) (cv : Conv) (n : Nat) (cr : Option Nat) (hx : w.expectRoot = false) :
    lview (watchEvent (watchEvent w (.top i cv)) (.new n (.task cr))) = lview (watchEvent w (.new n (.task cr))) := by
  simp [watchEvent, lview, hx]

theorem sview_root (w : Watch) (i : Nat) (cv : Conv) (n : Nat) (cr : Option Nat) :
    sview (watchEvent (watchEvent w (.top i cv)) (.new n (.task cr))) = (w.syncStack, some n) := by
  simp [watchEvent, sview]

theorem inv_topStart {c : Ctx} {s : State} (h : Inv13 c s) (hctl : s.ctl = []) (conv : Conv) (body : Body)
    (rest : List (Conv × Body)) :
    Inv13 c { ((({ s with tops := rest, topIdx := s.topIdx + 1 } : State).emit (.top s.topIdx conv)).newTask body []).1 with
      curTop := some ((({ s with tops := rest, topIdx := s.topIdx + 1 } : State).emit (.top s.topIdx conv)).newTask body []).2,
      ctl := [.waitEnter ((({ s with tops := rest, topIdx := s.topIdx + 1 } : State).emit (.top s.topIdx conv)).newTask body []).2] } := by
  have hss := h.sr.ss_nogen (fun t old rest e => by rw [hctl] at e; cases e)
  rw [hctl] at hss
  -- the same allocation without the `top` event
  have h' : LI c (({ s with tops := rest, topIdx := s.topIdx + 1 } : State).newTask body []).1 := by
    unfold State.newTask
    exact (h.li.congr (s' := { s with tops := rest, topIdx := s.topIdx + 1 }) rfl rfl rfl rfl).alloc _ _ rfl
      (fun _ _ _ _ _ e => by cases e)
  have hsv := sview_root (W s) s.topIdx conv s.futs.length s.active
  simp only [sview, Prod.mk.injEq] at hsv
  refine ⟨?_, ⟨[], ?_, Or.inl rfl⟩, ⟨rfl, trivial⟩, ?_⟩
  · refine h'.transport ⟨⟨h.li.acc, rfl⟩, rfl⟩ ?_ rfl (fun _ => rfl) (fun _ => rfl) rfl rfl
    exact lview_root (W s) s.topIdx conv s.futs.length s.active h.li.base.xr
  · show (watchEvent (watchEvent (W s) (.top s.topIdx conv)) (.new s.futs.length (.task s.active))).syncStack = _
    rw [hsv.1, hss]
    rfl
  · intro r hr
    show (watchEvent (watchEvent (W s) (.top s.topIdx conv)) (.new s.futs.length (.task s.active))).topRoot = _
    rw [hsv.2]
    exact hr

/-! ### the step theorem -/

theorem inv13_step {c : Ctx} {s : State} (h : Inv13 c s) (hp : P2.PInv s) : Inv13 c (step s) := by
  unfold step
  split
  · exact h
  · split
    · next hctl =>
      split
      · exact inv_finishTop h hctl _
      · split
        · exact h
        · exact inv_topStart h hctl _ _ _
    · next root rest hctl =>
      have hw : rootOf (.waitEnter root) = some root := rfl
      have hpop : ∀ e, T c none id s (s.raiseOutOfWait e) rest := fun e => by
        unfold State.raiseOutOfWait
        exact ((T.refl c none s).mkCtl ..).ctl_eq (by rw [hctl]; rfl)
      split
      · exact inv_pop h hp hctl hw (hpop _)
      · split
        · refine inv_pop h hp hctl hw ?_
          unfold State.returnFromWait
          exact ((T.refl c none s).mkCtl ..).ctl_eq (by rw [hctl]; rfl)
        · refine inv_swap (w' := .waitLoop root s.stack.length) h hp hctl hw rfl ?_
          exact ((T.refl c none s).mkCtl ..).ctl_eq (by rw [hctl]; rfl)
    · next root base rest hctl =>
      have hw : rootOf (.waitLoop root base) = some root := rfl
      have hng : ∀ t old rest', s.ctl ≠ .gen t old :: rest' := fun t old rest' e => by rw [hctl] at e; cases e
      split
      · refine inv_pop h hp hctl hw ?_
        unfold State.raiseOutOfWait
        exact ((T.refl c none s).mkCtl ..).ctl_eq (by rw [hctl]; rfl)
      · split
        · rcases exec_out c s with q | q | ⟨t, a, q⟩
          · exact inv_same h hp hng q
          · exact inv_pop h hp hctl hw (q.ctl_eq (by rw [hctl]; rfl))
          · exact inv_push h hp hng q
        · split
          · refine inv_pop h hp hctl hw ?_
            unfold State.returnFromWait
            exact ((T.refl c none s).mkCtl ..).ctl_eq (by rw [hctl]; rfl)
          · next hroot =>
            have hroot : s.computed root = false := by simpa using hroot
            have hpr : Inv13 c (pruned s root) := by
              refine inv_swap (w' := .waitEnter root) h hp hctl hw rfl ?_
              unfold pruned
              exact ((T.refl c none s).mkCtl ..).ctl_eq (by rw [hctl]; rfl)
            by_cases hfl : s.flushable = []
            · rw [schedulerFlush_empty s root hfl]
              exact hpr
            · rcases schedulerFlush_cases s root hfl with ⟨m, hm, _⟩ | ⟨c0, b, _, ha, hb, he⟩
              · rw [hm]
                exact inv_fail hpr m
              · rw [he]
                refine inv_swap (w' := .waitEnter root) h hp hctl hw rfl ?_
                exact (t_flushWith root c0 b (h.sr.target hctl hw) hroot ha hb).ctl_eq (by rw [hctl]; rfl)
    · next t old rest hctl =>
      have ht : t ∈ P2.gens s.ctl := by rw [hctl]; simp [P2.gens]
      split <;> split <;>
        first
        | exact inv_fail h _
        | exact inv_gen h hp hctl (gen_out c s t old (gens_lt hp t ht) (hp.genKind t ht))

theorem inv13_init (c : Ctx) (cfg : Cfg) (tops : List (Conv × Body)) (choices : List (Nat × Nat)) (hc : c.cfg = cfg) :
    Inv13 c (initState cfg tops choices) := by
  refine ⟨⟨trivial, ⟨?_, ?_, hc.symm, rfl, ?_⟩, ?_, rfl, rfl⟩, ⟨[], rfl, Or.inl rfl⟩, trivial, ?_⟩
  · intro f
    show false = _
    simp [State.computed, State.out, State.fut, initState]
  · intro f k q idx p m hl
    cases hl
  · intro b hb
    cases hb
  · intro k q hm
    cases hm
  · intro r hr
    cases hr

/-- every reachable state satisfies the invariant, for every observer context with the machine's configuration -/
theorem inv13_reach {s : State} (h : Reach s) : ∃ cfg0, ∀ c : Ctx, c.cfg = cfg0 → Inv13 c s := by
  induction h with
  | init cfg tops choices => exact ⟨cfg, fun c hc => inv13_init c cfg tops choices hc⟩
  | @step s hr ih =>
    obtain ⟨cfg0, h0⟩ := ih
    exact ⟨cfg0, fun c hc => inv13_step (h0 c hc) (P2.pinv_reach hr)⟩

theorem inv13_of_reach {s : State} (h : Reach s) (c : Ctx) (hc : c.cfg = s.cfg) : Inv13 c s := by
  obtain ⟨cfg0, h0⟩ := inv13_reach h
  have h1 := h0 { c with cfg := cfg0 } rfl
  have : cfg0 = c.cfg := by rw [hc]; exact h1.li.base.cfg.symm
  exact h0 c this.symm

/-- the states of the runs of one program: the machine started on `s0` -/
inductive ReachFrom (s0 : State) : State → Prop
  | init : ReachFrom s0 s0
  | step {s : State} : ReachFrom s0 s → ReachFrom s0 (step s)

theorem ReachFrom.reach {cfg : Cfg} {tops : List (Conv × Body)} {choices : List (Nat × Nat)} {s : State}
    (h : ReachFrom (initState cfg tops choices) s) : Reach s := by
  induction h with
  | init => exact Reach.init cfg tops choices
  | step _ ih => exact Reach.step ih

theorem ReachFrom.inv {cfg : Cfg} {tops : List (Conv × Body)} {choices : List (Nat × Nat)} {s : State}
    (h : ReachFrom (initState cfg tops choices) s) (c : Ctx) (hc : c.cfg = cfg) : Inv13 c s := by
  induction h with
  | init => exact inv13_init c cfg tops choices hc
  | step h' ih => exact inv13_step ih (P2.pinv_reach h'.reach)

theorem reachFrom_runFuel (s0 : State) (n : Nat) : ReachFrom s0 (runFuel n s0) := by
  suffices h : ∀ s, ReachFrom s0 s → ReachFrom s0 (runFuel n s) from h _ ReachFrom.init
  induction n with
  | zero => intro s h; exact h
  | succ n ih =>
    intro s h
    unfold runFuel
    split
    · exact h
    · exact ih _ (ReachFrom.step h)

/-- the machine never emits an event outside the vocabulary -/
theorem no_bad {s : State} (h : Reach s) (m : String) : Event.bad m ∉ s.trace := by
  intro hm
  have hi := inv13_of_reach h { (default : Ctx) with cfg := s.cfg } rfl
  obtain ⟨w, hw⟩ := acc_mem s.trace hi.li.acc _ hm
  cases hw

end AsynqModel.Core.P13
