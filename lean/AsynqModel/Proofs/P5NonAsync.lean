import AsynqModel.Proofs.P5Reach
/-!
  P5 (C06): a task with a registered NonAsyncContext fails with the AssertionError of `NonAsyncContext.pause()`
  when it is suspended.
-/
namespace AsynqModel.Core.P5
open AsynqModel.Core

theorem isNonAsync_flag {s s' : State} {c : Nat} {b : Bool} (h : FlagOp s s' c b) (c' : Nat) :
    s'.ctxIsNonAsync c' = s.ctxIsNonAsync c' := by
  unfold State.ctxIsNonAsync
  by_cases hc : c' = c
  · subst hc
    cases hx : s.ctxs[c']? with
    | none =>
      have : s'.ctxs[c']? = none := by
        rw [List.getElem?_eq_none_iff] at hx ⊢
        rw [h.len]; exact hx
      rw [this]
    | some x =>
      obtain ⟨x', hx', hk, _⟩ := h.eq x hx
      rw [hx']; simp only [hk]
  · rw [h.ne c' hc]

theorem isNonAsync_flipOne (b : Bool) (s : State) (c c' : Nat) :
    (flipOne b s c).ctxIsNonAsync c' = s.ctxIsNonAsync c' := by
  unfold flipOne
  split
  · rfl
  · split
    · exact isNonAsync_flag (flagOp_resume ..) c'
    · exact isNonAsync_flag (flagOp_pause ..) c'

theorem isNonAsync_foldFlip (b : Bool) (l : List Nat) (s : State) (c' : Nat) :
    (l.foldl (flipOne b) s).ctxIsNonAsync c' = s.ctxIsNonAsync c' := by
  induction l generalizing s with
  | nil => rfl
  | cons c l ih => rw [List.foldl_cons, ih, isNonAsync_flipOne]

theorem futs_flipOne (b : Bool) (s : State) (c : Nat) : (flipOne b s c).futs = s.futs := by
  unfold flipOne
  split
  · rfl
  · split
    · exact (flagOp_resume ..).futs
    · exact (flagOp_pause ..).futs

theorem futs_foldFlip (b : Bool) (l : List Nat) (s : State) : (l.foldl (flipOne b) s).futs = s.futs := by
  induction l generalizing s with
  | nil => rfl
  | cons c l ih => rw [List.foldl_cons, ih, futs_flipOne]

theorem out_of_futs {s s' : State} (h : s'.futs = s.futs) (f : Nat) : s'.out f = s.out f := by
  simp [State.out, State.fut, h]

/-- `failSuspended` of an uncomputed task stores the error and logs the completion -/
theorem failSuspended_out (s : State) (t : Nat) (e : Err) (ht : t < s.futs.length) (hc : s.computed t = false) :
    (s.failSuspended t e).out t = some (.err e) ∧
    ∃ tr, (s.failSuspended t e).trace = .done t (.err e) :: tr := by
  unfold State.failSuspended
  simp only [hc, Bool.false_eq_true, if_false]
  have hlen : t < ((s.exitAll t).updTask t fun ts => { ts with pending := false }).futs.length := by
    rw [updTask_len]; exact Nat.lt_of_lt_of_le ht (mono_exitAll s t).len
  exact ⟨by rw [out_complete, if_pos ⟨rfl, hlen⟩], ⟨_, rfl⟩⟩

/-- pausing the contexts of an uncomputed task that has a registered NonAsyncContext fails the task -/
theorem pauseContexts_nonasync (s : State) (t : Nat) (ht : t < s.futs.length) (hc : s.computed t = false)
    (hact : (s.task t).ctxActive = true) (hna : (s.task t).ctxs.any s.ctxIsNonAsync = true) :
    (s.pauseContexts t).out t = some (.err .nonasync) ∧
    ∃ tr, (s.pauseContexts t).trace = .done t (.err .nonasync) :: tr := by
  rw [pauseContexts_eq]
  simp only [hact, Bool.not_true, Bool.false_eq_true, if_false]
  have hany : (s.task t).ctxs.any ((s.task t).ctxs.reverse.foldl (flipOne false)
      (s.updTask t fun ts => { ts with ctxActive := false })).ctxIsNonAsync = true := by
    rw [List.any_eq_true] at hna ⊢
    obtain ⟨c, hc1, hc2⟩ := hna
    exact ⟨c, hc1, by rw [isNonAsync_foldFlip]; exact hc2⟩
  rw [if_pos hany]
  refine failSuspended_out _ t _ ?_ ?_
  · rw [futs_foldFlip, updTask_len]; exact ht
  · have : ∀ f, ((s.task t).ctxs.reverse.foldl (flipOne false)
        (s.updTask t fun ts => { ts with ctxActive := false })).out f = s.out f := by
      intro f; rw [out_of_futs (futs_foldFlip ..), out_updTask]
    unfold State.computed at hc ⊢
    rw [this]; exact hc

/-- without a registered NonAsyncContext `_resume_contexts` / `_pause_contexts` complete nothing -/
theorem resumeContexts_out (s : State) (t : Nat) (hna : (s.task t).ctxs.any s.ctxIsNonAsync = false) (f : Nat) :
    (s.resumeContexts t).out f = s.out f := by
  rw [resumeContexts_eq]
  split
  · rfl
  · simp only
    have hany : (s.task t).ctxs.any ((s.task t).ctxs.foldl (flipOne true)
        (s.updTask t fun ts => { ts with ctxActive := true })).ctxIsNonAsync = false := by
      rw [← hna]
      congr 1
      funext c
      rw [isNonAsync_foldFlip]; rfl
    rw [hany]
    simp only [Bool.false_eq_true, if_false]
    rw [out_of_futs (futs_foldFlip ..), out_updTask]

theorem pauseContexts_out (s : State) (t : Nat) (hna : (s.task t).ctxs.any s.ctxIsNonAsync = false) (f : Nat) :
    (s.pauseContexts t).out f = s.out f := by
  rw [pauseContexts_eq]
  split
  · rfl
  · simp only
    have hany : (s.task t).ctxs.any ((s.task t).ctxs.reverse.foldl (flipOne false)
        (s.updTask t fun ts => { ts with ctxActive := false })).ctxIsNonAsync = false := by
      rw [← hna]
      congr 1
      funext c
      rw [isNonAsync_foldFlip]; rfl
    rw [hany]
    simp only [Bool.false_eq_true, if_false]
    rw [out_of_futs (futs_foldFlip ..), out_updTask]

/-- the second visit of `_handle_async_task` -/
theorem handleTask_second (s : State) (t : Nat)
    (hb : (s.task t).deps.any (fun d => !s.computed d) = true) (hs : (s.task t).depsSched = true) :
    s.handleTask t = ((s.updTask t fun ts => { ts with depsSched := false }).pauseContexts t).popStack := by
  unfold State.handleTask
  simp only [hb, hs, if_true]

theorem handleTask_nonasync (s : State) (t : Nat) (ht : t < s.futs.length)
    (hb : (s.task t).deps.any (fun d => !s.computed d) = true) (hs : (s.task t).depsSched = true)
    (hact : (s.task t).ctxActive = true) (hc : s.computed t = false)
    (hna : (s.task t).ctxs.any s.ctxIsNonAsync = true) :
    (s.handleTask t).out t = some (.err .nonasync) ∧
    ∃ tr, (s.handleTask t).trace = .done t (.err .nonasync) :: tr := by
  rw [handleTask_second s t hb hs]
  have hts : (s.updTask t fun ts => { ts with depsSched := false }).task t = { s.task t with depsSched := false } :=
    task_updTask_self _ _ _ ht
  have := pauseContexts_nonasync (s.updTask t fun ts => { ts with depsSched := false }) t (by simpa using ht)
    (by rw [computed_updTask]; exact hc) (by rw [hts]; exact hact) (by rw [hts]; exact hna)
  exact this

/-- the step that handles the uncomputed task on top of the stack inside `_execute` -/
theorem step_eq_handleTask (s : State) (hs : s.stuck = none) (root base t : Nat) (rest : List Ctl) (stk : List Nat)
    (hctl : s.ctl = .waitLoop root base :: rest) (hr : s.raising = none) (hst : s.stack = t :: stk)
    (hlen : s.stack.length > base) (hg : ¬ s.stack.length > s.cfg.maxStack) (hc : s.computed t = false)
    (hk : (s.fut t).kind = .task) : step s = s.handleTask t := by
  unfold step
  simp only [hs, hctl, hr, Option.isSome_none, Bool.false_eq_true, if_false, hlen, if_true]
  unfold State.executeIter
  simp only [hst] at hg ⊢
  simp only [hg, if_false, hc, Bool.false_eq_true, hk]

end AsynqModel.Core.P5
