import AsynqModel.Proofs.P20M
import AsynqModel.Proofs.P10Flag
/-
  P20 (termination with synchronous re-entry), part 4: the predicate `Clean` - "the current scheduler pass has been
  undisturbed": inside the innermost `_execute(root)` (entries above its base) every uncomputed dependency of a flagged
  stack entry lies above that entry or is settled-and-scheduled (`SS`), and `root` is still the entry at the base or is
  settled-and-scheduled.

  With synchronous calls `Clean` is NOT an invariant: a nested `wait_for` may flush a batch an outer pass relies on,
  and then the outer `_execute` may find no batch to flush (it loops once more through `wait_for`'s loop head; this
  does happen, e.g. 360 of 12000 generated sync-heavy programs).  But
  * every scheduler-side step that is not a flush preserves `Clean` (`clean_step`),
  * when `Clean` holds and `_execute` is back at its base with the root uncomputed, a flushable batch exists
    (`flushable_ne_nil`), and
  * after such an "empty" flush the new pass starts `Clean` (the head of the control stack is `waitEnter`).
-/
namespace AsynqModel.Core.P20
open AsynqModel.Core AsynqModel.Core.P6 AsynqModel.Core.P6T

/-- settled and scheduled: computed; an uncomputed member of an unflushed scheduled batch; or an uncomputed task that
    is blocked and awaits only settled-and-scheduled futures -/
inductive SS (s : State) : Nat → Prop
  | computed {f : Nat} : s.computed f = true → SS s f
  | item {f k q p : Nat} {m : ItemMode} : (view s f).kind = .item k q p m → s.computed f = false →
      (∃ b, s.batch? k q = some b ∧ b.flushed = false ∧ f ∈ b.items) → (k, q) ∈ s.sbatches → SS s f
  | task {t : Nat} : (view s t).kind = .task → s.computed t = false →
      (∀ d ∈ (view s t).deps, SS s d) → (∃ d ∈ (view s t).deps, s.computed d = false) → SS s t

/-- an uncomputed settled-and-scheduled future waits (transitively) for a flushable batch -/
theorem SS.witness {s : State} {f : Nat} (h : SS s f) (hc : s.computed f = false) : s.flushable ≠ [] := by
  induction h with
  | computed h => rw [h] at hc; cases hc
  | @item f k q p m hk hu hb hsb =>
    obtain ⟨b, hb1, hb2, hb3⟩ := hb
    have : (k, q) ∈ s.flushable :=
      (P1.mem_flushable s k q).2 ⟨hsb, b, hb1, (fun e => by rw [e] at hb3; cases hb3), hb2⟩
    intro e
    rw [e] at this; cases this
  | task _ _ _ hbl ih =>
    obtain ⟨d, hd, hcd⟩ := hbl
    exact ih d hd hcd

theorem SS.kind_of_uncomputed {s : State} {f : Nat} (h : SS s f) (hc : s.computed f = false) :
    (∃ k q p m, (view s f).kind = .item k q p m) ∨ (view s f).kind = .task := by
  cases h with
  | computed h => rw [h] at hc; cases hc
  | item hk _ _ _ => exact Or.inl ⟨_, _, _, _, hk⟩
  | task hk _ _ _ => exact Or.inr hk

/-- the fields `SS` reads agree -/
def SEq3 (v v' : FV) : Prop := v'.kind = v.kind ∧ v'.out = v.out ∧ v'.deps = v.deps

theorem SEq3.computed {s s' : State} {f : Nat} (h : SEq3 (view s f) (view s' f)) : s'.computed f = s.computed f := by
  rw [computed_eq_view, computed_eq_view, h.2.1]

/-- stability: computed futures stay computed, the batch table is untouched, scheduled batches stay scheduled, and
    only futures in `T` - none of them settled and uncomputed - change the fields `SS` reads -/
theorem SS.mono {s s' : State} (T : Nat → Prop)
    (hc : ∀ f, s.computed f = true → s'.computed f = true)
    (hb : s'.batches = s.batches)
    (hsb : ∀ c ∈ s.sbatches, c ∈ s'.sbatches)
    (hT : ∀ f, T f → SS s f → s.computed f = true)
    (hv : ∀ f, ¬ T f → SEq3 (view s f) (view s' f))
    {f : Nat} (h : SS s f) : SS s' f := by
  induction h with
  | computed h => exact .computed (hc _ h)
  | @item f k q p m hk hu hbat hs =>
    have hnT : ¬ T f := fun hT' => by
      have := hT f hT' (.item hk hu hbat hs)
      rw [this] at hu; cases hu
    have e := hv f hnT
    refine .item (k := k) (q := q) (p := p) (m := m) (e.1.trans hk) (by rw [e.computed]; exact hu) ?_ (hsb _ hs)
    unfold State.batch?
    rw [hb]
    exact hbat
  | @task t hk hu hd hbl ih =>
    have hnT : ¬ T t := fun hT' => by
      have := hT t hT' (.task hk hu hd hbl)
      rw [this] at hu; cases hu
    have e := hv t hnT
    refine .task (e.1.trans hk) (by rw [e.computed]; exact hu) ?_ ?_
    · intro d hd'
      rw [e.2.2] at hd'
      exact ih d hd'
    · obtain ⟨d, hd1, hd2⟩ := hbl
      refine ⟨d, by rw [e.2.2]; exact hd1, ?_⟩
      have hnTd : ¬ T d := fun hT' => by
        have := hT d hT' (hd d hd1)
        rw [this] at hd2; cases hd2
      rw [(hv d hnTd).computed]; exact hd2

/-! ### `Clean` -/

structure CleanL (s : State) (root base : Nat) : Prop where
  dfs : ∀ above x below, s.stack = above ++ x :: below → base ≤ below.length → Flagged s x →
    ∀ d ∈ (view s x).deps, s.computed d = false → SS s d ∨ d ∈ above
  root : (∃ pre post, s.stack = pre ++ root :: post ∧ post.length = base) ∨ SS s root

/-- the current pass of the innermost `_execute` has not been disturbed -/
def Clean (s : State) : Prop := ∀ root base rest, s.ctl = .waitLoop root base :: rest → CleanL s root base

/-- when a clean pass is back at its base with the root uncomputed, a flushable batch exists -/
theorem flushable_ne_nil {s : State} (hc : Clean s) {root base : Nat} {rest : List Ctl}
    (hctl : s.ctl = .waitLoop root base :: rest) (hlen : s.stack.length ≤ base) (hroot : s.computed root = false) :
    s.flushable ≠ [] := by
  rcases (hc root base rest hctl).root with ⟨pre, post, h1, h2⟩ | h1
  · have := congrArg List.length h1
    simp at this
    omega
  · exact h1.witness hroot

theorem flagged_p10 {s : State} {x : Nat} (h : Flagged s x) : P10.Flagged s x :=
  ⟨h.2.1, uncomputed_of_out_none h.2.2⟩

/-- a dependency of the (unflagged) task on top of the stack is not a flagged task -/
theorem no_flagged_dep {s : State} (hC : P10.CInv s) (hH : P10.HInv s) {top : Nat} {st : List Nat}
    (hstk : s.stack = top :: st) {x : Nat} (hd : x ∈ (view s top).deps) (hx : Flagged s x) : False := by
  have hlt : P10.lt s x top := hH.named_lt (hH.deps top x hd)
  obtain ⟨pre, post, hst, hpre⟩ := hC.pos x (flagged_p10 hx)
  rw [hstk] at hst
  cases pre with
  | nil =>
    simp at hst
    rw [hst.1] at hlt
    exact hH.irrefl x hlt
  | cons a pre =>
    simp at hst
    have := hpre a List.mem_cons_self
    rw [← hst.1] at this
    exact hH.irrefl x (P10.lt_trans hlt this)

/-- the top of the stack (above the base) is popped and is settled-and-scheduled afterwards -/
theorem cleanL_pop {s r : State} {root base : Nat} (h : CleanL s root base) {top : Nat} {st : List Nat}
    (hstk : s.stack = top :: st) (hst : r.stack = st)
    (hc : ∀ f, s.computed f = true → r.computed f = true)
    (hfl : ∀ x, Flagged r x → Flagged s x ∧ (view r x).deps = (view s x).deps)
    (hset : ∀ f, SS s f → SS r f) (hts : SS r top) : CleanL r root base := by
  refine ⟨?_, ?_⟩
  · intro above x below hs hb hx d hd hcd
    rw [hst] at hs
    obtain ⟨hx', hdeps⟩ := hfl x hx
    have hcd' : s.computed d = false := by
      cases hh : s.computed d
      · rfl
      · rw [hc d hh] at hcd; cases hcd
    have hs' : s.stack = (top :: above) ++ x :: below := by rw [hstk, hs]; rfl
    rcases h.dfs (top :: above) x below hs' hb hx' d (hdeps ▸ hd) hcd' with h1 | h1
    · exact Or.inl (hset d h1)
    · rcases List.mem_cons.1 h1 with e | e
      · exact Or.inl (e ▸ hts)
      · exact Or.inr e
  · rcases h.root with ⟨pre, post, h1, h2⟩ | h1
    · rw [hstk] at h1
      cases pre with
      | nil =>
        simp at h1
        exact Or.inr (h1.1 ▸ hts)
      | cons a pre =>
        simp at h1
        exact Or.inl ⟨pre, post, by rw [hst, h1.2], h2⟩
    · exact Or.inr (hset root h1)

theorem split_first {ds st above below : List Nat} {top x : Nat} (h : ds ++ top :: st = above ++ x :: below) :
    (∃ l, ds = above ++ x :: l ∧ below = l ++ top :: st) ∨
    (above = ds ∧ x = top ∧ below = st) ∨
    (∃ a', above = ds ++ top :: a' ∧ st = a' ++ x :: below) := by
  rcases List.append_eq_append_iff.1 h with ⟨a', h1, h2⟩ | ⟨c', h1, h2⟩
  · cases a' with
    | nil =>
      simp at h1 h2
      exact Or.inr (Or.inl ⟨h1, h2.1.symm, h2.2.symm⟩)
    | cons a a'' =>
      simp at h2
      exact Or.inr (Or.inr ⟨a'', by rw [h1, h2.1], h2.2⟩)
  · cases c' with
    | nil =>
      simp at h1 h2
      exact Or.inr (Or.inl ⟨h1.symm, h2.1, h2.2⟩)
    | cons c c'' =>
      simp at h2
      exact Or.inl ⟨c'', by rw [h1, h2.1], h2.2⟩

/-- first visit of the blocked unflagged task on top of the stack -/
theorem cleanL_first {s r : State} {root base : Nat} (h : CleanL s root base) (hC : P10.CInv s) (hH : P10.HInv s)
    {top : Nat} {st : List Nat} (hstk : s.stack = top :: st)
    (hst : r.stack = ((view s top).deps.filter fun d => !s.computed d).reverse ++ s.stack)
    (hvt : view r top = flagView true (view s top)) (hvo : ∀ x, x ≠ top → view r x = view s x)
    (hset : ∀ f, SS s f → SS r f) : CleanL r root base := by
  have hcomp : ∀ f, r.computed f = s.computed f := by
    intro f
    by_cases e : f = top
    · subst e; rw [computed_eq_view, computed_eq_view, hvt]; rfl
    · exact computed_of_view (hvo f e)
  have hdeps : ∀ x, (view r x).deps = (view s x).deps := by
    intro x
    by_cases e : x = top
    · subst e; rw [hvt]; rfl
    · rw [hvo x e]
  have hmemds : ∀ d, d ∈ (view s top).deps → s.computed d = false →
      d ∈ ((view s top).deps.filter fun d => !s.computed d).reverse := by
    intro d hd hcd
    exact List.mem_reverse.2 (List.mem_filter.2 ⟨hd, by simp [hcd]⟩)
  refine ⟨?_, ?_⟩
  · intro above x below hs hb hx d hd hcd
    rw [hst, hstk] at hs
    rw [hdeps] at hd
    rw [hcomp] at hcd
    rcases split_first hs with ⟨l, h1, h2⟩ | ⟨h1, h2, h3⟩ | ⟨a', h1, h2⟩
    · -- a pushed dependency is not flagged
      exfalso
      have hxm : x ∈ ((view s top).deps.filter fun d => !s.computed d).reverse := by rw [h1]; simp
      have hxd : x ∈ (view s top).deps := (List.mem_filter.1 (List.mem_reverse.1 hxm)).1
      have hne : x ≠ top := by
        intro e
        rw [e] at hxd
        exact hH.irrefl top (hH.named_lt (hH.deps top top hxd))
      have hxs : Flagged s x := by
        unfold Flagged at hx ⊢
        rw [hvo x hne] at hx; exact hx
      exact no_flagged_dep hC hH hstk hxd hxs
    · subst h2
      exact Or.inr (h1 ▸ hmemds d hd hcd)
    · by_cases e : x = top
      · subst e
        refine Or.inr ?_
        rw [h1]
        exact List.mem_append_left _ (hmemds d hd hcd)
      · have hxs : Flagged s x := by
          unfold Flagged at hx ⊢
          rw [hvo x e] at hx; exact hx
        have hs' : s.stack = (top :: a') ++ x :: below := by rw [hstk, h2]; rfl
        rcases h.dfs (top :: a') x below hs' hb hxs d hd hcd with h3 | h3
        · exact Or.inl (hset d h3)
        · refine Or.inr ?_
          rw [h1]
          exact List.mem_append_right _ h3
  · rcases h.root with ⟨pre, post, h1, h2⟩ | h1
    · exact Or.inl ⟨_ ++ pre, post, by rw [hst, h1, List.append_assoc], h2⟩
    · exact Or.inr (hset root h1)

end AsynqModel.Core.P20
