import AsynqModel.Proofs.P11Step
import AsynqModel.Theorems.C02
import AsynqModel.Theorems.C03
/-!
  P11, part 4: the facts behind the theorems of `Theorems/C03b.lean`, derived from `inv_reach` and the P2 theorems.
-/
namespace AsynqModel.Core.P11
open AsynqModel.Core
open P2

/-! ### a task that runs has started -/

theorem run0_of_runIdx {t : Nat} {tr : List Event} (h : 0 ∈ runIdx t tr) : ∃ dc r, Event.run t 0 dc r ∈ tr := by
  unfold runIdx at h
  rw [List.mem_filterMap] at h
  obtain ⟨e, he, h⟩ := h
  cases e with
  | run t' i dc r =>
    simp only [runIdxOf] at h
    split at h
    · rename_i ht; injection h with h; subst h; subst ht; exact ⟨dc, r, he⟩
    · cases h
  | _ => simp [runIdxOf] at h

/-- every task with a `run` event has a `run t 0` event -/
theorem run0_of_run {s : State} (h : Reach s) {t i : Nat} {dc : Bool} {r : Recv}
    (hm : Event.run t i dc r ∈ s.trace) : ∃ dc' r', Event.run t 0 dc' r' ∈ s.trace := by
  have h1 := (C03_once s h t).1
  have h2 := C03_runIdx_complete s.trace t i dc r hm
  apply run0_of_runIdx
  have h3 : i ∈ (runIdx t s.trace).reverse := List.mem_reverse.2 h2
  rw [h1, List.mem_range] at h3
  have h4 : 0 ∈ (runIdx t s.trace).reverse := by rw [h1, List.mem_range]; omega
  exact List.mem_reverse.1 h4

/-- a started task has a `run t 0` event -/
theorem run0_of_started {s : State} (h : Reach s) {t : Nat} (hs : (s.task t).started = true) :
    ∃ dc r, Event.run t 0 dc r ∈ s.trace := by
  have h1 := (C03_once s h t).1
  apply run0_of_runIdx
  have h4 : 0 ∈ (runIdx t s.trace).reverse := by rw [h1, List.mem_range]; simp [hs]
  exact List.mem_reverse.1 h4

/-! ### what a task received came from what it awaited -/

/-- a resume that throws `e` into task `t`: `t` yielded a structure `y` before (all of it is computed) and `e` is the
    TypeError for a non-future in `y` or the error of a leaf of `y` -/
theorem run_err_src {s : State} (h : Reach s) {t i : Nat} {dc : Bool} {e : Err}
    (hm : Event.run t i dc (.out (.err e)) ∈ s.trace) :
    ∃ j y, i = j + 1 ∧ Event.yield t j y ∈ s.trace ∧ (∀ f ∈ y.leaves, s.computed f = true) ∧
      unwrap s.out y = .error e ∧ (e = .typeerr ∨ ∃ f ∈ y.leaves, s.out f = some (.err e)) := by
  have h0 : i ≠ 0 := fun hi => by
    have := ((C03_once s h t).2 i dc _ hm).1.2 hi
    cases this
  obtain ⟨j, rfl⟩ : ∃ j, i = j + 1 := ⟨i - 1, by omega⟩
  obtain ⟨l1, l2, htr⟩ := List.append_of_mem hm
  obtain ⟨y, l2a, l2b, h4, _, h6, h7⟩ := C02_received_trace s h l1 l2 t j dc _ htr
  have hy : Event.yield t j y ∈ s.trace := by rw [htr, h4]; simp
  have hu : unwrap s.out y = .error e := by
    injection h7 with h7
    cases hu : unwrap s.out y with
    | ok v => rw [hu] at h7; cases h7
    | error e' => rw [hu] at h7; injection h7 with h7; rw [h7]
  refine ⟨j, y, rfl, hy, h6, hu, ?_⟩
  rcases unwrap_error_src s.out y e hu with h8 | h8 | ⟨f, hf, h8⟩
  · exact Or.inl h8
  · exact Or.inr h8
  · have := h6 f hf
    unfold State.computed at this
    rw [h8] at this; cases this

/-! ### an executable test for `Awaited` (for examples) -/

def topRootB (t : Nat) : List Event → Bool
  | [] => false
  | e :: rest =>
    (match e, rest with
     | .new t' (.task none), .top _ _ :: _ => t' == t
     | _, _ => false) || topRootB t rest

def awaitedB (t : Nat) (tr : List Event) : Bool := tr.any (awaitsEv t) || topRootB t tr

theorem topRootB_cons (t : Nat) (a : Event) (rest : List Event) (h : topRootB t rest = true) :
    topRootB t (a :: rest) = true := by
  simp [topRootB, h]

theorem topRootB_of {t : Nat} {tr : List Event} (h : TopRoot t tr) : topRootB t tr = true := by
  obtain ⟨l1, idx, conv, l2, rfl⟩ := h
  induction l1 with
  | nil => simp [topRootB]
  | cons a l1 ih => exact topRootB_cons t a _ ih

theorem awaitedB_of {t : Nat} {tr : List Event} (h : Awaited t tr) : awaitedB t tr = true := by
  unfold awaitedB
  rcases h with ⟨e, he, h⟩ | h
  · rw [Bool.or_eq_true]; left
    exact List.any_eq_true.2 ⟨e, he, h⟩
  · rw [Bool.or_eq_true]; right
    exact topRootB_of h

end AsynqModel.Core.P11
