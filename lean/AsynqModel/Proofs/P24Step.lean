import AsynqModel.Proofs.P24Compl
/-!
  P24, part 5: `step_compl : Compl s (step s)` for every state whose batches hold batch items only (`P2.ItemsOk`) and
  in which an uncomputed task with paused contexts has no NonAsyncContext (`P2.CInv.z`) - both hold in reachable states.
-/
namespace AsynqModel.Core.P24
open AsynqModel.Core AsynqModel.Core.P5

/-- nothing is completed - except possibly task `t`, failed with the NonAsyncContext assertion error, and then `C` holds -/
def NtOr (s r : State) (t : Nat) (C : Prop) : Prop := ∀ f o, s.out f = none → r.out f = some o →
  ((r.fut f).kind ≠ .task ∧ o ≠ .err .nonasync) ∨ (f = t ∧ o = .err .nonasync ∧ C)

theorem Nt.ntOr {s r : State} (h : Nt s r) (t : Nat) (C : Prop) : NtOr s r t C :=
  fun f o h1 h2 => .inl (h.new f o h1 h2)

theorem NtOr.cg {s x r : State} {t : Nat} {C : Prop} (h : NtOr s x t C) (e : r.futs = x.futs) : NtOr s r t C := by
  intro f o h1 h2
  have e1 : r.out f = x.out f := by simp [State.out, State.fut, e]
  have e2 : r.fut f = x.fut f := by simp [State.fut, e]
  rw [e1] at h2; rw [e2]
  exact h f o h1 h2

theorem NtOr.mono {s r : State} {t : Nat} {C D : Prop} (h : NtOr s r t C) (hcd : C → D) : NtOr s r t D := by
  intro f o h1 h2
  rcases h f o h1 h2 with h | ⟨a, b, c⟩
  · exact .inl h
  · exact .inr ⟨a, b, hcd c⟩

theorem ntor_complete {s y : State} (h : Nt s y) (t : Nat) (C : Prop) (hC : C) :
    NtOr s (y.complete t (.err .nonasync)) t C := by
  intro f o h1 h2
  by_cases hf : f = t
  · subst hf
    by_cases hl : f < y.futs.length
    · rw [P1.out_complete_self y f _ hl] at h2
      injection h2 with h2
      exact .inr ⟨rfl, h2.symm, hC⟩
    · have : (y.complete f (.err .nonasync)).out f = none := by
        have : (y.complete f (.err .nonasync)).futs.length = y.futs.length := by simp [State.complete]
        exact P1.out_none_of_ge _ f (by omega)
      rw [this] at h2; cases h2
  · rw [P1.out_complete_ne y t f _ hf] at h2
    rw [P1.kind_complete]
    exact .inl (h.new f o h1 h2)

theorem ntor_failSusp {s x : State} (h : Nt s x) (t : Nat) (C : Prop) (hC : C) :
    NtOr s (x.failSuspended t .nonasync) t C := by
  unfold State.failSuspended
  split
  · exact h.ntOr t C
  · exact ntor_complete ((h.trans (nt_exitAll x t)).updTask t _) t C hC

theorem ntor_pause {s x : State} (h : Nt s x) (t : Nat) :
    NtOr s (x.pauseContexts t) t ((x.task t).ctxs.any x.ctxIsNonAsync = true) := by
  rw [pauseContexts_eq]
  split
  · exact h.ntOr t _
  · simp only
    have h1 : Nt s ((x.task t).ctxs.reverse.foldl (flipOne false) (x.updTask t fun ts => { ts with ctxActive := false })) :=
      (h.updTask t _).trans (nt_foldFlip ..)
    rw [P16.any_nonasync_fold]
    split
    · next hany => exact ntor_failSusp h1 t _ hany
    · exact h1.ntOr t _

theorem ntor_resume {s x : State} (h : Nt s x) (t : Nat) :
    NtOr s (x.resumeContexts t) t ((x.task t).ctxActive = false ∧ (x.task t).ctxs.any x.ctxIsNonAsync = true) := by
  rw [resumeContexts_eq]
  split
  · exact h.ntOr t _
  · next hact =>
    simp only
    have h1 : Nt s ((x.task t).ctxs.foldl (flipOne true) (x.updTask t fun ts => { ts with ctxActive := true })) :=
      (h.updTask t _).trans (nt_foldFlip ..)
    rw [P16.any_nonasync_fold]
    split
    · next hany => exact ntor_failSusp h1 t _ ⟨by simpa using hact, hany⟩
    · exact h1.ntOr t _

/-- what `SuspNA` says about the task itself -/
def BlockedNA (s : State) (t : Nat) : Prop :=
  (∃ d ∈ (s.task t).deps, s.computed d = false) ∧ (∃ c ∈ (s.task t).ctxs, s.ctxIsNonAsync c = true)

theorem exists_of_any_na {s : State} {l : List Nat} (h : l.any s.ctxIsNonAsync = true) :
    ∃ c ∈ l, s.ctxIsNonAsync c = true := by
  rw [List.any_eq_true] at h
  exact h

theorem handle_compl (s : State) (t : Nat) (hz : (s.task t).ctxActive = false → P2.NAfree s t) :
    NtOr s (s.handleTask t) t (BlockedNA s t) := by
  unfold State.handleTask
  simp only []
  split
  · next hb =>
    have hblocked : ∃ d ∈ (s.task t).deps, s.computed d = false := by
      rw [List.any_eq_true] at hb
      obtain ⟨d, hd, hc⟩ := hb
      exact ⟨d, hd, by simpa using hc⟩
    split
    · -- second visit: the contexts are paused, the task is popped
      refine NtOr.cg (x := (s.updTask t fun ts => { ts with depsSched := false }).pauseContexts t) ?_ rfl
      refine (ntor_pause (nt_updTask s t _) t).mono fun hany => ⟨hblocked, ?_⟩
      rw [task_updTask_field s t t (fun ts => { ts with depsSched := false }) (·.ctxs) (fun _ => rfl)] at hany
      exact exists_of_any_na (s := s) hany
    · -- first visit: the contexts are resumed, the dependencies pushed
      refine NtOr.cg (x := (s.updTask t fun ts => { ts with depsSched := true }).resumeContexts t) ?_ rfl
      refine (ntor_resume (nt_updTask s t _) t).mono fun hany => ⟨hblocked, ?_⟩
      have hany := hany.2
      rw [task_updTask_field s t t (fun ts => { ts with depsSched := true }) (·.ctxs) (fun _ => rfl)] at hany
      exact exists_of_any_na (s := s) hany
  · split
    · exact (nt_fail ..).ntOr t _
    · -- `_continue_with_task`: contexts that are paused hold no NonAsyncContext
      refine NtOr.cg (x := s.resumeContexts t) ?_ rfl
      refine (ntor_resume (Nt.refl s) t).mono fun hany => ?_
      exfalso
      obtain ⟨c, hc, hna⟩ := exists_of_any_na hany.2
      rw [hz hany.1 c hc] at hna
      cases hna

theorem exec_compl (s : State) (hz : ∀ t, s.out t = none → (s.task t).ctxActive = false → P2.NAfree s t) :
    ∀ f o, s.out f = none → s.executeIter.out f = some o →
      ((s.executeIter.fut f).kind ≠ .task ∧ o ≠ .err .nonasync) ∨
      (o = .err .nonasync ∧ (∃ stk, s.stack = f :: stk) ∧ (s.fut f).kind = .task ∧ BlockedNA s f) := by
  unfold State.executeIter
  split
  · exact fun f o h1 h2 => .inl ((nt_fail ..).new f o h1 h2)
  · next top stk hst =>
    split
    · exact fun f o h1 h2 => .inl ((Nt.of_futs rfl : Nt s _).new f o h1 h2)
    · split
      · exact fun f o h1 h2 => .inl ((nt_popStack s).new f o h1 h2)
      · next hc =>
        split
        · next hk =>
          intro f o h1 h2
          have hn : s.out top = none := by
            cases ht : s.out top with
            | none => rfl
            | some o' => simp [State.computed, ht] at hc
          rcases handle_compl s top (hz top hn) f o h1 h2 with h | ⟨a, b, c⟩
          · exact .inl h
          · subst a
            exact .inr ⟨b, ⟨stk, hst⟩, hk, c⟩
        · intro f o h1 h2
          refine .inl (Nt.new ?_ f o h1 h2)
          refine Nt.cg (x := s) (Nt.refl s) ?_
          show (State.popStack _).futs = s.futs
          simp only [State.popStack]
          split
          · split <;> rfl
          · rfl
        · next ol hk =>
          intro f o h1 h2
          refine .inl (Nt.new ?_ f o h1 h2)
          exact (nt_complete s top _ (computed_false_of_not hc) (by rw [hk]; intro h; cases h)
            (P16.lazyOutcome_ne _)).trans (nt_popStack _)
        · exact fun f o h1 h2 => .inl ((nt_fail ..).new f o h1 h2)

theorem compl_ite {s a b : State} (c : Bool) (h1 : Compl s a) (h2 : Compl s b) :
    Compl s (if c = true then a else b) := by
  cases c
  · exact h2
  · exact h1

theorem futs_leaveGen (x : State) (t : Nat) (old : Option Nat) :
    (x.leaveGen t old).futs = (x.updTask t fun ts => { ts with depsSched := false }).futs := rfl

theorem out_leaveGen (x : State) (t : Nat) (old : Option Nat) (g : Nat) : (x.leaveGen t old).out g = x.out g := by
  have h := P1.out_updTask x t g (fun ts => { ts with depsSched := false })
  unfold State.out State.fut at h ⊢
  rw [futs_leaveGen]; exact h

theorem kind_leaveGen (x : State) (t : Nat) (old : Option Nat) (g : Nat) :
    ((x.leaveGen t old).fut g).kind = (x.fut g).kind := by
  have h := P1.kind_updTask x t g (fun ts => { ts with depsSched := false })
  unfold State.fut at h ⊢
  rw [futs_leaveGen]; exact h

theorem bc_leaveGen (x : State) (t : Nat) (old : Option Nat) : BC x (x.leaveGen t old) :=
  (bc_updTask x t (fun ts => { ts with depsSched := false }) (fun _ => rfl) (fun _ => rfl)).trans
    (BC.of_futs (futs_leaveGen x t old))

theorem step_compl (s : State) (hi : P2.ItemsOk s)
    (hz : ∀ t, s.out t = none → (s.task t).ctxActive = false → P2.NAfree s t) :
    Compl s (step s) := by
  unfold step
  split
  · exact (Nt.refl s).compl
  · split
    · split
      · exact (Nt.of_futs rfl : Nt s (s.finishTop _)).compl
      · split
        · exact (Nt.refl s).compl
        · refine Nt.compl ?_
          refine Nt.cg (x := (State.newTask _ _ []).1) ?_ rfl
          refine Nt.trans ?_ (nt_newTask _ _ _)
          exact Nt.of_futs rfl
    · split
      · exact (Nt.of_futs rfl : Nt s _).compl
      · split
        · exact (Nt.of_futs rfl : Nt s _).compl
        · exact (Nt.of_futs rfl : Nt s _).compl
    · next root base rest hctl =>
      split
      · exact (Nt.of_futs rfl : Nt s _).compl
      · split
        · intro f o h1 h2
          rcases exec_compl s hz f o h1 h2 with h | ⟨a, ⟨stk, hst⟩, hk, hb⟩
          · exact .inl h
          · exact .inr (.inr ⟨a, ⟨root, base, rest, stk, hctl, hst⟩, hk, hb.1, hb.2⟩)
        · split
          · exact (Nt.of_futs rfl : Nt s _).compl
          · exact (nt_schedulerFlush s root hi).compl
    · next t old rest hctl =>
      refine compl_ite _ (nt_fail ..).compl ?_
      cases gen_compl s t old hi with
      | nt h => exact h.compl
      | finish o hp hf hnc e =>
        rw [e]
        intro f o' h1 h2
        have hy : Nt s ((s.exitAll t).updTask t fun ts => { ts with pending := false }) :=
          (nt_exitAll s t).updTask t _
        rw [out_leaveGen] at h2
        by_cases hf' : f = t
        · subst hf'
          have hl : f < ((s.exitAll f).updTask f fun ts => { ts with pending := false }).futs.length := by
            rcases Nat.lt_or_ge f ((s.exitAll f).updTask f fun ts => { ts with pending := false }).futs.length with h | h
            · exact h
            · have : (((s.exitAll f).updTask f fun ts => { ts with pending := false }).complete f o).out f = none := by
                have hlen : (((s.exitAll f).updTask f fun ts => { ts with pending := false }).complete f o).futs.length =
                    ((s.exitAll f).updTask f fun ts => { ts with pending := false }).futs.length := by simp [State.complete]
                exact P1.out_none_of_ge _ f (by omega)
              rw [this] at h2; cases h2
          rw [P1.out_complete_self _ f o hl] at h2
          injection h2 with h2
          subst h2
          have hbc := bc_exitComplete s f o f
          have hbc2 := bc_leaveGen (((s.exitAll f).updTask f fun ts => { ts with pending := false }).complete f o) f old f
          refine .inr (.inl ⟨old, rest, hctl, hp, hf, ?_, ?_⟩)
          · rw [hbc2.1, hbc.1]
          · rw [hbc2.2, hbc.2]
        · rw [P1.out_complete_ne _ t f o hf'] at h2
          rw [kind_leaveGen, P1.kind_complete]
          exact .inl (hy.new f o' h1 h2)

end AsynqModel.Core.P24
