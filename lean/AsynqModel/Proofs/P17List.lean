import AsynqModel.Proofs.P7Lifo
/-!
  P17, part 7: list lemmas.
  * `sorted_unique` : two lists sorted by a strict order with the same members are equal;
  * `pairwise_fo`   : `P7.fo p l` is sorted when everything before the first occurrence of an entry precedes it;
  * `filter_range_rev`: the decreasing enumeration of `0 .. n-1` restricted to a sorted list is the list reversed;
  * `foldl_pick`    : the "largest first component" fold over a decreasing list returns its head;
  * `findSome_flatMap`, `filter_flatMap`.
-/
namespace AsynqModel.Core.P17
open AsynqModel.Core

theorem sorted_unique {α : Type} (R : α → α → Prop) (hirr : ∀ a, ¬ R a a) (htr : ∀ a b c, R a b → R b c → R a c) :
    ∀ (l1 l2 : List α), l1.Pairwise R → l2.Pairwise R → (∀ x, x ∈ l1 ↔ x ∈ l2) → l1 = l2
  | [], [], _, _, _ => rfl
  | [], b :: l2, _, _, h => absurd ((h b).2 List.mem_cons_self) (by simp)
  | a :: l1, [], _, _, h => absurd ((h a).1 List.mem_cons_self) (by simp)
  | a :: l1, b :: l2, h1, h2, h => by
    have p1 := List.pairwise_cons.1 h1
    have p2 := List.pairwise_cons.1 h2
    have hab : a = b := by
      by_cases e : a = b
      · exact e
      · have ha : a ∈ l2 := by
          rcases List.mem_cons.1 ((h a).1 List.mem_cons_self) with h' | h'
          · exact absurd h' e
          · exact h'
        have hb : b ∈ l1 := by
          rcases List.mem_cons.1 ((h b).2 List.mem_cons_self) with h' | h'
          · exact absurd h'.symm e
          · exact h'
        exact absurd (htr _ _ _ (p1.1 b hb) (p2.1 a ha)) (hirr a)
    subst hab
    congr 1
    apply sorted_unique R hirr htr l1 l2 p1.2 p2.2
    intro x
    have n1 : x ∈ l1 → x ≠ a := fun hx e => hirr a (by have := p1.1 x hx; rwa [e] at this)
    have n2 : x ∈ l2 → x ≠ a := fun hx e => hirr a (by have := p2.1 x hx; rwa [e] at this)
    constructor
    · intro hx
      rcases List.mem_cons.1 ((h x).1 (List.mem_cons_of_mem _ hx)) with h' | h'
      · exact absurd h' (n1 hx)
      · exact h'
    · intro hx
      rcases List.mem_cons.1 ((h x).2 (List.mem_cons_of_mem _ hx)) with h' | h'
      · exact absurd h' (n2 hx)
      · exact h'

/-- `fo p l` is sorted by `R` when every entry satisfying `p` has an occurrence all entries before which precede it -/
theorem pairwise_fo (R : Nat → Nat → Prop) : ∀ (l : List Nat) (p : Nat → Bool),
    (∀ o ∈ l, p o = true → ∃ pre post, l = pre ++ o :: post ∧ ∀ e ∈ pre, R e o) → (P7.fo p l).Pairwise R
  | [], _, _ => by simp [P7.fo]
  | t :: r, p, h => by
    have hsub : ∀ o ∈ r, p o = true → o ≠ t → ∃ pre post, r = pre ++ o :: post ∧ (∀ e ∈ pre, R e o) ∧ R t o := by
      intro o ho hp hne
      obtain ⟨pre, post, e, hpre⟩ := h o (List.mem_cons_of_mem _ ho) hp
      cases pre with
      | nil => simp at e; exact absurd e.1.symm hne
      | cons a pre =>
        simp only [List.cons_append, List.cons.injEq] at e
        exact ⟨pre, post, e.2, fun x hx => hpre x (List.mem_cons_of_mem _ hx), by rw [e.1]; exact hpre a List.mem_cons_self⟩
    have ih : (P7.fo (fun x => p x && x != t) r).Pairwise R := by
      apply pairwise_fo R r
      intro o ho hp
      simp only [Bool.and_eq_true, bne_iff_ne, ne_eq] at hp
      obtain ⟨pre, post, e, h1, _⟩ := hsub o ho hp.1 hp.2
      exact ⟨pre, post, e, h1⟩
    rw [P7.fo_remove] at ih
    by_cases hp : p t = true
    · rw [P7.fo_cons_pos r hp, List.pairwise_cons]
      refine ⟨?_, ih⟩
      intro x hx
      rw [List.mem_filter] at hx
      have hm := P7.mem_fo.1 hx.1
      have hne : x ≠ t := by simpa using hx.2
      exact (hsub x hm.1 hm.2 hne).choose_spec.choose_spec.2.2
    · have hp' : p t = false := by simpa using hp
      rw [P7.fo_cons_neg r hp']
      rw [P7.fo_filter_self r hp'] at ih
      exact ih

theorem filter_flatMap {α β : Type} (p : α → Bool) (f : α → List β) :
    ∀ (l : List α), (∀ x ∈ l, p x = false → f x = []) → (l.filter p).flatMap f = l.flatMap f
  | [], _ => rfl
  | a :: l, h => by
    have ih := filter_flatMap p f l (fun x hx => h x (List.mem_cons_of_mem _ hx))
    cases hp : p a with
    | true => rw [List.filter_cons_of_pos hp, List.flatMap_cons, List.flatMap_cons, ih]
    | false =>
      rw [List.filter_cons_of_neg (by simp [hp]), List.flatMap_cons, h a List.mem_cons_self hp, ih]
      rfl

theorem findSome_flatMap {α β γ : Type} (f : α → List β) (g : β → Option γ) :
    ∀ (l : List α), (l.flatMap f).findSome? g = (l.filterMap fun u => (f u).findSome? g).head?
  | [] => rfl
  | a :: l => by
    rw [List.flatMap_cons, List.findSome?_append, findSome_flatMap f g l, List.filterMap_cons]
    cases h : (f a).findSome? g with
    | none => simp
    | some x => simp

theorem filter_range_rev (n : Nat) (l : List Nat) (hs : l.Pairwise (· < ·)) (hb : ∀ c ∈ l, c < n) :
    (List.range n).reverse.filter (fun c => decide (c ∈ l)) = l.reverse := by
  apply sorted_unique (fun a b : Nat => b < a) (fun a => Nat.lt_irrefl a) (fun a b c h1 h2 => Nat.lt_trans h2 h1)
  · apply List.Pairwise.filter
    rw [List.pairwise_reverse]
    exact List.pairwise_lt_range
  · rw [List.pairwise_reverse]
    exact hs
  · intro x
    simp only [List.mem_filter, List.mem_reverse, List.mem_range, decide_eq_true_eq]
    exact ⟨fun h => h.2, fun h => ⟨hb x h, h⟩⟩

/-- the fold of `Spec.checkC07` that picks the candidate with the largest context id -/
theorem foldl_pick_some : ∀ (l : List (Nat × Nat)) (a : Nat × Nat), (∀ p ∈ l, p.1 < a.1) →
    l.foldl (fun (acc : Option (Nat × Nat)) p =>
      match acc with | some a => if p.1 > a.1 then some p else some a | none => some p) (some a) = some a
  | [], _, _ => rfl
  | p :: l, a, h => by
    have hp := h p List.mem_cons_self
    simp only [List.foldl_cons]
    rw [if_neg (by omega)]
    exact foldl_pick_some l a (fun q hq => h q (List.mem_cons_of_mem _ hq))

theorem foldl_pick (l : List (Nat × Nat)) (h : l.Pairwise (fun x y => y.1 < x.1)) :
    l.foldl (fun (acc : Option (Nat × Nat)) p =>
      match acc with | some a => if p.1 > a.1 then some p else some a | none => some p) none = l.head? := by
  cases l with
  | nil => rfl
  | cons a l =>
    simp only [List.foldl_cons, List.head?_cons]
    exact foldl_pick_some l a (List.pairwise_cons.1 h).1

end AsynqModel.Core.P17
