import AsynqModel.Proofs.P21GuardB
import AsynqModel.Theorems.Acyclic
/-
  P21, part 10 (static bound of the scheduler stack, 3): the invariants are preserved by every step of a `P20.Good`
  run, the stack has at most `M0 * M` entries, the MAX_TASK_STACK_SIZE guard never fires when that is `≤ maxStack`.
-/
namespace AsynqModel.Core.P21
open AsynqModel.Core AsynqModel.Core.P6 AsynqModel.Core.P20

/-! ### the segments along a step -/

theorem lt_grow {s : State} (h : P10.WSReach s) : ∀ a b, P10.lt s a b → P10.lt (step s) a b :=
  fun _ _ hl => ((P10.ws_step_sh h).base (P10.ws_hinv h).2).grow.lt hl

theorem seg_same {s r : State} {M : Nat} (hS : SegInv s M) (g : ∀ a b, P10.lt s a b → P10.lt r a b)
    (hst : r.stack = s.stack) : SegInv r M := by
  obtain ⟨segs, e, hw⟩ := hS
  exact ⟨segs, by rw [hst, e], wf_mono g segs hw⟩

theorem seg_popped {s r : State} {M : Nat} (hS : SegInv s M) (g : ∀ a b, P10.lt s a b → P10.lt r a b)
    {top : Nat} {st : List Nat} (hstk : s.stack = top :: st) (hst : r.stack = st) : SegInv r M := by
  obtain ⟨segs, e, hw⟩ := hS
  obtain ⟨segs', e', hw'⟩ := seg_pop hw (by rw [← e]; exact hstk)
  exact ⟨segs', by rw [hst, e'], wf_mono g segs' hw'⟩

theorem seg_desc {L M : Nat} {s r : State} (hG : Good s) (hU : UInv L s) (hLM : L ≤ M) (hM : 1 ≤ M)
    (hS : SegInv s M) (d : Desc s r) (hng : ∀ t old rest, s.ctl ≠ .gen t old :: rest)
    (g : ∀ a b, P10.lt s a b → P10.lt r a b) : SegInv r M := by
  cases d with
  | quiet e hst _ => exact seg_same hS g hst
  | top conv body rest htops hctl0 U htops' hctl => exact seg_same hS g U.stack
  | ret _ _ _ e hst _ => exact seg_same hS g hst
  | enterLoop root rest hctl0 hroot e hst hctl =>
    obtain ⟨segs, es, hw⟩ := hS
    refine ⟨[root] :: segs, by rw [hst, es]; rfl, wf_push (wf_mono g segs hw) (by simp) (by simpa using hM) ?_⟩
    intro d hd x hx
    simp only [List.mem_singleton] at hd
    subst hd
    rw [← es] at hx
    apply g
    have hdisc := hG.cinv.disc
    rw [hctl0] at hdisc
    obtain ⟨hon, hdr⟩ := hdisc
    rcases hon with rfl | ⟨t, o, rest', rfl⟩
    · have : s.stack = [] := hdr
      rw [this] at hx; cases hx
    · have hh : s.stack.head? = some t := hdr.1
      rw [hh] at hx
      injection hx with hx
      subst hx
      have hch := (P10.ws_binv hG.ws).chain
      rw [hctl0] at hch
      have := (List.pairwise_cons.1 hch).1 (.gen t o) List.mem_cons_self
      exact this
  | pop _ top st hstk _ e hst _ => exact seg_popped hS g hstk hst
  | popLazy _ top st hstk lo _ _ U hst _ => exact seg_popped hS g hstk hst
  | second _ top st hstk _ _ _ _ U hst _ => exact seg_popped hS g hstk hst
  | first _ top st hstk hk hc hbl hfl U hst _ =>
    obtain ⟨segs, es, hw⟩ := hS
    refine ⟨((view s top).deps.filter fun d => !s.computed d).reverse :: segs, by rw [hst, es]; rfl,
      wf_push (wf_mono g segs hw) ?_ ?_ ?_⟩
    · obtain ⟨d, hd, hdc⟩ := hbl
      intro e
      have : d ∈ ((view s top).deps.filter fun d => !s.computed d).reverse := by
        rw [List.mem_reverse, List.mem_filter]
        exact ⟨hd, by rw [hdc]; rfl⟩
      rw [e] at this; cases this
    · rw [List.length_reverse]
      exact Nat.le_trans (hU top) hLM
    · intro d hd x hx
      rw [List.mem_reverse, List.mem_filter] at hd
      rw [← es, hstk] at hx
      injection hx with hx
      subst hx
      apply g
      exact acyclic_deps s hG.ws _ d (.inl hd.1)
  | enterGen _ _ _ _ _ _ _ e hst _ _ => exact seg_same hS g hst
  | gen t old rest hctl0 _ => exact absurd hctl0 (hng t old rest)
  | flush _ _ _ _ _ _ F _ => exact seg_same hS g F.stack

theorem stack_gd {s r : State} {t : Nat} (d : GD s r t) : r.stack = s.stack := by
  cases d with
  | start hp hs hu => exact hu.stack
  | loc v' hu _ _ _ _ _ _ _ _ => exact hu.stack
  | spawn child k pass hb hp hu hbat hnc hnk => exact hu.stack
  | item kind payload mode k seq hb hp hu hbat hnk => exact hu.stack
  | other k kd out hb hp hu hbat hnk hkd => exact hu.stack
  | yield npy nd leave hp hu => exact hu.stack
  | finish o hp hu => exact hu.stack
  | sync child k hh pass hb hp hu hbat hnc hnk hnh => exact hu.stack
  | syncfut rf k hh s1 hb hp hu F hnk hnh hT => exact F.stack.trans hu.stack

/-! ### the invariant -/

structure GInv (L M M0 : Nat) (s : State) : Prop where
  good : Good s
  y : YInv L s
  u : UInv L s
  c : s.futs.length + M1 s ≤ M0
  seg : SegInv s M

theorem computed_mono (s : State) : ∀ d, s.computed d = true → (step s).computed d = true := by
  intro d h
  unfold State.computed at h ⊢
  cases ho : s.out d with
  | none => rw [ho] at h; cases h
  | some o => rw [(P1.mild_step s).out d o ho]; rfl

theorem ginv_step {L M M0 : Nat} {s : State} (hLM : L ≤ M) (hM : 1 ≤ M) (h : GInv L M M0 s)
    (hst : (step s).stuck = none) (hg : (step s).guardFired = false) : GInv L M M0 (step s) := by
  have hG := h.good
  have hG' := good_step hG hst hg
  by_cases hng : ∀ t old rest, s.ctl ≠ .gen t old :: rest
  · have d := step_desc s hG.stuck hG.raising hG.o.noNA (fun t old rest hc => absurd hc (hng t old rest)) hst hg
    exact ⟨hG', yinv_desc h.y d hng, uinv_desc h.u (computed_mono s) d hng,
      Nat.le_trans (cnt_desc d hng) h.c, seg_desc hG h.u hLM hM h.seg d hng (lt_grow hG.ws)⟩
  · have : ∃ t old rest, s.ctl = .gen t old :: rest := by
      apply Classical.byContradiction
      intro hn
      exact hng (fun t old rest hc => hn ⟨t, old, rest, hc⟩)
    obtain ⟨t, old, rest, hctl⟩ := this
    have e := P6T.step_gen s hG.stuck hG.raising hctl
    have hk := hG.gen hctl
    have ht : t < s.futs.length := lt_of_view_task s t hk.1
    have pin := P2.pinv_reach hG.ws.reach
    have hm : t ∈ P2.gens s.ctl := by rw [hctl]; simp [P2.gens]
    have hcm := computed_mono s
    have hgrow := lt_grow hG.ws
    rw [e] at hst hcm hgrow hG' ⊢
    have d := genStep_gd s t old hk.1 (hG.o.nf t) (hG.hinv.ws t) hst
    exact ⟨hG', yinv_gd h.y ht d, uinv_gd h.y h.u ht (pin.gnb t hm) hcm d,
      Nat.le_trans (cnt_gd hG.o hk.1 hk.2 d) h.c, seg_same h.seg hgrow (stack_gd d)⟩

/-! ### the bound -/

theorem rankOf_lt_len {s : State} (p : Nat → List Nat) {x : Nat} (hx : x < s.futs.length) :
    P10.rankOf s p x < s.futs.length := by
  unfold P10.rankOf
  have hle := List.countP_le_length (p := fun z => P10.plt (p z) (p x)) (l := List.range s.futs.length)
  rw [List.length_range] at hle
  refine Nat.lt_of_le_of_ne hle ?_
  intro he
  have hall := (List.countP_eq_length (p := fun z => P10.plt (p z) (p x)) (l := List.range s.futs.length)).1
    (by rw [List.length_range]; exact he) x (List.mem_range.2 hx)
  rw [P10.plt_irrefl] at hall
  cases hall

theorem stack_bound {L M M0 : Nat} {s : State} (h : GInv L M M0 s) : s.stack.length ≤ M0 * M := by
  obtain ⟨segs, es, hw⟩ := h.seg
  obtain ⟨p, hp⟩ := h.good.hinv.path
  have hd := (P10.ws_winv h.good.ws).dinv.stack
  have h1 := flatten_length_le segs hw
  have h2 := (segs_length_le (N := s.futs.length) (P10.rankOf s p) (fun x y hl hy => P10.rankOf_lt hp hl hy)
    (fun x hx => rankOf_lt_len p hx) segs hw (by rw [← es]; exact hd)).1
  have h3 : s.futs.length ≤ M0 := by have := h.c; omega
  rw [es]
  calc segs.flatten.length ≤ segs.length * M := h1
    _ ≤ M0 * M := Nat.mul_le_mul_right _ (Nat.le_trans h2 h3)

/-- the guard fires only when the stack is higher than `maxStack` -/
theorem guard_step (s : State) (hg : s.guardFired = false) (hb : s.stack.length ≤ s.cfg.maxStack) :
    (step s).guardFired = false := by
  have sh := P3.step_shape s
  generalize step s = r at sh
  cases sh with
  | idle h => rw [h.guard]; exact hg
  | finishTop _ h _ => rw [h.guard]; exact hg
  | topStart _ _ h => rw [h.guard]; exact hg
  | raiseEnter _ _ _ _ h => rw [h.guard]; exact hg
  | raiseLoop _ _ _ _ _ h => rw [h.guard]; exact hg
  | popEnter _ _ _ _ h => rw [h.guard]; exact hg
  | enterLoop _ _ _ _ h => rw [h.guard]; exact hg
  | guard _ _ _ _ _ _ hmax _ => omega
  | iter _ _ _ _ _ _ _ _ h => rw [h.guard]; exact hg
  | enterGen _ _ _ _ _ _ h => rw [h.guard]; exact hg
  | popLoop _ _ _ _ _ _ h => rw [h.guard]; exact hg
  | flush _ _ _ _ _ _ h => rw [h.guard]; exact hg
  | genStay _ _ _ _ h => rw [h.guard]; exact hg
  | genLeave _ _ _ _ h => rw [h.guard]; exact hg
  | genCall _ _ _ _ _ h => rw [h.guard]; exact hg

theorem cfg_step (s : State) : (step s).cfg = s.cfg := by
  have sh := P3.step_shape s
  generalize step s = r at sh
  cases sh with
  | idle h => exact h.cfg
  | finishTop _ h _ => exact h.cfg
  | topStart _ _ h => exact h.cfg
  | raiseEnter _ _ _ _ h => exact h.cfg
  | raiseLoop _ _ _ _ _ h => exact h.cfg
  | popEnter _ _ _ _ h => exact h.cfg
  | enterLoop _ _ _ _ h => exact h.cfg
  | guard _ _ _ _ _ _ _ e => rw [e]; rfl
  | iter _ _ _ _ _ _ _ _ h => exact h.cfg
  | enterGen _ _ _ _ _ _ h => exact h.cfg
  | popLoop _ _ _ _ _ _ h => exact h.cfg
  | flush _ _ _ _ _ _ h => exact h.cfg
  | genStay _ _ _ _ h => exact h.cfg
  | genLeave _ _ _ _ h => exact h.cfg
  | genCall _ _ _ _ _ h => exact h.cfg

theorem ginv_init (L M : Nat) (cfg : Cfg) (tops : List (Conv × Body)) (choices : List (Nat × Nat))
    (hws : ∀ p ∈ tops, P10.WellScoped p.2 0 0 = true) (hna : ∀ p ∈ tops, Spec.bodyHasNonAsync p.2 = false)
    (hL : ∀ p ∈ tops, ybB L p.2 = true) : GInv L M (topsW tops) (initState cfg tops choices) :=
  ⟨good_init cfg tops choices hws hna, yinv_init L cfg tops choices hL, uinv_init L cfg tops choices,
   by simp [M1, initState, P6T.rsum], ⟨[], rfl, trivial⟩⟩

/-- the run invariant: the guard has not fired, the configuration is the initial one, and while the state is not stuck
    `GInv` holds -/
theorem guard_run {L M : Nat} (hLM : L ≤ M) (hM : 1 ≤ M) (cfg : Cfg) (tops : List (Conv × Body))
    (hmax : topsW tops * M ≤ cfg.maxStack) :
    ∀ (n : Nat) (s : State), s.guardFired = false → s.cfg = cfg → (s.stuck = none → GInv L M (topsW tops) s) →
      (runFuel n s).guardFired = false
  | 0, s, hg, _, _ => hg
  | n + 1, s, hg, hc, hi => by
    unfold runFuel
    split
    · exact hg
    · cases hs : s.stuck with
      | some m =>
        rw [P1.step_stuck s m hs]
        exact guard_run hLM hM cfg tops hmax n s hg hc hi
      | none =>
        have hI := hi hs
        have hb : s.stack.length ≤ s.cfg.maxStack := by
          rw [hc]; exact Nat.le_trans (stack_bound hI) hmax
        have hg' := guard_step s hg hb
        exact guard_run hLM hM cfg tops hmax n (step s) hg' ((cfg_step s).trans hc)
          (fun hst => ginv_step hLM hM hI hst hg')

end AsynqModel.Core.P21
