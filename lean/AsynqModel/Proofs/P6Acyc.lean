import AsynqModel.Proofs.P6InvA
/-
  P6 (property C04), part 8: tools for the acyclicity argument -
  the post-order `PLt` on creation paths, facts about `extractFutures` / `mapLeaves` / `resolve`, list splitting.
-/
namespace AsynqModel.Core.P6
open AsynqModel.Core

/-- `PLt p q`: in the creation tree, the node with path `p` (root first) comes before the node with path `q` in
    post-order: `p` properly extends `q`, or at the first difference `p` branches into an earlier sibling -/
inductive PLt : List Nat → List Nat → Prop
  | ext (a : Nat) (p : List Nat) : PLt (a :: p) []
  | lt {a b : Nat} {p q : List Nat} : a < b → PLt (a :: p) (b :: q)
  | cons {a : Nat} {p q : List Nat} : PLt p q → PLt (a :: p) (a :: q)

theorem PLt.irrefl : ∀ p, ¬ PLt p p
  | [], h => by cases h
  | a :: p, h => by
    cases h with
    | lt h => exact Nat.lt_irrefl _ h
    | cons h => exact PLt.irrefl p h

theorem PLt.trans {p q r : List Nat} (h1 : PLt p q) (h2 : PLt q r) : PLt p r := by
  induction h1 generalizing r with
  | ext a p => cases h2
  | @lt a b p q hab =>
    cases h2 with
    | ext => exact .ext _ _
    | lt hbc => exact .lt (Nat.lt_trans hab hbc)
    | cons _ => exact .lt hab
  | @cons a p q _ ih =>
    cases h2 with
    | ext => exact .ext _ _
    | lt hac => exact .lt hac
    | cons h => exact .cons (ih h)

theorem PLt.asymm {p q : List Nat} (h1 : PLt p q) (h2 : PLt q p) : False := PLt.irrefl p (h1.trans h2)

theorem PLt.prefix (w : List Nat) {p q : List Nat} (h : PLt p q) : PLt (w ++ p) (w ++ q) := by
  induction w with
  | nil => exact h
  | cons a w ih => exact .cons ih

/-- a child comes before its parent -/
theorem PLt.child (w : List Nat) (a : Nat) : PLt (w ++ [a]) w := by
  have := PLt.prefix w (PLt.ext a [])
  simpa using this

/-- a node comes before everything below a later sibling -/
theorem PLt.sibling (w : List Nat) {d br : Nat} (rest : List Nat) (h : d < br) : PLt (w ++ [d]) (w ++ br :: rest) :=
  PLt.prefix w (.lt h)

/-! ### yielded structures -/

mutual
theorem leaves_of_extract : ∀ (y : RY) (d : Nat), d ∈ extractFutures y → d ∈ y.leaves
  | .none, d, h => by simp [extractFutures] at h
  | .junk, d, h => by simp [extractFutures] at h
  | .f r, d, h => by simpa [extractFutures, YS.leaves] using h
  | .tup l, d, h => by
    rw [extractFutures] at h; rw [YS.leaves]; exact leaves_of_extractRev l d h
  | .lst l, d, h => by
    rw [extractFutures] at h; rw [YS.leaves]; exact leaves_of_extractRev l d h
  | .dict _ vs, d, h => by
    rw [extractFutures] at h; rw [YS.leaves]; exact leaves_of_extractFwd vs d h
theorem leaves_of_extractRev : ∀ (l : List RY) (d : Nat), d ∈ extractRev l → d ∈ YS.leavesList l
  | [], d, h => by simp [extractRev] at h
  | y :: ys, d, h => by
    rw [extractRev] at h; rw [YS.leavesList]
    rcases List.mem_append.1 h with h | h
    · exact List.mem_append_right _ (leaves_of_extractRev ys d h)
    · exact List.mem_append_left _ (leaves_of_extract y d h)
theorem leaves_of_extractFwd : ∀ (l : List RY) (d : Nat), d ∈ extractFwd l → d ∈ YS.leavesList l
  | [], d, h => by simp [extractFwd] at h
  | y :: ys, d, h => by
    rw [extractFwd] at h; rw [YS.leavesList]
    rcases List.mem_append.1 h with h | h
    · exact List.mem_append_left _ (leaves_of_extract y d h)
    · exact List.mem_append_right _ (leaves_of_extractFwd ys d h)
end

mutual
theorem leaves_mapLeaves (g : Ref → Nat) : ∀ (y : Y) (d : Nat), d ∈ (y.mapLeaves g).leaves → ∃ r ∈ y.leaves, d = g r
  | .none, d, h => by simp [YS.mapLeaves, YS.leaves] at h
  | .junk, d, h => by simp [YS.mapLeaves, YS.leaves] at h
  | .f r, d, h => by
    simp [YS.mapLeaves, YS.leaves] at h
    exact ⟨r, by simp [YS.leaves], h⟩
  | .tup l, d, h => by
    rw [YS.mapLeaves, YS.leaves] at h; rw [YS.leaves]; exact leaves_mapLeavesList g l d h
  | .lst l, d, h => by
    rw [YS.mapLeaves, YS.leaves] at h; rw [YS.leaves]; exact leaves_mapLeavesList g l d h
  | .dict _ vs, d, h => by
    rw [YS.mapLeaves, YS.leaves] at h; rw [YS.leaves]; exact leaves_mapLeavesList g vs d h
theorem leaves_mapLeavesList (g : Ref → Nat) :
    ∀ (l : List Y) (d : Nat), d ∈ YS.leavesList (YS.mapLeavesList g l) → ∃ r ∈ YS.leavesList l, d = g r
  | [], d, h => by simp [YS.mapLeavesList, YS.leavesList] at h
  | y :: ys, d, h => by
    rw [YS.mapLeavesList, YS.leavesList] at h
    rw [YS.leavesList]
    rcases List.mem_append.1 h with h | h
    · obtain ⟨r, hr, e⟩ := leaves_mapLeaves g y d h
      exact ⟨r, List.mem_append_left _ hr, e⟩
    · obtain ⟨r, hr, e⟩ := leaves_mapLeavesList g ys d h
      exact ⟨r, List.mem_append_right _ hr, e⟩
end

/-- the reference names an existing future of the task -/
def refOK (v : FV) : Ref → Prop
  | .own i => i < v.own.length
  | .inh j => j < v.inh.length

theorem resolve_mem (s : State) (t : Nat) (r : Ref) (h : refOK (view s t) r) :
    (s.task t).resolve r ∈ (view s t).own ∨ (s.task t).resolve r ∈ (view s t).inh := by
  cases r with
  | own i =>
    left
    have h' : i < (s.task t).own.length := h
    show (s.task t).own.getD i 0 ∈ (s.task t).own
    rw [List.getD_eq_getElem?_getD, List.getElem?_eq_getElem h']
    exact List.getElem_mem h'
  | inh j =>
    right
    have h' : j < (s.task t).inh.length := h
    show (s.task t).inh.getD j 0 ∈ (s.task t).inh
    rw [List.getD_eq_getElem?_getD, List.getElem?_eq_getElem h']
    exact List.getElem_mem h'

/-! ### list splitting -/

/-- the first occurrence of an element -/
theorem split_first {x : Nat} : ∀ {l : List Nat}, x ∈ l → ∃ a b, l = a ++ x :: b ∧ x ∉ a
  | [], h => by cases h
  | y :: l, h => by
    by_cases hxy : x = y
    · subst hxy; exact ⟨[], l, rfl, by simp⟩
    · have hx : x ∈ l := by
        rcases List.mem_cons.1 h with h | h
        · exact absurd h hxy
        · exact h
      obtain ⟨a, b, e, hn⟩ := split_first hx
      refine ⟨y :: a, b, by rw [e]; rfl, ?_⟩
      intro hm
      rcases List.mem_cons.1 hm with h | h
      · exact hxy h
      · exact hn h

/-- a decomposition at an element that does not occur in the first part of an append -/
theorem split_append {x : Nat} : ∀ {l1 l2 a b : List Nat}, l1 ++ l2 = a ++ x :: b → x ∉ l1 →
    ∃ a', a = l1 ++ a' ∧ l2 = a' ++ x :: b
  | [], l2, a, b, h, _ => ⟨a, rfl, h⟩
  | y :: l1, l2, [], b, h, hn => by
    simp at h
    exact absurd (by simp [h.1]) hn
  | y :: l1, l2, z :: a, b, h, hn => by
    simp at h
    obtain ⟨rfl, h⟩ := h
    have hn' : x ∉ l1 := fun hm => hn (List.mem_cons_of_mem _ hm)
    obtain ⟨a', e1, e2⟩ := split_append h hn'
    exact ⟨a', by rw [e1]; rfl, e2⟩

/-- the stack `top :: st` ends with `root` -/
theorem ends_cons {top root : Nat} {st pre : List Nat} (h : top :: st = pre ++ [root]) :
    (st = [] ∧ top = root) ∨ ∃ pre', st = pre' ++ [root] := by
  cases pre with
  | nil => simp at h; exact Or.inl ⟨h.2, h.1⟩
  | cons a pre => simp at h; exact Or.inr ⟨pre, h.2⟩

end AsynqModel.Core.P6
