import AsynqModel.Proofs.P27Lab
import AsynqModel.Proofs.P17Read
/-!
  P27, C07 part 7: the `.read` clause of the C07 observer - what the running task reads is the value of the innermost
  open override along its awaiting chain - `P17.read_ok` / `P17.RA_reach` without the hypothesis that no NonAsyncContext
  exists (the NonAsync-free invariants of P27 / P16 in place of those of P7 / P12).
-/
namespace AsynqModel.Core.P27
open AsynqModel.Core AsynqModel.Core.Spec P5 P17
open AsynqModel.Core.P13 (obs W)
open AsynqModel.Core.P10 (Named)
open AsynqModel.Core.P7 (kindOf expect rstack hotTasks hot)

theorem read_ok' {c : Ctx} {s : State} (hs : P10.WSReach s) (hg : s.guardFired = false) (ra : RA c s)
    {t : Nat} {old : Option Nat} {rest : List Ctl} (hctl : s.ctl = .gen t old :: rest) (var : Nat) :
    checkRead c (W s) (.read t var (.a (s.svGet var))) = none := by
  rw [checkRead_read]
  cases hch : (W s).chain (W s).fuel t with
  | none => rfl
  | some ch =>
    simp only
    -- the library
    have lb := P16.lib'_of_ws hs hg
    have good := good'_of_reach hs.reach hg
    have run := good.running hctl
    have k := K_reach' hs.reach hg
    have hpos := hotPos_reach' hs hg
    have sr := (P13.inv13_of_reach hs.reach { (default : Ctx) with cfg := s.cfg } rfl).sr
    have hlt : ∀ p a, P12.Link s p a → P10.lt s a p := fun p a hl => hl.lt lb.hinv lb.chain
    obtain ⟨L, hL, hlab, hheads, hbot⟩ := LabIA_reach' hs hg
    have hd := lb.disc
    rw [hctl] at hd
    have hhead : s.stack.head? = some t := P12.disc_gen_head hd
    -- the chain of the running task is the spine of the labelled stack
    have hA : ∀ p a, LinkA s p a → s.computed a = false → p ∈ (W s).awaiters a :=
      fun p a hl hc => link_awaiter ra.g1 sr hl.1 hc
    have hU : ∀ p a, P12.Link s p a → s.computed p = false := by
      intro p a hl
      rcases hl.2 with h1 | h1
      · exact h1.1
      · have := good.pi.live p (P12.edgeIn_gens h1.2.2)
        simp [State.computed, this]
    have hbb : ∀ x, L.getLast? = some x → (W s).awaiters x.1 = [] :=
      fun x hx => awaiters_bottom ra.g1 sr (hbot x hx)
    cases L with
    | nil => rw [← hL] at hhead; cases hhead
    | cons x0 Lr =>
      obtain ⟨a0, p0⟩ := x0
      have ha0 : a0 = t := by rw [← hL] at hhead; simpa using hhead
      subst ha0
      have hsp := chain_top hA hU a0 p0 Lr hlab hbb run.nc _ ch hch
      -- the tasks of the spine
      have hact : ∀ u ∈ ch, (s.task u).ctxActive = true := by
        intro u hu
        rw [hsp] at hu
        rcases List.mem_cons.1 hu with e | hu
        · rw [e]; exact run.act
        · obtain ⟨_, a, hl⟩ := lspine_sub _ hlab u hu
          exact hl.2
      have hsorted : ch.Pairwise (P10.lt s) := by
        rw [hsp, List.pairwise_cons]
        refine ⟨?_, lspine_pairwise hlt (fun a b c => P10.lt_trans) _ hlab⟩
        intro q hq
        cases Lr with
        | nil => cases hq
        | cons y Lr' =>
          exact P12.Lab.top_lt hlt (LabA.toLab _ hlab) (lspine_sub _ hlab q hq).1
      have hhot_in : ∀ o, hot s o = true → o ∈ ch := by
        intro o ho
        obtain ⟨h1, h2⟩ := P7.hot_ctxs ho
        obtain ⟨h3, h4⟩ := k.live o h2
        rw [hsp]
        rcases hheads o h3 h1 h4 with h5 | h5
        · rw [hhead] at h5
          simp only [Option.some.injEq] at h5
          rw [h5]; exact List.mem_cons_self
        · cases Lr with
          | nil =>
            have : p0 = a0 := hlab
            simp only [List.map_cons, List.map_nil, List.mem_singleton] at h5
            rw [h5, this]; exact List.mem_cons_self
          | cons y Lr' => exact List.mem_cons_of_mem _ (labels_sub Lr' (a0, p0) y hlab o h5)
      -- the hot tasks in stack order are the hot tasks of the spine
      have hht : hotTasks s = ch.filter (hot s) := by
        apply sorted_unique (P10.lt s) (fun a => lb.hinv.irrefl a) (fun a b c => P10.lt_trans)
        · exact pairwise_fo (P10.lt s) s.stack (hot s) (fun o _ ho => hpos o ho)
        · exact hsorted.filter _
        · intro x
          unfold hotTasks
          rw [P7.mem_fo, List.mem_filter]
          constructor
          · rintro ⟨_, hx⟩; exact ⟨hhot_in x hx, hx⟩
          · rintro ⟨_, hx⟩; exact ⟨k.stk x hx, hx⟩
      have hrs : rstack s = ch.flatMap fun u => (s.task u).ctxs.reverse := by
        unfold rstack
        rw [hht]
        apply filter_flatMap
        intro x hx hnh
        have := hact x hx
        simp only [hot, this, Bool.true_and, Bool.not_eq_false', List.isEmpty_iff] at hnh
        rw [hnh]; rfl
      -- the value read
      have hval := (values' s hs hg).1 var
      rw [expected_eq ra.g2, ← hrs, ← hval]
      simp

theorem RA_reach' {s : State} (hs : P10.WSReach s) (hg : s.guardFired = false) (c : Ctx) : RA c s := by
  induction hs with
  | init cfg tops choices _ => exact RA_init c cfg tops choices
  | @step s hs ih =>
    have hg0 := P3.guard_mono s hg
    have ra := ih hg0
    have hi := (P10.ws_hinv hs).1
    have good := good'_of_reach hs.reach hg0
    refine R_step ra (fun u y hn => hi.named_bound hn) ?_
    intro t old rest hctl
    have run := good.running hctl
    refine ⟨run.lt, run.active, ?_, hi.ws t, fun d hd => hi.prevY t d hd, ?_⟩
    · intro _ _ d hd
      exact good.pi.gnb t (by rw [hctl]; simp [P2.gens]) d hd
    · intro var k _ _
      exact read_ok' hs hg0 ra hctl var


end AsynqModel.Core.P27
