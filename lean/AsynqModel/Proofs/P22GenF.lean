import AsynqModel.Proofs.P22GenE
/-!
# P22, part 12: the instructions that touch the open with-blocks: `withCtx`, `endwith`, and the end of the task
-/
namespace AsynqModel.Core.P22
open AsynqModel.Core AsynqModel.Core.P22.SeqSV

variable {cfg : Cfg} {tops : List (Conv × Body)} {s : State} {g : Ghost} {t : Nat} {old : Option Nat} {rest' : List Ctl}

/-- the common part of the three: `own` stays, nothing is called, nothing is read -/
theorem sim_frames {r : State} (C : GC cfg tops s g t old rest') (hst : (s.genStep t old).stuck = none)
    (L : Lm s r t) (hlen : r.futs.length = s.futs.length)
    (hown : (r.task t).own = (s.task t).own) (hinh : (r.task t).inh = (s.task t).inh)
    (hstd : (r.task t).started = true)
    (hrd : mreads t r.trace = mreads t s.trace)
    (hbody : nsBC (r.task t).body (r.task t).conts)
    (hsync : ∀ f k h, (r.task t).body = .syncret f k h → r.computed t = false → False)
    (hdeps : ∀ d, d ∈ (r.task t).deps → d ∈ (s.task t).deps)
    (hprev : (r.task t).prevY = (s.task t).prevY)
    (hsplit : ∀ E, rest cfg s g t E = rest cfg r g t E) :
    Sim cfg tops r g := by
  obtain ⟨ip, hip⟩ := C.info
  have hkd : ∀ d, (r.fut d).kind = .task → d < s.futs.length → (s.fut d).kind = .task := by
    intro d hk hd; rw [← (L.fut d hd).1]; exact hk
  refine sim_upd C.sim C.bnd (mkUpd_same (mid := []) C hst hip L hlen hown hstd (fun _ _ h => h) ?_ ?_ ?_
    (fun _ _ _ _ h => by cases h) ?_ ?_ hbody ?_ ?_ ?_)
  · intro u iu h1 h2; rw [h1] at h2; cases h2
  · rw [hsplit]; rfl
  · rw [hrd]; simp
  · intro i u _ h1 h2; exact absurd h1 h2
  · rw [hinh]; exact C.sim.inh t C.kt
  · intro f k h hb hc; exact (hsync f k h hb hc).elim
  · intro d hd hk
    have hd' := hdeps d hd
    exact C.sim.depsCalled t d C.kt hd' (hkd d hk (C.bnd.deps t d hd'))
  · intro d hd hk
    rw [hprev] at hd
    exact C.sim.prevCalled t d C.kt hd (hkd d hk (C.bnd.prevY t d hd))

/-! ### `with c:` -/

theorem kindOf_append_self (x : State) (c : CtxKind) (o : Option Nat) :
    P7.kindOf { x with ctxs := x.ctxs ++ [({ kind := c, owner := o } : CtxSt)] } x.ctxs.length = c := by
  simp [P7.kindOf]

theorem sm_wc3 (x : State) (c : CtxKind) : Sm x (P4.wc3 x c) := by
  unfold P4.wc3
  refine sm_ctxs rfl rfl rfl rfl rfl rfl (by simp) ?_
  intro c' hc'
  simp [P7.kindOf, List.getElem?_append_left hc']

theorem sm_wc4 (x : State) (cid : Nat) : Sm x (P4.wc4 x cid) := by
  unfold P4.wc4
  split
  · exact sm_updTask _ _ _ (fun ts => P4.coreA_ctxs ts _)
  · exact Sm.refl x

theorem wc4_ctxs (x : State) (cid : Nat) : (P4.wc4 x cid).ctxs = x.ctxs := by
  unfold P4.wc4; split <;> rfl

theorem sm_wc5 (x : State) (c : CtxKind) (cid : Nat) : Sm x (P4.wc5 x c cid) := by
  unfold P4.wc5
  split
  · exact Sm.refl x
  · exact sm_ctxResumeOne x cid

theorem sm_wc1 (x : State) (c : CtxKind) : Sm x (P4.wc1 x c) := by
  unfold P4.wc1
  split
  · exact sm_svTouch x _
  · exact Sm.refl x

theorem wc1_ctxs (x : State) (c : CtxKind) : (P4.wc1 x c).ctxs = x.ctxs := by
  unfold P4.wc1
  split
  · unfold State.svTouch; split <;> rfl
  · rfl

/-- entering the block is a move the invariant does not see, and the new context has the kind written -/
theorem sm_withCtxPrep (x : State) (t : Nat) (c : CtxKind) :
    Sm x (P4.withCtxPrep x t c) ∧ P7.kindOf (P4.withCtxPrep x t c) x.ctxs.length = c := by
  unfold P4.withCtxPrep
  have h1 : Sm x ((P4.wc1 x c).emit (.ctxN x.ctxs.length t c)) := (sm_wc1 x c).trans (sm_emit _ _ rfl)
  have hc1 : ((P4.wc1 x c).emit (.ctxN x.ctxs.length t c)).ctxs.length = x.ctxs.length := by
    show (P4.wc1 x c).ctxs.length = _; rw [wc1_ctxs]
  generalize (P4.wc1 x c).emit (.ctxN x.ctxs.length t c) = x1 at h1 hc1
  have h3 := sm_wc3 x1 c
  have hk3 : P7.kindOf (P4.wc3 x1 c) x.ctxs.length = c := by
    rw [← hc1]; exact kindOf_append_self x1 c _
  have hl3 : (P4.wc3 x1 c).ctxs.length = x.ctxs.length + 1 := by simp [P4.wc3, hc1]
  generalize P4.wc3 x1 c = x3 at h3 hk3 hl3
  have h4 := sm_wc4 x3 x.ctxs.length
  have hk4 : P7.kindOf (P4.wc4 x3 x.ctxs.length) x.ctxs.length = c := by
    simp only [P7.kindOf, wc4_ctxs]; exact hk3
  have hl4 : (P4.wc4 x3 x.ctxs.length).ctxs.length = x.ctxs.length + 1 := by rw [wc4_ctxs]; exact hl3
  generalize P4.wc4 x3 x.ctxs.length = x4 at h4 hk4 hl4
  have h5 := sm_wc5 x4 c x.ctxs.length
  refine ⟨((h1.trans h3).trans h4).trans h5, ?_⟩
  rw [h5.kinds x.ctxs.length (by omega)]
  exact hk4

theorem envOf_cons {r : State} {c : CtxKind} {cid : Nat} (hk : P7.kindOf r cid = c) (E : SvEnv) (cs : List Nat) :
    envOf r E (cid :: cs) = push (envOf r E cs) c := by
  unfold envOf ovs
  rw [List.filterMap_cons]
  unfold ovOf
  rw [hk]
  cases c <;> rfl

theorem runFrames_done (cfg : Cfg) (x : State) (E : SvEnv) (inh : List Outcome) (fr : List (Nat × Body)) (o : Outcome) :
    runFrames cfg x E inh fr (.done o) = [] := by
  cases fr <;> rfl

theorem sim_withCtx (C : GC cfg tops s g t old rest') (hst : (s.genStep t old).stuck = none)
    (hp : (s.task t).pending = false) (c : CtxKind) (b k : Body) (hb : (s.task t).body = .withCtx c b k) :
    Sim cfg tops (s.genStep t old) g := by
  rw [P4.genStep_withCtx s t old c b k hp hb]
  obtain ⟨hsm, hkc⟩ := sm_withCtxPrep s t c
  have hstd := C.started_of_running hp
  have hnb := C.sim.nsB t C.kt
  have hbk : ns b = true ∧ ns k = true := by
    have := nsBC_body hnb (by rw [hb]; intro _ _ _; nofun)
    rw [hb] at this; simpa [ns] using this
  have hbsy : ∀ f k' c', b ≠ .syncret f k' c' := by
    have hws := C.ws (by rw [hb]; intro _ _ _; nofun)
    rw [hb] at hws
    exact P4.ws_not_syncret hws
  have hcore : P4.coreA ((P4.withCtxPrep s t c).task t) = P4.coreA (s.task t) := (hsm.task t C.kt).2
  obtain ⟨h1, h2, h3, h4, h5, h6, h7, h8, h9, h10, h11, h12, _⟩ := P4.coreA_fields hcore
  have hlt : t < (P4.withCtxPrep s t c).futs.length := by rw [hsm.len]; exact C.lt
  obtain ⟨r, hr⟩ : ∃ r : State, r = (P4.withCtxPrep s t c).updTask t fun ts =>
      { ts with conts := (s.ctxs.length, k) :: ts.conts, body := b } := ⟨_, rfl⟩
  rw [← hr]
  have ht : r.task t =
      { (P4.withCtxPrep s t c).task t with conts := (s.ctxs.length, k) :: ((P4.withCtxPrep s t c).task t).conts, body := b } := by
    rw [hr]; exact task_updTask_self' _ t _ hlt
  have tb : (r.task t).body = b := by rw [ht]
  have tc : (r.task t).conts = (s.ctxs.length, k) :: (s.task t).conts := by rw [ht]; simp only; rw [h2]
  have te : (r.task t).env = (s.task t).env := by rw [ht]; exact h3
  have to' : (r.task t).own = (s.task t).own := by rw [ht]; exact h4
  have ti : (r.task t).inh = (s.task t).inh := by rw [ht]; exact h5
  have tca : (r.task t).caught = (s.task t).caught := by rw [ht]; exact h6
  have tp : (r.task t).pending = false := by rw [ht]; exact h7.trans hp
  have tst : (r.task t).started = true := by rw [ht]; exact h8.trans hstd
  have tpr : (r.task t).prevYRef = (s.task t).prevYRef := by rw [ht]; exact h11
  have tpy : (r.task t).prevY = (s.task t).prevY := by rw [ht]; exact h10
  have td : (r.task t).deps = (s.task t).deps := by rw [ht]; exact h12
  have L : Lm s r t := by rw [hr]; exact (Lm.of_sm hsm t).trans (lm_updTask _ t _)
  have hlen : r.futs.length = s.futs.length := by rw [hr]; simp [hsm.len]
  have hcr : r.computed t = false := by
    rw [hr, P2.computed_updTask, computed_of_out (hsm.task t C.kt).1]; exact C.nct
  have hkc' : P7.kindOf r s.ctxs.length = c := by rw [hr]; exact hkc
  have hmr : mreads t r.trace = mreads t s.trace := by
    have : r.trace = (P4.withCtxPrep s t c).trace := by rw [hr]; rfl
    rw [this]; exact sm_mreads hsm t
  refine sim_frames C hst L hlen to' ti tst hmr ?_ ?_ ?_ tpy ?_
  · rw [tb, tc]
    refine nsBC_plain hbk.1 hbsy ?_
    intro x hx
    rcases List.mem_cons.1 hx with e | hx
    · rw [e]; exact hbk.2
    · exact hnb.2 x hx
  · intro f k' h' hb' _; rw [tb] at hb'; exact hbsy f k' h' hb'
  · intro d hd; rw [td] at hd; exact hd
  · intro E
    rw [rest_before C.sim C.kt C.nct, rest_after C.sim C.bnd L hlen C.called C.kt to' ti hcr]
    have hcid : cids (r.task t) = s.ctxs.length :: cids (s.task t) := by
      unfold cids; rw [tc]; rfl
    have hEold : ∀ cs, (∀ x ∈ cs, x < s.ctxs.length) → envOf r E cs = envOf s E cs :=
      fun cs hcs => envOf_lm L E hcs
    rw [hcid, tb, tc, te, tca, tpr, tp, envOf_cons hkc' E, hEold _ (C.bnd.conts t)]
    simp only [hp, Bool.false_and]
    rw [headD_plain _ _ _ _ _ _ hbsy, hb, headD_plain _ _ _ _ _ _ (by intro _ _ _; nofun)]
    simp only [runBody]
    -- the block ends or not
    cases hrb : (runBody cfg b (push (envOf s E (cids (s.task t))) c) [] (locOf s g (s.task t))).2 with
    | done o =>
      simp only [runFrames_done]
      have : (⟨(s.task t).env, Inv.dens s (s.task t).own, (s.task t).own.map (kidOf s g), (s.task t).caught,
          (s.task t).prevYRef⟩ : Loc) = locOf s g (s.task t) := rfl
      rw [this, hrb]
      simp [runFrames_done]
    | fall l' =>
      have : (⟨(s.task t).env, Inv.dens s (s.task t).own, (s.task t).own.map (kidOf s g), (s.task t).caught,
          (s.task t).prevYRef⟩ : Loc) = locOf s g (s.task t) := rfl
      rw [this, hrb]
      simp only [runFrames]
      have hcs : List.map (fun x => x.1) (s.task t).conts = cids (s.task t) := rfl
      rw [hcs, hEold _ (C.bnd.conts t), List.append_assoc]
      congr 2
      exact (runFrames_congr cfg E [] _ _ (fun x hx => ovOf_of_kindOf (L.kinds x (C.bnd.conts t x hx)))).symm

end AsynqModel.Core.P22
