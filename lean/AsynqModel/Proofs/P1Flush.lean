import AsynqModel.Proofs.P1Batch
/-!
  `flushBatch` (`BatchBase.flush()` of a pending batch) in closed form and what it does to the trace, the futures
  and the batch table.
-/
namespace AsynqModel.Core.P1
open AsynqModel.Core

/-- the error `BatchBase._computed` gives to the items the flush body left unanswered -/
def flushErr (cfg : Cfg) (k : Nat) : Err := if (cfg.kind k).raises then .flushraise k else .notset

/-- what a flush does to its batch record -/
def flushUpd (cfg : Cfg) (b : Batch) : Batch :=
  { b with flushed := true, items := if cfg.keepDeps then b.items else [] }

theorem flushUpd_key (cfg : Cfg) (b : Batch) : (flushUpd cfg b).kind = b.kind ∧ (flushUpd cfg b).seq = b.seq := ⟨rfl, rfl⟩

theorem flushUpd_items (cfg : Cfg) (b : Batch) (i : Nat) (h : i ∈ (flushUpd cfg b).items) : i ∈ b.items := by
  simp only [flushUpd] at h
  split at h
  · exact h
  · cases h

/-- every item of every batch is an allocated future -/
def heapB (s : State) : Prop := ∀ b ∈ s.batches, ∀ i ∈ b.items, i < s.futs.length

theorem flushBatch_eq (s : State) (k q : Nat) (b : Batch) (h : s.batch? k q = some b) :
    s.flushBatch k q =
      (((((s.switchActive k q).emit (.flushI k q b.items)).flushItems k b.items).finishItems (flushErr s.cfg k)
        b.items).emit (.bdone k q (!(s.cfg.kind k).raises))).updBatch k q (flushUpd s.cfg) := by
  unfold State.flushBatch
  simp only [h, cfg_emit, flushItems_cfg, finishItems_cfg, cfg_switchActive]
  rfl

theorem flushBatch_none (s : State) (k q : Nat) (h : s.batch? k q = none) :
    s.flushBatch k q = s.fail "flush of unknown batch" := by
  unfold State.flushBatch
  simp only [h]

/-- the events of a flush, newest first: `bdone`, the `done` events of the items, `flushI` -/
theorem flushBatch_trace (s : State) (k q : Nat) (b : Batch) (h : s.batch? k q = some b) :
    ∃ mid, (s.flushBatch k q).trace =
        .bdone k q (!(s.cfg.kind k).raises) :: (mid ++ .flushI k q b.items :: s.trace) ∧
      ∀ e ∈ mid, isDone e = true := by
  rw [flushBatch_eq s k q b h]
  simp only [trace_updBatch, trace_emit]
  obtain ⟨es2, h2, hd2⟩ := finishItems_trace (flushErr s.cfg k) b.items
    (((s.switchActive k q).emit (.flushI k q b.items)).flushItems k b.items)
  obtain ⟨es1, h1, hd1⟩ := flushItems_trace k b.items ((s.switchActive k q).emit (.flushI k q b.items))
  refine ⟨es2 ++ es1, ?_, ?_⟩
  · rw [h2, h1]
    simp
  · intro e he
    rcases List.mem_append.1 he with h | h
    · exact hd2 e h
    · exact hd1 e h

@[simp] theorem flushBatch_stuck (s : State) (k q : Nat) (b : Batch) (h : s.batch? k q = some b) :
    (s.flushBatch k q).stuck = s.stuck := by
  rw [flushBatch_eq s k q b h]; simp

@[simp] theorem flushBatch_cfg (s : State) (k q : Nat) : (s.flushBatch k q).cfg = s.cfg := by
  cases h : s.batch? k q with
  | none => rw [flushBatch_none s k q h]; rfl
  | some b => rw [flushBatch_eq s k q b h]; simp

@[simp] theorem flushBatch_len (s : State) (k q : Nat) : (s.flushBatch k q).futs.length = s.futs.length := by
  cases h : s.batch? k q with
  | none => rw [flushBatch_none s k q h]; rfl
  | some b => rw [flushBatch_eq s k q b h]; simp

theorem flushBatch_out_stable (s : State) (k q f : Nat) (o : Outcome) (ho : s.out f = some o) :
    (s.flushBatch k q).out f = some o := by
  cases h : s.batch? k q with
  | none => rw [flushBatch_none s k q h]; exact ho
  | some b =>
    rw [flushBatch_eq s k q b h]
    simp only [out_updBatch, out_emit]
    apply finishItems_out_stable
    apply flushItems_out_stable
    simpa using ho

/-- futures that are not items of the batch are not touched -/
theorem flushBatch_fut_notin (s : State) (k q : Nat) (b : Batch) (h : s.batch? k q = some b) (f : Nat)
    (hf : f ∉ b.items) : (s.flushBatch k q).fut f = s.fut f := by
  rw [flushBatch_eq s k q b h]
  simp only [fut_updBatch, fut_emit]
  rw [finishItems_fut_notin _ _ _ f hf, flushItems_fut_notin _ _ _ f hf]
  simp

/-- the kind of a future never changes -/
@[simp] theorem flushBatch_kind (s : State) (k q g : Nat) : ((s.flushBatch k q).fut g).kind = (s.fut g).kind := by
  cases h : s.batch? k q with
  | none => rw [flushBatch_none s k q h]; rfl
  | some b =>
    rw [flushBatch_eq s k q b h]
    simp only [fut_updBatch, fut_emit]
    by_cases hg : g ∈ b.items
    · -- `finishItems` only completes
      have : ∀ (e : Err) (l : List Nat) (x : State), ((x.finishItems e l).fut g).kind = (x.fut g).kind := by
        intro e l
        induction l with
        | nil => intro x; rfl
        | cons i is ih =>
          intro x
          rw [finishItems_cons, ih]
          unfold finishOne
          split
          · rfl
          · simp
      rw [this, flushItems_kind]
      simp
    · rw [finishItems_fut_notin _ _ _ g hg, flushItems_fut_notin _ _ _ g hg]
      simp

/-- every item of the batch is computed afterwards -/
theorem flushBatch_computed (s : State) (k q : Nat) (b : Batch) (h : s.batch? k q = some b) (i : Nat)
    (hi : i ∈ b.items) (hl : i < s.futs.length) : (s.flushBatch k q).computed i = true := by
  rw [flushBatch_eq s k q b h]
  simp only [State.computed, out_updBatch, out_emit]
  exact finishItems_computed _ _ _ i hi (by simpa using hl)

/-- an item that was uncomputed gets exactly the outcome the service behind the batch answers for it -/
theorem flushBatch_out_item (s : State) (k q : Nat) (b : Batch) (h : s.batch? k q = some b) (i k' q' p : Nat)
    (mode : ItemMode) (hi : i ∈ b.items) (hl : i < s.futs.length) (hn : s.out i = none)
    (hk : (s.fut i).kind = .item k' q' p mode) :
    (s.flushBatch k q).out i = some (itemOutcome s.cfg k p mode) := by
  rw [flushBatch_eq s k q b h]
  simp only [out_updBatch, out_emit]
  have hn1 : ((s.switchActive k q).emit (.flushI k q b.items)).out i = none := by simpa using hn
  have hl1 : i < ((s.switchActive k q).emit (.flushI k q b.items)).futs.length := by simpa using hl
  have hk1 : (((s.switchActive k q).emit (.flushI k q b.items)).fut i).kind = .item k' q' p mode := by simpa using hk
  by_cases hm : mode = .unset
  · subst hm
    have h2 := flushItems_out_unset k b.items _ i k' q' p hn1 hk1
    rw [finishItems_out_item _ _ _ i hi h2 (by simpa using hl)]
    simp only [itemOutcome, flushErr]
    split <;> rfl
  · exact finishItems_out_stable _ _ _ i _ (flushItems_out_item s.cfg k b.items _ i k' q' p mode hi hn1 hl1 hk1 hm)

/-- the batch is flushed afterwards -/
theorem flushBatch_batch?_self (s : State) (k q : Nat) (b : Batch) (h : s.batch? k q = some b) :
    (s.flushBatch k q).batch? k q = some (flushUpd s.cfg b) := by
  rw [flushBatch_eq s k q b h, batch?_updBatch _ k q _ (flushUpd_key s.cfg)]
  simp only [and_self, if_true, batch?_emit]
  rw [batch?_of_batches (finishItems_batches _ _ _), batch?_of_batches (flushItems_batches _ _ _), batch?_emit,
    batch?_switchActive_some s k q k q b h]
  rfl

/-- every other existing batch stays as it is -/
theorem flushBatch_batch?_other (s : State) (k q k' q' : Nat) (b' : Batch) (hne : ¬ (k' = k ∧ q' = q))
    (h' : s.batch? k' q' = some b') : (s.flushBatch k q).batch? k' q' = some b' := by
  cases h : s.batch? k q with
  | none => rw [flushBatch_none s k q h]; exact h'
  | some b =>
    rw [flushBatch_eq s k q b h, batch?_updBatch _ k q _ (flushUpd_key s.cfg)]
    simp only [hne, if_false, batch?_emit]
    rw [batch?_of_batches (finishItems_batches _ _ _), batch?_of_batches (flushItems_batches _ _ _), batch?_emit,
      batch?_switchActive_some s k q k' q' b' h']

theorem heapB_switchActive (s : State) (k q : Nat) (h : heapB s) : heapB (s.switchActive k q) := by
  intro b hb i hi
  rw [futs_switchActive]
  rcases batches_switchActive s k q with he | he
  · rw [he] at hb; exact h b hb i hi
  · rw [he] at hb
    rcases List.mem_append.1 hb with hb | hb
    · exact h b hb i hi
    · simp only [List.mem_singleton] at hb
      subst hb
      cases hi

theorem flushBatch_heapB (s : State) (k q : Nat) (h : heapB s) : heapB (s.flushBatch k q) := by
  cases hb : s.batch? k q with
  | none => rw [flushBatch_none s k q hb]; exact h
  | some b =>
    intro b' hb' i hi
    rw [flushBatch_len]
    rw [flushBatch_eq s k q b hb] at hb'
    simp only [State.updBatch, batches_emit, finishItems_batches, flushItems_batches, List.mem_map] at hb'
    obtain ⟨b0, hb0, rfl⟩ := hb'
    have := heapB_switchActive s k q h b0 hb0
    rw [futs_switchActive] at this
    split at hi
    · exact this i (flushUpd_items _ _ i hi)
    · exact this i hi

end AsynqModel.Core.P1
