import AsynqModel.Lib.Asyncio
/-! C15: the observer `spec` reads of a log only what the correspondence check compares (the canonical per-task form
    `canonE` and the first event): two lists of observations with the same view get the same verdict. -/
namespace AsynqModel.Asyncio
open AsynqModel.Core (Val)

/-! ### insertion into / canonical form of a log: membership and per-task sub-logs are kept -/

theorem all_insertE (p : Ev → Bool) (e : Ev) : ∀ l : List Ev, (insertE e l).all p = (p e && l.all p)
  | [] => by simp [insertE]
  | x :: xs => by
    unfold insertE
    split
    · simp
    · simp only [List.all_cons, all_insertE p e xs]
      cases p e <;> cases p x <;> simp

theorem all_canonE (p : Ev → Bool) : ∀ l : List Ev, (canonE l).all p = l.all p
  | [] => rfl
  | x :: xs => by
    have ih := all_canonE p xs
    simp only [canonE, List.foldr_cons] at ih ⊢
    rw [all_insertE, ih]; simp

theorem any_insertE (p : Ev → Bool) (e : Ev) : ∀ l : List Ev, (insertE e l).any p = (p e || l.any p)
  | [] => by simp [insertE]
  | x :: xs => by
    unfold insertE
    split
    · simp
    · simp only [List.any_cons, any_insertE p e xs]
      cases p e <;> cases p x <;> simp

theorem any_canonE (p : Ev → Bool) : ∀ l : List Ev, (canonE l).any p = l.any p
  | [] => rfl
  | x :: xs => by
    have ih := any_canonE p xs
    simp only [canonE, List.foldr_cons] at ih ⊢
    rw [any_insertE, ih]; simp

/-- the sub-log of task `t` after inserting `e`: `e` goes IN FRONT of the events of its own task -/
theorem filter_insertE (t : Nat) (e : Ev) : ∀ l : List Ev,
    (insertE e l).filter (fun x => x.label == t) =
      if e.label == t then e :: l.filter (fun x => x.label == t) else l.filter (fun x => x.label == t)
  | [] => by
    simp only [insertE, List.filter_cons, List.filter_nil]
  | x :: xs => by
    unfold insertE
    split
    · simp only [List.filter_cons]
    · rename_i hlt
      simp only [List.filter_cons, filter_insertE t e xs]
      by_cases he : e.label = t
      · have hx : ¬ (x.label = t) := by intro hx; omega
        simp [he, hx]
      · simp [he]

/-- the canonical form keeps every per-task sub-log -/
theorem filter_canonE (t : Nat) : ∀ l : List Ev,
    (canonE l).filter (fun x => x.label == t) = l.filter (fun x => x.label == t)
  | [] => rfl
  | x :: xs => by
    have ih := filter_canonE t xs
    simp only [canonE, List.foldr_cons] at ih ⊢
    rw [filter_insertE, ih]
    simp only [List.filter_cons]

/-! ### the projection commutes with the canonical form -/

def SortedE (l : List Ev) : Prop := List.Pairwise (fun a b => a.label ≤ b.label) l

theorem mem_insertE {e y : Ev} : ∀ {l : List Ev}, y ∈ insertE e l → y = e ∨ y ∈ l
  | [], h => by simp [insertE] at h; exact .inl h
  | x :: xs, h => by
    unfold insertE at h
    split at h
    · simpa using h
    · simp only [List.mem_cons] at h ⊢
      rcases h with h | h
      · exact .inr (.inl h)
      · rcases mem_insertE h with h | h
        · exact .inl h
        · exact .inr (.inr h)

theorem sorted_insertE (e : Ev) : ∀ l : List Ev, SortedE l → SortedE (insertE e l)
  | [], _ => by simp [insertE, SortedE]
  | x :: xs, h => by
    unfold insertE
    have hx := List.pairwise_cons.mp h
    split
    · rename_i hle
      refine List.pairwise_cons.mpr ⟨?_, h⟩
      intro y hy
      rcases List.mem_cons.mp hy with hy | hy
      · subst hy; exact hle
      · exact Nat.le_trans hle (hx.1 y hy)
    · rename_i hlt
      refine List.pairwise_cons.mpr ⟨?_, sorted_insertE e xs hx.2⟩
      intro y hy
      rcases mem_insertE hy with hy | hy
      · subst hy; omega
      · exact hx.1 y hy

theorem sorted_canonE : ∀ l : List Ev, SortedE (canonE l)
  | [] => List.Pairwise.nil
  | x :: xs => by
    have ih := sorted_canonE xs
    simp only [canonE, List.foldr_cons] at ih ⊢
    exact sorted_insertE x _ ih

theorem projEv_label {e : Ev} {pe : PEv} (h : projEv e = some pe) : pe.label = e.label := by
  cases e <;> simp [projEv] at h <;> subst h <;> rfl

/-- inserting in front of a list all of whose labels are not smaller -/
theorem insertP_front (pe : PEv) : ∀ l : List PEv, (∀ y ∈ l, pe.label ≤ y.label) → insertP pe l = pe :: l
  | [], _ => rfl
  | y :: ys, h => by simp [insertP, h y List.mem_cons_self]

theorem proj_insertE_none {e : Ev} (h : projEv e = none) : ∀ l : List Ev, proj (insertE e l) = proj l
  | [] => by simp [insertE, proj, h]
  | x :: xs => by
    unfold insertE
    split
    · simp [proj, h]
    · have ih := proj_insertE_none h xs
      simp only [proj, List.filterMap_cons] at ih ⊢
      rw [ih]

theorem proj_insertE_some {e : Ev} {pe : PEv} (h : projEv e = some pe) : ∀ l : List Ev, SortedE l →
    proj (insertE e l) = insertP pe (proj l)
  | [], _ => by simp [insertE, proj, h, insertP]
  | x :: xs, hs => by
    have hx := List.pairwise_cons.mp hs
    have hl := projEv_label h
    unfold insertE
    split
    · rename_i hle
      have hfront : ∀ y ∈ proj (x :: xs), pe.label ≤ y.label := by
        intro y hy
        simp only [proj, List.mem_filterMap] at hy
        obtain ⟨z, hz, hzy⟩ := hy
        rw [hl, projEv_label hzy]
        rcases List.mem_cons.mp hz with hz | hz
        · subst hz; exact hle
        · exact Nat.le_trans hle (hx.1 z hz)
      rw [insertP_front pe _ hfront]
      simp [proj, h]
    · rename_i hlt
      have ih := proj_insertE_some h xs hx.2
      cases hpx : projEv x with
      | none =>
        simp only [proj, List.filterMap_cons, hpx] at ih ⊢
        exact ih
      | some px =>
        have hlx := projEv_label hpx
        simp only [proj, List.filterMap_cons, hpx] at ih ⊢
        rw [ih]
        have : ¬ (pe.label ≤ px.label) := by rw [hl, hlx]; exact hlt
        simp [insertP, this]

/-- **the projection of the canonical log is the canonical projection** -/
theorem proj_canonE : ∀ l : List Ev, proj (canonE l) = canonP (proj l)
  | [] => rfl
  | x :: xs => by
    have ih := proj_canonE xs
    have hs := sorted_canonE xs
    simp only [canonE, List.foldr_cons] at ih hs ⊢
    cases hpx : projEv x with
    | none =>
      rw [proj_insertE_none hpx, ih]
      simp [proj, hpx]
    | some px =>
      rw [proj_insertE_some hpx _ hs, ih]
      simp [proj, hpx, canonP]

/-! ### equal views, equal verdicts -/

theorem rootOk_congr {a b : Obs} (hout : a.out = b.out) (hhead : a.log.head? = b.log.head?)
    (hc : canonE a.log = canonE b.log) : rootOk a = rootOk b := by
  have hf : ∀ t, a.log.filter (fun x => x.label == t) = b.log.filter (fun x => x.label == t) := by
    intro t; rw [← filter_canonE t a.log, ← filter_canonE t b.log, hc]
  unfold rootOk
  cases ha : a.log with
  | nil =>
    cases hb : b.log with
    | nil => rfl
    | cons y ys => rw [ha, hb] at hhead; simp at hhead
  | cons x xs =>
    cases hb : b.log with
    | nil => rw [ha, hb] at hhead; simp at hhead
    | cons y ys =>
      have hxy : x = y := by rw [ha, hb] at hhead; simpa using hhead
      subst hxy
      simp only
      rw [← ha, ← hb, hf x.label, hout]

theorem specObs_congr (ref : Out) (refC : List PEv) {a b : Obs} (h : sameView a b = true) :
    specObs ref refC a = specObs ref refC b := by
  simp only [sameView, Bool.and_eq_true, beq_iff_eq] at h
  obtain ⟨⟨⟨⟨⟨⟨hconv, hbef⟩, hout⟩, haft⟩, hcan⟩, hhead⟩, hc⟩ := h
  have hall : ∀ p : Ev → Bool, a.log.all p = b.log.all p := by
    intro p; rw [← all_canonE p a.log, ← all_canonE p b.log, hc]
  have hany : ∀ p : Ev → Bool, a.log.any p = b.log.any p := by
    intro p; rw [← any_canonE p a.log, ← any_canonE p b.log, hc]
  have hproj : canonP (proj a.log) = canonP (proj b.log) := by
    rw [← proj_canonE a.log, ← proj_canonE b.log, hc]
  have hroot := rootOk_congr hout hhead hc
  unfold specObs
  rw [hall noBad, hall dcOk, hall syncRefusedOk, hall syncAllowedOk, hany isSyncX, hconv, hall (modeSeen b.conv.isAio),
    hbef, haft, hcan, hout, hproj, hroot]

theorem specList_congr (ref : Out) (refC : List PEv) : ∀ {as bs : List Obs}, sameViews as bs = true →
    specList ref refC as = specList ref refC bs
  | [], [], _ => rfl
  | a :: as, b :: bs, h => by
    simp only [sameViews, Bool.and_eq_true] at h
    simp only [specList, specObs_congr ref refC h.1, specList_congr ref refC h.2]
  | [], _ :: _, h => by simp [sameViews] at h
  | _ :: _, [], h => by simp [sameViews] at h

theorem sameViews_convs : ∀ {as bs : List Obs}, sameViews as bs = true → as.map (·.conv) = bs.map (·.conv)
  | [], [], _ => rfl
  | a :: as, b :: bs, h => by
    simp only [sameViews, Bool.and_eq_true] at h
    have h1 := h.1
    simp only [sameView, Bool.and_eq_true, beq_iff_eq] at h1
    simp only [List.map_cons, h1.1.1.1.1.1.1, sameViews_convs h.2]
  | [], _ :: _, h => by simp [sameViews] at h
  | _ :: _, [], h => by simp [sameViews] at h

/-- **CORR = ok implies SPEC = SPECM**: if the correspondence check finds nothing to distinguish the model's observations
    from the implementation's (same fields, same first event, same canonical per-task log for each way of running), the
    observer gives both the same verdict, clause for clause -/
theorem specClause_congr {as bs : List Obs} (h : sameViews as bs = true) : specClause as = specClause bs := by
  unfold specClause convsPresent
  rw [sameViews_convs h]
  cases as with
  | nil =>
    cases bs with
    | nil => rfl
    | cons b bs => simp [sameViews] at h
  | cons a as =>
    cases bs with
    | nil => simp [sameViews] at h
    | cons b bs =>
      have h' := h
      simp only [sameViews, Bool.and_eq_true] at h'
      have h1 := h'.1
      simp only [sameView, Bool.and_eq_true, beq_iff_eq] at h1
      have hproj : canonP (proj a.log) = canonP (proj b.log) := by
        rw [← proj_canonE a.log, ← proj_canonE b.log, h1.2]
      simp only
      rw [h1.1.1.1.1.2, hproj, specList_congr _ _ h]

/-! ### the program-aware clauses read the same view -/

theorem sameView_right (m : Obs) {a b : Obs} (h : sameView a b = true) : sameView m a = sameView m b := by
  simp only [sameView, Bool.and_eq_true, beq_iff_eq] at h
  obtain ⟨⟨⟨⟨⟨⟨hconv, hbef⟩, hout⟩, haft⟩, hcan⟩, hhead⟩, hc⟩ := h
  unfold sameView
  rw [hconv, hbef, hout, haft, hcan, hhead, hc]

theorem specObsPL_congr (L : List Nat) (m : Obs) {a b : Obs} (h : sameView a b = true) :
    specObsPL L m a = specObsPL L m b := by
  have hs := sameView_right m h
  simp only [sameView, Bool.and_eq_true, beq_iff_eq] at h
  obtain ⟨⟨⟨⟨⟨⟨hconv, _⟩, _⟩, _⟩, _⟩, _⟩, hc⟩ := h
  unfold specObsPL
  rw [hconv, hc, hs]

theorem specListP_congr (L : List Nat) : ∀ (ms : List Obs) {as bs : List Obs}, sameViews as bs = true →
    specListP L ms as = specListP L ms bs
  | [], [], [], _ => rfl
  | [], _ :: _, _ :: _, _ => by simp [specListP]
  | _ :: _, [], [], _ => by simp [specListP]
  | m :: ms, a :: as, b :: bs, h => by
    simp only [sameViews, Bool.and_eq_true] at h
    simp only [specListP, specObsPL_congr L m h.1, specListP_congr L ms h.2]
  | _, [], _ :: _, h => by simp [sameViews] at h
  | _, _ :: _, [], h => by simp [sameViews] at h

/-- the whole observer, program-aware clauses included, reads of the observations only what the correspondence check compares -/
theorem specClauseP_congr (c : Call) (p : Prog) {as bs : List Obs} (h : sameViews as bs = true) :
    specClauseP c p as = specClauseP c p bs := by
  unfold specClauseP specClausePWith
  rw [specClause_congr h, specListP_congr _ _ h]

end AsynqModel.Asyncio
