import AsynqModel.Proofs.P20Phi
import AsynqModel.Proofs.P10Rank
import AsynqModel.Proofs.P6TFinal
/-
  P20 (termination with synchronous re-entry), part 7: the lexicographic measure
  `(M1, M2, cfl, phase, Phi)` decreases with every step of a well-scoped run without NonAsyncContext that is not
  finished, not stuck and in which the MAX_TASK_STACK_SIZE guard does not fire - synchronous calls (nested `wait_for`
  frames) included; hence every such run finishes.

  * `M1` remaining program weight (`P20M.lean`): every instruction, every start of a top-level computation;
  * `M2` number of unflushed non-empty batches: every scheduler flush that finds a batch;
  * `cfl` = 0 if the current pass is `Clean`, else 1: a scheduler flush that finds NO batch (possible only when a
    nested `wait_for` has disturbed the pass) starts a clean pass;
  * `phase`: head of the control stack - `wait_for` head (4), `_execute` (3), generator (2), outside (1 / 0);
  * `Phi`: the potential of a scheduler pass (`P20Phi.lean`) w.r.t. the post-order rank of the creation forest.
  The nested scheduler loops need no lexicographic product over the control stack: whenever the control stack changes
  otherwise than by `waitEnter ↔ waitLoop` of its head, the next step is an instruction (`M1` decreases) or the
  phase has decreased.
-/
namespace AsynqModel.Core.P20
open AsynqModel.Core AsynqModel.Core.P6 AsynqModel.Core.P6T

/-! ### the measure -/

open Classical in
/-- 0 if the current scheduler pass is clean, else 1 -/
noncomputable def cfl (s : State) : Nat := if Clean s then 0 else 1

theorem cfl_zero {s : State} (h : Clean s) : cfl s = 0 := by unfold cfl; rw [if_pos h]
theorem cfl_one {s : State} (h : ¬ Clean s) : cfl s = 1 := by unfold cfl; rw [if_neg h]
theorem cfl_le_one (s : State) : cfl s ≤ 1 := by unfold cfl; split <;> omega
theorem cfl_le_of {s r : State} (h : Clean s → Clean r) : cfl r ≤ cfl s := by
  by_cases hc : Clean s
  · rw [cfl_zero hc, cfl_zero (h hc)]; exact Nat.le_refl _
  · rw [cfl_one hc]; exact cfl_le_one r

def phase (s : State) : Nat :=
  match s.ctl with
  | [] => if s.curTop.isSome then 1 else 0
  | .gen _ _ :: _ => 2
  | .waitLoop _ _ :: _ => 3
  | .waitEnter _ :: _ => 4

theorem phase_onGen {s : State} (h : P10.onGen s.ctl) : phase s ≤ 2 := by
  unfold phase
  rcases h with h | ⟨t, o, r', h⟩ <;> rw [h] <;> dsimp only
  split <;> omega
  exact Nat.le_refl _

noncomputable def mu (s : State) (p : Nat → List Nat) : T5 :=
  (M1 s, M2 s, cfl s, phase s, PhiR (P10.rankOf s p) s)

theorem lt5_c {a b c d e a' b' c' d' e' : Nat} (h : a' ≤ a) (h2 : b' = b) (h3 : c' ≤ c) (h4 : d' < d) :
    Lt5 (a', b', c', d', e') (a, b, c, d, e) := by
  rcases Nat.lt_or_eq_of_le h3 with h3 | h3
  · exact lt5_3 h h2 h3
  · exact lt5_4 h h2 h3 h4

theorem lt5_ce {a b c d e a' b' c' d' e' : Nat} (h : a' ≤ a) (h2 : b' = b) (h3 : c' ≤ c) (h4 : d' = d) (h5 : e' < e) :
    Lt5 (a', b', c', d', e') (a, b, c, d, e) := by
  rcases Nat.lt_or_eq_of_le h3 with h3 | h3
  · exact lt5_3 h h2 h3
  · exact lt5_5 h h2 h3 h4 h5

theorem rankOf_congr {s r : State} (hl : r.futs.length = s.futs.length) (p : Nat → List Nat) :
    P10.rankOf r p = P10.rankOf s p := by
  funext x
  unfold P10.rankOf
  rw [hl]

theorem pathOK_of_own {s r : State} {p : Nat → List Nat} (h : ∀ f, (view r f).own = (view s f).own)
    (hp : P10.PathOK s p) : P10.PathOK r p := by
  intro t i y hy
  have : (r.task t).own = (s.task t).own := h t
  rw [this] at hy
  exact hp t i y hy

theorem pathOK_same {s r : State} {p : Nat → List Nat} (e : Same s r) (hp : P10.PathOK s p) : P10.PathOK r p :=
  pathOK_of_own (fun f => by rw [e.view]) hp

theorem pathOK_upd1 {s r : State} {p : Nat → List Nat} {t : Nat} {v' : FV} (U : Upd1S s r t v')
    (h : v'.own = (view s t).own) (hp : P10.PathOK s p) : P10.PathOK r p := by
  refine pathOK_of_own (fun f => ?_) hp
  rcases U.view_cases f with ⟨rfl, e⟩ | ⟨_, e⟩
  · rw [e]; exact h
  · rw [e]

/-! ### the run invariant -/

structure Good (s : State) : Prop where
  ws : P10.WSReach s
  o : InvO s
  stuck : s.stuck = none
  guard : s.guardFired = false

theorem Good.raising {s : State} (h : Good s) : s.raising = none := (P3.reach_core s h.ws.reach h.guard).1.raising
theorem Good.hinv {s : State} (h : Good s) : P10.HInv s := (P10.ws_hinv h.ws).1
theorem Good.cinv {s : State} (h : Good s) : P10.CInv s := P10.ws_cinv h.ws h.guard

theorem Good.gen {s : State} (h : Good s) {t : Nat} {old : Option Nat} {rest : List Ctl}
    (hctl : s.ctl = .gen t old :: rest) : (view s t).kind = .task ∧ (view s t).out = none := by
  have pin := P2.pinv_reach h.ws.reach
  have hm : t ∈ P2.gens s.ctl := by rw [hctl]; simp [P2.gens]
  exact ⟨pin.genKind t hm, pin.live t hm⟩

theorem good_step {s : State} (h : Good s) (hst : (step s).stuck = none) (hg : (step s).guardFired = false) :
    Good (step s) := by
  refine ⟨P10.WSReach.step h.ws, ?_, hst, hg⟩
  by_cases hng : ∀ t old rest, s.ctl ≠ .gen t old :: rest
  · exact invO_desc h.o (P10.ws_hinv h.ws).2
      (step_desc s h.stuck h.raising h.o.noNA (fun t old rest hc => absurd hc (hng t old rest)) hst hg) hng
  · have : ∃ t old rest, s.ctl = .gen t old :: rest := by
      apply Classical.byContradiction
      intro hn
      exact hng (fun t old rest hc => hn ⟨t, old, rest, hc⟩)
    obtain ⟨t, old, rest, hctl⟩ := this
    have e := step_gen s h.stuck h.raising hctl
    rw [e] at hst ⊢
    exact invO_gd h.o (genStep_gd s t old (h.gen hctl).1 (h.o.nf t) (h.hinv.ws t) hst)

/-! ### one iteration of `_execute` -/

theorem mu_iter {s : State} {p : Nat → List Nat} (h : Good s) (hp : P10.PathOK s p) {root base : Nat} {rest : List Ctl}
    (hctl : s.ctl = .waitLoop root base :: rest) (hlen : s.stack.length > base)
    (hst : (step s).stuck = none) (hg : (step s).guardFired = false) :
    P10.PathOK (step s) p ∧ Lt5 (mu (step s) p) (mu s p) := by
  have hs := h.stuck
  have hr := h.raising
  have hO := h.o
  have hC := h.cinv
  have hH := h.hinv
  have hng : ∀ t old rest', s.ctl ≠ .gen t old :: rest' := by intro t old rest' hc; rw [hctl] at hc; cases hc
  have hnf : ¬ IsFlush s := by
    rintro ⟨root', base', rest', h1, h2, _⟩
    rw [hctl] at h1
    injection h1 with h1 _
    injection h1 with _ h1
    omega
  have hcl : Clean s → Clean (step s) := clean_step s hs hr hO hC hH hng hnf hst hg
  have hcfl : cfl (step s) ≤ cfl s := cfl_le_of hcl
  have hrest : P10.onGen rest := by
    have := hC.disc
    rw [hctl] at this
    exact this.2.1
  have e := step_waitLoop_iter s hs hr hctl hlen
  have hph : phase s = 3 := by unfold phase; rw [hctl]
  rw [e] at hst hg hcfl ⊢
  have hprog := executeIter_progress s hO.noNA hst hg
  have d := executeIter_desc s ⟨root, base, rest, hctl⟩ hO.noNA hst hg
  have hM1 : M1 s.executeIter ≤ M1 s := M1_desc_le d hng
  have hphase : ∀ r : State, r.ctl = s.ctl → phase r = phase s := by
    intro r hrc; unfold phase; rw [hrc, hctl]
  unfold mu
  cases d with
  | quiet e' hst' hctl' =>
    rcases hprog with h1 | h1
    · rw [hst'] at h1; exact absurd rfl h1
    · rw [hctl'] at h1; exact absurd rfl h1
  | top conv body rest' htops hctl0 U htops' hctl' => rw [hctl] at hctl0; cases hctl0
  | ret root' hw hroot e' hst' hctl' =>
    refine ⟨pathOK_same e' hp, lt5_c hM1 (M2_of_batches e'.batches) hcfl ?_⟩
    have : phase s.executeIter ≤ 2 := phase_onGen (by rw [hctl', hctl]; exact hrest)
    omega
  | enterLoop root' rest' hctl0 _ _ _ _ => rw [hctl] at hctl0; cases hctl0
  | pop hw top' st' hstk hcase e' hst' hctl' =>
    refine ⟨pathOK_same e' hp, lt5_ce hM1 (M2_of_batches e'.batches) hcfl (hphase _ hctl') ?_⟩
    rw [rankOf_congr e'.len]
    have hB' : Bof s.executeIter = Bof s := Bof_of_views e'.len e'.view
    refine PhiR_pop hB' hstk hst' (fun x _ => e'.view x) ?_
    intro A A' _
    unfold ewR
    rw [hB', e'.view]
    unfold ewp
    have hn : ¬ ((view s top').kind = .task ∧ (view s top').out = none) := by
      intro ⟨h1, h2⟩
      rcases hcase with hc | ⟨_, k, q, p, m, hk⟩
      · rw [uncomputed_of_out_none h2] at hc; cases hc
      · rw [hk] at h1; cases h1
    rw [if_neg hn, if_neg hn]
  | popLazy hw top' st' hstk lo hk hc U hst' hctl' =>
    have hB' : Bof s.executeIter = Bof s := Bof_upd1 U (by unfold depTerm doneView; rw [hk]; simp)
    refine ⟨pathOK_upd1 U rfl hp, lt5_ce hM1 (M2_of_batches U.batches) hcfl (hphase _ hctl') ?_⟩
    rw [rankOf_congr U.len]
    refine PhiR_pop hB' hstk hst' U.viewO ?_
    intro A A' _
    unfold ewR ewp
    rw [U.viewT]
    have h1 : ¬ ((doneView (lazyOutcome lo) (view s top')).kind = .task ∧
        (doneView (lazyOutcome lo) (view s top')).out = none) := by
      intro ⟨h1, _⟩
      have : (view s top').kind = .task := h1
      rw [hk] at this; cases this
    have h2 : ¬ ((view s top').kind = .task ∧ (view s top').out = none) := by
      intro ⟨h1, _⟩; rw [hk] at h1; cases h1
    rw [if_neg h1, if_neg h2]
  | second hw top' st' hstk hk hc hbl hfl U hst' hctl' =>
    have hB' : Bof s.executeIter = Bof s := Bof_upd1 U (by unfold depTerm flagView; rfl)
    refine ⟨pathOK_upd1 U rfl hp, lt5_ce hM1 (M2_of_batches U.batches) hcfl (hphase _ hctl') ?_⟩
    rw [rankOf_congr U.len]
    refine PhiR_pop hB' hstk hst' U.viewO ?_
    intro A A' hmem
    unfold ewR
    rw [hB', U.viewT]
    refine ewp_congr rfl rfl (fun _ _ => ?_)
    constructor
    · intro h; cases h.1
    · intro h; exact absurd hmem h.2
  | first hw top' st' hstk hk hc hbl hfl U hst' hctl' =>
    have hB' : Bof s.executeIter = Bof s := Bof_upd1 U (by unfold depTerm flagView; rfl)
    refine ⟨pathOK_upd1 U rfl hp, lt5_ce hM1 (M2_of_batches U.batches) hcfl (hphase _ hctl') ?_⟩
    rw [rankOf_congr U.len]
    refine PhiR_first hB' hstk (lt_of_view_task s top' hk) hk hc hfl U.viewT U.viewO hst' ?_ ?_
    · intro d hd
      have hn := hH.deps top' d hd
      exact P10.rankOf_lt hp (hH.named_lt hn) (hH.named_bound hn)
    · intro d hd hx
      exact no_flagged_dep hC hH hstk hd hx
  | enterGen hw top' st' hstk hk hc hnb e' hst' a hctl' =>
    refine ⟨pathOK_same e' hp, lt5_c hM1 (M2_of_batches e'.batches) hcfl ?_⟩
    have : phase s.executeIter = 2 := by unfold phase; rw [hctl']
    omega
  | gen t old rest' hctl0 _ => rw [hctl] at hctl0; cases hctl0
  | flush root' base' rest' hctl0 hlen' _ _ _ =>
    rw [hctl] at hctl0
    injection hctl0 with h1 _
    injection h1 with _ h2
    subst h2
    omega

/-! ### the scheduler flush -/

theorem schedulerFlush_empty (s : State) (root : Nat) (h : s.flushable = []) :
    s.schedulerFlush root = { s with sbatches := [], ctl := .waitEnter root :: s.ctl.tail } := by
  unfold State.schedulerFlush
  simp [h]

theorem mu_flush {s : State} {p : Nat → List Nat} (h : Good s) (hp : P10.PathOK s p) {root base : Nat}
    {rest : List Ctl} (hctl : s.ctl = .waitLoop root base :: rest) (hlen : s.stack.length ≤ base)
    (hroot : s.computed root = false) (hst : (step s).stuck = none) :
    P10.PathOK (step s) p ∧ Lt5 (mu (step s) p) (mu s p) := by
  have hs := h.stuck
  have hr := h.raising
  have e := step_waitLoop_flush s hs hr hctl hlen hroot
  rw [e] at hst ⊢
  have F := (schedulerFlush_desc s root hst).1
  have hpath : P10.PathOK (s.schedulerFlush root) p := by
    refine pathOK_of_own (fun f => ?_) hp
    rcases F.view f with e1 | ⟨_, o, e1⟩ <;> rw [e1] <;> rfl
  refine ⟨hpath, ?_⟩
  have hM1 : M1 (s.schedulerFlush root) ≤ M1 s := M1_flushDesc_le F
  unfold mu
  by_cases hfl : s.flushable = []
  · -- no batch: the pass was not clean; the next one is
    have hnc : ¬ Clean s := fun hc => flushable_ne_nil hc hctl hlen hroot hfl
    refine lt5_3 hM1 ?_ ?_
    · rw [schedulerFlush_empty s root hfl]; rfl
    · rw [cfl_one hnc, cfl_zero]
      · exact Nat.lt_succ_self _
      · refine clean_of_noLoop ?_
        intro r0 b0 rest0 h0
        rw [schedulerFlush_empty s root hfl] at h0
        cases h0
  · refine lt5_2 hM1 ?_
    rcases P1.schedulerFlush_cases s root hfl with ⟨m, hm, _⟩ | ⟨c, b, _, hadm, hbc, hfw⟩
    · rw [hm] at hst; simp [State.fail] at hst
    · have hcf := (P1.admissible_spec s c hadm).1
      obtain ⟨_, b', hb', hne, hunf⟩ := (P1.mem_flushable s c.1 c.2).1 hcf
      rw [hbc] at hb'; cases hb'
      rw [hfw] at hst ⊢
      unfold P1.flushWith at hst ⊢
      obtain ⟨_, _, _, _, hFB⟩ := flushBatch_desc _ c.1 c.2 hst
      unfold M2
      refine M2_flush hFB (b := b) hbc ?_
      unfold liveB
      rw [hunf]
      cases hi : b.items with
      | nil => exact absurd hi hne
      | cons _ _ => rfl

/-! ### every step -/

/-- every step of an unfinished run decreases the measure (the addressing `p` of the creation forest changes only
    when a future is created) -/
theorem mu_step {s : State} {p : Nat → List Nat} (h : Good s) (hp : P10.PathOK s p) (hnd : s.isDone = false)
    (hst : (step s).stuck = none) (hg : (step s).guardFired = false) :
    ∃ p', P10.PathOK (step s) p' ∧ Lt5 (mu (step s) p') (mu s p) := by
  have hs := h.stuck
  have hr := h.raising
  have hO := h.o
  have hC := h.cinv
  have hH := h.hinv
  have hG' := good_step h hst hg
  obtain ⟨p0, hp0⟩ := hG'.hinv.path
  cases hctl : s.ctl with
  | nil =>
    have hng : ∀ t old rest, s.ctl ≠ .gen t old :: rest := by intro t old rest hc; rw [hctl] at hc; cases hc
    have hcs : Clean s := clean_of_noLoop (by intro r0 b0 rest0 h0; rw [hctl] at h0; cases h0)
    cases hcur : s.curTop with
    | some f =>
      have e := step_nil_some s hs hctl f hcur
      have hsame : Same s (step s) := by rw [e]; exact ⟨rfl, fun _ => rfl, rfl, rfl, id⟩
      have hctl' : (step s).ctl = [] := by rw [e]; simp [State.finishTop, State.emit, hctl]
      refine ⟨p, pathOK_same hsame hp, ?_⟩
      unfold mu
      refine lt5_c (Nat.le_of_eq (M1_same hsame)) (M2_of_batches hsame.batches) ?_ ?_
      · exact cfl_le_of (fun _ => clean_of_noLoop (by intro r0 b0 rest0 h0; rw [hctl'] at h0; cases h0))
      · have h1 : phase (step s) = 0 := by rw [e]; unfold phase State.finishTop; simp [State.emit, hctl]
        have h2 : phase s = 1 := by unfold phase; rw [hctl, hcur]; rfl
        omega
    | none =>
      cases htops : s.tops with
      | nil => simp [State.isDone, hs, hctl, hcur, htops] at hnd
      | cons q rest =>
        obtain ⟨conv, body⟩ := q
        refine ⟨p0, hp0, lt5_1 ?_⟩
        have e : step s = { ((({ s with tops := rest, topIdx := s.topIdx + 1 } : State).emit (.top s.topIdx conv)).newTask body []).1 with
            curTop := some ((({ s with tops := rest, topIdx := s.topIdx + 1 } : State).emit (.top s.topIdx conv)).newTask body []).2,
            ctl := [.waitEnter ((({ s with tops := rest, topIdx := s.topIdx + 1 } : State).emit (.top s.topIdx conv)).newTask body []).2] } := by
          unfold step; simp [hs, hctl, hcur, htops]
        have U := updN_newTask s (({ s with tops := rest, topIdx := s.topIdx + 1 } : State).emit (.top s.topIdx conv))
          rfl rfl rfl rfl body []
        rw [e]
        exact M1_top htops ⟨U.len, U.viewN, U.viewO, U.batches, U.stack, U.noNA⟩ rfl
  | cons c rest =>
    cases c with
    | gen t old =>
      have e := step_gen s hs hr hctl
      refine ⟨p0, hp0, lt5_1 ?_⟩
      rw [e] at hst ⊢
      obtain ⟨hk, ho⟩ := h.gen hctl
      exact M1_gd hO hk ho (genStep_gd s t old hk (hO.nf t) (hH.ws t) hst)
    | waitEnter root =>
      have hng : ∀ t old rest', s.ctl ≠ .gen t old :: rest' := by intro t old rest' hc; rw [hctl] at hc; cases hc
      have hnf : ¬ IsFlush s := by
        rintro ⟨root', base', rest', h1, _, _⟩
        rw [hctl] at h1; cases h1
      have hcl : Clean s → Clean (step s) := clean_step s hs hr hO hC hH hng hnf hst hg
      have hph : phase s = 4 := by unfold phase; rw [hctl]
      have hrest : P10.onGen rest := by
        have := hC.disc
        rw [hctl] at this
        exact this.1
      cases hcr : s.computed root with
      | true =>
        have e := step_waitEnter_ret s hs hr hctl hcr
        have hsame : Same s (step s) := by rw [e]; exact ⟨rfl, fun _ => rfl, rfl, rfl, id⟩
        refine ⟨p, pathOK_same hsame hp, ?_⟩
        unfold mu
        refine lt5_c (Nat.le_of_eq (M1_same hsame)) (M2_of_batches hsame.batches) (cfl_le_of hcl) ?_
        have : phase (step s) ≤ 2 := phase_onGen (by rw [e]; simp [State.returnFromWait, hctl]; exact hrest)
        omega
      | false =>
        have e := step_waitEnter_loop s hs hr hctl hcr
        have hsame : Same s (step s) := by rw [e]; exact ⟨rfl, fun _ => rfl, rfl, rfl, id⟩
        refine ⟨p, pathOK_same hsame hp, ?_⟩
        unfold mu
        refine lt5_c (Nat.le_of_eq (M1_same hsame)) (M2_of_batches hsame.batches) (cfl_le_of hcl) ?_
        have : phase (step s) = 3 := by rw [e]; unfold phase; simp
        omega
    | waitLoop root base =>
      by_cases hlen : s.stack.length > base
      · exact ⟨p, mu_iter h hp hctl hlen hst hg⟩
      · have hle : s.stack.length ≤ base := by omega
        have hph : phase s = 3 := by unfold phase; rw [hctl]
        have hrest : P10.onGen rest := by
          have := hC.disc
          rw [hctl] at this
          exact this.2.1
        cases hcr : s.computed root with
        | true =>
          have e := step_waitLoop_ret s hs hr hctl hle hcr
          have hsame : Same s (step s) := by rw [e]; exact ⟨rfl, fun _ => rfl, rfl, rfl, id⟩
          have hng : ∀ t old rest', s.ctl ≠ .gen t old :: rest' := by intro t old rest' hc; rw [hctl] at hc; cases hc
          have hnf : ¬ IsFlush s := by
            rintro ⟨root', base', rest', h1, _, h3⟩
            rw [hctl] at h1
            injection h1 with h1 _
            injection h1 with h1 _
            subst h1
            rw [hcr] at h3; cases h3
          have hcl : Clean s → Clean (step s) := clean_step s hs hr hO hC hH hng hnf hst hg
          refine ⟨p, pathOK_same hsame hp, ?_⟩
          unfold mu
          refine lt5_c (Nat.le_of_eq (M1_same hsame)) (M2_of_batches hsame.batches) (cfl_le_of hcl) ?_
          have : phase (step s) ≤ 2 := phase_onGen (by rw [e]; simp [State.returnFromWait, hctl]; exact hrest)
          omega
        | false => exact ⟨p, mu_flush h hp hctl hle hcr hst⟩

/-! ### termination -/

theorem terminates_aux : ∀ (m : T5) (s : State) (p : Nat → List Nat), Good s → P10.PathOK s p →
    (∀ n, (runFuel n s).guardFired = false) → mu s p = m → ∃ n, (runFuel n s).isDone = true := by
  intro m
  induction m using lt5_wf.induction with
  | _ m ih =>
    intro s p hG hp hgd hm
    cases hd : s.isDone with
    | true => exact ⟨0, hd⟩
    | false =>
      have hg1 : (step s).guardFired = false := by
        have := hgd 1
        rw [runFuel_succ_of_not_done 0 s hd] at this
        exact this
      cases hst : (step s).stuck with
      | some msg =>
        refine ⟨1, ?_⟩
        rw [runFuel_succ_of_not_done 0 s hd]
        show (step s).isDone = true
        simp [State.isDone, hst]
      | none =>
        obtain ⟨p', hp', hlt⟩ := mu_step hG hp hd hst hg1
        rw [hm] at hlt
        obtain ⟨n, hn⟩ := ih _ hlt (step s) p' (good_step hG hst hg1) hp'
          (fun n => by have := hgd (n + 1); rw [runFuel_succ_of_not_done n s hd] at this; exact this) rfl
        exact ⟨n + 1, by rw [runFuel_succ_of_not_done n s hd]; exact hn⟩

/-! ### the initial state; the static hypothesis -/

theorem good_init (cfg : Cfg) (tops : List (Conv × Body)) (choices : List (Nat × Nat))
    (hws : ∀ p ∈ tops, P10.WellScoped p.2 0 0 = true) (hna : ∀ p ∈ tops, bNF p.2) :
    Good (initState cfg tops choices) :=
  ⟨P10.WSReach.init cfg tops choices hws, invO_init cfg tops choices hna, rfl, rfl⟩

theorem pathOK_init (cfg : Cfg) (tops : List (Conv × Body)) (choices : List (Nat × Nat)) :
    P10.PathOK (initState cfg tops choices) (fun _ => []) := by
  intro t i y hy
  have : (initState cfg tops choices).task t = {} := P10.task_default _ t (Nat.zero_le _)
  rw [this] at hy
  simp at hy

theorem good_runFuel {s : State} (h : Good s) (hg : ∀ n, (runFuel n s).guardFired = false) :
    ∀ n, (runFuel n s).stuck = none → Good (runFuel n s) := by
  intro n
  induction n with
  | zero => intro _; exact h
  | succ n ih =>
    intro hst
    rw [runFuel_succ'] at hst ⊢
    split
    · rename_i hd; rw [if_pos hd] at hst; exact ih hst
    · rename_i hd
      rw [if_neg hd] at hst
      have hs : (runFuel n s).stuck = none := P1.stuck_of_step _ hst
      have hg' : (step (runFuel n s)).guardFired = false := by
        have := hg (n + 1)
        rw [runFuel_succ', if_neg hd] at this
        exact this
      exact good_step (ih hs) hst hg'

/-- every run of well-scoped top-level computations that create no NonAsyncContext - synchronous calls allowed -
    in which the MAX_TASK_STACK_SIZE guard never fires finishes, whatever the flush oracle answers -/
theorem terminates (cfg : Cfg) (tops : List (Conv × Body)) (choices : List (Nat × Nat))
    (hws : ∀ p ∈ tops, P10.WellScoped p.2 0 0 = true) (hna : ∀ p ∈ tops, Spec.bodyHasNonAsync p.2 = false)
    (hg : ∀ n, (runFuel n (initState cfg tops choices)).guardFired = false) :
    ∃ n, (runFuel n (initState cfg tops choices)).isDone = true :=
  terminates_aux _ _ _ (good_init cfg tops choices hws hna) (pathOK_init cfg tops choices) hg rfl

/-! ### bookkeeping for counterexamples -/

theorem runFuel_add (a : Nat) : ∀ (b : Nat) (s : State), runFuel (a + b) s = runFuel b (runFuel a s) := by
  induction a with
  | zero => intro b s; simp [runFuel]
  | succ a ih =>
    intro b s
    rw [Nat.succ_add]
    show runFuel (a + b + 1) s = runFuel b (runFuel (a + 1) s)
    rw [runFuel, runFuel]
    split
    · rename_i hd; exact (runFuel_of_done b s hd).symm
    · exact ih b (step s)

/-- a run that reaches a non-finished state `x` with `step (step x) = x` alternates between `x` and `step x` for ever -/
theorem cycle_states (x : State) (h1 : x.isDone = false) (h2 : (step x).isDone = false)
    (h3 : step (step x) = x) : ∀ n, runFuel n x = x ∨ runFuel n x = step x := by
  intro n
  induction n with
  | zero => exact Or.inl rfl
  | succ n ih =>
    rw [runFuel_succ']
    rcases ih with e | e <;> rw [e]
    · rw [h1]; exact Or.inr rfl
    · rw [h2]; exact Or.inl (by simpa using h3)

end AsynqModel.Core.P20
